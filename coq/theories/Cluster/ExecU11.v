(** C06 "instance ids strictly increase", part 11: the invariant [EX] across an operation of the
    server that sends compute messages only for tasks that are waiting or have just been given
    back, with their current instance ids (everything except the loss of a worker). *)
From HQ Require Import Base.Prelude Cluster.Types Cluster.Core Cluster.Reactor Cluster.Worker Cluster.Server Cluster.Sys Cluster.Monitors Cluster.RejHyp Cluster.ProofsJob Cluster.ProofsMore Cluster.ProofsTerminal Cluster.ProofsStep Cluster.ProofsFinal Cluster.ProofsOnce Cluster.BijBase Cluster.BijCore Cluster.BijHq Cluster.BijSt Cluster.BijReact Cluster.BijFinal Cluster.InvWBase Cluster.InvBundle Cluster.NoPanicL0 Cluster.NoPanicU0 Cluster.NoPanicU1 Cluster.NoPanicU2 Cluster.NoPanicU6 Cluster.ExecU1 Cluster.ExecU2 Cluster.ExecU4 Cluster.ExecU9 Cluster.ExecU10.
From Coq Require Import ZArith Lia Sorting.Sorted.
Local Open Scope N_scope.

(** * [TT] on sorted task maps *)
Lemma TT_find (T N : tid -> Prop) c c' x t' : CS c -> CS c' -> TT T N c c' -> find_task (c_tasks c') x = Some t' ->
  (exists t, find_task (c_tasks c) x = Some t /\ t_inst t <= t_inst t' /\
             (t_inst t' = t_inst t -> is_waiting t' = true -> is_waiting t = true \/ T x)) \/ N x.
Proof.
  intros Hs Hs' H Hf. destruct (find_task_some _ _ _ Hf) as [Hin Hid].
  destruct (H t' Hin) as [(t & Ht & Ei & Le & W)|Hn]; [left | right; rewrite <- Hid; exact Hn].
  exists t. split; [rewrite <- Hid, <- Ei; apply in_find_task; [exact (CS_sorted _ Hs) | exact Ht]|]. split; [exact Le|]. rewrite <- Hid. exact W.
Qed.

(** * A task that appears in the core was unknown to the job layer *)
Lemma seen_active_or_dead s o x : seen (s_hq s) x = true -> active (s, o) x \/ dead (s, o) x.
Proof.
  unfold seen. intros H. apply andb_true_iff in H. destruct H as [Ha Hb]. apply N.ltb_lt in Ha.
  unfold active, dead, jt, task_state, absent, cnt_of. change (hq_of (s, o)) with (s_hq s).
  destruct (find_job (h_jobs (s_hq s)) (fst x)) as [j|] eqn:Ej; [|right; right; auto].
  destruct (jt_find (j_tasks j) (snd x)) as [v|] eqn:Ev; [|discriminate].
  destruct v.
  - left. exists (j_tasks j). split; [reflexivity|]. unfold jactive. rewrite Ev. left. reflexivity.
  - left. exists (j_tasks j). split; [reflexivity|]. unfold jactive. rewrite Ev. right. reflexivity.
  - right. left. exists JF. split; [reflexivity | unfold terminal; tauto].
  - right. left. exists JX. split; [reflexivity | unfold terminal; tauto].
  - right. left. exists JC. split; [reflexivity | unfold terminal; tauto].
  - right. left. exists JA. split; [reflexivity | unfold terminal; tauto].
Qed.

Lemma new_unseen s s' outs x t' : INV s -> INV s' -> G (s, []) (s', outs) ->
  find_task (c_tasks (s_core s)) x = None -> find_task (c_tasks (s_core s')) x = Some t' -> seen (s_hq s) x = false.
Proof.
  intros HI HI' HG Hn Hf. destruct (seen (s_hq s) x) eqn:Es; [|reflexivity]. exfalso.
  assert (Hact' : active (s', outs) x).
  { apply (active_same (s', []) (s', outs)); [intros; reflexivity|]. apply (cb_b _ (inv_cb _ HI')). apply find_task_present. eauto. }
  destruct (seen_active_or_dead s [] x Es) as [Ha|Hd].
  - apply (cb_b _ (inv_cb _ HI)) in Ha. apply find_task_present in Ha. destruct Ha as (t & Ht). change (core_of (s, [])) with (s_core s) in Ht. congruence.
  - exact (active_not_dead _ _ Hact' (G_dead _ _ _ (inv_fresh _ HI) HG Hd)).
Qed.

(** * Processes found in a sorted list *)
Lemma tags_in ps c : In c (tags ps) -> exists p, In p ps /\ In c (ptags p).
Proof. unfold tags. rewrite in_flat_map. auto. Qed.
Lemma tags_of ps p c : In p ps -> In c (ptags p) -> In c (tags ps).
Proof. unfold tags. rewrite in_flat_map. eauto. Qed.

Lemma ptags_app_down p p' add : p_backlog p' = p_backlog p -> p_down p' = p_down p ++ add ->
  forall c, In c (ptags p') -> In c (ptags p) \/ In c (map ctag (dcts add)).
Proof.
  intros Eb Ed c Hc. unfold ptags in *. rewrite Ed, Eb, dcts_app, map_app in Hc. rewrite !in_app_iff in *. tauto.
Qed.
Lemma pc_app_down x p p' add : p_backlog p' = p_backlog p -> p_down p' = p_down p ++ add -> pc x p' = (pc x p + dc x add)%nat.
Proof. intros Eb Ed. unfold pc. rewrite Ed, Eb, dc_app. lia. Qed.

(** * The transfer *)
Section Server.
Variables (s s' : sys) (pre outs : list out) (T : tid -> Prop).
Hypothesis HE : EX s pre.
Hypothesis HP : PROTO s.
Hypothesis HP' : PROTO s'.
Hypothesis Hcs : CS (s_core s).
Hypothesis Hcs' : CS (s_core s').
Hypothesis Hl : launches outs = [].
Hypothesis Hsm : forall x, seen (s_hq s) x = true -> seen (s_hq s') x = true.
Hypothesis Hnew : forall x t', find_task (c_tasks (s_core s)) x = None -> find_task (c_tasks (s_core s')) x = Some t' -> seen (s_hq s) x = false.
Hypothesis HT : TT T (absent_in s) (s_core s) (s_core s').
Hypothesis Hg : forall x, T x -> exists p, In p (s_procs s) /\ In x (gives (p_up p)).
Hypothesis HF : forall w p', find_proc (s_procs s') w = Some p' ->
  exists p add, find_proc (s_procs s) w = Some p /\ p_backlog p' = p_backlog p /\
    (forall y, In y (gives (p_up p')) -> In y (gives (p_up p))) /\ p_down p' = p_down p ++ add /\
    forall ct, In ct (dcts add) ->
      (exists t', find_task (c_tasks (s_core s')) (ct_id ct) = Some t' /\ ct_inst ct = t_inst t') /\
      (exists t, find_task (c_tasks (s_core s)) (ct_id ct) = Some t /\ (is_waiting t = true \/ T (ct_id ct))).

Let Hps := pr_sorted _ HP.
Let Hps' := pr_sorted _ HP'.

Lemma srv_launches : launches (pre ++ outs) = launches pre.
Proof. rewrite launches_app, Hl, app_nil_r. reflexivity. Qed.

(** a copy in [s'] is a copy in [s] or a new one *)
Lemma srv_tags c : In c (tags (s_procs s')) -> In c (tags (s_procs s)) \/
  exists ct, ctag ct = c /\ (exists t', find_task (c_tasks (s_core s')) (ct_id ct) = Some t' /\ ct_inst ct = t_inst t') /\
             (exists t, find_task (c_tasks (s_core s)) (ct_id ct) = Some t /\ (is_waiting t = true \/ T (ct_id ct))).
Proof.
  intros Hc. destruct (tags_in _ _ Hc) as (p' & Hin' & Hc'). pose proof (in_find_proc _ _ Hps' Hin') as Hf'.
  destruct (HF _ _ Hf') as (p & add & Hf & Eb & _ & Ed & Hadd).
  destruct (ptags_app_down p p' add Eb Ed c Hc') as [Ho|Hn].
  - left. eapply tags_of; [exact (proj1 (NoPanicL0.find_proc_some _ _ _ Hf)) | exact Ho].
  - right. apply in_map_iff in Hn. destruct Hn as (ct & E & Hct). exists ct. split; [exact E|]. exact (Hadd ct Hct).
Qed.

(** a task that is not sendable gets no new copy *)
Lemma srv_cc x : (forall t, find_task (c_tasks (s_core s)) x = Some t -> is_waiting t = true \/ T x -> False) ->
  (cc x (s_procs s') <= cc x (s_procs s))%nat.
Proof.
  intros Hno. apply cc_le; [exact Hps' | exact Hps|]. intros p' Hin'. pose proof (in_find_proc _ _ Hps' Hin') as Hf'.
  destruct (HF _ _ Hf') as (p & add & Hf & Eb & _ & Ed & Hadd). exists p. split; [exact Hf|].
  rewrite (pc_app_down x p p' add Eb Ed). assert (Hz : dc x add = O); [|lia].
  unfold dc. destruct (ccnt x (dcts add)) eqn:E; [reflexivity|]. exfalso.
  assert (Hpos : (0 < ccnt x (dcts add))%nat) by lia. apply ccnt_pos in Hpos. destruct Hpos as (ct & Hct & Hid).
  destruct (Hadd ct Hct) as (_ & t & Ht & Hs). rewrite Hid in Ht, Hs. exact (Hno t Ht Hs).
Qed.
Lemma srv_cc_absent x : find_task (c_tasks (s_core s')) x = None -> (cc x (s_procs s') <= cc x (s_procs s))%nat.
Proof.
  intros Hn. apply cc_le; [exact Hps' | exact Hps|]. intros p' Hin'. pose proof (in_find_proc _ _ Hps' Hin') as Hf'.
  destruct (HF _ _ Hf') as (p & add & Hf & Eb & _ & Ed & Hadd). exists p. split; [exact Hf|].
  rewrite (pc_app_down x p p' add Eb Ed). assert (Hz : dc x add = O); [|lia].
  unfold dc. destruct (ccnt x (dcts add)) eqn:E; [reflexivity|]. exfalso.
  assert (Hpos : (0 < ccnt x (dcts add))%nat) by lia. apply ccnt_pos in Hpos. destruct Hpos as (ct & Hct & Hid).
  destruct (Hadd ct Hct) as ((t' & Ht' & _) & _). rewrite Hid in Ht'. congruence.
Qed.

(** the origin of a task of [s'] *)
Lemma srv_origin x t' : find_task (c_tasks (s_core s')) x = Some t' ->
  (exists t, find_task (c_tasks (s_core s)) x = Some t /\ t_inst t <= t_inst t' /\
             (t_inst t' = t_inst t -> is_waiting t' = true -> is_waiting t = true \/ T x)) \/
  (find_task (c_tasks (s_core s)) x = None /\ seen (s_hq s) x = false).
Proof.
  intros Hf. destruct (TT_find _ _ _ _ _ _ Hcs Hcs' HT Hf) as [X|Hn]; [left; exact X|]. right. split; [exact Hn | eapply Hnew; eassumption].
Qed.

(** a copy in [s] is of a task the job layer has seen *)
Lemma copy_seen x j : In (x, j) (tags (s_procs s)) -> seen (s_hq s) x = true.
Proof.
  intros Hc. destruct (tags_in _ _ Hc) as (p & Hin & Hc'). apply (pr_seen _ HP (p_id p) p x (in_find_proc _ _ Hps Hin)).
  unfold ptags in Hc'. unfold proc_tids. apply in_app_iff in Hc'. destruct Hc' as [A|A]; apply in_map_iff in A; destruct A as (y & E & Hy); inversion E; subst.
  - apply in_app_iff. left. unfold dcts in Hy. apply in_flat_map in Hy. destruct Hy as (m & Hm & Hy). apply in_flat_map. exists m. split; [exact Hm|].
    destruct m; try destruct Hy. cbn. apply in_map. exact Hy.
  - apply in_app_iff. right. apply in_app_iff. right. apply in_app_iff. left. unfold bts in Hy. apply in_flat_map in Hy. destruct Hy as (kv & Hk & Hy).
    apply in_flat_map. exists kv. split; [exact Hk | apply in_map; exact Hy].
Qed.

Theorem EX_server : EX s' (pre ++ outs).
Proof.
  destruct HE as [EU EH EH2 ES1 ES2 EL EM]. constructor; rewrite ?srv_launches.
  - (* U *) intros x. destruct (find_task (c_tasks (s_core s')) x) as [t'|] eqn:Ef; [exact (known_cc s' HP' x t' Ef)|].
    pose proof (srv_cc_absent x Ef). specialize (EU x). lia.
  - (* H *) intros x j Hc. destruct (srv_tags _ Hc) as [Ho|(ct & E & (t' & Ht' & Ej) & (t & Ht & Hs))]; [exact (EH x j Ho)|].
    unfold ctag in E. inversion E; subst x j. intros l Hin Hlt.
    destruct (srv_origin _ _ Ht') as [(t0 & Ht0 & Le & _)|[Hn _]]; [|congruence]. rewrite Ht in Ht0. inversion Ht0; subst t0.
    pose proof (ES1 _ _ Ht l Hin Hlt) as Hle. rewrite Ej.
    destruct (N.eq_dec (l_inst l) (t_inst t')) as [Eq|Ne]; [|lia]. exfalso.
    assert (Et : t_inst t = l_inst l) by lia.
    destruct (ES2 _ _ Ht (ex_intro _ l (conj Hin (conj Hlt (eq_sym Et))))) as (Hw & _ & Hng).
    destruct Hs as [Hs|Hs]; [congruence|]. destruct (Hg _ Hs) as (p & Hp & Hgp). exact (Hng p Hp Hgp).
  - (* H2 *) intros x j t'' Hc Hf''. destruct (srv_tags _ Hc) as [Ho|(ct & E & (t' & Ht' & Ej) & _)].
    + destruct (srv_origin _ _ Hf'') as [(t0 & Ht0 & Le & _)|[_ Hns]]; [|rewrite (copy_seen _ _ Ho) in Hns; discriminate].
      pose proof (EH2 _ _ _ Ho Ht0). lia.
    + unfold ctag in E. inversion E; subst x j. rewrite Hf'' in Ht'. inversion Ht'; subst. lia.
  - (* S1 *) intros x t' Hf' l Hin Hlt. destruct (srv_origin _ _ Hf') as [(t0 & Ht0 & Le & _)|[_ Hns]].
    + pose proof (ES1 _ _ Ht0 l Hin Hlt). lia.
    + rewrite <- Hlt, (EL l Hin) in Hns. discriminate.
  - (* S2 *) intros x t' Hf' (l & Hin & Hlt & Hli).
    destruct (srv_origin _ _ Hf') as [(t0 & Ht0 & Le & W)|[_ Hns]]; [|rewrite <- Hlt, (EL l Hin) in Hns; discriminate].
    pose proof (ES1 _ _ Ht0 l Hin Hlt) as Hle. assert (Et : t_inst t' = t_inst t0) by lia.
    assert (Eli : l_inst l = t_inst t0) by lia.
    destruct (ES2 _ _ Ht0 (ex_intro _ l (conj Hin (conj Hlt Eli)))) as (Hw & Hc0 & Hng).
    assert (Hns : is_waiting t0 = true \/ T x -> False).
    { intros [A|A]; [congruence|]. destruct (Hg _ A) as (p & Hp & Hgp). exact (Hng p Hp Hgp). }
    split; [|split].
    + destruct (is_waiting t') eqn:Ew; [|reflexivity]. exfalso. exact (Hns (W Et eq_refl)).
    + assert (X : (cc x (s_procs s') <= cc x (s_procs s))%nat).
      { apply srv_cc. intros t Ht Hs. rewrite Ht0 in Ht. inversion Ht; subst t. exact (Hns Hs). }
      lia.
    + intros p' Hin' Hgp'. pose proof (in_find_proc _ _ Hps' Hin') as Hf''.
      destruct (HF _ _ Hf'') as (p & add & Hf & _ & Hgs & _). exact (Hng p (proj1 (NoPanicL0.find_proc_some _ _ _ Hf)) (Hgs _ Hgp')).
  - (* L *) intros l Hin. apply Hsm. exact (EL l Hin).
  - (* M *) exact EM.
Qed.
End Server.
