(** C03, the dependency invariant, part 9: every operation of the system model keeps it, and it
    holds in every reachable state.

    Premises that other invariants deliver (about the state BEFORE the operation):
      [QSTMT] the queue invariant (which ids are in the ready queues / prefill sets),
      [WSTMT] the worker-set invariant (a task in a worker's assigned set is placed: needed
              because [lost_assigned] re-queues such a task as [Waiting 0] without looking).
    The job layer enters once: a new task id must not be a dependency of a task already in the
    core.  This is the side invariant [DJ] (dependencies are ids known to the job layer, in the
    task's own job), proved here from the bijection [CB] of BijFinal.v. *)
From HQ Require Import Base.Prelude Cluster.Types Cluster.Core Cluster.Reactor Cluster.Worker Cluster.Server Cluster.Sys Cluster.Monitors Cluster.ProofsJob Cluster.ProofsMore Cluster.ProofsTerminal Cluster.ProofsStep Cluster.ProofsFinal Cluster.BijBase Cluster.BijCore Cluster.BijHq Cluster.BijSt Cluster.BijReact Cluster.BijFinal Cluster.FrameGen Cluster.CrashFrame Cluster.RejHyp Cluster.InvDBase Cluster.InvDMap Cluster.InvDSpec Cluster.InvDRem Cluster.InvDReact Cluster.InvDSched Cluster.InvDNew Cluster.InvDHq.
From Coq Require Import ZArith Lia Sorting.Sorted.
Local Open Scope N_scope.

Arguments N.add : simpl never.
Arguments N.sub : simpl never.

(** The inductive invariant, on the core ... *)
Definition DIc (c : core) : Prop := DI (fm c).
(** ... and its job-layer companion. *)
Definition DJ (s : st) : Prop :=
  forall id t d, fm (core_of s) id = Some t -> In d (t_deps t) -> fst d = fst id /\ known s d.

Definition PRE (s : st) : Prop := GD (core_of s) /\ DJ s.

Lemma DJ_step s s' : DJ s -> dsub (fm (core_of s)) (fm (core_of s')) -> KL s s' -> DJ s'.
Proof.
  intros D S K id t' d Ef Hd. destruct (S _ _ Ef) as (t & Et & Ed). rewrite Ed in Hd.
  destruct (D _ _ _ Et Hd) as [A B]. split; [exact A | eapply KL_known; eassumption].
Qed.

Lemma PRE_RL s s' : PRE s -> RL (core_of s) (core_of s') -> KL s s' -> PRE s'.
Proof. intros [G D] [G' S] K. split; [exact G' | eapply DJ_step; eassumption]. Qed.

Lemma PRE_frame s s' : c_tasks (core_of s') = c_tasks (core_of s) -> KL s s' -> PRE s -> PRE s'.
Proof.
  intros E K P. eapply PRE_RL; [exact P | | exact K]. apply RL_scr; [apply P | apply scr_tasks; exact E].
Qed.

Lemma active_known s x : active s x -> known s x.
Proof. intros (l & Hl & [Ha|Ha]); exists l; (split; [exact Hl | rewrite Ha; discriminate]). Qed.

(** * Submits *)
Lemma attach_ids_fresh ids : forall j j', attach_ids j ids = Ok j' -> forall i, In i ids -> jt_find (j_tasks j) i = None.
Proof.
  induction ids as [|i0 r IH]; cbn [attach_ids]; intros j j' H i Hin; [destruct Hin|].
  destruct (jt_find (j_tasks j) i0) eqn:Ef; [discriminate|]. destruct Hin as [<-|Hin]; [exact Ef|].
  pose proof (IH _ _ H i Hin) as Hn. cbn [job_set_task job_upd j_tasks] in Hn. rewrite jt_find_set in Hn.
  destruct (N.eqb i i0); [discriminate | exact Hn].
Qed.

Lemma submit_tail_D s4 jid ids tasks s' :
  PRE s4 -> CB s' ->
  map t_id tasks = map (fun i => (jid, i)) ids -> Forall new_ok tasks -> Forall new_wf tasks ->
  (do j <- hq_get_job s4 jid 222;
   do j' <- attach_ids j ids;
   do s6 <- on_new_tasks (hq_set_job s4 j') tasks;
   submit_ok_resp s6 jid) = Ok s' ->
  PRE s'.
Proof.
  intros [G4 D4] HC' Hids Hok Hwf H.
  apply bind_ok in H. destruct H as (j & Hj & H). apply bind_ok in H. destruct H as (j' & Ha & H).
  apply bind_ok in H. destruct H as (s6 & H6 & H).
  destruct (jt_get _ _ _ _ Hj) as [Ej Eid]. destruct (attach_ids_ldom _ _ _ Ha) as [I1 L1].
  pose proof (attach_ids_fresh _ _ _ Ha) as Hfr.
  set (s5 := hq_set_job s4 j') in *.
  assert (Hnd : forall t x tx, In t tasks -> fm (core_of s5) x = Some tx -> ~ In (t_id t) (t_deps tx)).
  { intros t x tx Hin Ex Hdep. change (fm (core_of s4) x = Some tx) in Ex.
    destruct (D4 _ _ _ Ex Hdep) as [_ (l & Hl & Hk)].
    assert (Hi : In (t_id t) (map (fun i => (jid, i)) ids)) by (rewrite <- Hids; apply in_map; exact Hin).
    apply in_map_iff in Hi. destruct Hi as (i & Ei & Hi). rewrite <- Ei in Hl, Hk. cbn [fst snd] in Hl, Hk.
    rewrite Ej in Hl. inversion Hl; subst l. apply Hk. apply Hfr. exact Hi. }
  destruct (on_new_tasks_DI s5 tasks s6 G4 Hwf Hnd H6) as [G6 Gr6].
  assert (Hs' : c_tasks (core_of s') = c_tasks (core_of s6) /\ hq_of s' = hq_of s6).
  { unfold submit_ok_resp in H. apply bind_ok in H. destruct H as (jx & _ & H). inversion H; subst. split; reflexivity. }
  destruct Hs' as [Ts' Qs'].
  assert (K : KL s4 s').
  { eapply KL_trans; [eapply (KL_set s4 s5 j' (j_tasks j)); [rewrite I1, Eid; exact Ej | exact L1 | intros id; reflexivity]|].
    apply KL_same. rewrite Qs'. eapply on_new_tasks_hq; exact H6. }
  assert (Efm : fm (core_of s') = fm (core_of s6)) by (unfold fm; rewrite Ts'; reflexivity).
  split; [eapply GD_tasks; [exact Ts' | exact G6]|].
  intros x tx' d Ex Hd. rewrite Efm in Ex.
  destruct (Gr6 _ _ Ex) as [(tx & Etx & Ed)|(t & Hin & -> & Hincl & Hdom)].
  - rewrite Ed in Hd. destruct (D4 _ _ _ Etx Hd) as [A B]. split; [exact A | eapply KL_known; eassumption].
  - rewrite Forall_forall in Hok. destruct (Hok _ Hin) as [_ Hjob]. split; [apply Hjob; apply Hincl; exact Hd|].
    apply active_known. apply (cb_b _ HC'). apply find_task_present.
    specialize (Hdom d Hd). rewrite <- Efm in Hdom. unfold fm in Hdom. destruct (find_task (c_tasks (core_of s')) d); [eauto | congruence].
Qed.

Lemma PRE_new_job s ev mf :
  fresh s -> PRE s ->
  PRE (hq_with (emit (hq_with s (hq_jobs s) (hq_counter s + 1)) ev)
         (set_job (hq_jobs (emit (hq_with s (hq_jobs s) (hq_counter s + 1)) ev)) (mkJob (hq_counter s) false [] 0 0 0 0 0 false mf))
         (hq_counter (emit (hq_with s (hq_jobs s) (hq_counter s + 1)) ev))).
Proof.
  intros F P. eapply (PRE_frame s); [reflexivity | | exact P].
  eapply KL_trans; [apply (KL_jt s (emit (hq_with s (hq_jobs s) (hq_counter s + 1)) ev))|].
  - (* only the counter changed: every [jt] is the same *) intros id. reflexivity.
  - apply KL_new_job. change (jt s (cnt_of s) = None). apply fresh_absent. exact F.
Qed.

Lemma handle_submit_array_D s jobsel ids entries rq prio cl tlim mf s' :
  fresh s -> PRE s -> CB s' -> (match entries with Some n => (length ids <= N.to_nat n)%nat | None => True end) ->
  handle_submit_array s jobsel ids entries rq prio cl tlim mf = Ok s' -> PRE s'.
Proof.
  intros F P HC' Hwf H. unfold handle_submit_array in H.
  match type of H with (match ?x with Some _ => _ | None => _ end) = _ => destruct x end;
    [inversion H; subst; eapply PRE_frame; [| |exact P]; [reflexivity | apply KL_same; reflexivity]|].
  apply bind_ok in H. destruct H as ([acc s1] & Hr & H).
  destruct acc as [[[jid is_new] ids']|].
  - cbv zeta in H.
    match type of H with context [get_or_create_rq ?sx rq] => set (s3 := sx) in *; destruct (get_or_create_rq s3 rq) as [s4 rqi] eqn:Erq end.
    assert (P3 : PRE s3 /\ (match entries with Some n => (length ids' <= N.to_nat n)%nat | None => True end)).
    { destruct jobsel as [j0|].
      - destruct (find_job (hq_jobs s) j0) as [j|] eqn:Ef; [|inversion Hr].
        destruct (negb (j_open j)); [inversion Hr|]. inversion Hr; subst. split.
        + subst s3. eapply PRE_frame; [| |exact P]; [reflexivity | apply KL_same; reflexivity].
        + destruct ids; [|exact Hwf]. destruct entries as [n|]; [|exact I]. rewrite range_from_length. lia.
      - inversion Hr; subst. split.
        + subst s3. apply PRE_new_job; assumption.
        + destruct ids; [|exact Hwf]. destruct entries as [n|]; [|exact I]. rewrite range_from_length. lia. }
    destruct P3 as [P3 Hwf'].
    pose proof (get_or_create_rq_tasks s3 rq) as T4. rewrite Erq in T4. cbn [fst] in T4.
    pose proof (get_or_create_rq_same s3 rq) as Q4. rewrite Erq in Q4. cbn [fst] in Q4.
    assert (P4 : PRE s4) by (eapply PRE_frame; [exact T4 | apply KL_same; exact Q4 | exact P3]).
    eapply (submit_tail_D s4 jid ids'); [exact P4 | exact HC' | | | | exact H].
    + rewrite map_map. cbn. destruct entries as [n|]; [rewrite take_n_all; [reflexivity | exact Hwf'] | reflexivity].
    + apply Forall_forall. intros t Ht. apply in_map_iff in Ht. destruct Ht as (i & <- & _). split; [reflexivity | intros d []].
    + apply Forall_forall. intros t Ht. apply in_map_iff in Ht. destruct Ht as (i & <- & _). split; [constructor | reflexivity].
  - assert (E1 : c_tasks (core_of s1) = c_tasks (core_of s) /\ hq_of s1 = hq_of s).
    { destruct jobsel as [jid|]; [|inversion Hr].
      destruct (find_job (hq_jobs s) jid) as [j|]; [|inversion Hr; subst; split; reflexivity].
      destruct (negb (j_open j)); inversion Hr; subst; split; reflexivity. }
    assert (E2 : c_tasks (core_of s') = c_tasks (core_of s1) /\ hq_of s' = hq_of s1).
    { destruct jobsel; [match type of H with (match ?x with Some _ => _ | None => _ end) = _ => destruct x end|];
        inversion H; subst; split; reflexivity. }
    destruct E1 as [A1 A2], E2 as [B1 B2]. eapply PRE_frame; [rewrite B1; exact A1 | apply KL_same; rewrite B2; exact A2 | exact P].
Qed.

(** Graph submits: the dependency lists are duplicate-free. *)
Lemma tid_insert_sorted x l : StronglySorted tlt l -> StronglySorted tlt (tid_insert x l).
Proof.
  induction l as [|h t IH]; cbn [tid_insert]; intros Hs; [repeat constructor|].
  destruct (tid_eqb x h) eqn:E; [exact Hs|]. destruct (tid_ltb x h) eqn:L.
  - constructor; [exact Hs|]. constructor; [exact L|]. rewrite Forall_forall. intros y Hy.
    eapply tlt_trans; [exact L | eapply sorted_head_lt; eassumption].
  - inversion Hs as [|? ? Hs' Hall]; subst. constructor; [apply IH; exact Hs'|].
    rewrite Forall_forall in *. intros y Hy. destruct (tid_insert_sub _ _ _ Hy) as [->|Hy']; [|apply Hall; exact Hy'].
    apply tlt_total; assumption.
Qed.

Lemma tsorted_nodup l : StronglySorted tlt l -> NoDup l.
Proof.
  induction 1 as [|h t Hs IH Hall]; constructor; [|exact IH].
  intros Hin. rewrite Forall_forall in Hall. exact (tlt_irrefl _ (Hall _ Hin)).
Qed.

Lemma dedup_sorted_sorted l : forall acc j, StronglySorted tlt acc -> StronglySorted tlt (dedup_sorted l acc j).
Proof. induction l as [|h t IH]; cbn [dedup_sorted]; intros acc j Hs; [exact Hs | apply IH, tid_insert_sorted, Hs]. Qed.

Lemma graph_tasks_wf jid rqis l : forall tasks, graph_tasks jid rqis l = Ok tasks -> Forall new_wf tasks.
Proof.
  induction l as [|g r IH]; cbn [graph_tasks]; intros tasks H; [inversion H; subst; constructor|].
  destruct (nth_error rqis (N.to_nat (gt_rq g))) as [rqi|]; [|discriminate].
  apply bind_ok in H. destruct H as (rest & Hr & H). inversion H; subst. constructor; [|apply IH; exact Hr].
  split; [|reflexivity]. cbn. apply tsorted_nodup. apply dedup_sorted_sorted. constructor.
Qed.

Lemma handle_submit_graph_D s jobsel rqs ts mf s' :
  fresh s -> PRE s -> CB s' -> handle_submit_graph s jobsel rqs ts mf = Ok s' -> PRE s'.
Proof.
  intros F P HC' H. unfold handle_submit_graph in H.
  apply bind_ok in H. destruct H as (v1 & _ & H).
  match type of H with (match ?x with Some _ => _ | None => _ end) = _ => destruct x end;
    [inversion H; subst; eapply PRE_frame; [| |exact P]; [reflexivity | apply KL_same; reflexivity]|].
  apply bind_ok in H. destruct H as ([acc s1] & Hr & H).
  destruct acc as [[jid is_new]|].
  - cbv zeta in H.
    match type of H with context [fold_left ?f rqs (?sx, [])] => set (s3 := sx) in *; destruct (fold_left f rqs (s3, [])) as [s4 rqis] eqn:Erq end.
    assert (P3 : PRE s3).
    { destruct jobsel as [j0|].
      - destruct (find_job (hq_jobs s) j0) as [j|] eqn:Ef; [|inversion Hr].
        destruct (negb (j_open j)); [inversion Hr|]. inversion Hr; subst.
        subst s3. eapply PRE_frame; [| |exact P]; [reflexivity | apply KL_same; reflexivity].
      - inversion Hr; subst. subst s3. apply PRE_new_job; assumption. }
    pose proof (fold_rqs_tasks _ _ _ _ _ Erq) as T4. pose proof (fold_rqs_same _ _ _ _ _ Erq) as Q4.
    assert (P4 : PRE s4) by (eapply PRE_frame; [exact T4 | apply KL_same; exact Q4 | exact P3]).
    apply bind_ok in H. destruct H as (j & Hj & H). apply bind_ok in H. destruct H as (j' & Ha & H).
    apply bind_ok in H. destruct H as (tasks & Hg & H).
    destruct (graph_tasks_spec _ _ _ _ Hg) as [G1 G2].
    eapply (submit_tail_D s4 jid (map gt_id ts) tasks); [exact P4 | exact HC' | exact G1 | exact G2 | eapply graph_tasks_wf; exact Hg|].
    rewrite Hj. cbn [bind]. rewrite Ha. cbn [bind]. exact H.
  - assert (E1 : c_tasks (core_of s1) = c_tasks (core_of s) /\ hq_of s1 = hq_of s).
    { destruct jobsel as [jid|]; [|inversion Hr].
      destruct (find_job (hq_jobs s) jid) as [j|]; [|inversion Hr; subst; split; reflexivity].
      destruct (negb (j_open j)); inversion Hr; subst; split; reflexivity. }
    inversion H; subst. destruct E1 as [A1 A2]. eapply PRE_frame; [exact A1 | apply KL_same; exact A2 | exact P].
Qed.

(** * Open, close, cancel, forget *)
Lemma handle_open_D s mf s' : fresh s -> PRE s -> handle_open s mf = Ok s' -> PRE s'.
Proof.
  intros F P H. unfold handle_open in H. inversion H; subst.
  eapply (PRE_frame s); [reflexivity | | exact P].
  eapply KL_trans; [apply (KL_new_job s (hq_counter s) true mf (hq_counter s + 1)); change (jt s (cnt_of s) = None); apply fresh_absent; exact F | apply KL_same; reflexivity].
Qed.

Lemma handle_close_D s jid s' : PRE s -> handle_close s jid = Ok s' -> PRE s'.
Proof.
  intros P H. eapply PRE_frame; [| eapply handle_close_KL; exact H | exact P].
  unfold handle_close in H.
  destruct (find_job (hq_jobs s) jid) as [j|]; [|inversion H; subst; reflexivity].
  destruct (j_open j); [|inversion H; subst; reflexivity].
  apply bind_ok in H. destruct H as (s1 & H1 & H). inversion H; subst.
  destruct (check_termination_jt _ _ _ H1) as [C1 _]. unfold core_same in C1.
  change (c_tasks (core_of s1) = c_tasks (core_of s)). rewrite C1. reflexivity.
Qed.

Lemma handle_cancel_D s jid s' : PRE s -> handle_cancel s jid = Ok s' -> PRE s'.
Proof.
  intros P H. eapply PRE_RL; [exact P | | eapply handle_cancel_KL; exact H].
  unfold handle_cancel in H.
  destruct (find_job (hq_jobs s) jid) as [j|]; [|inversion H; subst; apply RL_refl; apply P].
  destruct (non_finished_task_ids j) as [|i0 ir]; [inversion H; subst; apply RL_refl; apply P|].
  apply bind_ok in H. destruct H as (s1 & H1 & H). apply bind_ok in H. destruct H as (al & _ & H).
  apply bind_ok in H. destruct H as (s2 & H2 & H). inversion H; subst.
  destruct (set_cancel_state_active _ _ _ _ H2) as [C2 _]. unfold core_same in C2.
  change (RL (core_of s) (core_of s2)). rewrite C2.
  eapply on_cancel_tasks_RL; [apply P | exact H1].
Qed.

Lemma handle_forget_D s jid s' : PRE s -> CB s' -> handle_forget s jid = Ok s' -> PRE s'.
Proof.
  intros [G D] HC' H. unfold handle_forget in H.
  destruct (find_job (hq_jobs s) jid) as [j|] eqn:Ej; [|inversion H; subst; split; [exact G | exact D]].
  apply bind_ok in H. destruct H as (na & _ & H).
  destruct (negb (j_open j) && na); [|inversion H; subst; split; [exact G | exact D]].
  inversion H; subst. split; [exact G|].
  match goal with |- DJ ?sx => set (s' := sx) in * end.
  assert (E : forall id, jt s' id = if N.eqb id jid then None else jt s id).
  { intros id. unfold jt, hq_of, s', hq_with, hq_jobs. cbn. destruct (N.eqb id jid) eqn:E.
    - apply N.eqb_eq in E. subst id. rewrite find_job_del_same. reflexivity.
    - apply N.eqb_neq in E. rewrite find_job_del by exact E. reflexivity. }
  intros x t d Ex Hd. change (fm (core_of s) x = Some t) in Ex.
  destruct (D _ _ _ Ex Hd) as [A (l & Hl & Hk)]. split; [exact A|].
  assert (Hact : active s' x).
  { apply (cb_b _ HC'). apply find_task_present. exists t. exact Ex. }
  destruct Hact as (lx & Hlx & _). rewrite E in Hlx. rewrite <- A in Hlx.
  exists l. split; [|exact Hk]. rewrite E. destruct (N.eqb (fst d) jid); [discriminate | exact Hl].
Qed.

(** * One operation *)
Lemma TS_of_CS c : CS c -> TS c.
Proof. apply TS_CS. Qed.

Theorem deps_invariant_step_pre s o s' outs :
  QSTMT (s_core s) -> WSTMT (s_core s) ->
  HOK (s_hq s) -> fresh (s, []) -> op_wf o -> CB (s, []) -> PRE (s, []) ->
  step s o = Ok (s', outs) -> PRE (s', outs).
Proof.
  intros HQ HW Hok F Hwf HC P H.
  pose proof (step_CB _ _ _ _ Hok F Hwf HC H) as HC'.
  destruct o; cbn [step] in H.
  - eapply PRE_frame; [| apply KL_same; eapply on_new_worker_same; exact H | exact P].
    unfold on_new_worker in H. inversion H; subst. reflexivity.
  - destruct (find_proc _ w); [|discriminate].
    eapply PRE_RL; [exact P | | eapply on_remove_worker_KL; exact H].
    eapply on_remove_worker_RL; [apply P | apply QSTMT_QA; exact HQ | exact HW | exact H].
  - destruct (bad_submit_lengths _ _); [inversion H; subst; eapply PRE_frame; [| |exact P]; [reflexivity | apply KL_same; reflexivity]|]. eapply handle_submit_array_D; [exact F | exact P | exact HC' | | exact H]. destruct entries; exact Hwf.
  - destruct (bad_graph_rq _ _); [inversion H; subst; eapply PRE_frame; [| |exact P]; [reflexivity | apply KL_same; reflexivity]|]. destruct (dead_dep _ _ _); [inversion H; subst; eapply PRE_frame; [| |exact P]; [reflexivity | apply KL_same; reflexivity]|]. eapply handle_submit_graph_D; eassumption.
  - eapply handle_open_D; eassumption.
  - eapply handle_close_D; eassumption.
  - eapply handle_cancel_D; eassumption.
  - eapply handle_forget_D; eassumption.
  - destruct (find_proc _ w) as [p|]; [|discriminate]. destruct (p_down p); [discriminate|].
    inv_binds H. inversion H; subst. eapply PRE_frame; [| |exact P]; [reflexivity | apply KL_same; reflexivity].
  - destruct (find_proc _ w) as [p|]; [|discriminate]. destruct (p_up p) as [|m rest]; [discriminate|].
    match type of H with match m with _ => _ end = _ => idtac end.
    destruct m.
    + match type of H with on_task_update ?s1 _ _ = _ =>
        assert (P1 : PRE s1) by (eapply PRE_frame; [| |exact P]; [reflexivity | apply KL_same; reflexivity]);
        eapply PRE_RL; [exact P1 | eapply on_task_update_RL; [apply P1 | exact H] | eapply on_task_update_KL; exact H] end.
    + match type of H with on_retract_response ?s1 _ _ = _ =>
        assert (P1 : PRE s1) by (eapply PRE_frame; [| |exact P]; [reflexivity | apply KL_same; reflexivity]);
        eapply PRE_RL; [exact P1 | apply RL_scr; [apply P1 | eapply on_retract_response_scr; exact H] | apply KL_same; eapply on_retract_response_same; exact H] end.
  - destruct (c_flag (s_core s)); [|discriminate].
    eapply PRE_RL; [exact P | apply RL_scr; [apply P | eapply run_scheduling_scr; [apply QSTMT_QA; exact HQ | exact H]] | apply KL_same; eapply run_scheduling_same; exact H].
  - destruct (find_proc _ w) as [p|]; [|discriminate]. inv_binds H. inversion H; subst.
    eapply PRE_frame; [| |exact P]; [reflexivity | apply KL_same; reflexivity].
  - destruct (find_proc _ w) as [p|]; [|discriminate]. inversion H; subst.
    eapply PRE_frame; [| |exact P]; [reflexivity | apply KL_same; reflexivity].
  - inversion H; subst. eapply PRE_frame; [| |exact P]; [reflexivity | apply KL_same; reflexivity].
  - inv_binds H. inversion H; subst. eapply PRE_frame; [| |exact P]; [reflexivity | apply KL_same; reflexivity].
Qed.

(** The step theorem in the requested shape: the dependency invariant [DIc] of the core is
    inductive, given the queue and worker-set facts about the pre-state and the job-layer
    invariants that hold along every run ([HOK], [fresh], [CB] of the existing development and the
    companion [DJ] proved above). *)
Theorem deps_invariant_step s o s' outs :
  QSTMT (s_core s) -> WSTMT (s_core s) -> DIc (s_core s) -> CS (s_core s) ->
  HOK (s_hq s) -> fresh (s, []) -> op_wf o -> CB (s, []) -> DJ (s, []) ->
  step s o = Ok (s', outs) -> DIc (s_core s') /\ DJ (s', outs).
Proof.
  intros HQ HW D Hs Hok F Hwf HC J H.
  assert (P : PRE (s, [])) by (split; [split; [apply TS_of_CS; exact Hs | exact D] | exact J]).
  destruct (deps_invariant_step_pre _ _ _ _ HQ HW Hok F Hwf HC P H) as [[_ D'] J']. split; [exact D' | exact J'].
Qed.

(** * Every history *)
Lemma run_app a : forall s b s' outs, run s (a ++ b) = Ok (s', outs) ->
  exists s1 o1 o2, run s a = Ok (s1, o1) /\ run s1 b = Ok (s', o2) /\ outs = o1 ++ o2.
Proof.
  induction a as [|o r IH]; cbn [app run]; intros s b s' outs H.
  - exists s, [], outs. split; [reflexivity | split; [exact H | reflexivity]].
  - apply bind_ok in H. destruct H as ([s1 o1] & H1 & H). apply bind_ok in H. destruct H as ([s2 o2] & H2 & H). inversion H; subst.
    destruct (IH _ _ _ _ H2) as (sa & oa & ob & Ha & Hb & ->).
    exists sa, (o1 ++ oa), ob. rewrite H1. cbn [bind]. rewrite Ha. cbn [bind]. split; [reflexivity | split; [exact Hb | apply app_assoc]].
Qed.

Lemma run_fresh_app a : forall s b, run_fresh s (a ++ b) = true ->
  run_fresh s a = true /\ forall s1 o1, run s a = Ok (s1, o1) -> run_fresh s1 b = true.
Proof.
  induction a as [|o r IH]; cbn [app]; intros s b H.
  - split; [reflexivity|]. intros s1 o1 H1. cbn in H1. inversion H1; subst. exact H.
  - cbn [run_fresh] in H |- *. apply andb_true_iff in H. destruct H as [H0 H]. rewrite H0. cbn [andb].
    destruct (step s o) as [[s1 o1]| |] eqn:Es.
    + destruct (IH _ _ H) as [A B]. split; [exact A|]. intros s2 o2 H2. cbn [run] in H2. rewrite Es in H2. cbn [bind] in H2.
      apply bind_ok in H2. destruct H2 as ([s3 o3] & H3 & H2). inversion H2; subst. eapply B. exact H3.
    + split; [reflexivity|]. intros s2 o2 H2. cbn [run] in H2. rewrite Es in H2. discriminate.
    + split; [reflexivity|]. intros s2 o2 H2. cbn [run] in H2. rewrite Es in H2. discriminate.
Qed.

Lemma PRE_outs s o1 o2 : PRE (s, o1) -> PRE (s, o2).
Proof. intros P. exact P. Qed.

Section Run.
(** The two facts delivered by the queue invariant and the worker-set invariant. *)
Hypothesis HQ : forall ops r m s outs, Forall op_wf ops -> run_fresh (init_sys r m) ops = true ->
  run (init_sys r m) ops = Ok (s, outs) -> QSTMT (s_core s).
Hypothesis HW : forall ops r m s outs, Forall op_wf ops -> run_fresh (init_sys r m) ops = true ->
  run (init_sys r m) ops = Ok (s, outs) -> WSTMT (s_core s).

Lemma init_facts r m : HOK (s_hq (init_sys r m)) /\ fresh (init_sys r m, []) /\ CB (init_sys r m, []).
Proof.
  split; [intros j []|]. split; [intros j []|].
  constructor; [constructor | intros id cs x [] | ]. intros x. split; [intros [] | intros (l & Hl & _); discriminate].
Qed.

Lemma run_PRE ops : forall r m s outs,
  Forall op_wf ops -> run_fresh (init_sys r m) ops = true -> run (init_sys r m) ops = Ok (s, outs) -> PRE (s, outs).
Proof.
  induction ops as [|o ops IH] using rev_ind; intros r m s outs Hwf Hf H.
  - cbn in H. inversion H; subst. split; [split; [constructor|]|].
    + apply DI_make; unfold fm; cbn; intros; discriminate.
    + intros id t d Ex. cbn in Ex. discriminate.
  - apply Forall_app in Hwf. destruct Hwf as [Hwf1 Hwf2]. inversion Hwf2 as [|? ? Hwo _]; subst.
    destruct (run_fresh_app _ _ _ Hf) as [Hf1 _].
    destruct (run_app _ _ _ _ _ H) as (s1 & o1 & o2 & H1 & H2 & ->).
    cbn [run] in H2. apply bind_ok in H2. destruct H2 as ([s2 o3] & Hs & H2). cbn in H2. inversion H2; subst.
    destruct (init_facts r m) as (Hok0 & F0 & HC0).
    pose proof (run_hq_ok _ _ _ _ Hok0 H1) as Hok1.
    pose proof (G_run _ _ _ _ F0 H1) as G1.
    assert (F1 : fresh (s1, [])) by (apply (fresh_outs s1 o1); apply (g_fresh _ _ G1); exact F0).
    pose proof (run_CB _ _ _ _ Hok0 F0 Hwf1 HC0 H1) as HC1.
    pose proof (IH _ _ _ _ Hwf1 Hf1 H1) as P1.
    apply (PRE_outs s o3).
    eapply deps_invariant_step_pre; [exact (HQ _ _ _ _ _ Hwf1 Hf1 H1) | exact (HW _ _ _ _ _ Hwf1 Hf1 H1) | exact Hok1 | exact F1 | exact Hwo | eapply CB_outs; exact HC1 | eapply PRE_outs; exact P1 | exact Hs].
Qed.

Lemma find_task_in_sorted ts t : StronglySorted tlt (map t_id ts) -> In t ts -> find_task ts (t_id t) = Some t.
Proof.
  induction ts as [|h r IH]; cbn [map find_task]; intros Hs Hin; [destruct Hin|].
  inversion Hs as [|? ? Hs' Hall]; subst. destruct Hin as [->|Hin]; [rewrite tid_eqb_refl'; reflexivity|].
  destruct (tid_eqb (t_id t) (t_id h)) eqn:E; [|apply IH; assumption].
  apply tid_eqb_eq in E. rewrite Forall_forall in Hall. exfalso. apply (tlt_irrefl (t_id h)). apply Hall. rewrite <- E. apply in_map. exact Hin.
Qed.

Lemma GD_deps_ok c : GD c -> forallb (deps_ok c) (c_tasks c) = true.
Proof.
  intros [Hs D]. apply forallb_forall. intros t Hin.
  pose proof (find_task_in_sorted _ _ Hs Hin) as Ef. change (fm c (t_id t) = Some t) in Ef.
  unfold deps_ok. apply andb_true_iff. split.
  - pose proof (DI_cnt _ _ _ D Ef) as C.
    assert (Hflt : length (filter (fun d => match find_task (c_tasks c) d with Some dt => negb (is_finished dt) | None => false end) (t_deps t)) = dcount (fm c) t).
    { unfold dcount. apply flen_ext. intros d _. unfold inm, fm. destruct (find_task (c_tasks c) d) as [dt|] eqn:Ed; [|reflexivity].
      pose proof (dx_nofin _ _ D d dt Ed) as Hn. unfold is_finished. destruct (t_state dt); try reflexivity. congruence. }
    destruct (t_state t); try (apply forallb_forall; intros d Hd;
      pose proof (proj1 (flen_zero _ _) C d Hd) as Hz; unfold inm, fm in Hz; destruct (find_task (c_tasks c) d); [discriminate | reflexivity]).
    rewrite Hflt. apply N.eqb_eq. exact C.
  - apply forallb_forall. intros x Hx. destruct (dx_cons _ _ D _ _ _ Ef Hx) as (ct & Ec & Wc & Ic).
    unfold fm in Ec. rewrite Ec, Wc. cbn [andb]. apply tid_mem_In. exact Ic.
Qed.

(** C03 for EVERY history of the system model: in every reachable state the dependency
    bookkeeping of the core is exact - a Waiting task's counter is the number of its dependencies
    still in the core, every other task has no dependency left in the core (so no task is ever
    placed on a worker before all the tasks it depends on have finished), and the consumer lists
    mirror the dependency edges. *)
Theorem deps_invariant_run ops r m s outs :
  Forall op_wf ops -> run_fresh (init_sys r m) ops = true -> run (init_sys r m) ops = Ok (s, outs) ->
  forallb (deps_ok (s_core s)) (c_tasks (s_core s)) = true.
Proof. intros Hwf Hf H. apply GD_deps_ok. exact (proj1 (run_PRE _ _ _ _ _ Hwf Hf H)). Qed.

End Run.

Theorem deps_invariant :
  (forall ops r m s outs, Forall op_wf ops -> run_fresh (init_sys r m) ops = true ->
     run (init_sys r m) ops = Ok (s, outs) -> QSTMT (s_core s)) ->
  (forall ops r m s outs, Forall op_wf ops -> run_fresh (init_sys r m) ops = true ->
     run (init_sys r m) ops = Ok (s, outs) -> WSTMT (s_core s)) ->
  forall ops r m s outs, Forall op_wf ops -> run_fresh (init_sys r m) ops = true ->
    run (init_sys r m) ops = Ok (s, outs) ->
    forallb (deps_ok (s_core s)) (c_tasks (s_core s)) = true.
Proof. intros HQ HW ops r m s outs. apply deps_invariant_run; assumption. Qed.
