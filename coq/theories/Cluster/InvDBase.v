(** C03, the dependency invariant: "a task is never started before every task it depends on has
    finished".  This file: the vocabulary and the pure part of the argument.

    The core's task map is viewed as a finite map [tid -> option task] (through [find_task]); the
    invariant [DI] and its relaxation [DX] (used while a consumer-closed set of tasks is being
    removed one by one) talk about ids, states, [t_deps] and [t_consumers] only.  The lemmas of
    this file say which changes of the map keep the invariant:
      - [DX_SC]     state-only changes  (ready -> placed -> ready again ...),
      - [DI_finish] a placed task finishes: it disappears, its consumers are woken,
      - [DX_remove] one task of a doomed (consumer-closed) set disappears,
      - [DI_add]    a new task is registered with its dependencies. *)
From HQ Require Import Base.Prelude Cluster.Types Cluster.Core Cluster.BijBase.
From Coq Require Import ZArith Lia.
Local Open Scope N_scope.

Arguments N.add : simpl never.
Arguments N.sub : simpl never.

(** * Lists of ids *)
Lemma tid_eqb_refl' x : tid_eqb x x = true.
Proof. apply tid_eqb_eq. reflexivity. Qed.

Lemma tid_mem_In x l : tid_mem x l = true <-> In x l.
Proof.
  induction l as [|h t IH]; cbn [tid_mem In]; [split; [discriminate | intros []]|].
  rewrite orb_true_iff, IH, tid_eqb_eq. split; intros [H|H]; auto.
Qed.
Lemma tid_mem_nIn x l : tid_mem x l = false <-> ~ In x l.
Proof. rewrite <- tid_mem_In. destruct (tid_mem x l); split; congruence. Qed.

Lemma tid_remove_sub x y l : In y (tid_remove x l) -> In y l.
Proof.
  induction l as [|h t IH]; cbn [tid_remove]; [intros []|].
  destruct (tid_eqb x h); [intros H; right; exact H|]. intros [H|H]; [left; exact H | right; auto].
Qed.
Lemma tid_remove_keeps x y l : In y l -> y <> x -> In y (tid_remove x l).
Proof.
  induction l as [|h t IH]; cbn [tid_remove]; [intros []|]. intros [H|H] Hne.
  - subst h. destruct (tid_eqb x y) eqn:E; [apply tid_eqb_eq in E; congruence | left; reflexivity].
  - destruct (tid_eqb x h); [exact H | right; auto].
Qed.
Lemma tid_remove_NoDup x l : NoDup l -> NoDup (tid_remove x l).
Proof.
  induction l as [|h t IH]; cbn [tid_remove]; intros H; [constructor|].
  inversion H as [|? ? Hn Ht]; subst. destruct (tid_eqb x h); [exact Ht|].
  constructor; [intros Hin; apply Hn; eapply tid_remove_sub; exact Hin | auto].
Qed.
Lemma tid_remove_gone x l : NoDup l -> ~ In x (tid_remove x l).
Proof.
  induction l as [|h t IH]; cbn [tid_remove]; intros H; [intros []|].
  inversion H as [|? ? Hn Ht]; subst. destruct (tid_eqb x h) eqn:E.
  - apply tid_eqb_eq in E. subst h. exact Hn.
  - apply tid_eqb_neq in E. intros [Hx|Hx]; [congruence | exact (IH Ht Hx)].
Qed.

Lemma tid_insert_sub x l y : In y (tid_insert x l) -> y = x \/ In y l.
Proof.
  induction l as [|h t IH]; cbn [tid_insert]; [intros [H|[]]; auto|].
  destruct (tid_eqb x h); [auto|]. destruct (tid_ltb x h); [intros [H|H]; auto|].
  intros [H|H]; [right; left; exact H|]. destruct (IH H); [auto | right; right; assumption].
Qed.
Lemma tid_insert_old x l y : In y l -> In y (tid_insert x l).
Proof.
  induction l as [|h t IH]; cbn [tid_insert]; [intros []|].
  destruct (tid_eqb x h); [auto|]. destruct (tid_ltb x h); [intros H; right; exact H|].
  intros [H|H]; [left; exact H | right; apply IH; exact H].
Qed.
Lemma tid_insert_new x l : In x (tid_insert x l).
Proof.
  induction l as [|h t IH]; cbn [tid_insert]; [left; reflexivity|].
  destruct (tid_eqb x h) eqn:E; [apply tid_eqb_eq in E; subst; left; reflexivity|].
  destruct (tid_ltb x h); [left; reflexivity | right; exact IH].
Qed.
Lemma tid_insert_NoDup x l : ~ In x l -> NoDup l -> NoDup (tid_insert x l).
Proof.
  induction l as [|h t IH]; cbn [tid_insert]; intros Hn H.
  - constructor; [intros [] | constructor].
  - destruct (tid_eqb x h) eqn:E; [exact H|]. destruct (tid_ltb x h); [constructor; assumption|].
    inversion H as [|? ? Hh Ht]; subst. constructor.
    + intros Hin. destruct (tid_insert_sub _ _ _ Hin) as [->|Hin']; [apply Hn; left; reflexivity | contradiction].
    + apply IH; [intros Hx; apply Hn; right; exact Hx | exact Ht].
Qed.
Lemma tid_insert_length x l : ~ In x l -> length (tid_insert x l) = S (length l).
Proof.
  induction l as [|h t IH]; cbn [tid_insert]; intros Hn; [reflexivity|].
  destruct (tid_eqb x h) eqn:E; [apply tid_eqb_eq in E; subst; exfalso; apply Hn; left; reflexivity|].
  destruct (tid_ltb x h); [reflexivity|]. cbn [length]. rewrite IH; [reflexivity | intros Hx; apply Hn; right; exact Hx].
Qed.

(** * Counting with filters *)
Lemma flen_ext {A} (p q : A -> bool) l : (forall x, In x l -> p x = q x) -> length (filter p l) = length (filter q l).
Proof.
  induction l as [|h t IH]; intros H; [reflexivity|]. cbn [filter].
  rewrite (H h (or_introl eq_refl)). destruct (q h); cbn [length]; rewrite IH; auto; intros x Hx; apply H; right; exact Hx.
Qed.
Lemma flen_le {A} (p q : A -> bool) l : (forall x, In x l -> p x = true -> q x = true) -> (length (filter p l) <= length (filter q l))%nat.
Proof.
  induction l as [|h t IH]; intros H; [apply Nat.le_refl|]. cbn [filter].
  assert (IH' : (length (filter p t) <= length (filter q t))%nat) by (apply IH; intros x Hx; apply H; right; exact Hx).
  destruct (p h) eqn:E.
  - rewrite (H h (or_introl eq_refl) E). cbn [length]. lia.
  - destruct (q h); cbn [length]; lia.
Qed.
Lemma flen_zero {A} (p : A -> bool) l : length (filter p l) = O <-> forall x, In x l -> p x = false.
Proof.
  induction l as [|h t IH]; [split; [intros _ x [] | reflexivity]|]. cbn [filter]. destruct (p h) eqn:E.
  - cbn [length]. split; [discriminate|]. intros H. rewrite (H h (or_introl eq_refl)) in E. discriminate.
  - rewrite IH. split; [intros H x [<-|Hx]; auto | intros H x Hx; apply H; right; exact Hx].
Qed.
Lemma flen_pos {A} (p : A -> bool) l x : In x l -> p x = true -> (1 <= length (filter p l))%nat.
Proof.
  intros Hin Hp. destruct (length (filter p l)) eqn:E; [|lia].
  rewrite (proj1 (flen_zero p l) E x Hin) in Hp. discriminate.
Qed.
Lemma flen_all {A} (p : A -> bool) l : (forall x, In x l -> p x = true) -> length (filter p l) = length l.
Proof.
  induction l as [|h t IH]; intros H; [reflexivity|]. cbn [filter]. rewrite (H h (or_introl eq_refl)). cbn [length].
  rewrite IH; [reflexivity | intros x Hx; apply H; right; exact Hx].
Qed.
(** One element of a duplicate-free list stops being counted. *)
Lemma flen_drop (p q : tid -> bool) l f :
  NoDup l -> In f l -> q f = true -> p f = false -> (forall x, In x l -> x <> f -> p x = q x) ->
  S (length (filter p l)) = length (filter q l).
Proof.
  induction l as [|h t IH]; intros Hnd Hin Hq Hp Hext; [destruct Hin|].
  inversion Hnd as [|? ? Hn Ht]; subst. cbn [filter]. destruct Hin as [->|Hin].
  - rewrite Hq, Hp. cbn [length]. f_equal. apply flen_ext. intros x Hx. apply Hext; [right; exact Hx|].
    intros ->. contradiction.
  - assert (Hne : h <> f) by (intros ->; contradiction).
    rewrite (Hext h (or_introl eq_refl) Hne).
    assert (IH' : S (length (filter p t)) = length (filter q t)).
    { apply IH; auto. intros x Hx. apply Hext. right; exact Hx. }
    destruct (q h); cbn [length]; lia.
Qed.

Lemma NoDup_filter' {A} (p : A -> bool) l : NoDup l -> NoDup (filter p l).
Proof.
  induction l as [|h t IH]; intros H; [constructor|]. inversion H as [|? ? Hn Ht]; subst. cbn [filter].
  destruct (p h); [constructor; [intros Hin; apply filter_In in Hin; apply Hn; apply Hin | auto] | auto].
Qed.

(** * The task map as a function *)
Definition tmap := tid -> option task.
Definition inm (m : tmap) (d : tid) : bool := match m d with Some _ => true | None => false end.
(** Number of dependencies of [t] that are still in the map. *)
Definition dcount (m : tmap) (t : task) : nat := length (filter (inm m) (t_deps t)).
Definition mdel (m : tmap) (f : tid) : tmap := fun x => if tid_eqb x f then None else m x.
Definition mupd (m : tmap) (id : tid) (t : task) : tmap := fun x => if tid_eqb x id then Some t else m x.

Lemma inm_true m d : inm m d = true <-> exists t, m d = Some t.
Proof. unfold inm. destruct (m d); split; [eauto | auto | intros H; discriminate | intros (t & H); discriminate]. Qed.
Lemma inm_false m d : inm m d = false <-> m d = None.
Proof. unfold inm. destruct (m d); split; congruence. Qed.

Definition same_edges (t t' : task) : Prop :=
  t_id t' = t_id t /\ t_deps t' = t_deps t /\ t_consumers t' = t_consumers t.

(** States whose dependency counter must be zero / may be entered with a zero counter. *)
Definition z_old (s : tstate) : Prop := match s with Waiting n => n = 0 | _ => True end.
Definition z_new (s : tstate) : Prop := match s with Waiting n => n = 0 | Finished => False | _ => True end.
Definition st_step (s s' : tstate) : Prop := s' = s \/ (z_old s /\ z_new s').

Lemma z_new_old s : z_new s -> z_old s.
Proof. destruct s; cbn; auto. Qed.
Lemma st_step_refl s : st_step s s.
Proof. left; reflexivity. Qed.
Lemma st_step_trans a b c : st_step a b -> st_step b c -> st_step a c.
Proof.
  intros [->|[O1 N1]] [->|[O2 N2]]; [left; reflexivity | right; auto | right; auto | right; auto].
Qed.
Lemma st_step_z_old a b : st_step a b -> z_old a -> z_old b.
Proof. intros [->|[_ N]] H; [exact H | apply z_new_old; exact N]. Qed.

(** [SC m m']: same tasks, same edges, only states moved (never from a positive counter). *)
Definition SC (m m' : tmap) : Prop :=
  forall id, match m id, m' id with
             | Some t, Some t' => same_edges t t' /\ st_step (t_state t) (t_state t')
             | None, None => True
             | _, _ => False
             end.

Lemma SC_refl m : SC m m.
Proof. intros id. destruct (m id); [split; [repeat split | apply st_step_refl] | exact I]. Qed.
Lemma SC_ext m m' : (forall x, m' x = m x) -> SC m m'.
Proof. intros E id. rewrite E. destruct (m id); [split; [repeat split | apply st_step_refl] | exact I]. Qed.
Lemma SC_trans m1 m2 m3 : SC m1 m2 -> SC m2 m3 -> SC m1 m3.
Proof.
  intros A B id. specialize (A id). specialize (B id).
  destruct (m1 id) as [t1|], (m2 id) as [t2|], (m3 id) as [t3|]; try contradiction; auto.
  destruct A as [(I1 & D1 & C1) S1], B as [(I2 & D2 & C2) S2]. split; [repeat split; congruence | eapply st_step_trans; eassumption].
Qed.
Lemma SC_some m m' id t : SC m m' -> m id = Some t -> exists t', m' id = Some t' /\ same_edges t t' /\ st_step (t_state t) (t_state t').
Proof. intros H E. specialize (H id). rewrite E in H. destruct (m' id) as [t'|]; [eauto | contradiction]. Qed.
Lemma SC_some' m m' id t' : SC m m' -> m' id = Some t' -> exists t, m id = Some t /\ same_edges t t' /\ st_step (t_state t) (t_state t').
Proof. intros H E. specialize (H id). rewrite E in H. destruct (m id) as [t|]; [eauto | contradiction]. Qed.
Lemma SC_inm m m' d : SC m m' -> inm m' d = inm m d.
Proof. intros H. specialize (H d). unfold inm. destruct (m d), (m' d); try contradiction; reflexivity. Qed.
Lemma SC_dcount m m' t t' : SC m m' -> t_deps t' = t_deps t -> dcount m' t' = dcount m t.
Proof. intros H E. unfold dcount. rewrite E. apply flen_ext. intros x _. apply SC_inm. exact H. Qed.

(** Changing one task. *)
Lemma SC_upd m m' id t t' :
  m id = Some t -> same_edges t t' -> st_step (t_state t) (t_state t') ->
  (forall x, m' x = mupd m id t' x) -> SC m m'.
Proof.
  intros Hm He Hs E x. rewrite E. unfold mupd. destruct (tid_eqb x id) eqn:Ex.
  - apply tid_eqb_eq in Ex. subst x. rewrite Hm. split; assumption.
  - destruct (m x); [split; [repeat split | apply st_step_refl] | exact I].
Qed.
Lemma SC_del m1 m2 a b f : SC m1 m2 -> (forall x, a x = mdel m1 f x) -> (forall x, b x = mdel m2 f x) -> SC a b.
Proof.
  intros H Ea Eb x. rewrite Ea, Eb. unfold mdel. destruct (tid_eqb x f); [exact I | apply H].
Qed.

(** * The invariant, relaxed for a list [X] of doomed tasks *)
Definition cnt_ok (doomed : Prop) (s : tstate) (k : nat) : Prop :=
  match s with
  | Waiting n => (doomed -> (k <= N.to_nat n)%nat) /\ (~ doomed -> n = N.of_nat k)
  | _ => k = O
  end.

Record DX (X : list tid) (m : tmap) : Prop := mkDX {
  dx_id : forall id t, m id = Some t -> t_id t = id;
  dx_nofin : forall id t, m id = Some t -> t_state t <> Finished;
  dx_nd : forall id t, m id = Some t -> NoDup (t_deps t);
  dx_nc : forall id t, m id = Some t -> NoDup (t_consumers t);
  dx_cnt : forall id t, m id = Some t -> cnt_ok (In id X) (t_state t) (dcount m t);
  (** survivors do not depend on doomed tasks *)
  dx_closed : forall id t d, m id = Some t -> ~ In id X -> In d (t_deps t) -> inm m d = true -> ~ In d X;
  (** consumers are live waiting tasks that list the task as a dependency ... *)
  dx_cons : forall id t x, m id = Some t -> In x (t_consumers t) ->
            exists ct, m x = Some ct /\ is_waiting ct = true /\ In id (t_deps ct);
  (** ... and every dependency edge into the map is mirrored *)
  dx_deps : forall id t d dt, m id = Some t -> In d (t_deps t) -> m d = Some dt -> In id (t_consumers dt)
}.

Definition DI (m : tmap) : Prop := DX [] m.

Lemma DI_cnt m id t : DI m -> m id = Some t ->
  match t_state t with Waiting n => n = N.of_nat (dcount m t) | _ => dcount m t = O end.
Proof.
  intros H E. pose proof (dx_cnt _ _ H _ _ E) as C. unfold cnt_ok in C.
  destruct (t_state t); try exact C. apply C. intros [].
Qed.

(** A task with a zero-counter state has no dependency in the map and is nobody's consumer. *)
Lemma DI_zero m id t : DI m -> m id = Some t -> z_old (t_state t) -> dcount m t = O.
Proof.
  intros H E Z. pose proof (DI_cnt _ _ _ H E) as C. destruct (t_state t); try exact C.
  cbn in Z. lia.
Qed.

(** * State-only changes *)
Lemma DX_SC X m m' : DX X m -> SC m m' -> (forall id t t', In id X -> m id = Some t -> m' id = Some t' -> t_state t' = t_state t) -> DX X m'.
Proof.
  intros D S HX. constructor.
  - intros id t' E. destruct (SC_some' _ _ _ _ S E) as (t & Et & (Hi & _) & _). rewrite Hi. eapply dx_id; eassumption.
  - intros id t' E. destruct (SC_some' _ _ _ _ S E) as (t & Et & _ & [->|[_ Zn]]); [eapply dx_nofin; eassumption|].
    intros F. rewrite F in Zn. exact Zn.
  - intros id t' E. destruct (SC_some' _ _ _ _ S E) as (t & Et & (_ & Hd & _) & _). rewrite Hd. eapply dx_nd; eassumption.
  - intros id t' E. destruct (SC_some' _ _ _ _ S E) as (t & Et & (_ & _ & Hc) & _). rewrite Hc. eapply dx_nc; eassumption.
  - intros id t' E. destruct (SC_some' _ _ _ _ S E) as (t & Et & (_ & Hd & _) & St).
    rewrite (SC_dcount _ _ t t' S Hd). pose proof (dx_cnt _ _ D _ _ Et) as C.
    destruct (in_dec tid_dec id X) as [Hin|Hout].
    + rewrite (HX _ _ _ Hin Et E). exact C.
    + destruct St as [->|[Zo Zn]]; [exact C|].
      assert (Hz : dcount m t = O).
      { unfold cnt_ok in C. destruct (t_state t); try exact C. cbn in Zo. subst. destruct C as [_ C]. specialize (C Hout). lia. }
      rewrite Hz. unfold cnt_ok. destruct (t_state t'); try reflexivity. cbn in Zn.
      subst. split; [intros; lia | intros; reflexivity].
  - intros id t' d E Hn Hd Hi. destruct (SC_some' _ _ _ _ S E) as (t & Et & (_ & Hdeps & _) & _).
    rewrite Hdeps in Hd. rewrite (SC_inm _ _ d S) in Hi. eapply dx_closed; eassumption.
  - intros id t' x E Hx. destruct (SC_some' _ _ _ _ S E) as (t & Et & (_ & _ & Hc) & _). rewrite Hc in Hx.
    destruct (dx_cons _ _ D _ _ _ Et Hx) as (ct & Ec & Wc & Ic).
    destruct (SC_some _ _ _ _ S Ec) as (ct' & Ec' & (_ & Hd' & _) & St'). exists ct'. split; [exact Ec'|]. split; [|rewrite Hd'; exact Ic].
    destruct St' as [Es|[Zo _]]; [unfold is_waiting in *; rewrite Es; exact Wc|].
    (* a waiting consumer of a live task has a positive counter *)
    exfalso. unfold is_waiting in Wc. destruct (t_state ct) eqn:Est; try discriminate. cbn in Zo. subst.
    pose proof (dx_cnt _ _ D _ _ Ec) as C. rewrite Est in C. cbn in C.
    assert (Hp : (1 <= dcount m ct)%nat) by (eapply flen_pos; [exact Ic | apply inm_true; eauto]).
    destruct (in_dec tid_dec x X) as [Hin|Hout]; [destruct C as [C _]; specialize (C Hin); cbn in C; lia | destruct C as [_ C]; specialize (C Hout); lia].
  - intros id t' d dt' E Hd Ed. destruct (SC_some' _ _ _ _ S E) as (t & Et & (_ & Hdeps & _) & _). rewrite Hdeps in Hd.
    destruct (SC_some' _ _ _ _ S Ed) as (dt & Edt & (_ & _ & Hc) & _). rewrite Hc. eapply dx_deps; eassumption.
Qed.

Lemma DI_SC m m' : DI m -> SC m m' -> DI m'.
Proof. intros D S. eapply DX_SC; [exact D | exact S | intros id t t' []]. Qed.
