(** Protocol invariant, part 19: the step theorem for all operations except scheduling and
    worker loss, from [INV], [PW] and [RWA] (all proved for reachable states). *)
From HQ Require Import Base.Prelude Cluster.Types Cluster.Core Cluster.Reactor Cluster.Worker Cluster.Server Cluster.Sys Cluster.ProofsJob Cluster.ProofsMore Cluster.ProofsTerminal Cluster.ProofsStep Cluster.ProofsFinal Cluster.BijBase Cluster.BijCore Cluster.BijHq Cluster.BijSt Cluster.BijReact Cluster.BijFinal Cluster.RejHyp Cluster.InvWBase Cluster.InvWView Cluster.InvWCore Cluster.InvBundle Cluster.InvProcsDef Cluster.NoPanicC1 Cluster.NoPanicC2 Cluster.NoPanicU0 Cluster.NoPanicU1 Cluster.NoPanicU5 Cluster.NoPanicU6 Cluster.NoPanicU11 Cluster.NoPanicU12 Cluster.NoPanicU13 Cluster.NoPanicU14 Cluster.NoPanicU15.
From Coq Require Import ZArith Lia Sorting.Sorted.
Local Open Scope N_scope.

Notation find_proc_none := NoPanicU1.find_proc_none.

(** * The premises of [connect_PROTO] from the invariants *)
Lemma new_worker_unknown s : INV s -> PW s -> find_proc (s_procs s) (c_wcounter (s_core s) + 1) = None.
Proof.
  intros HI HPW. apply find_proc_none. rewrite HPW. intros Hin.
  destruct (inv_w _ HI) as (_ & _ & _ & Hb).
  apply in_map_iff in Hin. destruct Hin as (wk & Eid & Hwk).
  assert (Hf : find_worker (c_workers (s_core s)) (w_id wk) = Some wk) by (apply in_find_worker; [apply (inv_w _ HI) | exact Hwk]).
  assert (Hle : w_id wk <= c_wcounter (s_core s)) by (apply Hb; rewrite Hf; discriminate). lia.
Qed.

Lemma new_worker_view s x t jr : INV s -> RWA (s_core s) -> find_task (c_tasks (s_core s)) x = Some t ->
  view_of (t_state t) (c_wcounter (s_core s) + 1) jr = VN.
Proof.
  intros HI HR Hx. set (w := c_wcounter (s_core s) + 1).
  assert (Hnone : find_worker (c_workers (s_core s)) w = None).
  { destruct (find_worker (c_workers (s_core s)) w) as [wk|] eqn:E; [|reflexivity]. exfalso.
    destruct (inv_w _ HI) as (_ & _ & _ & Hb). assert (Hle : w <= c_wcounter (s_core s)) by (apply Hb; rewrite E; discriminate). unfold w in Hle. lia. }
  pose proof (inv_w _ HI) as HW.
  destruct (t_state t) as [n|w1 rv1|w1|w1|w1 rv1|[|w0 ws]|] eqn:Est; cbn [view_of]; try reflexivity.
  - destruct (N.eqb w1 w) eqn:E; [|reflexivity]. apply N.eqb_eq in E. subst w1. exfalso.
    destruct (WIX_A _ _ x t w HW eq_refl Hx) as (wk & a & p & f & Hf & _); [rewrite Est; reflexivity | congruence].
  - destruct (N.eqb w1 w) eqn:E; [|reflexivity]. apply N.eqb_eq in E. subst w1. exfalso.
    destruct (WIX_P _ _ x t w HW eq_refl Hx) as (wk & a & p & f & Hf & _); [rewrite Est; reflexivity | congruence].
  - destruct (N.eqb w1 w) eqn:E; [|reflexivity]. apply N.eqb_eq in E. subst w1. exfalso.
    destruct (HR t w (proj1 (NoPanicU1.find_task_some _ _ _ Hx)) Est) as (wk & Hf). congruence.
  - destruct (N.eqb w1 w) eqn:E; [|reflexivity]. apply N.eqb_eq in E. subst w1. exfalso.
    destruct (WIX_A _ _ x t w HW eq_refl Hx) as (wk & a & p & f & Hf & _); [rewrite Est; reflexivity | congruence].
  - destruct (N.eqb w0 w) eqn:E; [|reflexivity]. apply N.eqb_eq in E. subst w0. exfalso.
    destruct (WIX_M _ _ x t (w :: ws) w HW eq_refl Hx) as (wk & root & Hf & _); [rewrite Est; reflexivity | left; reflexivity | congruence].
Qed.

Definition not_sched_lost (o : op) : Prop := match o with OpSched _ | OpLost _ _ _ _ _ => False | _ => True end.

Theorem step_PROTO_partial s o s' outs :
  INV s -> PW s -> RWA (s_core s) -> PROTO s -> op_ok s o = true -> not_sched_lost o ->
  step s o = Ok (s', outs) -> PROTO s'.
Proof.
  intros HI HPW HR HP Hop Hns H. pose proof (INV_UH _ HI) as HU.
  destruct o; try destruct Hns.
  - eapply connect_PROTO; [exact HP | apply new_worker_unknown; assumption | | exact H]. intros x t jr Hx. eapply new_worker_view; eassumption.
  - cbn [step] in H. destruct (bad_submit_lengths _ _); [inversion H; subst; exact HP|]. change s' with (fst (s', outs)). eapply handle_submit_array_PROTO; [exact HP | exact HU | | exact Hop | exact H].
    exact (inv_fresh _ HI).
  - cbn [step] in H. destruct (bad_graph_rq _ _); [inversion H; subst; exact HP|]. destruct (dead_dep _ _ _); [inversion H; subst; exact HP|].
    change s' with (fst (s', outs)). eapply handle_submit_graph_PROTO; [exact HP | exact HU | | | exact H].
    + exact (inv_fresh _ HI).
    + cbn [op_ok] in Hop. rewrite forallb_forall in Hop. exact Hop.
  - eapply open_PROTO; eassumption.
  - eapply close_PROTO; eassumption.
  - eapply cancel_PROTO; eassumption.
  - eapply forget_PROTO; [exact HP | exact HU | exact (inv_hok _ HI) | exact H].
  - refine (worker_step_PROTO _ _ _ _ HP _ H); exact I.
  - eapply dup_step_PROTO; eassumption.
  - refine (worker_step_PROTO _ _ _ _ HP _ H); exact I.
  - refine (worker_step_PROTO _ _ _ _ HP _ H); exact I.
  - refine (worker_step_PROTO _ _ _ _ HP _ H); exact I.
  - eapply prune_PROTO; eassumption.
Qed.
