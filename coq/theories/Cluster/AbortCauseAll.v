(** C14 / C03, "tasks are aborted only with a cause", part 8: the theorems.

    [limits_of reserve maxfill ops]: the failure limits the monitor is run with, collected as the
    driver does from the job-layer snapshot after every operation - the pairs (job id, m) of the
    jobs with [j_maxfails = Some m].  A job keeps its limit, and a job id is never used twice, so
    the list is functional ([LI]).

    [abort_justified_run]: for EVERY history of the system model (hypotheses [op_wf], [ops_ok] as
    for all invariants of the development) the executable monitor [Monitors.abort_justified],
    started as the driver starts it, accepts the item list [run_items' []] - the events, and one
    [ISubmitted] per accepted submit built exactly as the driver builds it.
    [step_abort_cause] / [history_abort_cause]: the clean Prop forms behind it.
    (For the item list of DepOrderJournal.v, [run_items], the statement is false:
    AbortCauseRefute.v.) *)
From HQ Require Import Base.Prelude Cluster.Types Cluster.Core Cluster.Reactor Cluster.Worker Cluster.Server Cluster.Sys Cluster.Monitors Cluster.ProofsJob Cluster.ProofsMore Cluster.ProofsTerminal Cluster.ProofsStep Cluster.ProofsFinal Cluster.BijBase Cluster.BijFinal Cluster.ProofsOnce Cluster.RejHyp Cluster.InvQStep Cluster.InvDSpec Cluster.InvBundle Cluster.StartFin2 Cluster.NoPanicU0 Cluster.NoFresh Cluster.DepOrderBase Cluster.DepOrderRun Cluster.DepOrderJournal Cluster.AbortCauseBase Cluster.AbortCauseJob Cluster.AbortCauseReact Cluster.AbortCauseStep Cluster.AbortCauseSubmit Cluster.AbortCauseItems Cluster.AbortCauseRun Cluster.AbortCauseRefute.
From Coq Require Import ZArith Lia.
Local Open Scope N_scope.

Arguments N.add : simpl never.
Arguments N.sub : simpl never.

(** * The limits *)
Definition jl (js : list job) : list (N * N) :=
  flat_map (fun j => match find_job js (j_id j) with
                     | Some j0 => match j_maxfails j0 with Some m => [(j_id j, m)] | None => [] end
                     | None => []
                     end) js.

Fixpoint run_limits (s : sys) (ops : list op) (L : list (N * N)) : list (N * N) :=
  match ops with
  | [] => L
  | o :: r => match step s o with
              | Ok (s1, _) => run_limits s1 r (jl (h_jobs (s_hq s1)) ++ L)
              | _ => L
              end
  end.
Definition limits_of (reserve maxfill : N) (ops : list op) : list (N * N) := run_limits (init_sys reserve maxfill) ops [].

Lemma jl_in js k m : In (k, m) (jl js) <-> exists j0, find_job js k = Some j0 /\ j_maxfails j0 = Some m.
Proof.
  unfold jl. rewrite in_flat_map. split.
  - intros (j & Hj & Hin). destruct (find_job js (j_id j)) as [j0|] eqn:Ef; [|destruct Hin].
    destruct (j_maxfails j0) as [m0|] eqn:Em; [|destruct Hin]. destruct Hin as [Hin|[]]. inversion Hin; subst. exists j0. split; assumption.
  - intros (j0 & Ef & Em). exists j0. split; [eapply find_job_in; exact Ef|].
    rewrite (find_job_id _ _ _ Ef), Ef, Em. left. reflexivity.
Qed.

Record LI (s : sys) (L : list (N * N)) : Prop := mkLI {
  li_fun : forall k m m', In (k, m) L -> In (k, m') L -> m = m';
  li_lt : forall k m, In (k, m) L -> k < h_counter (s_hq s);
  li_all : forall k j m, find_job (h_jobs (s_hq s)) k = Some j -> j_maxfails j = Some m -> In (k, m) L
}.

Lemma lget_fun L k m : (forall k0 m0 m', In (k0, m0) L -> In (k0, m') L -> m0 = m') -> In (k, m) L -> lget L k = Some m.
Proof.
  intros Hf Hin. unfold lget. destruct (find (fun kv => N.eqb (fst kv) k) L) as [[k' m']|] eqn:E.
  - apply find_some in E. destruct E as [Hin' E]. cbn [fst] in E. apply N.eqb_eq in E. subst k'. cbn [snd]. f_equal. exact (Hf _ _ _ Hin' Hin).
  - pose proof (find_none _ _ E _ Hin) as X. cbn [fst] in X. rewrite N.eqb_refl in X. discriminate.
Qed.

Lemma LI_step s o s1 o1 L : INV s -> INV s1 -> op_wf o -> step s o = Ok (s1, o1) -> LI s L -> LI s1 (jl (h_jobs (s_hq s1)) ++ L).
Proof.
  intros HI HI1 Hwf H [Lf Ll La]. pose proof (step_SF [] _ _ _ _ HI Hwf H) as SFx.
  pose proof (sf_cnt _ _ _ _ _ SFx) as Hc. pose proof (inv_fresh _ HI1) as Fr1.
  assert (Hnew : forall k m, In (k, m) (jl (h_jobs (s_hq s1))) -> In (k, m) L \/ h_counter (s_hq s) <= k).
  { intros k m Hin. apply jl_in in Hin. destruct Hin as (j0 & Ef & Em).
    destruct (sf_jobs _ _ _ _ _ SFx k j0 Ef) as [(j & A & B & _)|[A _]]; [left | right; exact A].
    apply (La _ j); [exact A | congruence]. }
  constructor.
  - intros k m m' H1 H2. apply in_app_iff in H1. apply in_app_iff in H2.
    destruct H1 as [H1|H1], H2 as [H2|H2].
    + apply jl_in in H1. apply jl_in in H2. destruct H1 as (j1 & E1 & M1). destruct H2 as (j2 & E2 & M2). congruence.
    + destruct (Hnew _ _ H1) as [A|A]; [exact (Lf _ _ _ A H2) | specialize (Ll _ _ H2); lia].
    + destruct (Hnew _ _ H2) as [A|A]; [exact (Lf _ _ _ H1 A) | specialize (Ll _ _ H1); lia].
    + exact (Lf _ _ _ H1 H2).
  - intros k m Hin. apply in_app_iff in Hin. destruct Hin as [Hin|Hin]; [|specialize (Ll _ _ Hin); lia].
    apply jl_in in Hin. destruct Hin as (j0 & Ef & _).
    pose proof (Fr1 _ (find_job_in _ _ _ Ef)) as Hlt. rewrite (find_job_id _ _ _ Ef) in Hlt. exact Hlt.
  - intros k j m Ef Em. apply in_app_iff. left. apply jl_in. exists j. split; assumption.
Qed.

Lemma run_limits_incl ops : forall s L e, In e L -> In e (run_limits s ops L).
Proof.
  induction ops as [|o r IH]; cbn [run_limits]; intros s L e H; [exact H|].
  destruct (step s o) as [[s1 o1]| |]; [|exact H | exact H]. apply IH. apply in_app_iff. right; exact H.
Qed.

Lemma run_limits_fun ops : forall s L, along INV s ops -> Forall op_wf ops -> LI s L ->
  forall k m m', In (k, m) (run_limits s ops L) -> In (k, m') (run_limits s ops L) -> m = m'.
Proof.
  induction ops as [|o r IH]; cbn [run_limits]; intros s L Hal Hwf HL; [exact (li_fun _ _ HL)|].
  cbn [along] in Hal. destruct Hal as [HI Hal]. inversion Hwf as [|? ? Hw1 Hw2]; subst.
  destruct (step s o) as [[s1 o1]| |] eqn:E; [|exact (li_fun _ _ HL) | exact (li_fun _ _ HL)].
  apply (IH s1); [exact Hal | exact Hw2|]. eapply LI_step; [exact HI | exact (along_head _ _ _ Hal) | exact Hw1 | exact E | exact HL].
Qed.

Lemma run_limits_LIMOK ops : forall s L, along INV s ops -> Forall op_wf ops -> LI s L ->
  forall Lf, (forall e, In e (run_limits s ops L) -> In e Lf) -> (forall k m m', In (k, m) Lf -> In (k, m') Lf -> m = m') ->
  along (LIMOK Lf) s ops.
Proof.
  induction ops as [|o r IH]; intros s L Hal Hwf HL Lf Hincl Hfun.
  - cbn [along]. split; [|exact I]. intros k j m Ef Em. apply lget_fun; [exact Hfun|]. apply Hincl. cbn [run_limits]. exact (li_all _ _ HL _ _ _ Ef Em).
  - cbn [along] in Hal |- *. destruct Hal as [HI Hal]. inversion Hwf as [|? ? Hw1 Hw2]; subst. split.
    + intros k j m Ef Em. apply lget_fun; [exact Hfun|]. apply Hincl. apply run_limits_incl. exact (li_all _ _ HL _ _ _ Ef Em).
    + cbn [run_limits] in Hincl. destruct (step s o) as [[s1 o1]| |] eqn:E; [|exact I | exact I].
      apply (IH s1 (jl (h_jobs (s_hq s1)) ++ L)); [exact Hal | exact Hw2 | | exact Hincl | exact Hfun].
      eapply LI_step; [exact HI | exact (along_head _ _ _ Hal) | exact Hw1 | exact E | exact HL].
Qed.

Lemma LI_init reserve maxfill : LI (init_sys reserve maxfill) [].
Proof. constructor; [intros k m m' [] | intros k m [] | intros k j m H; discriminate]. Qed.

(** * The theorems *)
Lemma run_items'_to_run ops : forall kn s s' items, run_items' kn s ops = Ok (s', items) -> exists outs, run s ops = Ok (s', outs).
Proof.
  induction ops as [|o r IH]; cbn [run run_items']; intros kn s s' items H; [inversion H; subst; eexists; reflexivity|].
  apply bind_ok in H. destruct H as ([s1 o1] & H1 & H). apply bind_ok in H. destruct H as ([s2 i2] & H2 & H). inversion H; subst.
  destruct (IH _ _ _ _ H2) as (o2 & Ho). rewrite H1. cbn [bind]. rewrite Ho. cbn [bind]. eexists; reflexivity.
Qed.

(** The clean form for one operation: every task named by an [EvAborted] of the step is a task of
    the core with a kept dependency that is aborted by the same event or fails in the very next
    output, or its job's failure counter - the one of the state plus the failures reported
    earlier in the step - exceeds the job's limit. *)
Theorem step_abort_cause s o s' outs pre ts post t :
  INV s -> op_wf o -> step s o = Ok (s', outs) -> outs = pre ++ OEv (EvAborted ts) :: post -> In t ts ->
  (exists tx d, find_task (c_tasks (s_core s)) t = Some tx /\ In d (t_deps tx) /\
                (In d ts \/ exists k post', post = OEv (EvFailed d k) :: post'))
  \/ (exists j m, find_job (h_jobs (s_hq s)) (fst t) = Some j /\ j_maxfails j = Some m /\ m < j_nfail j + onfailed (fst t) pre).
Proof. intros HI Hwf H E Ht. exact (sf_ac _ _ _ _ _ (step_SF [] _ _ _ _ HI Hwf H) pre ts post t E Ht). Qed.

(** The clean form for a whole history, in the monitor's vocabulary ([ispec], AbortCauseBase.v). *)
Theorem history_abort_cause ops reserve maxfill s items :
  Forall op_wf ops -> run_fresh (init_sys reserve maxfill) ops = true ->
  run_items' [] (init_sys reserve maxfill) ops = Ok (s, items) ->
  ispec (limits_of reserve maxfill ops) [] [] items.
Proof.
  intros Hwf Hf H. pose proof (along_INV _ _ _ Hwf Hf) as Hal.
  apply (run_ispec (limits_of reserve maxfill ops) ops [] (init_sys reserve maxfill) [] [] s items); [exact Hal | | exact Hwf | | | | | exact H].
  - apply (run_limits_LIMOK ops _ [] Hal Hwf (LI_init _ _)); [intros e He; exact He|].
    exact (run_limits_fun ops _ [] Hal Hwf (LI_init _ _)).
  - split; [intros k j Hj; discriminate | intros k _; reflexivity].
  - intros x tx Hx. discriminate.
  - intros k j Hj. discriminate.
  - intros k _. reflexivity.
Qed.

Theorem abort_justified_run_fresh ops reserve maxfill s items :
  Forall op_wf ops -> run_fresh (init_sys reserve maxfill) ops = true ->
  run_items' [] (init_sys reserve maxfill) ops = Ok (s, items) ->
  abort_justified [] (limits_of reserve maxfill ops) [] [] items = true.
Proof. intros Hwf Hf H. apply aj_sound. eapply history_abort_cause; eassumption. Qed.

(** Main theorem (static hypothesis [ops_ok], NoFresh.v). *)
Theorem abort_justified_run ops reserve maxfill s items :
  Forall op_wf ops -> ops_ok (init_sys reserve maxfill) ops = true ->
  run_items' [] (init_sys reserve maxfill) ops = Ok (s, items) ->
  abort_justified [] (limits_of reserve maxfill ops) [] [] items = true.
Proof.
  intros Hwf Hok H. destruct (run_items'_to_run _ _ _ _ _ H) as (outs & Hr).
  exact (abort_justified_run_fresh ops reserve maxfill s items Hwf (fresh_of_ops _ _ _ _ _ Hwf Hok Hr) H).
Qed.


(** * The limits exactly as the driver keeps them: a job id is entered once *)
Definition ladd (L : list (N * N)) (e : N * N) : list (N * N) :=
  match lget L (fst e) with Some _ => L | None => e :: L end.
Fixpoint run_limits_drv (s : sys) (ops : list op) (L : list (N * N)) : list (N * N) :=
  match ops with
  | [] => L
  | o :: r => match step s o with
              | Ok (s1, _) => run_limits_drv s1 r (fold_left ladd (jl (h_jobs (s_hq s1))) L)
              | _ => L
              end
  end.
Definition limits_drv (reserve maxfill : N) (ops : list op) : list (N * N) := run_limits_drv (init_sys reserve maxfill) ops [].

Lemma lget_app A B k : lget (A ++ B) k = match lget A k with Some m => Some m | None => lget B k end.
Proof.
  unfold lget. induction A as [|[a b] r IH]; [reflexivity|]. cbn [app find fst]. destruct (N.eqb a k); [reflexivity | exact IH].
Qed.

Lemma lget_ladd L e k : lget (ladd L e) k = match lget L k with Some m => Some m | None => if N.eqb (fst e) k then Some (snd e) else None end.
Proof.
  unfold ladd. destruct (lget L (fst e)) as [m0|] eqn:E.
  - destruct (lget L k) eqn:Ek; [reflexivity|]. destruct (N.eqb (fst e) k) eqn:E2; [|reflexivity].
    apply N.eqb_eq in E2. subst k. congruence.
  - unfold lget at 1. cbn [find]. destruct (N.eqb (fst e) k) eqn:E2.
    + apply N.eqb_eq in E2. subst k. rewrite E. reflexivity.
    + fold (lget L k). destruct (lget L k); reflexivity.
Qed.

Lemma lget_fold_ladd A : forall L k, lget (fold_left ladd A L) k = match lget L k with Some m => Some m | None => lget A k end.
Proof.
  induction A as [|e r IH]; intros L k; cbn [fold_left]; [destruct (lget L k); reflexivity|].
  rewrite IH, lget_ladd. destruct (lget L k); [reflexivity|].
  unfold lget at 2. cbn [find]. destruct (N.eqb (fst e) k); reflexivity.
Qed.

Lemma lget_in L k m : lget L k = Some m -> In (k, m) L.
Proof.
  unfold lget. destruct (find (fun kv => N.eqb (fst kv) k) L) as [[k' m']|] eqn:E; [|discriminate].
  intros H. inversion H; subst. apply find_some in E. destruct E as [Hin E]. cbn [fst] in E. apply N.eqb_eq in E. subst k'. exact Hin.
Qed.

Lemma run_limits_drv_same ops : forall s L L', along INV s ops -> Forall op_wf ops -> LI s L ->
  (forall k, lget L' k = lget L k) -> forall k, lget (run_limits_drv s ops L') k = lget (run_limits s ops L) k.
Proof.
  induction ops as [|o r IH]; cbn [run_limits run_limits_drv]; intros s L L' Hal Hwf HL E; [exact E|].
  cbn [along] in Hal. destruct Hal as [HI Hal]. inversion Hwf as [|? ? Hw1 Hw2]; subst.
  destruct (step s o) as [[s1 o1]| |] eqn:Es; [|exact E | exact E].
  pose proof (LI_step _ _ _ _ _ HI (along_head _ _ _ Hal) Hw1 Es HL) as HL1.
  apply (IH s1); [exact Hal | exact Hw2 | exact HL1|].
  intros k. rewrite lget_fold_ladd, lget_app, E.
  destruct (lget L k) as [m|] eqn:E1; [|destruct (lget (jl (h_jobs (s_hq s1))) k); reflexivity].
  destruct (lget (jl (h_jobs (s_hq s1))) k) as [m'|] eqn:E2; [|reflexivity]. f_equal.
  apply (li_fun _ _ HL1 k); apply in_app_iff; [right; apply lget_in; exact E1 | left; apply lget_in; exact E2].
Qed.

Lemma forallb_ext1 {A} (f g : A -> bool) l : (forall x, f x = g x) -> forallb f l = forallb g l.
Proof. intros E. induction l as [|h t IH]; [reflexivity|]. cbn [forallb]. rewrite E, IH. reflexivity. Qed.

(** The monitor reads the limits through [lget] only. *)
Lemma aj_limits_ext L L' : (forall k, lget L k = lget L' k) ->
  forall tr D F Dd, abort_justified D L F Dd tr = abort_justified D L' F Dd tr.
Proof.
  intros E. induction tr as [|i r IH]; intros D F Dd; [reflexivity|].
  destruct i as [e| | | | | | | |j ts]; try (cbn [abort_justified]; apply IH).
  destruct e;
    try match goal with |- abort_justified _ _ _ _ (IEv (EvAborted _) :: _) = _ => idtac
        | _ => cbn [abort_justified]; apply IH end.
  rewrite !aj_aborted, IH. f_equal. apply forallb_ext1. intros t. unfold aj_ok. rewrite E. reflexivity.
Qed.

Theorem abort_justified_run_drv ops reserve maxfill s items :
  Forall op_wf ops -> ops_ok (init_sys reserve maxfill) ops = true ->
  run_items' [] (init_sys reserve maxfill) ops = Ok (s, items) ->
  abort_justified [] (limits_drv reserve maxfill ops) [] [] items = true.
Proof.
  intros Hwf Hok H. destruct (run_items'_to_run _ _ _ _ _ H) as (outs & Hr).
  pose proof (fresh_of_ops _ _ _ _ _ Hwf Hok Hr) as Hf.
  rewrite (aj_limits_ext (limits_drv reserve maxfill ops) (limits_of reserve maxfill ops)).
  - exact (abort_justified_run_fresh ops reserve maxfill s items Hwf Hf H).
  - apply (run_limits_drv_same ops _ [] []); [exact (along_INV _ _ _ Hwf Hf) | exact Hwf | apply LI_init | reflexivity].
Qed.

(** * Non-vacuity *)

(** A job with failure limit 0 and three independent tasks; (1,0) fails on its worker: the rest of
    the job is aborted AFTER the failure, justified by the limit. *)
Definition ac_lim_ops : list op :=
  [OpConnect [20000; 0; 0] 0;
   OpSubmit None [] (Some 3) ac_rq 0%Z (CMax 3) false (Some 0);
   OpSched (mkSol [(0, 0, [(1, 1)])] [] [1] []);
   OpDDown 1 []; OpDDown 1 []; OpDUp 1; OpEnd 1 (1, 0) EndFail; OpDUp 1].

Example abort_justified_limit_example :
  exists s items,
    Forall op_wf ac_lim_ops /\ ops_ok (init_sys 0 2) ac_lim_ops = true /\
    run_items' [] (init_sys 0 2) ac_lim_ops = Ok (s, items) /\
    limits_drv 0 2 ac_lim_ops = [(1, 0)] /\
    (exists a c, items = a ++ IEv (EvFailed (1, 0) FTask) :: IEv (EvAborted [(1, 1); (1, 2)]) :: c) /\
    abort_justified [] (limits_drv 0 2 ac_lim_ops) [] [] items = true /\
    abort_justified [] [] [] [] items = false.
Proof.
  do 2 eexists. split; [repeat constructor|]. split; [vm_compute; reflexivity|]. split; [vm_compute; reflexivity|].
  split; [vm_compute; reflexivity|]. split; [|split; vm_compute; reflexivity].
  eexists (_ :: _ :: _ :: _ :: _ :: _ :: []), [_]. reflexivity.
Qed.

(** The history of AbortCauseRefute.v (a task-graph submit and then an array submit to the same open
    job; the dependent (1,1) of the failing task (1,0) is aborted just BEFORE the failure): the array
    submit is reported with its new id only, and the monitor accepts. *)
Example abort_justified_dependent_example :
  exists s items,
    Forall op_wf ac_shadow_ops /\ ops_ok (init_sys 0 2) ac_shadow_ops = true /\
    run_items' [] (init_sys 0 2) ac_shadow_ops = Ok (s, items) /\
    In (ISubmitted 1 [(0, []); (1, [0])]) items /\ In (ISubmitted 1 [(2, [])]) items /\
    (exists a c, items = a ++ IEv (EvAborted [(1, 1)]) :: IEv (EvFailed (1, 0) FTask) :: c) /\
    abort_justified [] (limits_drv 0 2 ac_shadow_ops) [] [] items = true.
Proof.
  do 2 eexists. split; [repeat constructor|]. split; [vm_compute; reflexivity|]. split; [vm_compute; reflexivity|].
  split; [vm_compute; tauto|]. split; [vm_compute; tauto|]. split; [|vm_compute; reflexivity].
  eexists (_ :: _ :: _ :: _ :: _ :: _ :: _ :: _ :: _ :: _ :: []), []. reflexivity.
Qed.

(** The hypotheses of [step_abort_cause] at the step that processes the failure, and both kinds of
    cause. *)
Example step_abort_cause_example :
  exists s outs s' outs', run (init_sys 0 2) (removelast ac_lim_ops) = Ok (s, outs) /\ INV s /\
    step s (OpDUp 1) = Ok (s', outs') /\
    outs' = [OUp 1 (UUpdates [UFailed (1, 0) FTask; URunningPrefilled (1, 2) 0]); OEv (EvFailed (1, 0) FTask); OEv (EvAborted [(1, 1); (1, 2)]); OEv (EvCompleted 1)] /\
    exists j, find_job (h_jobs (s_hq s)) 1 = Some j /\ j_maxfails j = Some 0 /\ j_nfail j = 0.
Proof.
  assert (Hwf : Forall op_wf (removelast ac_lim_ops)) by (repeat constructor).
  assert (Hf : run_fresh (init_sys 0 2) (removelast ac_lim_ops) = true) by (vm_compute; reflexivity).
  destruct (run (init_sys 0 2) (removelast ac_lim_ops)) as [[s outs]| |] eqn:Er; [|vm_compute in Er; discriminate | vm_compute in Er; discriminate].
  pose proof (reachable_INV _ _ _ _ _ Hwf Hf Er) as HI.
  vm_compute in Er. inversion Er; subst s outs. clear Er.
  do 4 eexists. split; [reflexivity|]. split; [exact HI|]. split; [vm_compute; reflexivity|]. split; [reflexivity|].
  eexists. split; [vm_compute; reflexivity|]. split; reflexivity.
Qed.

(** The monitor is not trivially true: an abort without a dead dependency and without an exceeded
    limit is rejected; the dependents' abort placed AFTER a later, unrelated event is rejected; a
    limit that is not exceeded does not justify an abort. *)
Example abort_justified_rejects :
  abort_justified [] [] [] [] [ISubmitted 1 [(0, []); (1, [])]; IEv (EvAborted [(1, 1)])] = false
  /\ abort_justified [] [] [] [] [ISubmitted 1 [(0, []); (1, [0])]; IEv (EvAborted [(1, 1)]); IEv (EvCompleted 1); IEv (EvFailed (1, 0) FTask)] = false
  /\ abort_justified [] [(1, 1)] [] [] [ISubmitted 1 [(0, []); (1, [])]; IEv (EvFailed (1, 0) FTask); IEv (EvAborted [(1, 1)])] = false
  /\ abort_justified [] [(1, 0)] [] [] [ISubmitted 1 [(0, []); (1, [])]; IEv (EvFailed (1, 0) FTask); IEv (EvAborted [(1, 1)])] = true
  /\ abort_justified [] [] [] [] [ISubmitted 1 [(0, []); (1, [0])]; IEv (EvAborted [(1, 1)]); IEv (EvFailed (1, 0) FTask)] = true.
Proof. vm_compute. repeat split; reflexivity. Qed.

Print Assumptions step_abort_cause.
Print Assumptions history_abort_cause.
Print Assumptions abort_justified_run.
Print Assumptions abort_justified_run_drv.
