(** C08, item "reservations released": after an answered cancel request NOTHING of the cancelled job
    is left anywhere in the scheduler core - no task, no member of a worker's assigned / prefilled
    set, no multi-node assignment, no queue entry (ready or prefill), no redirect.

    The proof is a corollary of the invariants of reachable states (InvBundle.v): the state after
    the cancel is reachable, [cancel_leaves_none] (ProofsAll.v) empties the job in the job layer, the
    bijection [CB] carries this to the core's task map, and worker sets / queues / redirects name
    core tasks only ([WI], [queue_statement]).  The resource counters are in ReleaseFree.v. *)
From HQ Require Import Base.Prelude Cluster.Types Cluster.Core Cluster.Reactor Cluster.Worker Cluster.Server Cluster.Sys Cluster.Monitors Cluster.ProofsJob Cluster.ProofsMore Cluster.ProofsTerminal Cluster.ProofsStep Cluster.ProofsFinal Cluster.ProofsAll Cluster.BijBase Cluster.BijCore Cluster.BijHq Cluster.BijSt Cluster.BijReact Cluster.BijFinal Cluster.RejHyp Cluster.InvWBase Cluster.InvWView Cluster.InvWCore Cluster.InvWFinal Cluster.InvQBase Cluster.InvQStep Cluster.InvAll Cluster.InvBundle.
From Coq Require Import ZArith Lia.
Local Open Scope N_scope.

Arguments N.add : simpl never.
Arguments N.sub : simpl never.

(** * One more operation keeps a history admissible *)
Lemma reachable_snoc ops r m s outs o s' outs' :
  Forall op_wf ops -> run_fresh (init_sys r m) ops = true -> run (init_sys r m) ops = Ok (s, outs) ->
  op_wf o -> step_fresh s o = true -> step s o = Ok (s', outs') ->
  Forall op_wf (ops ++ [o]) /\ run_fresh (init_sys r m) (ops ++ [o]) = true /\
  run (init_sys r m) (ops ++ [o]) = Ok (s', outs ++ outs').
Proof.
  intros Hwf Hf Hr Ho Hsf Hst. split; [apply Forall_snoc; assumption|]. split.
  - rewrite (run_fresh_snoc _ _ _ _ _ Hr Hf), Hsf, Hst. reflexivity.
  - eapply run_snoc; eassumption.
Qed.

Lemma reachable_step_INV ops r m s outs o s' outs' :
  Forall op_wf ops -> run_fresh (init_sys r m) ops = true -> run (init_sys r m) ops = Ok (s, outs) ->
  op_wf o -> step_fresh s o = true -> step s o = Ok (s', outs') -> INV s'.
Proof.
  intros Hwf Hf Hr Ho Hsf Hst.
  destruct (reachable_snoc _ _ _ _ _ _ _ _ Hwf Hf Hr Ho Hsf Hst) as (A & B & C).
  exact (reachable_INV _ _ _ _ _ A B C).
Qed.

(** * The job layer after the cancel *)
Lemma cnt_zero_find l v : cnt l v = 0 -> forall k, jt_find l k <> Some v.
Proof.
  induction l as [|[k0 x] r IH]; cbn [cnt jt_find]; intros H k; [discriminate|].
  destruct (jst_eqb x v) eqn:E; [lia|].
  destruct (N.eqb k k0).
  - intros Hx. inversion Hx; subst. destruct v; discriminate.
  - apply IH. lia.
Qed.

(** No task of job [j] is active (waiting / running) in the job layer after [handle_cancel]. *)
Lemma cancel_none_active s j s' :
  HOK (hq_of s) -> handle_cancel s j = Ok s' -> forall x, fst x = j -> ~ BijBase.active s' x.
Proof.
  intros Hok Hc x Hx (l & Hl & Ha).
  destruct (find_job (hq_jobs s) j) as [jb|] eqn:Ej.
  - destruct (cancel_leaves_none _ _ _ _ Hok Ej Hc) as (j' & Hj' & Hz).
    unfold jt in Hl. rewrite Hx, Hj' in Hl. cbn [option_map] in Hl. inversion Hl; subst l.
    unfold ProofsAll.active in Hz.
    destruct Ha as [Ha|Ha]; [apply (cnt_zero_find (j_tasks j') JW) in Ha | apply (cnt_zero_find (j_tasks j') JR) in Ha]; try exact Ha; lia.
  - unfold handle_cancel in Hc. rewrite Ej in Hc. inversion Hc; subst s'.
    unfold jt in Hl. rewrite emit_hq, Hx in Hl. unfold hq_jobs, hq_of in *. rewrite Ej in Hl. discriminate.
Qed.

(** * The theorem *)
Definition job_free_core (c : core) (j : N) : Prop :=
  (* (i) the task map *)
  (forall t, In t (c_tasks c) -> fst (t_id t) <> j) /\
  (* (ii) the worker bookkeeping *)
  (forall wk, In wk (c_workers c) ->
     match w_assign wk with
     | Sn a p _ => (forall id, In id a -> fst id <> j) /\ (forall id, In id p -> fst id <> j)
     | Mn t _ => fst t <> j
     end) /\
  (* (iii) the queues *)
  (forall q, In q (c_queues c) -> forall id, fst id = j -> in_ready q id = false /\ in_prefill q id = false) /\
  (* (iv) the redirects *)
  (forall id v, In (id, v) (c_redirects c) -> fst id <> j).

(** In a state satisfying the invariants, a job without core task is named nowhere. *)
Lemma INV_job_free s j :
  INV s -> (forall t, In t (c_tasks (s_core s)) -> fst (t_id t) <> j) -> job_free_core (s_core s) j.
Proof.
  intros I Ht.
  assert (Hlive : forall id t, find_task (c_tasks (s_core s)) id = Some t -> fst id <> j).
  { intros id t Hf. destruct (find_task_some _ _ _ Hf) as [Hin Hid]. rewrite <- Hid. apply Ht. exact Hin. }
  split; [exact Ht|]. split; [|split].
  - pose proof (WI_worker_sets_ok _ (inv_w _ I)) as Hws. rewrite forallb_forall in Hws.
    intros wk Hin. specialize (Hws _ Hin). unfold worker_sets_ok in Hws.
    destruct (w_assign wk) as [a p f|mt root].
    + apply andb_true_iff in Hws. destruct Hws as [Ha Hp]. rewrite forallb_forall in Ha, Hp.
      split; intros id Hid; [specialize (Ha _ Hid) | specialize (Hp _ Hid)];
        (destruct (find_task (c_tasks (s_core s)) id) as [t|] eqn:Ef; [eapply Hlive; exact Ef | discriminate]).
    + destruct (find_task (c_tasks (s_core s)) mt) as [t|] eqn:Ef; [eapply Hlive; exact Ef | discriminate].
  - destruct (inv_qs _ I) as (_ & _ & Hq & _).
    intros q Hin id Hid. apply In_nth_error in Hin. destruct Hin as (n & Hn).
    assert (Hno : in_ready q id = true \/ in_prefill q id = true -> False).
    { intros Hor. destruct (Hq _ _ _ Hn Hor) as (t & Hf & _). exact (Hlive _ _ Hf Hid). }
    destruct (in_ready q id); [exfalso; apply Hno; left; reflexivity|].
    destruct (in_prefill q id); [exfalso; apply Hno; right; reflexivity|]. split; reflexivity.
  - destruct (inv_qs _ I) as (Hl & _). unfold queues_live_ok in Hl. apply andb_true_iff in Hl. destruct Hl as [_ Hr].
    rewrite forallb_forall in Hr. intros id v Hin. specialize (Hr _ Hin). cbn [fst] in Hr.
    destruct (find_task (c_tasks (s_core s)) id) as [t|] eqn:Ef; [eapply Hlive; exact Ef | discriminate].
Qed.

Theorem cancel_releases_everything ops reserve maxfill s outs j s' outs' :
  Forall op_wf ops -> run_fresh (init_sys reserve maxfill) ops = true -> run (init_sys reserve maxfill) ops = Ok (s, outs) ->
  step s (OpCancel j) = Ok (s', outs') ->
  job_free_core (s_core s') j.
Proof.
  intros Hwf Hf Hr Hst.
  pose proof (reachable_INV _ _ _ _ _ Hwf Hf Hr) as HI.
  pose proof (reachable_step_INV _ _ _ _ _ (OpCancel j) _ _ Hwf Hf Hr I (eq_refl : step_fresh s (OpCancel j) = true) Hst) as HI'.
  apply INV_job_free; [exact HI'|].
  intros t Hin Hj. cbn [step] in Hst.
  apply (cancel_none_active (s, []) j (s', outs') (inv_hok _ HI) Hst (t_id t) Hj).
  apply (active_same (s', []) (s', outs')); [intros id; reflexivity|].
  apply (cb_b _ (inv_cb _ HI')). unfold K. apply present_ids. apply in_map. exact Hin.
Qed.

(** Non-vacuity: a job with two running tasks and a prefilled one (worker sets and the prefill
    queue name the job), then the cancel. *)
Definition rel_rq : rqdef := mkRq 0 [10000; 0; 0].
Definition rel_ops : list op :=
  [OpConnect [30000; 0; 0] 0;
   OpSubmit None [] (Some 3) rel_rq 0%Z (CMax 3) false None;
   OpSched (mkSol [(0, 0, [(1, 2)])] [] [1] []);
   OpDDown 1 []; OpDDown 1 []; OpDUp 1].

Example cancel_releases_example :
  Forall op_wf rel_ops /\ run_fresh (init_sys 0 2) rel_ops = true /\
  exists s outs s' outs',
    run (init_sys 0 2) rel_ops = Ok (s, outs) /\ step s (OpCancel 1) = Ok (s', outs') /\
    map (fun t => (t_id t, t_state t)) (c_tasks (s_core s)) = [((1, 0), Running 1 0); ((1, 1), Running 1 0); ((1, 2), Prefilled 1)] /\
    map w_assign (c_workers (s_core s)) = [Sn [(1, 0); (1, 1)] [(1, 2)] [10000; 0; 0]] /\
    c_queues (s_core s) = [mkQ [] (Some (0%Z, [(1, 2)]))] /\
    c_tasks (s_core s') = [] /\
    map w_assign (c_workers (s_core s')) = [Sn [] [] [30000; 0; 0]] /\
    c_queues (s_core s') = [mkQ [] None].
Proof.
  split; [repeat constructor; cbn; lia|]. split; [vm_compute; reflexivity|].
  do 4 eexists. split; [vm_compute; reflexivity|]. split; [vm_compute; reflexivity|].
  repeat split; vm_compute; reflexivity.
Qed.

Print Assumptions cancel_releases_everything.
