(** Protocol invariant, part 5: the worker-side operations of [Sys.step] ([OpDDown], [OpEnd],
    [OpFailNext], [OpTimer]) preserve [PROTO] and never panic - from [PROTO] alone. *)
From HQ Require Import Base.Prelude Cluster.Types Cluster.Core Cluster.Reactor Cluster.Worker Cluster.Server Cluster.Sys Cluster.ProofsMore Cluster.ProofsWorker Cluster.NoPanicU0 Cluster.NoPanicU1 Cluster.NoPanicU2 Cluster.NoPanicU3 Cluster.NoPanicU4.
From Coq Require Import ZArith Lia Sorting.Sorted.
Local Open Scope N_scope.

Definition worker_op (o : op) : Prop :=
  match o with OpDDown _ _ | OpEnd _ _ _ | OpFailNext _ _ | OpTimer => True | _ => False end.

Definition Seen (s : sys) (x : tid) : Prop := seen (s_hq s) x = true.

(** * Request tables *)
Lemma rq_eqb_eq a b : rq_eqb a b = true <-> a = b.
Proof.
  unfold rq_eqb. rewrite andb_true_iff, N.eqb_eq. destruct a as [na ra], b as [nb rb]. cbn [rq_nodes rq_res].
  assert (H : forall x y, (fix eq (x y : list N) := match x, y with
                                                    | [], [] => true
                                                    | h :: t, h' :: t' => N.eqb h h' && eq t t'
                                                    | _, _ => false
                                                    end) x y = true <-> x = y).
  { induction x as [|h t IH]; intros [|h' t']; try (split; [discriminate | congruence]); [tauto|].
    rewrite andb_true_iff, N.eqb_eq, IH. split; [intros [-> ->]; reflexivity | intros E; inversion E; auto]. }
  rewrite H. split; [intros [-> ->]; reflexivity | intros E; inversion E; auto].
Qed.
Lemma rqs_eqb_eq a : forall b, rqs_eqb a b = true <-> a = b.
Proof.
  induction a as [|x a IH]; intros [|y b]; cbn [rqs_eqb]; try (split; [discriminate | congruence]); [tauto|].
  rewrite andb_true_iff, rq_eqb_eq, IH. split; [intros [-> ->]; reflexivity | intros E; inversion E; auto].
Qed.

Lemma rqs_ok_prefix c p : rqs_ok c p = true -> forall i r, nth_error (p_rqs p) i = Some r -> nth_error (c_rqs c) i = Some r.
Proof.
  unfold rqs_ok. rewrite andb_true_iff, rqs_eqb_eq. intros [_ <-] i r H. rewrite nth_error_app1; [exact H|].
  apply nth_error_Some. congruence.
Qed.

(** * Replacing one process *)
Lemma PROTO_set_proc s w p p' :
  PROTO s -> find_proc (s_procs s) w = Some p -> p_id p' = w ->
  POK s w (Seen s) p' (fun x => ditems x (p_down p')) ->
  rqs_ok (s_core s) p' = true ->
  (forall x, In x (flat_map umsg_tids (p_up p')) -> Seen s x) ->
  (forall x, In x (flat_map dmsg_tids (p_down p')) -> Seen s x) ->
  PROTO (with_procs s (set_proc (s_procs s) p')).
Proof.
  intros [H9 H1 H2 H3 H4 H5 H6 H7 R1 R2] Hp Hid (HW & HL & HS) Hrq Hup Hdn.
  constructor; cbn [with_procs s_procs s_core s_hq]; try assumption.
  - apply set_proc_sorted. exact H9.
  - intros w' p0 x t Hf Ht. rewrite find_set_proc, Hid in Hf. destruct (N.eqb w' w) eqn:E.
    + apply N.eqb_eq in E. subst w'. inversion Hf; subst p0. pose proof (HW x t Ht) as Hl. cbn [flat_map] in Hl. rewrite app_nil_r in Hl. exact Hl.
    + eapply H1; eassumption.
  - intros w' p0 Hf. rewrite find_set_proc, Hid in Hf. destruct (N.eqb w' w); [inversion Hf; subst; exact Hrq | eapply H2; eassumption].
  - intros w' p0 Hf. rewrite find_set_proc, Hid in Hf. destruct (N.eqb w' w); [inversion Hf; subst; apply local_ok_LOK; exact HL | eapply H3; eassumption].
  - intros w' p0 x Hf Hx. rewrite find_set_proc, Hid in Hf. destruct (N.eqb w' w); [|eapply H4; eassumption].
    inversion Hf; subst p0. unfold proc_tids in Hx. rewrite !in_app_iff in Hx.
    destruct Hx as [Hx|[Hx|[Hx|Hx]]]; [apply Hdn; exact Hx | apply Hup; exact Hx | apply HS; left; exact Hx | apply HS; right; left; exact Hx].
Qed.

(** The invariant of a process, from [PROTO]. *)
Lemma PROTO_POK s w p q dx :
  PROTO s -> find_proc (s_procs s) w = Some p ->
  p_up q = p_up p -> p_running q = p_running p -> p_backlog q = p_backlog p -> p_futures q = p_futures p -> p_alloc q = p_alloc p ->
  (forall x, dx x = ditems x (p_down p)) ->
  POK s w (Seen s) q dx.
Proof.
  intros HP Hp E1 E2 E3 E4 E5 Hdx. split; [|split].
  - intros x t Ht. cbn [flat_map]. rewrite app_nil_r, E1, Hdx, (local_eq p q x E2 E3). eapply pr_words; eassumption.
  - pose proof (proj1 (local_ok_LOK p) (pr_local _ HP _ _ Hp)) as [L1 L2 L3 L4 L5]. constructor; rewrite ?E2, ?E3, ?E4, ?E5; assumption.
  - intros x [Hx|[Hx|[]]]; apply (pr_seen _ HP _ _ _ Hp); unfold proc_tids; rewrite !in_app_iff.
    + rewrite E3 in Hx. right. right. left. exact Hx.
    + rewrite E2 in Hx. right. right. right. exact Hx.
Qed.

Lemma seen_down s w p m rest : PROTO s -> find_proc (s_procs s) w = Some p -> p_down p = m :: rest ->
  (forall x, In x (dmsg_tids m) -> Seen s x) /\ (forall x, In x (flat_map dmsg_tids rest) -> Seen s x).
Proof.
  intros HP Hp Ed. split; intros x Hx; apply (pr_seen _ HP _ _ _ Hp); unfold proc_tids; rewrite Ed; cbn [flat_map]; rewrite !in_app_iff; auto.
Qed.
Lemma seen_up s w p : PROTO s -> find_proc (s_procs s) w = Some p -> forall x, In x (flat_map umsg_tids (p_up p)) -> Seen s x.
Proof. intros HP Hp x Hx. apply (pr_seen _ HP _ _ _ Hp). unfold proc_tids. rewrite !in_app_iff. auto. Qed.

(** * A message from the server *)
Lemma process_message_PROTO s w p m rest order :
  PROTO s -> find_proc (s_procs s) w = Some p -> p_down p = m :: rest ->
  (exists p' ls, process_worker_message (wp_down p rest) m order = Ok (p', ls)
                 /\ PROTO (with_procs s (set_proc (s_procs s) p')))
  \/ process_worker_message (wp_down p rest) m order = Disabled.
Proof.
  intros HP Hp Ed. set (q := wp_down p rest).
  destruct (find_proc_some _ _ _ Hp) as [_ Hidp].
  pose proof (pr_rqs _ HP _ _ Hp) as Hrq. unfold rqs_ok in Hrq. rewrite Ed in Hrq. apply andb_true_iff in Hrq. destruct Hrq as [Hd Hq].
  destruct (seen_down _ _ _ _ _ HP Hp Ed) as [Sm Sr]. pose proof (seen_up _ _ _ HP Hp) as Su.
  assert (HPOK : POK s w (Seen s) q (fun x => ditems_msg x m ++ ditems x rest)).
  { eapply PROTO_POK; try eassumption; try reflexivity. intros x. rewrite Ed. reflexivity. }
  (* messages that do not touch words *)
  assert (Hplain : (forall x, ditems_msg x m = []) -> forall p', p_up p' = p_up q -> p_down p' = rest -> p_id p' = w ->
            p_running p' = p_running q -> p_backlog p' = p_backlog q -> p_futures p' = p_futures q -> p_alloc p' = p_alloc q ->
            rqs_ok (s_core s) p' = true -> PROTO (with_procs s (set_proc (s_procs s) p'))).
  { intros Hnil p' E1 E2 E3 E4 E5 E6 E7 Hr. eapply PROTO_set_proc; try eassumption.
    - destruct HPOK as (HW & HL & HS). split; [|split].
      + intros x t Ht. pose proof (HW x t Ht) as Hl. cbv beta in Hl. rewrite (Hnil x) in Hl. cbn [app flat_map] in Hl |- *. rewrite E1, E2, (local_eq q p' x E4 E5). exact Hl.
      + destruct HL as [L1 L2 L3 L4 L5]. constructor; rewrite ?E4, ?E5, ?E6, ?E7; assumption.
      + intros x [Hx|[Hx|[]]]; apply HS; [left; rewrite <- E5 | right; left; rewrite <- E4]; exact Hx.
    - intros x Hx. rewrite E1 in Hx. apply Su. exact Hx.
    - intros x Hx. rewrite E2 in Hx. apply Sr. exact Hx. }
  destruct m as [ts|ids|ids|w0|w0|rq def|]; cbn [process_worker_message].
  - (* ComputeTasks *)
    left. cbn [down_ok] in Hd. apply andb_true_iff in Hd. destruct Hd as [Hct Hd]. rewrite forallb_forall in Hct.
    destruct (compute_loop_inv s w (Seen s) ts q [] [] (fun x => ditems x rest)) as (q' & ups' & ls' & E & B1 & B2 & B3 & (F1 & F2 & F3 & F4)).
    + destruct HPOK as (HW & _). exact HW.
    + destruct HPOK as (_ & HL & _). exact HL.
    + destruct HPOK as (_ & _ & HS). exact HS.
    + intros ct Hc. apply Sm. cbn [dmsg_tids]. apply in_map. exact Hc.
    + exact Hct.
    + exact (rqs_ok_prefix _ _ (pr_rqs _ HP _ _ Hp)).
    + rewrite E. cbn [bind].
      destruct (POK_send s w (Seen s) q' ups' _ B1 B2 B3) as (D1 & D2 & D3 & D4 & D5). cbv zeta in D1, D2, D3, D4, D5.
      exists (match ups' with [] => q' | _ => send_up q' (UUpdates ups') end), ls'. split; [destruct ups'; reflexivity|].
      eapply PROTO_set_proc; try eassumption.
      * rewrite D5, F4. exact Hidp.
      * destruct D1 as (X1 & X2 & X3). split; [|split; assumption]. intros x t Ht. rewrite D3, F2. exact (X1 x t Ht).
      * unfold rqs_ok. rewrite D3, D4, F2, F3. cbn [q p_rqs p_down wp_down wp_upd]. cbn [newrq_defs flat_map] in Hq. rewrite Hd. exact Hq.
      * intros x Hx. destruct (D2 x Hx) as [H|H]; [|exact H]. rewrite F1 in H. apply Su. exact H.
      * intros x Hx. rewrite D3, F2 in Hx. apply Sr. exact Hx.
  - (* RetractTasks *)
    destruct (negb (n_perm order (map fst (p_backlog q)))) eqn:Eperm; [right; reflexivity|]. left. apply negb_false_iff in Eperm.
    destruct (retract_from (p_backlog q) order ids []) as [b out] eqn:Er.
    destruct (retract_inv s w (Seen s) q ids order b out (fun x => ditems x rest) HPOK Eperm Er) as (D1 & D2). cbv zeta in D1, D2.
    exists (match ids with [] => wp_backlog q b | _ => send_up (wp_backlog q b) (URetractResponse out) end), [].
    split; [destruct ids; reflexivity|].
    assert (Ed' : p_down (match ids with [] => wp_backlog q b | _ => send_up (wp_backlog q b) (URetractResponse out) end) = rest) by (destruct ids; reflexivity).
    assert (Er' : p_rqs (match ids with [] => wp_backlog q b | _ => send_up (wp_backlog q b) (URetractResponse out) end) = p_rqs p) by (destruct ids; reflexivity).
    eapply PROTO_set_proc; try eassumption.
    + destruct ids; exact Hidp.
    + destruct D1 as (X1 & X2 & X3). split; [|split; assumption]. intros x t Ht. rewrite Ed'. exact (X1 x t Ht).
    + unfold rqs_ok. rewrite Ed', Er'. cbn [down_ok newrq_defs flat_map] in Hd, Hq. rewrite Hd. exact Hq.
    + intros x Hx. destruct (D2 x Hx) as [H|H]; [apply Su; exact H | exact H].
    + intros x Hx. rewrite Ed' in Hx. apply Sr. exact Hx.
  - (* CancelTasks *)
    left. destruct (cancel_inv s w (Seen s) ids q (fun x => ditems x rest) HPOK) as (D1 & F1 & F2 & F3 & F4). cbv zeta in D1, F1, F2, F3, F4.
    exists (fold_left cancel_task ids q), []. split; [reflexivity|].
    eapply PROTO_set_proc; try eassumption.
    + rewrite F4. exact Hidp.
    + destruct D1 as (X1 & X2 & X3). split; [|split; assumption]. intros x t Ht. rewrite F2. exact (X1 x t Ht).
    + unfold rqs_ok. rewrite F2, F3. cbn [down_ok newrq_defs flat_map q p_rqs p_down wp_down wp_upd] in Hd, Hq |- *. rewrite Hd. exact Hq.
    + intros x Hx. rewrite F1 in Hx. apply Su. exact Hx.
    + intros x Hx. rewrite F2 in Hx. apply Sr. exact Hx.
  - left. exists q, []. split; [reflexivity|]. apply Hplain; try reflexivity; try exact Hidp.
    unfold rqs_ok. cbn [down_ok newrq_defs flat_map q p_rqs p_down wp_down wp_upd] in Hd, Hq |- *. rewrite Hd. exact Hq.
  - left. exists q, []. split; [reflexivity|]. apply Hplain; try reflexivity; try exact Hidp.
    unfold rqs_ok. cbn [down_ok newrq_defs flat_map q p_rqs p_down wp_down wp_upd] in Hd, Hq |- *. rewrite Hd. exact Hq.
  - (* NewRq *)
    left. cbn [down_ok] in Hd. apply andb_true_iff in Hd. destruct Hd as [Hn Hd]. cbn [q p_rqs wp_down wp_upd]. rewrite Hn.
    exists (wp_rqs q (p_rqs q ++ [def])), []. split; [reflexivity|]. apply Hplain; try reflexivity; try exact Hidp.
    unfold rqs_ok. cbn [q p_rqs p_down wp_rqs wp_down wp_upd]. rewrite app_length. cbn [length].
    replace (N.of_nat (length (p_rqs p) + 1)) with (N.of_nat (length (p_rqs p)) + 1) by lia. rewrite Hd.
    cbn [newrq_defs flat_map app] in Hq. rewrite <- app_assoc. exact Hq.
  - left. exists q, []. split; [reflexivity|]. apply Hplain; try reflexivity; try exact Hidp.
    unfold rqs_ok. cbn [down_ok newrq_defs flat_map q p_rqs p_down wp_down wp_upd] in Hd, Hq |- *. rewrite Hd. exact Hq.
Qed.

(** * The end of a task *)
Lemma task_end_PROTO s w p t how :
  PROTO s -> find_proc (s_procs s) w = Some p ->
  (exists p' ls, task_end p t how = Ok (p', ls) /\ PROTO (with_procs s (set_proc (s_procs s) p')))
  \/ task_end p t how = Disabled.
Proof.
  intros HP Hp. destruct (find_proc_some _ _ _ Hp) as [_ Hidp].
  destruct (fu_find (p_futures p) t) as [stop|] eqn:Ef; [|right; unfold task_end; rewrite Ef; reflexivity]. left.
  assert (HPOK : POK s w (Seen s) p (fun x => ditems x (p_down p))) by (eapply PROTO_POK; try eassumption; reflexivity).
  destruct (task_end_inv s w (Seen s) p t how _ HPOK) as (p' & ls & E & D1 & D2 & F2 & F3 & F4); [congruence|].
  exists p', ls. split; [exact E|].
  eapply PROTO_set_proc; try eassumption.
  - rewrite F4. exact Hidp.
  - destruct D1 as (X1 & X2 & X3). split; [|split; assumption]. intros x tx Ht. rewrite F2. exact (X1 x tx Ht).
  - pose proof (pr_rqs _ HP _ _ Hp) as Hrq. unfold rqs_ok in *. rewrite F2, F3. exact Hrq.
  - intros x Hx. destruct (D2 x Hx) as [H|H]; [eapply seen_up; eassumption | exact H].
  - intros x Hx. rewrite F2 in Hx. apply (pr_seen _ HP _ _ _ Hp). unfold proc_tids. rewrite !in_app_iff. auto.
Qed.

(** * A process whose words, tables and maps are untouched *)
Lemma PROTO_same_proc s w p p' :
  PROTO s -> find_proc (s_procs s) w = Some p ->
  p_id p' = p_id p -> p_up p' = p_up p -> p_down p' = p_down p -> p_rqs p' = p_rqs p ->
  p_running p' = p_running p -> p_backlog p' = p_backlog p -> LOK p' ->
  PROTO (with_procs s (set_proc (s_procs s) p')).
Proof.
  intros HP Hp E0 E1 E2 E3 E4 E5 HL. destruct (find_proc_some _ _ _ Hp) as [_ Hidp].
  assert (Hs : forall x, In x (proc_tids p') -> In x (proc_tids p)) by (intros x; unfold proc_tids; rewrite E1, E2, E4, E5; auto).
  eapply PROTO_set_proc; try eassumption.
  - congruence.
  - split; [|split; [exact HL|]].
    + intros x t Ht. cbn [flat_map]. rewrite app_nil_r, E1, E2, (local_eq p p' x E4 E5). eapply pr_words; eassumption.
    + intros x [Hx|[Hx|[]]]; apply (pr_seen _ HP _ _ _ Hp); apply Hs; unfold proc_tids; rewrite !in_app_iff; auto.
  - pose proof (pr_rqs _ HP _ _ Hp) as Hrq. unfold rqs_ok in *. rewrite E2, E3. exact Hrq.
  - intros x Hx. apply (pr_seen _ HP _ _ _ Hp). apply Hs. unfold proc_tids. rewrite !in_app_iff. auto.
  - intros x Hx. apply (pr_seen _ HP _ _ _ Hp). apply Hs. unfold proc_tids. rewrite !in_app_iff. auto.
Qed.

(** * Timers *)
Lemma timers_PROTO s : PROTO s -> PROTO (with_procs s (map (fun p => fold_left timer_fire (p_timers p) p) (s_procs s))).
Proof.
  intros HP. set (f := fun p => fold_left timer_fire (p_timers p) p).
  assert (Hf : forall p, p_id (f p) = p_id p) by (intros p; unfold f; destruct (timers_eff (p_timers p) p) as (_ & _ & _ & E & _); exact E).
  destruct HP as [H9 H1 H2 H3 H4 H5 H6 H7 R1 R2].
  constructor; cbn [with_procs s_procs s_core s_hq]; try assumption.
  - apply map_proc_sorted; assumption.
  - intros w p' x t Hp' Ht. rewrite (find_map_proc f _ _ Hf) in Hp'. destruct (find_proc (s_procs s) w) as [p|] eqn:Hp; [|discriminate].
    inversion Hp'; subst p'. unfold f. destruct (timers_eff (p_timers p) p) as (E1 & E2 & _ & _ & E5 & E6 & _).
    rewrite E1, E2, (local_eq p _ x E5 E6). eapply H1; eassumption.
  - intros w p' Hp'. rewrite (find_map_proc f _ _ Hf) in Hp'. destruct (find_proc (s_procs s) w) as [p|] eqn:Hp; [|discriminate].
    inversion Hp'; subst p'. unfold f. destruct (timers_eff (p_timers p) p) as (_ & E2 & E3 & _).
    pose proof (H2 _ _ Hp) as Hrq. unfold rqs_ok in *. rewrite E2, E3. exact Hrq.
  - intros w p' Hp'. rewrite (find_map_proc f _ _ Hf) in Hp'. destruct (find_proc (s_procs s) w) as [p|] eqn:Hp; [|discriminate].
    inversion Hp'; subst p'. unfold f. destruct (timers_eff (p_timers p) p) as (_ & _ & _ & _ & _ & _ & E7).
    apply local_ok_LOK, E7, local_ok_LOK. eapply H3; eassumption.
  - intros w p' x Hp' Hx. rewrite (find_map_proc f _ _ Hf) in Hp'. destruct (find_proc (s_procs s) w) as [p|] eqn:Hp; [|discriminate].
    inversion Hp'; subst p'. unfold f in Hx. destruct (timers_eff (p_timers p) p) as (E1 & E2 & _ & _ & E5 & E6 & _).
    unfold proc_tids in Hx. rewrite E1, E2, E5, E6 in Hx. eapply H4; eassumption.
Qed.

(** * The worker-side steps *)
Theorem worker_step_PROTO s o s' outs : PROTO s -> worker_op o -> step s o = Ok (s', outs) -> PROTO s'.
Proof.
  intros HP Hw H. destruct o; try destruct Hw; cbn [step] in H.
  - (* OpDDown *)
    destruct (find_proc (s_procs s) w) as [p|] eqn:Hp; [|discriminate]. destruct (p_down p) as [|m rest] eqn:Ed; [discriminate|].
    destruct (process_message_PROTO s w p m rest rq_order HP Hp Ed) as [(p' & ls & E & HP')|E]; rewrite E in H; [|discriminate].
    cbn [bind] in H. inversion H; subst. exact HP'.
  - (* OpEnd *)
    destruct (find_proc (s_procs s) w) as [p|] eqn:Hp; [|discriminate].
    destruct (task_end_PROTO s w p t how HP Hp) as [(p' & ls & E & HP')|E]; rewrite E in H; [|discriminate].
    cbn [bind] in H. inversion H; subst. exact HP'.
  - (* OpFailNext *)
    destruct (find_proc (s_procs s) w) as [p|] eqn:Hp; [|discriminate]. inversion H; subst.
    eapply PROTO_same_proc; try eassumption; try reflexivity.
    pose proof (proj1 (local_ok_LOK p) (pr_local _ HP _ _ Hp)) as [L1 L2 L3 L4 L5]. constructor; assumption.
  - (* OpTimer *)
    inversion H; subst. apply timers_PROTO. exact HP.
Qed.

Theorem worker_process_never_panics_PROTO s o : PROTO s -> worker_op o -> is_panic (step s o) = false.
Proof.
  intros HP Hw. destruct o; try destruct Hw; cbn [step].
  - destruct (find_proc (s_procs s) w) as [p|] eqn:Hp; [|reflexivity]. destruct (p_down p) as [|m rest] eqn:Ed; [reflexivity|].
    destruct (process_message_PROTO s w p m rest rq_order HP Hp Ed) as [(p' & ls & E & _)|E]; rewrite E; reflexivity.
  - destruct (find_proc (s_procs s) w) as [p|] eqn:Hp; [|reflexivity].
    destruct (task_end_PROTO s w p t how HP Hp) as [(p' & ls & E & _)|E]; rewrite E; reflexivity.
  - destruct (find_proc (s_procs s) w); reflexivity.
  - reflexivity.
Qed.
