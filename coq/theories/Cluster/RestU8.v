(** C02 "at rest", part 8: the worker side.  A worker process never drops a running task without
    a report, except when the stop flag of its future is [SCancel]; and a running report of a task
    is only sent when the task is in the running set afterwards. *)
From HQ Require Import Base.Prelude Cluster.Types Cluster.Core Cluster.Reactor Cluster.Worker Cluster.Server Cluster.Sys Cluster.NoPanicL0 Cluster.NoPanicU0 Cluster.NoPanicU1 Cluster.NoPanicU2 Cluster.NoPanicU4 Cluster.ExecU1 Cluster.ExecU19 Cluster.RestU3 Cluster.RestU5.
From Coq Require Import ZArith Lia Sorting.Sorted.
Local Open Scope N_scope.

Notation tid_eqb_eq := NoPanicU1.tid_eqb_eq.
Notation tid_eqb_refl := NoPanicU1.tid_eqb_refl.

Definition nrun (p : wproc) (x : tid) : Prop := run_find (p_running p) x = None.

Lemma runs_app x a b : runs x (a ++ b) <-> runs x a \/ runs x b.
Proof.
  unfold runs. split.
  - intros (rv & [H|H]); apply in_app_iff in H; destruct H as [H|H]; [left | right | left | right]; exists rv; auto.
  - intros [(rv & [H|H])|(rv & [H|H])]; exists rv; [left | right | left | right]; apply in_app_iff; auto.
Qed.
Lemma runs_nil x : ~ runs x [].
Proof. intros (rv & [[]|[]]). Qed.

Lemma try_start_nrun q t rv pre alloc q1 u l st x : try_start_task q t rv pre alloc = (q1, u, l, st) ->
  nrun q1 x -> nrun q x /\ ~ runs x u.
Proof.
  unfold try_start_task, nrun. destruct (tid_mem (wt_id t) (p_failnext q)); intros H; inversion H; subst; cbn [p_running wp_failnext wp_upd].
  - intros Hn. split; [exact Hn|]. intros (rv0 & [[E|[]]|[E|[]]]); discriminate.
  - rewrite run_find_set. destruct (tid_eqb x (wt_id t)) eqn:E; [discriminate|]. intros Hn. split; [exact Hn|].
    intros (rv0 & [[E0|[]]|[E0|[]]]); destruct pre; inversion E0; subst; rewrite tid_eqb_refl in E; discriminate.
Qed.

Lemma prefill_loop_nrun fuel x : forall q rq rv alloc ups ls q' ups' ls' used,
  prefill_loop fuel q rq rv alloc ups ls = (q', ups', ls', used) ->
  (forall u, In u ups -> In u ups') /\ (nrun q' x -> nrun q x /\ (runs x ups' -> runs x ups)).
Proof.
  induction fuel as [|k IH]; intros q rq rv alloc ups ls q' ups' ls' used H; cbn [prefill_loop] in H.
  - inversion H; subst. split; [auto|]. intros Hn. split; [exact Hn | auto].
  - assert (Hstop : (wp_free q (res_add (p_free q) alloc), ups, ls, false) = (q', ups', ls', used) ->
              (forall u, In u ups -> In u ups') /\ (nrun q' x -> nrun q x /\ (runs x ups' -> runs x ups))).
    { intros E. inversion E; subst. split; [auto|]. intros Hn. split; [exact Hn | auto]. }
    destruct (pop_last (bl_get (p_backlog q) rq)) as [[t rest]|]; [|exact (Hstop H)].
    destruct (bl_has (p_backlog q) rq); [|exact (Hstop H)].
    match type of H with context [try_start_task ?p0 t rv true alloc] => destruct (try_start_task p0 t rv true alloc) as [[[q1 u] l] started] eqn:Et end.
    pose proof (try_start_nrun _ _ _ _ _ _ _ _ _ x Et) as W1. unfold nrun in W1. cbn [p_running wp_backlog wp_upd] in W1.
    destruct started.
    + inversion H; subst. split; [intros u0 Hu; apply in_app_iff; left; exact Hu|]. intros Hn. destruct (W1 Hn) as [A B]. split; [exact A|].
      intros Hr. apply runs_app in Hr. destruct Hr as [Hr|Hr]; [exact Hr | contradiction].
    + destruct (IH _ _ _ _ _ _ _ _ _ _ H) as [I1 I2]. split; [intros u0 Hu; apply I1; apply in_app_iff; left; exact Hu|].
      intros Hn. destruct (I2 Hn) as [A B]. destruct (W1 A) as [A1 B1]. split; [exact A1|].
      intros Hr. apply B in Hr. apply runs_app in Hr. destruct Hr as [Hr|Hr]; [exact Hr | contradiction].
Qed.

Lemma compute_loop_nrun ts x : forall q ups ls q' ups' ls', compute_loop q ts ups ls = Ok (q', ups', ls') ->
  nrun q' x -> nrun q x /\ (runs x ups' -> runs x ups).
Proof.
  induction ts as [|ct r IH]; intros q ups ls q' ups' ls' H; cbn [compute_loop] in H; [inversion H; subst; intros Hn; split; [exact Hn | auto]|].
  destruct (ct_rv ct) as [rv|].
  - apply bind_ok in H. destruct H as (rq & _ & H). destruct (negb (N.eqb rv 0)); [discriminate|].
    destruct (res_fits (p_free q) (rq_res rq)).
    + match type of H with context [try_start_task ?p0 ?t rv false ?a] => destruct (try_start_task p0 t rv false a) as [[[q1 u] l] started] eqn:Et end.
      pose proof (try_start_nrun _ _ _ _ _ _ _ _ _ x Et) as W1. unfold nrun in W1. cbn [p_running wp_free wp_upd] in W1.
      destruct started.
      * intros Hn. destruct (IH _ _ _ _ _ _ H Hn) as [A B]. destruct (W1 A) as [A1 B1]. split; [exact A1|].
        intros Hr. apply B in Hr. apply runs_app in Hr. destruct Hr as [Hr|Hr]; [exact Hr | contradiction].
      * match type of H with context [prefill_loop ?f q1 ?a ?b ?c ?d ?e] => destruct (prefill_loop f q1 a b c d e) as [[[q2 u2] l2] usd] eqn:Ep end.
        destruct (prefill_loop_nrun _ x _ _ _ _ _ _ _ _ _ _ Ep) as [_ W2].
        intros Hn. destruct (IH _ _ _ _ _ _ H Hn) as [A B]. destruct (W2 A) as [A2 B2]. destruct (W1 A2) as [A1 B1]. split; [exact A1|].
        intros Hr. apply B, B2 in Hr. apply runs_app in Hr. destruct Hr as [Hr|Hr]; [exact Hr | contradiction].
    + intros Hn. destruct (IH _ _ _ _ _ _ H Hn) as [A B]. split; [exact A|]. intros Hr. apply B in Hr. apply runs_app in Hr.
      destruct Hr as [Hr|(rv0 & [[E|[]]|[E|[]]])]; [exact Hr | discriminate | discriminate].
  - intros Hn. exact (IH _ _ _ _ _ _ H Hn).
Qed.

(** [IRun] items of a message *)
Lemma irun_runs x us b rv : In (IRun b rv) (flat_map (uitem_of x) us) -> runs x us.
Proof.
  intros H. apply in_flat_map in H. destruct H as (u & Hu & Hi). destruct u; cbn [uitem_of] in Hi; unfold sel in Hi;
    try (destruct (tid_eqb _ _) eqn:E; [|destruct Hi]; destruct Hi as [Hi|[]]; try discriminate); try destruct Hi.
  - apply tid_eqb_eq in E. subst t. exists rv0. left. exact Hu.
  - apply tid_eqb_eq in E. subst t. exists rv0. right. exact Hu.
Qed.

Lemma uitems_one x us : uitems x [UUpdates us] = flat_map (uitem_of x) us.
Proof. cbn [uitems flat_map uitems_msg]. apply app_nil_r. Qed.

Definition no_irun (l : list uitem) : Prop := forall b rv, ~ In (IRun b rv) l.

(** * A message from the server *)
Lemma pwm_nrun p m order p' ls x : StronglySorted N.lt (map fst (p_backlog p)) -> process_worker_message p m order = Ok (p', ls) ->
  exists newm, p_up p' = p_up p ++ newm /\ p_id p' = p_id p /\ (nrun p' x -> nrun p x /\ no_irun (uitems x newm)).
Proof.
  intros Hs H. destruct m as [ts|ids|ids|w0|w0|rq def|]; cbn [process_worker_message] in H.
  - apply bind_ok in H. destruct H as ([[p1 ups] ls1] & H1 & H).
    destruct (compute_loop_eff _ _ _ _ _ _ _ H1 Hs) as (_ & U1 & _).
    destruct (compute_loop_wr _ x _ _ _ _ _ _ H1) as (I1 & _).
    pose proof (compute_loop_nrun _ x _ _ _ _ _ _ H1) as W1.
    destruct ups as [|u0 ur]; inversion H; subst.
    + exists []. rewrite app_nil_r. split; [exact U1|]. split; [exact I1|]. intros Hn. split; [exact (proj1 (W1 Hn)) | intros b rv []].
    + exists [UUpdates (u0 :: ur)]. unfold send_up. cbn [p_up p_id wp_up wp_upd p_running]. split; [rewrite U1; reflexivity|]. split; [exact I1|].
      intros Hn. destruct (W1 Hn) as [A B]. split; [exact A|]. intros b rv Hi. rewrite uitems_one in Hi.
      exact (runs_nil x (B (irun_runs _ _ _ _ Hi))).
  - destruct (negb _); [discriminate|]. destruct (retract_from _ _ _ _) as [b out].
    destruct ids; inversion H; subst.
    + exists []. rewrite app_nil_r. cbn. repeat split; auto. intros b0 rv [].
    + exists [URetractResponse out]. unfold send_up. cbn [p_up p_id wp_up wp_upd wp_backlog p_running nrun]. repeat split; auto.
      intros b0 rv Hi. cbn [uitems flat_map uitems_msg] in Hi. rewrite app_nil_r in Hi. apply in_flat_map in Hi. destruct Hi as (y & _ & Hy).
      unfold sel in Hy. destruct (tid_eqb y x); [destruct Hy as [Hy|[]]; discriminate | destruct Hy].
  - inversion H; subst. exists []. rewrite app_nil_r.
    assert (E : forall l q, p_running (fold_left cancel_task l q) = p_running q /\ p_up (fold_left cancel_task l q) = p_up q /\ p_id (fold_left cancel_task l q) = p_id q).
    { induction l as [|i r IH]; intros q; [auto|]. cbn [fold_left]. destruct (IH (cancel_task q i)) as (A & B & C). destruct (cancel_task_eff q i) as (U & _ & _ & _ & R & _).
      assert (Ei : p_id (cancel_task q i) = p_id q).
      { unfold cancel_task. destruct (run_find _ i); [destruct (fu_find _ i) as [[|]|]|]; reflexivity. }
      repeat split; congruence. }
    destruct (E ids p) as (A & B & C). unfold nrun. rewrite A. repeat split; auto. intros b rv [].
  - inversion H; subst. exists []. rewrite app_nil_r. repeat split; auto. intros b rv [].
  - inversion H; subst. exists []. rewrite app_nil_r. repeat split; auto. intros b rv [].
  - destruct (N.eqb _ _); [|discriminate]. inversion H; subst. exists []. rewrite app_nil_r. repeat split; auto. intros b rv [].
  - inversion H; subst. exists []. rewrite app_nil_r. repeat split; auto. intros b rv [].
Qed.

(** * The end of a task future *)
Lemma task_end_nrun p t how p' ls x : StronglySorted tlt (map fst (p_running p)) -> StronglySorted N.lt (map fst (p_backlog p)) ->
  task_end p t how = Ok (p', ls) ->
  exists newm, p_up p' = p_up p ++ newm /\ p_id p' = p_id p /\
    (nrun p' x -> no_irun (uitems x newm) /\ (nrun p x \/ (x = t /\ (uitems x newm = [] -> scan p x)))).
Proof.
  intros Hsr Hs H. unfold task_end in H. destruct (fu_find (p_futures p) t) as [stop|] eqn:Ef; [|discriminate].
  destruct (run_find (p_running p) t) as [rv|] eqn:Ert; [|discriminate]. destruct (al_find (p_alloc p) t) as [[|rq alloc]|]; try discriminate.
  match type of H with context [prefill_loop ?f ?q0 ?a ?b ?c ?u0 []] => destruct (prefill_loop f q0 a b c u0 []) as [[[p1 ups1] ls1] usd] eqn:Ep end.
  match type of Ep with prefill_loop _ ?q0 _ _ _ ?u0 [] = _ => set (p0 := q0) in *; set (ups0 := u0) in * end.
  destruct (prefill_loop_eff _ _ _ _ _ _ _ _ _ _ _ Ep Hs) as (_ & U1 & _).
  destruct (prefill_loop_wr _ x _ _ _ _ _ _ _ _ _ _ Ep) as (I1 & _).
  destruct (prefill_loop_nrun _ x _ _ _ _ _ _ _ _ _ _ Ep) as [Sub W1].
  assert (R0 : ~ runs x ups0).
  { subst ups0. intros (rv0 & [Hr|Hr]); destruct how; [| |destruct stop as [[|]|]| | |destruct stop as [[|]|]]; cbn [In] in Hr;
      repeat match goal with Hd : _ \/ _ |- _ => destruct Hd end; try discriminate; try contradiction. }
  assert (E0 : ups0 = [] -> scan p t).
  { subst ups0. unfold scan. destruct how; [discriminate | discriminate|]. destruct stop as [[|]|]; [intros _; exact Ef | discriminate | discriminate]. }
  assert (T0 : ups0 <> [] -> In (UFinished t) ups0 \/ exists k, In (UFailed t k) ups0).
  { subst ups0. destruct how; [left; left; reflexivity | right; exists FTask; left; reflexivity|]. destruct stop as [[|]|]; [congruence | right; exists FTimeLimit; left; reflexivity | left; left; reflexivity]. }
  match type of H with (let '(_, _) := ?e in _) = _ => destruct e as [p2 ups2] eqn:E2 end.
  assert (A2 : p_running p2 = p_running p1 /\ p_up p2 = p_up p1 /\ p_id p2 = p_id p1 /\ (runs x ups2 -> runs x ups1) /\ (forall u, In u ups1 -> In u ups2)).
  { destruct (negb usd); inversion E2; subst; cbn [p_running p_up p_id wp_blocked wp_upd]; repeat split; auto.
    - intros Hr. apply runs_app in Hr. destruct Hr as [Hr|(rv0 & [Hr|Hr])]; [exact Hr| |]; apply in_map_iff in Hr; destruct Hr as (b & E & _); discriminate.
    - intros u Hu. apply in_app_iff. left. exact Hu. }
  destruct A2 as (R2 & U2 & I2 & Hruns & Sub2).
  assert (Hfinal : nrun p2 x -> ~ runs x ups2 /\ (nrun p x \/ (x = t /\ (ups2 = [] -> scan p x)))).
  { intros Hn. unfold nrun in Hn. rewrite R2 in Hn. destruct (W1 Hn) as [A B]. split; [intros Hr; exact (R0 (B (Hruns Hr)))|].
    unfold nrun in A. cbn [p0 p_running wp_upd] in A. rewrite (run_find_del _ t x Hsr) in A. destruct (tid_eqb x t) eqn:E.
    - apply tid_eqb_eq in E. subst x. right. split; [reflexivity|]. intros E2'. apply E0. destruct ups0 as [|u0 ur]; [reflexivity|].
      exfalso. subst ups2. exact (Sub2 u0 (Sub u0 (or_introl eq_refl))).
    - left. exact A. }
  assert (Up : p_up p2 = p_up p) by (rewrite U2, U1; reflexivity).
  assert (Idp : p_id p2 = p_id p) by (rewrite I2, I1; reflexivity).
  destruct ups2 as [|u0 ur] eqn:Eu2; inversion H; subst p' ls.
  - exists []. rewrite app_nil_r. split; [exact Up|]. split; [exact Idp|]. intros Hn. destruct (Hfinal Hn) as [A B]. split; [intros b rv1 []|].
    destruct B as [B|[Ex B]]; [left; exact B | right; split; [exact Ex | intros _; apply B; reflexivity]].
  - exists [UUpdates (u0 :: ur)]. unfold send_up. cbn [p_up p_id wp_up wp_upd]. split; [rewrite Up; reflexivity|]. split; [exact Idp|].
    intros Hn. change (nrun p2 x) in Hn. destruct (Hfinal Hn) as [A B]. split; [intros b rv1 Hi; rewrite uitems_one in Hi; exact (A (irun_runs _ _ _ _ Hi))|].
    destruct B as [B|[Ex B]]; [left; exact B|]. right. split; [exact Ex|]. intros Hempty. subst x. rewrite uitems_one in Hempty.
    destruct ups0 as [|v0 vr] eqn:Eu0; [apply E0; reflexivity|]. exfalso.
    assert (Hin : forall u, In u (v0 :: vr) -> In u (u0 :: ur)) by (intros u Hu; apply Sub2, Sub, Hu).
    assert (Hne : forall it u, In u (u0 :: ur) -> In it (uitem_of t u) -> False).
    { intros it u Hu Hit. assert (X : In it (flat_map (uitem_of t) (u0 :: ur))) by (apply in_flat_map; exists u; auto). rewrite Hempty in X. exact X. }
    destruct (T0 ltac:(discriminate)) as [Hf|(k & Hf)].
    + apply (Hne IFin _ (Hin _ Hf)). cbn [uitem_of]. unfold sel. rewrite tid_eqb_refl. left. reflexivity.
    + apply (Hne (IFail k) _ (Hin _ Hf)). cbn [uitem_of]. unfold sel. rewrite tid_eqb_refl. left. reflexivity.
Qed.
