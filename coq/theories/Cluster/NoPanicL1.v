(** Worker loss never panics, part 1: the release of everything the lost worker held
    ([lost_prefilled], [lost_assigned], the multi-node branch of [on_remove_worker]) is total on a
    state satisfying the invariants, and what holds afterwards. *)
From HQ Require Import Base.Prelude Cluster.Types Cluster.Core Cluster.Reactor Cluster.Worker Cluster.Server Cluster.Sys Cluster.Monitors Cluster.ProofsJob Cluster.ProofsMore Cluster.ProofsTerminal Cluster.ProofsStep Cluster.ProofsFinal Cluster.BijBase Cluster.BijCore Cluster.BijHq Cluster.BijSt Cluster.BijReact Cluster.BijFinal Cluster.FrameGen Cluster.CrashFrame Cluster.InvWBase Cluster.InvWView Cluster.InvWCore Cluster.InvWReact Cluster.InvWReact2 Cluster.InvWReact3 Cluster.InvWServer Cluster.InvWStep Cluster.InvWFinal Cluster.InvQBase Cluster.InvQTake Cluster.InvQInv Cluster.InvQOps Cluster.InvQNoDup Cluster.InvQReact Cluster.InvQReact2 Cluster.InvQReact3 Cluster.InvQServer Cluster.InvQServer2 Cluster.InvQStep Cluster.InvDBase Cluster.InvDSpec Cluster.InvDMap Cluster.InvDRem Cluster.InvDReact Cluster.InvDSched Cluster.InvDStep Cluster.InvProcsDef Cluster.NoPanicC1 Cluster.NoPanicC2 Cluster.NoPanicC3 Cluster.NoPanicC4.
From Coq Require Import ZArith Lia Sorting.Sorted.
Local Open Scope N_scope.

Arguments N.add : simpl never.
Arguments N.sub : simpl never.

(** * What the worker-set invariant says about the members of a worker's sets *)
Lemma WI_inP_task c w wk a p f id :
  WI c -> find_worker (c_workers c) w = Some wk -> w_assign wk = Sn a p f -> tid_mem id p = true ->
  exists t, find_task (c_tasks c) id = Some t /\ t_state t = Prefilled w.
Proof.
  intros (_ & _ & H & _) Hw Ea Hm.
  pose proof (wi_P _ _ _ H w id) as X. unfold inP, wantP, hv, x0, TV in X. rewrite Hw, Ea, Hm in X.
  destruct (find_task (c_tasks c) id) as [t|]; cbn [option_map plo] in X; [|discriminate].
  exists t. split; [reflexivity|]. destruct (t_state t); cbn [pl] in X; try discriminate.
  symmetry in X. apply N.eqb_eq in X. subst. reflexivity.
Qed.

Lemma WI_inA_task c w wk a p f id :
  WI c -> find_worker (c_workers c) w = Some wk -> w_assign wk = Sn a p f -> tid_mem id a = true ->
  exists t, find_task (c_tasks c) id = Some t /\
    ((exists rv, t_state t = Assigned w rv) \/ (exists rv, t_state t = Running w rv) \/
     (exists w1 v, t_state t = Retracting w1 /\ find_redirect (c_redirects c) id = Some (w, v))).
Proof.
  intros (_ & _ & H & _) Hw Ea Hm.
  pose proof (wi_A _ _ _ H w id) as X. unfold inA, wantA, hv, x0, TV in X. rewrite Hw, Ea, Hm in X.
  destruct (find_task (c_tasks c) id) as [t|]; cbn [option_map plo] in X; [|discriminate].
  exists t. split; [reflexivity|]. destruct (t_state t) as [n|w1 rv|w1|w1|w1 rv|ws|]; cbn [pl] in X; try discriminate.
  - symmetry in X. apply N.eqb_eq in X. subst. left. eauto.
  - right. right. destruct (find_redirect (c_redirects c) id) as [[tg v]|]; [|discriminate].
    symmetry in X. apply N.eqb_eq in X. subst. eauto.
  - symmetry in X. apply N.eqb_eq in X. subst. right. left. eauto.
Qed.

Lemma WI_inM_task c w wk mt root :
  WI c -> find_worker (c_workers c) w = Some wk -> w_assign wk = Mn mt root ->
  exists t ws, find_task (c_tasks c) mt = Some t /\ t_state t = RunningMN ws /\ In w ws.
Proof.
  intros (_ & _ & H & _) Hw Ea.
  pose proof (wi_M _ _ _ H w mt) as X. unfold inM, wantM, hv, x0, TV in X. rewrite Hw, Ea, tid_eqb_refl' in X.
  destruct (find_task (c_tasks c) mt) as [t|]; cbn [option_map plo] in X; [|discriminate].
  destruct (t_state t) as [n|w1 rv|w1|w1|w1 rv|ws|] eqn:Est; cbn [pl] in X; try discriminate.
  exists t, ws. split; [reflexivity|]. split; [exact Est|]. apply BijFinal.n_mem_in. symmetry. exact X.
Qed.

(** * [lost_prefilled] *)
Lemma lost_prefilled_tot l : forall c wkv a p f,
  wsorted (c_workers c) -> WI (vcore c wkv) -> w_assign wkv = Sn a p f -> NoDup l -> (forall i, In i l -> tid_mem i p = true) ->
  QI none [] c -> exists c', lost_prefilled c l = Ok c'.
Proof.
  induction l as [|id r IH]; intros c wkv a p f Sw HW Ea Hnd Hm V; [eexists; reflexivity|].
  inversion Hnd as [|? ? Hni Hnd']; subst.
  destruct (WI_inP_task (vcore c wkv) (w_id wkv) wkv a p f id HW (vcore_find c wkv) Ea (Hm id (or_introl eq_refl))) as (t & Ht & Hst).
  cbn [vcore c_tasks upd_worker with_workers] in Ht.
  destruct (QV_queue _ _ _ _ _ _ _ _ V Ht) as (q & Hq & Hwf & Hp).
  unfold exp_place, none in Hp. rewrite Hst in Hp. cbn [nat_place] in Hp.
  pose proof (placed_prefill_at _ _ _ Hp) as Hpf. unfold PfAt, PAt in Hpf. destruct Hpf as (ts & Eq & Hin).
  assert (Hmv : exists q', q_move_prefilled_to_ready q id = Ok q').
  { unfold q_move_prefilled_to_ready. rewrite Eq. apply tmem_in in Hin. rewrite Hin. eexists; reflexivity. }
  destruct Hmv as (q' & Hq').
  set (c1 := with_queues (upd_task c (with_state (with_inst t (t_inst t + 1)) (Waiting 0))) (set_queue (c_queues c) (N.to_nat (t_rq t)) q')).
  assert (Hstep : forall r', lost_prefilled c (id :: r') = lost_prefilled c1 r').
  { intros r'. cbn [lost_prefilled]. rewrite (get_task_ok _ _ _ Ht). cbn [bind]. rewrite (proj2 (nth_queue_ok _ _ _) Hq). cbn [bind]. rewrite Hq'. reflexivity. }
  assert (H1 : lost_prefilled c [id] = Ok c1) by (rewrite Hstep; reflexivity).
  destruct (lost_prefilled_V [id] c wkv a p f c1 Sw HW Ea) as (Ew & wkv' & p' & Hi' & Ea' & Hm' & W');
    [constructor; [intros [] | constructor] | intros i [<-|[]]; apply Hm; left; reflexivity | exact H1 |].
  destruct (lost_prefilled_QI _ _ _ V H1) as [V1 _].
  rewrite Hstep. eapply (IH c1 wkv' a p' f); [rewrite Ew; exact Sw | exact W' | exact Ea' | exact Hnd' | | exact V1].
  intros i Hi. rewrite Hm', (Hm i (or_intror Hi)). cbn [tid_mem andb].
  assert (E : tid_eqb i id = false) by (apply tid_eqb_neq; intros ->; contradiction). rewrite E. reflexivity.
Qed.

(** * [lost_assigned] *)
Lemma lost_assigned_tot l : forall c wkv a p f running ret,
  wsorted (c_workers c) -> WI (vcore c wkv) -> w_assign wkv = Sn a p f -> NoDup l -> (forall i, In i l -> tid_mem i a = true) ->
  QI (exL Ready ret none) [] c -> NP l (c_tasks c) -> exists r, lost_assigned c l running ret = Ok r.
Proof.
  induction l as [|id r IH]; intros c wkv a p f running ret Sw HW Ea Hnd Hm V Hnp; [eexists; reflexivity|].
  inversion Hnd as [|? ? Hni Hnd']; subst.
  destruct (WI_inA_task (vcore c wkv) (w_id wkv) wkv a p f id HW (vcore_find c wkv) Ea (Hm id (or_introl eq_refl))) as (t & Ht & Hst).
  cbn [vcore c_tasks c_redirects upd_worker with_workers] in Ht, Hst.
  destruct (find_task_some _ _ _ Ht) as [_ Hid].
  assert (Hr1 : exists c1 t1 running1,
            (match t_state t with
             | Running _ _ => Ok (c, with_state t (Waiting 0), running ++ [id])
             | Retracting _ =>
                 match find_redirect (c_redirects c) id with
                 | Some _ => Ok (with_redirects c (del_redirect (c_redirects c) id), t, running)
                 | None => Panic 185
                 end
             | _ => Ok (c, with_state t (Waiting 0), running)
             end : res (core * task * list tid)) = Ok (c1, t1, running1) /\
            c_tasks c1 = c_tasks c /\ c_queues c1 = c_queues c /\ t_rq t1 = t_rq t /\ t_id t1 = id).
  { destruct Hst as [(rv & ->)|[(rv & ->)|(w1 & v & -> & ->)]]; eexists; eexists; eexists; (split; [reflexivity|]); repeat split; exact Hid. }
  destruct Hr1 as (c1 & t1 & running1 & Hr1 & Et1 & Eq1 & Erq1 & Eid1).
  set (t2 := with_inst t1 (t_inst t1 + 1)).
  destruct (add_ready_task_tot (c_queues (upd_task c1 t2)) t2) as (qs & rt & qs1 & Ha & _).
  { cbn [upd_task with_tasks c_queues t2 with_inst t_rq]. rewrite Eq1, Erq1. exact (qv_rq _ _ _ _ _ _ V _ _ Ht). }
  set (c' := with_queues (upd_task c1 t2) qs).
  assert (Hstep : forall r', lost_assigned c (id :: r') running ret = lost_assigned c' r' running1 (ret ++ rt)).
  { intros r'. cbn [lost_assigned]. rewrite (get_task_ok _ _ _ Ht). cbn [bind]. rewrite Hr1. cbn [bind]. fold t2. rewrite Ha. reflexivity. }
  assert (H1 : lost_assigned c [id] running ret = Ok (c', running1, ret ++ rt)) by (rewrite Hstep; reflexivity).
  destruct (lost_assigned_V [id] c wkv a p f running ret c' running1 (ret ++ rt) Sw HW Ea) as (Ew & wkv' & a' & f' & Hi' & Ea' & Hm' & W');
    [constructor; [intros [] | constructor] | intros i [<-|[]]; apply Hm; left; reflexivity | exact H1 |].
  assert (V1 : QI (exL Ready (ret ++ rt) none) [] c').
  { eapply (lost_assigned_QI [id] c running ret); [exact V | | exact H1]. intros x tx [<-|[]] Hx. eapply Hnp; [left; reflexivity | exact Hx]. }
  rewrite Hstep. eapply (IH c' wkv' a' p f'); [rewrite Ew; exact Sw | exact W' | exact Ea' | exact Hnd' | | exact V1 |].
  - intros i Hi. rewrite Hm', (Hm i (or_intror Hi)). cbn [tid_mem andb].
    assert (E : tid_eqb i id = false) by (apply tid_eqb_neq; intros ->; contradiction). rewrite E. reflexivity.
  - intros x tx Hx Hfx. cbn [c' c_tasks with_queues upd_task with_tasks] in Hfx. rewrite find_set_task in Hfx.
    cbn [t2 t_id with_inst] in Hfx. rewrite Eid1 in Hfx.
    assert (E : tid_eqb x id = false) by (apply tid_eqb_neq; intros ->; contradiction). rewrite E, Et1 in Hfx.
    eapply Hnp; [right; exact Hx | exact Hfx].
Qed.

(** One step of [lost_assigned], decomposed. *)
Lemma lost_assigned_cons c id r running ret c' running' ret' :
  lost_assigned c (id :: r) running ret = Ok (c', running', ret') ->
  exists t c1 t1 running1 qs rt,
    find_task (c_tasks c) id = Some t /\
    c_tasks c1 = c_tasks c /\ c_queues c1 = c_queues c /\ t_id t1 = id /\
    (running1 = running \/ (running1 = running ++ [id] /\ t_state t1 = Waiting 0)) /\
    add_ready_task (c_queues c) (with_inst t1 (t_inst t1 + 1)) = Ok (qs, rt) /\
    lost_assigned c [id] running ret = Ok (with_queues (upd_task c1 (with_inst t1 (t_inst t1 + 1))) qs, running1, ret ++ rt) /\
    lost_assigned (with_queues (upd_task c1 (with_inst t1 (t_inst t1 + 1))) qs) r running1 (ret ++ rt) = Ok (c', running', ret').
Proof.
  intros H. cbn [lost_assigned] in H.
  apply bind_ok in H. destruct H as (t & Ht & H). apply bind_ok in H. destruct H as ([[c1 t1] running1] & Hr1 & H).
  apply bind_ok in H. destruct H as ([qs rt] & Ha & H).
  pose proof (get_task_find _ _ _ Ht) as Hf. destruct (find_task_some _ _ _ Hf) as [_ Hid].
  assert (E1 : c_tasks c1 = c_tasks c /\ c_queues c1 = c_queues c /\ t_id t1 = id /\
               (running1 = running \/ (running1 = running ++ [id] /\ t_state t1 = Waiting 0))).
  { apply tid_eqb_eq in Hid.
    destruct (t_state t); try (inversion Hr1; subst c1 t1 running1; repeat split; try (apply tid_eqb_eq; exact Hid); auto).
    destruct (find_redirect (c_redirects c) id); [|discriminate]. inversion Hr1; subst c1 t1 running1. repeat split; try (apply tid_eqb_eq; exact Hid); auto. }
  destruct E1 as (Et & Eq & Ei & Erun).
  exists t, c1, t1, running1, qs, rt. split; [exact Hf|]. split; [exact Et|]. split; [exact Eq|]. split; [exact Ei|]. split; [exact Erun|].
  cbn [upd_task with_tasks c_queues] in Ha. rewrite Eq in Ha. split; [exact Ha|]. split; [|exact H].
  cbn [lost_assigned]. rewrite Ht. cbn [bind]. rewrite Hr1. cbn [bind]. cbn [upd_task with_tasks c_queues]. rewrite Eq, Ha. reflexivity.
Qed.

Lemma add_ready_task_dispose qs t qs' r : add_ready_task qs t = Ok (qs', r) -> exists qs1, dispose_all qs (t_prio t) = (qs1, r).
Proof.
  unfold add_ready_task. destruct (dispose_all qs (t_prio t)) as [qs1 r1]. intros H.
  apply bind_ok in H. destruct H as (q & _ & H). inversion H; subst. eexists; reflexivity.
Qed.

(** The pending retractions are distinct Prefilled tasks. *)
Lemma lost_assigned_ret l : forall c running ret c' running' ret',
  QI (exL Ready ret none) [] c -> NP l (c_tasks c) -> NoDup l -> NoDup ret -> all_prefilled c ret ->
  lost_assigned c l running ret = Ok (c', running', ret') -> NoDup ret' /\ all_prefilled c' ret'.
Proof.
  induction l as [|id r IH]; intros c running ret c' running' ret' V Hnp Hndl Hnd Hap H; [inversion H; subst; split; assumption|].
  inversion Hndl as [|? ? Hni Hndl']; subst.
  destruct (lost_assigned_cons _ _ _ _ _ _ _ _ H) as (t & c1 & t1 & running1 & qs & rt & Hf & Et & Eq & Ei & _ & Ha & H1 & Hrest).
  destruct (add_ready_task_dispose _ _ _ _ Ha) as (qs1 & Hd).
  destruct (dispose_ret_prefilled ret c _ qs1 rt V Hd) as [Ndrt Hrt].
  set (c2 := with_queues (upd_task c1 (with_inst t1 (t_inst t1 + 1))) qs) in *.
  assert (Hnpid : forall w, t_state t <> Prefilled w) by (eapply Hnp; [left; reflexivity | exact Hf]).
  assert (Hkeep : forall x tx w, find_task (c_tasks c) x = Some tx -> t_state tx = Prefilled w -> find_task (c_tasks c2) x = Some tx).
  { intros x tx w Hx Hsx. cbn [c2 c_tasks with_queues upd_task with_tasks]. rewrite find_set_task. cbn [t_id with_inst]. rewrite Ei.
    destruct (tid_eqb x id) eqn:E; [|rewrite Et; exact Hx]. apply tid_eqb_eq in E. subst x. rewrite Hf in Hx. inversion Hx; subst tx.
    exfalso. exact (Hnpid _ Hsx). }
  eapply (IH c2 running1 (ret ++ rt)); [| | exact Hndl' | | | exact Hrest].
  - eapply (lost_assigned_QI [id] c running ret); [exact V | | exact H1]. intros x tx [<-|[]] Hx. eapply Hnp; [left; reflexivity | exact Hx].
  - intros x tx Hx Hfx. cbn [c2 c_tasks with_queues upd_task with_tasks] in Hfx. rewrite find_set_task in Hfx. cbn [t_id with_inst] in Hfx. rewrite Ei in Hfx.
    assert (E : tid_eqb x id = false) by (apply tid_eqb_neq; intros ->; contradiction). rewrite E, Et in Hfx.
    eapply Hnp; [right; exact Hx | exact Hfx].
  - apply nodup_app; [exact Hnd | exact Ndrt|]. intros x Hx Hx'. exact (proj1 (Hrt x Hx') Hx).
  - intros x Hx. apply in_app_or in Hx. destruct Hx as [Hx|Hx].
    + destruct (Hap x Hx) as (tx & w & Hfx & Hsx). exists tx, w. split; [eapply Hkeep; eassumption | exact Hsx].
    + destruct (Hrt x Hx) as (_ & tx & w & Hfx & Hsx). exists tx, w. split; [eapply Hkeep; eassumption | exact Hsx].
Qed.

(** The tasks that were running on the lost worker are ready again. *)
Definition W0 (c : core) (x : tid) : Prop := exists t, find_task (c_tasks c) x = Some t /\ t_state t = Waiting 0.

Lemma lost_assigned_running l : forall c running ret c' running' ret',
  NoDup l -> (forall x, In x running -> ~ In x l /\ W0 c x) ->
  lost_assigned c l running ret = Ok (c', running', ret') -> forall x, In x running' -> W0 c' x.
Proof.
  induction l as [|id r IH]; intros c running ret c' running' ret' Hndl Hrun H; [inversion H; subst; intros x Hx; apply Hrun; exact Hx|].
  inversion Hndl as [|? ? Hni Hndl']; subst.
  destruct (lost_assigned_cons _ _ _ _ _ _ _ _ H) as (t & c1 & t1 & running1 & qs & rt & Hf & Et & Eq & Ei & Erun & Ha & H1 & Hrest).
  eapply IH; [exact Hndl' | | exact Hrest].
  intros x Hx.
  assert (Hold : In x running -> ~ In x r /\ W0 (with_queues (upd_task c1 (with_inst t1 (t_inst t1 + 1))) qs) x).
  { intros Hxr. destruct (Hrun x Hxr) as [Hnx (tx & Hfx & Hsx)]. split; [intros Hc; apply Hnx; right; exact Hc|].
    exists tx. split; [|exact Hsx]. cbn [c_tasks with_queues upd_task with_tasks]. rewrite find_set_task. cbn [t_id with_inst]. rewrite Ei.
    assert (E : tid_eqb x id = false) by (apply tid_eqb_neq; intros ->; apply Hnx; left; reflexivity). rewrite E, Et. exact Hfx. }
  destruct Erun as [->|[-> Hw0]]; [apply Hold; exact Hx|].
  apply in_app_or in Hx. destruct Hx as [Hx|[<-|[]]]; [apply Hold; exact Hx|].
  split; [exact Hni|]. exists (with_inst t1 (t_inst t1 + 1)). split; [|exact Hw0].
  cbn [c_tasks with_queues upd_task with_tasks]. rewrite find_set_task. cbn [t_id with_inst]. rewrite Ei, tid_eqb_refl'. reflexivity.
Qed.

(** * The release step of [on_remove_worker] as a function of its own *)
Definition release (c0 : core) (w : wid) (wk : sworker) (a_order p_order : list tid) : res (core * list tid * list tid) :=
  match w_assign wk with
  | Sn a p _ =>
      if negb (perm_of_set a_order a && perm_of_set p_order p) then Disabled
      else
        do c1 <- lost_prefilled c0 p_order;
        lost_assigned c1 a_order [] []
  | Mn mt root =>
      do t <- get_task (c_tasks c0) mt;
      match t_state t with
      | RunningMN ws =>
          match ws with
          | w0 :: rest =>
              if N.eqb w w0 then
                do c1 <- reset_mn_all c0 rest;
                let t2 := with_inst (with_state t (Waiting 0)) (t_inst t + 1) in
                let c2 := upd_task c1 t2 in
                do (qs, ret) <- add_ready_task (c_queues c2) t2;
                Ok (with_queues c2 qs, [mt], ret)
              else
                Ok (upd_task c0 (with_state t (RunningMN (filter (fun x => negb (N.eqb x w)) ws))), [], [])
          | [] => Panic 186
          end
      | _ => Panic 187
      end
  end.

Definition after_release (s0 : st) (w reason : N) (t_order : list tid) (r : core * list tid * list tid) : res st :=
  let '(c2, running, retracted) := r in
  if negb (perm_of_set t_order (map t_id (c_tasks c2))) then Disabled
  else
  do s3 <- lost_retracting (st_core s0 c2) w t_order;
  do s4 <- process_retracted s3 retracted;
  let s5 := broadcast s4 (DLostWorker w) in
  do s6 <- process_worker_lost s5 w running reason;
  do s7 <- lost_fail_running s6 reason running;
  Ok (ask_scheduling s7).

Lemma on_remove_worker_eq s w reason a p t :
  on_remove_worker s w reason a p t =
  match find_worker (c_workers (core_of s)) w with
  | None => Panic 120
  | Some wk =>
      do r <- release (with_workers (core_of s) (del_worker (c_workers (core_of s)) w)) w wk a p;
      after_release (with_procs (fst s) (del_proc (s_procs (fst s)) w), snd s) w reason t r
  end.
Proof.
  unfold on_remove_worker, release, after_release. destruct (find_worker _ w) as [wk|]; [|reflexivity].
  destruct (w_assign wk); reflexivity.
Qed.

(** The core with the lost worker removed, seen with a virtual copy of the worker. *)
Lemma vcore_del c w wk : WI c -> find_worker (c_workers c) w = Some wk ->
  WI (vcore (with_workers c (del_worker (c_workers c) w)) wk).
Proof.
  intros HW Hw. pose proof (WIX_sw _ _ HW) as Sw. destruct (find_worker_some _ _ _ Hw) as [_ Hwi].
  set (c0 := with_workers c (del_worker (c_workers c) w)).
  assert (Sw0 : wsorted (c_workers c0)) by (apply del_worker_sorted; exact Sw).
  eapply (WIX_views _ _ _ HW); [apply set_worker_sorted; exact Sw0 | exact (WIX_sr _ _ HW) | reflexivity | intros i; reflexivity | | intros i; reflexivity].
  intros x. cbn [vcore c0 c_workers upd_worker with_workers]. rewrite find_set_worker, Hwi, find_del_worker by exact Sw.
  destruct (N.eqb x w) eqn:E; [apply N.eqb_eq in E; subst x; symmetry; exact Hw | reflexivity].
Qed.

(** The multi-node lists are duplicate-free (InvWX1.v: [MND], true in every reachable state). *)
Definition MND (c : core) : Prop := forall t ws, In t (c_tasks c) -> t_state t = RunningMN ws -> NoDup ws.

Theorem release_np c w wk a_order p_order :
  WI c -> QI none [] c -> MND c -> find_worker (c_workers c) w = Some wk ->
  is_panic (release (with_workers c (del_worker (c_workers c) w)) w wk a_order p_order) = false.
Proof.
  intros HW V Hmnd Hw. unfold release.
  set (c0 := with_workers c (del_worker (c_workers c) w)).
  pose proof (WIX_sw _ _ HW) as Sw. destruct (find_worker_some _ _ _ Hw) as [Hwin Hwi].
  assert (Sw0 : wsorted (c_workers c0)) by (apply del_worker_sorted; exact Sw).
  assert (V0 : QI none [] c0) by exact V.
  destruct (w_assign wk) as [a p f|mt root] eqn:Ea.
  - destruct (perm_of_set a_order a && perm_of_set p_order p) eqn:Ep; [|reflexivity]. cbn [negb].
    apply andb_true_iff in Ep. destruct Ep as [Hpa Hpp].
    destruct (wi_sets _ _ _ (proj1 (proj2 (proj2 HW))) w wk a p f Hw Ea) as [Sa Sp].
    destruct (perm_of_set_spec _ _ Hpa Sa) as [Nda Ma]. destruct (perm_of_set_spec _ _ Hpp Sp) as [Ndp Mp].
    pose proof (vcore_del c w wk HW Hw) as W0v. fold c0 in W0v.
    destruct (lost_prefilled_tot p_order c0 wk a p f Sw0 W0v Ea Ndp (fun i Hi => proj1 (Mp i) Hi) V0) as (c1 & H1).
    rewrite H1. cbn [bind].
    destruct (lost_prefilled_V _ _ _ _ _ _ _ Sw0 W0v Ea Ndp (fun i Hi => proj1 (Mp i) Hi) H1) as (Ew1 & wk1 & p1 & Hi1 & Ea1 & Hm1 & W1).
    destruct (lost_prefilled_QI _ _ _ V0 H1) as [V1 P1].
    assert (Sw1 : wsorted (c_workers c1)) by (rewrite Ew1; exact Sw0).
    apply ex_np. eapply (lost_assigned_tot a_order c1 wk1 a p1 f [] []); [exact Sw1 | exact W1 | exact Ea1 | exact Nda | intros i Hi; apply Ma; exact Hi | exact V1 |].
    intros id tk Hin Hf wp Hst. destruct (P1 _ _ _ Hf Hst) as (tk0 & Hf0 & Hst0).
    exact (WI_asg_ok c HW wk a p f id tk0 Hwin Ea (proj1 (Ma id) Hin) Hf0 wp Hst0).
  - destruct (WI_inM_task c w wk mt root HW Hw Ea) as (t & ws & Ht & Hst & Hin).
    change (c_tasks c0) with (c_tasks c). rewrite (get_task_ok _ _ _ Ht). cbn [bind]. rewrite Hst.
    destruct ws as [|w0 rest]; [destruct Hin|].
    destruct (N.eqb w w0) eqn:Ew0; [|reflexivity].
    apply N.eqb_eq in Ew0. subst w0.
    destruct (find_task_some _ _ _ Ht) as [Htin _].
    pose proof (Hmnd t _ Htin Hst) as Hnd. apply NoDup_cons_iff in Hnd. destruct Hnd as [Hni Hnd'].
    destruct (reset_mn_all_tot rest c0) as (c1 & H1).
    { intros x Hx. destruct (WIX_M x0 c mt t (w :: rest) x HW eq_refl Ht) as (wkx & rootx & Hwx & _); [rewrite Hst; reflexivity | right; exact Hx|].
      cbn [c0 c_workers with_workers]. rewrite find_del_worker by exact Sw.
      destruct (N.eqb x w) eqn:E; [apply N.eqb_eq in E; subst x; contradiction | rewrite Hwx; discriminate]. }
    rewrite H1. cbn [bind]. cbv zeta.
    destruct (reset_mn_all_qsame _ _ _ H1) as (T1 & Q1 & _).
    match goal with |- is_panic (bind (add_ready_task ?qs ?t2) _) = false => destruct (add_ready_task_tot qs t2) as (qs' & rt & qs1 & Ha & _) end.
    { cbn [upd_task with_tasks c_queues with_inst with_state t_rq]. rewrite Q1. exact (qv_rq _ _ _ _ _ _ V _ _ Ht). }
    rewrite Ha. reflexivity.
Qed.

(** * What holds after the release *)
From HQ Require Import Cluster.InvWX1 Cluster.InvWX2 Cluster.InvWX3 Cluster.NoPanicL0.

Record RelPost (c : core) (w : wid) (c2 : core) (running retracted : list tid) : Prop := mkRelPost {
  rp_wi : WI c2;
  rp_qi : QI (exL Ready retracted none) [] c2;
  rp_keys : keys c2 = keys c;
  rp_nd : NoDup retracted;
  rp_pf : all_prefilled c2 retracted;
  rp_run : forall x, In x running -> W0 c2 x;
  rp_scr : scr c c2;
  rp_jx : Jx w c2;
  rp_wk : wids c2 = wids (with_workers c (del_worker (c_workers c) w))
}.

Theorem release_post c w wk a_order p_order c2 running retracted :
  WI c -> QI none [] c -> CS c -> InvWX1.J c -> find_worker (c_workers c) w = Some wk ->
  release (with_workers c (del_worker (c_workers c) w)) w wk a_order p_order = Ok (c2, running, retracted) ->
  RelPost c w c2 running retracted.
Proof.
  intros HW V Hs HJ Hw Hr. unfold release in Hr.
  set (c0 := with_workers c (del_worker (c_workers c) w)) in *.
  pose proof (WIX_sw _ _ HW) as Sw. destruct (find_worker_some _ _ _ Hw) as [Hwin Hwi].
  assert (Sw0 : wsorted (c_workers c0)) by (apply del_worker_sorted; exact Sw).
  assert (V0 : QI none [] c0) by exact V.
  assert (Hs0 : CS c0) by exact Hs.
  assert (Hws0 : WS c0) by exact Sw0.
  assert (HQ : QSTMT c) by (destruct (QInv_statement c V) as (_ & Q1 & Q2 & _); split; assumption).
  assert (HWS : WSTMT c) by (apply WI_worker_sets_ok; exact HW).
  assert (Q0 : QA c0) by (eapply QA_tasks_queues; [| |apply QSTMT_QA; exact HQ]; reflexivity).
  assert (Jx0 : Jx w c0) by (apply Jx_del; exact HJ).
  destruct (w_assign wk) as [a p f|mt root] eqn:Ea.
  - destruct (perm_of_set a_order a && perm_of_set p_order p) eqn:Ep; [|discriminate]. cbn [negb] in Hr.
    apply andb_true_iff in Ep. destruct Ep as [Hpa Hpp].
    destruct (wi_sets _ _ _ (proj1 (proj2 (proj2 HW))) w wk a p f Hw Ea) as [Sa Sp].
    destruct (perm_of_set_spec _ _ Hpa Sa) as [Nda Ma]. destruct (perm_of_set_spec _ _ Hpp Sp) as [Ndp Mp].
    pose proof Hr as Hr0. apply bind_ok in Hr. destruct Hr as (c1 & H1 & H2).
    destruct (lost_prefilled_QI _ _ _ V0 H1) as [V1 P1].
    assert (Hnp : NP a_order (c_tasks c1)).
    { intros id tk Hin Hf wp Hst. destruct (P1 _ _ _ Hf Hst) as (tk0 & Hf0 & Hst0).
      exact (WI_asg_ok c HW wk a p f id tk0 Hwin Ea (proj1 (Ma id) Hin) Hf0 wp Hst0). }
    pose proof (lost_prefilled_frame _ _ _ Hs0 H1) as E1.
    destruct (lost_prefilled_QA _ _ _ Q0 H1) as [S1 _].
    assert (S01 : scr c c1) by (eapply scr_trans; [apply (scr_tasks _ c0); reflexivity | exact S1]).
    pose proof (lost_prefilled_wids _ _ _ Hws0 H1) as Wd1.
    destruct (lost_assigned_ret a_order c1 [] [] c2 running retracted V1 Hnp Nda (NoDup_nil _)) as [Ndr Hpf]; [intros x [] | exact H2 |].
    constructor.
    + eapply (lost_release_sn c w wk); eassumption.
    + eapply (lost_assigned_QI a_order c1 [] []); [exact V1 | exact Hnp | exact H2].
    + rewrite (lost_assigned_frame _ _ _ _ _ _ _ (CS_keys _ _ E1 Hs0) H2). exact E1.
    + exact Ndr.
    + exact Hpf.
    + eapply (lost_assigned_running a_order c1 [] []); [exact Nda | intros x [] | exact H2].
    + eapply scr_trans; [exact S01|]. eapply lost_assigned_scr; [|exact H2].
      eapply zlist_scr; [exact S01|]. intros id tk Hin Ef. eapply (WSTMT_assigned _ _ _ _ _ _ HWS Hw Ea); [|exact Ef].
      eapply perm_of_set_sub; eassumption.
    + eapply Jx_R; [exact Jx0|]. eapply InvWX1.R_trans; [eapply lost_prefilled_R; exact H1 | eapply lost_assigned_R; exact H2].
    + rewrite (lost_assigned_wids _ _ _ _ _ _ _ (WS_eq _ _ Wd1 Hws0) H2). exact Wd1.
  - apply bind_ok in Hr. destruct Hr as (tk & Ht & Hr). apply get_task_find in Ht. cbn [c0 c_tasks with_workers] in Ht.
    destruct (find_task_some _ _ _ Ht) as [Htin Hid].
    destruct (t_state tk) as [n|w1 rv1|w1|w1|w1 rv1|ws|] eqn:Est; try discriminate. destruct ws as [|w0 rest] eqn:Ews; [discriminate|].
    assert (Hpm : pl (t_state tk) = PM (w0 :: rest)) by (rewrite Est; reflexivity).
    destruct (N.eqb w w0) eqn:Ew0.
    + apply N.eqb_eq in Ew0. subst w0.
      apply bind_ok in Hr. destruct Hr as (c1 & Hc1 & Hr). apply bind_ok in Hr. destruct Hr as ([qs ret] & Ha & Hr).
      inversion Hr; subst c2 running retracted. clear Hr.
      pose proof (reset_mn_all_qsame _ _ _ Hc1) as Hqs. pose proof (QI_same _ _ _ _ Hqs V0) as V1. destruct Hqs as (T1 & Q1 & R1 & _).
      assert (T1' : c_tasks c1 = c_tasks c) by exact T1.
      pose proof (reset_mn_all_frame _ _ _ Hc1) as E1.
      set (t2 := with_inst (with_state tk (Waiting 0)) (t_inst tk + 1)) in *.
      assert (Ek : keys (upd_task c1 t2) = keys c).
      { transitivity (keys c1); [|exact E1]. apply (upd_task_frame c1 mt tk); [eapply CS_keys; [exact E1 | exact Hs0] | rewrite T1'; exact Ht | reflexivity | reflexivity]. }
      destruct (add_ready_task_dispose _ _ _ _ Ha) as (qs1 & Hd).
      assert (V1e : QI (exL Ready [] none) [] c1) by exact V1.
      cbn [upd_task with_tasks c_queues] in Hd.
      destruct (dispose_ret_prefilled [] c1 _ qs1 ret V1e Hd) as [Ndrt Hrt].
      constructor.
      * assert (W1 : WIX (xadd x0 mt) c1).
        { eapply (C_relM_reset x0 c mt tk (w :: rest) c0 rest c1); [exact HW | reflexivity | exact Ht | exact Hpm | reflexivity | reflexivity | reflexivity
            | apply del_worker_sorted; exact Sw | | | | | exact Hc1].
          - intros x Hx. cbn [n_mem] in Hx. apply orb_false_iff in Hx. destruct Hx as [E1' _].
            cbn [c0 c_workers with_workers]. rewrite find_del_worker by exact Sw. rewrite E1'. reflexivity.
          - intros x _. cbn [c0 c_workers with_workers]. rewrite find_del_worker by exact Sw. destruct (N.eqb x w); auto.
          - intros x Hx. cbn [n_mem] in Hx. cbn [c0 c_workers with_workers]. rewrite find_del_worker by exact Sw.
            destruct (N.eqb x w); [right; reflexivity | left; exact Hx].
          - intros x Hx. cbn [n_mem]. rewrite Hx. apply orb_true_r. }
        refine (WIX_frame _ (upd_task c1 t2) _ eq_refl eq_refl eq_refl eq_refl _).
        exact (C_show _ _ W1 x0 mt t2 ltac:(xs) ltac:(xs) Hid (or_introl eq_refl)).
      * rewrite <- T1' in Ht. qi_simpl.
        eapply QV_ext.
        -- eapply QV_requeue; [exact V1 | exact Ht | exact (find_task_id _ _ _ Ht) | reflexivity | reflexivity | | | reflexivity | cbn; discriminate | exact Ha].
           ++ unfold exp_place, none. rewrite Est. discriminate.
           ++ eapply QV_no_redirect; [exact V1 | exact Ht | intros w1; congruence].
        -- intros x tx _. unfold exL, exR, none. destruct (tid_mem x ret); [reflexivity|]. destruct (tid_eqb x mt); reflexivity.
      * exact Ek.
      * exact Ndrt.
      * intros x Hx. destruct (Hrt x Hx) as (_ & tx & wx & Hfx & Hsx). exists tx, wx. split; [|exact Hsx].
        cbn [c_tasks with_queues upd_task with_tasks]. rewrite find_set_task. cbn [t2 t_id with_inst with_state]. rewrite Hid.
        destruct (tid_eqb x mt) eqn:E; [|exact Hfx]. apply tid_eqb_eq in E. subst x. rewrite T1', Ht in Hfx. inversion Hfx; subst tx. congruence.
      * intros x [<-|[]]. exists t2. split; [|reflexivity].
        cbn [c_tasks with_queues upd_task with_tasks]. rewrite find_set_task. cbn [t2 t_id with_inst with_state]. rewrite Hid, tid_eqb_refl'. reflexivity.
      * eapply (scr_upd _ c1 _ mt tk); [exact T1' | exact Ht | reflexivity | edges | cbn; ststep].
      * eapply Jx_R; [exact Jx0|]. eapply InvWX1.R_trans; [eapply reset_mn_all_R; exact Hc1|].
        eapply (R_set_ok _ _ t2); [reflexivity | apply Dm_eq; reflexivity | exact I].
      * exact (reset_mn_all_wids _ _ _ Hws0 Hc1).
    + inversion Hr; subst c2 running retracted. clear Hr. constructor.
      * eapply (C_shrinkM x0 c HW mt tk (w0 :: rest) w); [reflexivity | exact Ht | exact Hpm | | exact Hid | reflexivity].
        unfold inM. rewrite Hw, Ea, tid_eqb_refl'. reflexivity.
      * qi_simpl.
        eapply QV_task0; [exact V0 | exact Ht | exact (find_task_id _ _ _ Ht) | reflexivity | reflexivity | reflexivity | | |].
        -- unfold exp_place, none. rewrite Est. reflexivity.
        -- intros v Hv. exfalso. rewrite (QV_no_redirect _ _ _ _ _ _ _ _ V0 Ht) in Hv; [discriminate | intros w1; congruence].
        -- cbn. discriminate.
      * apply (upd_task_frame c0 mt tk); [exact Hs0 | exact Ht | reflexivity | reflexivity].
      * constructor.
      * intros x [].
      * intros x [].
      * eapply (scr_upd _ c0 _ mt tk); [reflexivity | exact Ht | reflexivity | edges | ststep].
      * eapply Jx_R; [exact Jx0|].
        pose proof (HJ tk Htin) as Hok. rewrite Est in Hok. cbn in Hok. destruct Hok as [_ Hnd].
        eapply (R_set_ok _ _ (with_state tk (RunningMN (filter (fun x => negb (N.eqb x w)) (w0 :: rest))))); [reflexivity | apply Dm_eq; reflexivity |].
        cbn [okst t_state with_state]. split; [|apply NoDup_filter; exact Hnd].
        cbn [filter]. rewrite N.eqb_sym, Ew0. cbn [negb]. discriminate.
      * reflexivity.
Qed.
