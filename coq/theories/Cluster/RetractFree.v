(** Finding F28 (fixed in the real code): a worker from which a task is being retracted is not
    free.  The worker may have started the task on its own before the retract request reached
    it; if the scheduler meanwhile gives the worker a multi-node task, the worker's
    "running (prefilled)" message meets a multi-node assignment ([insert_sn_task]: site 102;
    exhibited on the real server, NoPanicU21.v [panic_102_reachable]).

    The repair counts the unresolved retractions per worker ([Worker::retracting_tasks]) and
    [Worker::is_free] requires the count to be zero, so the solver never offers such a worker to a
    multi-node task.  In the model the solver's answer is a witness; the repair therefore appears
    as one more clause of the contract on scheduler answers ([sched_retract_ok], monitored on
    every answer of the real solver), and the count itself is the derived [retracting_from]
    (compared with the real [is_free] in every snapshot: field F of the WRK line). *)
From HQ Require Import Base.Prelude Cluster.Types Cluster.Core Cluster.Reactor Cluster.Worker Cluster.Server Cluster.Sys.
From Coq Require Import ZArith.
Local Open Scope N_scope.

Definition retracting_from (c : core) (w : wid) : bool :=
  existsb (fun t => match t_state t with Retracting w1 => N.eqb w1 w | _ => false end) (c_tasks c).

(** Workers named by the multi-node part of a scheduler answer. *)
Definition sol_mn_workers (sol : solution) : list wid := concat (concat (map snd (sol_mn sol))).

Definition sched_retract_ok (c : core) (sol : solution) : bool :=
  forallb (fun w => negb (retracting_from c w)) (sol_mn_workers sol).

Definition op_retract_ok (s : sys) (o : op) : bool :=
  match o with OpSched sol => sched_retract_ok (s_core s) sol | _ => true end.

Fixpoint ops_retract_ok (s : sys) (ops : list op) : bool :=
  match ops with
  | [] => true
  | o :: r => op_retract_ok s o && match step s o with Ok (s1, _) => ops_retract_ok s1 r | _ => true end
  end.

(** The state invariant it buys: no task is being retracted from a worker that holds a
    multi-node task. *)
Definition MNR (c : core) : Prop :=
  forall wk t root, In wk (c_workers c) -> w_assign wk = Mn t root -> retracting_from c (w_id wk) = false.
