(** Worker-set invariant, part 6: task_running, task_reject, request_enabled, on_retract_response. *)
From HQ Require Import Base.Prelude Cluster.Types Cluster.Core Cluster.Reactor Cluster.Worker Cluster.Server Cluster.Sys Cluster.ProofsJob Cluster.ProofsMore Cluster.ProofsTerminal Cluster.ProofsStep Cluster.BijBase Cluster.BijCore Cluster.BijHq Cluster.BijSt Cluster.BijReact Cluster.InvWBase Cluster.InvWView Cluster.InvWCore Cluster.InvWReact Cluster.InvWReact2.
From Coq Require Import ZArith Lia Sorting.Sorted.
Local Open Scope N_scope.

Arguments N.add : simpl never.
Arguments N.sub : simpl never.

(** Transfer along equal views. *)
Lemma WIX_views X c c' : WIX X c -> wsorted (c_workers c') -> rsorted (c_redirects c') -> c_wcounter c' = c_wcounter c ->
  (forall i, TV (c_tasks c') i = TV (c_tasks c) i) ->
  (forall x, find_worker (c_workers c') x = find_worker (c_workers c) x) ->
  (forall i, find_redirect (c_redirects c') i = find_redirect (c_redirects c) i) -> WIX X c'.
Proof.
  intros (Sw & Sr & H & Hb) Sw' Sr' Ec Et Ew Er.
  eapply WIX_intro; [exact Sw' | exact Sr' | exact H | | exact Ew | exact Er | rewrite Ec; exact Hb].
  intros i. unfold hv. rewrite Et. reflexivity.
Qed.

Lemma tfpts_split wk id rq wk' : task_from_prefilled_to_started wk id rq = Ok wk' ->
  exists wk1, remove_prefill_task wk id = Ok wk1 /\ insert_sn_task wk1 id rq = Ok wk'.
Proof.
  unfold task_from_prefilled_to_started, remove_prefill_task, insert_sn_task.
  destruct (w_assign wk) as [a p f|] eqn:Ea; [|discriminate].
  destruct (tid_mem id p); cbn [negb]; [|discriminate]. destruct (tid_mem id a) eqn:Em; [discriminate|].
  intros H. inversion H; subst. eexists. split; [reflexivity|]. cbn [w_assign with_assign]. rewrite Em. reflexivity.
Qed.

Lemma remove_prefill_mem wk id wk' : remove_prefill_task wk id = Ok wk' -> exists a p f, w_assign wk = Sn a p f /\ tid_mem id p = true.
Proof.
  unfold remove_prefill_task. destruct (w_assign wk) as [a p f|]; [|discriminate].
  destruct (tid_mem id p) eqn:E; [|discriminate]. intros _. exists a, p, f. auto.
Qed.

(** A member of a prefilled set is Prefilled on that worker. *)
Lemma WI_prefilled_on c w wk a p f id t w1 :
  WI c -> find_worker (c_workers c) w = Some wk -> w_assign wk = Sn a p f -> tid_mem id p = true ->
  find_task (c_tasks c) id = Some t -> t_state t = Prefilled w1 -> w1 = w.
Proof.
  intros (_ & _ & H & _) Hw Ea Hm Hf Est.
  pose proof (wi_P _ _ _ H w id) as X. unfold inP, wantP, hv, x0 in X. rewrite Hw, Ea, Hm, (TV_find _ _ _ Hf), Est in X. cbn in X.
  symmetry in X. apply N.eqb_eq in X. exact X.
Qed.

(** * task_running *)
Lemma task_running_WI s w id rv s' b : WI (core_of s) -> task_running s w id rv = Ok (s', b) -> WI (core_of s').
Proof.
  intros HW H. unfold task_running in H.
  destruct (find_task (c_tasks (core_of s)) id) as [t|] eqn:Ef; [|inversion H; subst; exact HW].
  destruct (find_task_some _ _ _ Ef) as [_ Hid].
  apply bind_ok in H. destruct H as (rq & _ & H). apply bind_ok in H. destruct H as ([s1 ws] & H1 & H).
  apply bind_ok in H. destruct H as (s2 & H2 & H). inversion H; subst s' b.
  destruct (process_task_started_active _ _ _ _ _ _ H2) as [C2 _]. unfold core_same in C2. rewrite C2. clear H2 C2 H.
  set (c := core_of s) in *.
  destruct (t_state t) as [n|w1 rv1|w1|w1|w1 rv1|wsx|] eqn:Est; try discriminate.
  - destruct (negb (N.eqb w1 w)) eqn:En; [discriminate|]. apply negb_false_iff, N.eqb_eq in En. subst w1.
    destruct (negb (N.eqb rv1 rv)); [discriminate|]. inversion H1; subst s1 ws.
    change (WI (upd_task c (with_state t (Running w rv)))).
    eapply C_same; [exact HW | exact Ef | exact Hid | rewrite Est; reflexivity].
  - destruct (negb (N.eqb w1 w)) eqn:En; [discriminate|]. apply negb_false_iff, N.eqb_eq in En. subst w1.
    apply bind_ok in H1. destruct H1 as (wk & Hw & H1). apply get_worker_find in Hw. cbn [c_workers upd_task with_tasks] in Hw.
    apply bind_ok in H1. destruct H1 as (wk' & Hst & H1).
    apply bind_ok in H1. destruct H1 as (q & _ & H1). apply bind_ok in H1. destruct H1 as (q' & _ & H1). inversion H1; subst s1 ws.
    destruct (tfpts_split _ _ _ _ Hst) as (wk1 & Hrm & Hins).
    assert (Hp : pl (t_state t) = PP w) by (rewrite Est; reflexivity).
    pose proof (C_relP x0 c HW id t w wk wk1 eq_refl Ef Hp Hw Hrm) as W1.
    destruct (find_worker_some _ _ _ Hw) as [_ Hwi].
    destruct (remove_prefill_task_spec _ _ _ Hrm) as (Hi1 & _). destruct (insert_sn_task_spec _ _ _ _ Hins) as (Hi2 & _).
    assert (Hw1 : find_worker (c_workers (upd_worker c wk1)) w = Some wk1).
    { cbn [c_workers upd_worker with_workers]. rewrite find_set_worker, Hi1, Hwi, N.eqb_refl. reflexivity. }
    pose proof (C_putA _ _ W1 x0 id (with_state t (Running w rv)) w wk1 wk' (rq_res rq) ltac:(xs) ltac:(xs) Hid eq_refl Hw1 Hins) as W2.
    eapply (WIX_views _ _ _ W2).
    + apply set_worker_sorted. exact (WIX_sw _ _ HW).
    + exact (WIX_sr _ _ HW).
    + reflexivity.
    + intros i. reflexivity.
    + intros x. cbn [core_of st_core with_core fst s_core c_workers upd_worker upd_task with_workers with_tasks with_queues].
      rewrite !find_set_worker, Hi2, Hi1. destruct (N.eqb x (w_id wk)); reflexivity.
    + intros i. reflexivity.
  - destruct (negb (N.eqb w1 w)) eqn:En; [discriminate|]. apply negb_false_iff, N.eqb_eq in En. subst w1.
    apply bind_ok in H1. destruct H1 as (c1 & Hc1 & H1).
    apply bind_ok in H1. destruct H1 as (wk & Hw & H1). apply get_worker_find in Hw. cbn [c_workers upd_task with_tasks] in Hw.
    apply bind_ok in H1. destruct H1 as (wk' & Hins & H1). inversion H1; subst s1 ws.
    assert (HW0 : WI (core_of (ask_scheduling s))) by (refine (WIX_frame _ c _ eq_refl eq_refl eq_refl eq_refl _); exact HW).
    destruct (try_remove_redirection_WIX _ _ _ _ HW0 Hc1) as (W1 & T1 & R1).
    assert (Ef1 : find_task (c_tasks c1) id = Some t) by (rewrite T1; exact Ef).
    assert (W2 : WIX (xadd x0 id) c1).
    { eapply C_hide; [exact W1 | exact Ef1 | right; split; [rewrite Est; reflexivity | rewrite <- Hid; exact R1]]. }
    exact (C_putA _ _ W2 x0 id (with_state t (Running w rv)) w wk wk' (rq_res rq) ltac:(xs) ltac:(xs) Hid eq_refl Hw Hins).
  - destruct wsx as [|w0 wr]; [discriminate|]. destruct (N.eqb w0 w); [|discriminate]. inversion H1; subst s1 ws. exact HW.
Qed.

(** * task_reject *)
Lemma requeue_WI s t c1 s' b :
  WI (upd_task c1 (with_state t (Waiting 0))) ->
  (do (qs, ret) <- add_ready_task (c_queues c1) (with_state t (Waiting 0));
   do s'' <- process_retracted (st_core s (with_queues (upd_task c1 (with_state t (Waiting 0))) qs)) ret;
   Ok (s'', true)) = Ok (s', b) -> WI (core_of s').
Proof.
  intros HW H. apply bind_ok in H. destruct H as ([qs ret] & _ & H). apply bind_ok in H. destruct H as (s2 & Hr & H). inversion H; subst.
  eapply process_retracted_WI; [|exact Hr]. exact HW.
Qed.

Definition reject_ok (c : core) (w : wid) (id : tid) (rv : option N) : Prop :=
  forall t w1 rv1, find_task (c_tasks c) id = Some t -> t_state t = Assigned w1 rv1 -> w = w1 /\ rv = Some rv1.

Lemma task_reject_WI s w id rv s' b :
  WI (core_of s) -> reject_ok (core_of s) w id rv -> task_reject s w id rv = Ok (s', b) -> WI (core_of s').
Proof.
  intros HW Hrej H. unfold task_reject in H. set (c := core_of s) in *.
  destruct (find_task (c_tasks c) id) as [t|] eqn:Ef; [|inversion H; subst; exact HW].
  destruct (find_task_some _ _ _ Ef) as [_ Hid].
  apply bind_ok in H. destruct H as (wk & Hw & H). apply get_worker_find in Hw.
  destruct (find_worker_some _ _ _ Hw) as [_ Hwi].
  cbv zeta in H.
  match type of H with context [upd_worker c ?k] => set (wk1 := k) in * end.
  assert (Hk1 : w_id wk1 = w /\ w_assign wk1 = w_assign wk).
  { subst wk1. destruct rv as [v|]; [destruct (nn_mem _ _)|]; cbn; auto. }
  destruct Hk1 as [Hi1 Ha1].
  assert (W0 : WI (upd_worker c wk1)) by (eapply C_wsame; [exact HW | exact Hw | exact Hi1 | exact Ha1]).
  assert (Hw0 : find_worker (c_workers (upd_worker c wk1)) w = Some wk1).
  { cbn [c_workers upd_worker with_workers]. rewrite find_set_worker, Hi1, N.eqb_refl. reflexivity. }
  apply bind_ok in H. destruct H as (rq & _ & H).
  destruct (t_state t) as [n|w1 rv1|w1|w1|w1 rv1|wsx|] eqn:Est;
    try (apply bind_ok in H; destruct H as (r0 & Hr0 & _); discriminate).
  - (* Assigned *)
    destruct (Hrej t w1 rv1 Ef Est) as [<- ->]. rewrite N.eqb_refl in H. cbn [negb] in H. rewrite N.eqb_refl in H.
    apply bind_ok in H. destruct H as ([c1 cont] & Hr & H). apply bind_ok in Hr. destruct Hr as (wk' & Hrm & Hr). inversion Hr; subst c1 cont.
    eapply requeue_WI; [|exact H].
    assert (Hp : pl (t_state t) = PA w) by (rewrite Est; reflexivity).
    pose proof (C_relA x0 _ W0 id t w wk1 wk' (rq_res rq) eq_refl Ef Hp Hw0 Hrm) as W1.
    exact (C_show _ _ W1 x0 id (with_state t (Waiting 0)) ltac:(xs) ltac:(xs) Hid (or_introl eq_refl)).
  - (* Prefilled *)
    apply bind_ok in H. destruct H as ([c1 cont] & Hr & H).
    apply bind_ok in Hr. destruct Hr as (wk' & Hrm & Hr). apply bind_ok in Hr. destruct Hr as (q & _ & Hr).
    apply bind_ok in Hr. destruct Hr as (q' & _ & Hr). inversion Hr; subst c1 cont.
    destruct (remove_prefill_mem _ _ _ Hrm) as (a & p & f & Ea & Hm).
    assert (w1 = w) by (eapply (WI_prefilled_on _ w wk1); [exact W0 | exact Hw0 | exact Ea | exact Hm | exact Ef | exact Est]). subst w1.
    eapply requeue_WI; [|exact H].
    assert (Hp : pl (t_state t) = PP w) by (rewrite Est; reflexivity).
    pose proof (C_relP x0 _ W0 id t w wk1 wk' eq_refl Ef Hp Hw0 Hrm) as W1.
    exact (C_show _ _ W1 x0 id (with_state t (Waiting 0)) ltac:(xs) ltac:(xs) Hid (or_introl eq_refl)).
  - (* Retracting *)
    apply bind_ok in H. destruct H as ([c1 cont] & Hr & H).
    destruct (negb (N.eqb w w1)).
    + inversion Hr; subst c1 cont. inversion H; subst s' b. exact W0.
    + inversion Hr; subst c1 cont.
      destruct (find_redirect (c_redirects (upd_worker c wk1)) id) as [[target rvt]|] eqn:Er.
      * apply bind_ok in H. destruct H as (s1 & Hs1 & H). inversion H; subst s' b.
        rewrite (send_worker_core _ _ _ _ Hs1).
        change (WI (upd_task (with_redirects (upd_worker c wk1) (del_redirect (c_redirects (upd_worker c wk1)) id)) (with_state t (Assigned target rvt)))).
        eapply C_redirect_done; [exact W0 | exact Er | exact Hid | reflexivity].
      * eapply requeue_WI; [|exact H].
        eapply C_neutral; [exact W0 | exact Ef | exact Hid | right; split; [rewrite Est; reflexivity | exact Er] | left; reflexivity].
Qed.

Lemma request_enabled_WI s w rq rv s' : WI (core_of s) -> request_enabled s w rq rv = Ok s' -> WI (core_of s').
Proof.
  intros HW H. unfold request_enabled in H. apply bind_ok in H. destruct H as (wk & Hw & H). apply get_worker_find in Hw. inversion H; subst s'.
  destruct (find_worker_some _ _ _ Hw) as [_ Hwi].
  change (WI (upd_worker (core_of s) (with_blocked wk (nn_remove (rq, rv) (w_blocked wk))))).
  eapply C_wsame; [exact HW | exact Hw | exact Hwi | reflexivity].
Qed.

(** * on_retract_response *)
Lemma retract_response_states_WI ids : forall c w acc c' acc',
  WI c -> retract_response_states c w ids acc = (c', acc') -> WI c'.
Proof.
  induction ids as [|id r IH]; cbn [retract_response_states]; intros c w acc c' acc' HW H; [inversion H; subst; exact HW|].
  destruct (find_task (c_tasks c) id) as [t|] eqn:Ef; [|eapply IH; eassumption].
  destruct (find_task_some _ _ _ Ef) as [_ Hid].
  destruct (t_state t) as [n|w1 rv1|w1|w1|w1 rv1|wsx|] eqn:Est; try (eapply IH; eassumption).
  destruct (N.eqb w w1); [|eapply IH; eassumption].
  destruct (find_redirect (c_redirects c) id) as [[target rv]|] eqn:Er.
  - eapply IH; [|exact H]. eapply C_redirect_done; [exact HW | exact Er | exact Hid | reflexivity].
  - eapply IH; [|exact H].
    eapply C_neutral; [exact HW | exact Ef | exact Hid | right; split; [rewrite Est; reflexivity | exact Er] | left; reflexivity].
Qed.

Lemma on_retract_response_WI s w ids s' : WI (core_of s) -> on_retract_response s w ids = Ok s' -> WI (core_of s').
Proof.
  unfold on_retract_response. intros HW H. destruct (retract_response_states _ w ids []) as [c' groups] eqn:E.
  apply bind_ok in H. destruct H as (s2 & H & H2).
  assert (X2 : WI (core_of s2)).
  { rewrite (send_redirected_core _ _ _ H). change (WI c'). eapply retract_response_states_WI; [exact HW | exact E]. }
  destruct (retract_wakes _ _ _ _); inversion H2; subst s'; clear H2; [|exact X2].
  refine (WIX_frame _ (core_of s2) _ eq_refl eq_refl eq_refl eq_refl _). exact X2.
Qed.
