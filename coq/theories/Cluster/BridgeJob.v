(** Bridge, part 3: the job-layer functions of [Reactor.v] against the journal machine. *)
From HQ Require Import Base.Prelude Cluster.Types Cluster.Core Cluster.Reactor Cluster.Worker Cluster.Server Cluster.Sys Cluster.ProofsJob Cluster.ProofsMore Cluster.ProofsStep Cluster.ProofsOnce Cluster.DepOrderBase.
From HQ Require Journal.Event Journal.Restore Journal.Gen Journal.Maps.
From HQ Require Import Cluster.Bridge Cluster.BridgeRel Cluster.BridgeEv.
From Coq Require Import ZArith Lia.
Require Import ZifyBool ZifyN ZifyNat.
Local Open Scope N_scope.
Arguments N.add : simpl never.
Arguments N.sub : simpl never.
Arguments N.ltb : simpl never.
Arguments N.eqb : simpl never.

(** * Function-level simulation *)
Definition SimF (specs : list Event.TaskSpec) (s s' : st) : Prop :=
  exists ext, snd s' = snd s ++ ext /\ SimE (hq_of s) (jevents_of_outs specs ext) (hq_of s').

Lemma jevents_app specs a b : jevents_of_outs specs (a ++ b) = jevents_of_outs specs a ++ jevents_of_outs specs b.
Proof. unfold jevents_of_outs. apply flat_map_app. Qed.

Lemma SimF_refl specs s : SimF specs s s.
Proof. exists []. split; [rewrite app_nil_r; reflexivity | apply SimE_nil]. Qed.

Lemma SimF_same specs s s' : hq_of s' = hq_of s -> snd s' = snd s -> SimF specs s s'.
Proof. intros Hq Hs. exists []. split; [rewrite app_nil_r; exact Hs | rewrite Hq; apply SimE_nil]. Qed.

Lemma SimF_trans specs s1 s2 s3 : SimF specs s1 s2 -> SimF specs s2 s3 -> SimF specs s1 s3.
Proof.
  intros (a & Ha & Sa) (b & Hb & Sb). exists (a ++ b). split; [rewrite Hb, Ha, app_assoc; reflexivity|].
  rewrite jevents_app. eapply SimE_app; eassumption.
Qed.

Lemma SimF_step specs s s' o : snd s' = snd s ++ [o] -> SimE (hq_of s) (jout specs o) (hq_of s') -> SimF specs s s'.
Proof. intros Hs H. exists [o]. split; [exact Hs|]. unfold jevents_of_outs. cbn [flat_map]. rewrite app_nil_r. exact H. Qed.

Lemma SimF_emit_quiet specs s o : jout specs o = [] -> SimF specs s (emit s o).
Proof. intros H. apply (SimF_step specs s (emit s o) o); [reflexivity | rewrite H; apply SimE_nil]. Qed.

Lemma find_job_jid js id j : find_job js id = Some j -> j_id j = id.
Proof.
  induction js as [|h r IH]; cbn [find_job]; [discriminate|]. destruct (N.eqb id (j_id h)) eqn:E; [|exact IH].
  intros H. inversion H; subst. apply N.eqb_eq in E. congruence.
Qed.

Lemma hq_get_job_find s id site j : hq_get_job s id site = Ok j -> find_job (h_jobs (hq_of s)) id = Some j /\ j_id j = id.
Proof.
  unfold hq_get_job, hq_of. destruct (find_job _ id) as [x|] eqn:E; [|discriminate]. intros H. inversion H; subst.
  split; [reflexivity | eapply find_job_jid; exact E].
Qed.

Lemma UPD_set s j' : UPD (hq_of s) (hq_of (hq_set_job s j')) (j_id j') j'.
Proof. split; [|reflexivity]. intros id. unfold hq_of, hq_set_job. cbn. apply find_job_set'. Qed.

(** * [check_termination] *)
Lemma check_termination_sim specs s jid s' :
  (forall j, find_job (h_jobs (hq_of s)) jid = Some j -> JOK j /\ j_completed j = false) ->
  check_termination s jid = Ok s' -> SimF specs s s'.
Proof.
  intros Hj Hc. unfold check_termination in Hc. inv_bind Hc.
  destruct (hq_get_job_find _ _ _ _ Hb) as (Hf & Hid). destruct (Hj _ Hf) as (Hok & Hcm).
  rewrite (has_no_active_ok _ Hok) in Hb0. cbn [bind] in Hb0.
  destruct (N.eqb (cnt (j_tasks a) JR) 0 && N.eqb (cnt (j_tasks a) JW) 0) eqn:E; [|inversion Hb0; subst; apply SimF_refl].
  destruct (j_open a) eqn:Eo; [inversion Hb0; subst; apply SimF_refl|].
  inversion Hb0; subst s'. clear Hb0.
  eapply SimF_step; [reflexivity|]. cbn [jout jev]. rewrite emit_hq. rewrite <- Hid.
  eapply ev_completed; [rewrite Hid; exact Hf | exact Hcm | exact Eo | lia | lia | | ].
  - match goal with |- UPD _ (hq_of (hq_set_job _ ?j')) _ _ => exact (UPD_set s j') end.
  - reflexivity.
Qed.

(** * [process_task_started] *)
Lemma process_task_started_sim specs s t inst ws rv s' :
  process_task_started s t inst ws rv = Ok s' -> SimF specs s s'.
Proof.
  intros Hc. unfold process_task_started in Hc. inv_bind Hc.
  destruct (hq_get_job_find _ _ _ _ Hb) as (Hf & Hid).
  destruct (jt_find (j_tasks a) (snd t)) as [v|] eqn:Ef; [|discriminate].
  inversion Hb0; subst s'. clear Hb0.
  eapply SimF_step; [reflexivity|]. cbn [jout jev]. rewrite emit_hq.
  match goal with |- SimE _ _ (hq_of (hq_set_job _ ?j')) => set (jb' := j') end.
  assert (Hid' : j_id jb' = fst t) by (subst jb'; destruct v; exact Hid).
  pose proof (UPD_set s jb') as HU. rewrite Hid' in HU.
  eapply ev_started; [exact Hf | exact Ef | exact HU | | | |]; subst jb'; destruct v; cbn; try reflexivity; try exact Ef;
    try (intros t' Hn; reflexivity).
  - intros t' Hn. apply jt_find_set_other. exact Hn.
  - apply jt_find_set_same.
Qed.

Ltac jok_from Hok Ef v' :=
  let Ss := fresh "Ss" in let R := fresh "R" in let F := fresh "F" in let X := fresh "X" in
  let C := fresh "C" in let A := fresh "A" in let Cm := fresh "Cm" in let HC := fresh "HC" in
  destruct Hok as [Ss R F X C A Cm];
  pose proof (fun v => cnt_set_some _ _ _ v' v Ss Ef) as HC;
  pose proof (cnt_pos _ _ _ Ef);
  constructor; cbn; auto using jt_set_sorted;
  try (match goal with |- _ = cnt _ ?v => specialize (HC v); cbn [jst_eqb] in HC; lia end);
  try (let Hcm := fresh in intros Hcm; exfalso; destruct (Cm Hcm) as (_ & ? & ?); lia).

(** * [process_task_finished] *)
Lemma process_task_finished_sim specs s t s' :
  HOK (hq_of s) -> process_task_finished s t = Ok s' -> SimF specs s s'.
Proof.
  intros H Hc. unfold process_task_finished in Hc. inv_bind Hc.
  destruct (hq_get_job_find _ _ _ _ Hb) as (Hf & Hid). pose proof (hq_get_job_ok _ _ _ _ H Hb) as Hok.
  destruct (jt_find (j_tasks a) (snd t)) as [v|] eqn:Ef; [|discriminate].
  destruct v; try discriminate. inv_bind Hb0. unfold csub in Hb1.
  destruct (N.ltb (j_nrun a) 1) eqn:El; [discriminate|]. inversion Hb1; subst a0. clear Hb1.
  match type of Hb2 with context [hq_set_job s ?j'] => set (jb' := j') in Hb2 end.
  assert (Hc0 : j_completed a = false).
  { destruct (j_completed a) eqn:E; [|reflexivity]. destruct (completed_no_pending _ _ _ Hok E Ef). congruence. }
  assert (Hok' : JOK jb') by (subst jb'; jok_from Hok Ef JF).
  eapply SimF_trans; [|eapply check_termination_sim; [|exact Hb2]].
  - eapply SimF_step; [reflexivity|]. cbn [jout jev]. rewrite emit_hq.
    pose proof (UPD_set s jb') as HU. change (j_id jb') with (j_id a) in HU. rewrite Hid in HU.
    eapply ev_finished; [exact Hf | exact HU | reflexivity | reflexivity | |].
    + intros t' Hn. subst jb'. cbn. apply jt_find_set_other. exact Hn.
    + subst jb'. cbn. apply jt_find_set_same.
  - intros j Hj. rewrite emit_hq in Hj. destruct (UPD_set s jb') as [Hu _]. rewrite Hu in Hj.
    change (j_id jb') with (j_id a) in Hj. rewrite Hid, N.eqb_refl in Hj. inversion Hj; subst j. split; [exact Hok' | exact Hc0].
Qed.

(** * [set_waiting_state] / [process_worker_lost] *)
Lemma set_waiting_state_sim specs s t s' : set_waiting_state s t = Ok s' -> SimF specs s s'.
Proof.
  intros Hc. pose proof (set_waiting_state_snd _ _ _ Hc) as Hs.
  exists []. split; [rewrite app_nil_r; exact Hs|]. unfold jevents_of_outs. cbn [flat_map]. intros g HR. cbn [lrun].
  unfold set_waiting_state in Hc. inv_bind Hc. destruct (hq_get_job_find _ _ _ _ Hb) as (Hf & Hid).
  destruct (jt_find (j_tasks a) (snd t)) as [v|] eqn:Ef; [|discriminate].
  destruct v; try (inversion Hb0; subst; exact HR).
  inv_bind Hb0. inversion Hb2; subst s'. clear Hb2.
  match goal with |- RelJ (hq_of (hq_set_job _ ?j')) _ => set (jb' := j') end.
  destruct (UPD_set s jb') as [Hu Hcn]. change (j_id jb') with (j_id a) in Hu. rewrite Hid in Hu.
  eapply RelJ_quiet; [exact HR | exact Hf | exact Hu | exact Hcn | reflexivity | reflexivity|].
  intros gt Ht t'. subst jb'. cbn. destruct (N.eq_dec t' (snd t)) as [->|Hn].
  - rewrite jt_find_set_same. specialize (Ht (snd t)). rewrite Ef in Ht. exact Ht.
  - rewrite jt_find_set_other by exact Hn. apply Ht.
Qed.

Lemma set_waiting_all_sim specs ts : forall s s', set_waiting_all s ts = Ok s' -> SimF specs s s'.
Proof.
  induction ts as [|t r IH]; cbn [set_waiting_all]; intros s s' H; [inversion H; subst; apply SimF_refl|].
  inv_bind H. eapply SimF_trans; [eapply set_waiting_state_sim; exact Hb | eapply IH; exact Hb0].
Qed.

Lemma process_worker_lost_sim specs s w running reason s' : process_worker_lost s w running reason = Ok s' -> SimF specs s s'.
Proof.
  intros H. unfold process_worker_lost in H. inv_bind H. inversion Hb0; subst s'.
  eapply SimF_trans; [eapply set_waiting_all_sim; exact Hb|].
  eapply SimF_step; [reflexivity|]. cbn [jout jev]. rewrite emit_hq. apply ev_wlost.
Qed.

(** * [abort_tasks] / [set_cancel_state] *)
Lemma mark_common target site s jid ids a a0 :
  is_abort_or_cancel target -> ids <> [] -> HOK (hq_of s) ->
  hq_get_job s jid 207 = Ok a -> mark_tasks a ids target site = Ok a0 ->
  forall jb', j_tasks jb' = j_tasks a0 -> j_open jb' = j_open a0 -> j_completed jb' = j_completed a0 -> j_id jb' = j_id a0 ->
  JOK jb' ->
  SimE (hq_of s) [match target with JC => Event.ETasksCanceled ids | _ => Event.ETasksAborted ids end] (hq_of (hq_set_job s jb'))
  /\ (forall j, find_job (h_jobs (hq_of (hq_set_job s jb'))) jid = Some j -> JOK j /\ j_completed j = false)
  /\ exists t v, jt_find (j_tasks a) t = Some v /\ (v = JW \/ v = JR).
Proof.
  intros Ht Hne H Hb Hm jb' E1 E2 E3 E4 Hok'.
  destruct (hq_get_job_find _ _ _ _ Hb) as (Hf & Hid). pose proof (hq_get_job_ok _ _ _ _ H Hb) as Hok.
  destruct (mark_tasks_ok target site ids Ht _ _ 0 (JOK_JOKx _ target Hok) Hm) as (_ & O1 & O2 & O3 & O4 & Hact).
  assert (Hpend : exists t v, jt_find (j_tasks a) t = Some v /\ (v = JW \/ v = JR)).
  { destruct ids as [|t r]; [congruence|]. cbn [mark_tasks] in Hm. destruct (negb _); [discriminate|].
    destruct (jt_find (j_tasks a) (snd t)) as [v|] eqn:Ef; [|discriminate]. exists (snd t), v. split; [exact Ef|].
    destruct v; try discriminate; auto. }
  assert (Hc0 : j_completed a = false).
  { destruct (j_completed a) eqn:E; [|reflexivity]. destruct Hpend as (t & v & Ef & Hv).
    destruct (completed_no_pending _ _ _ Hok E Ef). destruct Hv; contradiction. }
  pose proof (UPD_set s jb') as HU. rewrite E4, O3 in HU.
  split; [|split; [|exact Hpend]].
  - eapply (ev_term target site); [exact Ht | exact Hok | exact Hne | rewrite Hid; exact Hf | exact Hm | exact HU | exact E3 | exact E2 | exact E1].
  - intros j Hj. destruct HU as [Hu _]. rewrite Hu, Hid, N.eqb_refl in Hj. inversion Hj; subst j. split; [exact Hok'|]. congruence.
Qed.

Lemma abort_tasks_sim specs s jid ids s' :
  HOK (hq_of s) -> abort_tasks s jid ids = Ok s' -> SimF specs s s'.
Proof.
  intros H Hc. unfold abort_tasks in Hc. destruct ids as [|i0 ir]; [inversion Hc; subst; apply SimF_refl|].
  inv_bind Hc. pose proof (hq_get_job_ok _ _ _ _ H Hb) as Hj. inv_bind Hb0.
  match type of Hb2 with context [hq_set_job s ?j'] => set (jb' := j') in Hb2 end.
  assert (Hok' : JOK jb').
  { destruct (mark_tasks_ok JA 206 (i0 :: ir) (or_intror eq_refl) _ _ 0 (JOK_JOKx _ JA Hj) Hb1) as ([Ss R F X C A] & O1 & O2 & O3 & O4 & Hact).
    subst jb'. cbn [jst_eqb] in *. constructor; cbn; auto; try lia.
    intros Hcm. rewrite O2 in Hcm. destruct (jok_completed _ Hj Hcm) as (_ & Hw & Hr).
    assert (i0 :: ir <> []) as Hne by discriminate. specialize (Hact Hne). lia. }
  destruct (mark_common JA 206 s jid (i0 :: ir) a a0 (or_intror eq_refl) ltac:(discriminate) H Hb Hb1 jb' eq_refl eq_refl eq_refl eq_refl Hok') as (HS & HJ & _).
  eapply SimF_trans; [|eapply check_termination_sim; [|exact Hb2]].
  - eapply SimF_step; [reflexivity|]. cbn [jout jev]. rewrite emit_hq. exact HS.
  - intros j Hjf. rewrite emit_hq in Hjf. exact (HJ j Hjf).
Qed.

Lemma set_cancel_state_sim specs s jid ids s' :
  HOK (hq_of s) -> set_cancel_state s jid ids = Ok s' -> SimF specs s s'.
Proof.
  intros H Hc. unfold set_cancel_state in Hc. destruct ids as [|i0 ir]; [inversion Hc; subst; apply SimF_refl|].
  inv_bind Hc. pose proof (hq_get_job_ok _ _ _ _ H Hb) as Hj. inv_bind Hb0.
  match type of Hb2 with context [hq_set_job s ?j'] => set (jb' := j') in Hb2 end.
  assert (Hok' : JOK jb').
  { destruct (mark_tasks_ok JC 205 (i0 :: ir) (or_introl eq_refl) _ _ 0 (JOK_JOKx _ JC Hj) Hb1) as ([Ss R F X C A] & O1 & O2 & O3 & O4 & Hact).
    subst jb'. cbn [jst_eqb] in *. constructor; cbn; auto; try lia.
    intros Hcm. rewrite O2 in Hcm. destruct (jok_completed _ Hj Hcm) as (_ & Hw & Hr).
    assert (i0 :: ir <> []) as Hne by discriminate. specialize (Hact Hne). lia. }
  destruct (mark_common JC 205 s jid (i0 :: ir) a a0 (or_introl eq_refl) ltac:(discriminate) H Hb Hb1 jb' eq_refl eq_refl eq_refl eq_refl Hok') as (HS & HJ & (t & v & Ef & Hv)).
  destruct (hq_get_job_find _ _ _ _ Hb) as (Hf & Hid).
  eapply SimF_trans; [|eapply check_termination_sim; [|exact Hb2]].
  - (* the job-cancel record, then the batch; the state change happens with the first emit *)
    exists [OEv (EvJobCancel jid); OEv (EvCanceled (i0 :: ir))]. split; [unfold emit, hq_set_job; cbn [snd fst]; rewrite <- app_assoc; reflexivity|].
    unfold jevents_of_outs. cbn [flat_map jout jev app]. rewrite !emit_hq.
    change [Event.EJobCancel jid; Event.ETasksCanceled (i0 :: ir)] with ([Event.EJobCancel jid] ++ [Event.ETasksCanceled (i0 :: ir)]).
    eapply SimE_app; [|exact HS]. rewrite <- Hid. eapply ev_jobcancel; [exact Hj | rewrite Hid; exact Hf | exact Ef | exact Hv].
  - intros j Hjf. rewrite !emit_hq in Hjf. exact (HJ j Hjf).
Qed.

(** * [process_task_failed] *)
Lemma process_task_failed_sim specs s t aborted k s' ids :
  HOK (hq_of s) -> process_task_failed s t aborted k = Ok (s', ids) -> SimF specs s s'.
Proof.
  intros H Hc. unfold process_task_failed in Hc.
  inv_bind Hc. pose proof (abort_tasks_ok _ _ _ _ H Hb) as H1. pose proof (abort_tasks_sim specs _ _ _ _ H Hb) as S1.
  inv_bind Hb0. pose proof (hq_get_job_ok _ _ _ _ H1 Hb1) as Hj. destruct (hq_get_job_find _ _ _ _ Hb1) as (Hf & Hid).
  inv_bind Hb2.
  destruct (jt_find (j_tasks a0) (snd t)) as [v|] eqn:Ef; [|discriminate].
  assert (Hv : v = JW \/ v = JR) by (destruct v; try discriminate; auto).
  assert (Hc0 : j_completed a0 = false).
  { destruct (j_completed a0) eqn:E; [|reflexivity]. destruct (completed_no_pending _ _ _ Hj E Ef). destruct Hv; contradiction. }
  assert (Hj1 : JOK a1 /\ j_completed a1 = false /\ j_open a1 = j_open a0 /\ j_id a1 = j_id a0
                /\ (forall t', t' <> snd t -> jt_find (j_tasks a1) t' = jt_find (j_tasks a0) t') /\ jt_find (j_tasks a1) (snd t) = Some JX).
  { destruct v; try discriminate.
    - inversion Hb0; subst a1. split; [jok_from Hj Ef JX|]. cbn. repeat split; auto using jt_find_set_same.
      intros t' Hn. apply jt_find_set_other. exact Hn.
    - inv_bind Hb0. unfold csub in Hb2. destruct (N.ltb (j_nrun a0) 1) eqn:El; [discriminate|].
      inversion Hb2; subst. inversion Hb4; subst a1. split; [jok_from Hj Ef JX|]. cbn. repeat split; auto using jt_find_set_same.
      intros t' Hn. apply jt_find_set_other. exact Hn. }
  destruct Hj1 as (Hok1 & Hc1 & Ho1 & Hi1 & Hot & Hnew).
  inv_bind Hb3.
  assert (H2 : HOK (hq_of a2)).
  { eapply check_termination_ok; [|exact Hb2]. rewrite emit_hq. apply hq_set_job_ok; assumption. }
  assert (S2 : SimF specs a a2).
  { eapply SimF_trans; [|eapply check_termination_sim; [|exact Hb2]].
    - eapply SimF_step; [reflexivity|]. cbn [jout jev]. rewrite emit_hq.
      pose proof (UPD_set a a1) as HU. rewrite Hi1, Hid in HU.
      eapply ev_failed; [exact Hj | exact Hf | exact Ef | exact Hv | exact HU | congruence | exact Ho1 | exact Hot | exact Hnew].
    - intros j Hjf. rewrite emit_hq in Hjf. destruct (UPD_set a a1) as [Hu _]. rewrite Hu, Hi1, Hid, N.eqb_refl in Hjf.
      inversion Hjf; subst j. split; assumption. }
  inv_bind Hb4.
  destruct (j_maxfails a3) as [mf|]; [|inversion Hb5; subst; eapply SimF_trans; eassumption].
  destruct (N.ltb mf (j_nfail a3)); [|inversion Hb5; subst; eapply SimF_trans; eassumption].
  inv_bind Hb5. inversion Hb6; subst.
  eapply SimF_trans; [exact S1|]. eapply SimF_trans; [exact S2|]. eapply abort_tasks_sim; eassumption.
Qed.
