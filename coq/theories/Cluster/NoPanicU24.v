(** Finding F28 / invariant RSN, part 2: the remaining reactor functions, the server side, the
    single-node and prefill parts of a scheduling round (all satisfy [RS]). *)
From HQ Require Import Base.Prelude Cluster.Types Cluster.Core Cluster.Reactor Cluster.Worker Cluster.Server Cluster.Sys Cluster.ProofsJob Cluster.ProofsMore Cluster.ProofsStep Cluster.BijBase Cluster.BijCore Cluster.BijHq Cluster.BijSt Cluster.InvWBase Cluster.InvWCore Cluster.InvWX1 Cluster.InvWX2 Cluster.NoPanicU23.
From Coq Require Import ZArith Lia Sorting.Sorted.
Local Open Scope N_scope.

Arguments N.add : simpl never.
Arguments N.sub : simpl never.

Lemma DS_set2 c c' k1 k2 : c_workers c' = set_worker (set_worker (c_workers c) k1) k2 -> snk k1 -> snk k2 -> DS c c'.
Proof.
  intros E H1 H2 w (wk & Hw & Hs). unfold snw. rewrite E, !find_set_worker.
  destruct (N.eqb w (w_id k2)); [exists k2; auto|]. destruct (N.eqb w (w_id k1)); [exists k1; auto | exists wk; auto].
Qed.
Ltac ds ::= first [apply DS_eq; reflexivity | eapply DS_set1; [reflexivity | snk_solve]
                 | eapply DS_set_keep; [reflexivity | eassumption | reflexivity | reflexivity]
                 | eapply DS_set2; [reflexivity | snk_solve | snk_solve]].

(** * task_running, task_reject, request_enabled, on_retract_response *)
Lemma task_running_RS s w id rv s' b : task_running s w id rv = Ok (s', b) -> RS (core_of s) (core_of s').
Proof.
  intros H. unfold task_running in H.
  destruct (find_task (c_tasks (core_of s)) id) as [t|]; [|inversion H; subst; apply RS_refl].
  apply bind_ok in H. destruct H as (rq & ?X & H). apply bind_ok in H. destruct H as ([s1 ws] & H1 & H).
  apply bind_ok in H. destruct H as (s2 & H2 & H). inversion H; subst s' b.
  destruct (process_task_started_active _ _ _ _ _ _ H2) as [C2 _]. unfold core_same in C2. rewrite C2. clear H2 C2 H.
  destruct (t_state t) as [n|w1 rv1|w1|w1|w1 rv1|wsx|]; try discriminate.
  - destruct (negb (N.eqb w1 w)); [discriminate|]. destruct (negb (N.eqb rv1 rv)); [discriminate|]. inversion H1; subst s1 ws.
    eapply (RS_set_ok _ _ (with_state t (Running w rv))); [reflexivity | ds | exact I].
  - destruct (negb (N.eqb w1 w)); [discriminate|]. inv_binds H1. inversion H1; subst s1 ws.
    eapply (RS_set_ok _ _ (with_state t (Running w rv))); [reflexivity | ds | exact I].
  - destruct (negb (N.eqb w1 w)); [discriminate|].
    apply bind_ok in H1. destruct H1 as (c1 & Hc1 & H1). inv_binds H1. inversion H1; subst s1 ws.
    eapply RS_trans; [|eapply RS_trans; [eapply try_remove_redirection_RS; exact Hc1|]].
    + apply RS_tasks; [reflexivity | ds].
    + eapply (RS_set_ok _ _ (with_state t (Running w rv))); [reflexivity | ds | exact I].
  - destruct wsx; [discriminate|]. destruct (N.eqb w0 w); [|discriminate]. inversion H1; subst s1 ws. apply RS_refl.
Qed.

Lemma requeue_RS s t c1 s' b :
  (do (qs, ret) <- add_ready_task (c_queues c1) (with_state t (Waiting 0));
   do s'' <- process_retracted (st_core s (with_queues (upd_task c1 (with_state t (Waiting 0))) qs)) ret;
   Ok (s'', true)) = Ok (s', b) -> RS c1 (core_of s').
Proof.
  intros H. apply bind_ok in H. destruct H as ([qs ret] & ?X & H). apply bind_ok in H. destruct H as (s2 & Hr & H). inversion H; subst.
  eapply RS_trans; [|exact (process_retracted_RS _ _ _ Hr)].
  eapply (RS_set_ok _ _ (with_state t (Waiting 0))); [reflexivity | ds | exact I].
Qed.

Lemma task_reject_RS s w id rv s' b : task_reject s w id rv = Ok (s', b) -> RS (core_of s) (core_of s').
Proof.
  intros H. unfold task_reject in H. set (c := core_of s) in *.
  destruct (find_task (c_tasks c) id) as [t|]; [|inversion H; subst; apply RS_refl].
  apply bind_ok in H. destruct H as (wk & ?X & H). cbv zeta in H.
  match type of H with context [upd_worker c ?k] => set (wk1 := k) in * end.
  assert (R0 : RS c (upd_worker c wk1)).
  { apply RS_tasks; [reflexivity|]. eapply DS_set_keep; [reflexivity | eassumption | |]; subst wk1; destruct rv; try destruct (nn_mem _ _); reflexivity. }
  apply bind_ok in H. destruct H as (rq & ?X & H).
  destruct (t_state t) as [n|w1 rv1|w1|w1|w1 rv1|wsx|];
    try (apply bind_ok in H; destruct H as (r0 & Hr0 & _); discriminate).
  - apply bind_ok in H. destruct H as ([c1 cont] & Hr & H).
    assert (R1 : RS (upd_worker c wk1) c1).
    { destruct (negb (N.eqb w w1)); [inversion Hr; subst; apply RS_refl|].
      destruct rv as [v|]; [|inversion Hr; subst; apply RS_refl].
      destruct (N.eqb v rv1); [|inversion Hr; subst; apply RS_refl].
      inv_binds Hr. inversion Hr; subst. apply RS_tasks; [reflexivity | ds]. }
    eapply RS_trans; [exact R0|]. eapply RS_trans; [exact R1|]. eapply requeue_RS; exact H.
  - apply bind_ok in H. destruct H as ([c1 cont] & Hr & H).
    assert (R1 : RS (upd_worker c wk1) c1) by (inv_binds Hr; inversion Hr; subst; apply RS_tasks; [reflexivity | ds]).
    eapply RS_trans; [exact R0|]. eapply RS_trans; [exact R1|]. eapply requeue_RS; exact H.
  - apply bind_ok in H. destruct H as ([c1 cont] & Hr & H).
    assert (E1 : c1 = upd_worker c wk1) by (destruct (negb (N.eqb w w1)); inversion Hr; reflexivity). subst c1.
    eapply RS_trans; [exact R0|].
    destruct cont.
    + destruct (find_redirect (c_redirects (upd_worker c wk1)) id) as [[target rvt]|].
      * apply bind_ok in H. destruct H as (s1 & Hs1 & H). inversion H; subst s' b.
        rewrite (send_worker_core _ _ _ _ Hs1).
        eapply (RS_set_ok _ _ (with_state t (Assigned target rvt))); [reflexivity | ds | exact I].
      * eapply requeue_RS; exact H.
    + inversion H; subst. apply RS_refl.
Qed.

Lemma request_enabled_RS s w rq rv s' : request_enabled s w rq rv = Ok s' -> RS (core_of s) (core_of s').
Proof.
  intros H. unfold request_enabled in H. apply bind_ok in H. destruct H as (wk & ?X & H). inversion H; subst s'.
  apply RS_tasks; [reflexivity | ds].
Qed.

Lemma apply_updates_RS us : forall s w need s' need', apply_updates s w us need = Ok (s', need') -> RS (core_of s) (core_of s').
Proof.
  induction us as [|u r IH]; cbn [apply_updates]; intros s w need s' need' H; [inversion H; subst; apply RS_refl|].
  apply bind_ok in H. destruct H as ([s1 n1] & Hu & H).
  eapply RS_trans; [|eapply IH; exact H].
  destruct u.
  - eapply task_finished_RS; exact Hu.
  - apply bind_ok in Hu. destruct Hu as (sx & Hf & Hu). inversion Hu; subst. eapply task_failed_RS; exact Hf.
  - eapply task_running_RS; exact Hu.
  - eapply task_running_RS; exact Hu.
  - eapply task_reject_RS; exact Hu.
  - apply bind_ok in Hu. destruct Hu as (sx & Hf & Hu). inversion Hu; subst. eapply request_enabled_RS; exact Hf.
Qed.

Lemma on_task_update_RS s w us s' : on_task_update s w us = Ok s' -> RS (core_of s) (core_of s').
Proof.
  intros H. unfold on_task_update in H. apply bind_ok in H. destruct H as ([s1 need] & Hu & H).
  pose proof (apply_updates_RS _ _ _ _ _ _ Hu) as R1.
  destruct (need && _); inversion H; subst; [|exact R1].
  eapply RS_trans; [exact R1|]. apply RS_tasks; [reflexivity | ds].
Qed.

Lemma retract_response_states_RS ids : forall c w acc c' acc', retract_response_states c w ids acc = (c', acc') -> RS c c'.
Proof.
  induction ids as [|id r IH]; cbn [retract_response_states]; intros c w acc c' acc' H; [inversion H; subst; apply RS_refl|].
  destruct (find_task (c_tasks c) id) as [t|]; [|eapply IH; exact H].
  destruct (t_state t); try (eapply IH; exact H).
  destruct (N.eqb w w0); [|eapply IH; exact H].
  destruct (find_redirect (c_redirects c) id) as [[target rv]|].
  - eapply RS_trans; [|eapply IH; exact H]. eapply (RS_set_ok _ _ (with_state t (Assigned target rv))); [reflexivity | ds | exact I].
  - eapply RS_trans; [|eapply IH; exact H]. eapply (RS_set_ok _ _ (with_state t (Waiting 0))); [reflexivity | ds | exact I].
Qed.

Lemma on_retract_response_RS s w ids s' : on_retract_response s w ids = Ok s' -> RS (core_of s) (core_of s').
Proof.
  unfold on_retract_response. intros H. destruct (retract_response_states _ w ids []) as [c' groups] eqn:E.
  apply bind_ok in H. destruct H as (s2 & H & H2).
  assert (X2 : RS (core_of s) (core_of s2)).
  { rewrite (send_redirected_core _ _ _ H). eapply retract_response_states_RS; exact E. }
  destruct (retract_wakes _ _ _ _); inversion H2; subst s'; clear H2; [|exact X2].
  eapply RS_trans; [exact X2|]. apply RS_tasks; [reflexivity | ds].
Qed.

(** * Server: new worker, new tasks *)
Lemma on_new_worker_RS s rs g s' : on_new_worker s rs g = Ok s' -> RS (core_of s) (core_of s').
Proof. intros H. unfold on_new_worker in H. inversion H; subst s'. apply RS_tasks; [reflexivity | ds]. Qed.

Lemma register_deps_RS deps : forall c id kept count c' kept' count', register_deps c id deps kept count = (c', kept', count') -> RS c c'.
Proof.
  induction deps as [|d r IH]; cbn [register_deps]; intros c id kept count c' kept' count' H; [inversion H; subst; apply RS_refl|].
  destruct (find_task (c_tasks c) d) as [dep|] eqn:Ef; [|eapply IH; exact H].
  eapply RS_trans; [|eapply IH; exact H].
  eapply (RS_set_same _ _ (with_consumers dep (tid_insert id (t_consumers dep))) dep); [reflexivity | ds | eapply find_in; exact Ef | reflexivity | reflexivity].
Qed.

Lemma add_new_tasks_RS ts : forall c ret c' ret', add_new_tasks c ts ret = Ok (c', ret') -> RS c c'.
Proof.
  induction ts as [|t r IH]; cbn [add_new_tasks]; intros c ret c' ret' H; [inversion H; subst; apply RS_refl|].
  destruct (register_deps c (t_id t) (t_deps t) [] 0) as [[c1 kept] count] eqn:Er.
  pose proof (register_deps_RS _ _ _ _ _ _ _ _ Er) as R1.
  apply bind_ok in H. destruct H as ([c2 rt] & H2 & H).
  assert (R2 : RS c1 c2).
  { destruct (N.eqb count 0); [|inversion H2; subst; apply RS_refl].
    apply bind_ok in H2. destruct H2 as ([qs rt'] & ?X & H2). inversion H2; subst. apply RS_tasks; [reflexivity | ds]. }
  destruct (find_task (c_tasks c2) (t_id t)); [discriminate|].
  eapply RS_trans; [exact R1|]. eapply RS_trans; [exact R2|]. eapply RS_trans; [|eapply IH; exact H].
  eapply (RS_set_ok _ _ (with_state (with_deps t kept) (Waiting count))); [reflexivity | ds | exact I].
Qed.

Lemma on_new_tasks_RS s ts s' : on_new_tasks s ts = Ok s' -> RS (core_of s) (core_of s').
Proof.
  intros H. unfold on_new_tasks in H. destruct ts as [|t0 tr] eqn:Et; [inversion H; subst; apply RS_refl|]. rewrite <- Et in *. clear Et.
  apply bind_ok in H. destruct H as ([c' retracted] & Ha & H). apply bind_ok in H. destruct H as (s1 & Hr & H). inversion H; subst s'.
  eapply RS_trans; [eapply add_new_tasks_RS; exact Ha|].
  eapply RS_trans; [exact (process_retracted_RS (st_core s c') _ _ Hr)|]. apply RS_tasks; [reflexivity | ds].
Qed.

(** * Server: the pieces of on_remove_worker that keep all workers *)
Lemma lost_prefilled_RS l : forall c c', lost_prefilled c l = Ok c' -> RS c c'.
Proof.
  induction l as [|id r IH]; cbn [lost_prefilled]; intros c c' H; [inversion H; subst; apply RS_refl|].
  apply bind_ok in H. destruct H as (t & ?X & H). apply bind_ok in H. destruct H as (q & ?X & H). apply bind_ok in H. destruct H as (q' & ?X & H).
  eapply RS_trans; [|eapply IH; exact H].
  eapply (RS_set_ok _ _ (with_state (with_inst t (t_inst t + 1)) (Waiting 0))); [reflexivity | ds | exact I].
Qed.

Lemma lost_assigned_RS l : forall c running ret c' running' ret', lost_assigned c l running ret = Ok (c', running', ret') -> RS c c'.
Proof.
  induction l as [|id r IH]; cbn [lost_assigned]; intros c running ret c' running' ret' H; [inversion H; subst; apply RS_refl|].
  apply bind_ok in H. destruct H as (t & Ht & H). apply get_task_find in Ht.
  apply bind_ok in H. destruct H as ([[c1 t1] running1] & Hr1 & H).
  apply bind_ok in H. destruct H as ([qs rt] & ?X & H).
  eapply RS_trans; [|eapply IH; exact H].
  assert (E1 : c_tasks c1 = c_tasks c /\ c_workers c1 = c_workers c /\ (t1 = t \/ t1 = with_state t (Waiting 0))).
  { destruct (t_state t); try (inversion Hr1; subst; auto; fail).
    destruct (find_redirect _ id); inversion Hr1; subst; auto. }
  destruct E1 as (Et & Ew & [-> | ->]).
  - eapply (RS_set_same _ _ (with_inst t (t_inst t + 1)) t); [cbn [c_tasks upd_task with_tasks with_queues]; rewrite Et; reflexivity
      | apply DS_eq; cbn [c_workers upd_task with_tasks with_queues]; exact Ew | eapply find_in; exact Ht | reflexivity | reflexivity].
  - eapply (RS_set_ok _ _ (with_inst (with_state t (Waiting 0)) (t_inst (with_state t (Waiting 0)) + 1)));
      [cbn [c_tasks upd_task with_tasks with_queues]; rewrite Et; reflexivity | apply DS_eq; cbn [c_workers upd_task with_tasks with_queues]; exact Ew | exact I].
Qed.

Lemma lost_fail_running_RS l : forall s reason s', lost_fail_running s reason l = Ok s' -> RS (core_of s) (core_of s').
Proof.
  induction l as [|id r IH]; cbn [lost_fail_running]; intros s reason s' H; [inversion H; subst; apply RS_refl|].
  destruct (find_task (c_tasks (core_of s)) id) as [t|] eqn:Ef; [|eapply IH; exact H].
  assert (Hc : forall t' limit, increment_crash_counter t = (t', limit) -> RS (core_of s) (core_of (st_core s (upd_task (core_of s) t')))).
  { intros t' limit Ei. unfold increment_crash_counter in Ei. inversion Ei; subst.
    eapply (RS_set_same _ _ (with_crash t (t_crash t + 1)) t); [reflexivity | ds | eapply find_in; exact Ef | reflexivity | reflexivity]. }
  destruct (t_climit t).
  - apply bind_ok in H. destruct H as (s1 & Hf & H). eapply RS_trans; [eapply task_failed_RS; exact Hf | eapply IH; exact H].
  - destruct (reason_is_failure reason); [|eapply IH; exact H].
    destruct (increment_crash_counter t) as [t' limit] eqn:Ei. specialize (Hc t' limit eq_refl). destruct limit.
    + apply bind_ok in H. destruct H as (s1 & Hf & H).
      eapply RS_trans; [exact Hc|]. eapply RS_trans; [eapply task_failed_RS; exact Hf | eapply IH; exact H].
    + eapply RS_trans; [exact Hc | eapply IH; exact H].
  - destruct (reason_is_failure reason); [|eapply IH; exact H].
    destruct (increment_crash_counter t) as [t' limit] eqn:Ei. specialize (Hc t' limit eq_refl). destruct limit.
    + apply bind_ok in H. destruct H as (s1 & Hf & H).
      eapply RS_trans; [exact Hc|]. eapply RS_trans; [eapply task_failed_RS; exact Hf | eapply IH; exact H].
    + eapply RS_trans; [exact Hc | eapply IH; exact H].
Qed.

(** * Scheduling *)
Lemma map_one_RS c m id w v rqres c' m' : map_one c m id w v rqres = Ok (c', m') -> RS c c'.
Proof.
  intros H. unfold map_one in H.
  apply bind_ok in H. destruct H as (wk & ?X & H). apply bind_ok in H. destruct H as (wk' & ?X & H).
  apply bind_ok in H. destruct H as (t & ?X & H).
  destruct (t_state t) as [n|w1 rv1|old|old|w1 rv1|wsx|]; try discriminate.
  - inversion H; subst. eapply (RS_set_ok _ _ (with_state t (Assigned w v))); [reflexivity | ds | exact I].
  - destruct (find_worker (c_workers (upd_worker c wk')) old) as [wo|] eqn:Hwo; [|discriminate].
    apply bind_ok in H. destruct H as (wo' & Hrp & H).
    destruct (find_redirect _ id); [discriminate|]. inversion H; subst.
    eapply RS_trans; [apply (RS_tasks c (upd_worker c wk')); [reflexivity | ds]|].
    eapply (RS_set_ok _ _ (with_state t (Retracting old))); [reflexivity | ds | exists wo; split; [exact Hwo | exact (proj2 (snk_remove_prefill _ _ _ Hrp))]].
  - destruct (find_redirect _ id) as [[ot vo]|].
    + inv_binds H. inversion H; subst. apply RS_tasks; [reflexivity | ds].
    + inversion H; subst. apply RS_tasks; [reflexivity | ds].
Qed.

Lemma rr_pass_RS counts : forall c m tasks v rqres c' m' counts' rest,
  rr_pass c m counts tasks v rqres = Ok (c', m', counts', rest) -> RS c c'.
Proof.
  induction counts as [|[w n] r IH]; intros c m tasks v rqres c' m' counts' rest H.
  - destruct tasks; cbn [rr_pass] in H; inversion H; subst; apply RS_refl.
  - destruct tasks as [|id tl]; cbn [rr_pass] in H; [inversion H; subst; apply RS_refl|].
    destruct (N.ltb 0 n).
    + apply bind_ok in H. destruct H as ([c1 m1] & H1 & H).
      apply bind_ok in H. destruct H as ([[[c2 m2] r'] tl'] & H2 & H). inversion H; subst.
      eapply RS_trans; [eapply map_one_RS; exact H1 | eapply IH; exact H2].
    + apply bind_ok in H. destruct H as ([[[c2 m2] r'] tl'] & H2 & H). inversion H; subst. eapply IH; exact H2.
Qed.

Lemma rr_loop_RS fuel : forall c m counts tasks v rqres c' m', rr_loop fuel c m counts tasks v rqres = Ok (c', m') -> RS c c'.
Proof.
  induction fuel as [|k IH]; intros c m counts tasks v rqres c' m' H; destruct tasks as [|id tl]; cbn [rr_loop] in H;
    try (inversion H; subst; apply RS_refl); try discriminate.
  apply bind_ok in H. destruct H as ([[[c1 m1] counts1] rest] & H1 & H).
  eapply RS_trans; [eapply rr_pass_RS; exact H1 | eapply IH; exact H].
Qed.

Lemma map_sn_RS sol l : forall c m c' m', map_sn c m sol l = Ok (c', m') -> RS c c'.
Proof.
  induction l as [|[[rq v] counts] r IH]; cbn [map_sn]; intros c m c' m' H; [inversion H; subst; apply RS_refl|].
  apply bind_ok in H. destruct H as (rqd & ?X & H). apply bind_ok in H. destruct H as (q & ?X & H).
  apply bind_ok in H. destruct H as ([tasks q'] & ?X & H). apply bind_ok in H. destruct H as ([c2 m2] & H2 & H).
  eapply RS_trans; [|eapply IH; exact H]. eapply RS_trans; [|eapply rr_loop_RS; exact H2]. apply RS_tasks; [reflexivity | ds].
Qed.

(** A multi-node placement names distinct workers: the second placement of a worker panics. *)





Lemma prefill_mark_RS l : forall c w c', prefill_mark c w l = Ok c' -> RS c c'.
Proof.
  induction l as [|id r IH]; cbn [prefill_mark]; intros c w c' H; [inversion H; subst; apply RS_refl|].
  apply bind_ok in H. destruct H as (t & ?X & H). destruct (negb (is_waiting t)); [discriminate|].
  apply bind_ok in H. destruct H as (wk & ?X & H). apply bind_ok in H. destruct H as (wk' & ?X & H).
  eapply RS_trans; [|eapply IH; exact H].
  eapply (RS_set_ok _ _ (with_state t (Prefilled w))); [reflexivity | ds | exact I].
Qed.

Lemma prefill_workers_RS ws : forall c m qi psize c' m', prefill_workers c m qi psize ws = Ok (c', m') -> RS c c'.
Proof.
  induction ws as [|w r IH]; cbn [prefill_workers]; intros c m qi psize c' m' H; [inversion H; subst; apply RS_refl|].
  apply bind_ok in H. destruct H as (q & ?X & H). apply bind_ok in H. destruct H as ([ids q'] & ?X & H).
  apply bind_ok in H. destruct H as (c2 & H2 & H).
  eapply RS_trans; [|eapply IH; exact H]. eapply RS_trans; [|eapply prefill_mark_RS; exact H2]. apply RS_tasks; [reflexivity | ds].
Qed.

Lemma prefill_queues_RS n : forall c m worder qi top c' m', prefill_queues c m worder qi n top = Ok (c', m') -> RS c c'.
Proof.
  induction n as [|k IH]; cbn [prefill_queues]; intros c m worder qi top c' m' H; [inversion H; subst; apply RS_refl|].
  apply bind_ok in H. destruct H as (q & ?X & H).
  destruct (q_top_priority q) as [tp|]; [|eapply IH; exact H].
  destruct (negb (Z.eqb tp top)); [eapply IH; exact H|].
  destruct (N.eqb _ 0); [eapply IH; exact H|].
  destruct (existsb _ (q_top_task_ids q)).
  - destruct (forallb _ (q_top_task_ids q)); [eapply IH; exact H | discriminate].
  - match type of H with match ?ws with [] => _ | _ => _ end = _ => destruct ws eqn:Ews end; [eapply IH; exact H|].
    destruct (N.eqb _ 0); [eapply IH; exact H|].
    apply bind_ok in H. destruct H as ([c1 m1] & H1 & H).
    eapply RS_trans; [eapply prefill_workers_RS; exact H1 | eapply IH; exact H].
Qed.


