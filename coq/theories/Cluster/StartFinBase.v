(** C01, "start before finish" - definitions over the event stream and their list lemmas.

    [FAS outs]: every [EvFinished t] in the stream is preceded by an [EvStarted t ..] of the same
    task with no terminal event (finished / failed / canceled / aborted) naming [t] in between.
    The job layer emits no per-task event when a task goes back to waiting after a worker loss
    ([set_waiting_state] is silent; [process_worker_lost] only emits the per-worker [EvWLost w]), so
    the state invariant is "a task the job layer shows Running has a start after its last
    terminal event" ([IPs]).  [fas_check] is the executable version of [FAS]. *)
From HQ Require Import Base.Prelude Cluster.Types Cluster.Core Cluster.Reactor Cluster.Worker Cluster.Server Cluster.Sys Cluster.Monitors Cluster.ProofsJob Cluster.ProofsMore Cluster.ProofsTerminal Cluster.ProofsStep Cluster.ProofsFinal Cluster.BijBase Cluster.BijHq Cluster.ProofsOnce.
From Coq Require Import ZArith Lia.
Local Open Scope N_scope.

(** * The stream predicates *)

(** [live outs t]: the stream contains a start of [t] after which no terminal event names [t]. *)
Definition live (outs : list out) (t : tid) : Prop :=
  exists a i ws rv b, outs = a ++ OEv (EvStarted t i ws rv) :: b /\ ~ In t (terminal_ids b).

(** Start before finish. *)
Definition FAS (outs : list out) : Prop :=
  forall pre t post, outs = pre ++ OEv (EvFinished t) :: post -> live pre t.

Lemma live_snoc l o t : live l t -> ~ In t (tids_of o) -> live (l ++ [o]) t.
Proof.
  intros (a & i & ws & rv & b & E & Hn) Ho. exists a, i, ws, rv, (b ++ [o]). split.
  - rewrite E, <- app_assoc. reflexivity.
  - rewrite terminal_ids_app. intros Hin. apply in_app_or in Hin. destruct Hin as [Hin|Hin]; [exact (Hn Hin)|].
    unfold terminal_ids in Hin. cbn [flat_map] in Hin. rewrite app_nil_r in Hin. exact (Ho Hin).
Qed.

Lemma live_start l t i ws rv : live (l ++ [OEv (EvStarted t i ws rv)]) t.
Proof. exists l, i, ws, rv, []. split; [reflexivity | intros []]. Qed.

Lemma live_cons o l t : live l t -> live (o :: l) t.
Proof.
  intros (a & i & ws & rv & b & E & Hn). exists (o :: a), i, ws, rv, b. split; [rewrite E; reflexivity | exact Hn].
Qed.

Lemma live_nil t : ~ live [] t.
Proof. intros (a & i & ws & rv & b & E & _). destruct a; discriminate. Qed.

Lemma FAS_nil : FAS [].
Proof. intros pre t post E. destruct pre; discriminate. Qed.

Lemma list_last_case {A} (l : list A) : l = [] \/ exists l' x, l = l' ++ [x].
Proof. induction l as [|x l' _] using rev_ind; [left; reflexivity | right; eauto]. Qed.

Lemma FAS_snoc l o : FAS l -> (forall t, o = OEv (EvFinished t) -> live l t) -> FAS (l ++ [o]).
Proof.
  intros HF Ho pre t post E.
  destruct (list_last_case post) as [->|(p' & x & ->)].
  - apply app_inj_tail in E. destruct E as [<- Eo]. apply Ho. exact Eo.
  - change (pre ++ OEv (EvFinished t) :: p' ++ [x]) with (pre ++ (OEv (EvFinished t) :: p') ++ [x]) in E.
    rewrite app_assoc in E. apply app_inj_tail in E. destruct E as [E _]. eapply HF. exact E.
Qed.

(** Appending outputs that name no task terminally. *)
Lemma tids_cons o r : terminal_ids (o :: r) = tids_of o ++ terminal_ids r.
Proof. reflexivity. Qed.

Lemma FAS_ext ext : forall l, terminal_ids ext = [] -> FAS l -> FAS (l ++ ext).
Proof.
  induction ext as [|x r IH]; intros l Ht HF; [rewrite app_nil_r; exact HF|].
  rewrite tids_cons in Ht. apply app_eq_nil in Ht. destruct Ht as [Hx Hr].
  change (l ++ x :: r) with (l ++ [x] ++ r). rewrite app_assoc. apply IH; [exact Hr|].
  apply FAS_snoc; [exact HF|]. intros t Ex. subst x. discriminate.
Qed.

Lemma live_ext ext : forall l t, terminal_ids ext = [] -> live l t -> live (l ++ ext) t.
Proof.
  induction ext as [|x r IH]; intros l t Ht HL; [rewrite app_nil_r; exact HL|].
  rewrite tids_cons in Ht. apply app_eq_nil in Ht. destruct Ht as [Hx Hr].
  change (l ++ x :: r) with (l ++ [x] ++ r). rewrite app_assoc. apply IH; [exact Hr|].
  apply live_snoc; [exact HL | rewrite Hx; intros []].
Qed.

(** * The invariant over (job layer, stream) and the relation every piece of the server's
    execution establishes.  The stream of a step starts empty and [run] concatenates, hence the
    quantification over the part [pre] emitted before. *)
Definition IPs (s : st) (pre : list out) : Prop :=
  FAS (pre ++ snd s) /\ forall t, task_state s t = Some JR -> live (pre ++ snd s) t.

Definition SF (s s' : st) : Prop := forall pre, IPs s pre -> IPs s' pre.

Lemma SF_refl s : SF s s.
Proof. intros pre H. exact H. Qed.

Lemma SF_trans s1 s2 s3 : SF s1 s2 -> SF s2 s3 -> SF s1 s3.
Proof. intros A B pre H. exact (B pre (A pre H)). Qed.

(** No new Running task. *)
Definition nojr (s s' : st) : Prop := forall t, task_state s' t = Some JR -> task_state s t = Some JR.

Lemma task_state_same s s' t : hq_of s' = hq_of s -> task_state s' t = task_state s t.
Proof. intros E. unfold task_state. rewrite E. reflexivity. Qed.

Lemma nojr_same s s' : hq_of s' = hq_of s -> nojr s s'.
Proof. intros E t H. rewrite (task_state_same _ _ _ E) in H. exact H. Qed.

Lemma SF_quiet s s' : snd s' = snd s -> nojr s s' -> SF s s'.
Proof.
  intros E Hn pre [HF HL]. unfold IPs. rewrite E. split; [exact HF|]. intros t Ht. apply HL. apply Hn. exact Ht.
Qed.

Lemma SF_core s s' : hq_of s' = hq_of s -> snd s' = snd s -> SF s s'.
Proof. intros Hq Hs. apply SF_quiet; [exact Hs | apply nojr_same; exact Hq]. Qed.

(** One more output: a finish needs a Running task; a task Running afterwards was Running before
    and is not named terminally by the output, or the output is its start. *)
Lemma SF_emit1 s s' o :
  snd s' = snd s ++ [o] ->
  (forall t, o = OEv (EvFinished t) -> task_state s t = Some JR) ->
  (forall t, task_state s' t = Some JR ->
     (task_state s t = Some JR /\ ~ In t (tids_of o)) \/ exists i ws rv, o = OEv (EvStarted t i ws rv)) ->
  SF s s'.
Proof.
  intros E Hfin Hjr pre [HF HL]. unfold IPs. rewrite E, app_assoc. split.
  - apply FAS_snoc; [exact HF|]. intros t Eo. apply HL. apply Hfin. exact Eo.
  - intros t Ht. destruct (Hjr t Ht) as [[H1 H2]|(i & ws & rv & Eo)].
    + apply live_snoc; [apply HL; exact H1 | exact H2].
    + subst o. apply live_start.
Qed.

(** Any number of outputs that name no task terminally. *)
Lemma SF_ext s s' ext : snd s' = snd s ++ ext -> terminal_ids ext = [] -> nojr s s' -> SF s s'.
Proof.
  intros E Ht Hn pre [HF HL]. unfold IPs. rewrite E, app_assoc. split.
  - apply FAS_ext; assumption.
  - intros t Hjr. apply live_ext; [exact Ht | apply HL; apply Hn; exact Hjr].
Qed.

Lemma SF_emit_quiet s o : tids_of o = [] -> SF s (emit s o).
Proof.
  intros Ho. apply (SF_ext s (emit s o) [o]); [reflexivity | unfold terminal_ids; cbn [flat_map]; rewrite Ho; reflexivity |].
  apply nojr_same. apply emit_hq.
Qed.

(** * The executable check *)
Definition start_of (o : out) : option tid :=
  match o with OEv (EvStarted t _ _ _) => Some t | _ => None end.
Definition fin_of (o : out) : option tid :=
  match o with OEv (EvFinished t) => Some t | _ => None end.

(** [lv] = the tasks with a start after their last terminal event so far. *)
Fixpoint fas_go (lv : list tid) (outs : list out) : bool :=
  match outs with
  | [] => true
  | o :: r =>
      match fin_of o with Some t => tid_mem t lv | None => true end
      && fas_go (match start_of o with Some t => [t] | None => [] end
                 ++ filter (fun x => negb (tid_mem x (tids_of o))) lv) r
  end.
Definition fas_check (outs : list out) : bool := fas_go [] outs.

Lemma sf_tid_mem_In x l : tid_mem x l = true <-> In x l.
Proof.
  induction l as [|h r IH]; cbn [tid_mem In]; [split; [discriminate | intros []]|].
  rewrite orb_true_iff, IH, tid_eqb_eq. split; intros [H|H]; auto.
Qed.

Lemma start_of_spec o t : start_of o = Some t <-> exists i ws rv, o = OEv (EvStarted t i ws rv).
Proof.
  split.
  - destruct o as [e| | | | | |]; try discriminate. destruct e; try discriminate. cbn. intros H. inversion H; subst. eauto.
  - intros (i & ws & rv & ->). reflexivity.
Qed.

Lemma start_of_tids o t : start_of o = Some t -> tids_of o = [].
Proof. intros H. apply start_of_spec in H. destruct H as (i & ws & rv & ->). reflexivity. Qed.

Lemma fin_of_spec o t : fin_of o = Some t <-> o = OEv (EvFinished t).
Proof.
  split.
  - destruct o as [e| | | | | |]; try discriminate. destruct e; try discriminate. cbn. intros H. inversion H; subst. reflexivity.
  - intros ->. reflexivity.
Qed.

(** The specification of [fas_go] for an arbitrary set of already-live tasks. *)
Definition FASg (lv : list tid) (outs : list out) : Prop :=
  forall pre t post, outs = pre ++ OEv (EvFinished t) :: post ->
    live pre t \/ (In t lv /\ ~ In t (terminal_ids pre)).

Lemma fas_go_spec outs : forall lv, fas_go lv outs = true <-> FASg lv outs.
Proof.
  induction outs as [|o r IH]; intros lv; cbn [fas_go].
  - split; [intros _ pre t post E; destruct pre; discriminate | reflexivity].
  - rewrite andb_true_iff, IH. split.
    + intros [Hfin Hrest] pre t post E. destruct pre as [|o' pre'].
      * cbn [app] in E. inversion E; subst o. cbn [fin_of] in Hfin. right. split; [apply sf_tid_mem_In; exact Hfin | intros []].
      * cbn [app] in E. inversion E; subst o' r.
        destruct (Hrest pre' t post eq_refl) as [HL|[Hin Hn]]; [left; apply live_cons; exact HL|].
        apply in_app_or in Hin. destruct Hin as [Hin|Hin].
        -- destruct (start_of o) as [t0|] eqn:Es; [|destruct Hin]. destruct Hin as [<-|[]].
           apply start_of_spec in Es. destruct Es as (i & ws & rv & ->).
           left. exists [], i, ws, rv, pre'. split; [reflexivity | exact Hn].
        -- apply filter_In in Hin. destruct Hin as [Hin Hm]. right. split; [exact Hin|].
           rewrite tids_cons. intros Hx. apply in_app_or in Hx. destruct Hx as [Hx|Hx]; [|exact (Hn Hx)].
           apply sf_tid_mem_In in Hx. rewrite Hx in Hm. discriminate.
    + intros H. split.
      * destruct (fin_of o) as [t|] eqn:Ef; [|reflexivity]. apply fin_of_spec in Ef. subst o.
        destruct (H [] t r eq_refl) as [HL|[Hin _]]; [exfalso; exact (live_nil _ HL) | apply sf_tid_mem_In; exact Hin].
      * intros pre t post E. subst r.
        destruct (H (o :: pre) t post eq_refl) as [(a & i & ws & rv & b & Ea & Hn)|[Hin Hn]].
        -- destruct a as [|o' a'].
           ++ cbn [app] in Ea. inversion Ea; subst o b. right. split; [left; reflexivity | exact Hn].
           ++ cbn [app] in Ea. inversion Ea; subst o' pre. left. exists a', i, ws, rv, b. split; [reflexivity | exact Hn].
        -- right. rewrite tids_cons in Hn. split; [|intros Hx; apply Hn; apply in_or_app; right; exact Hx].
           apply in_or_app. right. apply filter_In. split; [exact Hin|].
           destruct (tid_mem t (tids_of o)) eqn:Em; [|reflexivity].
           exfalso. apply Hn. apply in_or_app. left. apply sf_tid_mem_In. exact Em.
Qed.

Theorem fas_check_spec outs : fas_check outs = true <-> FAS outs.
Proof.
  unfold fas_check. rewrite fas_go_spec. unfold FASg, FAS. split.
  - intros H pre t post E. destruct (H pre t post E) as [HL|[[] _]]. exact HL.
  - intros H pre t post E. left. exact (H pre t post E).
Qed.
