(** C01 leftovers, worker side (partial): what a worker process reports as finished, or as failed
    with kind FTask / FTimeLimit, it has launched successfully itself.

    [reported_means_ran_partial]: in every reachable state, for every connected worker process [p]
    and task [x]: if [x] is in the running set of [p], or the up channel of [p] holds
    [UFinished x], [UFailed x FTask] or [UFailed x FTimeLimit], then the output so far contains a
    launch [OLaunch l] with [l_w l = p_id p], [l_t l = x], [l_ok l = true].  (The process exists,
    so the worker has not been lost since: a lost worker's process is deleted.)

    NOT covered (hence "_partial"): the link from the server's EVENTS to the messages - that
    [OEv (EvFinished x)] / [OEv (EvFailed x k)] is emitted only while the server processes the
    corresponding update of a worker message, and that the start event precedes it in the stream
    (for EvFinished the latter is StartFin.finished_after_started). *)
From HQ Require Import Base.Prelude Cluster.Types Cluster.Core Cluster.Reactor Cluster.Worker Cluster.Server Cluster.Sys Cluster.Monitors Cluster.RejHyp Cluster.BijFinal Cluster.InvWBase Cluster.InvDStep Cluster.InvBundle Cluster.InvProcsDef Cluster.NoPanicL0 Cluster.NoPanicU0 Cluster.NoPanicU1 Cluster.NoPanicU2 Cluster.NoPanicU3 Cluster.NoPanicU4 Cluster.NoPanicU6 Cluster.NoPanicU8 Cluster.NoPanicU11 Cluster.NoPanicU12 Cluster.NoPanicU20 Cluster.ExecU1 Cluster.ExecU5 Cluster.ExecU6 Cluster.ExecU7 Cluster.ExecU9 Cluster.ExecU13 Cluster.ExecU17.
From Coq Require Import ZArith Lia Sorting.Sorted.
Local Open Scope N_scope.

Definition good (w : wid) (x : tid) (l : launch) : Prop := l_w l = w /\ l_t l = x /\ l_ok l = true.
Definition rep (us : list wupdate) (x : tid) : Prop := In (UFinished x) us \/ In (UFailed x FTask) us \/ In (UFailed x FTimeLimit) us.
Definition reports (up : list umsg) (x : tid) : Prop := exists us, In (UUpdates us) up /\ rep us x.
Definition wr (p : wproc) (ups : list wupdate) (x : tid) : Prop := run_find (p_running p) x <> None \/ rep ups x.

Lemma rep_app a b x : rep (a ++ b) x <-> rep a x \/ rep b x.
Proof. unfold rep. rewrite !in_app_iff. tauto. Qed.

(** * The loops of a worker process *)
Lemma try_start_wr q t rv pre alloc q1 u l st x : try_start_task q t rv pre alloc = (q1, u, l, st) ->
  p_id q1 = p_id q /\ (wr q1 u x -> run_find (p_running q) x <> None \/ exists la, In la l /\ good (p_id q) x la).
Proof.
  unfold try_start_task. destruct (tid_mem (wt_id t) (p_failnext q)) eqn:Ef; intros H; inversion H; subst; unfold wr; cbn [p_id p_running wp_failnext wp_upd]; (split; [reflexivity|]).
  - intros [Hr|Hr]; [left; exact Hr|]. unfold rep in Hr. cbn [In] in Hr. destruct Hr as [[Hr|[]]|[[Hr|[]]|[Hr|[]]]]; discriminate.
  - intros [Hr|Hr].
    + rewrite run_find_set in Hr. destruct (tid_eqb x (wt_id t)) eqn:E; [|left; exact Hr]. apply NoPanicU1.tid_eqb_eq in E. subst x.
      right. eexists. split; [left; reflexivity|]. unfold good. cbn. auto.
    + unfold rep in Hr. cbn [In] in Hr. destruct pre; destruct Hr as [[Hr|[]]|[[Hr|[]]|[Hr|[]]]]; discriminate.
Qed.

Lemma prefill_loop_wr fuel x : forall q rq rv alloc ups ls q' ups' ls' used,
  prefill_loop fuel q rq rv alloc ups ls = (q', ups', ls', used) ->
  p_id q' = p_id q /\ exists lnew, ls' = ls ++ lnew /\ (wr q' ups' x -> wr q ups x \/ exists la, In la lnew /\ good (p_id q) x la).
Proof.
  induction fuel as [|k IH]; intros q rq rv alloc ups ls q' ups' ls' used H; cbn [prefill_loop] in H;
    [inversion H; subst; split; [reflexivity | exists []; rewrite app_nil_r; auto]|].
  destruct (pop_last (bl_get (p_backlog q) rq)) as [[t rest]|]; [|inversion H; subst; split; [reflexivity | exists []; rewrite app_nil_r; auto]].
  destruct (bl_has (p_backlog q) rq); [|inversion H; subst; split; [reflexivity | exists []; rewrite app_nil_r; auto]].
  destruct (try_start_task (wp_backlog q (bl_set (p_backlog q) rq rest)) t rv true alloc) as [[[q1 u] l] started] eqn:Et.
  destruct (try_start_wr _ _ _ _ _ _ _ _ _ x Et) as [I1 W1]. cbn [p_id p_running wp_backlog wp_upd] in I1, W1.
  assert (Hone : wr q1 (ups ++ u) x -> wr q ups x \/ exists la, In la l /\ good (p_id q) x la).
  { intros [Hr|Hr]; [destruct (W1 (or_introl Hr)) as [A|X]; [left; left; exact A | right; exact X]|].
    apply rep_app in Hr. destruct Hr as [Hr|Hr]; [left; right; exact Hr|].
    destruct (W1 (or_intror Hr)) as [A|X]; [left; left; exact A | right; exact X]. }
  destruct started; [inversion H; subst; split; [exact I1 | exists l; split; [reflexivity | exact Hone]]|].
  destruct (IH _ _ _ _ _ _ _ _ _ _ H) as (I2 & lnew & E2 & W2). split; [congruence|]. exists (l ++ lnew). split; [rewrite E2, app_assoc; reflexivity|].
  intros Hw. destruct (W2 Hw) as [A|(la & Hl & Hg)].
  - destruct (Hone A) as [B|(la & Hl & Hg)]; [left; exact B|]. right. exists la. split; [apply in_app_iff; left; exact Hl | exact Hg].
  - right. exists la. split; [apply in_app_iff; right; exact Hl | rewrite <- I1; exact Hg].
Qed.

Lemma compute_loop_wr ts x : forall q ups ls q' ups' ls', compute_loop q ts ups ls = Ok (q', ups', ls') ->
  p_id q' = p_id q /\ exists lnew, ls' = ls ++ lnew /\ (wr q' ups' x -> wr q ups x \/ exists la, In la lnew /\ good (p_id q) x la).
Proof.
  induction ts as [|ct r IH]; intros q ups ls q' ups' ls' H; cbn [compute_loop] in H; [inversion H; subst; split; [reflexivity | exists []; rewrite app_nil_r; auto]|].
  assert (Hcont : forall q1 ups1 l1, compute_loop q1 r ups1 (ls ++ l1) = Ok (q', ups', ls') -> p_id q1 = p_id q ->
            (wr q1 ups1 x -> wr q ups x \/ exists la, In la l1 /\ good (p_id q) x la) ->
            p_id q' = p_id q /\ exists lnew, ls' = ls ++ lnew /\ (wr q' ups' x -> wr q ups x \/ exists la, In la lnew /\ good (p_id q) x la)).
  { intros q1 ups1 l1 H1 I1 W1. destruct (IH _ _ _ _ _ _ H1) as (I2 & lnew & E2 & W2). split; [congruence|]. exists (l1 ++ lnew). split; [rewrite E2, app_assoc; reflexivity|].
    intros Hw. destruct (W2 Hw) as [A|(la & Hl & Hg)].
    - destruct (W1 A) as [B|(la & Hl & Hg)]; [left; exact B | right; exists la; split; [apply in_app_iff; left; exact Hl | exact Hg]].
    - right. exists la. split; [apply in_app_iff; right; exact Hl | rewrite <- I1; exact Hg]. }
  destruct (ct_rv ct) as [rv|].
  - apply bind_ok in H. destruct H as (rq & _ & H). destruct (negb (N.eqb rv 0)); [discriminate|].
    destruct (res_fits (p_free q) (rq_res rq)).
    + match type of H with context [try_start_task ?p0 ?t rv false ?a] => destruct (try_start_task p0 t rv false a) as [[[q1 u] l] started] eqn:Et end.
      destruct (try_start_wr _ _ _ _ _ _ _ _ _ x Et) as [I1 W1]. cbn [p_id p_running wp_free wp_upd] in I1, W1.
      assert (Hone : wr q1 (ups ++ u) x -> wr q ups x \/ exists la, In la l /\ good (p_id q) x la).
      { intros [Hr|Hr]; [destruct (W1 (or_introl Hr)) as [A|X]; [left; left; exact A | right; exact X]|].
        apply rep_app in Hr. destruct Hr as [Hr|Hr]; [left; right; exact Hr|].
        destruct (W1 (or_intror Hr)) as [A|X]; [left; left; exact A | right; exact X]. }
      destruct started; [apply (Hcont q1 (ups ++ u) l H I1 Hone)|].
      match type of H with context [prefill_loop ?f q1 ?a ?b ?c ?d ?e] => destruct (prefill_loop f q1 a b c d e) as [[[q2 u2] l2] usd] eqn:Ep end.
      destruct (prefill_loop_wr _ x _ _ _ _ _ _ _ _ _ _ Ep) as (I2 & lnew & E2 & W2). subst l2. rewrite <- app_assoc in H.
      apply (Hcont q2 u2 (l ++ lnew) H); [congruence|]. intros Hw. destruct (W2 Hw) as [A|(la & Hl & Hg)].
      * destruct (Hone A) as [B|(la & Hl & Hg)]; [left; exact B | right; exists la; split; [apply in_app_iff; left; exact Hl | exact Hg]].
      * right. exists la. split; [apply in_app_iff; right; exact Hl | rewrite <- I1; exact Hg].
    + rewrite <- (app_nil_r ls) in H. apply (Hcont _ _ [] H); [reflexivity|]. cbn [p_running wp_blocked wp_upd]. intros [Hr|Hr]; [left; left; exact Hr|].
      apply rep_app in Hr. destruct Hr as [Hr|Hr]; [left; right; exact Hr|]. unfold rep in Hr. cbn [In] in Hr. destruct Hr as [[Hr|[]]|[[Hr|[]]|[Hr|[]]]]; discriminate.
  - rewrite <- (app_nil_r ls) in H. apply (Hcont _ _ [] H); [reflexivity|]. cbn [p_running wp_backlog wp_upd]. intros Hw. left. exact Hw.
Qed.

Definition pw (p : wproc) (x : tid) : Prop := run_find (p_running p) x <> None \/ reports (p_up p) x.

Lemma reports_app a b x : reports (a ++ b) x <-> reports a x \/ reports b x.
Proof.
  unfold reports. split.
  - intros (us & Hin & Hr). apply in_app_iff in Hin. destruct Hin; [left | right]; eauto.
  - intros [(us & Hin & Hr)|(us & Hin & Hr)]; exists us; (split; [apply in_app_iff; auto | exact Hr]).
Qed.

Lemma rep_nil x : ~ rep [] x.
Proof. unfold rep. cbn. tauto. Qed.
Lemma reports_one us x : reports [UUpdates us] x <-> rep us x.
Proof. unfold reports. split; [intros (us0 & [E|[]] & Hr); inversion E; subst; exact Hr | intros Hr; exists us; split; [left; reflexivity | exact Hr]]. Qed.
Lemma reports_rr ids x : ~ reports [URetractResponse ids] x.
Proof. intros (us & [E|[]] & _). discriminate. Qed.

Lemma pwm_wr p m order p' ls x : StronglySorted N.lt (map fst (p_backlog p)) -> process_worker_message p m order = Ok (p', ls) ->
  pw p' x -> pw p x \/ exists la, In la ls /\ good (p_id p) x la.
Proof.
  intros Hs H Hw. destruct m as [ts|ids|ids|w0|w0|rq def|]; cbn [process_worker_message] in H.
  - apply bind_ok in H. destruct H as ([[p1 ups] ls1] & H1 & H).
    destruct (compute_loop_eff _ _ _ _ _ _ _ H1 Hs) as (_ & U1 & _).
    destruct (compute_loop_wr _ x _ _ _ _ _ _ H1) as (_ & lnew & El & W1). cbn [app] in El. subst ls1.
    assert (Hcase : wr p1 ups x \/ reports (p_up p) x /\ ls = lnew).
    { destruct ups as [|u0 ur]; inversion H; subst.
      - destruct Hw as [Hr|Hr]; [left; left; exact Hr | right; rewrite U1 in Hr; auto].
      - destruct Hw as [Hr|Hr]; [left; left; exact Hr|]. unfold send_up in Hr. cbn [p_up wp_up wp_upd] in Hr. rewrite U1 in Hr.
        apply reports_app in Hr. destruct Hr as [Hr|Hr]; [right; auto | left; right; apply reports_one; exact Hr]. }
    assert (El : ls = lnew) by (destruct ups; inversion H; reflexivity). subst lnew.
    destruct Hcase as [Hc|[Hc _]]; [|left; right; exact Hc].
    destruct (W1 Hc) as [[A|A]|X]; [left; left; exact A | exfalso; exact (rep_nil x A) | right; exact X].
  - destruct (negb _); [discriminate|]. destruct (retract_from _ _ _ _) as [b out].
    left. destruct ids; inversion H; subst; destruct Hw as [Hr|Hr]; try (left; exact Hr); try (right; exact Hr).
    unfold send_up in Hr. cbn [p_up wp_up wp_upd wp_backlog] in Hr. apply reports_app in Hr. destruct Hr as [Hr|Hr]; [right; exact Hr | exfalso; exact (reports_rr _ _ Hr)].
  - inversion H; subst. left.
    assert (E : forall l q, p_running (fold_left cancel_task l q) = p_running q /\ p_up (fold_left cancel_task l q) = p_up q).
    { induction l as [|i r IH]; intros q; [auto|]. cbn [fold_left]. destruct (IH (cancel_task q i)) as [A B]. destruct (cancel_task_eff q i) as (U & _ & _ & _ & R & _).
      split; congruence. }
    destruct (E ids p) as [A B]. unfold pw in *. rewrite A, B in Hw. exact Hw.
  - inversion H; subst. left. exact Hw.
  - inversion H; subst. left. exact Hw.
  - destruct (N.eqb _ _); [|discriminate]. inversion H; subst. left. exact Hw.
  - inversion H; subst. left. exact Hw.
Qed.

Lemma run_del_sub l t x : StronglySorted tlt (map fst l) -> run_find (run_del l t) x <> None -> run_find l x <> None.
Proof. intros Hs. rewrite (run_find_del l t x Hs). destruct (tid_eqb x t); [congruence | auto]. Qed.

Lemma task_end_wr p t how p' ls x : StronglySorted tlt (map fst (p_running p)) -> StronglySorted N.lt (map fst (p_backlog p)) -> task_end p t how = Ok (p', ls) ->
  pw p' x -> pw p x \/ exists la, In la ls /\ good (p_id p) x la.
Proof.
  intros Hsr Hs H Hw. unfold task_end in H. destruct (fu_find (p_futures p) t) as [stop|]; [|discriminate].
  destruct (run_find (p_running p) t) as [rv|] eqn:Ert; [|discriminate]. destruct (al_find (p_alloc p) t) as [[|rq alloc]|]; try discriminate.
  match type of H with context [prefill_loop ?f ?q0 ?a ?b ?c ?u0 []] => destruct (prefill_loop f q0 a b c u0 []) as [[[p1 ups1] ls1] usd] eqn:Ep end.
  match type of Ep with prefill_loop _ ?q0 _ _ _ ?u0 [] = _ => set (p0 := q0) in *; set (ups0 := u0) in * end.
  destruct (prefill_loop_eff _ _ _ _ _ _ _ _ _ _ _ Ep Hs) as (_ & U1 & _).
  destruct (prefill_loop_wr _ x _ _ _ _ _ _ _ _ _ _ Ep) as (_ & lnew & El & W1). cbn [app] in El. subst ls1.
  assert (H0 : wr p0 ups0 x -> pw p x).
  { intros [Hr|Hr]; [left; cbn [p0 p_running wp_upd] in Hr; exact (run_del_sub _ _ _ Hsr Hr)|]. left.
    assert (Ex : x = t).
    { subst ups0. unfold rep in Hr. destruct how; [| |destruct stop as [[|]|]]; cbn [In] in Hr;
        intuition (try discriminate); match goal with E : _ = _ |- _ => inversion E; reflexivity end. }
    subst x. rewrite Ert. discriminate. }
  match type of H with (let '(_, _) := ?e in _) = _ => destruct e as [p2 ups2] eqn:E2 end.
  assert (A2 : p_running p2 = p_running p1 /\ p_up p2 = p_up p1 /\ (rep ups2 x -> rep ups1 x)).
  { destruct (negb usd); inversion E2; subst; cbn [p_running p_up wp_blocked wp_upd]; repeat split; auto.
    intros Hr. apply rep_app in Hr. destruct Hr as [Hr|Hr]; [exact Hr|]. exfalso. unfold rep in Hr.
    destruct Hr as [Hr|[Hr|Hr]]; apply in_map_iff in Hr; destruct Hr as (b & E & _); discriminate. }
  destruct A2 as (R2 & U2 & Hrep).
  assert (Hc : wr p1 ups1 x \/ reports (p_up p) x).
  { destruct ups2 as [|u0 ur]; inversion H; subst.
    - destruct Hw as [Hr|Hr]; [left; left; rewrite <- R2; exact Hr | right; rewrite U2, U1 in Hr; exact Hr].
    - destruct Hw as [Hr|Hr]; [left; left; rewrite <- R2; exact Hr|]. unfold send_up in Hr. cbn [p_up wp_up wp_upd] in Hr. rewrite U2, U1 in Hr.
      apply reports_app in Hr. destruct Hr as [Hr|Hr]; [right; exact Hr | left; right; apply Hrep; apply reports_one; exact Hr]. }
  assert (El : ls = lnew) by (destruct ups2; inversion H; reflexivity). subst lnew.
  destruct Hc as [Hc|Hc]; [|left; right; exact Hc].
  destruct (W1 Hc) as [A|X]; [left; exact (H0 A) | right; exact X].
Qed.

(** * The invariant *)
Definition RL (s : sys) (outs : list out) : Prop :=
  forall p x, In p (s_procs s) -> pw p x -> exists l, In l (launches outs) /\ good (p_id p) x l.

Lemma RL_more s pre outs : RL s pre -> RL s (pre ++ outs).
Proof. intros H p x Hp Hw. destruct (H p x Hp Hw) as (l & Hl & Hg). exists l. split; [rewrite launches_app; apply in_app_iff; left; exact Hl | exact Hg]. Qed.

(** processes of [s'] come from processes of [s] with the same running set and no more reports *)
Definition frame_up (s s' : sys) : Prop :=
  forall p', In p' (s_procs s') -> exists p, In p (s_procs s) /\ p_id p' = p_id p /\ p_running p' = p_running p /\ forall m, In m (p_up p') -> In m (p_up p).

Lemma RL_frame s s' pre outs : RL s pre -> frame_up s s' -> RL s' (pre ++ outs).
Proof.
  intros HR HF p' x Hp' Hw. destruct (HF p' Hp') as (p & Hp & Ei & Er & Hu).
  assert (Hw0 : pw p x).
  { destruct Hw as [A|(us & Hin & Hr)]; [left; rewrite <- Er; exact A | right; exists us; split; [apply Hu; exact Hin | exact Hr]]. }
  destruct (HR p x Hp Hw0) as (l & Hl & Hg). exists l. split; [rewrite launches_app; apply in_app_iff; left; exact Hl | rewrite Ei; exact Hg].
Qed.

Lemma frame_up_of_PR A s s1 o1 s' outs : NoPanicU1.psorted (s_procs s') -> PR A (s1, o1) (s', outs) ->
  (forall w p1, find_proc (s_procs s1) w = Some p1 -> exists p, In p (s_procs s) /\ p_id p1 = p_id p /\ p_running p1 = p_running p /\ forall m, In m (p_up p1) -> In m (p_up p)) ->
  frame_up s s'.
Proof.
  intros Hs' (_ & P & _) Hpop p' Hp'. destruct (P _ _ (in_find_proc _ _ Hs' Hp')) as (p1 & add & X1 & X2 & X3 & X4 & X5 & X6). cbn [fst] in X1.
  destruct (Hpop _ p1 X1) as (p & Hp & Ei & Er & Hu). exists p. split; [exact Hp|].
  split; [rewrite <- Ei; symmetry; exact (proj2 (NoPanicL0.find_proc_some _ _ _ X1))|]. split; [congruence|]. intros m Hm. apply Hu. rewrite <- X4. exact Hm.
Qed.

Lemma pop_same_u s : forall w p1, find_proc (s_procs s) w = Some p1 ->
  exists p, In p (s_procs s) /\ p_id p1 = p_id p /\ p_running p1 = p_running p /\ forall m, In m (p_up p1) -> In m (p_up p).
Proof. intros w p1 H. exists p1. split; [exact (proj1 (NoPanicL0.find_proc_some _ _ _ H)) | auto]. Qed.

Lemma step_frame_up s o s' outs :
  match o with OpSubmit _ _ _ _ _ _ _ _ | OpSubmitG _ _ _ _ | OpOpen _ | OpClose _ | OpCancel _ | OpForget _ | OpDUp _ | OpSched _ => True | _ => False end ->
  INV s -> PROTO s -> PROTO s' -> step s o = Ok (s', outs) -> frame_up s s'.
Proof.
  intros Ho HI HP HP' H. pose proof H as H0. pose proof (pr_sorted _ HP') as Hs'.
  destruct o; try destruct Ho; cbn [step] in H0.
  - eapply (frame_up_of_PR quietA s s [] s' outs); [exact Hs' | | apply pop_same_u].
    destruct (bad_submit_lengths _ _); [inversion H0; subst; apply PR_same; reflexivity|]. eapply handle_submit_array_PR; [|exact H0]; intros w m Hm; exact Hm.
  - eapply (frame_up_of_PR quietA s s [] s' outs); [exact Hs' | | apply pop_same_u].
    destruct (bad_graph_rq _ _); [inversion H0; subst; apply PR_same; reflexivity|]. destruct (dead_dep _ _ _); [inversion H0; subst; apply PR_same; reflexivity|]. eapply handle_submit_graph_PR; [|exact H0]. intros w m Hm; exact Hm.
  - eapply (frame_up_of_PR quietA s s [] s' outs); [exact Hs' | eapply handle_open_PR; exact H0 | apply pop_same_u].
  - eapply (frame_up_of_PR quietA s s [] s' outs); [exact Hs' | eapply handle_close_PR; exact H0 | apply pop_same_u].
  - eapply (frame_up_of_PR quietA s s [] s' outs); [exact Hs' | eapply handle_cancel_PR; [|exact H0]; intros w m Hm; exact Hm | apply pop_same_u].
  - eapply (frame_up_of_PR quietA s s [] s' outs); [exact Hs' | eapply handle_forget_PR; exact H0 | apply pop_same_u].
  - destruct (find_proc (s_procs s) w) as [p|] eqn:Hp; [|discriminate]. destruct (p_up p) as [|m rest] eqn:Eu; [discriminate|].
    set (s1 := with_procs s (set_proc (s_procs s) (wp_up p rest))) in *.
    assert (Hpop : forall w0 p1, find_proc (s_procs s1) w0 = Some p1 -> exists p0, In p0 (s_procs s) /\ p_id p1 = p_id p0 /\ p_running p1 = p_running p0 /\ forall m0, In m0 (p_up p1) -> In m0 (p_up p0)).
    { intros w0 p1 H1. cbn [s1 s_procs with_procs] in H1. rewrite find_set_proc in H1. cbn [wp_up wp_upd p_id] in H1.
      destruct (NoPanicL0.find_proc_some _ _ _ Hp) as [Hin Hid]. rewrite Hid in H1.
      destruct (N.eqb w0 w) eqn:E; [|exists p1; split; [exact (proj1 (NoPanicL0.find_proc_some _ _ _ H1)) | auto]]. inversion H1; subst p1. exists p.
      split; [exact Hin|]. split; [reflexivity|]. split; [reflexivity|]. cbn [p_up]. intros m0 Hm0. rewrite Eu. right. exact Hm0. }
    pose proof (SP_pop s w p m rest [OUp w m] HP (INV_UH _ HI) Hp Eu) as S1. fold s1 in S1.
    destruct m as [us|ids].
    + eapply (frame_up_of_PR quietA s s1 [OUp w (UUpdates us)] s' outs); [exact Hs' | eapply on_task_update_PR; [intros w0 m Hm; exact Hm | exact S1 | exact H0] | exact Hpop].
    + eapply (frame_up_of_PR _ s s1 [OUp w (URetractResponse ids)] s' outs); [exact Hs' | exact (on_retract_response_PR _ _ _ _ H0) | exact Hpop].
  - destruct (c_flag (s_core s)); [|discriminate]. eapply (frame_up_of_PR _ s s [] s' outs); [exact Hs' | exact (run_scheduling_PR _ _ _ H0) | apply pop_same_u].
Qed.

Lemma RL_procs s s' pre outs : RL s pre ->
  (forall p', In p' (s_procs s') -> (forall x, ~ pw p' x) \/ exists p, In p (s_procs s) /\ p_id p' = p_id p /\ p_running p' = p_running p /\ p_up p' = p_up p) ->
  RL s' (pre ++ outs).
Proof.
  intros HR HF p' x Hp' Hw. destruct (HF p' Hp') as [Hn|(p & Hp & Ei & Er & Eu)]; [exfalso; exact (Hn x Hw)|].
  assert (Hw0 : pw p x) by (unfold pw in *; rewrite <- Er, <- Eu; exact Hw).
  destruct (HR p x Hp Hw0) as (l & Hl & Hg). exists l. split; [rewrite launches_app; apply in_app_iff; left; exact Hl | rewrite Ei; exact Hg].
Qed.

Lemma RL_worker s pre w p p' ls outs : PROTO s -> RL s pre -> find_proc (s_procs s) w = Some p -> p_id p' = w -> launches outs = ls ->
  (forall x, pw p' x -> pw p x \/ exists la, In la ls /\ good w x la) ->
  RL (with_procs s (set_proc (s_procs s) p')) (pre ++ outs).
Proof.
  intros HP HR Hp Hid El HW q x Hq Hw. cbn [s_procs with_procs] in Hq. destruct (NoPanicL0.find_proc_some _ _ _ Hp) as [Hin Hidp].
  destruct (in_set_proc _ _ _ Hq) as [->|Hq'].
  - destruct (HW x Hw) as [A|(la & Hl & Hg)].
    + destruct (HR p x Hin A) as (l & Hl & Hg). exists l. split; [rewrite launches_app; apply in_app_iff; left; exact Hl | rewrite Hid, <- Hidp; exact Hg].
    + exists la. split; [rewrite launches_app, El; apply in_app_iff; right; exact Hl | rewrite Hid; exact Hg].
  - destruct (HR q x Hq' Hw) as (l & Hl & Hg). exists l. split; [rewrite launches_app; apply in_app_iff; left; exact Hl | exact Hg].
Qed.

Theorem step_RL s pre o s' outs : INV s -> PROTO s -> PROTO s' -> RL s pre -> step s o = Ok (s', outs) -> RL s' (pre ++ outs).
Proof.
  intros HI HP HP' HR H. pose proof (pr_sorted _ HP) as Hps. pose proof (pr_sorted _ HP') as Hps'.
  assert (Hsrv : match o with OpSubmit _ _ _ _ _ _ _ _ | OpSubmitG _ _ _ _ | OpOpen _ | OpClose _ | OpCancel _ | OpForget _ | OpDUp _ | OpSched _ => True | _ => False end -> RL s' (pre ++ outs)).
  { intros Ho. eapply RL_frame; [exact HR | eapply step_frame_up; eassumption]. }
  destruct o; try (apply Hsrv; exact I); clear Hsrv.
  - (* connect *) cbn [step] in H. unfold on_new_worker in H. cbv zeta in H. inversion H; subst s' outs. clear H.
    eapply RL_procs; [exact HR|]. intros p' Hp'. cbn [fst snd emit ask_scheduling st_core with_core with_procs broadcast core_of s_core s_procs s_hq] in Hp'.
    destruct (in_set_proc _ _ _ Hp') as [->|Hq].
    + left. intros x [A|(us & [] & _)]. cbn in A. congruence.
    + right. apply in_map_iff in Hq. destruct Hq as (q & <- & Hin). exists q. split; [exact Hin | cbn; auto].
  - (* lost *) cbn [step] in H. destruct (find_proc (s_procs s) w) as [pw0|] eqn:Hpw; [|discriminate].
    destruct (on_remove_worker_EXF (s, []) _ _ _ _ _ (s', outs) (inv_cb _ HI) Hps Hps' H) as (_ & _ & PFL & _). cbn [fst] in PFL.
    eapply RL_procs; [exact HR|]. intros p' Hp'. right. destruct (PFL _ _ (in_find_proc _ _ Hps' Hp')) as (_ & p0 & add & Hf0 & _ & Er & Eu & _).
    exists p0. destruct (NoPanicL0.find_proc_some _ _ _ Hf0) as [Hin0 Hid0]. split; [exact Hin0|]. split; [congruence|]. auto.
  - (* ddown *) cbn [step] in H. destruct (find_proc (s_procs s) w) as [p|] eqn:Hp; [|discriminate].
    destruct (p_down p) as [|m rest] eqn:Ed; [discriminate|]. apply bind_ok in H. destruct H as ([p' ls] & Hm & H). inversion H; subst s' outs. clear H.
    destruct (NoPanicL0.find_proc_some _ _ _ Hp) as [_ Hid].
    assert (Hs : StronglySorted N.lt (map fst (p_backlog (wp_down p rest)))) by (cbn; exact (backlog_sorted s w p HP Hp)).
    eapply (RL_worker s pre w p p' ls); [exact HP | exact HR | exact Hp | rewrite (process_worker_message_id _ _ _ _ _ Hm); exact Hid | cbn; apply launches_map|].
    intros x Hw. destruct (pwm_wr _ _ _ _ _ x Hs Hm Hw) as [A|X]; [left; exact A | right; cbn [p_id wp_down wp_upd] in X; rewrite Hid in X; exact X].
  - (* end *) cbn [step] in H. destruct (find_proc (s_procs s) w) as [p|] eqn:Hp; [|discriminate].
    apply bind_ok in H. destruct H as ([p' ls] & Hm & H). inversion H; subst s' outs. clear H.
    destruct (NoPanicL0.find_proc_some _ _ _ Hp) as [_ Hid].
    eapply (RL_worker s pre w p p' ls); [exact HP | exact HR | exact Hp | rewrite (task_end_id _ _ _ _ _ Hm); exact Hid | apply launches_map|].
    intros x Hw. destruct (task_end_wr _ _ _ _ _ x (lok_sorted _ (proj1 (local_ok_LOK _) (pr_local _ HP _ _ Hp))) (backlog_sorted s w p HP Hp) Hm Hw) as [A|X]; [left; exact A | right; rewrite Hid in X; exact X].
  - (* failnext *) cbn [step] in H. destruct (find_proc (s_procs s) w) as [p|] eqn:Hp; [|discriminate]. inversion H; subst s' outs.
    eapply (RL_worker s pre w p _ []); [exact HP | exact HR | exact Hp | exact (proj2 (NoPanicL0.find_proc_some _ _ _ Hp)) | reflexivity | intros x Hw; left; exact Hw].
  - (* timer *) cbn [step] in H. inversion H; subst s' outs. eapply RL_procs; [exact HR|]. intros p' Hp'. right. cbn [s_procs with_procs] in Hp'.
    apply in_map_iff in Hp'. destruct Hp' as (q & <- & Hin). exists q. split; [exact Hin|].
    assert (E : forall ts q0, p_running (fold_left timer_fire ts q0) = p_running q0).
    { induction ts as [|t0 r IH]; intros q0; [reflexivity|]. cbn [fold_left]. rewrite IH. unfold timer_fire. cbn. destruct (fu_find _ t0) as [[|]|]; reflexivity. }
    destruct (timer_fold_frame (p_timers q) q) as (_ & _ & C). cbv zeta in C. split; [apply fold_timer_id|]. split; [apply E | exact C].
  - (* prune *) cbn [step] in H. apply bind_ok in H. destruct H as (lj & _ & H). inversion H; subst. apply RL_more. exact HR.
Qed.

Theorem reachable_RL ops : forall reserve maxfill s outs,
  Forall op_wf ops -> ops_ok (init_sys reserve maxfill) ops = true -> run (init_sys reserve maxfill) ops = Ok (s, outs) -> RL s outs.
Proof.
  induction ops as [|o pre IH] using rev_ind; intros reserve maxfill s outs Hwf Hok H.
  - cbn in H. inversion H; subst. intros p x [].
  - pose proof (proj1 (reachable_PROTO _ _ _ _ _ Hwf Hok H)) as HP'.
    apply Forall_app in Hwf. destruct Hwf as [Hwf1 Hwf2]. destruct (ops_ok_snoc _ _ _ Hok) as [Hok1 _].
    destruct (run_app _ _ _ _ _ H) as (s1 & o1 & o2 & H1 & H2 & ->). cbn [run] in H2. apply bind_ok in H2. destruct H2 as ([s2 o3] & Hs & H2). cbn in H2. inversion H2; subst s2 o2. clear H2.
    rewrite app_nil_r. eapply step_RL; [exact (reachable_INV_ops _ _ _ _ _ Hwf1 Hok1 H1) | exact (proj1 (reachable_PROTO _ _ _ _ _ Hwf1 Hok1 H1)) | exact HP' | exact (IH _ _ _ _ Hwf1 Hok1 H1) | exact Hs].
Qed.

(** * The statement *)
Theorem reported_means_ran_partial ops reserve maxfill s outs :
  Forall op_wf ops -> ops_ok (init_sys reserve maxfill) ops = true -> run (init_sys reserve maxfill) ops = Ok (s, outs) ->
  forall p x us, In p (s_procs s) ->
    (run_find (p_running p) x <> None \/
     (In (UUpdates us) (p_up p) /\ (In (UFinished x) us \/ In (UFailed x FTask) us \/ In (UFailed x FTimeLimit) us))) ->
    exists a l b, outs = a ++ OLaunch l :: b /\ l_w l = p_id p /\ l_t l = x /\ l_ok l = true.
Proof.
  intros Hwf Hok H p x us Hp Hc.
  assert (Hw : pw p x) by (destruct Hc as [A|[A B]]; [left; exact A | right; exists us; split; [exact A | exact B]]).
  destruct (reachable_RL _ _ _ _ _ Hwf Hok H p x Hp Hw) as (l & Hl & G1 & G2 & G3).
  assert (Hin : In (OLaunch l) outs).
  { clear -Hl. unfold launches in Hl. apply in_flat_map in Hl. destruct Hl as (o & Ho & Hlo). destruct o; cbn in Hlo; try contradiction. destruct Hlo as [<-|[]]. exact Ho. }
  apply in_split in Hin. destruct Hin as (a & b & ->). exists a, l, b. auto.
Qed.

Print Assumptions reported_means_ran_partial.
