(** Stage 3, totality of the server's handling of worker messages, part 2: [task_finished]. *)
From HQ Require Import Base.Prelude Cluster.Types Cluster.Core Cluster.Reactor Cluster.Worker Cluster.Server Cluster.Sys Cluster.Monitors Cluster.RejHyp Cluster.ProofsJob Cluster.ProofsMore Cluster.ProofsTerminal Cluster.ProofsStep Cluster.ProofsFinal Cluster.BijBase Cluster.BijCore Cluster.BijHq Cluster.BijSt Cluster.BijReact Cluster.BijFinal Cluster.InvWBase Cluster.InvWView Cluster.InvWCore Cluster.InvWReact Cluster.InvWReact2 Cluster.InvWReact3 Cluster.InvWServer Cluster.InvWStep Cluster.InvQBase Cluster.InvQTake Cluster.InvQInv Cluster.InvQOps Cluster.InvQReact Cluster.InvQReact2 Cluster.InvQReact3 Cluster.InvDBase Cluster.InvDSpec Cluster.InvDRem Cluster.InvDReact Cluster.InvBundle Cluster.InvProcsDef Cluster.NoPanicC1 Cluster.NoPanicC2 Cluster.NoPanicC3 Cluster.NoPanicC4 Cluster.InvWX1 Cluster.InvWX2 Cluster.InvWX3 Cluster.NoPanicL0 Cluster.NoPanicL1 Cluster.NoPanicL2 Cluster.NoPanicL3 Cluster.NoPanicL4 Cluster.NoPanicU0 Cluster.NoPanicU1 Cluster.NoPanicU6 Cluster.NoPanicU22.
From Coq Require Import ZArith Lia Sorting.Sorted.
Local Open Scope N_scope.

Arguments N.add : simpl never.
Arguments N.sub : simpl never.

(** * What a disposed prefill set consists of ([NoPanicC4.dispose_ret_prefilled] for any [Z]) *)
Lemma dispose_ret_prefilled_Z Z ret c p qs1 r : QI (exL Ready ret none) Z c -> dispose_all (c_queues c) p = (qs1, r) ->
  NoDup r /\ forall x, In x r -> ~ In x ret /\ exists t w, find_task (c_tasks c) x = Some t /\ t_state t = Prefilled w.
Proof.
  intros V H. split.
  - eapply dispose_all_nodup; [exact (qv_wf _ _ _ _ _ _ V) | | exact H].
    intros i j q q' x Hi Hj Hm Hm'.
    destruct (qv_live _ _ _ _ _ _ V _ _ _ Hi Hm) as (t & Ht & Hti). destruct (qv_live _ _ _ _ _ _ V _ _ _ Hj Hm') as (t' & Ht' & Htj).
    congruence.
  - intros x Hx. destruct (dispose_all_spec p _ _ _ (qv_wf _ _ _ _ _ _ V) H) as (_ & _ & _ & Hsrc).
    destruct (Hsrc x Hx) as (i & q & q1 & ri & Hq & Hc & Hin).
    destruct (cdp_member _ _ _ _ _ (nth_error_Forall _ _ _ _ (qv_wf _ _ _ _ _ _ V) Hq) Hc Hin) as (_ & pp & Hpf).
    destruct (qv_live _ _ _ _ _ _ V _ _ x Hq) as (t & Ht & Hti); [exists pp; right; exact Hpf|].
    rewrite <- Hti in Hq. pose proof (qv_task _ _ _ _ _ _ V _ _ _ Ht Hq) as Hp.
    unfold exp_place, exL, none in Hp. destruct (tid_mem x ret) eqn:Em.
    + exfalso. exact (proj2 Hp _ Hpf).
    + split; [apply tmem_notin; exact Em|]. exists t.
      destruct (t_state t) as [n|w rv|w|w|w rv|ws|] eqn:Est; cbn [nat_place] in Hp;
        try (exfalso; exact (proj2 Hp _ Hpf)).
      * destruct (N.eqb n 0); exfalso; exact (proj2 Hp _ Hpf).
      * exists w. auto.
      * destruct (find_redirect (c_redirects c) x); exfalso; exact (proj2 Hp _ Hpf).
Qed.

(** * [wake_consumers] *)
Lemma wake_consumers_tot Z csm : forall c ret,
  NoDup csm ->
  (forall x, In x csm -> exists tx n, find_task (c_tasks c) x = Some tx /\ t_state tx = Waiting n /\ n <> 0) ->
  QI (exL Ready ret none) Z c -> NoDup ret -> all_prefilled c ret ->
  exists c' ret', wake_consumers c csm ret = Ok (c', ret') /\ NoDup ret' /\ all_prefilled c' ret' /\
    (forall y, ~ In y csm -> find_task (c_tasks c') y = find_task (c_tasks c) y).
Proof.
  induction csm as [|x r IH]; intros c ret Hnd Hpre V Hndr Hpf.
  - exists c, ret. split; [reflexivity|]. split; [exact Hndr|]. split; [exact Hpf | reflexivity].
  - inversion Hnd as [|? ? Hni Hnd']; subst.
    destruct (Hpre x (or_introl eq_refl)) as (t & n & Ht & Est & Hn).
    destruct (BijBase.find_task_some _ _ _ Ht) as [_ Hid].
    assert (En : N.eqb n 0 = false) by (apply N.eqb_neq; exact Hn).
    set (t' := with_state t (Waiting (n - 1))).
    (* one step *)
    assert (Hone : exists c1 rt, wake_consumers c [x] ret = Ok (c1, ret ++ rt) /\
               (forall r', wake_consumers c (x :: r') ret = wake_consumers c1 r' (ret ++ rt)) /\
               c_tasks c1 = set_task (c_tasks c) t' /\
               (rt = [] \/ exists qs1, dispose_all (c_queues c) (t_prio t) = (qs1, rt))).
    { destruct (N.eqb (n - 1) 0) eqn:En1.
      - destruct (add_ready_task_tot (c_queues (upd_task c t')) t') as (qs & rt & qs1 & Ha & Hdis).
        { cbn [t_rq with_state t' c_queues upd_task with_tasks]. exact (qv_rq _ _ _ _ _ _ V _ _ Ht). }
        exists (with_queues (upd_task c t') qs), rt.
        assert (Hs : forall r', wake_consumers c (x :: r') ret = wake_consumers (with_queues (upd_task c t') qs) r' (ret ++ rt)).
        { intros r'. cbn [wake_consumers]. rewrite (get_task_ok _ _ _ Ht). cbn [bind]. rewrite Est, En. fold t'. rewrite En1, Ha. reflexivity. }
        split; [rewrite Hs; reflexivity|]. split; [exact Hs|]. split; [reflexivity|]. right. exists qs1. exact Hdis.
      - exists (upd_task c t'), [].
        assert (Hs : forall r', wake_consumers c (x :: r') ret = wake_consumers (upd_task c t') r' (ret ++ [])).
        { intros r'. cbn [wake_consumers]. rewrite (get_task_ok _ _ _ Ht). cbn [bind]. rewrite Est, En. fold t'. rewrite En1, app_nil_r. reflexivity. }
        split; [rewrite Hs; reflexivity|]. split; [exact Hs|]. split; [reflexivity | left; reflexivity]. }
    destruct Hone as (c1 & rt & H1 & Hstep & Et1 & Hrt).
    pose proof (wake_consumers_QI Z [x] c ret c1 (ret ++ rt) V H1) as V1.
    assert (Hkeep : forall y, y <> x -> find_task (c_tasks c1) y = find_task (c_tasks c) y).
    { intros y Hy. rewrite Et1, BijBase.find_set_task. change (t_id t') with (t_id t). rewrite Hid.
      destruct (tid_eqb y x) eqn:E; [apply NoPanicU1.tid_eqb_eq in E; contradiction | reflexivity]. }
    assert (Hpfx : forall y ty wy, find_task (c_tasks c) y = Some ty -> t_state ty = Prefilled wy -> find_task (c_tasks c1) y = Some ty).
    { intros y ty wy Hy Hsy. rewrite Hkeep; [exact Hy|]. intros ->. rewrite Ht in Hy. inversion Hy; subst ty. congruence. }
    assert (Hret : NoDup (ret ++ rt) /\ all_prefilled c1 (ret ++ rt)).
    { destruct Hrt as [->|(qs1 & Hdis)].
      - rewrite app_nil_r. split; [exact Hndr|]. intros y Hy. destruct (Hpf y Hy) as (ty & wy & Hfy & Hsy). exists ty, wy. split; [eapply Hpfx; eassumption | exact Hsy].
      - destruct (dispose_ret_prefilled_Z Z ret c _ _ _ V Hdis) as (Hnd0 & Hp0). split.
        + apply nodup_app; [exact Hndr | exact Hnd0|]. intros y Hy Hy0. exact (proj1 (Hp0 y Hy0) Hy).
        + intros y Hy. apply in_app_or in Hy. destruct Hy as [Hy|Hy].
          * destruct (Hpf y Hy) as (ty & wy & Hfy & Hsy). exists ty, wy. split; [eapply Hpfx; eassumption | exact Hsy].
          * destruct (proj2 (Hp0 y Hy)) as (ty & wy & Hfy & Hsy). exists ty, wy. split; [eapply Hpfx; eassumption | exact Hsy]. }
    destruct Hret as [Hnd1 Hpf1].
    destruct (IH c1 (ret ++ rt) Hnd') as (c' & ret' & Hr & Hnd2 & Hpf2 & Hk2); [| exact V1 | exact Hnd1 | exact Hpf1 |].
    + intros y Hy. destruct (Hpre y (or_intror Hy)) as (ty & ny & Hfy & Hsy & Hny). exists ty, ny. split; [|auto].
      rewrite Hkeep; [exact Hfy|]. intros ->. contradiction.
    + exists c', ret'. split; [rewrite Hstep; exact Hr|]. split; [exact Hnd2|]. split; [exact Hpf2|].
      intros y Hy. rewrite Hk2 by (intros X; apply Hy; right; exact X). apply Hkeep. intros ->. apply Hy. left. reflexivity.
Qed.

(** * [reset_mn_workers], the job layer *)
Lemma reset_mn_workers_tot id l : forall c, NoDup l ->
  (forall x, In x l -> exists wk root, find_worker (c_workers c) x = Some wk /\ w_assign wk = Mn id root) ->
  exists c', reset_mn_workers c l id = Ok c'.
Proof.
  induction l as [|a r IH]; intros c Hnd Hpre; [eexists; reflexivity|].
  inversion Hnd as [|? ? Hni Hnd']; subst. destruct (Hpre a (or_introl eq_refl)) as (wk & root & Hw & Ea).
  cbn [reset_mn_workers]. rewrite (get_worker_ok _ _ _ Hw). cbn [bind]. rewrite Ea, NoPanicU1.tid_eqb_refl.
  apply IH; [exact Hnd'|]. intros x Hx. destruct (Hpre x (or_intror Hx)) as (wkx & rx & Hwx & Eax). exists wkx, rx. split; [|exact Eax].
  cbn [c_workers upd_worker with_workers]. rewrite find_set_worker. cbn [w_id reset_mn_task with_assign].
  rewrite (proj2 (InvWBase.find_worker_some _ _ _ Hw)). destruct (N.eqb x a) eqn:E; [apply N.eqb_eq in E; subst; contradiction | exact Hwx].
Qed.

Lemma process_task_finished_tot s id : HOK (hq_of s) -> jv (hq_of s) id = Some (Some JR) -> exists s', process_task_finished s id = Ok s'.
Proof.
  intros Hok Hj. unfold process_task_finished, hq_get_job. unfold jv in Hj.
  destruct (find_job (h_jobs (hq_of s)) (fst id)) as [j|] eqn:Ej; [|discriminate]. inversion Hj as [Hj'].
  unfold hq_of in Ej. rewrite Ej. cbn [bind]. rewrite Hj'.
  pose proof (Hok _ (find_job_in _ _ _ Ej)) as HJ. pose proof (find_job_id _ _ _ Ej) as Hid.
  unfold Reactor.csub. pose proof (cnt_pos _ _ _ Hj') as Hp. rewrite <- (jok_run _ HJ) in Hp.
  destruct (N.ltb (j_nrun j) 1) eqn:El; [apply N.ltb_lt in El; lia|]. cbn [bind].
  match goal with |- context [hq_set_job s ?jj] => set (jx := jj) end.
  assert (Hjx : JOK jx).
  { destruct HJ as [Ss R F X C A Cm]. pose proof (fun v => cnt_set_some _ _ _ JF v Ss Hj') as HC.
    subst jx. constructor; cbn; auto using jt_set_sorted;
      try (match goal with |- _ = cnt _ ?v => specialize (HC v); cbn [jst_eqb] in HC; lia end).
    intros Hcm. destruct (Cm Hcm) as (_ & _ & Hr). pose proof (HC JR) as H1. cbn [jst_eqb] in H1. lia. }
  set (sm := emit (hq_set_job s jx) (OEv (EvFinished id))).
  assert (Hokm : HOK (hq_of sm)) by (subst sm; rewrite emit_hq; apply hq_set_job_ok; assumption).
  assert (Ejm : find_job (hq_jobs sm) (fst id) = Some jx).
  { subst sm. change (find_job (hq_jobs (hq_set_job s jx)) (fst id) = Some jx). rewrite find_job_hq_set. subst jx. cbn [j_id job_upd]. rewrite Hid, N.eqb_refl. reflexivity. }
  exact (check_termination_tot sm (fst id) jx Hokm Ejm).
Qed.

(** * [task_finished] *)
Lemma xadd_same id : xadd InvWCore.x0 id id = true.
Proof. unfold xadd. rewrite NoPanicU1.tid_eqb_refl. reflexivity. Qed.
Lemma xadd_show id : forall j, InvWCore.x0 j = negb (tid_eqb j id) && xadd InvWCore.x0 id j.
Proof. intros j. unfold xadd, InvWCore.x0. destruct (tid_eqb j id); reflexivity. Qed.

Lemma PI_same s s' : PI s -> s_procs (fst s') = s_procs (fst s) -> wids (core_of s') = wids (core_of s) -> PI s'.
Proof. intros [H1 H2] Ep Ew. split; [unfold WS; rewrite Ew; exact H1 | unfold pids; rewrite Ep, Ew; exact H2]. Qed.

Lemma task_finished_tot s w id t : LI s -> find_task (c_tasks (core_of s)) id = Some t ->
  ((exists rv, t_state t = Running w rv) \/ (exists ws, t_state t = RunningMN (w :: ws))) ->
  jv (hq_of s) id = Some (Some JR) ->
  exists r, task_finished s w id = Ok r.
Proof.
  intros HL Ef Hst Hjr. unfold task_finished. cbv zeta. set (c := core_of s) in *. rewrite Ef.
  pose proof (li_wi _ HL) as HW. pose proof (li_qi _ HL) as V. pose proof (li_gd _ HL) as [Hts D]. pose proof (li_pi _ HL) as HP.
  pose proof (cb_s _ (li_cb _ HL)) as Hs. fold c in HW, V, Hts, D, Hs.
  destruct (BijBase.find_task_some _ _ _ Ef) as [Hin Hid].
  destruct (LI_get_rq s id t HL Ef) as (rq & Hrq). fold c in Hrq. rewrite Hrq. cbn [bind].
  (* phase 1: the worker sets *)
  match goal with |- exists r, bind ?m _ = Ok r =>
    assert (A1 : exists c1, m = Ok c1 /\ WIX (xadd InvWCore.x0 id) c1 /\ qsame c c1 /\ wids c1 = wids c) end.
  { destruct Hst as [(rv & Est)|(ws & Est)]; rewrite Est.
    - rewrite N.eqb_refl. cbn [negb].
      destruct (WIX_A _ _ id t w HW eq_refl Ef) as (wk & a & p & f & Hw & Ea & Hm); [rewrite Est; reflexivity|].
      rewrite (get_worker_ok _ _ _ Hw). cbn [bind].
      destruct (remove_sn_task_tot wk id (rq_res rq) a p f Ea Hm) as (wk' & Hrm & Hwi'). rewrite Hrm. cbn [bind].
      exists (upd_worker c wk'). split; [reflexivity|]. split; [eapply release_sn; [exact HW | exact Ef | rewrite Est; reflexivity | exact Hw | exact Hrm]|].
      split; [repeat split|]. unfold wids. cbn [c_workers upd_worker with_workers]. eapply (set_worker_keep _ w wk wk'); [exact (proj1 HW) | exact Hwi' | exact Hw].
    - rewrite N.eqb_refl.
      destruct (reset_mn_workers_tot id (w :: ws) c) as (c1 & H1).
      { pose proof (li_j _ HL) as HJ. apply J_MNE_RWA in HJ. destruct HJ as (_ & _ & Hmnd). exact (Hmnd t _ Hin Est). }
      { intros x Hx. exact (WIX_M _ _ id t (w :: ws) x HW eq_refl Ef ltac:(rewrite Est; reflexivity) Hx). }
      rewrite H1. exists c1. split; [reflexivity|]. split; [exact (proj1 (release_mn _ _ _ _ _ HW Ef Est H1))|].
      split; [eapply reset_mn_workers_qsame; exact H1|]. eapply reset_mn_workers_wids; [exact (proj1 HP) | exact H1]. }
  destruct A1 as (c1 & -> & W1 & Hqs & Ewid). cbn [bind].
  pose proof Hqs as (T1 & Q1 & R1 & Rq1).
  set (tF := with_state t Finished).
  assert (HW2 : WI (upd_task c1 tF)).
  { exact (C_show _ _ W1 InvWCore.x0 id tF (xadd_same id) (xadd_show id) Hid (or_introl eq_refl)). }
  (* the queue invariant with the task marked finished *)
  assert (Hnw : nat_place (c_redirects c) id (t_state t) = Nowhere /\ forall w0, t_state t <> Retracting w0).
  { destruct Hst as [(rv & Est)|(ws & Est)]; rewrite Est; split; try reflexivity; intros w0; discriminate. }
  assert (V1 : QI (exU none id Nowhere) [] c1).
  { apply (QI_same _ _ _ _ Hqs). eapply QI_mark_nowhere; [exact V | exact Ef | exact (proj1 Hnw) | exact (proj2 Hnw)]. }
  assert (Nr1 : find_redirect (c_redirects c1) id = None).
  { rewrite R1. eapply QV_no_redirect; [exact V | exact Ef | exact (proj2 Hnw)]. }
  assert (V2 : QI none [id] (upd_task c1 tF)).
  { qi_simpl. assert (Ef1 : find_task (c_tasks c1) id = Some t) by (rewrite T1; exact Ef).
    eapply QV_task0; [eapply QV_Z; [exact V1 | intros x []] | exact Ef1 | exact Hid | reflexivity | reflexivity | | | |].
    - intros x Hne. symmetry. apply exU_other. exact Hne.
    - unfold exp_place. rewrite exU_same. reflexivity.
    - intros v Hv. congruence.
    - intros _. left. reflexivity. }
  (* the job layer *)
  destruct (process_task_finished_tot (st_core s (upd_task c1 tF)) id (li_ok _ HL) Hjr) as (s1 & Hf). rewrite Hf. cbn [bind].
  destruct (process_task_finished_active _ _ _ Hf) as [C1 _]. unfold core_same in C1. cbn [core_of st_core with_core s_core fst] in C1.
  destruct (NoPanicU10.process_task_finished_frame _ _ _ Hf) as [_ P1]. cbn [st_core fst with_core s_procs] in P1.
  rewrite C1.
  (* the consumers *)
  destruct (wake_consumers_tot [id] (t_consumers tF) (upd_task c1 tF) []) as (c3 & ret & Hwk & Hndr & Hpf & Hk3).
  { exact (dx_nc _ _ D _ _ Ef). }
  { intros y Hy. destruct (DI_consumer_waits (fm c) id t y D Ef Hy) as (ty & n & Hfy & Hsy & Hn). exists ty, n. split; [|auto].
    cbn [c_tasks upd_task with_tasks]. rewrite BijBase.find_set_task, T1. cbn [t_id tF with_state]. rewrite Hid.
    destruct (tid_eqb y id) eqn:E; [|exact Hfy]. apply NoPanicU1.tid_eqb_eq in E. subst y. unfold fm in Hfy. rewrite Ef in Hfy. inversion Hfy; subst ty.
    exfalso. destruct Hst as [(rv & Est)|(ws & Est)]; congruence. }
  { exact V2. } { constructor. } { intros x []. }
  rewrite Hwk. cbn [bind].
  assert (HW3 : WI c3) by (eapply wake_consumers_WI; [exact HW2 | exact Hwk]).
  assert (Ew3 : wids c3 = wids c).
  { assert (Hws : WS (upd_task c1 tF)) by (unfold WS; change (wids (upd_task c1 tF)) with (wids c1); rewrite Ewid; exact (proj1 HP)).
    rewrite (wake_consumers_wids _ _ _ _ _ Hws Hwk). exact Ewid. }
  destruct (process_retracted_tot (st_core s1 c3) ret) as (s2 & Hr).
  - exact HW3.
  - apply PI_PWc. apply (PI_same s); [exact HP | cbn [st_core fst with_core s_procs]; exact P1 | exact Ew3].
  - exact Hndr.
  - exact Hpf.
  - rewrite Hr. cbn [bind].
    assert (Hf3 : find_task (c_tasks c3) id = Some tF).
    { rewrite Hk3.
      - cbn [c_tasks upd_task with_tasks]. rewrite BijBase.find_set_task. cbn [t_id tF with_state]. rewrite Hid, NoPanicU1.tid_eqb_refl. reflexivity.
      - cbn [t_consumers tF with_state]. intros Hy. destruct (DI_consumer_waits (fm c) id t id D Ef Hy) as (ty & n & Hfy & Hsy & Hn).
        unfold fm in Hfy. rewrite Ef in Hfy. inversion Hfy; subst ty. destruct Hst as [(rv & Est)|(ws & Est)]; congruence. }
    pose proof (process_retracted_keeps (st_core s1 c3) ret s2 id tF Hr Hf3 ltac:(intros w1; discriminate)) as Hf4.
    unfold remove_task. rewrite Hf4. cbn [t_state tF with_state bind]. eauto.
Qed.
