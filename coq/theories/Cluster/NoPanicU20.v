(** Protocol invariant, part 20: [PROTO] holds in every reachable state; the hypothesis [run_fresh]
    of the invariant proofs follows from the hypothesis [ops_ok] on the solver / client witnesses;
    the worker-side operations never panic and the consistency assertions of the server never fire
    in a reachable state. *)
From HQ Require Import Base.Prelude Cluster.Types Cluster.Core Cluster.Reactor Cluster.Worker Cluster.Server Cluster.Sys Cluster.ProofsJob Cluster.ProofsMore Cluster.ProofsTerminal Cluster.ProofsStep Cluster.ProofsFinal Cluster.BijBase Cluster.BijCore Cluster.BijHq Cluster.BijSt Cluster.BijReact Cluster.BijFinal Cluster.RejHyp Cluster.InvWBase Cluster.InvWView Cluster.InvWCore Cluster.InvQBase Cluster.InvQTake Cluster.InvQStep Cluster.InvDStep Cluster.InvAll Cluster.InvBundle Cluster.InvProcsDef Cluster.NoPanicC1 Cluster.NoPanicC2 Cluster.InvWX3 Cluster.NoPanicL0 Cluster.NoPanicU0 Cluster.NoPanicU1 Cluster.NoPanicU5 Cluster.NoPanicU6 Cluster.NoPanicU11 Cluster.NoPanicU12 Cluster.NoPanicU13 Cluster.NoPanicU14 Cluster.NoPanicU15 Cluster.NoPanicU17 Cluster.NoPanicU18 Cluster.NoPanicU19.
From Coq Require Import ZArith Lia Sorting.Sorted.
Local Open Scope N_scope.

(** * The queue fact used by the scheduling proof *)
Lemma INV_QR s : INV s -> QR (s_core s).
Proof.
  intros HI. destruct (inv_qs _ HI) as (_ & _ & Hm & _ & Hwf & _). split; [exact Hwf|].
  intros i q id Hq (p & [Hr|Hp]); apply (Hm i q id Hq); [left; apply in_ready_iff; eauto | right; apply in_prefill_iff; eauto].
Qed.

(** * One step *)
Theorem step_PROTO s o s' outs :
  INV s -> PW s -> RWA (s_core s) -> PROTO s -> op_ok s o = true -> step s o = Ok (s', outs) -> PROTO s'.
Proof.
  intros HI HPW HR HP Hop H.
  destruct o; try (eapply step_PROTO_partial; [exact HI | exact HPW | exact HR | exact HP | exact Hop | exact I | exact H]).
  - eapply lost_PROTO; [exact HP | apply INV_UH; exact HI | exact (inv_w _ HI) | exact H].
  - eapply sched_PROTO; [exact HP | apply INV_UH; exact HI | apply INV_QR; exact HI | exact Hop | exact H].
Qed.

(** * Every reachable state *)
Lemma ops_ok_snoc pre : forall s o, ops_ok s (pre ++ [o]) = true ->
  ops_ok s pre = true /\ forall s1 o1, run s pre = Ok (s1, o1) -> op_ok s1 o = true.
Proof.
  induction pre as [|p r IH]; cbn [app ops_ok run]; intros s o H.
  - apply andb_true_iff in H. destruct H as [H _]. split; [reflexivity|]. intros s1 o1 E. inversion E; subst. exact H.
  - apply andb_true_iff in H. destruct H as [H0 H]. rewrite H0. cbn [andb]. destruct (step s p) as [[s2 o2]| |] eqn:Es.
    + destruct (IH _ _ H) as [A B]. split; [exact A|]. intros s1 o1 E. cbn [bind] in E. apply bind_ok in E. destruct E as ([s3 o3] & E3 & E). inversion E; subst. eapply B. exact E3.
    + split; [reflexivity|]. intros s1 o1 E. discriminate.
    + split; [reflexivity|]. intros s1 o1 E. discriminate.
Qed.

Theorem reachable_PROTO ops : forall reserve maxfill s outs,
  Forall op_wf ops -> ops_ok (init_sys reserve maxfill) ops = true -> run (init_sys reserve maxfill) ops = Ok (s, outs) ->
  PROTO s /\ run_fresh (init_sys reserve maxfill) ops = true.
Proof.
  induction ops as [|o pre IH] using rev_ind; intros reserve maxfill s outs Hwf Hok H.
  - cbn in H. inversion H; subst. split; [apply PROTO_init | reflexivity].
  - apply Forall_app in Hwf. destruct Hwf as [Hwf1 Hwf2]. destruct (ops_ok_snoc _ _ _ Hok) as [Hok1 Hok2].
    destruct (run_app _ _ _ _ _ H) as (s1 & o1 & o2 & H1 & H2 & ->). cbn [run] in H2. apply bind_ok in H2. destruct H2 as ([s2 o3] & Hs & H2). cbn in H2. inversion H2; subst s2 o2. clear H2.
    destruct (IH reserve maxfill s1 o1 Hwf1 Hok1 H1) as [HP1 Hf1].
    pose proof (reachable_INV _ _ _ _ _ Hwf1 Hf1 H1) as HI1.
    pose proof (reachable_PW _ _ _ _ _ H1) as HPW1.
    destruct (reachable_MNE_RWA_MNOK _ _ _ _ _ Hwf1 Hf1 H1) as (_ & HR1 & _).
    assert (Hsf : step_fresh s1 o = true) by (apply PROTO_implies_step_fresh; [exact HP1 | apply INV_UH; exact HI1]).
    split.
    + eapply step_PROTO; [exact HI1 | exact HPW1 | exact HR1 | exact HP1 | eapply Hok2; exact H1 | exact Hs].
    + rewrite (run_fresh_snoc _ _ _ _ _ H1 Hf1), Hsf. destruct (step s1 o); reflexivity.
Qed.

(** The hypothesis [run_fresh] of [reachable_INV] can be replaced by [ops_ok]. *)
Corollary reachable_INV_ops ops reserve maxfill s outs :
  Forall op_wf ops -> ops_ok (init_sys reserve maxfill) ops = true -> run (init_sys reserve maxfill) ops = Ok (s, outs) -> INV s.
Proof.
  intros Hwf Hok H. destruct (reachable_PROTO ops reserve maxfill s outs Hwf Hok H) as [_ Hf]. eapply reachable_INV; eassumption.
Qed.

(** * The pay-off in reachable form *)
Theorem worker_process_never_panics ops reserve maxfill s outs o :
  Forall op_wf ops -> ops_ok (init_sys reserve maxfill) ops = true -> run (init_sys reserve maxfill) ops = Ok (s, outs) ->
  worker_op o -> is_panic (step s o) = false.
Proof.
  intros Hwf Hok H Hw. apply worker_process_never_panics_PROTO; [|exact Hw]. exact (proj1 (reachable_PROTO ops reserve maxfill s outs Hwf Hok H)).
Qed.

Theorem worker_messages_consistent_reachable ops reserve maxfill s outs w n :
  Forall op_wf ops -> ops_ok (init_sys reserve maxfill) ops = true -> run (init_sys reserve maxfill) ops = Ok (s, outs) ->
  step s (OpDUp w) = Panic n -> ~ In n cons_sites.
Proof.
  intros Hwf Hok H Hp. destruct (reachable_PROTO ops reserve maxfill s outs Hwf Hok H) as [HP Hf].
  pose proof (worker_messages_consistent s w n HP (INV_UH _ (reachable_INV _ _ _ _ _ Hwf Hf H)) Hp) as Hn. unfold nocons in Hn.
  intros Hin. assert (X : n_mem n cons_sites = true).
  { clear -Hin. induction cons_sites as [|h t IH]; [destruct Hin|]. cbn [n_mem]. destruct Hin as [->|Hin]; [rewrite N.eqb_refl; reflexivity | rewrite (IH Hin); apply orb_true_r]. }
  congruence.
Qed.
