(** Worker registration / loss, new tasks, one scheduling round (create_task_mapping +
    process_proactive_filling + send_messages), and the client request handlers. *)
From HQ Require Import Base.Prelude Cluster.Types Cluster.Core Cluster.Reactor.
From Coq Require Import ZArith.
Local Open Scope N_scope.

(** * [on_new_worker] + registration (server/rpc.rs worker_rpc_loop) *)
Definition new_proc (w : wid) (rs : list N) (rqs : list rqdef) : wproc :=
  mkWP w [] [] [] [] rs rs [] [] [] rqs [] [].

Definition on_new_worker (s : st) (rs : list N) (group : N) : res st :=
  let c := core_of s in
  let w := c_wcounter c + 1 in
  let c1 := with_wcounter c w in
  let s1 := broadcast (st_core s c1) (DNewWorker w) in
  let s2 := emit s1 (OEv (EvWConn w)) in
  let s3 := ask_scheduling s2 in
  let c3 := core_of s3 in
  let wk := mkSW w (Sn [] [] rs) rs [] group false in
  let c4 := upd_worker c3 wk in
  let s4 := st_core s3 c4 in
  Ok (emit (with_procs (fst s4) (set_proc (s_procs (fst s4)) (new_proc w rs (c_rqs c4))), snd s4) (ONewWorker w)).

(** [LostWorkerReason::is_failure]: ConnectionLost (1) | HeartbeatLost (2) *)
Definition reason_is_failure (r : N) : bool := N.eqb r 1 || N.eqb r 2.

(** [Task::increment_crash_counter] *)
Definition increment_crash_counter (t : task) : task * bool :=
  let t' := with_crash t (t_crash t + 1) in
  (t', match t_climit t with
       | CNever => true
       | CMax n => N.leb n (t_crash t')
       | CUnl => false
       end).

(** The pieces of [on_remove_worker]. *)

(** The lost worker's prefilled tasks: new instance id, Waiting, moved back to the ready queue. *)
Fixpoint lost_prefilled (c : core) (l : list tid) : res core :=
  match l with
  | [] => Ok c
  | id :: l' =>
      do t <- get_task (c_tasks c) id;
      let t' := with_state (with_inst t (t_inst t + 1)) (Waiting 0) in
      do q <- nth_queue (c_queues c) (N.to_nat (t_rq t));
      do q' <- q_move_prefilled_to_ready q id;
      lost_prefilled (with_queues (upd_task c t') (set_queue (c_queues c) (N.to_nat (t_rq t)) q')) l'
  end.

(** The lost worker's assigned tasks: running ones are remembered, redirects towards the lost
    worker are dropped, everything is re-queued with a new instance id. *)
Fixpoint lost_assigned (c : core) (l : list tid) (running retracted : list tid) : res (core * list tid * list tid) :=
  match l with
  | [] => Ok (c, running, retracted)
  | id :: l' =>
      do t <- get_task (c_tasks c) id;
      do (r1 : core * task * list tid) <-
        match t_state t with
        | Running _ _ => Ok (c, with_state t (Waiting 0), running ++ [id])
        | Retracting _ =>
            match find_redirect (c_redirects c) id with
            | Some _ => Ok (with_redirects c (del_redirect (c_redirects c) id), t, running)
            | None => Panic 185      (* assert!(redirects.remove(task_id).is_some()) *)
            end
        | _ => Ok (c, with_state t (Waiting 0), running)
        end;
      let '(c1, t1, running1) := r1 in
      let t2 := with_inst t1 (t_inst t1 + 1) in
      let c2 := upd_task c1 t2 in
      do (qs, ret) <- add_ready_task (c_queues c2) t2;
      lost_assigned (with_queues c2 qs) l' running1 (retracted ++ ret)
  end.

(** Every task still being retracted from the lost worker (iteration over the whole task map). *)
Fixpoint lost_retracting (s : st) (w : wid) (l : list tid) : res st :=
  match l with
  | [] => Ok s
  | id :: l' =>
      do t <- get_task (c_tasks (core_of s)) id;
      match t_state t with
      | Retracting w1 =>
          if N.eqb w w1 then
            let c := core_of s in
            (* after the fix: a new instance id, the lost worker may have started it *)
            let t := with_inst t (t_inst t + 1) in
            match find_redirect (c_redirects c) id with
            | Some (target, rv) =>
                let t' := with_state t (Assigned target rv) in
                let c' := upd_task (with_redirects c (del_redirect (c_redirects c) id)) t' in
                do s' <- send_worker (st_core s c') target (DCompute [ctask_of t' (Some rv) []]);
                lost_retracting s' w l'
            | None => lost_retracting (st_core s (upd_task c (with_state t (Waiting 0)))) w l'
            end
          else lost_retracting s w l'
      | _ => lost_retracting s w l'
      end
  end.

(** Crash-limit handling of the tasks that were running on the lost worker. *)
Fixpoint lost_fail_running (s : st) (reason : N) (l : list tid) : res st :=
  match l with
  | [] => Ok s
  | id :: l' =>
      match find_task (c_tasks (core_of s)) id with
      | None => lost_fail_running s reason l'
      | Some t =>
          match t_climit t with
          | CNever => do s' <- task_failed s None id FNeverRestart; lost_fail_running s' reason l'
          | _ =>
              if reason_is_failure reason then
                let '(t', limit) := increment_crash_counter t in
                let s1 := st_core s (upd_task (core_of s) t') in
                if limit then do s' <- task_failed s1 None id FCrashLimit; lost_fail_running s' reason l'
                else lost_fail_running s1 reason l'
              else lost_fail_running s reason l'
          end
      end
  end.

(** [on_remove_worker]; [a_order] / [p_order] = hash-iteration order of the lost worker's assigned
    and prefilled sets, [t_order] = iteration order of the task map (all three are witnesses). *)
Definition on_remove_worker (s : st) (w : wid) (reason : N) (a_order p_order t_order : list tid) : res st :=
  let c := core_of s in
  match find_worker (c_workers c) w with
  | None => Panic 120
  | Some wk =>
      (* the worker process and its channels are gone (CommSender::remove_worker) *)
      let s0 : st := (with_procs (fst s) (del_proc (s_procs (fst s)) w), snd s) in
      let c0 := with_workers c (del_worker (c_workers c) w) in
      do r <-
        match w_assign wk with
        | Sn a p _ =>
            if negb (perm_of_set a_order a && perm_of_set p_order p) then Disabled
            else
              do c1 <- lost_prefilled c0 p_order;
              lost_assigned c1 a_order [] []
        | Mn mt root =>
            do t <- get_task (c_tasks c0) mt;
            match t_state t with
            | RunningMN ws =>
                match ws with
                | w0 :: rest =>
                    if N.eqb w w0 then
                      do c1 <- reset_mn_all c0 rest;
                      let t2 := with_inst (with_state t (Waiting 0)) (t_inst t + 1) in
                      let c2 := upd_task c1 t2 in
                      do (qs, ret) <- add_ready_task (c_queues c2) t2;
                      Ok (with_queues c2 qs, [mt], ret)
                    else
                      Ok (upd_task c0 (with_state t (RunningMN (filter (fun x => negb (N.eqb x w)) ws))), [], [])
                | [] => Panic 186
                end
            | _ => Panic 187      (* unreachable!() *)
            end
        end;
      let '(c2, running, retracted) := r in
      if negb (perm_of_set t_order (map t_id (c_tasks c2))) then Disabled
      else
      do s3 <- lost_retracting (st_core s0 c2) w t_order;
      do s4 <- process_retracted s3 retracted;
      let s5 := broadcast s4 (DLostWorker w) in
      do s6 <- process_worker_lost s5 w running reason;
      do s7 <- lost_fail_running s6 reason running;
      Ok (ask_scheduling s7)
  end.

(** * [on_new_tasks] (+ [handle_new_tasks]); tasks arrive with state Waiting 0 and their raw deps. *)
Fixpoint register_deps (c : core) (id : tid) (deps : list tid) (kept : list tid) (count : N) : core * list tid * N :=
  match deps with
  | [] => (c, kept, count)
  | d :: r =>
      match find_task (c_tasks c) d with
      | Some dep =>
          let c' := upd_task c (with_consumers dep (tid_insert id (t_consumers dep))) in
          register_deps c' id r (kept ++ [d]) (if is_finished dep then count else count + 1)
      | None => register_deps c id r kept count
      end
  end.

Fixpoint add_new_tasks (c : core) (ts : list task) (retracted : list tid) : res (core * list tid) :=
  match ts with
  | [] => Ok (c, retracted)
  | t :: r =>
      let '(c1, kept, count) := register_deps c (t_id t) (t_deps t) [] 0 in
      let t1 := with_state (with_deps t kept) (Waiting count) in
      do (c2, ret) <-
        (if N.eqb count 0 then
           do (qs, ret) <- add_ready_task (c_queues c1) t1; Ok (with_queues c1 qs, ret)
         else Ok (c1, []));
      match find_task (c_tasks c2) (t_id t) with
      | Some _ => Panic 231       (* assert!(self.tasks.insert(task).is_none()) *)
      | None => add_new_tasks (upd_task c2 t1) r (retracted ++ ret)
      end
  end.

Definition on_new_tasks (s : st) (ts : list task) : res st :=
  match ts with
  | [] => Ok s           (* handle_new_tasks returns early *)
  | _ =>
      do (c', retracted) <- add_new_tasks (core_of s) ts [];
      do s' <- process_retracted (st_core s c') retracted;
      Ok (ask_scheduling s')
  end.

(** * One scheduling round *)

(** The solver's answer (witness): per (rq, variant) the workers with their counts, in the
    iteration order of the solution map; multi-node placements likewise. *)
Record solution := mkSol {
  sol_sn : list (N * N * list (wid * N));
  sol_mn : list (N * N * list (list wid));
  sol_workers : list wid;                 (* iteration order of the worker map *)
  sol_prefill : list (N * list tid)       (* iteration order of each queue's prefill set *)
}.

(** Per-worker result of the mapping ([WorkerTaskUpdate]). *)
Record wupd := mkWU { wu_w : wid; wu_assigned : list (tid * N); wu_prefills : list tid; wu_retracts : list tid }.
Fixpoint wu_get (m : list wupd) (w : wid) : wupd :=
  match m with [] => mkWU w [] [] [] | h :: t => if N.eqb w (wu_w h) then h else wu_get t w end.
Fixpoint wu_set (m : list wupd) (x : wupd) : list wupd :=
  match m with [] => [x] | h :: t => if N.eqb (wu_w x) (wu_w h) then x :: t else h :: wu_set t x end.

Definition pf_order_of (sol : solution) (rq : N) : list tid :=
  match find (fun kv => N.eqb (fst kv) rq) (sol_prefill sol) with Some kv => snd kv | None => [] end.

(** Assign one task taken from the queue to worker [w] (body of the round-robin loop). *)
Definition map_one (c : core) (m : list wupd) (id : tid) (w : wid) (v : N) (rqres : list N) : res (core * list wupd) :=
  do wk <- get_worker (c_workers c) w;
  do wk' <- insert_sn_task wk id rqres;
  let c0 := upd_worker c wk' in
  do t <- get_task (c_tasks c0) id;
  match t_state t with
  | Waiting _ =>
      let u := wu_get m w in
      Ok (upd_task c0 (with_state t (Assigned w v)), wu_set m (mkWU w (wu_assigned u ++ [(id, v)]) (wu_prefills u) (wu_retracts u)))
  | Retracting old =>
      (* after the fix the redirect is recorded also for old = w *)
      let c1 := with_redirects c0 (set_redirect (c_redirects c0) id (w, v)) in
      match find_redirect (c_redirects c0) id with
      | Some (old_target, v_old) =>
          do wo <- get_worker (c_workers c1) old_target;
          do rq <- get_rq (c_rqs c1) (t_rq t);
          do wo' <- remove_sn_task wo id (rq_res rq);
          Ok (upd_worker c1 wo', m)
      | None => Ok (c1, m)
      end
  | Prefilled old =>
      match find_worker (c_workers c0) old with
      | None => Panic 188        (* worker_map.get_mut(old_worker_id).unwrap() *)
      | Some wo =>
          do wo' <- remove_prefill_task wo id;
          let c1 := upd_worker c0 wo' in
          let u := wu_get m old in
          let m' := wu_set m (mkWU old (wu_assigned u) (wu_prefills u) (wu_retracts u ++ [id])) in
          match find_redirect (c_redirects c1) id with
          | Some _ => Panic 189     (* assert!(redirects.insert(..).is_none()) *)
          | None =>
              Ok (upd_task (with_redirects c1 (set_redirect (c_redirects c1) id (w, v))) (with_state t (Retracting old)), m')
          end
      end
  | _ => Panic 181            (* unreachable!() *)
  end.

(** The round-robin distribution: one pass over [counts] hands one task to every worker with a
    positive count; passes repeat until all taken tasks are placed. *)
Fixpoint rr_pass (c : core) (m : list wupd) (counts : list (wid * N)) (tasks : list tid) (v : N) (rqres : list N)
  : res (core * list wupd * list (wid * N) * list tid) :=
  match counts, tasks with
  | _, [] => Ok (c, m, counts, [])
  | [], _ => Ok (c, m, [], tasks)
  | (w, n) :: r, id :: tl =>
      if N.ltb 0 n then
        do (c1, m1) <- map_one c m id w v rqres;
        do (c2, m2, r', tl') <- rr_pass c1 m1 r tl v rqres;
        Ok (c2, m2, (w, n - 1) :: r', tl')
      else
        do (c2, m2, r', tl') <- rr_pass c m r tasks v rqres;
        Ok (c2, m2, (w, n) :: r', tl')
  end.
Fixpoint rr_loop (fuel : nat) (c : core) (m : list wupd) (counts : list (wid * N)) (tasks : list tid) (v : N) (rqres : list N)
  : res (core * list wupd) :=
  match tasks with
  | [] => Ok (c, m)
  | _ =>
      match fuel with
      | O => Panic 180           (* the real loop would spin forever *)
      | S k =>
          do (c1, m1, counts1, rest) <- rr_pass c m counts tasks v rqres;
          rr_loop k c1 m1 counts1 rest v rqres
      end
  end.

Fixpoint sum_counts (l : list (wid * N)) : N := match l with [] => 0 | (_, n) :: r => n + sum_counts r end.

Fixpoint map_sn (c : core) (m : list wupd) (sol : solution) (l : list (N * N * list (wid * N))) : res (core * list wupd) :=
  match l with
  | [] => Ok (c, m)
  | (rq, v, counts) :: r =>
      do rqd <- get_rq (c_rqs c) rq;
      let total := sum_counts counts in
      do q <- nth_queue (c_queues c) (N.to_nat rq);
      do (tasks, q') <- q_take_tasks q total (pf_order_of sol rq);
      let c1 := with_queues c (set_queue (c_queues c) (N.to_nat rq) q') in
      do (c2, m2) <- rr_loop (S (length tasks)) c1 m counts tasks v (rq_res rqd);
      map_sn c2 m2 sol r
  end.

(** Stable sort of the assigned list by descending priority. *)
Fixpoint insert_by_prio (c : core) (x : tid * N) (l : list (tid * N)) : list (tid * N) :=
  let pr (y : tid * N) := match find_task (c_tasks c) (fst y) with Some t => t_prio t | None => 0%Z end in
  match l with
  | [] => [x]
  | h :: t => if Z.ltb (pr h) (pr x) then x :: l else h :: insert_by_prio c x t
  end.
Definition sort_assigned (c : core) (l : list (tid * N)) : list (tid * N) :=
  fold_left (fun acc x => insert_by_prio c x acc) l [].

Fixpoint set_mn_workers (c : core) (id : tid) (l : list wid) (first : bool) : res core :=
  match l with
  | [] => Ok c
  | w :: l' =>
      do wk <- get_worker (c_workers c) w;
      do wk' <- set_mn_task wk id first;
      set_mn_workers (upd_worker c wk') id l' false
  end.

Fixpoint map_mn_sets (c : core) (rq : N) (mn : list tid) (sets : list (list wid)) : res (core * list tid) :=
  match sets with
  | [] => Ok (c, mn)
  | ws :: rest =>
      do q <- nth_queue (c_queues c) (N.to_nat rq);
      match q_take_one q with
      | None => Panic 182
      | Some (id, q') =>
          let c1 := with_queues c (set_queue (c_queues c) (N.to_nat rq) q') in
          do c2 <- set_mn_workers c1 id ws true;
          do t <- get_task (c_tasks c2) id;
          match t_state t with
          | Waiting 0 => map_mn_sets (upd_task c2 (with_state t (RunningMN ws))) rq (mn ++ [id]) rest
          | _ => Panic 183
          end
      end
  end.

Fixpoint map_mn (c : core) (mn : list tid) (l : list (N * N * list (list wid))) : res (core * list tid) :=
  match l with
  | [] => Ok (c, mn)
  | (rq, _, sets) :: r =>
      do (c', mn') <- map_mn_sets c rq mn sets;
      map_mn c' mn' r
  end.

(** [process_proactive_filling] *)
Fixpoint prefill_mark (c : core) (w : wid) (l : list tid) : res core :=
  match l with
  | [] => Ok c
  | id :: l' =>
      do t <- get_task (c_tasks c) id;
      if negb (is_waiting t) then Panic 184
      else
        do wk <- get_worker (c_workers c) w;
        do wk' <- insert_prefill_task wk id;
        prefill_mark (upd_worker (upd_task c (with_state t (Prefilled w))) wk') w l'
  end.

Fixpoint prefill_workers (c : core) (m : list wupd) (qi : nat) (psize : N) (ws : list wid) : res (core * list wupd) :=
  match ws with
  | [] => Ok (c, m)
  | w :: rest =>
      do q <- nth_queue (c_queues c) qi;
      do (ids, q') <- q_take_tasks_for_prefill q psize;
      let c1 := with_queues c (set_queue (c_queues c) qi q') in
      do c2 <- prefill_mark c1 w ids;
      let u := wu_get m w in
      prefill_workers c2 (wu_set m (mkWU w (wu_assigned u) (wu_prefills u ++ ids) (wu_retracts u))) qi psize rest
  end.

Fixpoint prefill_queues (c : core) (m : list wupd) (worder : list wid) (qi : nat) (n : nat) (top : Z) : res (core * list wupd) :=
  match n with
  | O => Ok (c, m)
  | S k =>
      do q <- nth_queue (c_queues c) qi;
      let skip := prefill_queues c m worder (S qi) k top in
      match q_top_priority q with
      | None => skip
      | Some tp =>
          if negb (Z.eqb tp top) then skip
          else
            let size := q_top_size_no_prefill q - c_reserve c in
            if N.eqb size 0 then skip
            else if existsb (fun id => match find_task (c_tasks c) id with Some t => negb (is_waiting t) | None => true end) (q_top_task_ids q) then
              (* task_map.get_task panics on an unknown id *)
              if forallb (fun id => match find_task (c_tasks c) id with Some _ => true | None => false end) (q_top_task_ids q)
              then skip else Panic 121
            else
              let rqi := N.of_nat qi in
              let eligible (w : wid) : bool :=
                  match find_worker (c_workers c) w with
                  | Some wk =>
                      match w_assign wk with
                      | Sn _ p _ =>
                          existsb (fun a => match find_task (c_tasks c) (fst a) with Some t => N.eqb (t_rq t) rqi | None => false end)
                                  (wu_assigned (wu_get m w))
                          && negb (existsb (fun id => match find_task (c_tasks c) id with Some t => N.eqb (t_rq t) rqi | None => false end) p)
                      | Mn _ _ => false
                      end
                  | None => false
                  end in
              let ws := filter eligible worder in
              match ws with
              | [] => skip
              | _ =>
                  let psize := N.min (size / N.of_nat (length ws)) (c_maxfill c) in
                  if N.eqb psize 0 then skip
                  else
                    do (c', m') <- prefill_workers c m qi psize ws;
                    prefill_queues c' m' worder (S qi) k top
              end
      end
  end.

(** [WorkerTaskMapping::send_messages] *)
Fixpoint ctasks_prefill (c : core) (l : list tid) : res (list ctask) :=
  match l with
  | [] => Ok []
  | id :: l' => do t <- get_task (c_tasks c) id; do rest <- ctasks_prefill c l'; Ok (ctask_of t None [] :: rest)
  end.

Fixpoint send_mapping (s : st) (m : list wupd) : res st :=
  match m with
  | [] => Ok s
  | u :: r =>
      do s1 <- (match wu_retracts u with [] => Ok s | ids => send_worker s (wu_w u) (DRetract ids) end);
      do cts1 <- ctasks_prefill (core_of s1) (wu_prefills u);
      do cts2 <- ctasks_of (core_of s1) (wu_assigned u);
      do s2 <- (match cts1 ++ cts2 with [] => Ok s1 | cts => send_worker s1 (wu_w u) (DCompute cts) end);
      send_mapping s2 r
  end.

Fixpoint send_mn (s : st) (l : list tid) : res st :=
  match l with
  | [] => Ok s
  | id :: l' =>
      do t <- get_task (c_tasks (core_of s)) id;
      match t_state t with
      | RunningMN (w0 :: ws) =>
          do s' <- send_worker s w0 (DCompute [ctask_of t (Some 0) (w0 :: ws)]);
          send_mn s' l'
      | _ => Panic 166
      end
  end.

Definition run_scheduling (s : st) (sol : solution) : res st :=
  let c := core_of s in
  if negb (perm_of_set (map (fun w => (w, 0)) (sol_workers sol)) (map (fun w => (w_id w, 0)) (c_workers c))) then Disabled
  else
  do (c1, m1) <- map_sn c [] sol (sol_sn sol);
  let m2 := map (fun u => mkWU (wu_w u) (sort_assigned c1 (wu_assigned u)) (wu_prefills u) (wu_retracts u)) m1 in
  do (c2, mn) <- map_mn c1 [] (sol_mn sol);
  do (c3, m3) <-
    match queues_top_priority (c_queues c2) with
    | None => Ok (c2, m2)
    | Some top => prefill_queues c2 m2 (sol_workers sol) 0 (length (c_queues c2)) top
    end;
  do s1 <- send_mapping (st_core s c3) m3;
  do s2 <- send_mn s1 mn;
  Ok (st_core s2 (with_flag (core_of s2) false)).

(** * Client requests *)

(** [get_or_create_resource_rq_id] *)
Definition rq_eqb (a b : rqdef) : bool :=
  N.eqb (rq_nodes a) (rq_nodes b)
  && (fix eq (x y : list N) := match x, y with
                               | [], [] => true
                               | h :: t, h' :: t' => N.eqb h h' && eq t t'
                               | _, _ => false
                               end) (rq_res a) (rq_res b).
Fixpoint rq_index (rqs : list rqdef) (r : rqdef) (i : N) : option N :=
  match rqs with [] => None | h :: t => if rq_eqb h r then Some i else rq_index t r (i + 1) end.
Definition get_or_create_rq (s : st) (r : rqdef) : st * N :=
  let c := core_of s in
  match rq_index (c_rqs c) r 0 with
  | Some i => (s, i)
  | None =>
      let i := N.of_nat (length (c_rqs c)) in
      let s1 := broadcast s (DNewRq i r) in
      (st_core s1 (with_rqs (core_of s1) (c_rqs c ++ [r]) (c_queues c ++ [empty_queue])), i)
  end.

(** A task as built by [build_tasks_array] / [build_tasks_graph] + [handle_new_tasks]. *)
Definition fresh_task (id : tid) (deps : list tid) (rq : N) (prio : Z) (cl : crashlimit) (tlim : bool) : task :=
  mkTask id (Waiting 0) deps [] rq prio 0 0 cl tlim.

Fixpoint max_task_id (l : list (N * jstate)) : option N :=
  match l with [] => None | [(k, _)] => Some k | _ :: t => max_task_id t end.

Fixpoint range_from (start : N) (n : nat) : list N :=
  match n with O => [] | S k => start :: range_from (start + 1) k end.

Fixpoint attach_ids (j : job) (ids : list N) : res job :=
  match ids with
  | [] => Ok j
  | i :: r =>
      match jt_find (j_tasks j) i with
      | Some _ => Panic 220       (* assert!(self.tasks.insert(..).is_none()) *)
      | None => attach_ids (job_set_task j i JW) r
      end
  end.

Definition hq_counter (s : st) : N := h_counter (s_hq (fst s)).
Definition hq_jobs (s : st) : list job := h_jobs (s_hq (fst s)).
Definition hq_with (s : st) (js : list job) (cnt : N) : st := (with_hq (fst s) (mkHq js cnt), snd s).

Definition submit_ok_resp (s : st) (jid : N) : res st :=
  do j <- hq_get_job s jid 221;
  Ok (emit s (OResp (RSubmitOk jid (job_n_tasks j) (map fst (j_tasks j))))).

(** [handle_submit] for an array: [ids] = explicit sorted ids or [] (auto), [entries] = number of
    entries if any. *)
Definition handle_submit_array (s : st) (jobsel : option N) (ids : list N) (entries : option N)
           (rq : rqdef) (prio : Z) (cl : crashlimit) (tlim : bool) (maxfails : option N) : res st :=
  let existing := match jobsel with Some j => find_job (hq_jobs s) j | None => None end in
  (* validate_submit *)
  match (match existing with
         | Some j => find (fun i => match jt_find (j_tasks j) i with Some _ => true | None => false end) ids
         | None => None
         end) with
  | Some dup => Ok (emit s (OResp (RSubmitErr 2 dup)))
  | None =>
      do r <-
        match jobsel with
        | Some jid =>
            match existing with
            | None => Ok (None, s)
            | Some j =>
                if negb (j_open j) then Ok (None, emit s (OResp (RSubmitErr 0 0)))
                else
                  let ids' := match ids with
                              | [] =>
                                  let new_id := match max_task_id (j_tasks j) with Some m => m + 1 | None => 0 end in
                                  match entries with
                                  | Some n => range_from new_id (N.to_nat n)
                                  | None => [new_id]
                                  end
                              | _ => ids
                              end in
                  Ok (Some (jid, false, ids'), s)
            end
        | None =>
            let ids' := match ids with
                        | [] => match entries with Some n => range_from 0 (N.to_nat n) | None => [0] end
                        | _ => ids
                        end in
            let jid := hq_counter s in
            Ok (Some (jid, true, ids'), hq_with s (hq_jobs s) (jid + 1))
        end;
      match r with
      | (None, s') =>
          match jobsel, existing with
          | Some _, None => Ok (emit s' (OResp (RSubmitErr 1 0)))
          | _, _ => Ok s'
          end
      | (Some (jid, is_new, ids'), s1) =>
          let s2 := emit s1 (OEv (EvSubmit jid is_new (N.of_nat (length ids')))) in
          let s3 := if is_new then hq_with s2 (set_job (hq_jobs s2) (mkJob jid false [] 0 0 0 0 0 false maxfails)) (hq_counter s2) else s2 in
          let '(s4, rqi) := get_or_create_rq s3 rq in
          do j <- hq_get_job s4 jid 222;
          do j' <- attach_ids j ids';
          let s5 := hq_set_job s4 j' in
          (* build_tasks_array zips the ids with the entries *)
          let tids := match entries with
                      | Some n => fst (take_n (N.to_nat n) ids')
                      | None => ids'
                      end in
          do s6 <- on_new_tasks s5 (map (fun i => fresh_task (jid, i) [] rqi prio cl tlim) tids);
          submit_ok_resp s6 jid
      end
  end.

(** [handle_submit] for a task graph: tasks = (id, local rq index, priority, crash limit, deps). *)
Definition gtask := (N * N * Z * crashlimit * list N)%type.
Definition gt_id (g : gtask) : N := fst (fst (fst (fst g))).
Definition gt_rq (g : gtask) : N := snd (fst (fst (fst g))).
Definition gt_prio (g : gtask) : Z := snd (fst (fst g)).
Definition gt_cl (g : gtask) : crashlimit := snd (fst g).
Definition gt_deps (g : gtask) : list N := snd g.

Fixpoint validate_graph (job_tasks : list (N * jstate)) (seen : list N) (ts : list gtask) : option resp :=
  match ts with
  | [] => None
  | g :: r =>
      if n_mem (gt_id g) seen then Some (RSubmitErr 3 (gt_id g))
      else
        let seen' := gt_id g :: seen in
        match find (fun d => N.eqb d (gt_id g)
                             || (negb (n_mem d seen') && match jt_find job_tasks d with Some _ => false | None => true end))
                   (gt_deps g) with
        | Some d => Some (RSubmitErr 4 d)
        | None => validate_graph job_tasks seen' r
        end
  end.

Fixpoint dedup_sorted (l : list N) (acc : list tid) (j : N) : list tid :=
  match l with [] => acc | h :: t => dedup_sorted t (tid_insert (j, h) acc) j end.

Fixpoint graph_ids_fresh (j : job) (n_rqs : nat) (l : list gtask) : res (option resp) :=
  match l with
  | [] => Ok None
  | g :: r =>
      match jt_find (j_tasks j) (gt_id g) with
      | Some _ => Ok (Some (RSubmitErr 2 (gt_id g)))
      | None => if N.ltb (gt_rq g) (N.of_nat n_rqs) then graph_ids_fresh j n_rqs r else Panic 223
      end
  end.

Fixpoint graph_tasks (jid : N) (rqis : list N) (l : list gtask) : res (list task) :=
  match l with
  | [] => Ok []
  | g :: r =>
      match nth_error rqis (N.to_nat (gt_rq g)) with
      | None => Panic 224      (* resources[task.resource_rq_id] *)
      | Some rqi =>
          do rest <- graph_tasks jid rqis r;
          Ok (fresh_task (jid, gt_id g) (dedup_sorted (gt_deps g) [] jid) rqi (gt_prio g) (gt_cl g) false :: rest)
      end
  end.

Definition handle_submit_graph (s : st) (jobsel : option N) (rqs : list rqdef) (ts : list gtask) (maxfails : option N) : res st :=
  let existing := match jobsel with Some j => find_job (hq_jobs s) j | None => None end in
  let job_tasks := match existing with Some j => j_tasks j | None => [] end in
  do v1 <- match existing with Some j => graph_ids_fresh j (length rqs) ts | None => Ok None end;
  match (match v1 with Some e => Some e | None => validate_graph job_tasks [] ts end) with
  | Some e => Ok (emit s (OResp e))
  | None =>
      do r <-
        match jobsel with
        | Some jid =>
            match existing with
            | None => Ok (None, emit s (OResp (RSubmitErr 1 0)))
            | Some j => if negb (j_open j) then Ok (None, emit s (OResp (RSubmitErr 0 0))) else Ok (Some (jid, false), s)
            end
        | None => let jid := hq_counter s in Ok (Some (jid, true), hq_with s (hq_jobs s) (jid + 1))
        end;
      match r with
      | (None, s') => Ok s'
      | (Some (jid, is_new), s1) =>
          let s2 := emit s1 (OEv (EvSubmit jid is_new (N.of_nat (length ts)))) in
          let s3 := if is_new then hq_with s2 (set_job (hq_jobs s2) (mkJob jid false [] 0 0 0 0 0 false maxfails)) (hq_counter s2) else s2 in
          let '(s4, rqis) := fold_left (fun acc r => let '(s, l) := acc in let '(s', i) := get_or_create_rq s r in (s', l ++ [i])) rqs (s3, []) in
          do j <- hq_get_job s4 jid 222;
          do j' <- attach_ids j (map gt_id ts);
          let s5 := hq_set_job s4 j' in
          do tasks <- graph_tasks jid rqis ts;
          do s6 <- on_new_tasks s5 tasks;
          submit_ok_resp s6 jid
      end
  end.

(** [handle_open_job] *)
Definition handle_open (s : st) (maxfails : option N) : res st :=
  let jid := hq_counter s in
  let s1 := hq_with s (set_job (hq_jobs s) (mkJob jid true [] 0 0 0 0 0 false maxfails)) (jid + 1) in
  Ok (emit (emit s1 (OEv (EvOpen jid))) (OResp (ROpen jid))).

(** [handle_job_close] *)
Definition handle_close (s : st) (jid : N) : res st :=
  match find_job (hq_jobs s) jid with
  | None => Ok (emit s (OResp (RClose 1)))
  | Some j =>
      if j_open j then
        let j' := mkJob (j_id j) false (j_tasks j) (j_nrun j) (j_nfin j) (j_nfail j) (j_ncanc j) (j_nabort j) (j_completed j) (j_maxfails j) in
        do s1 <- check_termination (emit (hq_set_job s j') (OEv (EvClose jid))) jid;
        Ok (emit s1 (OResp (RClose 0)))
      else Ok (emit s (OResp (RClose 2)))
  end.

(** [cancel_job] *)
Definition handle_cancel (s : st) (jid : N) : res st :=
  match find_job (hq_jobs s) jid with
  | None => Ok (emit s (OResp RCancelInvalid))
  | Some j =>
      let ids := non_finished_task_ids j in
      match ids with
      | [] => Ok (emit s (OResp (RCancelOk [] (job_n_tasks j))))
      | _ =>
          do s1 <- on_cancel_tasks s ids;
          do already <- csub (job_n_tasks j) (N.of_nat (length ids)) 225;
          do s2 <- set_cancel_state s1 jid ids;
          Ok (emit s2 (OResp (RCancelOk (map snd ids) already)))
      end
  end.

(** [handle_prune_journal]: the jobs that are not terminated ([!is_open() && has_no_active_tasks()],
    short-circuit) and the connected workers are what the journal keeps. *)
Fixpoint live_jobs (js : list job) : res (list N) :=
  match js with
  | [] => Ok []
  | j :: r =>
      do term <- (if j_open j then Ok false else has_no_active_tasks j);
      do rest <- live_jobs r;
      Ok (if term then rest else j_id j :: rest)
  end.

(** [handle_job_forget] (every terminal status is allowed by the filter the harness sends) *)
Definition handle_forget (s : st) (jid : N) : res st :=
  match find_job (hq_jobs s) jid with
  | None => Ok (emit s (OResp (RForget 0 1)))
  | Some j =>
      do na <- has_no_active_tasks j;
      if negb (j_open j) && na then
        Ok (emit (hq_with s (del_job (hq_jobs s) jid) (hq_counter s)) (OResp (RForget 1 0)))
      else Ok (emit s (OResp (RForget 0 1)))
  end.
