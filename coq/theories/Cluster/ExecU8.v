(** C06 "instance ids strictly increase", part 8: the states of the tasks across a scheduling round
    ([SR]: unchanged, or the task was waiting, or a prefilled task is being retracted). *)
From HQ Require Import Base.Prelude Cluster.Types Cluster.Core Cluster.Reactor Cluster.Worker Cluster.Server Cluster.Sys Cluster.ProofsJob Cluster.ProofsMore Cluster.ProofsStep Cluster.BijBase Cluster.BijCore Cluster.BijHq Cluster.BijSt Cluster.BijReact Cluster.InvWBase Cluster.InvWX1 Cluster.InvWX2.
From Coq Require Import ZArith Lia Sorting.Sorted.
Local Open Scope N_scope.

Arguments N.add : simpl never.
Arguments N.sub : simpl never.

Definition srel (t t' : task) : Prop :=
  t_state t' = t_state t \/ is_waiting t = true \/ exists w, t_state t = Prefilled w /\ t_state t' = Retracting w.
Definition SR (c c' : core) : Prop :=
  forall t', In t' (c_tasks c') -> exists t, In t (c_tasks c) /\ t_id t = t_id t' /\ srel t t'.

Lemma SR_refl c : SR c c.
Proof. intros t H. exists t. repeat split; auto. left. reflexivity. Qed.
Lemma SR_trans c1 c2 c3 : SR c1 c2 -> SR c2 c3 -> SR c1 c3.
Proof.
  intros A B t3 H3. destruct (B t3 H3) as (t2 & H2 & E2 & R2). destruct (A t2 H2) as (t1 & H1 & E1 & R1).
  exists t1. split; [exact H1|]. split; [congruence|]. unfold srel in *. unfold is_waiting in *.
  destruct R1 as [R1|[R1|(w & R1 & R1')]].
  - destruct R2 as [R2|[R2|(w & R2 & R2')]]; [left; congruence | right; left; rewrite <- R1; exact R2 | right; right; exists w; split; congruence].
  - right. left. exact R1.
  - destruct R2 as [R2|[R2|(w2 & R2 & R2')]]; [right; right; exists w; split; congruence | rewrite R1' in R2; discriminate | rewrite R1' in R2; discriminate].
Qed.
Lemma SR_tasks c c' : c_tasks c' = c_tasks c -> SR c c'.
Proof. intros E t H. rewrite E in H. exists t. repeat split; auto. left. reflexivity. Qed.
Lemma SR_set c c' x t : c_tasks c' = set_task (c_tasks c) x -> In t (c_tasks c) -> t_id x = t_id t -> srel t x -> SR c c'.
Proof.
  intros E Hin Ei Hr t' H. rewrite E in H. destruct (set_task_in _ _ _ H) as [->|Hin'].
  - exists t. auto.
  - exists t'. repeat split; auto. left. reflexivity.
Qed.

Ltac sr_set :=
  repeat match goal with H : get_task _ _ = Ok _ |- _ => apply get_task_find in H end;
  match goal with
  | H : find_task _ _ = Some ?t |- SR _ _ =>
      solve [ eapply (SR_set _ _ _ t);
              [ reflexivity | exact (find_in _ _ _ H) | reflexivity
              | unfold srel, is_waiting; cbn [t_state with_state];
                first [ left; reflexivity
                      | right; left; match goal with E : t_state _ = _ |- _ => rewrite E; reflexivity end
                      | right; right; eexists; split; [eassumption | reflexivity] ] ] ]
  end.

(** * Scheduling *)
Lemma map_one_SR c m id w v rqres c' m' : map_one c m id w v rqres = Ok (c', m') -> SR c c'.
Proof.
  intros H. unfold map_one in H.
  apply bind_ok in H. destruct H as (wk & ?X & H). apply bind_ok in H. destruct H as (wk' & ?X & H).
  apply bind_ok in H. destruct H as (t & ?X & H).
  destruct (t_state t) as [n|w1 rv1|old|old|w1 rv1|wsx|] eqn:Est; try discriminate.
  - inversion H; subst. sr_set.
  - destruct (find_worker (c_workers (upd_worker c wk')) old) as [wo|] eqn:Hwo; [|discriminate].
    apply bind_ok in H. destruct H as (wo' & ?X & H).
    destruct (find_redirect _ id); [discriminate|]. inversion H; subst.
    sr_set.
  - destruct (find_redirect _ id) as [[ot vo]|].
    + inv_binds H. inversion H; subst. apply SR_tasks; reflexivity.
    + inversion H; subst. apply SR_tasks; reflexivity.
Qed.

Lemma rr_pass_SR counts : forall c m tasks v rqres c' m' counts' rest,
  rr_pass c m counts tasks v rqres = Ok (c', m', counts', rest) -> SR c c'.
Proof.
  induction counts as [|[w n] r IH]; intros c m tasks v rqres c' m' counts' rest H.
  - destruct tasks; cbn [rr_pass] in H; inversion H; subst; apply SR_refl.
  - destruct tasks as [|id tl]; cbn [rr_pass] in H; [inversion H; subst; apply SR_refl|].
    destruct (N.ltb 0 n).
    + apply bind_ok in H. destruct H as ([c1 m1] & H1 & H).
      apply bind_ok in H. destruct H as ([[[c2 m2] r'] tl'] & H2 & H). inversion H; subst.
      eapply SR_trans; [eapply map_one_SR; exact H1 | eapply IH; exact H2].
    + apply bind_ok in H. destruct H as ([[[c2 m2] r'] tl'] & H2 & H). inversion H; subst. eapply IH; exact H2.
Qed.

Lemma rr_loop_SR fuel : forall c m counts tasks v rqres c' m', rr_loop fuel c m counts tasks v rqres = Ok (c', m') -> SR c c'.
Proof.
  induction fuel as [|k IH]; intros c m counts tasks v rqres c' m' H; destruct tasks as [|id tl]; cbn [rr_loop] in H;
    try (inversion H; subst; apply SR_refl); try discriminate.
  apply bind_ok in H. destruct H as ([[[c1 m1] counts1] rest] & H1 & H).
  eapply SR_trans; [eapply rr_pass_SR; exact H1 | eapply IH; exact H].
Qed.

Lemma map_sn_SR sol l : forall c m c' m', map_sn c m sol l = Ok (c', m') -> SR c c'.
Proof.
  induction l as [|[[rq v] counts] r IH]; cbn [map_sn]; intros c m c' m' H; [inversion H; subst; apply SR_refl|].
  apply bind_ok in H. destruct H as (rqd & ?X & H). apply bind_ok in H. destruct H as (q & ?X & H).
  apply bind_ok in H. destruct H as ([tasks q'] & ?X & H). apply bind_ok in H. destruct H as ([c2 m2] & H2 & H).
  eapply SR_trans; [|eapply IH; exact H]. eapply SR_trans; [|eapply rr_loop_SR; exact H2]. apply SR_tasks; reflexivity.
Qed.

Lemma set_mn_workers_SR l : forall c id first c', set_mn_workers c id l first = Ok c' -> SR c c'.
Proof.
  induction l as [|w r IH]; cbn [set_mn_workers]; intros c id first c' H; [inversion H; subst; apply SR_refl|].
  apply bind_ok in H. destruct H as (wk & ?X & H). apply bind_ok in H. destruct H as (wk' & ?X & H).
  eapply SR_trans; [|eapply IH; exact H]. apply SR_tasks; reflexivity.
Qed.

Lemma map_mn_sets_SR sets : forall c rq mn c' mn', map_mn_sets c rq mn sets = Ok (c', mn') -> SR c c'.
Proof.
  induction sets as [|ws r IH]; cbn [map_mn_sets]; intros c rq mn c' mn' H; [inversion H; subst; apply SR_refl|].
  apply bind_ok in H. destruct H as (q & ?X & H). destruct (q_take_one q) as [[id q']|]; [|discriminate].
  apply bind_ok in H. destruct H as (c2 & H2 & H). apply bind_ok in H. destruct H as (t & Ht & H). apply get_task_find in Ht.
  destruct (t_state t) as [n| | | | | |] eqn:Est; try discriminate. destruct n; [|discriminate].
  eapply SR_trans; [|eapply IH; exact H].
  eapply SR_trans; [apply (SR_tasks c (with_queues c (set_queue (c_queues c) (N.to_nat rq) q'))); reflexivity|].
  eapply SR_trans; [eapply set_mn_workers_SR; exact H2|].
  sr_set.
Qed.

Lemma map_mn_SR l : forall c mn c' mn', map_mn c mn l = Ok (c', mn') -> SR c c'.
Proof.
  induction l as [|[[rq v] sets] r IH]; cbn [map_mn]; intros c mn c' mn' H; [inversion H; subst; apply SR_refl|].
  apply bind_ok in H. destruct H as ([c1 mn1] & H1 & H).
  eapply SR_trans; [eapply map_mn_sets_SR; exact H1 | eapply IH; exact H].
Qed.

Lemma prefill_mark_SR l : forall c w c', prefill_mark c w l = Ok c' -> SR c c'.
Proof.
  induction l as [|id r IH]; cbn [prefill_mark]; intros c w c' H; [inversion H; subst; apply SR_refl|].
  apply bind_ok in H. destruct H as (t & Ht & H). destruct (negb (is_waiting t)) eqn:Ew; [discriminate|]. apply negb_false_iff in Ew.
  apply bind_ok in H. destruct H as (wk & ?X & H). apply bind_ok in H. destruct H as (wk' & ?X & H).
  eapply SR_trans; [|eapply IH; exact H]. apply get_task_find in Ht.
  eapply (SR_set _ _ _ t); [reflexivity | exact (find_in _ _ _ Ht) | reflexivity | right; left; exact Ew].
Qed.

Lemma prefill_workers_SR ws : forall c m qi psize c' m', prefill_workers c m qi psize ws = Ok (c', m') -> SR c c'.
Proof.
  induction ws as [|w r IH]; cbn [prefill_workers]; intros c m qi psize c' m' H; [inversion H; subst; apply SR_refl|].
  apply bind_ok in H. destruct H as (q & ?X & H). apply bind_ok in H. destruct H as ([ids q'] & ?X & H).
  apply bind_ok in H. destruct H as (c2 & H2 & H).
  eapply SR_trans; [|eapply IH; exact H]. eapply SR_trans; [|eapply prefill_mark_SR; exact H2]. apply SR_tasks; reflexivity.
Qed.

Lemma prefill_queues_SR n : forall c m worder qi top c' m', prefill_queues c m worder qi n top = Ok (c', m') -> SR c c'.
Proof.
  induction n as [|k IH]; cbn [prefill_queues]; intros c m worder qi top c' m' H; [inversion H; subst; apply SR_refl|].
  apply bind_ok in H. destruct H as (q & ?X & H).
  destruct (q_top_priority q) as [tp|]; [|eapply IH; exact H].
  destruct (negb (Z.eqb tp top)); [eapply IH; exact H|].
  destruct (N.eqb _ 0); [eapply IH; exact H|].
  destruct (existsb _ (q_top_task_ids q)).
  - destruct (forallb _ (q_top_task_ids q)); [eapply IH; exact H | discriminate].
  - match type of H with match ?ws with [] => _ | _ => _ end = _ => destruct ws eqn:Ews end; [eapply IH; exact H|].
    destruct (N.eqb _ 0); [eapply IH; exact H|].
    apply bind_ok in H. destruct H as ([c1 m1] & H1 & H).
    eapply SR_trans; [eapply prefill_workers_SR; exact H1 | eapply IH; exact H].
Qed.


Lemma run_scheduling_SR s sol s' : run_scheduling s sol = Ok s' -> SR (core_of s) (core_of s').
Proof.
  unfold run_scheduling. intros H. destruct (negb (perm_of_set _ _)); [discriminate|].
  apply bind_ok in H. destruct H as ([c1 m1] & H1 & H).
  apply bind_ok in H. destruct H as ([c2 mn] & H2 & H).
  apply bind_ok in H. destruct H as ([c3 m3] & H3 & H).
  apply bind_ok in H. destruct H as (s1 & H4 & H).
  apply bind_ok in H. destruct H as (s2 & H5 & H). inversion H; subst s'.
  assert (R3 : SR c2 c3).
  { destruct (queues_top_priority (c_queues c2)); [|inversion H3; subst; apply SR_refl]. eapply prefill_queues_SR; exact H3. }
  assert (Ec : core_of s2 = c3) by (rewrite (send_mn_core _ _ _ H5), (send_mapping_core _ _ _ H4); reflexivity).
  eapply SR_trans; [eapply map_sn_SR; exact H1|]. eapply SR_trans; [eapply map_mn_SR; exact H2|]. eapply SR_trans; [exact R3|].
  apply SR_tasks. cbn. rewrite Ec. reflexivity.
Qed.
