(** C02 "runnable work is not forgotten", the property-shaped statement AT REST.

    [rest_no_runnable_work]: in every reachable state at rest (scheduler flag off, every worker
    process with empty channels, nothing running, no task future) of a history whose scheduling
    answers meet the completeness contract [sched_complete] and whose checked steps keep
    [wake_inv] (WakeStep.v: proved for most operations, a monitored hypothesis for the rest),
    every NON-TERMINAL TASK OF THE JOB LAYER (waiting or running in its job) is known to the
    scheduler and is
      (a) waiting for an unfinished dependency ([Waiting n], n > 0), or
      (b) ready ([Waiting 0]) and CANNOT RUN ON ANY CONNECTED WORKER NOW: if its class has a ready
          task of the top ready priority then the class fits nowhere ([class_fits] = false: no
          connected single-node worker is unblocked with enough free resources / no group has
          enough free workers); otherwise a ready task of strictly higher priority of another
          class is waiting, and THAT class fits nowhere (the priority rule of C15), or
      (c) prefilled on a worker with its entry still in that worker's backlog.  This cannot last
          by itself only through the scheduler: the worker starts a backlog entry when a task of
          the same class ends there, and at rest nothing runs - such an entry is left behind
          when the task it queued behind was rejected or ended before the entry arrived; the
          prefilled task stays in the class's prefill set, which every scheduling round may
          place (C02_at_rest_waiting_or_backlog; the driver's monitor demands all-Waiting). *)
From HQ Require Import Base.Prelude Cluster.Types Cluster.Core Cluster.Reactor Cluster.Worker Cluster.Server Cluster.Sys Cluster.Monitors Cluster.RejHyp Cluster.BijBase Cluster.BijCore Cluster.BijSt Cluster.BijReact Cluster.BijFinal Cluster.InvWBase Cluster.InvBundle Cluster.NoPanicU0 Cluster.NoPanicU20 Cluster.RestU1 Cluster.RestU12 Cluster.RestU13 Cluster.RetractFree Cluster.Wake Cluster.WakeStep.
From Coq Require Import ZArith Lia Sorting.Sorted.
Local Open Scope N_scope.

Lemma indexed_in {A} (l : list A) : forall k i x, nth_error l i = Some x -> In ((k + i)%nat, x) (combine (seq k (length l)) l).
Proof.
  induction l as [|h t IH]; intros k i x H; [destruct i; discriminate|].
  destruct i as [|i]; cbn [nth_error] in H; cbn [length seq combine].
  - inversion H; subst. left. f_equal. lia.
  - right. replace (k + S i)%nat with (S k + i)%nat by lia. apply IH. exact H.
Qed.

(** nothing placeable: every class with a top-priority ready task fits nowhere *)
Lemma not_placeable_class c top i q :
  placeable c = false -> queues_top_priority (c_queues c) = Some top -> nth_error (c_queues c) i = Some q ->
  at_top top q = true -> class_fits c i = false.
Proof.
  unfold placeable. intros H Ht Hq Ha. rewrite Ht in H.
  destruct (class_fits c i) eqn:E; [|reflexivity]. exfalso.
  assert (X : existsb (fun iq => at_top top (snd iq) && class_fits c (fst iq)) (indexed (c_queues c)) = true).
  { apply existsb_exists. exists (i, q). split; [exact (indexed_in (c_queues c) 0 i q Hq) | cbn [fst snd]; rewrite Ha, E; reflexivity]. }
  congruence.
Qed.

(** at rest nothing is in flight *)
Lemma rest_not_busy ops r m s outs :
  Forall op_wf ops -> ops_ok (init_sys r m) ops = true -> run (init_sys r m) ops = Ok (s, outs) -> at_rest s ->
  busy (s_core s) = false.
Proof.
  intros Hwf Hok H Hrest. unfold busy. destruct (existsb (task_busy (s_core s)) (c_tasks (s_core s))) eqn:E; [|reflexivity]. exfalso.
  apply existsb_exists in E. destruct E as (t & Hin & Hb).
  pose proof (reachable_INV_ops _ _ _ _ _ Hwf Hok H) as HI. pose proof (cb_s _ (inv_cb _ HI)) as Hcs. change (core_of (s, [])) with (s_core s) in Hcs.
  pose proof (in_find_task _ _ (CS_sorted _ Hcs) Hin) as Hf.
  pose proof (at_rest_waiting_or_backlog _ _ _ _ _ Hwf Hok H Hrest _ _ Hf) as X. unfold rest_state in X.
  unfold task_busy in Hb. destruct (t_state t); try discriminate; try contradiction.
Qed.

(** ... so, at rest, [wake_inv] says that nothing is placeable *)
Theorem rest_nothing_placeable_inv ops r m s outs :
  Forall op_wf ops -> ops_ok (init_sys r m) ops = true -> run (init_sys r m) ops = Ok (s, outs) -> at_rest s ->
  wake_inv s = true -> placeable (s_core s) = false.
Proof.
  intros Hwf Hok H Hrest HW. apply wake_inv_rest; [exact HW | exact (proj1 Hrest) | eapply rest_not_busy; eassumption].
Qed.

Theorem rest_nothing_placeable ops r m s outs :
  Forall op_wf ops -> ops_ok (init_sys r m) ops = true -> ops_complete (init_sys r m) ops = true -> ops_wake_checked (init_sys r m) ops = true ->
  run (init_sys r m) ops = Ok (s, outs) -> at_rest s -> placeable (s_core s) = false.
Proof.
  intros Hwf Hok Hc Hk H Hrest. eapply rest_nothing_placeable_inv; try eassumption. eapply wake_reachable; eassumption.
Qed.

Definition task_at_rest_ok (s : sys) (x : tid) (t : task) : Prop :=
  match t_state t with
  | Waiting n =>
      n <> 0 \/
      (n = 0 /\ forall top, queues_top_priority (c_queues (s_core s)) = Some top ->
                  at_top top (queue_of (s_core s) (t_rq t)) = true -> class_fits (s_core s) (N.to_nat (t_rq t)) = false)
  | Prefilled w => exists p, find_proc (s_procs s) w = Some p /\ bl_count x (p_backlog p) = 1%nat
  | _ => False
  end.

Theorem rest_no_runnable_work_inv ops r m s outs :
  Forall op_wf ops -> ops_ok (init_sys r m) ops = true -> run (init_sys r m) ops = Ok (s, outs) -> at_rest s -> wake_inv s = true ->
  forall j jb i, find_job (h_jobs (s_hq s)) j = Some jb -> (jt_find (j_tasks jb) i = Some JW \/ jt_find (j_tasks jb) i = Some JR) ->
  exists t, find_task (c_tasks (s_core s)) (j, i) = Some t /\ task_at_rest_ok s (j, i) t.
Proof.
  intros Hwf Hok H Hrest HW j jb i Hj Hst.
  pose proof (rest_nothing_placeable_inv _ _ _ _ _ Hwf Hok H Hrest HW) as Hnp.
  assert (Hin : In (j, i) (map t_id (c_tasks (s_core s)))).
  { apply (no_phantom_no_orphan _ _ _ _ _ Hwf H). exists jb. cbn [fst snd]. split; [exact Hj | exact Hst]. }
  destruct (find_task (c_tasks (s_core s)) (j, i)) as [t|] eqn:Hf; [|exfalso; exact (proj1 (find_task_none _ _) Hf Hin)].
  exists t. split; [reflexivity|].
  pose proof (at_rest_waiting_or_backlog _ _ _ _ _ Hwf Hok H Hrest _ _ Hf) as X. unfold rest_state in X. unfold task_at_rest_ok.
  destruct (t_state t) as [n|w1 rv1|w1|w1|w1 rv1|ws|]; try contradiction; [|exact X].
  destruct (N.eq_dec n 0) as [->|Hn]; [right | left; exact Hn]. split; [reflexivity|].
  intros top Ht Ha. unfold queue_of in Ha.
  destruct (nth_error (c_queues (s_core s)) (N.to_nat (t_rq t))) as [q|] eqn:Hq; [|discriminate].
  eapply not_placeable_class; eassumption.
Qed.

Theorem rest_no_runnable_work ops r m s outs :
  Forall op_wf ops -> ops_ok (init_sys r m) ops = true -> ops_complete (init_sys r m) ops = true -> ops_wake_checked (init_sys r m) ops = true ->
  run (init_sys r m) ops = Ok (s, outs) -> at_rest s ->
  forall j jb i, find_job (h_jobs (s_hq s)) j = Some jb -> (jt_find (j_tasks jb) i = Some JW \/ jt_find (j_tasks jb) i = Some JR) ->
  exists t, find_task (c_tasks (s_core s)) (j, i) = Some t /\ task_at_rest_ok s (j, i) t.
Proof.
  intros Hwf Hok Hc Hk H Hrest. eapply rest_no_runnable_work_inv; try eassumption. eapply wake_reachable; eassumption.
Qed.

(** * Example: a history at rest meeting every hypothesis.  One worker with 4 cpus; job 1 = one
    task asking for 8 cpus, job 2 = one task asking for 1 cpu.  The first round places 2.0 (its
    answer is complete: 1.0 fits nowhere), 2.0 runs and finishes, the finish sets the flag, the
    second round answers "nothing" (complete again).  At rest: job 2 is finished, task 1.0 is
    ready and fits no connected worker - case (b) of the theorem. *)
Definition ex_big : rqdef := mkRq 0 [8; 0; 0].
Definition ex_small : rqdef := mkRq 0 [1; 0; 0].
Definition ex_ops : list op :=
  [OpConnect [4; 0; 0] 0;
   OpSubmit None [] None ex_big 0%Z CUnl false None; OpSubmit None [] None ex_small 0%Z CUnl false None;
   OpSched (mkSol [(1, 0, [(1, 1)])] [] [1] []);
   OpDDown 1 []; OpDDown 1 []; OpDDown 1 []; OpDUp 1; OpEnd 1 (2, 0) EndOk; OpDUp 1;
   OpSched (mkSol [] [] [1] [])].

Theorem rest_example :
  Forall op_wf ex_ops /\ ops_ok (init_sys 0 2) ex_ops = true /\ ops_complete (init_sys 0 2) ex_ops = true /\
  ops_wake_checked (init_sys 0 2) ex_ops = true /\
  exists s outs, run (init_sys 0 2) ex_ops = Ok (s, outs) /\ at_rest s /\
    map (fun t => (t_id t, t_state t)) (c_tasks (s_core s)) = [((1, 0), Waiting 0)] /\
    class_fits (s_core s) 0 = false /\ placeable (s_core s) = false /\
    map (fun jb => (j_id jb, j_tasks jb)) (h_jobs (s_hq s)) = [(1, [(0, JW)]); (2, [(0, JF)])].
Proof.
  split; [repeat constructor|]. split; [vm_compute; reflexivity|]. split; [vm_compute; reflexivity|]. split; [vm_compute; reflexivity|].
  destruct (run (init_sys 0 2) ex_ops) as [[s outs]| |] eqn:E; [|vm_compute in E; discriminate | vm_compute in E; discriminate].
  exists s, outs. split; [reflexivity|]. vm_compute in E. injection E as <- _.
  split; [apply at_restb_ok; vm_compute; reflexivity|]. vm_compute. repeat split.
Qed.

Print Assumptions rest_no_runnable_work.
Print Assumptions rest_example.
