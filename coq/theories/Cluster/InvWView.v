(** Worker-set invariant, part 2: the invariant on VIEWS.  The task map is seen through the
    function id -> state, the worker map through id -> worker, the redirect map through id -> target;
    the invariant says that membership in a worker's sets (computed from the worker view) equals
    what the task states ask for (computed from the task and redirect views). *)
From HQ Require Import Base.Prelude Cluster.Types Cluster.Core Cluster.Reactor Cluster.Worker Cluster.Server Cluster.Sys Cluster.ProofsJob Cluster.ProofsMore Cluster.ProofsStep Cluster.BijBase Cluster.BijCore Cluster.InvWBase.
From Coq Require Import ZArith Lia Sorting.Sorted.
Local Open Scope N_scope.

Arguments N.add : simpl never.
Arguments N.sub : simpl never.

Definition tview := tid -> option tstate.
Definition wview := wid -> option sworker.
Definition rview := tid -> option (wid * N).

Definition tset (tv : tview) (id : tid) (s : option tstate) : tview := fun x => if tid_eqb x id then s else tv x.
Definition wset (wv : wview) (w : wid) (k : option sworker) : wview := fun x => if N.eqb x w then k else wv x.
Definition rset (rv : rview) (id : tid) (v : option (wid * N)) : rview := fun x => if tid_eqb x id then v else rv x.

(** Where a task state places the task. *)
Inductive place := PN | PA (w : wid) | PP (w : wid) | PR | PM (ws : list wid).
Definition pl (s : tstate) : place :=
  match s with
  | Waiting _ | Finished => PN
  | Assigned w _ | Running w _ => PA w
  | Prefilled w => PP w
  | Retracting _ => PR
  | RunningMN ws => PM ws
  end.
Definition plo (o : option tstate) : place := match o with Some s => pl s | None => PN end.

Definition inA (wv : wview) (w : wid) (id : tid) : bool :=
  match wv w with Some wk => match w_assign wk with Sn a _ _ => tid_mem id a | Mn _ _ => false end | None => false end.
Definition inP (wv : wview) (w : wid) (id : tid) : bool :=
  match wv w with Some wk => match w_assign wk with Sn _ p _ => tid_mem id p | Mn _ _ => false end | None => false end.
Definition inM (wv : wview) (w : wid) (id : tid) : bool :=
  match wv w with Some wk => match w_assign wk with Mn t _ => tid_eqb t id | Sn _ _ _ => false end | None => false end.

Definition wantA (tv : tview) (rv : rview) (w : wid) (id : tid) : bool :=
  match plo (tv id) with
  | PA w' => N.eqb w' w
  | PR => match rv id with Some (tg, _) => N.eqb tg w | None => false end
  | _ => false
  end.
Definition wantP (tv : tview) (w : wid) (id : tid) : bool :=
  match plo (tv id) with PP w' => N.eqb w' w | _ => false end.
Definition wantM (tv : tview) (w : wid) (id : tid) : bool :=
  match plo (tv id) with PM ws => n_mem w ws | _ => false end.

Definition sets_ok (k : option sworker) : Prop :=
  forall wk a p f, k = Some wk -> w_assign wk = Sn a p f -> tsorted a /\ tsorted p.

Record WIv (tv : tview) (wv : wview) (rv : rview) : Prop := mkWIv {
  wi_sets : forall w, sets_ok (wv w);
  wi_A : forall w id, inA wv w id = wantA tv rv w id;
  wi_P : forall w id, inP wv w id = wantP tv w id;
  wi_M : forall w id, inM wv w id = wantM tv w id;
  wi_R : forall id, rv id <> None -> plo (tv id) = PR
}.

Lemma WIv_ext tv wv rv tv' wv' rv' :
  (forall id, plo (tv' id) = plo (tv id)) -> (forall w, wv' w = wv w) -> (forall id, rv' id = rv id) ->
  WIv tv wv rv -> WIv tv' wv' rv'.
Proof.
  intros Et Ew Er [S A P M R]. constructor.
  - intros w. rewrite Ew. apply S.
  - intros w id. unfold inA, wantA. rewrite Ew, Et, Er. apply A.
  - intros w id. unfold inP, wantP. rewrite Ew, Et. apply P.
  - intros w id. unfold inM, wantM. rewrite Ew, Et. apply M.
  - intros id. rewrite Er, Et. apply R.
Qed.

Lemma wi_R_none tv wv rv id : WIv tv wv rv -> plo (tv id) <> PR -> rv id = None.
Proof. intros H Hn. destruct (rv id) eqn:E; [|reflexivity]. exfalso. apply Hn. apply (wi_R _ _ _ H). congruence. Qed.

(** * The generic one-point update *)
Lemma V_point tv wv rv id s w k r :
  WIv tv wv rv ->
  sets_ok k ->
  (forall id', tid_eqb id' id = false ->
     inA (wset wv w k) w id' = inA wv w id' /\ inP (wset wv w k) w id' = inP wv w id' /\ inM (wset wv w k) w id' = inM wv w id') ->
  (forall w', inA (wset wv w k) w' id = wantA (tset tv id s) (rset rv id r) w' id /\
              inP (wset wv w k) w' id = wantP (tset tv id s) w' id /\
              inM (wset wv w k) w' id = wantM (tset tv id s) w' id) ->
  (r <> None -> plo s = PR) ->
  WIv (tset tv id s) (wset wv w k) (rset rv id r).
Proof.
  intros H Hk Hoth Hat Hr.
  assert (Hw : forall w' id', N.eqb w' w = false ->
            inA (wset wv w k) w' id' = inA wv w' id' /\ inP (wset wv w k) w' id' = inP wv w' id' /\ inM (wset wv w k) w' id' = inM wv w' id').
  { intros w' id' E. unfold inA, inP, inM, wset. rewrite E. auto. }
  assert (Hin : forall w' id', tid_eqb id' id = false ->
            inA (wset wv w k) w' id' = inA wv w' id' /\ inP (wset wv w k) w' id' = inP wv w' id' /\ inM (wset wv w k) w' id' = inM wv w' id').
  { intros w' id' E. destruct (N.eqb w' w) eqn:Ew; [apply N.eqb_eq in Ew; subst w'; apply Hoth; exact E | apply Hw; exact Ew]. }
  constructor.
  - intros w'. unfold wset. destruct (N.eqb w' w); [exact Hk | apply (wi_sets _ _ _ H)].
  - intros w' id'. destruct (tid_eqb id' id) eqn:E.
    + apply tid_eqb_eq in E. subst id'. apply Hat.
    + rewrite (proj1 (Hin w' id' E)). unfold wantA, tset, rset. rewrite E. apply (wi_A _ _ _ H).
  - intros w' id'. destruct (tid_eqb id' id) eqn:E.
    + apply tid_eqb_eq in E. subst id'. apply Hat.
    + rewrite (proj1 (proj2 (Hin w' id' E))). unfold wantP, tset. rewrite E. apply (wi_P _ _ _ H).
  - intros w' id'. destruct (tid_eqb id' id) eqn:E.
    + apply tid_eqb_eq in E. subst id'. apply Hat.
    + rewrite (proj2 (proj2 (Hin w' id' E))). unfold wantM, tset. rewrite E. apply (wi_M _ _ _ H).
  - intros id'. unfold rset, tset. destruct (tid_eqb id' id); [exact Hr | apply (wi_R _ _ _ H)].
Qed.

Lemma wset_same wv w : forall x, wset wv w (wv w) x = wv x.
Proof. intros x. unfold wset. destruct (N.eqb x w) eqn:E; [apply N.eqb_eq in E; subst; reflexivity | reflexivity]. Qed.
Lemma rset_same rv id : forall x, rset rv id (rv id) x = rv x.
Proof. intros x. unfold rset. destruct (tid_eqb x id) eqn:E; [apply tid_eqb_eq in E; subst; reflexivity | reflexivity]. Qed.
Lemma tset_same tv id : forall x, tset tv id (tv id) x = tv x.
Proof. intros x. unfold tset. destruct (tid_eqb x id) eqn:E; [apply tid_eqb_eq in E; subst; reflexivity | reflexivity]. Qed.

(** Task (and redirect) update only. *)
Lemma V_tpoint tv wv rv id s r :
  WIv tv wv rv ->
  (forall w', inA wv w' id = wantA (tset tv id s) (rset rv id r) w' id /\
              inP wv w' id = wantP (tset tv id s) w' id /\
              inM wv w' id = wantM (tset tv id s) w' id) ->
  (r <> None -> plo s = PR) ->
  WIv (tset tv id s) wv (rset rv id r).
Proof.
  intros H Hat Hr.
  eapply (WIv_ext (tset tv id s) (wset wv 0 (wv 0)) (rset rv id r)); [reflexivity | intros w; symmetry; apply wset_same | reflexivity |].
  assert (E : forall w' x, inA (wset wv 0 (wv 0)) w' x = inA wv w' x /\ inP (wset wv 0 (wv 0)) w' x = inP wv w' x /\ inM (wset wv 0 (wv 0)) w' x = inM wv w' x).
  { intros w' x. unfold inA, inP, inM. rewrite wset_same. auto. }
  apply V_point; [exact H | apply (wi_sets _ _ _ H) | intros id' _; apply E | | exact Hr].
  intros w'. destruct (E w' id) as (E1 & E2 & E3). rewrite E1, E2, E3. apply Hat.
Qed.

(** Worker update only (the sets of [w] keep their members). *)
Lemma V_wpoint tv wv rv w k :
  WIv tv wv rv -> sets_ok k ->
  (forall id, inA (wset wv w k) w id = inA wv w id /\ inP (wset wv w k) w id = inP wv w id /\ inM (wset wv w k) w id = inM wv w id) ->
  WIv tv (wset wv w k) rv.
Proof.
  intros H Hk Hs. constructor.
  - intros w'. unfold wset. destruct (N.eqb w' w); [exact Hk | apply (wi_sets _ _ _ H)].
  - intros w' id. rewrite <- (wi_A _ _ _ H). destruct (N.eqb w' w) eqn:E; [apply N.eqb_eq in E; subst; apply Hs | unfold inA, wset; rewrite E; reflexivity].
  - intros w' id. rewrite <- (wi_P _ _ _ H). destruct (N.eqb w' w) eqn:E; [apply N.eqb_eq in E; subst; apply Hs | unfold inP, wset; rewrite E; reflexivity].
  - intros w' id. rewrite <- (wi_M _ _ _ H). destruct (N.eqb w' w) eqn:E; [apply N.eqb_eq in E; subst; apply Hs | unfold inM, wset; rewrite E; reflexivity].
  - apply (wi_R _ _ _ H).
Qed.

(** * Task-only transitions *)
Lemma V_same tv wv rv id s : WIv tv wv rv -> plo s = plo (tv id) -> WIv (tset tv id s) wv rv.
Proof.
  intros H E. eapply WIv_ext; [| reflexivity | reflexivity | exact H].
  intros x. unfold tset. destruct (tid_eqb x id) eqn:Ex; [apply tid_eqb_eq in Ex; subst; exact E | reflexivity].
Qed.

(** "wantless": the task is in no worker set. *)
Definition wl (tv : tview) (rv : rview) (id : tid) : Prop := plo (tv id) = PN \/ (plo (tv id) = PR /\ rv id = None).

Lemma wl_none tv wv rv id : WIv tv wv rv -> wl tv rv id -> rv id = None.
Proof. intros H [E|[_ E]]; [|exact E]. eapply wi_R_none; [exact H|]. rewrite E. discriminate. Qed.

Lemma wl_wants tv wv rv id : WIv tv wv rv -> wl tv rv id ->
  forall w, inA wv w id = false /\ inP wv w id = false /\ inM wv w id = false.
Proof.
  intros H Hl w. rewrite (wi_A _ _ _ H), (wi_P _ _ _ H), (wi_M _ _ _ H). unfold wantA, wantP, wantM.
  destruct Hl as [E|[E1 E2]]; [rewrite E; auto | rewrite E1, E2; auto].
Qed.

Lemma V_neutral tv wv rv id s : WIv tv wv rv -> wl tv rv id -> (plo s = PN \/ plo s = PR) -> WIv (tset tv id s) wv rv.
Proof.
  intros H Hl Hs. pose proof (wl_none _ _ _ _ H Hl) as Hr.
  eapply (WIv_ext (tset tv id s) wv (rset rv id (rv id))); [reflexivity | reflexivity | intros x; symmetry; apply rset_same |].
  apply V_tpoint; [exact H | | rewrite Hr; congruence].
  intros w. destruct (wl_wants _ _ _ _ H Hl w) as (A & P & M). rewrite A, P, M.
  unfold wantA, wantP, wantM, tset, rset. rewrite tid_eqb_refl', Hr. destruct Hs as [-> | ->]; auto.
Qed.

(** * Membership after a worker update *)
Lemma in_wset_other wv w k w' id : N.eqb w' w = false ->
  inA (wset wv w k) w' id = inA wv w' id /\ inP (wset wv w k) w' id = inP wv w' id /\ inM (wset wv w k) w' id = inM wv w' id.
Proof. intros E. unfold inA, inP, inM, wset. rewrite E. auto. Qed.

Lemma in_wset_sn wv w wk a p f id : w_assign wk = Sn a p f ->
  inA (wset wv w (Some wk)) w id = tid_mem id a /\ inP (wset wv w (Some wk)) w id = tid_mem id p /\ inM (wset wv w (Some wk)) w id = false.
Proof. intros E. unfold inA, inP, inM, wset. rewrite N.eqb_refl, E. auto. Qed.

Lemma in_sn wv w wk a p f id : wv w = Some wk -> w_assign wk = Sn a p f ->
  inA wv w id = tid_mem id a /\ inP wv w id = tid_mem id p /\ inM wv w id = false.
Proof. intros E1 E2. unfold inA, inP, inM. rewrite E1, E2. auto. Qed.

Lemma in_wset_none wv w id :
  inA (wset wv w None) w id = false /\ inP (wset wv w None) w id = false /\ inM (wset wv w None) w id = false.
Proof. unfold inA, inP, inM, wset. rewrite N.eqb_refl. auto. Qed.

Lemma sets_ok_sn wk a p f : w_assign wk = Sn a p f -> tsorted a -> tsorted p -> sets_ok (Some wk).
Proof. intros E Sa Sp wk0 a0 p0 f0 E0 E1. inversion E0; subst. rewrite E in E1. inversion E1; subst. auto. Qed.

Lemma N_eqb_sym_false a b : N.eqb a b = false -> N.eqb b a = false.
Proof. rewrite N.eqb_sym. auto. Qed.

(** * Release from / insertion into one worker's sets *)
Lemma V_relA tv wv rv id s w wk wk' a p f f' :
  WIv tv wv rv -> plo (tv id) = PA w -> wv w = Some wk -> w_assign wk = Sn a p f ->
  w_assign wk' = Sn (tid_remove id a) p f' -> plo s = PN ->
  WIv (tset tv id s) (wset wv w (Some wk')) rv.
Proof.
  intros H Hp Hw Ha Ha' Hs.
  assert (Hr : rv id = None) by (eapply wi_R_none; [exact H | rewrite Hp; discriminate]).
  destruct (wi_sets _ _ _ H w wk a p f Hw Ha) as [Sa Sp].
  eapply (WIv_ext _ _ (rset rv id (rv id))); [reflexivity | reflexivity | intros x; symmetry; apply rset_same |].
  apply V_point; [exact H | | | | rewrite Hr; congruence].
  - eapply sets_ok_sn; [exact Ha' | apply tid_remove_sorted; exact Sa | exact Sp].
  - intros id' E. destruct (in_wset_sn wv w wk' _ _ _ id' Ha') as (-> & -> & ->).
    destruct (in_sn wv w wk _ _ _ id' Hw Ha) as (-> & -> & ->). rewrite tid_mem_remove_other by exact E. auto.
  - intros w'. unfold wantA, wantP, wantM, tset, rset. rewrite tid_eqb_refl', Hs.
    destruct (N.eqb w' w) eqn:Ew.
    + apply N.eqb_eq in Ew. subst w'. destruct (in_wset_sn wv w wk' _ _ _ id Ha') as (-> & -> & ->).
      rewrite tid_mem_remove_same by exact Sa. split; [reflexivity|]. split; [|reflexivity].
      pose proof (wi_P _ _ _ H w id) as X. destruct (in_sn wv w wk _ _ _ id Hw Ha) as (_ & E2 & _). rewrite E2 in X.
      rewrite X. unfold wantP. rewrite Hp. reflexivity.
    + destruct (in_wset_other wv w (Some wk') w' id Ew) as (-> & -> & ->).
      rewrite (wi_A _ _ _ H), (wi_P _ _ _ H), (wi_M _ _ _ H). unfold wantA, wantP, wantM. rewrite Hp.
      rewrite (N_eqb_sym_false _ _ Ew). auto.
Qed.

Lemma V_relP tv wv rv id s w wk wk' a p f :
  WIv tv wv rv -> plo (tv id) = PP w -> wv w = Some wk -> w_assign wk = Sn a p f ->
  w_assign wk' = Sn a (tid_remove id p) f -> (plo s = PN \/ plo s = PR) ->
  WIv (tset tv id s) (wset wv w (Some wk')) rv.
Proof.
  intros H Hp Hw Ha Ha' Hs.
  assert (Hr : rv id = None) by (eapply wi_R_none; [exact H | rewrite Hp; discriminate]).
  destruct (wi_sets _ _ _ H w wk a p f Hw Ha) as [Sa Sp].
  eapply (WIv_ext _ _ (rset rv id (rv id))); [reflexivity | reflexivity | intros x; symmetry; apply rset_same |].
  apply V_point; [exact H | | | | rewrite Hr; congruence].
  - eapply sets_ok_sn; [exact Ha' | exact Sa | apply tid_remove_sorted; exact Sp].
  - intros id' E. destruct (in_wset_sn wv w wk' _ _ _ id' Ha') as (-> & -> & ->).
    destruct (in_sn wv w wk _ _ _ id' Hw Ha) as (-> & -> & ->). rewrite tid_mem_remove_other by exact E. auto.
  - intros w'. unfold wantA, wantP, wantM, tset, rset. rewrite tid_eqb_refl', Hr.
    assert (Hf : (match plo s with PA w'0 => N.eqb w'0 w' | PR => false | _ => false end) = false
                 /\ (match plo s with PP w'0 => N.eqb w'0 w' | _ => false end) = false
                 /\ (match plo s with PM ws => n_mem w' ws | _ => false end) = false)
      by (destruct Hs as [-> | ->]; auto).
    destruct Hf as (-> & -> & ->).
    destruct (N.eqb w' w) eqn:Ew.
    + apply N.eqb_eq in Ew. subst w'. destruct (in_wset_sn wv w wk' _ _ _ id Ha') as (-> & -> & ->).
      rewrite tid_mem_remove_same by exact Sp. split; [|auto].
      pose proof (wi_A _ _ _ H w id) as X. destruct (in_sn wv w wk _ _ _ id Hw Ha) as (E2 & _ & _). rewrite E2 in X.
      rewrite X. unfold wantA. rewrite Hp. reflexivity.
    + destruct (in_wset_other wv w (Some wk') w' id Ew) as (-> & -> & ->).
      rewrite (wi_A _ _ _ H), (wi_P _ _ _ H), (wi_M _ _ _ H). unfold wantA, wantP, wantM. rewrite Hp.
      rewrite (N_eqb_sym_false _ _ Ew). auto.
Qed.

Lemma V_putA tv wv rv id s w wk wk' a p f f' :
  WIv tv wv rv -> wl tv rv id -> wv w = Some wk -> w_assign wk = Sn a p f ->
  w_assign wk' = Sn (tid_insert id a) p f' -> plo s = PA w ->
  WIv (tset tv id s) (wset wv w (Some wk')) rv.
Proof.
  intros H Hl Hw Ha Ha' Hs.
  pose proof (wl_none _ _ _ _ H Hl) as Hr.
  destruct (wi_sets _ _ _ H w wk a p f Hw Ha) as [Sa Sp].
  eapply (WIv_ext _ _ (rset rv id (rv id))); [reflexivity | reflexivity | intros x; symmetry; apply rset_same |].
  apply V_point; [exact H | | | | rewrite Hr; congruence].
  - eapply sets_ok_sn; [exact Ha' | apply tid_insert_sorted; exact Sa | exact Sp].
  - intros id' E. destruct (in_wset_sn wv w wk' _ _ _ id' Ha') as (-> & -> & ->).
    destruct (in_sn wv w wk _ _ _ id' Hw Ha) as (-> & -> & ->). rewrite tid_mem_insert, E. auto.
  - intros w'. unfold wantA, wantP, wantM, tset, rset. rewrite tid_eqb_refl', Hs.
    destruct (N.eqb w' w) eqn:Ew.
    + apply N.eqb_eq in Ew. subst w'. destruct (in_wset_sn wv w wk' _ _ _ id Ha') as (-> & -> & ->).
      rewrite tid_mem_insert, tid_eqb_refl', N.eqb_refl. split; [reflexivity|]. split; [|reflexivity].
      destruct (wl_wants _ _ _ _ H Hl w) as (_ & X & _). destruct (in_sn wv w wk _ _ _ id Hw Ha) as (_ & E2 & _). congruence.
    + destruct (in_wset_other wv w (Some wk') w' id Ew) as (-> & -> & ->).
      destruct (wl_wants _ _ _ _ H Hl w') as (-> & -> & ->). rewrite (N_eqb_sym_false _ _ Ew). auto.
Qed.

Lemma V_putP tv wv rv id s w wk wk' a p f :
  WIv tv wv rv -> wl tv rv id -> wv w = Some wk -> w_assign wk = Sn a p f ->
  w_assign wk' = Sn a (tid_insert id p) f -> plo s = PP w ->
  WIv (tset tv id s) (wset wv w (Some wk')) rv.
Proof.
  intros H Hl Hw Ha Ha' Hs.
  pose proof (wl_none _ _ _ _ H Hl) as Hr.
  destruct (wi_sets _ _ _ H w wk a p f Hw Ha) as [Sa Sp].
  eapply (WIv_ext _ _ (rset rv id (rv id))); [reflexivity | reflexivity | intros x; symmetry; apply rset_same |].
  apply V_point; [exact H | | | | rewrite Hr; congruence].
  - eapply sets_ok_sn; [exact Ha' | exact Sa | apply tid_insert_sorted; exact Sp].
  - intros id' E. destruct (in_wset_sn wv w wk' _ _ _ id' Ha') as (-> & -> & ->).
    destruct (in_sn wv w wk _ _ _ id' Hw Ha) as (-> & -> & ->). rewrite tid_mem_insert, E. auto.
  - intros w'. unfold wantA, wantP, wantM, tset, rset. rewrite tid_eqb_refl', Hs.
    destruct (N.eqb w' w) eqn:Ew.
    + apply N.eqb_eq in Ew. subst w'. destruct (in_wset_sn wv w wk' _ _ _ id Ha') as (-> & -> & ->).
      rewrite tid_mem_insert, tid_eqb_refl', N.eqb_refl. split; [|auto].
      destruct (wl_wants _ _ _ _ H Hl w) as (X & _ & _). destruct (in_sn wv w wk _ _ _ id Hw Ha) as (E2 & _ & _). congruence.
    + destruct (in_wset_other wv w (Some wk') w' id Ew) as (-> & -> & ->).
      destruct (wl_wants _ _ _ _ H Hl w') as (-> & -> & ->). rewrite (N_eqb_sym_false _ _ Ew). auto.
Qed.

(** * Redirects *)
Lemma V_relR tv wv rv id w v wk wk' a p f f' :
  WIv tv wv rv -> rv id = Some (w, v) -> wv w = Some wk -> w_assign wk = Sn a p f ->
  w_assign wk' = Sn (tid_remove id a) p f' ->
  WIv tv (wset wv w (Some wk')) (rset rv id None).
Proof.
  intros H Hr Hw Ha Ha'.
  assert (Hp : plo (tv id) = PR) by (apply (wi_R _ _ _ H); congruence).
  destruct (wi_sets _ _ _ H w wk a p f Hw Ha) as [Sa Sp].
  eapply (WIv_ext (tset tv id (tv id))); [intros x; rewrite tset_same; reflexivity | reflexivity | reflexivity |].
  apply V_point; [exact H | | | | congruence].
  - eapply sets_ok_sn; [exact Ha' | apply tid_remove_sorted; exact Sa | exact Sp].
  - intros id' E. destruct (in_wset_sn wv w wk' _ _ _ id' Ha') as (-> & -> & ->).
    destruct (in_sn wv w wk _ _ _ id' Hw Ha) as (-> & -> & ->). rewrite tid_mem_remove_other by exact E. auto.
  - intros w'. unfold wantA, wantP, wantM, tset, rset. rewrite tid_eqb_refl', Hp.
    destruct (N.eqb w' w) eqn:Ew.
    + apply N.eqb_eq in Ew. subst w'. destruct (in_wset_sn wv w wk' _ _ _ id Ha') as (-> & -> & ->).
      rewrite tid_mem_remove_same by exact Sa. split; [reflexivity|]. split; [|reflexivity].
      pose proof (wi_P _ _ _ H w id) as X. destruct (in_sn wv w wk _ _ _ id Hw Ha) as (_ & E2 & _). rewrite E2 in X.
      rewrite X. unfold wantP. rewrite Hp. reflexivity.
    + destruct (in_wset_other wv w (Some wk') w' id Ew) as (-> & -> & ->).
      rewrite (wi_A _ _ _ H), (wi_P _ _ _ H), (wi_M _ _ _ H). unfold wantA, wantP, wantM. rewrite Hp, Hr.
      rewrite (N_eqb_sym_false _ _ Ew). auto.
Qed.

Lemma V_putR tv wv rv id w v wk wk' a p f f' :
  WIv tv wv rv -> plo (tv id) = PR -> rv id = None -> wv w = Some wk -> w_assign wk = Sn a p f ->
  w_assign wk' = Sn (tid_insert id a) p f' ->
  WIv tv (wset wv w (Some wk')) (rset rv id (Some (w, v))).
Proof.
  intros H Hp Hr Hw Ha Ha'.
  assert (Hl : wl tv rv id) by (right; auto).
  destruct (wi_sets _ _ _ H w wk a p f Hw Ha) as [Sa Sp].
  eapply (WIv_ext (tset tv id (tv id))); [intros x; rewrite tset_same; reflexivity | reflexivity | reflexivity |].
  apply V_point; [exact H | | | | intros _; exact Hp].
  - eapply sets_ok_sn; [exact Ha' | apply tid_insert_sorted; exact Sa | exact Sp].
  - intros id' E. destruct (in_wset_sn wv w wk' _ _ _ id' Ha') as (-> & -> & ->).
    destruct (in_sn wv w wk _ _ _ id' Hw Ha) as (-> & -> & ->). rewrite tid_mem_insert, E. auto.
  - intros w'. unfold wantA, wantP, wantM, tset, rset. rewrite tid_eqb_refl', Hp.
    destruct (N.eqb w' w) eqn:Ew.
    + apply N.eqb_eq in Ew. subst w'. destruct (in_wset_sn wv w wk' _ _ _ id Ha') as (-> & -> & ->).
      rewrite tid_mem_insert, tid_eqb_refl', N.eqb_refl. split; [reflexivity|]. split; [|reflexivity].
      destruct (wl_wants _ _ _ _ H Hl w) as (_ & X & _). destruct (in_sn wv w wk _ _ _ id Hw Ha) as (_ & E2 & _). congruence.
    + destruct (in_wset_other wv w (Some wk') w' id Ew) as (-> & -> & ->).
      destruct (wl_wants _ _ _ _ H Hl w') as (-> & -> & ->). rewrite (N_eqb_sym_false _ _ Ew). auto.
Qed.

Lemma V_redirect_done tv wv rv id s w v :
  WIv tv wv rv -> rv id = Some (w, v) -> plo s = PA w -> WIv (tset tv id s) wv (rset rv id None).
Proof.
  intros H Hr Hs.
  assert (Hp : plo (tv id) = PR) by (apply (wi_R _ _ _ H); congruence).
  apply V_tpoint; [exact H | | congruence].
  intros w'. rewrite (wi_A _ _ _ H), (wi_P _ _ _ H), (wi_M _ _ _ H).
  unfold wantA, wantP, wantM, tset, rset. rewrite tid_eqb_refl', Hp, Hr, Hs. auto.
Qed.

(** * Worker-only updates *)
Lemma V_wsame tv wv rv w wk wk' : WIv tv wv rv -> wv w = Some wk -> w_assign wk' = w_assign wk -> WIv tv (wset wv w (Some wk')) rv.
Proof.
  intros H Hw Ha. apply V_wpoint; [exact H | |].
  - intros wk0 a p f E E1. inversion E; subst. rewrite Ha in E1. eapply (wi_sets _ _ _ H w); eassumption.
  - intros id. unfold inA, inP, inM, wset. rewrite N.eqb_refl, Hw, Ha. auto.
Qed.

Definition wfree (wv : wview) (w : wid) : Prop := forall id, inA wv w id = false /\ inP wv w id = false /\ inM wv w id = false.

Lemma V_wempty tv wv rv w k : WIv tv wv rv -> wfree wv w -> sets_ok k -> wfree (wset wv w k) w -> WIv tv (wset wv w k) rv.
Proof.
  intros H F Hk F'. apply V_wpoint; [exact H | exact Hk |].
  intros id. destruct (F id) as (-> & -> & ->). apply F'.
Qed.

Lemma wfree_none wv w : wv w = None -> wfree wv w.
Proof. intros E id. unfold inA, inP, inM. rewrite E. auto. Qed.
Lemma wfree_empty wv w wk f : wv w = Some wk -> w_assign wk = Sn [] [] f -> wfree wv w.
Proof. intros E Ea id. unfold inA, inP, inM. rewrite E, Ea. auto. Qed.
Lemma sets_ok_none : sets_ok None.
Proof. intros wk a p f E. discriminate. Qed.
Lemma sets_ok_empty wk f : w_assign wk = Sn [] [] f -> sets_ok (Some wk).
Proof. intros E. eapply sets_ok_sn; [exact E | constructor | constructor]. Qed.

(** * Multi-node tasks *)
Lemma n_mem_filter_ne w x ws : n_mem x (filter (fun y => negb (N.eqb y w)) ws) = n_mem x ws && negb (N.eqb x w).
Proof.
  induction ws as [|h t IH]; cbn [filter n_mem]; [reflexivity|].
  destruct (N.eqb h w) eqn:E; cbn [negb n_mem].
  - apply N.eqb_eq in E. subst h. rewrite IH. destruct (N.eqb x w); cbn; [rewrite andb_false_r; reflexivity | reflexivity].
  - rewrite IH. destruct (N.eqb x h) eqn:E2; cbn [orb]; [|reflexivity].
    apply N.eqb_eq in E2. subst x. rewrite E. reflexivity.
Qed.

Lemma inM_mn wv w id : inM wv w id = true -> exists wk t root, wv w = Some wk /\ w_assign wk = Mn t root /\ t = id.
Proof.
  unfold inM. destruct (wv w) as [wk|]; [|discriminate]. destruct (w_assign wk) as [|t root] eqn:E; [discriminate|].
  intros X. apply tid_eqb_eq in X. exists wk, t, root. auto.
Qed.

Lemma mn_ins wv w wk t root id' : wv w = Some wk -> w_assign wk = Mn t root ->
  inA wv w id' = false /\ inP wv w id' = false /\ inM wv w id' = tid_eqb t id'.
Proof. intros E Ea. unfold inA, inP, inM. rewrite E, Ea. auto. Qed.

Lemma V_relM tv wv rv id s ws wv' :
  WIv tv wv rv -> plo (tv id) = PM ws ->
  (forall x, n_mem x ws = false -> wv' x = wv x) ->
  (forall x, n_mem x ws = true -> sets_ok (wv' x) /\ wfree wv' x) ->
  plo s = PN ->
  WIv (tset tv id s) wv' rv.
Proof.
  intros H Hp Hout Hin Hs.
  assert (Hr : rv id = None) by (eapply wi_R_none; [exact H | rewrite Hp; discriminate]).
  assert (Hold : forall x, n_mem x ws = true -> forall id', tid_eqb id' id = false ->
            wantA tv rv x id' = false /\ wantP tv x id' = false /\ wantM tv x id' = false).
  { intros x Hx id' E. rewrite <- (wi_A _ _ _ H), <- (wi_P _ _ _ H), <- (wi_M _ _ _ H).
    assert (Hm : inM wv x id = true) by (rewrite (wi_M _ _ _ H); unfold wantM; rewrite Hp; exact Hx).
    destruct (inM_mn _ _ _ Hm) as (wk & t & root & E1 & E2 & ->).
    destruct (mn_ins wv x wk id root id' E1 E2) as (-> & -> & ->). rewrite tid_eqb_sym, E. auto. }
  assert (Hnew : forall x, wantA (tset tv id s) rv x id = false /\ wantP (tset tv id s) x id = false /\ wantM (tset tv id s) x id = false).
  { intros x. unfold wantA, wantP, wantM, tset. rewrite tid_eqb_refl', Hs. auto. }
  assert (Hoth : forall x id', tid_eqb id' id = false ->
            wantA (tset tv id s) rv x id' = wantA tv rv x id' /\ wantP (tset tv id s) x id' = wantP tv x id' /\ wantM (tset tv id s) x id' = wantM tv x id').
  { intros x id' E. unfold wantA, wantP, wantM, tset. rewrite E. auto. }
  assert (Hall : forall x id', inA wv' x id' = wantA (tset tv id s) rv x id' /\ inP wv' x id' = wantP (tset tv id s) x id' /\ inM wv' x id' = wantM (tset tv id s) x id').
  { intros x id'. destruct (n_mem x ws) eqn:Ex.
    - destruct (Hin x Ex) as [_ F]. destruct (F id') as (-> & -> & ->).
      destruct (tid_eqb id' id) eqn:E.
      + apply tid_eqb_eq in E. subst id'. destruct (Hnew x) as (-> & -> & ->). auto.
      + destruct (Hoth x id' E) as (-> & -> & ->). destruct (Hold x Ex id' E) as (-> & -> & ->). auto.
    - assert (Ei : inA wv' x id' = inA wv x id' /\ inP wv' x id' = inP wv x id' /\ inM wv' x id' = inM wv x id')
        by (unfold inA, inP, inM; rewrite (Hout x Ex); auto).
      destruct Ei as (-> & -> & ->). rewrite (wi_A _ _ _ H), (wi_P _ _ _ H), (wi_M _ _ _ H).
      destruct (tid_eqb id' id) eqn:E.
      + apply tid_eqb_eq in E. subst id'. destruct (Hnew x) as (-> & -> & ->).
        unfold wantA, wantP, wantM. rewrite Hp, Ex. auto.
      + destruct (Hoth x id' E) as (-> & -> & ->). auto. }
  constructor.
  - intros x. destruct (n_mem x ws) eqn:Ex; [apply (Hin x Ex) | rewrite (Hout x Ex); apply (wi_sets _ _ _ H)].
  - intros x id'. apply Hall.
  - intros x id'. apply Hall.
  - intros x id'. apply Hall.
  - intros id'. unfold tset. destruct (tid_eqb id' id) eqn:E; [apply tid_eqb_eq in E; subst; congruence | apply (wi_R _ _ _ H)].
Qed.

Lemma V_putM tv wv rv id s ws wv' :
  WIv tv wv rv -> wl tv rv id ->
  (forall x, n_mem x ws = false -> wv' x = wv x) ->
  (forall x, n_mem x ws = true -> wfree wv x /\ exists wk root, wv' x = Some wk /\ w_assign wk = Mn id root) ->
  plo s = PM ws ->
  WIv (tset tv id s) wv' rv.
Proof.
  intros H Hl Hout Hin Hs.
  pose proof (wl_none _ _ _ _ H Hl) as Hr.
  assert (Hoth : forall x id', tid_eqb id' id = false ->
            wantA (tset tv id s) rv x id' = wantA tv rv x id' /\ wantP (tset tv id s) x id' = wantP tv x id' /\ wantM (tset tv id s) x id' = wantM tv x id').
  { intros x id' E. unfold wantA, wantP, wantM, tset. rewrite E. auto. }
  assert (Hnew : forall x, wantA (tset tv id s) rv x id = false /\ wantP (tset tv id s) x id = false /\ wantM (tset tv id s) x id = n_mem x ws).
  { intros x. unfold wantA, wantP, wantM, tset. rewrite tid_eqb_refl', Hs. auto. }
  assert (Hall : forall x id', inA wv' x id' = wantA (tset tv id s) rv x id' /\ inP wv' x id' = wantP (tset tv id s) x id' /\ inM wv' x id' = wantM (tset tv id s) x id').
  { intros x id'. destruct (n_mem x ws) eqn:Ex.
    - destruct (Hin x Ex) as [F (wk & root & E1 & E2)]. destruct (mn_ins wv' x wk id root id' E1 E2) as (-> & -> & ->).
      destruct (tid_eqb id' id) eqn:E.
      + apply tid_eqb_eq in E. subst id'. destruct (Hnew x) as (-> & -> & ->). rewrite tid_eqb_refl', Ex. auto.
      + destruct (Hoth x id' E) as (-> & -> & ->). rewrite <- (wi_A _ _ _ H), <- (wi_P _ _ _ H), <- (wi_M _ _ _ H).
        destruct (F id') as (-> & -> & ->). rewrite tid_eqb_sym, E. auto.
    - assert (Ei : inA wv' x id' = inA wv x id' /\ inP wv' x id' = inP wv x id' /\ inM wv' x id' = inM wv x id')
        by (unfold inA, inP, inM; rewrite (Hout x Ex); auto).
      destruct Ei as (-> & -> & ->).
      destruct (tid_eqb id' id) eqn:E.
      + apply tid_eqb_eq in E. subst id'. destruct (Hnew x) as (-> & -> & ->). rewrite Ex. apply (wl_wants _ _ _ _ H Hl).
      + destruct (Hoth x id' E) as (-> & -> & ->). rewrite (wi_A _ _ _ H), (wi_P _ _ _ H), (wi_M _ _ _ H). auto. }
  constructor.
  - intros x. destruct (n_mem x ws) eqn:Ex; [|rewrite (Hout x Ex); apply (wi_sets _ _ _ H)].
    destruct (Hin x Ex) as [_ (wk & root & E1 & E2)]. intros wk0 a p f E0 Ea. rewrite E1 in E0. inversion E0; subst. congruence.
  - intros x id'. apply Hall.
  - intros x id'. apply Hall.
  - intros x id'. apply Hall.
  - intros id'. unfold tset. destruct (tid_eqb id' id) eqn:E; [apply tid_eqb_eq in E; subst; congruence | apply (wi_R _ _ _ H)].
Qed.

Lemma V_shrinkM tv wv rv id s ws w :
  WIv tv wv rv -> plo (tv id) = PM ws -> inM wv w id = true ->
  plo s = PM (filter (fun y => negb (N.eqb y w)) ws) ->
  WIv (tset tv id s) (wset wv w None) rv.
Proof.
  intros H Hp Hm Hs.
  assert (Hr : rv id = None) by (eapply wi_R_none; [exact H | rewrite Hp; discriminate]).
  destruct (inM_mn _ _ _ Hm) as (wk & t & root & E1 & E2 & ->).
  eapply (WIv_ext _ _ (rset rv id (rv id))); [reflexivity | reflexivity | intros x; symmetry; apply rset_same |].
  apply V_point; [exact H | apply sets_ok_none | | | rewrite Hr; congruence].
  - intros id' E. destruct (in_wset_none wv w id') as (-> & -> & ->).
    destruct (mn_ins wv w wk id root id' E1 E2) as (-> & -> & ->). rewrite tid_eqb_sym, E. auto.
  - intros w'. unfold wantA, wantP, wantM, tset, rset. rewrite tid_eqb_refl', Hs, n_mem_filter_ne.
    destruct (N.eqb w' w) eqn:Ew.
    + apply N.eqb_eq in Ew. subst w'. destruct (in_wset_none wv w id) as (-> & -> & ->). rewrite andb_false_r. auto.
    + destruct (in_wset_other wv w None w' id Ew) as (-> & -> & ->).
      rewrite (wi_A _ _ _ H), (wi_P _ _ _ H), (wi_M _ _ _ H). unfold wantA, wantP, wantM. rewrite Hp, andb_true_r. auto.
Qed.
