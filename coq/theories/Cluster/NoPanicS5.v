(** C09 for the scheduling step, part 5: proactive filling ([prefill_mark], [prefill_workers],
    [prefill_queues]) never panics - no obligation of the solver, everything follows from the
    worker-set and queue invariants and the arithmetic of [process_proactive_filling]. *)
From HQ Require Import Base.Prelude Cluster.Types Cluster.Core Cluster.Reactor Cluster.Worker Cluster.Server Cluster.Sys Cluster.ProofsJob Cluster.ProofsMore Cluster.ProofsStep Cluster.BijBase Cluster.BijCore Cluster.InvWBase Cluster.InvWView Cluster.InvWCore Cluster.InvWReact Cluster.InvWServer Cluster.InvWSched Cluster.InvQBase Cluster.InvQTake Cluster.InvQInv Cluster.InvQOps Cluster.InvQNoDup Cluster.InvQReact Cluster.InvQSched Cluster.NoPanicS1 Cluster.NoPanicS2 Cluster.NoPanicS3 Cluster.NoPanicS4.
From Coq Require Import ZArith Lia Sorting.Sorted.
Local Open Scope N_scope.

Arguments N.add : simpl never.
Arguments N.sub : simpl never.
Arguments N.mul : simpl never.
Arguments N.div : simpl never.
Arguments N.min : simpl never.

(** The waiting tasks of a core: the only tasks proactive filling may touch. *)
Definition waitT (c : core) : tid -> Prop := fun y => exists tk, find_task (c_tasks c) y = Some tk /\ is_waiting tk = true.

Lemma waiting_back W Q c c' y : SF (waitT c) W Q c c' -> waitT c' y -> waitT c y.
Proof.
  intros A (tk' & Hf' & Hw'). destruct (find_task (c_tasks c) y) as [tk|] eqn:E.
  - destruct (is_waiting tk) eqn:Ew; [exists tk; auto|]. exfalso.
    assert (Hn : ~ waitT c y) by (intros (t0 & H0 & H1); rewrite E in H0; inversion H0; subst; congruence).
    rewrite (sf_t _ _ _ _ _ A y Hn), E in Hf'. inversion Hf'; subst. congruence.
  - rewrite (sf_tnone _ _ _ _ _ A y E) in Hf'. discriminate.
Qed.

(** * [prefill_mark] *)
Lemma prefill_mark_ok w l : forall c,
  WI c -> NoDup l -> (forall id, In id l -> waitT c id) -> snw c w ->
  exists c', prefill_mark c w l = Ok c' /\ SF (fun y => In y l) (eq w) (fun _ => False) c c' /\ SNP c c' /\ c_queues c' = c_queues c.
Proof.
  induction l as [|id r IH]; intros c HW Hnd Hwt Hsn; cbn [prefill_mark].
  - exists c. split; [reflexivity|]. split; [apply SF_refl|]. split; [apply SNP_refl | reflexivity].
  - inversion Hnd as [|? ? Hni Hnr]; subst.
    destruct (Hwt id (or_introl eq_refl)) as (t & Ht & Hw8).
    destruct (find_task_some _ _ _ Ht) as [_ Hid].
    destruct Hsn as (wk & a & p & f & Hw & Ea).
    destruct (find_worker_some _ _ _ Hw) as [_ Hwi].
    assert (Hnp : tid_mem id p = false).
    { destruct HW as (_ & _ & Hv & _). pose proof (wi_P _ _ _ Hv w id) as X.
      unfold inP, wantP, hv, x0 in X. rewrite Hw, Ea, (TV_find _ _ _ Ht) in X. cbn [plo] in X.
      unfold is_waiting in Hw8. destruct (t_state t); try discriminate. exact X. }
    set (wk' := with_assign wk (Sn a (tid_insert id p) f)).
    set (c2 := upd_worker (upd_task c (with_state t (Prefilled w))) wk').
    assert (E1 : forall r0, prefill_mark c w (id :: r0) = prefill_mark c2 w r0).
    { intros r0. cbn [prefill_mark]. unfold get_task at 1. rewrite Ht. cbn [bind]. rewrite Hw8. cbn [negb].
      unfold get_worker at 1. cbn [c_workers upd_task with_tasks]. rewrite Hw. cbn [bind].
      unfold insert_prefill_task. rewrite Ea, Hnp. cbn [bind]. reflexivity. }
    pose proof (prefill_mark_WI [id] c w c2 HW (E1 [])) as W2.
    assert (F1 : SF (eq id) (eq w) (fun _ => False) c c2).
    { eapply SF_trans; [eapply SF_upd_task; [exact Ht | reflexivity]|].
      eapply SF_upd_worker; [exact Hw | exact Hwi | left; reflexivity]. }
    assert (S1 : SNP c c2).
    { eapply SNP_trans; [apply (SNP_same c (upd_task c (with_state t (Prefilled w)))); reflexivity|].
      eapply SNP_upd_worker; [exact Hw | exact Hwi | reflexivity]. }
    destruct (IH c2 W2 Hnr) as (c' & E' & F' & S' & Q').
    { intros y Hy. destruct (Hwt y (or_intror Hy)) as (ty & Hty & Hwy). exists ty. split; [|exact Hwy].
      rewrite (sf_t _ _ _ _ _ F1 y); [exact Hty|]. intros <-. contradiction. }
    { apply S1. exists wk, a, p, f. auto. }
    exists c'. split; [change (prefill_mark c w (id :: r) = Ok c'); rewrite E1; exact E'|].
    split; [|split; [exact (SNP_trans _ _ _ S1 S')|rewrite Q'; reflexivity]].
    eapply SF_trans; [eapply SF_weaken; [| | |exact F1]; [intros y <-; left; reflexivity | auto | auto]|].
    eapply SF_weaken; [| | |exact F']; auto. intros y Hy. right. exact Hy.
Qed.

(** * One worker's share of the top entry *)
Lemma tff_prefill e t psize k :
  eok e -> 0 < psize -> psize * (1 + k) <= nlen (qe_ids e) ->
  exists a b cnt, take_from_first (e :: t) psize = Ok (a, match b with [] => t | _ => mkQE (qe_prio e) true b :: t end, cnt) /\
    qe_ids e = a ++ b /\ psize * k <= nlen b.
Proof.
  intros [Hs Hone] Hp Hle. rewrite N.mul_add_distr_l, N.mul_1_r in Hle. destruct (qe_more e) eqn:Em.
  - destruct (take_n (N.to_nat psize) (qe_ids e)) as [a b] eqn:Et.
    pose proof (take_n_app _ _ _ _ Et) as Eab. destruct (take_n_len _ _ _ _ Et) as [L1 _].
    exists a, b, (psize - nlen a). split; [apply take_from_first_more; assumption|]. split; [exact Eab|].
    assert (La : nlen (qe_ids e) = nlen a + nlen b) by (rewrite Eab; apply nlen_app).
    unfold nlen in *. lia.
  - destruct (Hone eq_refl) as (x & Ex). exists (qe_ids e), [], (psize - 1).
    split; [apply take_from_first_one; [exact Em | lia]|]. split; [rewrite app_nil_r; reflexivity|].
    rewrite Ex in Hle. unfold nlen in *. cbn [length] in *. lia.
Qed.

(** The state of queue [qi] the loop over the eligible workers relies on. *)
Definition pf_queue_ok (c : core) (qi : nat) (psize : N) (k : N) : Prop :=
  exists q e t, nth_error (c_queues c) qi = Some q /\ q_ready q = e :: t /\
    (q_prefill q = None \/ exists ts, q_prefill q = Some (qe_prio e, ts)) /\
    psize * k <= nlen (qe_ids e) /\
    (forall id, In id (qe_ids e) -> waitT c id).

Lemma prefill_workers_ok qi psize ws : forall c m,
  WI c -> QI none [] c -> MOK c m -> 0 < psize -> (forall w, In w ws -> snw c w) ->
  (ws <> [] -> pf_queue_ok c qi psize (nlen ws)) ->
  exists c' m', prefill_workers c m qi psize ws = Ok (c', m') /\ WI c' /\ QI none [] c' /\ MOK c' m' /\
    SF (waitT c) (fun _ => True) (eq qi) c c'.
Proof.
  induction ws as [|w rest IH]; intros c m HW V HM Hp Hsn Hqk; cbn [prefill_workers].
  - exists c, m. split; [reflexivity|]. split; [exact HW|]. split; [exact V|]. split; [exact HM | apply SF_refl].
  - destruct (Hqk ltac:(discriminate)) as (q & e & t & Hq & Er & Hpf & Hsz & Hwt).
    pose proof (proj2 (nth_queue_ok _ _ _) Hq) as Hnq.
    pose proof (nth_error_Forall _ _ _ _ (qv_wf _ _ _ _ _ _ V) Hq) as WQ.
    assert (He : eok e) by (destruct WQ as [W1 _]; rewrite Er in W1; exact (proj1 (WFE_inv _ _ W1))).
    rewrite nlen_cons in Hsz.
    destruct (tff_prefill e t psize (nlen rest) He Hp Hsz) as (a & b & cnt & Etf & Eab & Hb).
    set (es' := match b with [] => t | _ :: _ => mkQE (qe_prio e) true b :: t end) in *.
    assert (Etk : exists ts', q_take_tasks_for_prefill q psize = Ok (a, mkQ es' (Some (qe_prio e, ts')))).
    { unfold q_take_tasks_for_prefill. rewrite Er, Etf. cbn [bind].
      destruct Hpf as [Hn|(ts & Hs)]; [rewrite Hn; eexists; reflexivity | rewrite Hs, Z.eqb_refl; eexists; reflexivity]. }
    destruct Etk as (ts' & Etk). set (q' := mkQ es' (Some (qe_prio e, ts'))) in *.
    set (c1 := with_queues c (set_queue (c_queues c) qi q')).
    assert (W1 : WI c1) by (eapply WIX_frame; [| | | |exact HW]; reflexivity).
    assert (Hnd : NoDup (a ++ b)) by (rewrite <- Eab; apply SL_NoDup; exact (proj1 He)).
    destruct (prefill_mark_ok w a c1 W1 (NoDup_app_l _ _ Hnd)) as (c2 & E2 & F2 & S2 & Q2).
    { intros id Hid. apply (Hwt id). rewrite Eab. apply in_or_app. left. exact Hid. }
    { apply (SNP_same c c1 eq_refl). apply Hsn. left. reflexivity. }
    set (m2 := wu_set m (mkWU w (wu_assigned (wu_get m w)) (wu_prefills (wu_get m w) ++ a) (wu_retracts (wu_get m w)))).
    assert (E1 : forall r0, prefill_workers c m qi psize (w :: r0) = prefill_workers c2 m2 qi psize r0).
    { intros r0. cbn [prefill_workers]. rewrite Hnq. cbn [bind]. rewrite Etk. cbn [bind].
      change (with_queues c (set_queue (c_queues c) qi q')) with c1. rewrite E2. cbn [bind]. reflexivity. }
    pose proof (prefill_workers_WI [w] c m qi psize c2 m2 HW (E1 [])) as W2.
    pose proof (prefill_workers_QI [w] c m qi psize c2 m2 V (E1 [])) as V2.
    assert (F02 : SF (fun y => In y a) (eq w) (eq qi) c c2).
    { eapply SF_trans; [apply SF_set_queue; reflexivity|]. eapply SF_weaken; [| | |exact F2]; auto. intros j []. }
    assert (M2 : MOK c2 m2).
    { apply MOK_add_prefills; [eapply MOK_SF; [exact F02 | exact HM] | |].
      - apply (sf_wsome _ _ _ _ _ F02). destruct (Hsn w (or_introl eq_refl)) as (wk & ? & ? & ? & Hw & _). congruence.
      - intros id Hid. eapply SF_task_some; [exact F02|]. destruct (Hwt id) as (tk & Htk & _); [rewrite Eab; apply in_or_app; left; exact Hid | congruence]. }
    destruct (IH c2 m2 W2 V2 M2 Hp) as (c' & m' & E' & W' & V' & M' & F').
    { intros y Hy. apply S2. apply (SNP_same c c1 eq_refl). apply Hsn. right. exact Hy. }
    { intros Hne. assert (Hbn : 0 < nlen b).
      { destruct rest; [congruence|]. rewrite nlen_cons in Hb. rewrite N.mul_add_distr_l, N.mul_1_r in Hb. lia. }
      destruct b as [|b0 bb] eqn:Eb; [cbn in Hbn; lia|]. rewrite <- Eb in *.
      exists q', (mkQE (qe_prio e) true b), t. split.
      - rewrite Q2. cbn [c1 c_queues with_queues]. eapply nth_set_queue_same. exact Hq.
      - split; [subst q' es'; rewrite Eb; reflexivity|]. split; [right; exists ts'; reflexivity|]. split; [exact Hb|].
        cbn [qe_ids]. intros id Hid. destruct (Hwt id) as (tk & Htk & Hwk); [rewrite Eab; apply in_or_app; right; exact Hid|].
        exists tk. split; [|exact Hwk]. rewrite (sf_t _ _ _ _ _ F02 id); [exact Htk|].
        intros X. exact (NoDup_app_disj _ _ _ Hnd X Hid). }
    exists c', m'. split; [change (prefill_workers c m qi psize (w :: rest) = Ok (c', m')); rewrite E1; exact E'|].
    split; [exact W'|]. split; [exact V'|]. split; [exact M'|].
    assert (F02' : SF (waitT c) (fun _ => True) (eq qi) c c2).
    { eapply SF_weaken; [| | |exact F02]; auto. intros y Hy. apply Hwt. rewrite Eab. apply in_or_app. left. exact Hy. }
    eapply SF_trans; [exact F02'|]. eapply SF_weaken; [| | |exact F']; auto.
    intros y Hy. eapply waiting_back; [exact F02' | exact Hy].
Qed.

(** * [prefill_queues]: the loop over all queues *)
Lemma top_ids_live c qi q : QI none [] c -> nth_error (c_queues c) qi = Some q ->
  forall id, In id (q_top_task_ids q) -> find_task (c_tasks c) id <> None.
Proof.
  intros V Hq id Hin. unfold q_top_task_ids in Hin. destruct (q_ready q) as [|e t] eqn:Er; [destruct Hin|].
  assert (Hm : member q id).
  { exists (qe_prio e). left. unfold RdyAt. rewrite Er. exists e. split; [left; reflexivity | auto]. }
  destruct (qv_live _ _ _ _ _ _ V qi q id Hq Hm) as (t0 & Hf & _). congruence.
Qed.

Lemma existsb_false {A} (f : A -> bool) l : existsb f l = false -> forall x, In x l -> f x = false.
Proof.
  intros H x Hx. destruct (f x) eqn:E; [|reflexivity]. rewrite <- H. symmetry. apply existsb_exists. exists x. auto.
Qed.

Theorem prefill_queues_ok worder top n : forall c m qi,
  WI c -> QI none [] c -> MOK c m -> (qi + n = length (c_queues c))%nat ->
  exists c' m', prefill_queues c m worder qi n top = Ok (c', m') /\ WI c' /\ QI none [] c' /\ MOK c' m' /\
    SF (waitT c) (fun _ => True) (fun _ => True) c c'.
Proof.
  induction n as [|k IH]; intros c m qi HW V HM Hlen; cbn [prefill_queues].
  - exists c, m. split; [reflexivity|]. split; [exact HW|]. split; [exact V|]. split; [exact HM | apply SF_refl].
  - destruct (nth_error_ex (c_queues c) qi ltac:(lia)) as (q & Hq).
    rewrite (proj2 (nth_queue_ok _ _ _) Hq). cbn [bind].
    assert (Hskip : exists c' m', prefill_queues c m worder (S qi) k top = Ok (c', m') /\ WI c' /\ QI none [] c' /\ MOK c' m' /\
              SF (waitT c) (fun _ => True) (fun _ => True) c c') by (apply IH; [exact HW | exact V | exact HM | lia]).
    destruct (q_top_priority q) as [tp|] eqn:Etp; [|exact Hskip].
    destruct (negb (Z.eqb tp top)); [exact Hskip|].
    destruct (N.eqb (q_top_size_no_prefill q - c_reserve c) 0) eqn:Esz; [exact Hskip|].
    destruct (existsb _ (q_top_task_ids q)) eqn:Eex.
    + assert (Eall : forallb (fun id => match find_task (c_tasks c) id with Some _ => true | None => false end) (q_top_task_ids q) = true).
      { apply forallb_forall. intros id Hid. pose proof (top_ids_live c qi q V Hq id Hid) as X.
        destruct (find_task (c_tasks c) id); [reflexivity | congruence]. }
      rewrite Eall. exact Hskip.
    + match goal with |- context [filter ?f worder] => set (elig := f) end.
      destruct (filter elig worder) as [|w0 wr] eqn:Ews; [exact Hskip|].
      match goal with |- context [N.eqb ?ps 0] => set (psize := ps) end.
      destruct (N.eqb psize 0) eqn:Eps; [exact Hskip|].
      apply N.eqb_neq in Eps. apply N.eqb_neq in Esz.
      (* the shape of the queue *)
      unfold q_top_priority in Etp. destruct (q_ready q) as [|e t] eqn:Er; [discriminate|].
      assert (Hpf : (q_prefill q = None \/ exists ts, q_prefill q = Some (qe_prio e, ts)) /\ q_top_size_no_prefill q = nlen (qe_ids e)).
      { unfold q_top_size_no_prefill in *. rewrite Er in *. destruct (q_prefill q) as [[pp ts]|]; [|split; [left; reflexivity | reflexivity]].
        destruct (Z.eqb pp (qe_prio e)) eqn:Epp; [|exfalso; apply Esz; lia].
        apply Z.eqb_eq in Epp. subst pp. split; [right; exists ts; reflexivity | reflexivity]. }
      destruct Hpf as [Hpf Htop].
      assert (Hwt : forall id, In id (qe_ids e) -> waitT c id).
      { intros id Hid. pose proof (existsb_false _ _ Eex id) as X. unfold q_top_task_ids in X. rewrite Er in X. specialize (X Hid).
        cbn beta in X. destruct (find_task (c_tasks c) id) as [tk|] eqn:Ef; [|discriminate]. exists tk. split; [exact Ef|].
        destruct (is_waiting tk); [reflexivity | discriminate]. }
      assert (Hsn : forall w, In w (w0 :: wr) -> snw c w).
      { intros w Hw. rewrite <- Ews in Hw. apply filter_In in Hw. destruct Hw as [_ Hw]. unfold elig in Hw.
        destruct (find_worker (c_workers c) w) as [wk|] eqn:Efw; [|discriminate].
        destruct (w_assign wk) as [a p f|] eqn:Ea; [|discriminate]. exists wk, a, p, f. auto. }
      assert (Hsz : psize * nlen (w0 :: wr) <= nlen (qe_ids e)).
      { set (nw := nlen (w0 :: wr)) in *. assert (Hnw : nw <> 0) by (unfold nw; rewrite nlen_cons; lia).
        set (size := q_top_size_no_prefill q - c_reserve c) in *.
        assert (H1 : psize <= size / nw) by (unfold psize; apply N.le_min_l).
        pose proof (N.mul_le_mono_r _ _ nw H1) as H2. pose proof (N.mul_div_le size nw Hnw) as H3.
        rewrite (N.mul_comm (size / nw) nw) in H2. unfold size in *. lia. }
      destruct (prefill_workers_ok qi psize (w0 :: wr) c m HW V HM ltac:(lia) Hsn) as (c1 & m1 & E1 & W1 & V1 & M1 & F1).
      { intros _. exists q, e, t. auto. }
      rewrite E1. cbn [bind].
      assert (F1' : SF (waitT c) (fun _ => True) (fun _ => True) c c1) by (eapply SF_weaken; [| | |exact F1]; auto).
      destruct (IH c1 m1 (S qi) W1 V1 M1) as (c2 & m2 & E2 & W2 & V2 & M2 & F2); [rewrite (sf_qlen _ _ _ _ _ F1); lia|].
      exists c2, m2. split; [exact E2|]. split; [exact W2|]. split; [exact V2|]. split; [exact M2|].
      eapply SF_trans; [exact F1'|]. eapply SF_weaken; [| | |exact F2]; auto.
      intros y Hy. eapply waiting_back; [exact F1' | exact Hy].
Qed.
