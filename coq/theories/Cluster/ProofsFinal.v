(** C01 for the whole system model: an outcome is final.  Along ANY history of [Sys.step]
    operations, once the job layer has recorded an outcome (finished / failed / canceled / aborted)
    for a task, every later state shows the same outcome, or the task's whole job has been
    forgotten - and a forgotten job id is never used again. *)
From HQ Require Import Base.Prelude Cluster.Types Cluster.Core Cluster.Reactor Cluster.Worker Cluster.Server Cluster.Sys Cluster.Monitors Cluster.ProofsJob Cluster.ProofsMore Cluster.ProofsTerminal Cluster.ProofsStep.
From Coq Require Import ZArith Lia.
Require Import ZifyBool ZifyN.
Local Open Scope N_scope.

Arguments N.add : simpl never.
Arguments N.sub : simpl never.

Definition cnt_of (s : st) : N := h_counter (hq_of s).
Definition absent (s : st) (id : N) : Prop := find_job (h_jobs (hq_of s)) id = None.
Definition fresh (s : st) : Prop := forall j, In j (h_jobs (hq_of s)) -> j_id j < cnt_of s.

(** The relation every operation establishes between the job layer before and after. *)
Record G (s s' : st) : Prop := mkG {
  g_tpres : forall t, tpres s s' t;
  g_absent : forall id, id < cnt_of s -> absent s id -> absent s' id;
  g_cnt : cnt_of s <= cnt_of s';
  g_fresh : fresh s -> fresh s'
}.

Lemma G_refl s : G s s.
Proof. constructor; auto using tpres_refl. lia. Qed.

Lemma G_same s s' : hq_of s' = hq_of s -> G s s'.
Proof.
  intros E. constructor.
  - intros t v Hv Ht. left. unfold task_state in *. rewrite E. exact Hv.
  - intros id _ Ha. unfold absent in *. rewrite E. exact Ha.
  - unfold cnt_of. rewrite E. lia.
  - unfold fresh, cnt_of. rewrite E. auto.
Qed.

Lemma task_state_job s t v : task_state s t = Some v -> exists j, find_job (h_jobs (hq_of s)) (fst t) = Some j.
Proof. unfold task_state. destruct (find_job _ (fst t)) as [j|]; [eauto | discriminate]. Qed.

(** Transitivity needs freshness of the first state: the job of a terminal task has an id below
    the counter, so once absent it stays absent. *)
Lemma G_trans s1 s2 s3 : fresh s1 -> G s1 s2 -> G s2 s3 -> G s1 s3.
Proof.
  intros F [T1 A1 C1 F1] [T2 A2 C2 F2]. constructor.
  - intros t v Hv Ht. destruct (T1 t v Hv Ht) as [H|H]; [exact (T2 t v H Ht)|].
    right. apply A2; [|exact H].
    destruct (task_state_job _ _ _ Hv) as (j & Hj).
    pose proof (F _ (find_job_in _ _ _ Hj)) as Hlt. rewrite (find_job_id _ _ _ Hj) in Hlt. unfold cnt_of in *. lia.
  - intros id Hlt Ha. apply A2; [unfold cnt_of in *; lia | apply A1; assumption].
  - lia.
  - auto.
Qed.

(** * Job-layer primitives *)
Lemma in_find js j : In j js -> exists j', find_job js (j_id j) = Some j'.
Proof.
  induction js as [|h r IH]; [intros []|]. intros [->|H]; cbn [find_job].
  - rewrite N.eqb_refl. eauto.
  - destruct (N.eqb (j_id j) (j_id h)); [eauto | auto].
Qed.

(** An operation that keeps absent ids absent and the counter unchanged keeps freshness. *)
Lemma fresh_from_absent s s' :
  (forall id, absent s id -> absent s' id) -> cnt_of s' = cnt_of s -> fresh s -> fresh s'.
Proof.
  intros A C F j Hj. destruct (in_find _ _ Hj) as (j' & Hf).
  destruct (find_job (h_jobs (hq_of s)) (j_id j)) as [j0|] eqn:E.
  - pose proof (F _ (find_job_in _ _ _ E)) as Hlt. rewrite (find_job_id _ _ _ E) in Hlt. rewrite C. exact Hlt.
  - specialize (A _ E). unfold absent in A. congruence.
Qed.

Lemma G_of s s' : (forall t, tpres s s' t /\ keeps_absent s s') -> cnt_of s' = cnt_of s -> G s s'.
Proof.
  intros H C. constructor.
  - intros t. apply H.
  - intros id _ Ha. destruct (H (0, 0)) as [_ K]. apply K. exact Ha.
  - lia.
  - apply fresh_from_absent; [|exact C]. destruct (H (0, 0)) as [_ K]. exact K.
Qed.

(** Counter lemmas *)
Lemma cnt_set_job s j : cnt_of (hq_set_job s j) = cnt_of s. Proof. reflexivity. Qed.
Lemma cnt_emit s o : cnt_of (emit s o) = cnt_of s. Proof. reflexivity. Qed.

Lemma check_termination_cnt s jid s' : check_termination s jid = Ok s' -> cnt_of s' = cnt_of s.
Proof.
  unfold check_termination. intros H. inv_binds H.
  repeat match type of H with (if ?b then _ else _) = _ => destruct b end; inversion H; subst; reflexivity.
Qed.

Lemma process_task_started_cnt s t i ws rv s' : process_task_started s t i ws rv = Ok s' -> cnt_of s' = cnt_of s.
Proof.
  unfold process_task_started. intros H. inv_binds H.
  destruct (jt_find _ _); [|discriminate]. inversion H; subst. reflexivity.
Qed.

Lemma process_task_finished_cnt s t s' : process_task_finished s t = Ok s' -> cnt_of s' = cnt_of s.
Proof.
  unfold process_task_finished. intros H. inv_binds H.
  destruct (jt_find _ _) as [[]|]; try discriminate. inv_binds H.
  apply check_termination_cnt in H. rewrite H. reflexivity.
Qed.

Lemma set_waiting_all_cnt ts : forall s s', set_waiting_all s ts = Ok s' -> cnt_of s' = cnt_of s.
Proof.
  induction ts as [|t r IH]; cbn [set_waiting_all]; intros s s' H; [inversion H; reflexivity|].
  apply bind_ok in H. destruct H as (s1 & H1 & H). rewrite (IH _ _ H).
  unfold set_waiting_state in H1. inv_binds H1.
  destruct (jt_find _ _) as [[]|]; try discriminate; try (inversion H1; subst; reflexivity).
  inv_binds H1. inversion H1; subst. reflexivity.
Qed.

Lemma abort_tasks_cnt s jid ids s' : abort_tasks s jid ids = Ok s' -> cnt_of s' = cnt_of s.
Proof.
  unfold abort_tasks. destruct ids; [intros H; inversion H; reflexivity|].
  intros H. inv_binds H. apply check_termination_cnt in H. rewrite H. reflexivity.
Qed.

Lemma set_cancel_state_cnt s jid ids s' : set_cancel_state s jid ids = Ok s' -> cnt_of s' = cnt_of s.
Proof.
  unfold set_cancel_state. destruct ids; [intros H; inversion H; reflexivity|].
  intros H. inv_binds H. apply check_termination_cnt in H. rewrite H. reflexivity.
Qed.

Lemma process_task_failed_cnt s t ab k s' ids : process_task_failed s t ab k = Ok (s', ids) -> cnt_of s' = cnt_of s.
Proof.
  unfold process_task_failed. intros H.
  apply bind_ok in H. destruct H as (s1 & H1 & H). apply abort_tasks_cnt in H1.
  apply bind_ok in H. destruct H as (j & _ & H).
  apply bind_ok in H. destruct H as (j1 & _ & H).
  apply bind_ok in H. destruct H as (s2 & H2 & H). apply check_termination_cnt in H2.
  apply bind_ok in H. destruct H as (j2 & _ & H).
  assert (E2 : cnt_of s2 = cnt_of s) by (rewrite H2; cbn; exact H1).
  destruct (j_maxfails j2); [|inversion H; subst; exact E2].
  destruct (N.ltb _ _); [|inversion H; subst; exact E2].
  apply bind_ok in H. destruct H as (s3 & H3 & H). inversion H; subst. apply abort_tasks_cnt in H3. congruence.
Qed.

(** G for the primitives *)
Lemma G_started s t i ws rv s' : process_task_started s t i ws rv = Ok s' -> G s s'.
Proof. intros H. apply G_of; [intros x; eapply process_task_started_tpres; exact H | eapply process_task_started_cnt; exact H]. Qed.
Lemma G_finished s t s' : process_task_finished s t = Ok s' -> G s s'.
Proof. intros H. apply G_of; [intros x; eapply process_task_finished_tpres; exact H | eapply process_task_finished_cnt; exact H]. Qed.
Lemma G_failed s t ab k s' ids : process_task_failed s t ab k = Ok (s', ids) -> G s s'.
Proof. intros H. apply G_of; [intros x; eapply process_task_failed_tpres; exact H | eapply process_task_failed_cnt; exact H]. Qed.
Lemma G_worker_lost s w running reason s' : process_worker_lost s w running reason = Ok s' -> G s s'.
Proof.
  unfold process_worker_lost. intros H. apply bind_ok in H. destruct H as (s1 & H1 & H). inversion H; subst.
  apply G_of; [intros x; apply set_waiting_all_tpres with (t := x) in H1; exact H1 | apply set_waiting_all_cnt in H1; exact H1].
Qed.
Lemma G_set_cancel s jid ids s' : set_cancel_state s jid ids = Ok s' -> G s s'.
Proof. intros H. apply G_of; [intros x; eapply set_cancel_state_tpres; exact H | eapply set_cancel_state_cnt; exact H]. Qed.

(** * Reactor functions *)
Lemma fresh_same s s' : hq_of s' = hq_of s -> fresh s -> fresh s'.
Proof. intros E F. apply (g_fresh _ _ (G_same _ _ E)). exact F. Qed.

Lemma G_task_failed s w id k s' : fresh s -> task_failed s w id k = Ok s' -> G s s'.
Proof.
  intros F Hc. unfold task_failed in Hc.
  destruct (find_task _ id) as [t|]; [|inversion Hc; subst; apply G_refl].
  inv_binds Hc.
  match goal with X : process_task_failed ?s0 _ _ _ = Ok (?s1, ?ids) |- _ =>
    assert (G0 : G s s0) by (apply G_same; reflexivity);
    assert (G1 : G s0 s1) by (eapply G_failed; exact X);
    assert (G01 : G s s1) by (eapply G_trans; eassumption);
    destruct ids; [inversion Hc; subst; exact G01|] end.
  eapply G_trans; [exact F | exact G01 | apply G_same; eapply on_cancel_tasks_hq; exact Hc].
Qed.

Lemma G_task_finished s w id s' b : fresh s -> task_finished s w id = Ok (s', b) -> G s s'.
Proof.
  intros F Hc. unfold task_finished in Hc.
  destruct (find_task _ id) as [t|]; [|inversion Hc; subst; apply G_refl].
  inv_binds Hc.
  match goal with X : process_task_finished ?s0 _ = Ok ?s1 |- _ =>
    assert (G01 : G s s1) by (eapply G_trans; [exact F | apply (G_same s s0); reflexivity | eapply G_finished; exact X]) end.
  match goal with X : process_retracted _ _ = Ok _ |- _ => apply process_retracted_hq in X; cbn in X; rename X into R1 end.
  match type of Hc with match ?st with _ => _ end = _ => destruct st; try discriminate end.
  inversion Hc; subst. eapply G_trans; [exact F | exact G01 | apply G_same; unfold hq_of, st_core in *; cbn in *; exact R1].
Qed.

Lemma G_task_running s w id rv s' b : fresh s -> task_running s w id rv = Ok (s', b) -> G s s'.
Proof.
  intros F Hc. unfold task_running in Hc.
  destruct (find_task _ id) as [t|]; [|inversion Hc; subst; apply G_refl].
  inv_binds Hc. inversion Hc; subst.
  match goal with X : process_task_started ?s1 _ _ _ _ = Ok _ |- _ =>
    eapply G_trans; [exact F | apply (G_same s s1) | eapply G_started; exact X] end.
  match goal with X : match t_state t with _ => _ end = Ok _ |- _ => rename X into Hm end.
  destruct (t_state t); try discriminate.
  - destruct (negb (N.eqb w0 w)); [discriminate|]. destruct (negb (N.eqb rv0 rv)); [discriminate|]. inversion Hm; subst. reflexivity.
  - destruct (negb (N.eqb w0 w)); [discriminate|]. inv_binds Hm. inversion Hm; subst. reflexivity.
  - destruct (negb (N.eqb w0 w)); [discriminate|]. inv_binds Hm. inversion Hm; subst. reflexivity.
  - destruct ws; [discriminate|]. destruct (N.eqb w0 w); [|discriminate]. inversion Hm; subst. reflexivity.
Qed.

Lemma G_apply_updates us : forall s w need s' need',
  fresh s -> apply_updates s w us need = Ok (s', need') -> G s s'.
Proof.
  induction us as [|u r IH]; cbn [apply_updates]; intros s w need s' need' F Hc; [inversion Hc; subst; apply G_refl|].
  apply bind_ok in Hc. destruct Hc as ([s1 n1] & Hu & Hc).
  assert (G1 : G s s1).
  { destruct u.
    - eapply G_task_finished; eassumption.
    - inv_binds Hu. inversion Hu; subst. eapply G_task_failed; eassumption.
    - eapply G_task_running; eassumption.
    - eapply G_task_running; eassumption.
    - apply G_same. eapply task_reject_same; exact Hu.
    - inv_binds Hu. inversion Hu; subst. apply G_same. eapply request_enabled_same; eassumption. }
  eapply G_trans; [exact F | exact G1 | eapply IH; [apply (g_fresh _ _ G1); exact F | exact Hc]].
Qed.

Lemma G_on_task_update s w us s' : fresh s -> on_task_update s w us = Ok s' -> G s s'.
Proof.
  intros F Hc. unfold on_task_update in Hc. apply bind_ok in Hc. destruct Hc as ([s1 need] & Hu & Hc).
  pose proof (G_apply_updates _ _ _ _ _ _ F Hu) as G1.
  destruct (need && _); inversion Hc; subst; [|exact G1].
  eapply G_trans; [exact F | exact G1 | apply G_same; reflexivity].
Qed.

(** * Server functions *)
Lemma G_lost_fail_running l : forall s reason s', fresh s -> lost_fail_running s reason l = Ok s' -> G s s'.
Proof.
  induction l as [|id r IH]; cbn [lost_fail_running]; intros s reason s' F Hc; [inversion Hc; subst; apply G_refl|].
  destruct (find_task _ id) as [t|]; [|eapply IH; eassumption].
  assert (Hfail : forall s0 k, hq_of s0 = hq_of s ->
            (do s'' <- task_failed s0 None id k; lost_fail_running s'' reason r) = Ok s' -> G s s').
  { intros s0 k E Hx. apply bind_ok in Hx. destruct Hx as (s1 & H1 & Hx).
    assert (F0 : fresh s0) by (eapply fresh_same; eassumption).
    pose proof (G_task_failed _ _ _ _ _ F0 H1) as G1.
    assert (G01 : G s s1) by (eapply G_trans; [exact F | apply G_same; exact E | exact G1]).
    eapply G_trans; [exact F | exact G01 | eapply IH; [apply (g_fresh _ _ G01); exact F | exact Hx]]. }
  destruct (t_climit t).
  - eapply Hfail; [reflexivity | exact Hc].
  - destruct (reason_is_failure reason); [|eapply IH; eassumption].
    destruct (increment_crash_counter t) as [t' limit]. destruct limit.
    + eapply Hfail; [|exact Hc]. reflexivity.
    + match type of Hc with lost_fail_running ?s1 _ _ = _ =>
        eapply (G_trans s s1 s'); [exact F | apply G_same; reflexivity | eapply IH; [eapply fresh_same; [|exact F]; reflexivity | exact Hc]] end.
  - destruct (reason_is_failure reason); [|eapply IH; eassumption].
    destruct (increment_crash_counter t) as [t' limit]. destruct limit.
    + eapply Hfail; [|exact Hc]. reflexivity.
    + match type of Hc with lost_fail_running ?s1 _ _ = _ =>
        eapply (G_trans s s1 s'); [exact F | apply G_same; reflexivity | eapply IH; [eapply fresh_same; [|exact F]; reflexivity | exact Hc]] end.
Qed.

Lemma G_on_remove_worker s w reason a p t s' :
  fresh s -> on_remove_worker s w reason a p t = Ok s' -> G s s'.
Proof.
  intros F Hc. unfold on_remove_worker in Hc.
  destruct (find_worker _ w) as [wk|]; [|discriminate].
  apply bind_ok in Hc. destruct Hc as ([[c2 running] retracted] & _ & Hc).
  destruct (negb (perm_of_set t _)); [discriminate|].
  inv_binds Hc. inversion Hc; subst.
  match goal with X : process_retracted _ _ = Ok ?s4 |- _ => apply process_retracted_hq in X; rename X into R1 end.
  match goal with X : lost_retracting _ _ _ = Ok _ |- _ => apply lost_retracting_same in X; rename X into R2 end.
  unfold hq_same in R2.
  match goal with X : process_worker_lost ?s5 _ _ _ = Ok ?s6, Y : lost_fail_running ?s6 _ _ = Ok ?s7 |- _ =>
    assert (G5 : G s s5) by (apply G_same; change (hq_of s5) with (hq_of a1); rewrite R1, R2; reflexivity);
    assert (G6 : G s s6) by (eapply G_trans; [exact F | exact G5 | eapply G_worker_lost; exact X]);
    assert (G7 : G s s7) by (eapply G_trans; [exact F | exact G6 | eapply G_lost_fail_running; [apply (g_fresh _ _ G6); exact F | exact Y]]);
    eapply G_trans; [exact F | exact G7 | apply G_same; reflexivity] end.
Qed.

(** * Client requests *)
Lemma find_job_del js id id' : id' <> id -> find_job (del_job js id) id' = find_job js id'.
Proof.
  intros Hne. unfold del_job. induction js as [|h r IH]; cbn [filter find_job]; [reflexivity|].
  destruct (N.eqb id (j_id h)) eqn:E; cbn [negb].
  - apply N.eqb_eq in E. destruct (N.eqb id' (j_id h)) eqn:E2; [apply N.eqb_eq in E2; congruence | exact IH].
  - cbn [find_job]. destruct (N.eqb id' (j_id h)); [reflexivity | exact IH].
Qed.

Lemma find_job_del_same js id : find_job (del_job js id) id = None.
Proof.
  unfold del_job. induction js as [|h r IH]; cbn [filter find_job]; [reflexivity|].
  destruct (N.eqb id (j_id h)) eqn:E; cbn [negb]; [exact IH|]. cbn [find_job]. rewrite E. exact IH.
Qed.

Lemma G_forget s jid s' : handle_forget s jid = Ok s' -> G s s'.
Proof.
  intros Hc. unfold handle_forget in Hc.
  destruct (find_job (hq_jobs s) jid) as [j|] eqn:Ef; [|inversion Hc; subst; apply G_same; reflexivity].
  inv_binds Hc. destruct (negb (j_open j) && _); inversion Hc; subst; [|apply G_same; reflexivity].
  constructor.
  - intros t v Hv Ht. unfold task_state in *. rewrite emit_hq. unfold hq_of, hq_with in *. cbn in *.
    destruct (N.eq_dec (fst t) jid) as [Eq|Ne].
    + right. rewrite Eq. apply find_job_del_same.
    + left. rewrite find_job_del by exact Ne. exact Hv.
  - intros id _ Ha. unfold absent in *. rewrite emit_hq. unfold hq_of, hq_with in *. cbn in *.
    destruct (N.eq_dec id jid) as [->|Ne]; [apply find_job_del_same | rewrite find_job_del by exact Ne; exact Ha].
  - unfold cnt_of. rewrite emit_hq. unfold hq_of, hq_with, hq_counter. cbn. lia.
  - intros F x Hx. rewrite emit_hq in Hx. unfold cnt_of. rewrite emit_hq. unfold hq_of, hq_with, hq_counter, hq_jobs in *. cbn in *.
    apply del_job_in in Hx. apply F. exact Hx.
Qed.

Lemma G_close s jid s' : fresh s -> handle_close s jid = Ok s' -> G s s'.
Proof.
  intros F Hc. unfold handle_close in Hc.
  destruct (find_job (hq_jobs s) jid) as [j|] eqn:Ef; [|inversion Hc; subst; apply G_same; reflexivity].
  destruct (j_open j); [|inversion Hc; subst; apply G_same; reflexivity].
  inv_binds Hc. inversion Hc; subst.
  match goal with X : check_termination ?s1 _ = Ok ?s2 |- _ =>
    assert (Hf : find_job (h_jobs (hq_of s)) (j_id j) = Some j) by (rewrite (find_job_id _ _ _ Ef); exact Ef);
    assert (G1 : G s s1);
    [ apply G_of; [intros t; split; [apply tpres_emit; eapply tpres_set_job; [exact Hf | split; [reflexivity | intros; assumption]]
                                    | intros id Hn; rewrite emit_hq; eapply set_job_keeps_absent; [exact Hf | reflexivity | exact Hn]]
                  | reflexivity]
    | assert (G2 : G s1 s2) by (apply G_of; [intros t; eapply check_termination_tpres; exact X | eapply check_termination_cnt; exact X]);
      eapply G_trans; [exact F | eapply G_trans; [exact F | exact G1 | exact G2] | apply G_same; reflexivity] ] end.
Qed.

Lemma G_cancel s jid s' : fresh s -> handle_cancel s jid = Ok s' -> G s s'.
Proof.
  intros F Hc. unfold handle_cancel in Hc.
  destruct (find_job (hq_jobs s) jid) as [j|] eqn:Ef; [|inversion Hc; subst; apply G_same; reflexivity].
  destruct (non_finished_task_ids j) eqn:En; [inversion Hc; subst; apply G_same; reflexivity|].
  inv_binds Hc. inversion Hc; subst.
  match goal with X : on_cancel_tasks _ _ = Ok ?s1, Y : set_cancel_state ?s1 _ _ = Ok ?s2 |- _ =>
    eapply G_trans; [exact F | eapply G_trans; [exact F | apply G_same; eapply on_cancel_tasks_hq; exact X | eapply G_set_cancel; exact Y]
                    | apply G_same; reflexivity] end.
Qed.

(** A new job takes the counter's id: no existing job has it. *)
Lemma G_new_job s jid0 jb cnt' :
  fresh s -> j_id jb = cnt_of s -> cnt_of s < cnt' -> jid0 = cnt_of s ->
  G s (hq_with s (set_job (hq_jobs s) jb) cnt').
Proof.
  intros F Hid Hc _. constructor.
  - intros t v Hv Ht. left. unfold task_state in *. unfold hq_of, hq_with, hq_jobs in *. cbn in *.
    rewrite find_job_set'. rewrite Hid.
    destruct (N.eqb (fst t) (cnt_of s)) eqn:E; [|exact Hv]. exfalso.
    destruct (find_job (h_jobs (s_hq (fst s))) (fst t)) as [j|] eqn:Ej; [|discriminate].
    pose proof (F _ (find_job_in _ _ _ Ej)) as Hlt. rewrite (find_job_id _ _ _ Ej) in Hlt. apply N.eqb_eq in E. lia.
  - intros id Hlt Ha. unfold absent in *. unfold hq_of, hq_with, hq_jobs in *. cbn in *. rewrite find_job_set', Hid.
    destruct (N.eqb id (cnt_of s)) eqn:E; [apply N.eqb_eq in E; unfold cnt_of, hq_of in *; lia | exact Ha].
  - unfold cnt_of at 2. unfold hq_of, hq_with. cbn. lia.
  - intros _ x Hx. unfold cnt_of. unfold hq_of, hq_with, hq_jobs in *. cbn in *. apply set_job_in in Hx.
    destruct Hx as [->|Hx]; [rewrite Hid; exact Hc | specialize (F _ Hx); unfold cnt_of, hq_of in *; lia].
Qed.

Lemma G_open s mf s' : fresh s -> handle_open s mf = Ok s' -> G s s'.
Proof.
  intros F Hc. unfold handle_open in Hc. inversion Hc; subst.
  match goal with |- G s (emit (emit ?s1 _) _) => eapply (G_trans s s1); [exact F | | apply G_same; reflexivity] end.
  apply (G_new_job s (cnt_of s)); [exact F | reflexivity | unfold cnt_of, hq_counter, hq_of; lia | reflexivity].
Qed.

(** * Submits *)

(** Attaching fresh ids does not touch the state of any existing task. *)
Lemma attach_ids_jpres ids : forall j j', attach_ids j ids = Ok j' -> jpres j j'.
Proof.
  induction ids as [|i r IH]; cbn [attach_ids]; intros j j' H; [inversion H; apply jpres_refl|].
  destruct (jt_find (j_tasks j) i) eqn:Ef; [discriminate|].
  eapply jpres_trans; [|apply IH; exact H].
  split; [reflexivity|]. intros t v Hv Ht. cbn.
  destruct (N.eq_dec t i) as [->|Hne]; [congruence | rewrite jt_find_set_other by exact Hne; exact Hv].
Qed.

Lemma G_submit_tail s4 jid ids tasks s' :
  fresh s4 ->
  (do j <- hq_get_job s4 jid 222;
   do j' <- attach_ids j ids;
   do s6 <- on_new_tasks (hq_set_job s4 j') tasks;
   submit_ok_resp s6 jid) = Ok s' ->
  G s4 s'.
Proof.
  intros F Hc. inv_binds Hc.
  match goal with X : hq_get_job s4 jid 222 = Ok ?j, Y : attach_ids ?j _ = Ok ?j' |- _ =>
    pose proof (hq_get_find _ _ _ _ X) as Hf; pose proof (attach_ids_jpres _ _ _ Y) as P;
    assert (G1 : G s4 (hq_set_job s4 j')) by
      (apply G_of; [intros t; split; [eapply tpres_set_job; [exact Hf | exact P]
                                      | intros id Hn; eapply set_job_keeps_absent; [exact Hf | apply P | exact Hn]]
                    | reflexivity]) end.
  match goal with X : on_new_tasks _ _ = Ok _ |- _ => apply on_new_tasks_hq in X; rename X into R1 end.
  apply submit_ok_resp_same in Hc. unfold hq_same in Hc.
  eapply G_trans; [exact F | exact G1 | apply G_same; rewrite Hc, R1; reflexivity].
Qed.

(** The state in which the tail runs: the job layer of [s] with, for a new job, the job inserted
    under the counter's id and the counter advanced. *)
Lemma G_submit_prepare s s1 jid is_new mf ev :
  fresh s ->
  (if is_new : bool then jid = cnt_of s /\ s1 = hq_with s (hq_jobs s) (jid + 1) else s1 = s) ->
  let s2 := emit s1 ev in
  let s3 := if is_new then hq_with s2 (set_job (hq_jobs s2) (mkJob jid false [] 0 0 0 0 0 false mf)) (hq_counter s2) else s2 in
  G s s3.
Proof.
  intros F Hnew s2 s3. subst s3 s2. destruct is_new.
  - destruct Hnew as [-> ->].
    eapply G_trans; [exact F | apply (G_new_job s (cnt_of s) (mkJob (cnt_of s) false [] 0 0 0 0 0 false mf) (cnt_of s + 1)); [exact F | reflexivity | lia | reflexivity] | apply G_same; reflexivity].
  - subst s1. apply G_same. reflexivity.
Qed.

Lemma G_submit_array s jobsel ids entries rq prio cl tlim mf s' :
  fresh s -> handle_submit_array s jobsel ids entries rq prio cl tlim mf = Ok s' -> G s s'.
Proof.
  intros F Hc. unfold handle_submit_array in Hc.
  match type of Hc with (match ?x with Some _ => _ | None => _ end) = _ => destruct x end; [inversion Hc; subst; apply G_same; reflexivity|].
  apply bind_ok in Hc. destruct Hc as ([acc s1] & Hr & Hc).
  destruct acc as [[[jid is_new] ids']|].
  - assert (Hnew : if is_new : bool then jid = cnt_of s /\ s1 = hq_with s (hq_jobs s) (jid + 1) else s1 = s).
    { destruct jobsel as [j0|].
      - destruct (find_job (hq_jobs s) j0) as [j|] eqn:Ef; [|inversion Hr].
        destruct (negb (j_open j)); [inversion Hr|]. inversion Hr; subst. reflexivity.
      - inversion Hr; subst. split; reflexivity. }
    cbv zeta in Hc.
    match type of Hc with context [get_or_create_rq ?s3 rq] => destruct (get_or_create_rq s3 rq) as [s4 rqi] eqn:Erq;
      pose proof (G_submit_prepare s s1 jid is_new mf (OEv (EvSubmit jid is_new (N.of_nat (length ids')))) F Hnew) as G3;
      cbv zeta in G3;
      assert (G4 : G s s4) by (eapply G_trans; [exact F | exact G3 | apply G_same; eapply get_or_create_rq_keeps; exact Erq]) end.
    eapply G_trans; [exact F | exact G4 | eapply (G_submit_tail s4 jid ids'); [apply (g_fresh _ _ G4); exact F | exact Hc]].
  - assert (hq_same s s1).
    { destruct jobsel as [jid|]; [|inversion Hr].
      destruct (find_job (hq_jobs s) jid) as [j|]; [|inversion Hr; subst; reflexivity].
      destruct (negb (j_open j)); inversion Hr; subst; reflexivity. }
    assert (hq_same s1 s').
    { destruct jobsel; [match type of Hc with (match ?x with Some _ => _ | None => _ end) = _ => destruct x end|];
        inversion Hc; subst; reflexivity. }
    apply G_same. unfold hq_same in *. congruence.
Qed.

Lemma G_submit_graph s jobsel rqs ts mf s' :
  fresh s -> handle_submit_graph s jobsel rqs ts mf = Ok s' -> G s s'.
Proof.
  intros F Hc. unfold handle_submit_graph in Hc.
  apply bind_ok in Hc. destruct Hc as (v1 & _ & Hc).
  match type of Hc with (match ?x with Some _ => _ | None => _ end) = _ => destruct x end; [inversion Hc; subst; apply G_same; reflexivity|].
  apply bind_ok in Hc. destruct Hc as ([acc s1] & Hr & Hc).
  destruct acc as [[jid is_new]|].
  - assert (Hnew : if is_new : bool then jid = cnt_of s /\ s1 = hq_with s (hq_jobs s) (jid + 1) else s1 = s).
    { destruct jobsel as [j0|].
      - destruct (find_job (hq_jobs s) j0) as [j|] eqn:Ef; [|inversion Hr].
        destruct (negb (j_open j)); [inversion Hr|]. inversion Hr; subst. reflexivity.
      - inversion Hr; subst. split; reflexivity. }
    cbv zeta in Hc.
    match type of Hc with context [fold_left ?f rqs (?s3, [])] => destruct (fold_left f rqs (s3, [])) as [s4 rqis] eqn:Erq;
      pose proof (G_submit_prepare s s1 jid is_new mf (OEv (EvSubmit jid is_new (N.of_nat (length ts)))) F Hnew) as G3;
      cbv zeta in G3;
      assert (G4 : G s s4) by (eapply G_trans; [exact F | exact G3 | apply G_same; eapply fold_rqs_same; exact Erq]) end.
    eapply G_trans; [exact F | exact G4|].
    assert (F4 : fresh s4) by (apply (g_fresh _ _ G4); exact F).
    inv_binds Hc.
    match goal with X : hq_get_job s4 jid 222 = Ok ?j, Y : attach_ids ?j _ = Ok ?j' |- _ =>
      pose proof (hq_get_find _ _ _ _ X) as Hf; pose proof (attach_ids_jpres _ _ _ Y) as P;
      assert (G1 : G s4 (hq_set_job s4 j')) by
        (apply G_of; [intros t; split; [eapply tpres_set_job; [exact Hf | exact P]
                                        | intros id Hn; eapply set_job_keeps_absent; [exact Hf | apply P | exact Hn]]
                      | reflexivity]) end.
    match goal with X : on_new_tasks _ _ = Ok _ |- _ => apply on_new_tasks_hq in X; rename X into R1 end.
    apply submit_ok_resp_same in Hc. unfold hq_same in Hc.
    eapply G_trans; [exact F4 | exact G1 | apply G_same; rewrite Hc, R1; reflexivity].
  - assert (hq_same s s1).
    { destruct jobsel as [jid|]; [|inversion Hr].
      destruct (find_job (hq_jobs s) jid) as [j|]; [|inversion Hr; subst; reflexivity].
      destruct (negb (j_open j)); inversion Hr; subst; reflexivity. }
    inversion Hc; subst. apply G_same. unfold hq_same in *. congruence.
Qed.

(** * The whole system *)
Theorem G_step s o s' outs : fresh (s, []) -> step s o = Ok (s', outs) -> G (s, []) (s', outs).
Proof.
  intros F Hc. destruct o; cbn [step] in Hc.
  - apply G_same. eapply on_new_worker_same; exact Hc.
  - destruct (find_proc _ w); [|discriminate]. eapply G_on_remove_worker; eassumption.
  - destruct (bad_submit_lengths _ _); [inversion Hc; subst; apply G_same; reflexivity|]. eapply G_submit_array; eassumption.
  - destruct (bad_graph_rq _ _); [inversion Hc; subst; apply G_same; reflexivity|]. destruct (dead_dep _ _ _); [inversion Hc; subst; apply G_same; reflexivity|]. eapply G_submit_graph; eassumption.
  - eapply G_open; eassumption.
  - eapply G_close; eassumption.
  - eapply G_cancel; eassumption.
  - eapply G_forget; eassumption.
  - destruct (find_proc _ w) as [p|]; [|discriminate]. destruct (p_down p); [discriminate|].
    inv_binds Hc. inversion Hc; subst. apply G_same. reflexivity.
  - destruct (find_proc _ w) as [p|]; [|discriminate]. destruct (p_up p) as [|m rest]; [discriminate|].
    destruct m.
    + match type of Hc with on_task_update ?s1 _ _ = _ =>
        eapply (G_trans _ s1); [exact F | apply G_same; reflexivity | eapply G_on_task_update; [|exact Hc]] end.
      eapply fresh_same; [|exact F]. reflexivity.
    + apply G_same. etransitivity; [eapply on_retract_response_same; exact Hc | reflexivity].
  - destruct (c_flag (s_core s)); [|discriminate]. apply G_same. eapply run_scheduling_same; exact Hc.
  - destruct (find_proc _ w) as [p|]; [|discriminate]. inv_binds Hc. inversion Hc; subst. apply G_same. reflexivity.
  - destruct (find_proc _ w) as [p|]; [|discriminate]. inversion Hc; subst. apply G_same. reflexivity.
  - inversion Hc; subst. apply G_same. reflexivity.
  - inv_binds Hc. inversion Hc; subst. apply G_same. reflexivity.
Qed.

Lemma fresh_outs s o1 o2 : fresh (s, o1) -> fresh (s, o2).
Proof. intros F. exact F. Qed.

Theorem G_run ops : forall s s' outs, fresh (s, []) -> run s ops = Ok (s', outs) -> G (s, []) (s', outs).
Proof.
  induction ops as [|o r IH]; cbn [run]; intros s s' outs F Hc; [inversion Hc; subst; apply G_refl|].
  apply bind_ok in Hc. destruct Hc as ([s1 o1] & H1 & Hc).
  apply bind_ok in Hc. destruct Hc as ([s2 o2] & H2 & Hc). inversion Hc; subst.
  pose proof (G_step _ _ _ _ F H1) as G1.
  assert (F1 : fresh (s1, [])) by (apply (fresh_outs s1 o1); apply (g_fresh _ _ G1); exact F).
  pose proof (IH _ _ _ F1 H2) as G2.
  assert (Fo1 : fresh (s1, o1)) by (apply (g_fresh _ _ G1); exact F).
  apply (G_trans (s, []) (s1, o1) (s', o1 ++ o2) F G1).
  apply (G_trans (s1, o1) (s1, []) (s', o1 ++ o2) Fo1); [apply G_same; reflexivity|].
  apply (G_trans (s1, []) (s', o2) (s', o1 ++ o2) F1 G2). apply G_same; reflexivity.
Qed.

(** Main theorem: along any history of the system, a recorded outcome never changes; it can only
    disappear together with its whole (forgotten) job, whose id is never used again. *)
Theorem outcome_final ops1 ops2 reserve maxfill s1 o1 s2 o2 t v :
  run (init_sys reserve maxfill) ops1 = Ok (s1, o1) ->
  run s1 ops2 = Ok (s2, o2) ->
  task_state (s1, []) t = Some v -> terminal v ->
  task_state (s2, []) t = Some v \/ find_job (h_jobs (s_hq s2)) (fst t) = None.
Proof.
  intros H1 H2 Hv Ht.
  assert (F0 : fresh (init_sys reserve maxfill, [])) by (intros j []).
  pose proof (G_run _ _ _ _ F0 H1) as G1.
  assert (F1 : fresh (s1, [])) by (apply (fresh_outs s1 o1); apply (g_fresh _ _ G1); exact F0).
  pose proof (G_run _ _ _ _ F1 H2) as G2.
  destruct (g_tpres _ _ G2 t v Hv Ht) as [H|H]; [left; exact H | right; exact H].
Qed.
