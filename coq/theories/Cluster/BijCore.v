(** C02 bijection, part 2: what the core's functions do to the KEYS of the task map.
    Frame lemmas (keys unchanged) for everything that only moves tasks between states, queues and
    workers; [shrinks] lemmas for [remove_task] and its callers; growth for [add_new_tasks]. *)
From HQ Require Import Base.Prelude Cluster.Types Cluster.Core Cluster.Reactor Cluster.Worker Cluster.Server Cluster.Sys Cluster.ProofsJob Cluster.ProofsMore Cluster.ProofsStep Cluster.BijBase.
From Coq Require Import ZArith Lia Sorting.Sorted.
Local Open Scope N_scope.

Arguments N.add : simpl never.
Arguments N.sub : simpl never.

Definition CS (c : core) : Prop := KS (keys c).

Lemma CS_sorted c : CS c -> StronglySorted tlt (map t_id (c_tasks c)).
Proof. unfold CS, KS, keys. rewrite map_fst_keys. auto. Qed.

Lemma CS_keys c c' : keys c' = keys c -> CS c -> CS c'.
Proof. unfold CS. intros ->. auto. Qed.

(** Updating an existing task without touching its id and consumers. *)
Lemma upd_task_frame c id t x :
  CS c -> find_task (c_tasks c) id = Some t -> t_id x = t_id t -> t_consumers x = t_consumers t ->
  keys (upd_task c x) = keys c.
Proof.
  intros Hs Hf Hi Hc. unfold keys, upd_task. cbn.
  destruct (find_task_some _ _ _ Hf) as [_ Hid].
  eapply set_task_keys; [apply CS_sorted; exact Hs | rewrite Hi, Hid; exact Hf | exact Hc].
Qed.

Lemma get_task_find ts id t : get_task ts id = Ok t -> find_task ts id = Some t.
Proof. unfold get_task. destruct (find_task ts id); intros H; inversion H; reflexivity. Qed.

(** A task looked up by [get_task] / [find_task], modified by state / instance / crash setters. *)
Ltac frame_upd :=
  match goal with
  | Hs : CS ?c, Hf : find_task (c_tasks ?c) ?id = Some ?t |- keys (upd_task ?c ?x) = keys ?c =>
      apply (upd_task_frame c id t x Hs Hf); reflexivity
  | Hs : CS ?c, Hg : get_task (c_tasks ?c) ?id = Ok ?t |- keys (upd_task ?c ?x) = keys ?c =>
      apply (upd_task_frame c id t x Hs (get_task_find _ _ _ Hg)); reflexivity
  end.

(** Recursive call [H] on a state whose keys equal ([E]) those of the sorted ([Hs]) start state. *)
Ltac frame_step IH H E Hs :=
  eapply eq_trans; [eapply IH; cycle 1; [exact H | eapply CS_keys; [exact E | exact Hs]] | exact E].

(** * Reactor: frame lemmas *)
Lemma retract_states_frame ids : forall c acc c' acc',
  CS c -> retract_states c ids acc = Ok (c', acc') -> keys c' = keys c.
Proof.
  induction ids as [|id r IH]; cbn [retract_states]; intros c acc c' acc' Hs H; [inversion H; reflexivity|].
  apply bind_ok in H. destruct H as (t & Ht & H).
  destruct (t_state t); try discriminate.
  apply bind_ok in H. destruct H as (wk & _ & H). apply bind_ok in H. destruct H as (wk' & _ & H).
  assert (E : keys (upd_worker (upd_task c (with_state t (Retracting w))) wk') = keys c) by (change (keys (upd_task c (with_state t (Retracting w))) = keys c); frame_upd).
  frame_step IH H E Hs.
Qed.

Lemma try_remove_redirection_frame c t c' : try_remove_redirection c t = Ok c' -> keys c' = keys c.
Proof.
  unfold try_remove_redirection. destruct (find_redirect _ _) as [[w rv]|]; intros H; inv_binds H; inversion H; reflexivity.
Qed.

Lemma reset_mn_workers_frame ws : forall c id c', reset_mn_workers c ws id = Ok c' -> keys c' = keys c.
Proof.
  induction ws as [|w r IH]; cbn [reset_mn_workers]; intros c id c' H; [inversion H; reflexivity|].
  apply bind_ok in H. destruct H as (wk & _ & H). destruct (w_assign wk); [discriminate|].
  destruct (tid_eqb t id); [|discriminate]. rewrite (IH _ _ _ H). reflexivity.
Qed.

Lemma reset_mn_all_frame ws : forall c c', reset_mn_all c ws = Ok c' -> keys c' = keys c.
Proof.
  induction ws as [|w r IH]; cbn [reset_mn_all]; intros c c' H; [inversion H; reflexivity|].
  apply bind_ok in H. destruct H as (wk & _ & H). rewrite (IH _ _ H). reflexivity.
Qed.

Lemma wake_consumers_frame csm : forall c ret c' ret',
  CS c -> wake_consumers c csm ret = Ok (c', ret') -> keys c' = keys c.
Proof.
  induction csm as [|x r IH]; cbn [wake_consumers]; intros c ret c' ret' Hs H; [inversion H; reflexivity|].
  apply bind_ok in H. destruct H as (t & Ht & H).
  destruct (t_state t) as [n| | | | | |] eqn:Est; try discriminate.
  destruct (N.eqb n 0); [discriminate|].
  assert (E : keys (upd_task c (with_state t (Waiting (n - 1)))) = keys c) by frame_upd.
  destruct (N.eqb (n - 1) 0).
  - apply bind_ok in H. destruct H as ([qs rt] & _ & H).
    frame_step IH H E Hs.
  - frame_step IH H E Hs.
Qed.

Lemma retract_response_states_frame ids : forall c w acc c' acc',
  CS c -> retract_response_states c w ids acc = (c', acc') -> keys c' = keys c.
Proof.
  induction ids as [|id r IH]; cbn [retract_response_states]; intros c w acc c' acc' Hs H; [inversion H; reflexivity|].
  destruct (find_task (c_tasks c) id) as [t|] eqn:Ef; [|eapply IH; eassumption].
  destruct (t_state t); try (eapply IH; eassumption).
  destruct (N.eqb w w0); [|eapply IH; eassumption].
  destruct (find_redirect _ id) as [[target rv]|].
  - assert (E : keys (upd_task (with_redirects c (del_redirect (c_redirects c) id)) (with_state t (Assigned target rv))) = keys c).
    { apply (upd_task_frame (with_redirects c (del_redirect (c_redirects c) id)) id t); [exact Hs | exact Ef | reflexivity | reflexivity]. }
    frame_step IH H E Hs.
  - assert (E : keys (upd_task c (with_state t (Waiting 0))) = keys c) by frame_upd.
    frame_step IH H E Hs.
Qed.

(** * Server: frame lemmas *)
Lemma lost_prefilled_frame l : forall c c', CS c -> lost_prefilled c l = Ok c' -> keys c' = keys c.
Proof.
  induction l as [|id r IH]; cbn [lost_prefilled]; intros c c' Hs H; [inversion H; reflexivity|].
  apply bind_ok in H. destruct H as (t & Ht & H). apply bind_ok in H. destruct H as (q & _ & H).
  apply bind_ok in H. destruct H as (q' & _ & H).
  assert (E : keys (upd_task c (with_state (with_inst t (t_inst t + 1)) (Waiting 0))) = keys c) by frame_upd.
  frame_step IH H E Hs.
Qed.

Lemma lost_assigned_frame l : forall c running ret c' running' ret',
  CS c -> lost_assigned c l running ret = Ok (c', running', ret') -> keys c' = keys c.
Proof.
  induction l as [|id r IH]; cbn [lost_assigned]; intros c running ret c' running' ret' Hs H; [inversion H; reflexivity|].
  apply bind_ok in H. destruct H as (t & Ht & H). apply bind_ok in H. destruct H as ([[c1 t1] running1] & H1 & H).
  apply bind_ok in H. destruct H as ([qs rt] & _ & H).
  assert (E1 : keys c1 = keys c /\ c_tasks c1 = c_tasks c /\ t_id t1 = t_id t /\ t_consumers t1 = t_consumers t).
  { destruct (t_state t); try (inversion H1; subst; auto; fail).
    destruct (find_redirect _ id); inversion H1; subst; auto. }
  destruct E1 as (E1 & Et & Ei & Ec).
  assert (E : keys (upd_task c1 (with_inst t1 (t_inst t1 + 1))) = keys c).
  { rewrite <- E1. apply (upd_task_frame c1 id t); [eapply CS_keys; [exact E1 | exact Hs] | rewrite Et; apply get_task_find; exact Ht | exact Ei | exact Ec]. }
  frame_step IH H E Hs.
Qed.

Lemma map_one_frame c m id w v rqres c' m' : CS c -> map_one c m id w v rqres = Ok (c', m') -> keys c' = keys c.
Proof.
  intros Hs H. unfold map_one in H.
  apply bind_ok in H. destruct H as (wk & _ & H). apply bind_ok in H. destruct H as (wk' & _ & H).
  apply bind_ok in H. destruct H as (t & Ht & H).
  assert (Hf : find_task (c_tasks c) id = Some t) by (apply get_task_find; exact Ht).
  destruct (t_state t); try discriminate.
  - inversion H; subst. apply (upd_task_frame (upd_worker c wk') id t); [exact Hs | exact Hf | reflexivity | reflexivity].
  - destruct (find_worker _ w0) as [wo|]; [|discriminate].
    apply bind_ok in H. destruct H as (wo' & _ & H).
    destruct (find_redirect _ id); [discriminate|]. inversion H; subst.
    match goal with |- keys (upd_task ?cc _) = _ => apply (upd_task_frame cc id t); [exact Hs | exact Hf | reflexivity | reflexivity] end.
  - destruct (find_redirect _ id) as [[ot vo]|].
    + inv_binds H. inversion H; subst. reflexivity.
    + inversion H; subst. reflexivity.
Qed.

Lemma rr_pass_frame counts : forall c m tasks v rqres c' m' counts' rest,
  CS c -> rr_pass c m counts tasks v rqres = Ok (c', m', counts', rest) -> keys c' = keys c.
Proof.
  induction counts as [|[w n] r IH]; intros c m tasks v rqres c' m' counts' rest Hs H.
  - destruct tasks; cbn [rr_pass] in H; inversion H; reflexivity.
  - destruct tasks as [|id tl]; cbn [rr_pass] in H; [inversion H; reflexivity|].
    destruct (N.ltb 0 n).
    + apply bind_ok in H. destruct H as ([c1 m1] & H1 & H).
      apply bind_ok in H. destruct H as ([[[c2 m2] r'] tl'] & H2 & H). inversion H; subst.
      pose proof (map_one_frame _ _ _ _ _ _ _ _ Hs H1) as E1.
      frame_step IH H2 E1 Hs.
    + apply bind_ok in H. destruct H as ([[[c2 m2] r'] tl'] & H2 & H). inversion H; subst.
      eapply IH; eassumption.
Qed.

Lemma rr_loop_frame fuel : forall c m counts tasks v rqres c' m',
  CS c -> rr_loop fuel c m counts tasks v rqres = Ok (c', m') -> keys c' = keys c.
Proof.
  induction fuel as [|k IH]; intros c m counts tasks v rqres c' m' Hs H; destruct tasks as [|id tl]; cbn [rr_loop] in H;
    try (inversion H; reflexivity); try discriminate.
  apply bind_ok in H. destruct H as ([[[c1 m1] counts1] rest] & H1 & H).
  pose proof (rr_pass_frame _ _ _ _ _ _ _ _ _ _ Hs H1) as E1.
  frame_step IH H E1 Hs.
Qed.

Lemma map_sn_frame sol l : forall c m c' m', CS c -> map_sn c m sol l = Ok (c', m') -> keys c' = keys c.
Proof.
  induction l as [|[[rq v] counts] r IH]; cbn [map_sn]; intros c m c' m' Hs H; [inversion H; reflexivity|].
  apply bind_ok in H. destruct H as (rqd & _ & H). apply bind_ok in H. destruct H as (q & _ & H).
  apply bind_ok in H. destruct H as ([tasks q'] & _ & H). apply bind_ok in H. destruct H as ([c2 m2] & H2 & H).
  pose proof (rr_loop_frame _ (with_queues c (set_queue (c_queues c) (N.to_nat rq) q')) _ _ _ _ _ _ _ Hs H2) as E2.
  change (keys c2 = keys c) in E2.
  frame_step IH H E2 Hs.
Qed.

Lemma set_mn_workers_frame l : forall c id first c', set_mn_workers c id l first = Ok c' -> keys c' = keys c.
Proof.
  induction l as [|w r IH]; cbn [set_mn_workers]; intros c id first c' H; [inversion H; reflexivity|].
  apply bind_ok in H. destruct H as (wk & _ & H). apply bind_ok in H. destruct H as (wk' & _ & H).
  rewrite (IH _ _ _ _ H). reflexivity.
Qed.

Lemma map_mn_sets_frame sets : forall c rq mn c' mn', CS c -> map_mn_sets c rq mn sets = Ok (c', mn') -> keys c' = keys c.
Proof.
  induction sets as [|ws r IH]; cbn [map_mn_sets]; intros c rq mn c' mn' Hs H; [inversion H; reflexivity|].
  apply bind_ok in H. destruct H as (q & _ & H). destruct (q_take_one q) as [[id q']|]; [|discriminate].
  apply bind_ok in H. destruct H as (c2 & H2 & H). apply bind_ok in H. destruct H as (t & Ht & H).
  destruct (t_state t) as [n| | | | | |]; try discriminate. destruct n; [|discriminate].
  pose proof (set_mn_workers_frame _ _ _ _ _ H2) as E2. change (keys c2 = keys c) in E2.
  assert (Hs2 : CS c2) by (eapply CS_keys; [exact E2 | exact Hs]).
  assert (E : keys (upd_task c2 (with_state t (RunningMN ws))) = keys c2) by frame_upd.
  assert (E3 : keys (upd_task c2 (with_state t (RunningMN ws))) = keys c) by (rewrite E; exact E2).
  frame_step IH H E3 Hs.
Qed.

Lemma map_mn_frame l : forall c mn c' mn', CS c -> map_mn c mn l = Ok (c', mn') -> keys c' = keys c.
Proof.
  induction l as [|[[rq v] sets] r IH]; cbn [map_mn]; intros c mn c' mn' Hs H; [inversion H; reflexivity|].
  apply bind_ok in H. destruct H as ([c1 mn1] & H1 & H).
  pose proof (map_mn_sets_frame _ _ _ _ _ _ Hs H1) as E1.
  frame_step IH H E1 Hs.
Qed.

Lemma prefill_mark_frame l : forall c w c', CS c -> prefill_mark c w l = Ok c' -> keys c' = keys c.
Proof.
  induction l as [|id r IH]; cbn [prefill_mark]; intros c w c' Hs H; [inversion H; reflexivity|].
  apply bind_ok in H. destruct H as (t & Ht & H). destruct (negb (is_waiting t)); [discriminate|].
  apply bind_ok in H. destruct H as (wk & _ & H). apply bind_ok in H. destruct H as (wk' & _ & H).
  assert (E : keys (upd_task c (with_state t (Prefilled w))) = keys c) by frame_upd.
  frame_step IH H E Hs.
Qed.

Lemma prefill_workers_frame ws : forall c m qi psize c' m', CS c -> prefill_workers c m qi psize ws = Ok (c', m') -> keys c' = keys c.
Proof.
  induction ws as [|w r IH]; cbn [prefill_workers]; intros c m qi psize c' m' Hs H; [inversion H; reflexivity|].
  apply bind_ok in H. destruct H as (q & _ & H). apply bind_ok in H. destruct H as ([ids q'] & _ & H).
  apply bind_ok in H. destruct H as (c2 & H2 & H).
  pose proof (prefill_mark_frame _ (with_queues c (set_queue (c_queues c) qi q')) _ _ Hs H2) as E2. change (keys c2 = keys c) in E2.
  frame_step IH H E2 Hs.
Qed.

Lemma prefill_queues_frame n : forall c m worder qi top c' m',
  CS c -> prefill_queues c m worder qi n top = Ok (c', m') -> keys c' = keys c.
Proof.
  induction n as [|k IH]; cbn [prefill_queues]; intros c m worder qi top c' m' Hs H; [inversion H; reflexivity|].
  apply bind_ok in H. destruct H as (q & _ & H).
  destruct (q_top_priority q) as [tp|]; [|eapply IH; eassumption].
  destruct (negb (Z.eqb tp top)); [eapply IH; eassumption|].
  destruct (N.eqb _ 0); [eapply IH; eassumption|].
  destruct (existsb _ (q_top_task_ids q)).
  - destruct (forallb _ (q_top_task_ids q)); [eapply IH; eassumption | discriminate].
  - match type of H with match ?ws with [] => _ | _ => _ end = _ => destruct ws eqn:Ews end; [eapply IH; eassumption|].
    destruct (N.eqb _ 0); [eapply IH; eassumption|].
    apply bind_ok in H. destruct H as ([c1 m1] & H1 & H).
    pose proof (prefill_workers_frame _ _ _ _ _ _ _ Hs H1) as E1.
    frame_step IH H E1 Hs.
Qed.

(** * Removal *)
Lemma present_ids c t : present (keys c) t <-> In t (map t_id (c_tasks c)).
Proof. unfold present, keys. rewrite map_fst_keys. reflexivity. Qed.

Lemma present_key K t : present K t <-> exists cs, In (t, cs) K.
Proof.
  unfold present. rewrite in_map_iff. split.
  - intros ([t0 cs] & E & H). cbn in E. subst t0. eauto.
  - intros (cs & H). exists (t, cs). auto.
Qed.

Lemma set_task_ids ts x t :
  StronglySorted tlt (map t_id ts) -> find_task ts (t_id x) = Some t -> map t_id (set_task ts x) = map t_id ts.
Proof.
  induction ts as [|h r IH]; cbn [find_task set_task map]; [discriminate|]. intros Hs Hf.
  destruct (tid_eqb (t_id x) (t_id h)) eqn:E.
  - apply tid_eqb_eq in E. cbn [map]. rewrite E. reflexivity.
  - destruct (find_task_some _ _ _ Hf) as [Hin Hid].
    assert (tlt (t_id h) (t_id x)) as Hlt.
    { rewrite <- Hid. eapply sorted_head_lt; [exact Hs|]. apply in_map. exact Hin. }
    destruct (tid_ltb (t_id x) (t_id h)) eqn:L.
    + exfalso. eapply tlt_irrefl. eapply tlt_trans; [exact Hlt | exact L].
    + cbn [map]. f_equal. apply IH; [inversion Hs; assumption | exact Hf].
Qed.

Lemma set_task_keys_in ts x k : In k (map key (set_task ts x)) -> k = key x \/ In k (map key ts).
Proof.
  induction ts as [|h r IH]; cbn [set_task map In]; [intros [H|[]]; auto|].
  destruct (tid_eqb (t_id x) (t_id h)); cbn [map In]; [intros [H|H]; auto|].
  destruct (tid_ltb (t_id x) (t_id h)); cbn [map In]; [intros [H|[H|H]]; auto|].
  intros [H|H]; [auto|]. destruct (IH H); auto.
Qed.

Lemma tid_remove_incl x l : incl (tid_remove x l) l.
Proof.
  induction l as [|h t IH]; cbn [tid_remove]; [apply incl_refl|].
  destruct (tid_eqb x h); [apply incl_tl, incl_refl|]. intros y [Hy|Hy]; [left; exact Hy | right; apply IH; exact Hy].
Qed.

(** Same ids, consumer lists only shorter. *)
Definition tshr (ts ts' : list task) : Prop :=
  map t_id ts' = map t_id ts /\
  forall id cs', In (id, cs') (map key ts') -> exists cs, In (id, cs) (map key ts) /\ incl cs' cs.

Lemma remove_consumer_from_tshr deps : forall ts cid ts',
  StronglySorted tlt (map t_id ts) -> remove_consumer_from ts deps cid = Ok ts' -> tshr ts ts'.
Proof.
  induction deps as [|d r IH]; cbn [remove_consumer_from]; intros ts cid ts' Hs H.
  - inversion H; subst. split; [reflexivity|]. intros id cs Hin. exists cs. split; [exact Hin | apply incl_refl].
  - destruct (find_task ts d) as [input|] eqn:Ef; [|eapply IH; eassumption].
    destruct (tid_mem cid (t_consumers input)); [|discriminate].
    set (x := with_consumers input (tid_remove cid (t_consumers input))) in *.
    destruct (find_task_some _ _ _ Ef) as [Hin Hid].
    assert (Hfx : find_task ts (t_id x) = Some input) by (cbn; rewrite Hid; exact Ef).
    pose proof (set_task_ids _ _ _ Hs Hfx) as Eids.
    assert (Hs1 : StronglySorted tlt (map t_id (set_task ts x))) by (rewrite Eids; exact Hs).
    destruct (IH _ _ _ Hs1 H) as [I1 I2]. split; [rewrite I1; exact Eids|].
    intros id cs' Hk. destruct (I2 _ _ Hk) as (cs1 & Hk1 & Hi1).
    destruct (set_task_keys_in _ _ _ Hk1) as [Heq|Hold].
    + inversion Heq; subst. exists (t_consumers input). split.
      * change (In (key input) (map key ts)). apply in_map. exact Hin.
      * eapply incl_tran; [exact Hi1 | apply tid_remove_incl].
    + exists cs1. split; assumption.
Qed.

Lemma remove_task_shrinks c id c' stt :
  CS c -> remove_task c id = Ok (c', stt) -> shrinks (keys c) (keys c') [id] /\ present (keys c) id.
Proof.
  intros Hs H. unfold remove_task in H.
  destruct (find_task (c_tasks c) id) as [t|] eqn:Ef; [|discriminate].
  assert (Hp : present (keys c) id) by (apply find_task_present; eauto).
  split; [|exact Hp].
  destruct (del_task_keys (c_tasks c) id (CS_sorted _ Hs)) as [DS DK].
  (* every result has tasks related by [tshr] to the deleted list *)
  assert (Hts : tshr (del_task (c_tasks c) id) (c_tasks c')).
  { assert (R0 : tshr (del_task (c_tasks c) id) (del_task (c_tasks c) id)).
    { split; [reflexivity|]. intros i cs Hin. exists cs. split; [exact Hin | apply incl_refl]. }
    destruct (t_state t); try (inversion H; subst; exact R0).
    apply bind_ok in H. destruct H as (c2 & H2 & H).
    assert (E2 : c_tasks c2 = del_task (c_tasks c) id).
    { destruct (N.eqb unfinished_deps 0); [|inversion H2; reflexivity]. inv_binds H2. inversion H2; reflexivity. }
    destruct (N.ltb 0 unfinished_deps).
    - apply bind_ok in H. destruct H as (ts & Hr & H). inversion H; subst. cbn.
      rewrite E2 in Hr. eapply remove_consumer_from_tshr; [exact DS | exact Hr].
    - inversion H; subst. rewrite E2. exact R0. }
  destruct Hts as [Ti Tk]. constructor.
  - unfold KS, keys. rewrite map_fst_keys, Ti. exact DS.
  - intros x. rewrite !present_ids, Ti. cbn [In].
    rewrite <- (map_fst_keys (del_task _ _)), <- (map_fst_keys (c_tasks c)).
    split.
    + intros Hx. apply in_map_iff in Hx. destruct Hx as (k & Ek & Hk). apply DK in Hk. destruct Hk as [Hk Hne].
      subst x. split; [apply in_map; exact Hk | intros [E|[]]; congruence].
    + intros [Hx Hn]. apply in_map_iff in Hx. destruct Hx as (k & Ek & Hk). subst x.
      apply in_map. apply DK. split; [exact Hk | intros E; apply Hn; left; congruence].
  - intros i cs' Hin. destruct (Tk _ _ Hin) as (cs & Hk & Hi). apply DK in Hk. exists cs. split; [apply Hk | exact Hi].
Qed.

Lemma remove_tasks_batched_shrinks l : forall c c',
  CS c -> remove_tasks_batched c l = Ok c' -> shrinks (keys c) (keys c') l /\ Forall (present (keys c)) l.
Proof.
  induction l as [|id r IH]; cbn [remove_tasks_batched]; intros c c' Hs H.
  - inversion H; subst. split; [apply shrinks_refl; exact Hs | constructor].
  - apply bind_ok in H. destruct H as ([c1 stt] & H1 & H).
    destruct (remove_task_shrinks _ _ _ _ Hs H1) as [S1 P1].
    destruct (IH _ _ (shr_sorted _ _ _ S1) H) as [S2 P2]. split.
    + exact (shrinks_trans _ _ _ [id] r S1 S2).
    + constructor; [exact P1|]. rewrite Forall_forall in *. intros x Hx. apply (shr_dom _ _ _ S1). auto.
Qed.

Lemma remove_waiting_consumers_shrinks l : forall c c',
  CS c -> remove_waiting_consumers c l = Ok c' -> shrinks (keys c) (keys c') l /\ Forall (present (keys c)) l.
Proof.
  induction l as [|id r IH]; cbn [remove_waiting_consumers]; intros c c' Hs H.
  - inversion H; subst. split; [apply shrinks_refl; exact Hs | constructor].
  - apply bind_ok in H. destruct H as ([c1 stt] & H1 & H).
    destruct stt; try discriminate.
    destruct (remove_task_shrinks _ _ _ _ Hs H1) as [S1 P1].
    destruct (IH _ _ (shr_sorted _ _ _ S1) H) as [S2 P2]. split.
    + exact (shrinks_trans _ _ _ [id] r S1 S2).
    + constructor; [exact P1|]. rewrite Forall_forall in *. intros x Hx. apply (shr_dom _ _ _ S1). auto.
Qed.

(** * New tasks *)
Lemma tid_insert_in x l y : In y (tid_insert x l) -> y = x \/ In y l.
Proof.
  induction l as [|h t IH]; cbn [tid_insert]; [intros [H|[]]; auto|].
  destruct (tid_eqb x h); [auto|]. destruct (tid_ltb x h); [intros [H|H]; auto|].
  intros [H|H]; [right; left; exact H|]. destruct (IH H); [auto | right; right; assumption].
Qed.

Lemma register_deps_spec deps : forall c id kept count c' kept' count',
  CS c -> KD (keys c) -> (forall d, In d deps -> fst d = fst id) ->
  register_deps c id deps kept count = (c', kept', count') ->
  map t_id (c_tasks c') = map t_id (c_tasks c) /\ KD (keys c') /\ c_queues c' = c_queues c.
Proof.
  induction deps as [|d r IH]; cbn [register_deps]; intros c id kept count c' kept' count' Hs Hd Hj H.
  - inversion H; subst. auto.
  - destruct (find_task (c_tasks c) d) as [dep|] eqn:Ef; [|eapply IH; eauto; intros; apply Hj; right; assumption].
    set (x := with_consumers dep (tid_insert id (t_consumers dep))) in *.
    destruct (find_task_some _ _ _ Ef) as [Hin Hid].
    assert (Hfx : find_task (c_tasks c) (t_id x) = Some dep) by (cbn; rewrite Hid; exact Ef).
    pose proof (set_task_ids _ _ _ (CS_sorted _ Hs) Hfx) as Eids.
    assert (Hs1 : CS (upd_task c x)).
    { unfold CS, KS, keys, upd_task. cbn. rewrite map_fst_keys, Eids. apply CS_sorted. exact Hs. }
    assert (Hd1 : KD (keys (upd_task c x))).
    { intros i cs y Hk Hy. unfold keys, upd_task in Hk. cbn in Hk.
      destruct (set_task_keys_in _ _ _ Hk) as [Heq|Hold]; [|eapply Hd; eassumption].
      unfold key in Heq. cbn in Heq. injection Heq as Hi Hcs. rewrite Hcs in Hy. rewrite Hi.
      destruct (tid_insert_in _ _ _ Hy) as [Hy'|Hy'].
      - rewrite Hy', Hid. symmetry. apply Hj. left. reflexivity.
      - eapply Hd; [|exact Hy']. change (In (key dep) (map key (c_tasks c))). apply in_map. exact Hin. }
    destruct (IH _ _ _ _ _ _ _ Hs1 Hd1 (fun d0 Hd0 => Hj d0 (or_intror Hd0)) H) as (I1 & I2 & I3).
    split; [rewrite I1; exact Eids | split; [exact I2 | exact I3]].
Qed.

Definition new_ok (t : task) : Prop := t_consumers t = [] /\ forall d, In d (t_deps t) -> fst d = fst (t_id t).

Lemma add_new_tasks_spec ts : forall c ret c' ret',
  CS c -> KD (keys c) -> Forall new_ok ts ->
  add_new_tasks c ts ret = Ok (c', ret') ->
  CS c' /\ KD (keys c') /\ (forall x, present (keys c') x <-> present (keys c) x \/ In x (map t_id ts)).
Proof.
  induction ts as [|t r IH]; cbn [add_new_tasks]; intros c ret c' ret' Hs Hd Hn H.
  - inversion H; subst. split; [exact Hs | split; [exact Hd|]]. intros x. cbn. tauto.
  - inversion Hn as [|? ? [Hc Hj] Hn']; subst.
    destruct (register_deps c (t_id t) (t_deps t) [] 0) as [[c1 kept] count] eqn:Er.
    destruct (register_deps_spec _ _ _ _ _ _ _ _ Hs Hd Hj Er) as (E1 & D1 & _).
    apply bind_ok in H. destruct H as ([c2 rt] & H2 & H).
    assert (E2 : c_tasks c2 = c_tasks c1).
    { destruct (N.eqb count 0); [|inversion H2; reflexivity]. inv_binds H2. inversion H2; reflexivity. }
    destruct (find_task (c_tasks c2) (t_id t)) eqn:Ef; [discriminate|].
    set (t1 := with_state (with_deps t kept) (Waiting count)) in *.
    assert (Hs1 : StronglySorted tlt (map t_id (c_tasks c2))) by (rewrite E2, E1; apply CS_sorted; exact Hs).
    assert (Hs3 : CS (upd_task c2 t1)).
    { unfold CS, KS, keys, upd_task. cbn. rewrite map_fst_keys. apply set_task_new_sorted; [exact Hs1 | exact Ef]. }
    pose proof (set_task_new_keys (c_tasks c2) t1 Ef) as K3.
    assert (Hd3 : KD (keys (upd_task c2 t1))).
    { intros i cs y Hk Hy. unfold keys, upd_task in Hk. cbn in Hk. apply K3 in Hk. destruct Hk as [Heq|Hold].
      - unfold key in Heq. cbn in Heq. inversion Heq; subst. rewrite Hc in Hy. destruct Hy.
      - rewrite E2 in Hold. eapply D1; eassumption. }
    destruct (IH _ _ _ _ Hs3 Hd3 Hn' H) as (A1 & A2 & A3). split; [exact A1 | split; [exact A2|]].
    intros x. rewrite A3. cbn [map In].
    assert (present (keys (upd_task c2 t1)) x <-> t_id t = x \/ present (keys c) x) as ->; [|tauto].
    rewrite (present_key (keys (upd_task c2 t1))). split.
    + intros (cs & Hk). unfold keys, upd_task in Hk. cbn in Hk. apply K3 in Hk. destruct Hk as [Heq|Hold].
      * left. unfold key in Heq. cbn in Heq. inversion Heq; reflexivity.
      * right. apply present_ids. rewrite <- E1, <- E2.
        apply (in_map fst) in Hold. rewrite map_fst_keys in Hold. exact Hold.
    + intros [Heq|Hp].
      * exists (t_consumers t1). unfold keys, upd_task. cbn [c_tasks with_tasks]. apply K3. left. unfold key. cbn. rewrite Heq. reflexivity.
      * apply present_key. apply present_ids. unfold upd_task. cbn [c_tasks with_tasks].
        rewrite <- (map_fst_keys (set_task _ _)).
        apply present_ids in Hp. rewrite <- E1, <- E2, <- (map_fst_keys (c_tasks c2)) in Hp.
        apply in_map_iff in Hp. destruct Hp as (k & Ek & Hk). rewrite <- Ek. apply in_map. apply K3. right. exact Hk.
Qed.
