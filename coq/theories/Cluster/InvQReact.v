(** The queue invariant, part 5: the reactor, first half - retraction, removal of tasks,
    [on_cancel_tasks]. *)
From HQ Require Import Base.Prelude Cluster.Types Cluster.Core Cluster.Reactor Cluster.Worker Cluster.Server Cluster.Sys Cluster.Monitors Cluster.ProofsJob Cluster.ProofsMore Cluster.ProofsStep Cluster.BijBase Cluster.BijCore Cluster.BijHq Cluster.BijSt Cluster.BijReact Cluster.FrameGen Cluster.CrashFrame Cluster.InvQBase Cluster.InvQTake Cluster.InvQInv Cluster.InvQOps.
From Coq Require Import ZArith Lia Sorting.Sorted.
Local Open Scope N_scope.

Arguments N.add : simpl never.
Arguments N.sub : simpl never.

(** Unfold the core setters under [QI]. *)
Ltac qi_simpl := unfold QI in *; cbn [c_tasks c_queues c_redirects c_rqs upd_worker with_workers with_flag upd_task with_tasks with_queues with_redirects with_wcounter with_rqs core_of st_core ask_scheduling with_core s_core fst snd] in *.

(** Same tasks, queues, redirects, request definitions. *)
Definition qsame (c c' : core) : Prop :=
  c_tasks c' = c_tasks c /\ c_queues c' = c_queues c /\ c_redirects c' = c_redirects c /\ c_rqs c' = c_rqs c.
Lemma qsame_refl c : qsame c c.
Proof. repeat split. Qed.
Lemma qsame_trans c1 c2 c3 : qsame c1 c2 -> qsame c2 c3 -> qsame c1 c3.
Proof. intros (A1 & A2 & A3 & A4) (B1 & B2 & B3 & B4). repeat split; congruence. Qed.
Lemma QI_same ex Z c c' : qsame c c' -> QI ex Z c -> QI ex Z c'.
Proof. intros (A1 & A2 & A3 & A4). unfold QI. rewrite A1, A2, A3, A4. auto. Qed.

Lemma reset_mn_workers_qsame ws : forall c id c', reset_mn_workers c ws id = Ok c' -> qsame c c'.
Proof.
  induction ws as [|w r IH]; cbn [reset_mn_workers]; intros c id c' H; [inversion H; apply qsame_refl|].
  apply bind_ok in H. destruct H as (wk & _ & H). destruct (w_assign wk); [discriminate|].
  destruct (tid_eqb t id); [|discriminate]. eapply qsame_trans; [|eapply IH; exact H]. repeat split.
Qed.
Lemma reset_mn_all_qsame ws : forall c c', reset_mn_all c ws = Ok c' -> qsame c c'.
Proof.
  induction ws as [|w r IH]; cbn [reset_mn_all]; intros c c' H; [inversion H; apply qsame_refl|].
  apply bind_ok in H. destruct H as (wk & _ & H). eapply qsame_trans; [|eapply IH; exact H]. repeat split.
Qed.
Lemma set_mn_workers_qsame l : forall c id first c', set_mn_workers c id l first = Ok c' -> qsame c c'.
Proof.
  induction l as [|w r IH]; cbn [set_mn_workers]; intros c id first c' H; [inversion H; apply qsame_refl|].
  apply bind_ok in H. destruct H as (wk & _ & H). apply bind_ok in H. destruct H as (wk' & _ & H).
  eapply qsame_trans; [|eapply IH; exact H]. repeat split.
Qed.

(** Re-setting a task to itself. *)
Lemma set_task_same ts t : StronglySorted tlt (map t_id ts) -> find_task ts (t_id t) = Some t -> set_task ts t = ts.
Proof.
  induction ts as [|h r IH]; cbn [find_task set_task map]; [discriminate|]. intros Hs Hf.
  destruct (tid_eqb (t_id t) (t_id h)) eqn:E; [inversion Hf; reflexivity|].
  destruct (find_task_some _ _ _ Hf) as [Hin _].
  assert (tlt (t_id h) (t_id t)) as Hlt by (eapply sorted_head_lt; [exact Hs | apply in_map; exact Hin]).
  destruct (tid_ltb (t_id t) (t_id h)) eqn:L; [exfalso; eapply tlt_irrefl; eapply tlt_trans; [exact Hlt | exact L]|].
  f_equal. apply IH; [inversion Hs; assumption | exact Hf].
Qed.

(** Only the redirect of one task changes. *)
Lemma QV_redirect ex ex' Z ts qs rs rs' rqs id t :
  QV ex Z ts qs rs rqs -> find_task ts id = Some t ->
  RSorted rs' -> (forall x, x <> id -> find_redirect rs' x = find_redirect rs x) ->
  (forall x, x <> id -> ex' x = ex x) ->
  exp_place ex' rs' id (t_state t) = exp_place ex rs id (t_state t) ->
  (forall v, find_redirect rs' id = Some v -> ex' id = None /\ exists w, t_state t = Retracting w) ->
  QV ex' Z ts qs rs' rqs.
Proof.
  intros V Hf Hrs Hred Hex Hpl Hrd.
  pose proof (find_task_id _ _ _ Hf) as Hid.
  rewrite <- (set_task_same ts t (qv_ts _ _ _ _ _ _ V)) by (rewrite Hid; exact Hf).
  eapply QV_task; try eassumption; try reflexivity.
  intros Hfin. eapply qv_fin; eassumption.
Qed.

(** * [process_retracted] *)
Lemma retract_states_QI Z ids : forall c acc c' acc',
  QI (exL Ready ids none) Z c -> retract_states c ids acc = Ok (c', acc') -> QI none Z c'.
Proof.
  induction ids as [|id r IH]; cbn [retract_states]; intros c acc c' acc' V H; [inversion H; subst; exact V|].
  apply bind_ok in H. destruct H as (t & Ht & H). apply get_task_find in Ht.
  destruct (t_state t) as [| |w| | | |] eqn:Est; try discriminate.
  apply bind_ok in H. destruct H as (wk & _ & H). apply bind_ok in H. destruct H as (wk' & _ & H).
  eapply IH; [|exact H]. qi_simpl.
  assert (Hnr : find_redirect (c_redirects c) id = None) by (eapply QV_no_redirect; [exact V | exact Ht | intros w0; congruence]).
  eapply QV_task0; [exact V | exact Ht | exact (find_task_id _ _ _ Ht) | reflexivity | reflexivity | | | |].
  - intros x Hne. rewrite (exL_cons Ready id r). apply tid_eqb_neq in Hne. rewrite Hne. reflexivity.
  - cbn [t_state with_state]. rewrite Est. unfold exp_place. rewrite (exL_cons Ready id r), (proj2 (tid_eqb_eq id id) eq_refl).
    unfold exL, none. destruct (tid_mem id r); [reflexivity|]. cbn. rewrite Hnr. reflexivity.
  - intros v Hv. congruence.
  - cbn. discriminate.
Qed.

Lemma process_retracted_QI Z s r s' :
  QI (exL Ready r none) Z (core_of s) -> process_retracted s r = Ok s' -> QI none Z (core_of s').
Proof.
  intros V H. unfold process_retracted in H. destruct r as [|r0 rr] eqn:Er; [inversion H; subst; exact V|]. rewrite <- Er in *.
  apply bind_ok in H. destruct H as ([c' groups] & H1 & H). rewrite (send_all_core _ _ _ H). cbn.
  eapply retract_states_QI; eassumption.
Qed.

(** * [try_remove_redirection]: afterwards the task is nowhere and has no redirect *)
Lemma trr_QI ex Z c id t w c' :
  QI ex Z c -> find_task (c_tasks c) id = Some t -> t_state t = Retracting w ->
  try_remove_redirection c t = Ok c' ->
  QI (exU ex id Nowhere) Z c' /\ c_tasks c' = c_tasks c /\ c_rqs c' = c_rqs c /\ find_redirect (c_redirects c') id = None.
Proof.
  intros V Hf Hst H. pose proof (find_task_id _ _ _ Hf) as Hid. unfold try_remove_redirection in H. rewrite Hid in H.
  destruct (find_redirect (c_redirects c) id) as [[w1 rv]|] eqn:Er.
  - inv_binds H. inversion H; subst c'; clear H. qi_simpl.
    pose proof (find_del_redirect (c_redirects c) id) as Fd.
    split; [|split; [reflexivity | split; [reflexivity | rewrite Fd by exact (qv_rs _ _ _ _ _ _ V); rewrite (proj2 (tid_eqb_eq id id) eq_refl); reflexivity]]].
    destruct (qv_red _ _ _ _ _ _ V _ _ Er) as (En & _).
    eapply QV_redirect; [exact V | exact Hf | apply del_redirect_sorted; exact (qv_rs _ _ _ _ _ _ V) | | | |].
    + intros x Hne. rewrite Fd by exact (qv_rs _ _ _ _ _ _ V). apply tid_eqb_neq in Hne. rewrite Hne. reflexivity.
    + intros x Hne. apply exU_other. exact Hne.
    + unfold exp_place. rewrite exU_same, En, Hst. cbn. rewrite Er. reflexivity.
    + intros v Hv. rewrite Fd in Hv by exact (qv_rs _ _ _ _ _ _ V). rewrite (proj2 (tid_eqb_eq id id) eq_refl) in Hv. discriminate.
  - apply bind_ok in H. destruct H as (q & Hq & H). apply bind_ok in H. destruct H as (q' & Hq' & H). inversion H; subst c'; clear H. qi_simpl.
    apply nth_queue_ok in Hq.
    split; [|split; [reflexivity | split; [reflexivity | exact Er]]].
    eapply QV_q_remove; eassumption.
Qed.

(** * Removing tasks *)
Definition lax (ex : exn) : Prop := forall x, ex x = None \/ ex x = Some Nowhere.
Lemma lax_none : lax none.
Proof. intros x. left. reflexivity. Qed.
Lemma lax_exL l base : lax base -> lax (exL Nowhere l base).
Proof. intros H x. unfold exL. destruct (tid_mem x l); [right; reflexivity | apply H]. Qed.
Lemma lax_exU base id : lax base -> lax (exU base id Nowhere).
Proof. intros H x. unfold exU. destruct (tid_eqb x id); [right; reflexivity | apply H]. Qed.

(** [tsub ts ts']: every task of [ts'] is a task of [ts] with the same state. *)
Definition tsub (ts ts' : list task) : Prop :=
  forall x t', find_task ts' x = Some t' -> exists t, find_task ts x = Some t /\ t_state t = t_state t'.
Lemma tsub_refl ts : tsub ts ts.
Proof. intros x t H. eauto. Qed.
Lemma tsub_trans a b c : tsub a b -> tsub b c -> tsub a c.
Proof. intros H1 H2 x t H. destruct (H2 _ _ H) as (t1 & A & B). destruct (H1 _ _ A) as (t0 & C & D). exists t0. split; [exact C | congruence]. Qed.

Lemma remove_consumer_from_QV ex Z qs rs rqs deps : forall ts cid ts',
  QV ex Z ts qs rs rqs -> remove_consumer_from ts deps cid = Ok ts' ->
  QV ex Z ts' qs rs rqs /\ tsub ts ts' /\ (forall x, find_task ts x = None -> find_task ts' x = None).
Proof.
  induction deps as [|d r IH]; cbn [remove_consumer_from]; intros ts cid ts' V H.
  - inversion H; subst. split; [exact V | split; [apply tsub_refl | auto]].
  - destruct (find_task ts d) as [input|] eqn:Ef; [|eapply IH; eassumption].
    destruct (tid_mem cid (t_consumers input)); [|discriminate].
    set (x := with_consumers input (tid_remove cid (t_consumers input))) in *.
    pose proof (find_task_id _ _ _ Ef) as Hid.
    assert (V1 : QV ex Z (set_task ts x) qs rs rqs).
    { eapply QV_task0; [exact V | exact Ef | exact Hid | reflexivity | reflexivity | reflexivity | reflexivity | |].
      - intros v Hv. cbn. apply (qv_red _ _ _ _ _ _ V) in Hv. destruct Hv as (En & t0 & w & Hf0 & Hw). rewrite Ef in Hf0. inversion Hf0; subst. eauto.
      - cbn. intros Hfin. eapply qv_fin; eassumption. }
    destruct (IH _ _ _ V1 H) as (I1 & I2 & I3). split; [exact I1|]. split.
    + eapply tsub_trans; [|exact I2]. intros y t' Hy. rewrite find_set_task in Hy. cbn [t_id x with_consumers] in Hy. rewrite Hid in Hy.
      destruct (tid_eqb y d) eqn:E; [|eauto]. apply tid_eqb_eq in E. subst y. inversion Hy; subst t'. exists input. split; [exact Ef | reflexivity].
    + intros y Hy. apply I3. rewrite find_set_task. cbn [t_id x with_consumers]. rewrite Hid.
      destruct (tid_eqb y d) eqn:E; [apply tid_eqb_eq in E; subst y; congruence | exact Hy].
Qed.

Lemma remove_task_QI ex Z Z' c id c' stt :
  lax ex -> QI ex Z c -> remove_task c id = Ok (c', stt) ->
  (forall t, find_task (c_tasks c) id = Some t -> is_waiting t = true \/
     (exp_place ex (c_redirects c) id (t_state t) = Nowhere /\ find_redirect (c_redirects c) id = None)) ->
  (forall x, In x Z -> x <> id -> In x Z') ->
  QI ex Z' c' /\ tsub (c_tasks c) (c_tasks c') /\ find_task (c_tasks c') id = None /\
  (forall x, find_task (c_tasks c) x = None -> find_task (c_tasks c') x = None) /\
  c_rqs c' = c_rqs c /\ (exists t, find_task (c_tasks c) id = Some t /\ stt = t_state t).
Proof.
  intros Hlax V H Hpre HZ. unfold remove_task in H.
  destruct (find_task (c_tasks c) id) as [t|] eqn:Ef; [|discriminate].
  specialize (Hpre _ eq_refl).
  pose proof (find_del_task (c_tasks c) id) as Fd.
  assert (Hsub : tsub (c_tasks c) (del_task (c_tasks c) id)).
  { intros x t' Hx. rewrite Fd in Hx by exact (qv_ts _ _ _ _ _ _ V). destruct (tid_eqb x id); [discriminate | eauto]. }
  assert (Hgone : find_task (del_task (c_tasks c) id) id = None).
  { rewrite Fd by exact (qv_ts _ _ _ _ _ _ V). rewrite (proj2 (tid_eqb_eq id id) eq_refl). reflexivity. }
  assert (Hnone : forall x, find_task (c_tasks c) x = None -> find_task (del_task (c_tasks c) id) x = None).
  { intros x Hx. rewrite Fd by exact (qv_ts _ _ _ _ _ _ V). destruct (tid_eqb x id); [reflexivity | exact Hx]. }
  (* plain deletion of a task that is nowhere *)
  assert (Hdel : exp_place ex (c_redirects c) id (t_state t) = Nowhere -> find_redirect (c_redirects c) id = None ->
                 QV ex Z' (del_task (c_tasks c) id) (c_queues c) (c_redirects c) (c_rqs c)).
  { intros Hpl Hr. eapply QV_del; eassumption. }
  assert (Hnw : is_waiting t = false -> exp_place ex (c_redirects c) id (t_state t) = Nowhere /\ find_redirect (c_redirects c) id = None).
  { intros Hw. destruct Hpre as [Hp|Hp]; [congruence | exact Hp]. }
  destruct (t_state t) as [n| | | | | |] eqn:Est;
    try (inversion H; subst; destruct Hnw as [A B]; [unfold is_waiting; rewrite Est; reflexivity|];
         split; [qi_simpl; apply Hdel; assumption | split; [exact Hsub | split; [exact Hgone | split; [exact Hnone | split; [reflexivity | eauto]]]]]).
  assert (Hnr : find_redirect (c_redirects c) id = None) by (eapply QV_no_redirect; [exact V | exact Ef | intros w0; congruence]).
  apply bind_ok in H. destruct H as (c2 & H2 & H).
  assert (V2 : QI ex Z' c2 /\ c_tasks c2 = del_task (c_tasks c) id /\ c_rqs c2 = c_rqs c).
  { destruct (N.eqb n 0) eqn:En.
    - apply N.eqb_eq in En. subst n.
      apply bind_ok in H2. destruct H2 as (q & Hq & H2). apply bind_ok in H2. destruct H2 as (q' & Hq' & H2). inversion H2; subst c2; clear H2.
      cbn [c_queues with_tasks] in Hq. apply nth_queue_ok in Hq. qi_simpl. split; [|split; reflexivity].
      pose proof (QV_q_remove _ _ _ _ _ _ _ _ _ _ V Ef Hq Hq' Hnr) as V1.
      eapply QV_ext; [eapply QV_del; [exact V1 | exact Ef | unfold exp_place; rewrite exU_same; reflexivity | exact Hnr | exact HZ]|].
      intros x t0 Hx. rewrite Fd in Hx by exact (qv_ts _ _ _ _ _ _ V). destruct (tid_eqb x id) eqn:E; [discriminate|].
      apply tid_eqb_neq in E. symmetry. apply exU_other. exact E.
    - inversion H2; subst c2. qi_simpl. split; [|split; reflexivity]. apply Hdel; [|exact Hnr].
      unfold exp_place. destruct (Hlax id) as [E|E]; rewrite E; [|reflexivity]. cbn. rewrite En. reflexivity. }
  destruct V2 as (V2 & T2 & R2).
  destruct (N.ltb 0 n).
  - apply bind_ok in H. destruct H as (ts' & Hr & H). inversion H; subst; clear H.
    destruct (remove_consumer_from_QV _ _ _ _ _ _ _ _ _ V2 Hr) as (V3 & S3 & N3). qi_simpl.
    split; [exact V3|]. rewrite T2 in S3, N3. split; [eapply tsub_trans; eassumption|]. split; [apply N3; exact Hgone|].
    split; [intros x Hx; apply N3; apply Hnone; exact Hx | split; [exact R2 | eauto]].
  - inversion H; subst; clear H. rewrite T2. split; [exact V2 | split; [exact Hsub | split; [exact Hgone | split; [exact Hnone | split; [exact R2 | eauto]]]]].
Qed.

Lemma nowhere_pre ex Z c id t : QI ex Z c -> find_task (c_tasks c) id = Some t ->
  is_waiting t = true \/ ex id = Some Nowhere ->
  is_waiting t = true \/ (exp_place ex (c_redirects c) id (t_state t) = Nowhere /\ find_redirect (c_redirects c) id = None).
Proof.
  intros V Hf [Hw|Hp]; [left; exact Hw|]. right. split; [unfold exp_place; rewrite Hp; reflexivity|].
  destruct (find_redirect (c_redirects c) id) eqn:Er; [|reflexivity]. apply (qv_red _ _ _ _ _ _ V) in Er. destruct Er as [Er _]. congruence.
Qed.

Lemma remove_task_state c id c' stt t : remove_task c id = Ok (c', stt) -> find_task (c_tasks c) id = Some t -> stt = t_state t.
Proof.
  unfold remove_task. intros H Hf. rewrite Hf in H. destruct (t_state t) eqn:Est; try (inversion H; reflexivity).
  apply bind_ok in H. destruct H as (c2 & _ & H). destruct (N.ltb 0 unfinished_deps); [apply bind_ok in H; destruct H as (ts & _ & H)|]; inversion H; reflexivity.
Qed.

Lemma remove_tasks_batched_QI ex Z l : forall c c',
  lax ex -> QI ex Z c ->
  (forall x t, In x l -> find_task (c_tasks c) x = Some t -> is_waiting t = true \/ ex x = Some Nowhere) ->
  remove_tasks_batched c l = Ok c' ->
  QI ex Z c' /\ tsub (c_tasks c) (c_tasks c') /\ (forall x, In x l -> find_task (c_tasks c') x = None) /\
  (forall x, find_task (c_tasks c) x = None -> find_task (c_tasks c') x = None) /\ c_rqs c' = c_rqs c.
Proof.
  induction l as [|id r IH]; cbn [remove_tasks_batched]; intros c c' Hlax V Hpre H.
  - inversion H; subst. split; [exact V | split; [apply tsub_refl | split; [intros x [] | auto]]].
  - apply bind_ok in H. destruct H as ([c1 stt] & H1 & H).
    destruct (remove_task_QI ex Z Z _ _ _ _ Hlax V H1) as (V1 & S1 & G1 & N1 & R1 & _); [intros t Ht; eapply nowhere_pre; [exact V | exact Ht | eapply Hpre; [left; reflexivity | exact Ht]] | auto|].
    assert (Hpre1 : forall x t, In x r -> find_task (c_tasks c1) x = Some t -> is_waiting t = true \/ ex x = Some Nowhere).
    { intros x t Hx Ht. destruct (S1 _ _ Ht) as (t0 & Ht0 & Hst). destruct (Hpre x t0 (or_intror Hx) Ht0) as [A|A]; [left; unfold is_waiting in *; rewrite <- Hst; exact A | right; exact A]. }
    destruct (IH _ _ Hlax V1 Hpre1 H) as (V2 & S2 & G2 & N2 & R2).
    split; [exact V2 | split; [eapply tsub_trans; eassumption | split; [|split; [auto | congruence]]]].
    intros x [<-|Hx]; [apply N2; exact G1 | apply G2; exact Hx].
Qed.

Lemma remove_waiting_consumers_QI ex Z l : forall c c',
  lax ex -> QI ex Z c -> remove_waiting_consumers c l = Ok c' ->
  QI ex Z c' /\ tsub (c_tasks c) (c_tasks c') /\ (forall x, find_task (c_tasks c) x = None -> find_task (c_tasks c') x = None) /\ c_rqs c' = c_rqs c /\
  (forall x, In x l -> find_task (c_tasks c') x = None).
Proof.
  induction l as [|id r IH]; cbn [remove_waiting_consumers]; intros c c' Hlax V H.
  - inversion H; subst. split; [exact V | split; [apply tsub_refl | split; [auto | split; [reflexivity | intros x []]]]].
  - apply bind_ok in H. destruct H as ([c1 stt] & H1 & H).
    assert (Hw : forall t, find_task (c_tasks c) id = Some t -> is_waiting t = true \/
              (exp_place ex (c_redirects c) id (t_state t) = Nowhere /\ find_redirect (c_redirects c) id = None)).
    { intros t Ht. left. unfold remove_task in H1. rewrite Ht in H1. unfold is_waiting.
      destruct (t_state t); try (inversion H1; subst; discriminate). reflexivity. }
    destruct (remove_task_QI ex Z Z _ _ _ _ Hlax V H1 Hw) as (V1 & S1 & G1 & N1 & R1 & _); [auto|].
    destruct stt; try discriminate.
    destruct (IH _ _ Hlax V1 H) as (V2 & S2 & N2 & R2 & G2).
    split; [exact V2 | split; [eapply tsub_trans; eassumption | split; [auto | split; [congruence|]]]].
    intros x [<-|Hx]; [apply N2; exact G1 | apply G2; exact Hx].
Qed.

(** * [on_cancel_tasks] *)
Lemma cancel_release_QI Z ids : forall s tu ru s' tu' ru' L,
  QI (exL Nowhere L none) Z (core_of s) ->
  cancel_release s ids tu ru = Ok (s', tu', ru') ->
  exists L', QI (exL Nowhere L' none) Z (core_of s') /\ c_tasks (core_of s') = c_tasks (core_of s) /\
    (forall x, In x L -> In x L') /\
    (forall x, In x L' -> In x L \/ (In x ids /\ find_task (c_tasks (core_of s)) x <> None)) /\
    (forall x t, In x ids -> find_task (c_tasks (core_of s)) x = Some t -> is_waiting t = true \/ In x L').
Proof.
  induction ids as [|id r IH]; cbn [cancel_release]; intros s tu ru s' tu' ru' L V H.
  - inversion H; subst. exists L. split; [exact V | split; [reflexivity | split; [auto | split; [auto | intros x t []]]]].
  - destruct (find_task (c_tasks (core_of s)) id) as [t|] eqn:Ef.
    + apply bind_ok in H. destruct H as (csm & _ & H). apply bind_ok in H. destruct H as (rq & _ & H).
      (* every branch continues from a state with the same tasks in which [id] is waiting or nowhere *)
      assert (Hgen : forall s1 tu1 ru1 L1, QI (exL Nowhere L1 none) Z (core_of s1) -> c_tasks (core_of s1) = c_tasks (core_of s) ->
                (forall x, In x L -> In x L1) -> (forall x, In x L1 -> In x L \/ x = id) -> (is_waiting t = true \/ In id L1) ->
                cancel_release s1 r tu1 ru1 = Ok (s', tu', ru') ->
                exists L', QI (exL Nowhere L' none) Z (core_of s') /\ c_tasks (core_of s') = c_tasks (core_of s) /\
                  (forall x, In x L -> In x L') /\
                  (forall x, In x L' -> In x L \/ ((id = x \/ In x r) /\ find_task (c_tasks (core_of s)) x <> None)) /\
                  (forall x t0, id = x \/ In x r -> find_task (c_tasks (core_of s)) x = Some t0 -> is_waiting t0 = true \/ In x L')).
      { intros s1 tu1 ru1 L1 V1 T1 HL HL1 Hid H1. destruct (IH _ _ _ _ _ _ _ V1 H1) as (L' & A1 & A2 & A3 & A4 & A5).
        exists L'. split; [exact A1 | split; [congruence | split; [auto | split]]].
        - intros x Hx. destruct (A4 _ Hx) as [Hx1|[Hx1 Hx2]].
          + destruct (HL1 _ Hx1) as [Hx2| ->]; [left; exact Hx2 | right; split; [left; reflexivity | congruence]].
          + right. split; [right; exact Hx1 | rewrite <- T1; exact Hx2].
        - intros x t0 [<-|Hx] Hf0.
          + rewrite Ef in Hf0. inversion Hf0; subst t0. destruct Hid as [Hw|Hl]; [left; exact Hw | right; apply A3; exact Hl].
          + apply A5; [exact Hx | rewrite T1; exact Hf0]. }
      (* put [id] (nowhere by its state) on the list *)
      assert (Hadd : forall c1, QI (exL Nowhere L none) Z c1 -> c_tasks c1 = c_tasks (core_of s) ->
                      nat_place (c_redirects c1) id (t_state t) = Nowhere -> (forall w, t_state t <> Retracting w) ->
                      QI (exL Nowhere (id :: L) none) Z c1).
      { intros c1 V1 T1 Hn Hnr. unfold QI in *. eapply QV_ex_change; [exact V1 | |].
        - intros x t0 Hf0. unfold exp_place. rewrite exL_cons. destruct (tid_eqb x id) eqn:E; [|reflexivity].
          apply tid_eqb_eq in E. subst x. rewrite T1, Ef in Hf0. inversion Hf0; subst t0.
          unfold exL, none. destruct (tid_mem id L); [reflexivity | symmetry; exact Hn].
        - intros x v Hv. pose proof (qv_red _ _ _ _ _ _ V1 _ _ Hv) as (En & t0 & w & Hf0 & Hw). rewrite exL_cons.
          destruct (tid_eqb x id) eqn:E; [|exact En]. apply tid_eqb_eq in E. subst x. rewrite T1, Ef in Hf0. inversion Hf0; subst t0. exfalso. exact (Hnr _ Hw). }
      assert (Hext : forall c1, QI (exU (exL Nowhere L none) id Nowhere) Z c1 -> QI (exL Nowhere (id :: L) none) Z c1).
      { intros c1 V1. unfold QI in *. eapply QV_ext; [exact V1|]. intros x t0 _. rewrite exL_cons. reflexivity. }
      assert (Hin1 : forall x, In x L -> In x (id :: L)) by (intros x Hx; right; exact Hx).
      assert (Hin2 : forall x, In x (id :: L) -> In x L \/ x = id) by (intros x [<-|Hx]; auto).
      destruct (t_state t) as [n|w rv|w|w|w rv|ws|] eqn:Est.
      * eapply Hgen; [| | | | |exact H]; [exact V | reflexivity | auto | auto | left; unfold is_waiting; rewrite Est; reflexivity].
      * apply bind_ok in H. destruct H as (wk & _ & H). apply bind_ok in H. destruct H as (wk' & _ & H).
        eapply Hgen; [| | exact Hin1 | exact Hin2 | right; left; reflexivity | exact H]; [|reflexivity].
        apply (Hadd (core_of s)); [exact V | reflexivity | reflexivity | intros w0; discriminate].
      * apply bind_ok in H. destruct H as (q & Hq & H). apply bind_ok in H. destruct H as (q' & Hq' & H).
        apply bind_ok in H. destruct H as (wk & _ & H). apply bind_ok in H. destruct H as (wk' & _ & H).
        eapply Hgen; [| | exact Hin1 | exact Hin2 | right; left; reflexivity | exact H]; [|reflexivity].
        apply Hext. qi_simpl. apply nth_queue_ok in Hq.
        eapply QV_q_remove_prefilled; [exact V | exact Ef | exact Hq | exact Hq'|].
        eapply QV_no_redirect; [exact V | exact Ef | intros w0; congruence].
      * apply bind_ok in H. destruct H as (c' & Hc' & H).
        destruct (trr_QI _ _ _ _ _ _ _ V Ef Est Hc') as (V1 & T1 & _ & _).
        eapply Hgen; [| | exact Hin1 | exact Hin2 | right; left; reflexivity | exact H]; [|exact T1].
        apply Hext. exact V1.
      * apply bind_ok in H. destruct H as (wk & _ & H). apply bind_ok in H. destruct H as (wk' & _ & H).
        eapply Hgen; [| | exact Hin1 | exact Hin2 | right; left; reflexivity | exact H]; [|reflexivity].
        apply (Hadd (core_of s)); [exact V | reflexivity | reflexivity | intros w0; discriminate].
      * apply bind_ok in H. destruct H as (c' & Hc' & H). destruct ws as [|w0 ws']; [discriminate|].
        pose proof (reset_mn_all_qsame _ _ _ Hc') as Hs.
        eapply Hgen; [| | exact Hin1 | exact Hin2 | right; left; reflexivity | exact H]; [|apply Hs].
        cbn [core_of st_core ask_scheduling with_core s_core fst]. apply (QI_same _ _ (core_of s)); [destruct Hs as (A & B & C & D); repeat split; assumption|].
        apply (Hadd (core_of s)); [exact V | reflexivity | reflexivity | intros w1; discriminate].
      * discriminate.
    + destruct (IH _ _ _ _ _ _ _ V H) as (L' & A1 & A2 & A3 & A4 & A5).
      exists L'. split; [exact A1 | split; [exact A2 | split; [exact A3 | split]]].
      * intros x Hx. destruct (A4 _ Hx) as [Hx1|[Hx1 Hx2]]; [left; exact Hx1 | right; split; [right; exact Hx1 | exact Hx2]].
      * intros x t0 [<-|Hx] Hf0; [congruence | eapply A5; eassumption].
Qed.

Lemma cancel_release_rqs ids : forall s tu ru s' tu' ru',
  cancel_release s ids tu ru = Ok (s', tu', ru') -> c_rqs (core_of s') = c_rqs (core_of s).
Proof.
  induction ids as [|id r IH]; intros s tu ru s' tu' ru' H1; cbn [cancel_release] in H1; [inversion H1; reflexivity|].
  destruct (find_task (c_tasks (core_of s)) id) as [t|]; [|eapply IH; exact H1].
  apply bind_ok in H1. destruct H1 as (csm & _ & H1). apply bind_ok in H1. destruct H1 as (rq & _ & H1).
  destruct (t_state t); try discriminate.
  - rewrite (IH _ _ _ _ _ _ H1). reflexivity.
  - inv_binds H1. rewrite (IH _ _ _ _ _ _ H1). reflexivity.
  - inv_binds H1. rewrite (IH _ _ _ _ _ _ H1). reflexivity.
  - apply bind_ok in H1. destruct H1 as (c1 & Hc1 & H1). rewrite (IH _ _ _ _ _ _ H1). cbn.
    unfold try_remove_redirection in Hc1. destruct (find_redirect _ _) as [[w0 rv0]|]; inv_binds Hc1; inversion Hc1; reflexivity.
  - inv_binds H1. rewrite (IH _ _ _ _ _ _ H1). reflexivity.
  - apply bind_ok in H1. destruct H1 as (c1 & Hc1 & H1). destruct ws; [discriminate|]. rewrite (IH _ _ _ _ _ _ H1). cbn.
    apply (reset_mn_all_qsame _ _ _ Hc1).
Qed.

(** [on_cancel_tasks] under the hypothesis (provided by the bijection with the job layer) that every
    task that is going to be removed is either one of the cancelled ones or a waiting task. *)
Lemma on_cancel_tasks_QI Z s ids s' :
  QI none Z (core_of s) -> KD (K s) ->
  (forall x t y, find_task (c_tasks (core_of s)) x = Some t -> In y ids -> fst x = fst y -> In x ids \/ is_waiting t = true) ->
  on_cancel_tasks s ids = Ok s' ->
  QI none Z (core_of s') /\ tsub (c_tasks (core_of s)) (c_tasks (core_of s')) /\ c_rqs (core_of s') = c_rqs (core_of s).
Proof.
  intros V Hd Hcl H. unfold on_cancel_tasks in H.
  apply bind_ok in H. destruct H as ([[s1 tu] ru] & H1 & H). apply bind_ok in H. destruct H as (c' & H2 & H).
  destruct (cancel_release_spec _ _ _ _ _ _ _ Hd H1) as (E1 & _ & I3 & I4).
  destruct (cancel_release_QI Z _ _ _ _ _ _ _ [] V H1) as (L' & V1 & T1 & _ & L4 & L5).
  assert (Hlax : lax (exL Nowhere L' none)) by (apply lax_exL, lax_none).
  assert (Hpre : forall x t, In x tu -> find_task (c_tasks (core_of s1)) x = Some t -> is_waiting t = true \/ exL Nowhere L' none x = Some Nowhere).
  { intros x t Hx Ht. rewrite T1 in Ht. destruct (I4 _ Hx) as [[]|(y & Hy & Hpy & Hfy)].
    destruct (Hcl _ _ _ Ht Hy Hfy) as [Hin|Hw]; [|left; exact Hw].
    destruct (L5 _ _ Hin Ht) as [Hw|Hl]; [left; exact Hw | right; apply exL_in; exact Hl]. }
  destruct (remove_tasks_batched_QI _ Z tu _ _ Hlax V1 Hpre H2) as (V2 & S2 & G2 & N2 & R2).
  rewrite (send_all_core _ _ _ H). cbn [core_of st_core with_core s_core fst].
  split; [|split; [rewrite <- T1; exact S2|]].
  - unfold QI in *. eapply QV_ext; [exact V2|]. intros x t Hf. symmetry. apply (exL_notin Nowhere L' none x). intros Hx.
    destruct (L4 _ Hx) as [[]|[Hin Hne]].
    assert (Hp : present (K s) x).
    { apply find_task_present. destruct (find_task (c_tasks (core_of s)) x) eqn:E; [eauto | congruence]. }
    rewrite (G2 x (I3 _ Hin Hp)) in Hf. discriminate.
  - rewrite R2. eapply cancel_release_rqs; exact H1.
Qed.
