(** C01 / C08, "silent after terminal": once a terminal event of task [t] (EvFinished t,
    EvFailed t _, t in EvCanceled ts / EvAborted ts) is in the event stream of a history of the
    system model, NO later event names [t] at all - no second terminal event
    ([ProofsOnce.terminal_event_once]) and, new here, no [EvStarted t ..].

    Why it holds.  [EvStarted t ..] is emitted by [process_task_started] only, called by
    [task_running] only, and only for a task the CORE still has ([find_task .. = Some]); note that
    [process_task_started] itself does NOT look at the job state of the task (a terminal state is
    left alone, the event is emitted all the same), so the argument needs the link between core
    and job layer: a task the core knows has no outcome in the job layer ([SilentPA1.PA], the "no
    phantom task" direction of C02, which - unlike the full bijection - needs no hypothesis on the
    history: SilentPA2.v), a task named by a terminal event is [dead]
    ([ProofsOnce.ONCE]) and a dead task is not active ([active_not_dead]).  Every other function
    emits no start at all (shape pass of SilentBase.v with Q = "is not a start"). *)
From HQ Require Import Base.Prelude Cluster.Types Cluster.Core Cluster.Reactor Cluster.Worker Cluster.Server Cluster.Sys Cluster.Monitors Cluster.ProofsJob Cluster.ProofsMore Cluster.ProofsTerminal Cluster.ProofsStep Cluster.ProofsFinal Cluster.BijBase Cluster.BijCore Cluster.BijHq Cluster.BijSt Cluster.BijReact Cluster.BijFinal Cluster.ProofsOnce Cluster.RejHyp Cluster.InvDStep Cluster.SilentBase Cluster.SilentPA1 Cluster.SilentPA2.
From Coq Require Import ZArith Lia.
Local Open Scope N_scope.

Arguments N.add : simpl never.
Arguments N.sub : simpl never.

(** * The stream predicates *)

(** All task ids an event names. *)
Definition ev_names (e : event) : list tid :=
  match e with
  | EvStarted t _ _ _ => [t]
  | EvFinished t => [t]
  | EvFailed t _ => [t]
  | EvCanceled ts => ts
  | EvAborted ts => ts
  | _ => []
  end.

Definition starts_of (o : out) : list tid :=
  match o with OEv (EvStarted t _ _ _) => [t] | _ => [] end.
Definition starts (l : list out) : list tid := flat_map starts_of l.

Lemma starts_app a b : starts (a ++ b) = starts a ++ starts b.
Proof. unfold starts. apply flat_map_app. Qed.

Lemma ev_names_split e t : In t (ev_names e) -> In t (starts_of (OEv e)) \/ In t (tids_of (OEv e)).
Proof. destruct e; cbn; auto. Qed.

(** No start after a terminal event of the same task. *)
Definition NS (l : list out) : Prop :=
  forall a o b t, l = a ++ o :: b -> In t (tids_of o) -> ~ In t (starts b).

Definition Qns (o : out) : Prop := starts_of o = [].

Lemma Qns_plain o : plain o -> Qns o.
Proof. destruct o as [e| | | | | |]; try reflexivity. destruct e; try reflexivity. intros []. Qed.
Lemma Qns_direct o : direct o -> Qns o.
Proof. destruct o as [e| | | | | |]; try reflexivity. intros []. Qed.

Lemma Qns_starts ext : Forall Qns ext -> starts ext = [].
Proof. induction 1 as [|x r Hx _ IH]; [reflexivity|]. unfold starts in *. cbn [flat_map]. rewrite Hx, IH. reflexivity. Qed.

Lemma NS_nil : NS [].
Proof. intros a o b t E. destruct a; discriminate. Qed.

Lemma NS_nostarts ext : starts ext = [] -> NS ext.
Proof.
  intros E a o b t -> _. rewrite starts_app in E. apply app_eq_nil in E. destruct E as [_ E].
  change (o :: b) with ([o] ++ b) in E. rewrite starts_app in E. apply app_eq_nil in E. destruct E as [_ E]. rewrite E. intros [].
Qed.

Lemma NS_single o : NS [o].
Proof.
  intros a x b t E _. destruct a as [|y a']; [inversion E; subst; intros []|].
  inversion E as [[E1 E2]]. destruct a'; discriminate.
Qed.

Lemma tids_cons_s o r : terminal_ids (o :: r) = tids_of o ++ terminal_ids r.
Proof. reflexivity. Qed.

Lemma NS_app l ext :
  NS l -> NS ext -> (forall t, In t (terminal_ids l) -> ~ In t (starts ext)) -> NS (l ++ ext).
Proof.
  intros Hl He Hx a o b t E Ht.
  apply app_eq_app in E. destruct E as (m & [[E1 E2]|[E1 E2]]).
  - destruct m as [|x m'].
    + cbn [app] in E2. rewrite app_nil_r in E1. subst a. apply (He [] o b t); [symmetry; exact E2 | exact Ht].
    + cbn [app] in E2. inversion E2; subst x b. rewrite starts_app. intros Hin. apply in_app_or in Hin. destruct Hin as [Hin|Hin].
      * exact (Hl a o m' t E1 Ht Hin).
      * apply (Hx t); [|exact Hin]. rewrite E1, terminal_ids_app, tids_cons_s. apply in_or_app. right. apply in_or_app. left. exact Ht.
  - apply (He m o b t); [exact E2 | exact Ht].
Qed.

(** * The invariant carried through the processing of a worker message *)
Record J (s : st) (pre : list out) : Prop := mkJ {
  j_hok : HOK (hq_of s);
  j_cb : PA s;
  j_fresh : fresh s;
  j_once : ONCE (fst s, pre ++ snd s);
  j_ns : NS (pre ++ snd s)
}.

Lemma TE_shift2 s s' pre : TE s s' -> TE (fst s, pre ++ snd s) (fst s', pre ++ snd s').
Proof.
  intros T t. destruct (T t) as [T1 T2]. cbn [snd]. rewrite !tcount_app. split.
  - intros D. change (dead s t) in D. destruct (T1 D) as [D' E]. split; [exact D' | lia].
  - destruct T2 as [E|[E D]]; [left; lia | right; split; [lia | exact D]].
Qed.

(** A named-terminally task is dead. *)
Lemma ONCE_dead s pre t : ONCE (fst s, pre ++ snd s) -> In t (terminal_ids (pre ++ snd s)) -> dead s t.
Proof.
  intros O Hin. destruct (O t) as [O1 O2]. cbn [snd] in O1, O2.
  apply (count_occ_In tid_dec) in Hin. unfold tcount in *. apply O2. lia.
Qed.

(** A piece of execution that emits no start. *)
Lemma J_quiet s s' pre :
  J s pre -> HOK (hq_of s') -> PA s' -> fresh s' -> TE s s' -> EX Qns s s' -> J s' pre.
Proof.
  intros [_ _ _ O NSs] Hok HC F T (ext & E & Hq). constructor; [exact Hok | exact HC | exact F | |].
  - eapply TE_ONCE; [apply TE_shift2; exact T | exact O].
  - rewrite E, app_assoc. pose proof (Qns_starts _ Hq) as Hs. apply NS_app; [exact NSs | apply NS_nostarts; exact Hs|].
    intros t _. rewrite Hs. intros [].
Qed.

(** [task_running] emits at most the start of a task the core still has. *)
Lemma task_running_out s w id rv s' b :
  task_running s w id rv = Ok (s', b) ->
  snd s' = snd s \/ (exists i ws, snd s' = snd s ++ [OEv (EvStarted id i ws rv)]) /\ present (K s) id.
Proof.
  intros Hc. unfold task_running in Hc.
  destruct (find_task (c_tasks (core_of s)) id) as [t|] eqn:Ef; [|inversion Hc; subst; left; reflexivity].
  right. split; [|apply (proj1 (find_task_present (core_of s) id)); exists t; exact Ef].
  inv_binds Hc. inversion Hc; subst.
  match goal with X : process_task_started ?s1 _ ?i ?ws _ = Ok _ |- _ =>
    exists i, ws; assert (ES1 : snd s1 = snd s); [|rewrite <- ES1; clear - X] end.
  2: { match goal with X : process_task_started _ _ _ _ _ = Ok _ |- _ => rename X into HX end.
       unfold process_task_started in HX; apply bind_ok in HX; destruct HX as (j & _ & HX).
       destruct (jt_find _ _); [|discriminate]. inversion HX; reflexivity. }
  match goal with X : match t_state t with _ => _ end = Ok _ |- _ => rename X into Hm end.
  destruct (t_state t); try discriminate.
  - destruct (negb (N.eqb w0 w)); [discriminate|]. destruct (negb (N.eqb rv0 rv)); [discriminate|]. inversion Hm; subst. reflexivity.
  - destruct (negb (N.eqb w0 w)); [discriminate|]. inv_binds Hm. inversion Hm; subst. reflexivity.
  - destruct (negb (N.eqb w0 w)); [discriminate|]. inv_binds Hm. inversion Hm; subst. reflexivity.
  - destruct ws; [discriminate|]. destruct (N.eqb w0 w); [|discriminate]. inversion Hm; subst. reflexivity.
Qed.

Lemma task_running_J s w id rv s' b pre : J s pre -> task_running s w id rv = Ok (s', b) -> J s' pre.
Proof.
  intros [Hok HC F O NSs] Hu.
  destruct (task_running_spec _ _ _ _ _ _ (pa_s _ HC) Hu) as [EK EA].
  pose proof (TE_task_running _ _ _ _ _ _ F Hu) as T.
  constructor.
  - eapply task_running_ok; eassumption.
  - eapply PA_frame; eassumption.
  - exact (g_fresh _ _ (G_task_running _ _ _ _ _ _ F Hu) F).
  - eapply TE_ONCE; [apply TE_shift2; exact T | exact O].
  - destruct (task_running_out _ _ _ _ _ _ Hu) as [E|[(i & ws & E) Hp]]; [rewrite E; exact NSs|].
    rewrite E, app_assoc. apply NS_app; [exact NSs | apply NS_single|].
    intros t Ht. cbn. intros [<-|[]].
    apply (active_not_dead s id); [apply (pa_b _ HC); exact Hp | eapply ONCE_dead; eassumption].
Qed.

Lemma apply_one_J s w u s' n pre : J s pre -> apply_one s w u = Ok (s', n) -> J s' pre.
Proof.
  intros HJ Hu. destruct u; cbn [apply_one] in Hu.
  - destruct HJ as [Hok HC F O NSs]. eapply J_quiet; [constructor; eassumption | eapply task_finished_ok; eassumption | eapply task_finished_PA; eassumption
      | exact (g_fresh _ _ (G_task_finished _ _ _ _ _ F Hu) F) | eapply TE_task_finished; eassumption
      | eapply (task_finished_EX Qns Qns_plain); [reflexivity | exact Hu]].
  - apply bind_ok in Hu. destruct Hu as (sx & Hf & Hu). inversion Hu; subst.
    destruct HJ as [Hok HC F O NSs]. eapply J_quiet; [constructor; eassumption | eapply task_failed_ok; eassumption | eapply task_failed_PA; eassumption
      | exact (g_fresh _ _ (G_task_failed _ _ _ _ _ F Hf) F) | eapply TE_task_failed; eassumption
      | eapply (task_failed_EX Qns Qns_plain); [reflexivity | exact Hf]].
  - eapply task_running_J; eassumption.
  - eapply task_running_J; eassumption.
  - destruct HJ as [Hok HC F O NSs]. pose proof (task_reject_same _ _ _ _ _ _ Hu) as Hq. pose proof (task_reject_snd _ _ _ _ _ _ Hu) as Hs.
    eapply J_quiet; [constructor; eassumption | eapply hq_same_ok; eassumption
      | eapply PA_same; [eapply task_reject_K; [exact (pa_s _ HC) | exact Hu] | exact Hq | exact HC]
      | eapply fresh_same; [exact Hq | exact F] | apply TE_core; [exact Hq | exact Hs] | apply EX_snd; exact Hs].
  - apply bind_ok in Hu. destruct Hu as (sx & Hf & Hu). inversion Hu; subst.
    destruct HJ as [Hok HC F O NSs]. pose proof (request_enabled_same _ _ _ _ _ Hf) as Hq. pose proof (request_enabled_snd _ _ _ _ _ Hf) as Hs.
    eapply J_quiet; [constructor; eassumption | eapply hq_same_ok; eassumption
      | eapply PA_same; [eapply request_enabled_K; exact Hf | exact Hq | exact HC]
      | eapply fresh_same; [exact Hq | exact F] | apply TE_core; [exact Hq | exact Hs] | apply EX_snd; exact Hs].
Qed.

Lemma apply_updates_J us : forall s w need s' need' pre,
  J s pre -> apply_updates s w us need = Ok (s', need') -> J s' pre.
Proof.
  induction us as [|u r IH]; intros s w need s' need' pre HJ H; [cbn in H; inversion H; subst; exact HJ|].
  rewrite apply_updates_cons in H. apply bind_ok in H. destruct H as ([s1 n1] & Hu & H).
  eapply IH; [eapply apply_one_J; eassumption | exact H].
Qed.

Lemma J_same s s' pre : hq_of s' = hq_of s -> K s' = K s -> snd s' = snd s -> J s pre -> J s' pre.
Proof.
  intros Hq Hk Hs [Hok HC F O NSs].
  eapply J_quiet; [constructor; eassumption | rewrite Hq; exact Hok | eapply PA_same; eassumption | eapply fresh_same; eassumption
    | apply TE_core; assumption | apply EX_snd; exact Hs].
Qed.

Lemma on_task_update_J s w us s' pre : J s pre -> on_task_update s w us = Ok s' -> J s' pre.
Proof.
  intros HJ H. unfold on_task_update in H. apply bind_ok in H. destruct H as ([s1 need] & Hu & H).
  pose proof (apply_updates_J _ _ _ _ _ _ _ HJ Hu) as J1.
  destruct (need && _); inversion H; subst; [|exact J1].
  eapply J_same; [| | |exact J1]; reflexivity.
Qed.

(** * One operation of the system *)
Theorem step_NS s pre o s' outs :
  HOK (s_hq s) -> PA (s, []) -> fresh (s, []) -> ONCE (s, pre) -> NS pre ->
  step s o = Ok (s', outs) -> NS (pre ++ outs).
Proof.
  intros Hok HC F O NSp H.
  assert (Hgen : op_cond Qns s o -> NS (pre ++ outs)).
  { intros Hc. pose proof (Qns_starts _ (step_Q Qns Qns_plain _ _ _ _ Qns_direct Hc H)) as Hs.
    apply NS_app; [exact NSp | apply NS_nostarts; exact Hs | intros t _; rewrite Hs; intros []]. }
  destruct o; try (apply Hgen; exact I).
  - apply Hgen. intros id. split; reflexivity.
  - pose proof H as H0. cbn [step] in H.
    destruct (find_proc (s_procs s) w) as [p|] eqn:Hp; [|discriminate]. destruct (p_up p) as [|m rest] eqn:Eu; [discriminate|].
    destruct m as [us|ids].
    + match type of H with on_task_update ?s1 _ _ = _ => assert (J1 : J s1 pre) end.
      { eapply (J_quiet (s, []) _ pre); [constructor; [exact Hok | exact HC | exact F | cbn [fst snd]; rewrite app_nil_r; exact O | cbn [snd]; rewrite app_nil_r; exact NSp]
          | exact Hok | eapply PA_same; [| |exact HC]; reflexivity | eapply fresh_same; [|exact F]; reflexivity
          | apply TE_same; reflexivity | ].
        exists [OUp w (UUpdates us)]. split; [reflexivity | constructor; [reflexivity | constructor]]. }
      exact (j_ns _ _ (on_task_update_J _ _ _ _ _ J1 H)).
    + apply Hgen. intros p0 us rest0 Hp0 Eu0. rewrite Hp in Hp0. inversion Hp0; subst p0. rewrite Eu in Eu0. discriminate.
Qed.

(** * Every history *)
Lemma init_PA reserve maxfill : PA (init_sys reserve maxfill, []).
Proof. constructor; [constructor | intros id cs x [] | intros x []]. Qed.

Theorem run_NS ops : forall reserve maxfill s outs,
  run (init_sys reserve maxfill) ops = Ok (s, outs) -> NS outs.
Proof.
  induction ops as [|o pre IH] using rev_ind; intros reserve maxfill s outs H.
  - cbn in H. inversion H; subst. apply NS_nil.
  - destruct (run_app _ _ _ _ _ H) as (s1 & o1 & o2 & H1 & H2 & ->). cbn [run] in H2.
    apply bind_ok in H2. destruct H2 as ([s2 o3] & Hs & H2). cbn in H2. inversion H2; subst s2 o2. clear H2. rewrite app_nil_r.
    assert (Hok0 : HOK (s_hq (init_sys reserve maxfill))) by (intros j []).
    assert (F0 : fresh (init_sys reserve maxfill, [])) by (intros j []).
    assert (O0 : ONCE (init_sys reserve maxfill, [])) by (intros x; split; [cbn; lia | cbn; discriminate]).
    eapply step_NS; [eapply run_hq_ok; [exact Hok0 | exact H1]
      | eapply PA_outs; eapply run_PA; [exact Hok0 | exact F0 | apply init_PA | exact H1]
      | apply (fresh_outs s1 o1); apply (g_fresh _ _ (G_run _ _ _ _ F0 H1)); exact F0
      | exact (run_ONCE _ _ _ _ _ F0 O0 H1)
      | eapply IH; exact H1
      | exact Hs].
Qed.

(** C01 / C08, silent after terminal. *)
Theorem silent_after_terminal ops reserve maxfill s outs :
  run (init_sys reserve maxfill) ops = Ok (s, outs) ->
  forall pre e post t, outs = pre ++ OEv e :: post -> In t (terminal_ids [OEv e]) ->
  forall e', In (OEv e') post -> ~ In t (ev_names e').
Proof.
  intros H pre e post t E Ht e' He' Hn.
  assert (Ht' : In t (tids_of (OEv e))) by (unfold terminal_ids in Ht; cbn [flat_map] in Ht; rewrite app_nil_r in Ht; exact Ht).
  destruct (ev_names_split _ _ Hn) as [Hs|Hs].
  - apply (run_NS _ _ _ _ _ H pre (OEv e) post t E Ht'). unfold starts. apply in_flat_map. exists (OEv e'). split; assumption.
  - destruct (terminal_event_once _ _ _ _ _ t H) as [Hle _].
    rewrite E in Hle. change (pre ++ OEv e :: post) with (pre ++ [OEv e] ++ post) in Hle.
    rewrite !terminal_ids_app, !count_occ_app in Hle.
    apply (count_occ_In tid_dec) in Ht.
    assert (Hp : In t (terminal_ids post)) by (unfold terminal_ids; apply in_flat_map; exists (OEv e'); split; assumption).
    apply (count_occ_In tid_dec) in Hp. lia.
Qed.

(** The same, as a statement about positions: two events naming the same task, the earlier one
    terminal - impossible. *)
Corollary terminal_is_last ops reserve maxfill s outs a e b e' c t :
  run (init_sys reserve maxfill) ops = Ok (s, outs) ->
  outs = a ++ OEv e :: b ++ OEv e' :: c -> In t (tids_of (OEv e)) -> In t (ev_names e') -> False.
Proof.
  intros H E Ht Hn.
  refine (silent_after_terminal _ _ _ _ _ H a e (b ++ OEv e' :: c) t E _ e' _ Hn);
    [unfold terminal_ids; cbn [flat_map]; rewrite app_nil_r; exact Ht | apply in_or_app; right; left; reflexivity].
Qed.

(** * Non-vacuity *)

(** A task is started and finishes ([once_ops], ProofsOnce.v); the job's completion follows the
    terminal event in the stream. *)
Example silent_example : exists s outs pre post, run (init_sys 0 2) once_ops = Ok (s, outs)
  /\ outs = pre ++ OEv (EvFinished (1, 0)) :: post /\ In (OEv (EvStarted (1, 0) 0 [1] 0)) pre /\ post = [OEv (EvCompleted 1)].
Proof.
  eexists. eexists.
  exists [OEv (EvWConn 1); ONewWorker 1; OEv (EvSubmit 1 true 1); OResp (RSubmitOk 1 1 [0]);
          ODown 1 (DNewRq 0 once_rq); ODown 1 (DCompute [mkCT (1, 0) 0 (Some 0) 0 false []]); OLaunch (mkLaunch 1 (1, 0) 0 0 [] true [10000; 0; 0]);
          OUp 1 (UUpdates [URunning (1, 0) 0]); OEv (EvStarted (1, 0) 0 [1] 0); OUp 1 (UUpdates [UFinished (1, 0)])].
  eexists. split; [vm_compute; reflexivity|]. split; [reflexivity|]. split; [cbn; tauto | reflexivity].
Qed.

(** (Histories outside [op_wf] no longer exist at the level of [step]: since the repair of finding F26
    a submit whose ids and entries differ in number is refused - [Sys.bad_submit_lengths].) *)
Definition orphan_ops : list op :=
  [OpSubmit None [0; 1] (Some 1) once_rq 0%Z (CMax 3) false None; OpCancel 1; OpOpen None].
Example silent_example_orphan : ~ Forall op_wf orphan_ops /\ exists s outs,
  run (init_sys 0 2) orphan_ops = Ok (s, outs) /\
  outs = [OResp (RSubmitErr 6 0); OResp RCancelInvalid; OEv (EvOpen 1); OResp (ROpen 1)].
Proof.
  split; [intros H; inversion H as [|? ? H1 _]; cbn in H1; lia|].
  eexists. eexists. split; vm_compute; reflexivity.
Qed.

(** The model really emits a start whatever the job layer says: [process_task_started] on a task
    with a recorded outcome succeeds and emits the event - the theorem needs the core/job link. *)
Example started_ignores_job_state :
  let j := mkJob 1 false [(0, JF)] 0 1 0 0 0 true None in
  let s : st := (mkSys (mkCore [] [] [] [] [] false 0 0 2) (mkHq [j] 2) [], []) in
  exists s', process_task_started s (1, 0) 0 [1] 0 = Ok s' /\ snd s' = [OEv (EvStarted (1, 0) 0 [1] 0)].
Proof. eexists. split; vm_compute; reflexivity. Qed.

Print Assumptions silent_after_terminal.
