(** Worker-set invariant, part 5: task_finished, task_failed. *)
From HQ Require Import Base.Prelude Cluster.Types Cluster.Core Cluster.Reactor Cluster.Worker Cluster.Server Cluster.Sys Cluster.ProofsJob Cluster.ProofsMore Cluster.ProofsTerminal Cluster.ProofsStep Cluster.BijBase Cluster.BijCore Cluster.BijHq Cluster.BijSt Cluster.BijReact Cluster.InvWBase Cluster.InvWView Cluster.InvWCore Cluster.InvWReact.
From Coq Require Import ZArith Lia Sorting.Sorted.
Local Open Scope N_scope.

Arguments N.add : simpl never.
Arguments N.sub : simpl never.

Lemma wake_consumers_WI csm : forall c ret c' ret', WI c -> wake_consumers c csm ret = Ok (c', ret') -> WI c'.
Proof.
  induction csm as [|x r IH]; cbn [wake_consumers]; intros c ret c' ret' HW H; [inversion H; subst; exact HW|].
  apply bind_ok in H. destruct H as (t & Ht & H). apply get_task_find in Ht.
  destruct (find_task_some _ _ _ Ht) as [_ Hid].
  destruct (t_state t) as [n| | | | | |] eqn:Est; try discriminate.
  destruct (N.eqb n 0); [discriminate|].
  assert (H1 : WI (upd_task c (with_state t (Waiting (n - 1))))).
  { eapply C_same; [exact HW | exact Ht | exact Hid | rewrite Est; reflexivity]. }
  destruct (N.eqb (n - 1) 0).
  - apply bind_ok in H. destruct H as ([qs rt] & _ & H). eapply IH; [|exact H]. exact H1.
  - eapply IH; [exact H1 | exact H].
Qed.

(** The release step common to task_finished / task_failed for single-node placements. *)
Lemma release_sn c id t w1 wk wk' rq :
  WI c -> find_task (c_tasks c) id = Some t -> pl (t_state t) = PA w1 ->
  find_worker (c_workers c) w1 = Some wk -> remove_sn_task wk id rq = Ok wk' ->
  WIX (xadd x0 id) (upd_worker c wk').
Proof. intros HW Ef Hp Hw Hrm. eapply C_relA; [exact HW | reflexivity | exact Ef | exact Hp | exact Hw | exact Hrm]. Qed.

Lemma release_mn c id t ws c1 :
  WI c -> find_task (c_tasks c) id = Some t -> t_state t = RunningMN ws ->
  reset_mn_workers c ws id = Ok c1 -> WIX (xadd x0 id) c1 /\ c_tasks c1 = c_tasks c.
Proof.
  intros HW Ef Est H1. pose proof (reset_mn_workers_all _ _ _ _ H1) as Hr.
  destruct (reset_mn_all_spec _ _ _ Hr) as (T1 & _). split; [|exact T1].
  eapply (C_relM_reset x0 c id t ws c ws c1); [exact HW | reflexivity | exact Ef | rewrite Est; reflexivity | reflexivity | reflexivity | reflexivity
    | exact (WIX_sw _ _ HW) | auto | auto | auto | auto | exact Hr].
Qed.

Lemma release_retracting c id t w1 c1 :
  WI c -> find_task (c_tasks c) id = Some t -> t_state t = Retracting w1 ->
  try_remove_redirection c t = Ok c1 -> WIX (xadd x0 id) c1 /\ c_tasks c1 = c_tasks c.
Proof.
  intros HW Ef Est H1. destruct (find_task_some _ _ _ Ef) as [_ Hid].
  destruct (try_remove_redirection_WIX _ _ _ _ HW H1) as (W1 & T1 & R1). split; [|exact T1].
  eapply C_hide; [exact W1 | rewrite T1; exact Ef | right; split; [rewrite Est; reflexivity | rewrite <- Hid; exact R1]].
Qed.

Lemma task_finished_WI s w id s' b : WI (core_of s) -> CS (core_of s) -> task_finished s w id = Ok (s', b) -> WI (core_of s').
Proof.
  intros HW Hs H. unfold task_finished in H.
  destruct (find_task (c_tasks (core_of s)) id) as [t|] eqn:Ef; [|inversion H; subst; exact HW].
  destruct (find_task_some _ _ _ Ef) as [_ Hid].
  apply bind_ok in H. destruct H as (rq & _ & H). apply bind_ok in H. destruct H as (c1 & H1 & H).
  assert (A1 : WIX (xadd x0 id) c1 /\ c_tasks c1 = c_tasks (core_of s)).
  { destruct (t_state t) as [n|w1 rv1|w1|w1|w1 rv1|ws|] eqn:Est; try discriminate.
    - destruct (negb (N.eqb w1 w)) eqn:En; [discriminate|]. apply negb_false_iff, N.eqb_eq in En. subst w1.
      apply bind_ok in H1. destruct H1 as (wk & Hw & H1). apply get_worker_find in Hw.
      apply bind_ok in H1. destruct H1 as (wk' & Hrm & H1). inversion H1; subst.
      split; [|reflexivity]. eapply release_sn; [exact HW | exact Ef | rewrite Est; reflexivity | exact Hw | exact Hrm].
    - destruct (negb (N.eqb w1 w)); [discriminate|]. eapply release_retracting; eassumption.
    - destruct (negb (N.eqb w1 w)) eqn:En; [discriminate|]. apply negb_false_iff, N.eqb_eq in En. subst w1.
      apply bind_ok in H1. destruct H1 as (wk & Hw & H1). apply get_worker_find in Hw.
      apply bind_ok in H1. destruct H1 as (wk' & Hrm & H1). inversion H1; subst.
      split; [|reflexivity]. eapply release_sn; [exact HW | exact Ef | rewrite Est; reflexivity | exact Hw | exact Hrm].
    - destruct ws as [|w0 wr] eqn:Ews; [discriminate|]. destruct (N.eqb w0 w); [|discriminate]. rewrite <- Ews in *.
      eapply release_mn; eassumption. }
  destruct A1 as [W1 Et].
  assert (HW2 : WI (upd_task c1 (with_state t Finished))).
  { exact (C_show _ _ W1 x0 id (with_state t Finished) ltac:(xs) ltac:(xs) Hid (or_introl eq_refl)). }
  assert (Ek : keys c1 = K s) by (unfold K, keys; rewrite Et; reflexivity).
  assert (Hs1 : CS c1) by (eapply CS_keys; [exact Ek | exact Hs]).
  cbv zeta in H.
  assert (E2 : keys (upd_task c1 (with_state t Finished)) = K s).
  { rewrite <- Ek. apply (upd_task_frame c1 id t); [exact Hs1 | rewrite Et; exact Ef | reflexivity | reflexivity]. }
  apply bind_ok in H. destruct H as (s1 & Hf & H).
  destruct (process_task_finished_active _ _ _ Hf) as [C1 _].
  apply bind_ok in H. destruct H as ([c3 retracted] & Hw & H).
  apply bind_ok in H. destruct H as (s2 & Hr & H).
  apply bind_ok in H. destruct H as ([c4 stt] & Hrm & H).
  destruct stt; try discriminate. inversion H; subst.
  assert (Ks1 : K s1 = K s) by (unfold K; rewrite C1; exact E2).
  assert (Hss1 : CS (core_of s1)) by (eapply CS_keys; [exact Ks1 | exact Hs]).
  pose proof (wake_consumers_frame _ _ _ _ _ Hss1 Hw) as E3.
  assert (Ks2 : K s2 = K s).
  { rewrite (process_retracted_K (st_core s1 c3) _ _ (CS_keys _ _ E3 Hss1) Hr). unfold K in *. change (keys c3 = keys (core_of s)). rewrite E3. exact Ks1. }
  assert (Hss2 : CS (core_of s2)) by (eapply CS_keys; [exact Ks2 | exact Hs]).
  assert (HW3 : WI (core_of s1)) by (unfold core_same in C1; rewrite C1; exact HW2).
  pose proof (wake_consumers_WI _ _ _ _ _ HW3 Hw) as HW4.
  pose proof (process_retracted_WI (st_core s1 c3) _ _ HW4 Hr) as HW5.
  change (WI c4). eapply remove_task_WIX; [exact HW5 | exact Hss2 | exact Hrm | right; reflexivity].
Qed.

(** * task_failed *)
Lemma remove_waiting_consumers_WIX X l : forall c c', WIX X c -> CS c -> remove_waiting_consumers c l = Ok c' -> WIX X c'.
Proof.
  induction l as [|id r IH]; cbn [remove_waiting_consumers]; intros c c' HW Hs H; [inversion H; subst; exact HW|].
  apply bind_ok in H. destruct H as ([c1 stt] & H1 & H). destruct stt; try discriminate.
  destruct (remove_task_shrinks _ _ _ _ Hs H1) as [Sh _].
  eapply IH; [eapply remove_task_WIX; [exact HW | exact Hs | exact H1 | right; reflexivity] | exact (shr_sorted _ _ _ Sh) | exact H].
Qed.

Lemma nodup_non_finished j : jsorted (j_tasks j) -> NoDup (non_finished_task_ids j).
Proof.
  unfold non_finished_task_ids. generalize (j_id j) as jid. intros jid.
  induction (j_tasks j) as [|[k v] r IH]; cbn [filter map jsorted]; intros Hs; [constructor|].
  destruct Hs as [Hlt Hs].
  destruct (match snd (k, v) with JW | JR => true | _ => false end); [|apply IH; exact Hs].
  cbn [map fst]. constructor; [|apply IH; exact Hs].
  intros Hin. apply in_map_iff in Hin. destruct Hin as ([k' v'] & E & Hin). cbn in E. inversion E; subst k'.
  apply filter_In in Hin. destruct Hin as [Hin _]. specialize (Hlt _ _ Hin). lia.
Qed.

Lemma process_task_failed_nodup s t aborted k s' ids :
  HOK (hq_of s) -> process_task_failed s t aborted k = Ok (s', ids) -> NoDup ids.
Proof.
  intros H Hc. unfold process_task_failed in Hc.
  apply bind_ok in Hc. destruct Hc as (s1 & H1 & Hc).
  apply bind_ok in Hc. destruct Hc as (j & Hj & Hc).
  apply bind_ok in Hc. destruct Hc as (j1 & Hj1 & Hc).
  apply bind_ok in Hc. destruct Hc as (s2 & H2 & Hc).
  pose proof (ptf_mid _ _ _ _ _ _ _ _ H H1 Hj Hj1 H2) as Hk2.
  apply bind_ok in Hc. destruct Hc as (j2 & Hj2 & Hc).
  destruct (j_maxfails j2) as [mf|]; [|inversion Hc; subst; constructor].
  destruct (N.ltb mf (j_nfail j2)); [|inversion Hc; subst; constructor].
  apply bind_ok in Hc. destruct Hc as (s3 & H3 & Hc). inversion Hc; subst.
  apply nodup_non_finished. apply jok_sorted. apply Hk2. eapply find_job_in. unfold hq_get_job in Hj2.
  destruct (find_job (h_jobs (s_hq (fst s2))) (fst t)) eqn:E; [|discriminate]. inversion Hj2; subst. exact E.
Qed.

(** The premise about the solver: a task placed as a multi-node task has a multi-node request
    (see InvWWitness.v for what happens otherwise). *)
Definition fail_mn_ok (c : core) (id : tid) : Prop :=
  forall t ws rq, find_task (c_tasks c) id = Some t -> t_state t = RunningMN ws ->
                  get_rq (c_rqs c) (t_rq t) = Ok rq -> rq_is_mn rq = true.

Lemma task_failed_WI s w id k s' :
  HOK (hq_of s) -> CB s -> WI (core_of s) -> (w <> None -> fail_mn_ok (core_of s) id) ->
  task_failed s w id k = Ok s' -> WI (core_of s').
Proof.
  intros Hok HC HW Hmn H. unfold task_failed in H.
  destruct (find_task (c_tasks (core_of s)) id) as [t|] eqn:Ef; [|inversion H; subst; exact HW].
  destruct (find_task_some _ _ _ Ef) as [Hin Hid]. pose proof Hid as Hidb. apply tid_eqb_eq in Hidb.
  apply bind_ok in H. destruct H as (rq & Hrq & H). apply bind_ok in H. destruct H as (c1 & H1 & H).
  assert (A1 : WIX (xadd x0 id) c1 /\ c_tasks c1 = c_tasks (core_of s)).
  { destruct w as [wkr|].
    - destruct (rq_is_mn rq) eqn:Emn.
      + destruct (t_state t) as [n|w1 rv1|w1|w1|w1 rv1|ws|] eqn:Est; try discriminate.
        destruct ws as [|w0 wr] eqn:Ews; [discriminate|]. destruct (N.eqb w0 wkr); [|discriminate]. rewrite <- Ews in *.
        eapply release_mn; eassumption.
      + destruct (t_state t) as [n|w1 rv1|w1|w1|w1 rv1|ws|] eqn:Est.
        * inversion H1; subst. split; [|reflexivity]. eapply C_hide; [exact HW | exact Ef | left; rewrite Est; reflexivity].
        * destruct (negb (N.eqb wkr w1)) eqn:En; [discriminate|]. apply negb_false_iff, N.eqb_eq in En. subst w1.
          apply bind_ok in H1. destruct H1 as (wk & Hw & H1). apply get_worker_find in Hw.
          apply bind_ok in H1. destruct H1 as (wk' & Hrm & H1). inversion H1; subst.
          split; [|reflexivity]. eapply release_sn; [exact HW | exact Ef | rewrite Est; reflexivity | exact Hw | exact Hrm].
        * destruct (negb (N.eqb wkr w1)) eqn:En; [discriminate|]. apply negb_false_iff, N.eqb_eq in En. subst w1.
          apply bind_ok in H1. destruct H1 as (q & _ & H1). apply bind_ok in H1. destruct H1 as (q' & _ & H1).
          apply bind_ok in H1. destruct H1 as (wk & Hw & H1). apply get_worker_find in Hw.
          apply bind_ok in H1. destruct H1 as (wk' & Hrm & H1). inversion H1; subst.
          split; [|reflexivity].
          refine (WIX_frame _ (upd_worker (core_of s) wk') _ eq_refl eq_refl eq_refl eq_refl _).
          eapply C_relP; [exact HW | reflexivity | exact Ef | rewrite Est; reflexivity | exact Hw | exact Hrm].
        * destruct (negb (N.eqb wkr w1)); [discriminate|]. eapply release_retracting; eassumption.
        * destruct (negb (N.eqb wkr w1)) eqn:En; [discriminate|]. apply negb_false_iff, N.eqb_eq in En. subst w1.
          apply bind_ok in H1. destruct H1 as (wk & Hw & H1). apply get_worker_find in Hw.
          apply bind_ok in H1. destruct H1 as (wk' & Hrm & H1). inversion H1; subst.
          split; [|reflexivity]. eapply release_sn; [exact HW | exact Ef | rewrite Est; reflexivity | exact Hw | exact Hrm].
        * exfalso. assert (X : rq_is_mn rq = true) by (eapply (Hmn ltac:(discriminate)); eassumption). congruence.
        * inversion H1; subst. split; [|reflexivity]. eapply C_hide; [exact HW | exact Ef | left; rewrite Est; reflexivity].
    - destruct (is_waiting t) eqn:Ew; [|discriminate]. inversion H1; subst. split; [|reflexivity].
      eapply C_hide; [exact HW | exact Ef | left]. unfold is_waiting in Ew. destruct (t_state t); try discriminate. reflexivity. }
  destruct A1 as [W1 Et].
  assert (Ek : keys c1 = K s) by (unfold K, keys; rewrite Et; reflexivity).
  assert (Hs1 : CS c1) by (eapply CS_keys; [exact Ek | exact (cb_s _ HC)]).
  apply bind_ok in H. destruct H as (csm & Hcs & H).
  assert (Hjob : forall x, In x csm -> fst x = fst id).
  { rewrite <- Hid. eapply recursive_consumers_job; [| |exact Hcs].
    - change (KD (keys c1)). rewrite Ek. exact (cb_d _ HC).
    - rewrite Et. exact Hin. }
  apply bind_ok in H. destruct H as (c2 & H2 & H).
  destruct (remove_waiting_consumers_shrinks _ _ _ Hs1 H2) as [Sh2 _].
  pose proof (remove_waiting_consumers_WIX _ _ _ _ W1 Hs1 H2) as W2.
  apply bind_ok in H. destruct H as ([c3 stt] & H3 & H).
  destruct (remove_task_shrinks _ _ _ _ (shr_sorted _ _ _ Sh2) H3) as [Sh3 _].
  assert (W3 : WI c3).
  { assert (W3x : WIX (xadd x0 id) c3) by (eapply remove_task_WIX; [exact W2 | exact (shr_sorted _ _ _ Sh2) | exact H3 | left; xs]).
    destruct (remove_task_view _ _ _ _ (shr_sorted _ _ _ Sh2) H3) as (_ & _ & _ & _ & Tv).
    eapply (C_show0 _ _ W3x x0 id); [xs | xs | left]. rewrite Tv. unfold tset. rewrite tid_eqb_refl'. reflexivity. }
  apply bind_ok in H. destruct H as (u & _ & H).
  apply bind_ok in H. destruct H as ([s1 cancel_ids] & H4 & H).
  pose proof (shrinks_trans _ _ _ _ _ Sh2 Sh3) as Sh23. rewrite Ek in Sh23.
  destruct (process_task_failed_active (st_core s c3) id csm k s1 cancel_ids Hok H4) as (C4 & A4 & J4 & N4).
  pose proof (process_task_failed_nodup (st_core s c3) id csm k s1 cancel_ids Hok H4) as Hnd.
  assert (Ks1 : K s1 = keys c3) by (unfold K; rewrite C4; reflexivity).
  assert (W4 : WI (core_of s1)) by (unfold core_same in C4; rewrite C4; exact W3).
  destruct cancel_ids as [|c0 cr] eqn:Ecid; [inversion H; subst; exact W4|].
  rewrite <- Ecid in *.
  assert (Hs3 : CS (core_of s1)) by (unfold CS; fold (K s1); rewrite Ks1; exact (shr_sorted _ _ _ Sh23)).
  assert (Hd3 : KD (K s1)) by (rewrite Ks1; eapply shrinks_KD; [exact Sh23 | exact (cb_d _ HC)]).
  eapply on_cancel_tasks_WI; [exact W4 | exact Hs3 | exact Hd3 | exact Hnd | | exact H].
  intros x y Hy Hpx Hf. rewrite Ks1 in Hpx. apply (shr_dom _ _ _ Sh23) in Hpx. destruct Hpx as [Hpx Hnx].
  rewrite in_app_iff in Hnx. cbn [In] in Hnx.
  apply N4; [rewrite Ecid; discriminate | rewrite Hf; apply J4; exact Hy | | tauto | intros E; apply Hnx; right; left; auto].
  rewrite (active_same s (st_core s c3)) by (intros; reflexivity). apply (cb_b _ HC). exact Hpx.
Qed.
