(** C09 for client requests, part 1: tools, the two state facts that the bundle [INV] lacks
    ([MNE], [RWA]), totality of the job-layer functions ([mark_tasks], [set_cancel_state],
    [check_termination], [attach_ids], [live_jobs]) and of message sending. *)
From HQ Require Import Base.Prelude Cluster.Types Cluster.Core Cluster.Reactor Cluster.Worker Cluster.Server Cluster.Sys Cluster.Monitors Cluster.ProofsJob Cluster.ProofsMore Cluster.ProofsStep Cluster.ProofsFinal Cluster.BijBase Cluster.BijCore Cluster.BijHq Cluster.BijSt Cluster.BijReact Cluster.BijFinal Cluster.InvWBase Cluster.InvProcsDef.
From Coq Require Import ZArith Lia Sorting.Sorted.
Local Open Scope N_scope.

Arguments N.add : simpl never.
Arguments N.sub : simpl never.

(** * Tools *)
Lemma np_bind {A B} (r : res A) (f : A -> res B) :
  is_panic r = false -> (forall a, r = Ok a -> is_panic (f a) = false) -> is_panic (bind r f) = false.
Proof. destruct r as [a| |n]; cbn; intros H1 H2; [apply H2; reflexivity | reflexivity | discriminate]. Qed.

Lemma ok_np {A} (r : res A) a : r = Ok a -> is_panic r = false.
Proof. intros ->. reflexivity. Qed.

Lemma ex_np {A} (r : res A) : (exists a, r = Ok a) -> is_panic r = false.
Proof. intros (a & ->). reflexivity. Qed.

(** * Two facts about reachable states that are not part of [INV]

    [MNE]: a multi-node task runs on at least one worker ([cancel_release] indexes [ws[0]]: site 163).
    [RWA]: the worker a task is being retracted from is still connected ([cancel_release] sends it a
    cancel message: site 160).  Both are true in every reachable state ([map_mn_sets] with an empty
    worker set panics in [send_mn] of the same step, and [on_remove_worker] converts every task that
    is being retracted from the lost worker), but they are not part of the proved bundle. *)
Definition MNE (c : core) : Prop := forall t, In t (c_tasks c) -> t_state t <> RunningMN [].
Definition RWA (c : core) : Prop :=
  forall t w, In t (c_tasks c) -> t_state t = Retracting w -> exists wk, find_worker (c_workers c) w = Some wk.

(** * Job layer *)
Lemma find_job_id js id j : find_job js id = Some j -> j_id j = id.
Proof.
  induction js as [|h r IH]; cbn [find_job]; [discriminate|].
  destruct (N.eqb id (j_id h)) eqn:E; intros H; [inversion H; subst; apply N.eqb_eq in E; auto | auto].
Qed.

Lemma jst_eqb_refl v : jst_eqb v v = true.
Proof. destruct v; reflexivity. Qed.

Lemma cnt_pos l k v : jt_find l k = Some v -> 1 <= cnt l v.
Proof.
  induction l as [|[k0 x] r IH]; cbn [jt_find cnt]; [discriminate|].
  destruct (N.eqb k k0); intros H.
  - inversion H; subst. rewrite jst_eqb_refl. lia.
  - specialize (IH H). destruct (jst_eqb x v); lia.
Qed.

Lemma check_termination_tot s jid j :
  HOK (hq_of s) -> find_job (hq_jobs s) jid = Some j -> exists s', check_termination s jid = Ok s'.
Proof.
  intros H Ef. unfold check_termination, hq_get_job. unfold hq_jobs in Ef. rewrite Ef. cbn [bind].
  rewrite (has_no_active_ok _ (H _ (find_job_in _ _ _ Ef))). cbn [bind].
  destruct (_ && _); [destruct (j_open j)|]; eexists; reflexivity.
Qed.

Lemma mark_tasks_tot target site ids : is_abort_or_cancel target -> forall j k,
  JOKx j target k -> NoDup ids ->
  (forall t, In t ids -> fst t = j_id j /\ jactive (jt_find (j_tasks j) (snd t))) ->
  exists j', mark_tasks j ids target site = Ok j'.
Proof.
  intros Ht. induction ids as [|t r IH]; intros j k Hj Hnd Hin; [eexists; reflexivity|].
  inversion Hnd as [|? ? Hni Hnd']; subst.
  destruct (Hin t (or_introl eq_refl)) as [Hf Ha].
  assert (Hone : exists j1, mark_tasks j [t] target site = Ok j1 /\ j_id j1 = j_id j /\
                   j_tasks j1 = jt_set (j_tasks j) (snd t) target /\
                   mark_tasks j (t :: r) target site = mark_tasks j1 r target site).
  { cbn [mark_tasks]. rewrite Hf, N.eqb_refl. cbn [negb]. destruct Ha as [Ha|Ha]; rewrite Ha.
    - eexists. split; [reflexivity|]. split; [reflexivity|]. split; reflexivity.
    - unfold csub. pose proof (cnt_pos _ _ _ Ha) as Hp. rewrite <- (jx_run _ _ _ Hj) in Hp.
      destruct (N.ltb (j_nrun j) 1) eqn:El; [apply N.ltb_lt in El; lia|]. cbn [bind].
      eexists. split; [reflexivity|]. split; [reflexivity|]. split; reflexivity. }
  destruct Hone as (j1 & H1 & Hid1 & Ht1 & Hrest). rewrite Hrest.
  destruct (mark_tasks_ok target site [t] Ht _ _ _ Hj H1) as (Hj1 & _).
  apply (IH j1 (k + N.of_nat (length [t])) Hj1 Hnd').
  intros t' Ht'. destruct (Hin t' (or_intror Ht')) as [Hf' Ha']. split; [congruence|].
  rewrite Ht1, jt_find_set.
  destruct (N.eqb (snd t') (snd t)) eqn:E; [|exact Ha'].
  apply N.eqb_eq in E. exfalso. apply Hni. destruct t as [a b], t' as [a' b']. cbn in *. subst. exact Ht'.
Qed.

Lemma find_job_hq_set s j id : find_job (hq_jobs (hq_set_job s j)) id = if N.eqb id (j_id j) then Some j else find_job (hq_jobs s) id.
Proof. unfold hq_jobs, hq_set_job. cbn. apply find_job_set_any. Qed.

Lemma set_cancel_state_tot s jid ids j :
  HOK (hq_of s) -> find_job (hq_jobs s) jid = Some j -> NoDup ids ->
  (forall t, In t ids -> fst t = jid /\ jactive (jt_find (j_tasks j) (snd t))) ->
  exists s', set_cancel_state s jid ids = Ok s'.
Proof.
  intros H Ef Hnd Hin. unfold set_cancel_state. destruct ids as [|i0 ir]; [eexists; reflexivity|].
  pose proof (find_job_id _ _ _ Ef) as Hid.
  unfold hq_get_job. unfold hq_jobs in Ef. rewrite Ef. cbn [bind].
  pose proof (H _ (find_job_in _ _ _ Ef)) as Hj.
  destruct (mark_tasks_tot JC 205 (i0 :: ir) (or_introl eq_refl) j 0 (JOK_JOKx _ JC Hj) Hnd) as (j1 & H1).
  { intros t Ht. rewrite Hid. apply Hin. exact Ht. }
  rewrite H1. cbn [bind].
  destruct (mark_tasks_ok JC 205 (i0 :: ir) (or_introl eq_refl) _ _ 0 (JOK_JOKx _ JC Hj) H1) as ([Ss R F X C A] & O1 & O2 & O3 & O4 & Hact).
  match goal with |- exists s', check_termination ?st jid = _ => set (s2 := st) end.
  match goal with s2 := emit (emit (hq_set_job s ?jj) _) _ |- _ => set (j2 := jj) in * end.
  assert (Hj2 : JOK j2).
  { subst j2. cbn [jst_eqb] in *. constructor; cbn; auto; try lia.
    intros Hcm. rewrite O2 in Hcm. destruct (jok_completed _ Hj Hcm) as (_ & Hw & Hr).
    assert (i0 :: ir <> []) as Hne by discriminate. specialize (Hact Hne). lia. }
  apply (check_termination_tot s2 jid j2).
  - subst s2. rewrite !emit_hq. apply hq_set_job_ok; assumption.
  - subst s2. change (find_job (hq_jobs (hq_set_job s j2)) jid = Some j2). rewrite find_job_hq_set.
    replace (j_id j2) with jid by (subst j2; cbn; congruence). rewrite N.eqb_refl. reflexivity.
Qed.

Lemma attach_ids_tot ids : forall j, NoDup ids -> (forall i, In i ids -> jt_find (j_tasks j) i = None) ->
  exists j', attach_ids j ids = Ok j'.
Proof.
  induction ids as [|i r IH]; intros j Hnd Hin; [eexists; reflexivity|].
  inversion Hnd as [|? ? Hni Hnd']; subst. cbn [attach_ids]. rewrite (Hin i (or_introl eq_refl)).
  apply IH; [exact Hnd'|]. intros i' Hi'. cbn. rewrite jt_find_set.
  destruct (N.eqb i' i) eqn:E; [apply N.eqb_eq in E; subst; contradiction | apply Hin; right; exact Hi'].
Qed.

Lemma live_jobs_tot js : (forall j, In j js -> JOK j) -> exists l, live_jobs js = Ok l.
Proof.
  induction js as [|j r IH]; intros H; [eexists; reflexivity|]. cbn [live_jobs].
  destruct IH as (l & Hl); [intros x Hx; apply H; right; exact Hx|]. rewrite Hl.
  destruct (j_open j); cbn [bind]; [eexists; reflexivity|].
  rewrite (has_no_active_ok _ (H j (or_introl eq_refl))). cbn [bind]. eexists; reflexivity.
Qed.

(** * Sending *)
Definition has_proc (s : st) (w : wid) : Prop := find_proc (s_procs (fst s)) w <> None.

Lemma find_set_proc ps x w : find_proc (set_proc ps x) w = if N.eqb w (p_id x) then Some x else find_proc ps w.
Proof.
  induction ps as [|h r IH]; cbn [set_proc find_proc]; [reflexivity|].
  destruct (N.eqb (p_id x) (p_id h)) eqn:E1.
  - apply N.eqb_eq in E1. cbn [find_proc]. rewrite <- E1. destruct (N.eqb w (p_id x)); reflexivity.
  - destruct (N.ltb (p_id x) (p_id h)); cbn [find_proc]; [reflexivity|].
    destruct (N.eqb w (p_id h)) eqn:E2; [apply N.eqb_eq in E2; subst w; rewrite N.eqb_sym, E1; reflexivity | apply IH].
Qed.

Lemma find_proc_id ps w p : find_proc ps w = Some p -> p_id p = w.
Proof.
  induction ps as [|h r IH]; cbn [find_proc]; [discriminate|].
  destruct (N.eqb w (p_id h)) eqn:E; intros H; [inversion H; subst; apply N.eqb_eq in E; auto | auto].
Qed.

Lemma send_worker_tot s w m : has_proc s w ->
  exists s', send_worker s w m = Ok s' /\ core_of s' = core_of s /\ forall w', has_proc s' w' <-> has_proc s w'.
Proof.
  unfold has_proc, send_worker. intros H. destruct (find_proc (s_procs (fst s)) w) as [p|] eqn:E; [|congruence].
  eexists. split; [reflexivity|]. split; [reflexivity|]. intros w'. cbn. rewrite find_set_proc.
  cbn [push_down p_id]. rewrite (find_proc_id _ _ _ E).
  destruct (N.eqb w' w) eqn:E'; [|reflexivity]. apply N.eqb_eq in E'. subst w'. rewrite E. split; discriminate.
Qed.

Lemma send_all_tot msgs : forall s, (forall w m, In (w, m) msgs -> has_proc s w) -> exists s', send_all s msgs = Ok s'.
Proof.
  induction msgs as [|[w m] r IH]; intros s H; [eexists; reflexivity|]. cbn [send_all].
  destruct (send_worker_tot s w m (H w m (or_introl eq_refl))) as (s1 & H1 & _ & Hp). rewrite H1. cbn [bind].
  apply IH. intros w' m' Hin. apply Hp. eapply H. right. exact Hin.
Qed.

(** Processes and workers with the same id lists. *)
Lemma same_ids_find ps : forall ws w, map p_id ps = map w_id ws -> (find_proc ps w <> None <-> find_worker ws w <> None).
Proof.
  induction ps as [|p r IH]; intros [|k ws] w E; try discriminate; [cbn; tauto|].
  cbn [map] in E. inversion E as [[E1 E2]]. cbn [find_proc find_worker]. rewrite E1.
  destruct (N.eqb w (w_id k)); [split; discriminate | apply IH; exact E2].
Qed.

(** The processes cover the workers of the core (one direction of [PW], what sending needs). *)
Definition PWc (s : st) : Prop := forall w, find_worker (c_workers (core_of s)) w <> None -> has_proc s w.

Lemma PW_PWc s outs : PW s -> PWc (s, outs).
Proof. intros H w Hw. unfold has_proc. cbn. apply (same_ids_find _ _ w H). exact Hw. Qed.

(** * The simple requests *)
Lemma open_np s mf : is_panic (step s (OpOpen mf)) = false.
Proof. reflexivity. Qed.
Lemma close_np s j : HOK (s_hq s) -> is_panic (step s (OpClose j)) = false.
Proof. intros H. cbn [step]. apply close_total. exact H. Qed.
Lemma forget_np s j : HOK (s_hq s) -> is_panic (step s (OpForget j)) = false.
Proof. intros H. cbn [step]. apply forget_total. exact H. Qed.
Lemma prune_np s : HOK (s_hq s) -> is_panic (step s OpPrune) = false.
Proof. intros H. cbn [step]. destruct (live_jobs_tot (h_jobs (s_hq s)) H) as (l & Hl). rewrite Hl. reflexivity. Qed.
