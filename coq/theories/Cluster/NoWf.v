(** The hypothesis [op_wf] is no longer needed for statements about reachable STATES.

    [op_wf] (a task-array submit has no more explicit ids than entries) was a hypothesis of the
    bijection theorem and of everything built on it; finding F26 showed it could not be dropped: the
    real server accepted such a submit and left phantom tasks.  Since the repair of F26 the server
    - and [Sys.step] - refuses a submit whose ids and entries differ in number, state untouched.  So
    an operation that is not [op_wf] is a stutter step, every reachable state is reachable by a
    history of [op_wf] operations, and a property of all states reachable by such histories holds
    of ALL reachable states ([reach_drop_wf]).  [ops_ok] is transported along. *)
From HQ Require Import Base.Prelude Cluster.Types Cluster.Core Cluster.Reactor Cluster.Worker Cluster.Server Cluster.Sys Cluster.BijFinal Cluster.NoPanicU0 Cluster.InvBundle Cluster.NoFresh Cluster.NoPanicU1 Cluster.NoPanicU20 Cluster.InvAll Cluster.NoPanicFull.
From Coq Require Import ZArith Lia.
Local Open Scope N_scope.

Definition op_wfb (o : op) : bool :=
  match o with
  | OpSubmit _ ids (Some n) _ _ _ _ _ => Nat.leb (length ids) (N.to_nat n)
  | _ => true
  end.

Lemma op_wfb_ok o : op_wfb o = true <-> op_wf o.
Proof.
  destruct o; cbn [op_wfb op_wf]; try tauto.
  destruct entries; [apply Nat.leb_le | tauto].
Qed.

(** An operation that is not well formed is refused: a stutter step. *)
Lemma not_wf_stutter s o : op_wfb o = false -> step s o = Ok (s, [OResp (RSubmitErr 6 0)]).
Proof.
  destruct o; cbn [op_wfb]; try discriminate.
  destruct entries as [n|]; [|discriminate]. intros H. apply Nat.leb_gt in H. cbn [step].
  assert (E : bad_submit_lengths ids (Some n) = true).
  { unfold bad_submit_lengths. destruct ids as [|i r]; [cbn in H; lia|].
    apply Bool.negb_true_iff. apply N.eqb_neq. intros X. apply (f_equal N.to_nat) in X. rewrite Nat2N.id in X. lia. }
  rewrite E. reflexivity.
Qed.

(** Dropping the ill-formed operations from a history changes neither the final state nor [ops_ok]. *)
Lemma run_filter_wf ops : forall s s' outs, run s ops = Ok (s', outs) ->
  exists outs', run s (filter op_wfb ops) = Ok (s', outs').
Proof.
  induction ops as [|o r IH]; intros s s' outs H; [inversion H; subst; eexists; reflexivity|].
  cbn [run] in H. apply bind_ok in H. destruct H as ([s1 o1] & H1 & H). apply bind_ok in H. destruct H as ([s2 o2] & H2 & H). inversion H; subst.
  cbn [filter]. destruct (op_wfb o) eqn:E.
  - destruct (IH _ _ _ H2) as (outs' & Hr). eexists. cbn [run]. rewrite H1. cbn [bind]. rewrite Hr. reflexivity.
  - rewrite (not_wf_stutter s o E) in H1. inversion H1; subst. exact (IH _ _ _ H2).
Qed.

Lemma ops_ok_filter_wf ops : forall s, ops_ok s ops = true -> ops_ok s (filter op_wfb ops) = true.
Proof.
  induction ops as [|o r IH]; intros s H; [reflexivity|].
  cbn [ops_ok] in H. apply andb_true_iff in H. destruct H as [Ho H].
  cbn [filter]. destruct (op_wfb o) eqn:E.
  - cbn [ops_ok]. rewrite Ho. cbn [andb]. destruct (step s o) as [[s1 o1]| |]; [apply IH; exact H | reflexivity | reflexivity].
  - rewrite (not_wf_stutter s o E) in H. apply IH. exact H.
Qed.

(** Transport: a property proved for the states reachable by well-formed histories holds of every
    reachable state. *)
Theorem reach_drop_wf (P : sys -> Prop) r m :
  (forall ops s outs, Forall op_wf ops -> ops_ok (init_sys r m) ops = true -> run (init_sys r m) ops = Ok (s, outs) -> P s) ->
  forall ops s outs, ops_ok (init_sys r m) ops = true -> run (init_sys r m) ops = Ok (s, outs) -> P s.
Proof.
  intros HP ops s outs Hok H.
  destruct (run_filter_wf ops _ _ _ H) as (outs' & Hr).
  apply (HP (filter op_wfb ops) s outs'); [| apply ops_ok_filter_wf; exact Hok | exact Hr].
  apply Forall_forall. intros o Ho. apply filter_In in Ho. apply op_wfb_ok. exact (proj2 Ho).
Qed.

(** Instances: every invariant of a reachable state, and the protocol invariant, under [ops_ok] only. *)
Theorem reachable_all_nowf ops r m s outs :
  ops_ok (init_sys r m) ops = true -> run (init_sys r m) ops = Ok (s, outs) ->
  INV s /\ PROTO s.
Proof.
  apply (reach_drop_wf (fun s => INV s /\ PROTO s)). intros ops0 s0 outs0 Hwf Hok H.
  destruct (reachable_all ops0 r m s0 outs0 Hwf Hok H) as (A & B & _). split; assumption.
Qed.

(** C09 without [op_wf]: NO REACHABLE PANIC under the executable hypothesis [run_hyp] alone. *)
Lemma no_panic_from_nowf ops reserve maxfill : forall pre s outs,
  Forall op_wf pre -> run_hyp (init_sys reserve maxfill) pre = true -> run (init_sys reserve maxfill) pre = Ok (s, outs) ->
  run_hyp s ops = true -> is_panic (run s ops) = false.
Proof.
  induction ops as [|o r IH]; intros pre s outs Hwp Hhp Hrp Hh; [reflexivity|].
  cbn [run_hyp] in Hh. apply andb_true_iff in Hh. destruct Hh as [Ho Hh].
  cbn [run]. destruct (op_wfb o) eqn:Ew.
  - apply op_wfb_ok in Ew.
    pose proof (step_never_panics pre reserve maxfill s outs o Hwp Hhp Hrp Ho) as Hnp.
    destruct (step s o) as [[s1 o1]| |] eqn:Est; [|reflexivity | discriminate].
    cbn [bind].
    assert (Hnext : is_panic (run s1 r) = false).
    { apply (IH (pre ++ [o]) s1 (outs ++ o1)); [apply Forall_snoc; assumption | | eapply run_snoc; eassumption | exact Hh].
      eapply run_hyp_snoc; eassumption. }
    destruct (run s1 r) as [[s2 o2]| |]; [reflexivity | reflexivity | discriminate].
  - rewrite (not_wf_stutter s o Ew) in *. cbn [bind].
    pose proof (IH pre s outs Hwp Hhp Hrp Hh) as Hnext.
    destruct (run s r) as [[s2 o2]| |]; [reflexivity | reflexivity | discriminate].
Qed.

Theorem no_reachable_panic_nowf ops reserve maxfill :
  run_hyp (init_sys reserve maxfill) ops = true -> is_panic (run (init_sys reserve maxfill) ops) = false.
Proof.
  intros Hh. apply (no_panic_from_nowf ops reserve maxfill [] (init_sys reserve maxfill) []); [constructor | reflexivity | reflexivity | exact Hh].
Qed.

Print Assumptions no_reachable_panic_nowf.
Print Assumptions reach_drop_wf.
Print Assumptions reachable_all_nowf.
