(** C06 "one live execution per task", part 1: counting the processes that run a task; what one
    event of a worker process does to its running set. *)
From HQ Require Import Base.Prelude Cluster.Types Cluster.Core Cluster.Reactor Cluster.Worker Cluster.Server Cluster.Sys Cluster.ProofsWorker Cluster.NoPanicL0 Cluster.NoPanicU0 Cluster.NoPanicU1 Cluster.NoPanicU2 Cluster.NoPanicU3 Cluster.NoPanicU4 Cluster.ExecU1 Cluster.ExecU9.
From Coq Require Import ZArith Lia Sorting.Sorted.
Local Open Scope N_scope.

Definition rn (x : tid) (p : wproc) : nat := match run_find (p_running p) x with Some _ => 1%nat | None => O end.
Fixpoint rc (x : tid) (ps : list wproc) : nat := match ps with [] => O | p :: r => (rn x p + rc x r)%nat end.

(** a generic sum over a sorted process list (as [ExecU9.cc_le]) *)
Fixpoint psum (f : wproc -> nat) (ps : list wproc) : nat := match ps with [] => O | p :: r => (f p + psum f r)%nat end.
Lemma psum_del f ps : forall w p, NoPanicU1.psorted ps -> find_proc ps w = Some p -> psum f ps = (f p + psum f (del_proc ps w))%nat.
Proof.
  unfold NoPanicU1.psorted. induction ps as [|h r IH]; intros w p Hs Hf; [discriminate|]. cbn [find_proc] in Hf. cbn [del_proc].
  inversion Hs as [|? ? Hs' Hall]; subst. destruct (N.eqb w (p_id h)); [inversion Hf; subst; reflexivity|].
  cbn [psum]. rewrite (IH _ _ Hs' Hf). lia.
Qed.
Lemma psum_le f : forall ps' ps, NoPanicU1.psorted ps' -> NoPanicU1.psorted ps ->
  (forall p', In p' ps' -> exists p, find_proc ps (p_id p') = Some p /\ (f p' <= f p)%nat) -> (psum f ps' <= psum f ps)%nat.
Proof.
  induction ps' as [|h r IH]; intros ps Hs' Hs H; [cbn; lia|]. cbn [psum].
  destruct (H h (or_introl eq_refl)) as (p & Hp & Le). rewrite (psum_del f ps _ _ Hs Hp).
  inversion Hs' as [|? ? Hs'' Hall]; subst. rewrite Forall_forall in Hall.
  assert (IH' : (psum f r <= psum f (del_proc ps (p_id h)))%nat).
  { apply IH; [exact Hs'' | apply del_proc_sorted; exact Hs|]. intros p' Hin. destruct (H p' (or_intror Hin)) as (q & Hq & Lq).
    exists q. split; [|exact Lq]. rewrite find_del_proc by exact Hs. specialize (Hall _ (in_map p_id _ _ Hin)).
    destruct (N.eqb (p_id p') (p_id h)) eqn:E; [apply N.eqb_eq in E; lia | exact Hq]. }
  lia.
Qed.
Lemma psum_del_le f ps w : (psum f (del_proc ps w) <= psum f ps)%nat.
Proof. induction ps as [|h r IH]; cbn [del_proc psum]; [lia|]. destruct (N.eqb w (p_id h)); cbn [psum]; lia. Qed.
Lemma psum_set_proc f ps : forall w p p', NoPanicU1.psorted ps -> find_proc ps w = Some p -> p_id p' = w ->
  (psum f (set_proc ps p') + f p = psum f ps + f p')%nat.
Proof.
  unfold NoPanicU1.psorted. induction ps as [|h r IH]; intros w p p' Hs Hf Hi; [discriminate|]. subst w.
  cbn [find_proc] in Hf. cbn [set_proc]. inversion Hs as [|? ? Hs' Hall]; subst. rewrite Forall_forall in Hall.
  destruct (N.eqb (p_id p') (p_id h)) eqn:E.
  - inversion Hf; subst p. cbn [psum]. lia.
  - destruct (N.ltb (p_id p') (p_id h)) eqn:L.
    + exfalso. destruct (NoPanicL0.find_proc_some _ _ _ Hf) as [Hin Hid]. specialize (Hall _ (in_map p_id _ _ Hin)). apply N.ltb_lt in L. lia.
    + cbn [psum]. specialize (IH _ _ _ Hs' Hf eq_refl). lia.
Qed.
Lemma psum_set_proc_le f ps np : (psum f (set_proc ps np) <= psum f ps + f np)%nat.
Proof.
  induction ps as [|h r IH]; cbn [set_proc psum]; [lia|]. destruct (N.eqb (p_id np) (p_id h)); cbn [psum]; [lia|].
  destruct (N.ltb (p_id np) (p_id h)); cbn [psum]; lia.
Qed.
Lemma psum_map f g ps : (forall p, f (g p) = f p) -> psum f (map g ps) = psum f ps.
Proof. intros H. induction ps as [|h r IH]; [reflexivity|]. cbn [map psum]. rewrite H, IH. reflexivity. Qed.
Lemma psum_in f ps p : In p ps -> (f p <= psum f ps)%nat.
Proof. induction ps as [|h r IH]; [intros []|]. cbn [psum]. intros [->|H]; [lia | specialize (IH H); lia]. Qed.

(** the measure: copies and executions of [x] *)
Definition ex1 (x : tid) (p : wproc) : nat := (rn x p + pc x p)%nat.
Lemma psum_ex1 x ps : psum (ex1 x) ps = (rc x ps + cc x ps)%nat.
Proof. induction ps as [|h r IH]; [reflexivity|]. cbn [psum rc cc]. rewrite IH. unfold ex1. lia. Qed.

(** * The running set of a worker process across an event *)
Lemma rn_set x l t v : (match run_find (run_set l t v) x with Some _ => 1 | None => 0 end <=
                        match run_find l x with Some _ => 1 | None => 0 end + (if tid_eqb t x then 1 else 0))%nat.
Proof.
  rewrite run_find_set. rewrite (NoPanicU1.tid_eqb_sym x t). destruct (tid_eqb t x); [destruct (run_find l x); lia | lia].
Qed.

Lemma try_start_rn q t rv pre alloc q1 u l st x : try_start_task q t rv pre alloc = (q1, u, l, st) ->
  (rn x q1 <= rn x q + lcnt x l)%nat.
Proof.
  unfold try_start_task, rn. destruct (tid_mem (wt_id t) (p_failnext q)); intros H; inversion H; subst; cbn [p_running wp_failnext wp_upd]; [lia|].
  rewrite lcnt_one. cbn [l_t]. apply rn_set.
Qed.

Lemma prefill_loop_rn fuel x : forall q rq rv alloc ups ls q' ups' ls' used,
  prefill_loop fuel q rq rv alloc ups ls = (q', ups', ls', used) -> (rn x q' + lcnt x ls <= rn x q + lcnt x ls')%nat.
Proof.
  induction fuel as [|k IH]; intros q rq rv alloc ups ls q' ups' ls' used H; cbn [prefill_loop] in H; [inversion H; subst; unfold rn; cbn; lia|].
  destruct (pop_last (bl_get (p_backlog q) rq)) as [[t rest]|]; [|inversion H; subst; unfold rn; cbn; lia].
  destruct (bl_has (p_backlog q) rq); [|inversion H; subst; unfold rn; cbn; lia].
  destruct (try_start_task (wp_backlog q (bl_set (p_backlog q) rq rest)) t rv true alloc) as [[[q1 u] l] started] eqn:Et.
  pose proof (try_start_rn _ _ _ _ _ _ _ _ _ x Et) as H1. change (rn x (wp_backlog q (bl_set (p_backlog q) rq rest))) with (rn x q) in H1.
  destruct started; [inversion H; subst; rewrite lcnt_app; lia|]. specialize (IH _ _ _ _ _ _ _ _ _ _ H). rewrite lcnt_app in IH. lia.
Qed.

Lemma compute_loop_rn ts x : forall q ups ls q' ups' ls', compute_loop q ts ups ls = Ok (q', ups', ls') ->
  (rn x q' + lcnt x ls <= rn x q + lcnt x ls')%nat.
Proof.
  induction ts as [|ct r IH]; intros q ups ls q' ups' ls' H; cbn [compute_loop] in H; [inversion H; subst; lia|].
  destruct (ct_rv ct) as [rv|].
  - apply bind_ok in H. destruct H as (rq & _ & H). destruct (negb (N.eqb rv 0)); [discriminate|].
    destruct (res_fits (p_free q) (rq_res rq)).
    + match type of H with context [try_start_task ?p0 ?t rv false ?a] => destruct (try_start_task p0 t rv false a) as [[[q1 u] l] started] eqn:Et end.
      pose proof (try_start_rn _ _ _ _ _ _ _ _ _ x Et) as H1. change (rn x (wp_free q (res_sub (p_free q) (rq_res rq)))) with (rn x q) in H1.
      destruct started.
      * specialize (IH _ _ _ _ _ _ H). rewrite lcnt_app in IH. lia.
      * match type of H with context [prefill_loop ?f q1 ?a ?b ?c ?d ?e] => destruct (prefill_loop f q1 a b c d e) as [[[q2 u2] l2] usd] eqn:Ep end.
        pose proof (prefill_loop_rn _ x _ _ _ _ _ _ _ _ _ _ Ep) as H2. rewrite lcnt_app in H2. specialize (IH _ _ _ _ _ _ H). lia.
    + specialize (IH _ _ _ _ _ _ H). exact IH.
  - specialize (IH _ _ _ _ _ _ H). exact IH.
Qed.

Lemma cancel_fold_rn ids x : forall q, rn x (fold_left cancel_task ids q) = rn x q.
Proof.
  induction ids as [|i r IH]; intros q; [reflexivity|]. cbn [fold_left]. rewrite IH. destruct (cancel_task_eff q i) as (_ & _ & _ & _ & E & _).
  unfold rn. rewrite E. reflexivity.
Qed.

Lemma pwm_rn p m order p' ls x : process_worker_message p m order = Ok (p', ls) -> (rn x p' <= rn x p + lcnt x ls)%nat.
Proof.
  intros H. destruct m as [ts|ids|ids|w0|w0|rq def|]; cbn [process_worker_message] in H.
  - apply bind_ok in H. destruct H as ([[p1 ups] ls1] & H1 & H). pose proof (compute_loop_rn _ x _ _ _ _ _ _ H1) as Hc. cbn [lcnt filter length] in Hc.
    destruct ups; inversion H; subst; [lia|]. change (rn x (send_up p1 (UUpdates (w :: ups)))) with (rn x p1). lia.
  - destruct (negb _); [discriminate|]. destruct (retract_from _ _ _ _) as [b out]. destruct ids; inversion H; subst; unfold rn; cbn; lia.
  - inversion H; subst. rewrite cancel_fold_rn. lia.
  - inversion H; subst. lia.
  - inversion H; subst. lia.
  - destruct (N.eqb _ _); [|discriminate]. inversion H; subst. unfold rn. cbn. lia.
  - inversion H; subst. lia.
Qed.

Lemma rn_del x l t : StronglySorted tlt (map fst l) ->
  (match run_find (run_del l t) x with Some _ => 1 | None => 0 end <= match run_find l x with Some _ => 1 | None => 0 end)%nat.
Proof.
  intros Hs. rewrite (run_find_del l t x Hs). destruct (tid_eqb x t); [destruct (run_find l x); lia | lia].
Qed.

Lemma task_end_rn p t how p' ls x : StronglySorted tlt (map fst (p_running p)) -> task_end p t how = Ok (p', ls) -> (rn x p' <= rn x p + lcnt x ls)%nat.
Proof.
  intros Hs H. unfold task_end in H. destruct (fu_find (p_futures p) t) as [stop|]; [|discriminate].
  destruct (run_find (p_running p) t) as [rv|]; [|discriminate]. destruct (al_find (p_alloc p) t) as [[|rq alloc]|]; try discriminate.
  match type of H with context [prefill_loop ?f ?q0 ?a ?b ?c ?u0 []] => destruct (prefill_loop f q0 a b c u0 []) as [[[p1 ups1] ls1] usd] eqn:Ep end.
  pose proof (prefill_loop_rn _ x _ _ _ _ _ _ _ _ _ _ Ep) as H1. cbn [lcnt filter length] in H1.
  assert (H0 : (rn x p1 <= rn x p + lcnt x ls1)%nat).
  { match type of H1 with (_ <= rn x ?q0 + _)%nat => assert (Hq : (rn x q0 <= rn x p)%nat) by (unfold rn; cbn [p_running wp_upd]; apply rn_del; exact Hs) end. lia. }
  match type of H with (let '(_, _) := ?e in _) = _ => destruct e as [p2 ups2] eqn:E2 end.
  assert (E : rn x p2 = rn x p1) by (destruct (negb usd); inversion E2; subst; reflexivity).
  destruct ups2; inversion H; subst; [lia|]. change (rn x (send_up p2 (UUpdates (w :: ups2)))) with (rn x p2). lia.
Qed.
