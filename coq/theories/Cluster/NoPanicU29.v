(** Stage 3, totality of the server's handling of worker messages, part 4: the composition.

    [worker_messages_never_panic]: in every reachable state, delivering the next message of any
    worker to the server ([OpDUp w]) does not panic.  Premises on the history only:
    - [op_wf] (well-formed witnesses), [ops_ok] (NoPanicU0.v: the solver places single-node classes
      on single-node variants 0 and multi-node classes have no resource amounts - sites 301 / 179 /
      166 are reachable otherwise),
    - [ops_sol_ok] (NoPanicS7.sol_ok on every scheduler answer) and [ops_retract_ok]
      (RetractFree.v, the repair of finding F28): together they give the invariant RSN
      (NoPanicU26.v) without which site 102 is reachable (NoPanicU21.v). *)
From HQ Require Import Base.Prelude Cluster.Types Cluster.Core Cluster.Reactor Cluster.Worker Cluster.Server Cluster.Sys Cluster.Monitors Cluster.RejHyp Cluster.ProofsJob Cluster.ProofsMore Cluster.ProofsTerminal Cluster.ProofsStep Cluster.ProofsFinal Cluster.BijBase Cluster.BijCore Cluster.BijHq Cluster.BijSt Cluster.BijReact Cluster.BijFinal Cluster.InvWBase Cluster.InvWView Cluster.InvWCore Cluster.InvQBase Cluster.InvQInv Cluster.InvBundle Cluster.InvProcsDef Cluster.NoPanicC1 Cluster.NoPanicC2 Cluster.InvWX1 Cluster.InvWX2 Cluster.InvWX3 Cluster.NoPanicL0 Cluster.NoPanicL2 Cluster.NoPanicL4 Cluster.NoPanicS7 Cluster.RetractFree Cluster.NoPanicU0 Cluster.NoPanicU1 Cluster.NoPanicU6 Cluster.NoPanicU8 Cluster.NoPanicU11 Cluster.NoPanicU12 Cluster.NoPanicU13 Cluster.NoPanicU20 Cluster.NoPanicU22 Cluster.NoPanicU23 Cluster.NoPanicU24 Cluster.NoPanicU26 Cluster.NoPanicU27 Cluster.NoPanicU28.
From Coq Require Import ZArith Lia Sorting.Sorted.
Local Open Scope N_scope.

(** * One update *)
Lemma apply_one_tot s w u r : SP x0 s (pum_us w (u :: r)) [] -> LI s -> RSN (core_of s) ->
  exists x, apply_one s w u = Ok x.
Proof.
  intros HS HL HR. destruct (pum_us_proc _ _ _ _ _ HS) as (p & Hp).
  destruct u as [id|id k|id rv|id rv|id rv0|rq rv]; cbn [apply_one].
  - (* finished *)
    destruct (find_task (c_tasks (core_of s)) id) as [t|] eqn:Ef; [|unfold task_finished; rewrite Ef; eauto].
    pose proof (head_item _ _ _ _ _ _ _ _ _ HS Ef eq_refl Hp) as Hl. cbn [uitem_of] in Hl. rewrite sel_same in Hl. cbn [app] in Hl.
    pose proof (LS_fin _ _ _ _ Hl) as Hcase.
    assert (Hst : (exists rv, t_state t = Running w rv) \/ (exists ws, t_state t = RunningMN (w :: ws))).
    { destruct (t_state t) as [k|w1 rv1|w1|w1|w1 rv1|[|w0 ws]|] eqn:Est; cbn [view_of] in Hcase;
        try (destruct (N.eqb w1 w) eqn:Ew); try (destruct (N.eqb w0 w) eqn:Ew);
        try (exfalso; destruct Hcase as [(rv0 & X)|X]; discriminate X).
      - apply N.eqb_eq in Ew. subst w1. left. eauto.
      - apply N.eqb_eq in Ew. subst w0. right. eauto. }
    assert (Hjr : jv (hq_of s) id = Some (Some JR)).
    { pose proof (sp_jr _ _ _ _ HS _ _ Ef eq_refl) as J. pose proof (sp_act _ _ _ _ HS _ _ Ef eq_refl) as A.
      destruct (BijBase.find_task_some _ _ _ Ef) as [_ Eid]. unfold jr_ok in J. rewrite Eid in J.
      assert (R : job_running (hq_of s) id = true).
      { destruct Hst as [(rv & Est)|(ws & Est)]; rewrite Est in *; cbn [view_of] in Hcase; [exact J|].
        rewrite N.eqb_refl in Hcase. destruct Hcase as [(rv0 & X)|X]; [discriminate X | injection X as Y; exact Y]. }
      rewrite job_running_jv in R. destruct A as [A|A]; rewrite A in *; [discriminate | reflexivity]. }
    exact (task_finished_tot s w id t HL Ef Hst Hjr).
  - (* failed *)
    destruct (find_task (c_tasks (core_of s)) id) as [t|] eqn:Ef; [|unfold task_failed; rewrite Ef; cbn [bind]; eauto].
    pose proof (head_item _ _ _ _ _ _ _ _ _ HS Ef eq_refl Hp) as Hl. cbn [uitem_of] in Hl. rewrite sel_same in Hl. cbn [app] in Hl.
    pose proof (LS_fail _ _ _ _ _ Hl) as Hv.
    pose proof (sp_mnt _ _ _ _ HS _ _ Ef eq_refl) as Hm. unfold mn_task_ok in Hm.
    assert (Hpl : placed_on (t_state t) w).
    { destruct (t_state t) as [k0|w1 rv1|w1|w1|w1 rv1|[|w0 ws]|] eqn:Est; cbn [view_of placed_on] in *;
        try (destruct (N.eqb w1 w) eqn:Ew); try (destruct (N.eqb w0 w) eqn:Ew); try (exfalso; apply Hv; reflexivity);
        apply N.eqb_eq in Ew; exact Ew. }
    destruct (task_failed_some_tot s w id k t HL Ef Hpl) as (s' & ->); [|cbn [bind]; eauto].
    intros rq Hrq. rewrite (get_rq_nth _ _ _ Hrq) in Hm.
    destruct (t_state t) as [k0|w1 rv1|w1|w1|w1 rv1|ws|]; cbn [is_mn_state placed_on] in *; try (destruct Hpl; fail);
      try (apply negb_true_iff in Hm); exact Hm.
  - (* running *)
    destruct (find_task (c_tasks (core_of s)) id) as [t|] eqn:Ef; [|unfold task_running; rewrite Ef; eauto].
    pose proof (head_item _ _ _ _ _ _ _ _ _ HS Ef eq_refl Hp) as Hl. cbn [uitem_of] in Hl. rewrite sel_same in Hl. cbn [app] in Hl.
    destruct (LS_run _ _ _ _ _ _ Hl) as [Hcase _].
    apply task_running_tot; [exact HL | exact HR|]. intros t0 Ef0. rewrite Ef in Ef0. inversion Ef0; subst t0.
    destruct (t_state t) as [k|w1 rv1|w1|w1|w1 rv1|[|w0 ws]|] eqn:Est; cbn [view_of] in Hcase;
      try (destruct (N.eqb w1 w) eqn:Ew); try (destruct (N.eqb w0 w) eqn:Ew);
      try (exfalso; destruct Hcase as [[X _]|[[X _]|[[X _]|[X _]]]]; discriminate X);
      apply N.eqb_eq in Ew; subst.
    + left. destruct Hcase as [[X _]|[[X _]|[[X _]|[X _]]]]; inversion X; reflexivity.
    + right. left. reflexivity.
    + right. right. left. reflexivity.
    + right. right. right. eauto.
  - (* running (prefilled) *)
    destruct (find_task (c_tasks (core_of s)) id) as [t|] eqn:Ef; [|unfold task_running; rewrite Ef; eauto].
    pose proof (head_item _ _ _ _ _ _ _ _ _ HS Ef eq_refl Hp) as Hl. cbn [uitem_of] in Hl. rewrite sel_same in Hl. cbn [app] in Hl.
    destruct (LS_run _ _ _ _ _ _ Hl) as [Hcase _].
    apply task_running_tot; [exact HL | exact HR|]. intros t0 Ef0. rewrite Ef in Ef0. inversion Ef0; subst t0.
    destruct (t_state t) as [k|w1 rv1|w1|w1|w1 rv1|[|w0 ws]|] eqn:Est; cbn [view_of] in Hcase;
      try (destruct (N.eqb w1 w) eqn:Ew); try (destruct (N.eqb w0 w) eqn:Ew);
      try (exfalso; destruct Hcase as [[X _]|[[X _]|[[X _]|[X _]]]]; discriminate X);
      apply N.eqb_eq in Ew; subst.
    + left. destruct Hcase as [[X _]|[[X _]|[[X _]|[X _]]]]; inversion X; reflexivity.
    + right. left. reflexivity.
    + right. right. left. reflexivity.
    + right. right. right. eauto.
  - (* reject *)
    destruct (find_task (c_tasks (core_of s)) id) as [t|] eqn:Ef; [|unfold task_reject; rewrite Ef; eauto].
    pose proof (head_item _ _ _ _ _ _ _ _ _ HS Ef eq_refl Hp) as Hl. cbn [uitem_of] in Hl. rewrite sel_same in Hl. cbn [app] in Hl.
    destruct (LS_rej _ _ _ _ _ Hl) as (rv & Ev & -> & _). apply view_VA in Ev.
    exact (task_reject_tot s w id rv t HL Ef Ev).
  - (* enable *)
    destruct (request_enabled_tot s w rq rv HL) as (s' & ->); [rewrite Hp; discriminate | cbn [bind]; eauto].
Qed.

(** * All updates of one message *)
Lemma JS_apply_one s w u s' b : JS (core_of s) -> apply_one s w u = Ok (s', b) -> JS (core_of s').
Proof.
  intros HJ H. eapply JS_RS; [exact HJ|]. eapply (apply_updates_RS [u] s w false s' (false || b)).
  rewrite apply_updates_cons, H. reflexivity.
Qed.

Lemma apply_updates_tot us : forall s w need, SP x0 s (pum_us w us) [] -> LI s -> RSN (core_of s) ->
  exists x, apply_updates s w us need = Ok x.
Proof.
  induction us as [|u r IH]; intros s w need HS HL HR; [eexists; reflexivity|].
  rewrite apply_updates_cons. destruct (apply_one_tot s w u r HS HL HR) as ([s1 n1] & H1). rewrite H1. cbn [bind].
  apply IH.
  - eapply apply_one_SP; eassumption.
  - eapply LI_apply_one; [exact HL | eapply SP_reject_fresh; exact HS | exact H1].
  - apply JS_RSN. eapply JS_apply_one; [apply JS_RSN; exact HR | exact H1].
Qed.

(** * The bundle does not look at the channels *)
Lemma LI_procs s o s' o' : LI (s, o) -> s_core s' = s_core s -> s_hq s' = s_hq s -> map p_id (s_procs s') = map p_id (s_procs s) -> LI (s', o').
Proof.
  intros [Hok HC HW V HG HJ HP] Ec Eh Ep.
  assert (E1 : core_of (s', o') = core_of (s, o)) by exact Ec.
  assert (E2 : hq_of (s', o') = hq_of (s, o)) by exact Eh.
  constructor.
  - rewrite E2. exact Hok.
  - eapply (CB_frame (s, o)); [unfold K; rewrite E1; reflexivity | | exact HC].
    apply active_same. intros id. unfold jt. rewrite E2. reflexivity.
  - rewrite E1. exact HW.
  - rewrite E1. exact V.
  - rewrite E1. exact HG.
  - rewrite E1. exact HJ.
  - destruct HP as [H1 H2]. split; [rewrite E1; exact H1|].
    rewrite E1. unfold pids in *. cbn [fst] in *. rewrite Ep. exact H2.
Qed.

(** * The step, on a state satisfying the invariants *)
Theorem worker_messages_never_panic_state s w :
  INV s -> PW s -> InvWX1.J (s_core s) -> PROTO s -> RSN (s_core s) -> is_panic (step s (OpDUp w)) = false.
Proof.
  intros HI HPW HJ HP HR. cbn [step].
  destruct (find_proc (s_procs s) w) as [p|] eqn:Hp; [|reflexivity]. destruct (p_up p) as [|m rest] eqn:Eu; [reflexivity|].
  pose proof (SP_pop s w p m rest [OUp w m] HP (INV_UH _ HI) Hp Eu) as S1.
  set (s1 := (with_procs s (set_proc (s_procs s) (wp_up p rest)), [OUp w m]) : st) in *.
  assert (HL : LI s1).
  { apply (LI_procs s [] _ _ (NoPanicL4.LI_of_INV s [] HI HPW HJ)); [reflexivity | reflexivity|].
    cbn [s_procs with_procs]. eapply (NoPanicL0.set_proc_keep _ w p); [| reflexivity | exact Hp].
    pose proof (PI_SI _ (li_pi _ (NoPanicL4.LI_of_INV s [] HI HPW HJ))) as [_ X]. exact X. }
  destruct m as [us|ids].
  - unfold on_task_update. destruct (apply_updates_tot us s1 w false S1 HL HR) as ([s2 need] & ->). cbn [bind].
    destruct (need && _); reflexivity.
  - destruct (on_retract_response_tot s1 w ids HL) as (s2 & ->). reflexivity.
Qed.

(** * Every reachable state *)
Theorem worker_messages_never_panic ops reserve maxfill s outs w :
  Forall op_wf ops -> ops_ok (init_sys reserve maxfill) ops = true ->
  ops_sol_ok (init_sys reserve maxfill) ops = true -> ops_retract_ok (init_sys reserve maxfill) ops = true ->
  run (init_sys reserve maxfill) ops = Ok (s, outs) ->
  is_panic (step s (OpDUp w)) = false.
Proof.
  intros Hwf Hok Hsol Hret H.
  destruct (reachable_PROTO ops reserve maxfill s outs Hwf Hok H) as [HP Hf].
  pose proof (reachable_INV _ _ _ _ _ Hwf Hf H) as HI.
  pose proof (reachable_PW _ _ _ _ _ H) as HPW.
  pose proof (reachable_RSN ops reserve maxfill s outs Hwf Hok Hsol Hret H) as HR.
  assert (HJ : InvWX1.J (s_core s)).
  { apply J_MNE_RWA. destruct (reachable_MNE_RWA _ _ _ _ _ Hwf Hf H) as [A B]. split; [exact A|]. split; [exact B|].
    exact (reachable_MND _ _ _ _ _ Hwf H). }
  apply worker_messages_never_panic_state; assumption.
Qed.

Print Assumptions worker_messages_never_panic.
