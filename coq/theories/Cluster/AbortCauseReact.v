(** C14 / C03, "tasks are aborted only with a cause", part 3: the reactor.

    [AC s ext] is the clean form of the statement for a stretch [ext] of outputs emitted by a piece
    of the server's execution that started in state [s]: for every decomposition
    [ext = pre ++ OEv (EvAborted ts) :: post] and every [x] in [ts],
    (a) [x] is a task of the core of [s] and one of the dependencies [d] the core keeps for it is
        aborted by the same event or fails in the very next output, or
    (b) the job of [x] has a failure limit [m] in [s] and its failure counter in [s] plus the
        number of [EvFailed] events of the job in [pre] exceeds [m].
    [AK s s']: a piece that starts in a state with the proved invariants [W] (DepOrderReact.v)
    appends such a stretch, and changes the jobs as [JE] says.  Proved for [task_failed] - the
    heart: the transitive consumers each have a kept dependency among the consumers or the failing
    task ([recursive_consumers_cause] + the consumer lists mirror the dependency lists, [GD]); the
    second abort comes from the limit - and for everything built on it up to [on_task_update] and
    [on_remove_worker]. *)
From HQ Require Import Base.Prelude Cluster.Types Cluster.Core Cluster.Reactor Cluster.Worker Cluster.Server Cluster.Sys Cluster.Monitors Cluster.ProofsJob Cluster.ProofsMore Cluster.ProofsTerminal Cluster.ProofsStep Cluster.ProofsFinal Cluster.BijBase Cluster.BijCore Cluster.BijHq Cluster.BijSt Cluster.BijReact Cluster.ProofsOnce Cluster.StartFinBase Cluster.InvDBase Cluster.InvDMap Cluster.InvDSpec Cluster.InvDRem Cluster.InvDReact Cluster.InvDHq Cluster.InvDStep Cluster.DepOrderBase Cluster.DepOrderReact Cluster.AbortCauseBase Cluster.AbortCauseJob.
From Coq Require Import ZArith Lia.
Local Open Scope N_scope.

Arguments N.add : simpl never.
Arguments N.sub : simpl never.

Definition AC (s : st) (ext : list out) : Prop :=
  forall pre ts post x, ext = pre ++ OEv (EvAborted ts) :: post -> In x ts ->
    (exists tx d, fm (core_of s) x = Some tx /\ In d (t_deps tx) /\
                  (In d ts \/ exists k post', post = OEv (EvFailed d k) :: post'))
    \/ (exists j m, find_job (jobs s) (fst x) = Some j /\ j_maxfails j = Some m /\ m < j_nfail j + onfailed (fst x) pre).

Definition AK (s s' : st) : Prop :=
  LK s s' /\ (W s -> exists ext, snd s' = snd s ++ ext /\ JE s s' ext /\ AC s ext).

Lemma AC_NA s ext : NA ext -> AC s ext.
Proof. intros A pre ts post x E _. exfalso. apply (NA_in _ ts A). rewrite E. apply in_elt. Qed.

Lemma AK_quiet s s' : LK s s' -> JQ s s' -> AK s s'.
Proof.
  intros L (ext & E & J & A). split; [exact L|]. intros _. exists ext. split; [exact E|]. split; [exact J | apply AC_NA; exact A].
Qed.

Lemma AK_refl s : AK s s.
Proof. apply AK_quiet; [apply LK_refl | apply JQ_refl]. Qed.

Lemma AK_trans s1 s2 s3 : AK s1 s2 -> AK s2 s3 -> AK s1 s3.
Proof.
  intros [L1 A1] [L2 A2]. split; [eapply LK_trans; eassumption|]. intros HW1.
  destruct (L1 HW1) as (HW2 & S12 & _).
  destruct (A1 HW1) as (e1 & E1 & J1 & C1). destruct (A2 HW2) as (e2 & E2 & J2 & C2).
  exists (e1 ++ e2). split; [rewrite E2, E1, app_assoc; reflexivity|]. split; [eapply JE_trans; eassumption|].
  intros pre ts post x E Hx. destruct (app_decomp _ _ _ _ _ E) as [(m & Em & Ep)|(m & Em & Ep)].
  - destruct (C1 pre ts m x Em Hx) as [(tx & d & A & B & C)|R]; [|right; exact R].
    left. exists tx, d. split; [exact A|]. split; [exact B|].
    destruct C as [C|(k & post' & ->)]; [left; exact C|]. right. exists k, (post' ++ e2). rewrite Ep. reflexivity.
  - destruct (C2 m ts post x Ep Hx) as [(tx2 & d & A & B & C)|(j2 & mf & A & B & C)].
    + left. destruct (S12 _ _ A) as (tx1 & A1' & Ed). exists tx1, d. split; [exact A1'|]. split; [rewrite <- Ed; exact B | exact C].
    + right. destruct (je_old _ _ _ J1 _ _ A) as (j1 & Hf1 & Hm1 & _ & Hn1).
      exists j1, mf. split; [exact Hf1|]. split; [congruence|]. rewrite Em, onfailed_app. lia.
Qed.

(** Changing the start / end state without touching the job layer. *)
Lemma JE_start s0 s s' ext : hq_of s0 = hq_of s -> JE s0 s' ext -> JE s s' ext.
Proof.
  intros E [N O C F]. constructor; [exact N | | unfold cnt_of in *; rewrite <- E; exact C | unfold jobs in *; rewrite <- E; exact F].
  unfold jobs in *. rewrite <- E. exact O.
Qed.
Lemma JE_end s s' s'' ext : hq_of s'' = hq_of s' -> JE s s' ext -> JE s s'' ext.
Proof.
  intros E [N O C F]. constructor; [exact N | | unfold cnt_of in *; rewrite E; exact C | exact F].
  unfold jobs in *. rewrite E. exact O.
Qed.
Lemma JQ_start s0 s s' : hq_of s0 = hq_of s -> snd s0 = snd s -> JQ s0 s' -> JQ s s'.
Proof. intros E Es (ext & X & J & A). exists ext. split; [rewrite <- Es; exact X|]. split; [eapply JE_start; eassumption | exact A]. Qed.
Lemma JQ_end s s' s'' : hq_of s'' = hq_of s' -> snd s'' = snd s' -> JQ s s' -> JQ s s''.
Proof. intros E Es (ext & X & J & A). exists ext. split; [rewrite Es; exact X|]. split; [eapply JE_end; eassumption | exact A]. Qed.

(** * [task_failed] *)
Lemma task_failed_AK s w id k s' : task_failed s w id k = Ok s' -> AK s s'.
Proof.
  intros H. split; [eapply LK_task_failed; exact H|]. intros HW.
  destruct HW as [[Hs D] HC Hok HJ].
  unfold task_failed in H.
  destruct (find_task (c_tasks (core_of s)) id) as [t|] eqn:Ef.
  2:{ inversion H; subst. exists []. rewrite app_nil_r. split; [reflexivity|]. split; [apply JE_refl | apply AC_NA; reflexivity]. }
  apply bind_ok in H. destruct H as (rq & _ & H). apply bind_ok in H. destruct H as (c1 & H1 & H).
  assert (Et : c_tasks c1 = c_tasks (core_of s)).
  { destruct w as [wkr|].
    - destruct (rq_is_mn rq).
      + destruct (t_state t); try discriminate. destruct ws as [|w0 ws]; [discriminate|].
        destruct (N.eqb w0 wkr); [|discriminate]. eapply reset_mn_workers_tasks; exact H1.
      + destruct (t_state t); try (inversion H1; reflexivity).
        * destruct (negb (N.eqb wkr w)); [discriminate|]. inv_binds H1. inversion H1; reflexivity.
        * destruct (negb (N.eqb wkr w)); [discriminate|]. inv_binds H1. inversion H1; reflexivity.
        * destruct (negb (N.eqb wkr w)); [discriminate|]. eapply try_remove_redirection_tasks; exact H1.
        * destruct (negb (N.eqb wkr w)); [discriminate|]. inv_binds H1. inversion H1; reflexivity.
    - destruct (is_waiting t); inversion H1; reflexivity. }
  apply bind_ok in H. destruct H as (csm & Hcs & H). rewrite Et in Hcs.
  pose proof (recursive_consumers_cause _ t csm Hcs) as Hcause.
  apply bind_ok in H. destruct H as (c2 & H2 & H).
  apply bind_ok in H. destruct H as ([c3 stt] & H3 & H).
  apply bind_ok in H. destruct H as (u & _ & H).
  apply bind_ok in H. destruct H as ([s1 cancel_ids] & H4 & H).
  destruct (process_task_failed_AC (st_core s c3) id csm k s1 cancel_ids Hok H4) as (ext & E4 & J4 & P4). cbn [snd st_core] in E4.
  assert (Hsnd : snd s' = snd s1 /\ hq_of s' = hq_of s1).
  { destruct cancel_ids; [inversion H; subst; split; reflexivity|].
    split; [eapply on_cancel_tasks_snd; exact H | eapply on_cancel_tasks_hq; exact H]. }
  exists ext. split; [rewrite (proj1 Hsnd); exact E4|]. split.
  - eapply JE_end; [exact (proj2 Hsnd)|]. eapply (JE_start (st_core s c3) s); [reflexivity | exact J4].
  - intros pre ts post x E Hx. destruct (P4 pre ts post x E Hx) as [(-> & post' & ->)|R]; [|right; exact R].
    left. destruct (Hcause x Hx) as [Hc|(y & ty & Hy & Ey & Hc)].
    + (* a direct consumer of the failing task *)
      destruct (dx_cons _ _ D _ _ _ Ef Hc) as (ct & Ec & _ & Hd).
      exists ct, id. split; [exact Ec|]. split; [exact Hd|]. right. exists k, post'. reflexivity.
    + (* a consumer of another collected task *)
      destruct (dx_cons _ _ D _ _ _ Ey Hc) as (ct & Ec & _ & Hd).
      exists ct, y. split; [exact Ec|]. split; [exact Hd|]. left. exact Hy.
Qed.

(** * The quiet updates *)
Lemma task_finished_JQ s w id s' b : task_finished s w id = Ok (s', b) -> JQ s s'.
Proof.
  intros Hc. unfold task_finished in Hc.
  destruct (find_task _ id) as [t|]; [|inversion Hc; subst; apply JQ_refl].
  apply bind_ok in Hc. destruct Hc as (rq & _ & Hc). apply bind_ok in Hc. destruct Hc as (c1 & _ & Hc). cbv zeta in Hc.
  apply bind_ok in Hc. destruct Hc as (s1 & Hf & Hc).
  apply bind_ok in Hc. destruct Hc as ([c3 retracted] & _ & Hc).
  apply bind_ok in Hc. destruct Hc as (s2 & Hr & Hc).
  apply bind_ok in Hc. destruct Hc as ([c4 stt] & _ & Hc).
  destruct stt; try discriminate. inversion Hc; subst s' b. clear Hc.
  pose proof (process_retracted_snd _ _ _ Hr) as S2. pose proof (process_retracted_hq _ _ _ Hr) as Q2.
  eapply (JQ_end s s1); [exact Q2 | exact S2|].
  eapply (JQ_start _ s); [| |eapply process_task_finished_JQ; exact Hf]; reflexivity.
Qed.

Lemma task_running_JQ s w id rv s' b : task_running s w id rv = Ok (s', b) -> JQ s s'.
Proof.
  intros Hc. unfold task_running in Hc.
  destruct (find_task _ id) as [t|]; [|inversion Hc; subst; apply JQ_refl].
  apply bind_ok in Hc. destruct Hc as (rq & _ & Hc). apply bind_ok in Hc. destruct Hc as ([s1 ws] & Hm & Hc).
  apply bind_ok in Hc. destruct Hc as (s2 & H2 & Hc). inversion Hc; subst s' b. clear Hc.
  assert (E1 : hq_of s1 = hq_of s /\ snd s1 = snd s).
  { destruct (t_state t); try discriminate.
    - destruct (negb (N.eqb w0 w)); [discriminate|]. destruct (negb (N.eqb rv0 rv)); [discriminate|]. inversion Hm; subst. split; reflexivity.
    - destruct (negb (N.eqb w0 w)); [discriminate|]. inv_binds Hm. inversion Hm; subst. split; reflexivity.
    - destruct (negb (N.eqb w0 w)); [discriminate|]. inv_binds Hm. inversion Hm; subst. split; reflexivity.
    - destruct ws0; [discriminate|]. destruct (N.eqb w0 w); [|discriminate]. inversion Hm; subst. split; reflexivity. }
  eapply (JQ_start s1 s); [exact (proj1 E1) | exact (proj2 E1) | eapply process_task_started_JQ; exact H2].
Qed.

(** * [apply_updates], [on_task_update] *)
Lemma AK_apply_updates us : forall s w need s' need', apply_updates s w us need = Ok (s', need') -> AK s s'.
Proof.
  induction us as [|u r IH]; cbn [apply_updates]; intros s w need s' need' H; [inversion H; subst; apply AK_refl|].
  pose proof (LK_apply_updates [u] s w need) as L1. cbn [apply_updates] in L1.
  apply bind_ok in H. destruct H as ([s1 n1] & Hu & H).
  eapply AK_trans; [|eapply IH; exact H].
  assert (L : LK s s1) by (eapply L1; rewrite Hu; reflexivity).
  destruct u.
  - apply AK_quiet; [exact L | eapply task_finished_JQ; exact Hu].
  - apply bind_ok in Hu. destruct Hu as (sx & Hf & Hu). inversion Hu; subst. eapply task_failed_AK; exact Hf.
  - apply AK_quiet; [exact L | eapply task_running_JQ; exact Hu].
  - apply AK_quiet; [exact L | eapply task_running_JQ; exact Hu].
  - apply AK_quiet; [exact L | apply JQ_same; [eapply task_reject_same; exact Hu | eapply task_reject_snd; exact Hu]].
  - apply AK_quiet; [exact L|]. apply bind_ok in Hu. destruct Hu as (sx & Hf & Hu). inversion Hu; subst.
    apply JQ_same; [eapply request_enabled_same; exact Hf|]. unfold request_enabled in Hf. inv_binds Hf. inversion Hf; subst. reflexivity.
Qed.

Lemma AK_on_task_update s w us s' : on_task_update s w us = Ok s' -> AK s s'.
Proof.
  intros H. unfold on_task_update in H. apply bind_ok in H. destruct H as ([s1 need] & Hu & H).
  pose proof (AK_apply_updates _ _ _ _ _ _ Hu) as A1.
  destruct (need && _); inversion H; subst; [|exact A1].
  eapply AK_trans; [exact A1|]. apply AK_quiet; [apply LK_same_tasks; reflexivity | apply JQ_same; reflexivity].
Qed.

(** * Worker loss *)
Lemma AK_lost_fail_running l : forall s reason s', lost_fail_running s reason l = Ok s' -> AK s s'.
Proof.
  induction l as [|id r IH]; cbn [lost_fail_running]; intros s reason s' H; [inversion H; subst; apply AK_refl|].
  destruct (find_task (c_tasks (core_of s)) id) as [t|] eqn:Ef; [|eapply IH; exact H].
  assert (Hfail : forall s0 kind, AK s s0 -> (do s1 <- task_failed s0 None id kind; lost_fail_running s1 reason r) = Ok s' -> AK s s').
  { intros s0 kind L0 H0. apply bind_ok in H0. destruct H0 as (s1 & Hf & H0).
    eapply AK_trans; [exact L0|]. eapply AK_trans; [eapply task_failed_AK; exact Hf | eapply IH; exact H0]. }
  destruct (t_climit t).
  - eapply Hfail; [apply AK_refl | exact H].
  - destruct (reason_is_failure reason); [|eapply IH; exact H].
    destruct (increment_crash_counter t) as [t' limit] eqn:Ei.
    assert (Hi : same_edges t t' /\ t_state t' = t_state t) by (unfold increment_crash_counter in Ei; inversion Ei; subst; split; [repeat split | reflexivity]).
    assert (L0 : AK s (st_core s (upd_task (core_of s) t'))).
    { apply AK_quiet; [exact (LK_upd_same s id t t' Ef (proj1 Hi) (proj2 Hi)) | apply JQ_same; reflexivity]. }
    destruct limit.
    + eapply Hfail; [exact L0 | exact H].
    + eapply AK_trans; [exact L0 | eapply IH; exact H].
  - destruct (reason_is_failure reason); [|eapply IH; exact H].
    destruct (increment_crash_counter t) as [t' limit] eqn:Ei.
    assert (Hi : same_edges t t' /\ t_state t' = t_state t) by (unfold increment_crash_counter in Ei; inversion Ei; subst; split; [repeat split | reflexivity]).
    assert (L0 : AK s (st_core s (upd_task (core_of s) t'))).
    { apply AK_quiet; [exact (LK_upd_same s id t t' Ef (proj1 Hi) (proj2 Hi)) | apply JQ_same; reflexivity]. }
    destruct limit.
    + eapply Hfail; [exact L0 | exact H].
    + eapply AK_trans; [exact L0 | eapply IH; exact H].
Qed.

Print Assumptions task_failed_AK.
