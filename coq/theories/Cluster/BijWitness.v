(** Witnesses for the bijection theorem: a history that reaches a non-trivial state satisfying all
    hypotheses, and the history showing that the hypothesis [op_wf] cannot be dropped (finding F26). *)
From HQ Require Import Base.Prelude Cluster.Types Cluster.Core Cluster.Reactor Cluster.Worker Cluster.Server Cluster.Sys Cluster.BijFinal.
From Coq Require Import ZArith.
Local Open Scope N_scope.

Definition rq1 : rqdef := mkRq 0 [10000; 0; 0].

(** connect a worker, submit a job of three tasks with entries, open a job, submit into it *)
Definition good_ops : list op :=
  [OpConnect [20000; 0; 0] 0;
   OpSubmit None [4; 5; 6] (Some 3) rq1 0%Z CUnl false None;
   OpOpen None;
   OpSubmit (Some 2) [] None rq1 0%Z CUnl false None].

Lemma good_ops_wf : Forall op_wf good_ops.
Proof. repeat constructor. Qed.

Lemma good_ops_run : exists s outs, run (init_sys 0 2) good_ops = Ok (s, outs)
  /\ map t_id (c_tasks (s_core s)) = [(1, 4); (1, 5); (1, 6); (2, 0)].
Proof. eexists. eexists. split; vm_compute; reflexivity. Qed.

(** three explicit ids, two entries: the job gets three tasks, the core two *)
Definition bad_ops : list op :=
  [OpSubmit None [4; 5; 6] (Some 2) rq1 0%Z CUnl false None].

(** Finding F26 (fixed): [handle_submit_array] itself accepts the request and leaves a phantom task
    (the job shows three waiting tasks, the scheduler knows two) - this is what the real server did;
    since the repair the request is refused before ([Sys.bad_submit_lengths]), state untouched. *)
Lemma bad_ops_phantom :
  (exists s outs j, handle_submit_array (init_sys 0 2, []) None [4; 5; 6] (Some 2) rq1 0%Z CUnl false None = Ok (s, outs)
     /\ find_job (h_jobs (s_hq s)) 1 = Some j
     /\ jt_find (j_tasks j) 6 = Some JW
     /\ ~ In (1, 6) (map t_id (c_tasks (s_core s))))
  /\ run (init_sys 0 2) bad_ops = Ok (init_sys 0 2, [OResp (RSubmitErr 6 0)]).
Proof.
  split; [|vm_compute; reflexivity].
  eexists. eexists. eexists. split; [vm_compute; reflexivity|]. split; [vm_compute; reflexivity|]. split; [vm_compute; reflexivity|].
  vm_compute. intros [H|[H|[]]]; discriminate.
Qed.
