(** C02 "at rest", part 7: a task named in a finished / failed update is gone from the core when
    the whole message has been processed. *)
From HQ Require Import Base.Prelude Cluster.Types Cluster.Core Cluster.Reactor Cluster.Worker Cluster.Server Cluster.Sys Cluster.ProofsJob Cluster.ProofsMore Cluster.ProofsTerminal Cluster.ProofsStep Cluster.BijBase Cluster.BijCore Cluster.BijHq Cluster.BijSt Cluster.BijReact Cluster.ExecU2 Cluster.ExecU3.
From Coq Require Import ZArith Lia Sorting.Sorted.
Local Open Scope N_scope.

Arguments N.add : simpl never.
Arguments N.sub : simpl never.

Definition gone (c : core) (x : tid) : Prop := ~ In x (map t_id (c_tasks c)).
Definition TTs := TT (fun _ => True) (fun _ => False).

Lemma TT_gone c c' x : TTs c c' -> gone c x -> gone c' x.
Proof.
  intros H Hg Hin. apply in_map_iff in Hin. destruct Hin as (t' & Ei & Hin).
  destruct (H t' Hin) as [(t & Ht & Eid & _)|[]]. apply Hg. rewrite <- Ei, <- Eid. apply in_map. exact Ht.
Qed.

Lemma gone_present c x : gone c x <-> ~ present (keys c) x.
Proof. unfold gone. rewrite present_ids. reflexivity. Qed.

Lemma task_finished_gone s w id s' b : CB s -> task_finished s w id = Ok (s', b) -> gone (core_of s') id.
Proof.
  intros HC H. unfold task_finished in H.
  destruct (find_task (c_tasks (core_of s)) id) as [t|] eqn:Ef; [|inversion H; subst; exact (proj1 (find_task_none _ _) Ef)].
  apply bind_ok in H. destruct H as (rq & _ & H). apply bind_ok in H. destruct H as (c1 & H1 & H).
  assert (Et : c_tasks c1 = c_tasks (core_of s)).
  { destruct (t_state t); try discriminate.
    - destruct (negb (N.eqb w0 w)); [discriminate|]. inv_binds H1. inversion H1; reflexivity.
    - destruct (negb (N.eqb w0 w)); [discriminate|]. eapply try_remove_redirection_tasks; exact H1.
    - destruct (negb (N.eqb w0 w)); [discriminate|]. inv_binds H1. inversion H1; reflexivity.
    - destruct ws; [discriminate|]. destruct (N.eqb w0 w); [|discriminate]. eapply reset_mn_workers_tasks; exact H1. }
  assert (Ek : keys c1 = K s) by (unfold K, keys; rewrite Et; reflexivity).
  assert (Hs1 : CS c1) by (eapply CS_keys; [exact Ek | exact (cb_s _ HC)]).
  cbv zeta in H.
  assert (E2 : keys (upd_task c1 (with_state t Finished)) = K s).
  { rewrite <- Ek. apply (upd_task_frame c1 id t); [exact Hs1 | rewrite Et; exact Ef | reflexivity | reflexivity]. }
  apply bind_ok in H. destruct H as (s1 & Hf & H).
  destruct (process_task_finished_active _ _ _ Hf) as [C1 A1].
  apply bind_ok in H. destruct H as ([c3 retracted] & Hw & H).
  apply bind_ok in H. destruct H as (s2 & Hr & H).
  apply bind_ok in H. destruct H as ([c4 stt] & Hrm & H).
  destruct stt; try discriminate. inversion H; subst.
  assert (Ks1 : K s1 = K s) by (unfold K; rewrite C1; exact E2).
  assert (Hss1 : CS (core_of s1)) by (eapply CS_keys; [exact Ks1 | exact (cb_s _ HC)]).
  pose proof (wake_consumers_frame _ _ _ _ _ Hss1 Hw) as E3.
  assert (Ks2 : K s2 = K s).
  { rewrite (process_retracted_K (st_core s1 c3) _ _ (CS_keys _ _ E3 Hss1) Hr). unfold K in *. change (keys c3 = keys (core_of s)). rewrite E3. exact Ks1. }
  assert (Hss2 : CS (core_of s2)) by (eapply CS_keys; [exact Ks2 | exact (cb_s _ HC)]).
  destruct (remove_task_shrinks _ _ _ _ Hss2 Hrm) as [Sh _].
  apply gone_present. change (~ present (keys c4) id). rewrite (shr_dom _ _ _ Sh). intros [_ N]. apply N. left. reflexivity.
Qed.

Lemma task_failed_gone s w id k s' : HOK (hq_of s) -> CB s -> task_failed s w id k = Ok s' -> gone (core_of s') id.
Proof.
  intros Hok HC H. unfold task_failed in H.
  destruct (find_task (c_tasks (core_of s)) id) as [t|] eqn:Ef; [|inversion H; subst; exact (proj1 (find_task_none _ _) Ef)].
  destruct (find_task_some _ _ _ Ef) as [Hin Hid]. apply tid_eqb_eq in Hid.
  apply bind_ok in H. destruct H as (rq & _ & H). apply bind_ok in H. destruct H as (c1 & H1 & H).
  assert (Et : c_tasks c1 = c_tasks (core_of s)).
  { destruct w as [wkr|].
    - destruct (rq_is_mn rq).
      + destruct (t_state t); try discriminate. destruct ws as [|w0 ws]; [discriminate|].
        destruct (N.eqb w0 wkr); [|discriminate]. eapply reset_mn_workers_tasks; exact H1.
      + destruct (t_state t); try (inversion H1; reflexivity).
        * destruct (negb (N.eqb wkr w)); [discriminate|]. inv_binds H1. inversion H1; reflexivity.
        * destruct (negb (N.eqb wkr w)); [discriminate|]. inv_binds H1. inversion H1; reflexivity.
        * destruct (negb (N.eqb wkr w)); [discriminate|]. eapply try_remove_redirection_tasks; exact H1.
        * destruct (negb (N.eqb wkr w)); [discriminate|]. inv_binds H1. inversion H1; reflexivity.
    - destruct (is_waiting t); inversion H1; reflexivity. }
  assert (Ek : keys c1 = K s) by (unfold K, keys; rewrite Et; reflexivity).
  assert (Hs1 : CS c1) by (eapply CS_keys; [exact Ek | exact (cb_s _ HC)]).
  apply bind_ok in H. destruct H as (csm & Hcs & H).
  apply bind_ok in H. destruct H as (c2 & H2 & H).
  destruct (remove_waiting_consumers_shrinks _ _ _ Hs1 H2) as [Sh2 _].
  apply bind_ok in H. destruct H as ([c3 stt] & H3 & H).
  destruct (remove_task_shrinks _ _ _ _ (shr_sorted _ _ _ Sh2) H3) as [Sh3 _].
  apply bind_ok in H. destruct H as (u & _ & H).
  apply bind_ok in H. destruct H as ([s1 cancel_ids] & H4 & H).
  destruct (process_task_failed_active (st_core s c3) id csm k s1 cancel_ids Hok H4) as (C4 & A4 & J4 & N4).
  assert (G3 : gone (core_of s1) id).
  { unfold core_same in C4. rewrite C4. apply gone_present. change (~ present (keys c3) id). rewrite (shr_dom _ _ _ Sh3). intros [_ N]. apply N. left. reflexivity. }
  destruct cancel_ids as [|c0 cr] eqn:Ecid.
  - inversion H; subst. exact G3.
  - eapply TT_gone; [|exact G3]. unfold TTs. eapply on_cancel_tasks_TT; exact H.
Qed.

Definition ends (x : tid) (us : list wupdate) : Prop := In (UFinished x) us \/ exists k, In (UFailed x k) us.

Lemma apply_updates_gone us : forall s w need s' need',
  HOK (hq_of s) -> CB s -> apply_updates s w us need = Ok (s', need') -> forall x, ends x us -> gone (core_of s') x.
Proof.
  induction us as [|u r IH]; cbn [apply_updates]; intros s w need s' need' Hok HC H x Hx; [destruct Hx as [[]|(k & [])]|].
  apply bind_ok in H. destruct H as ([s1 n1] & Hu & H).
  assert (Hok1 : HOK (hq_of s1) /\ CB s1).
  { destruct u.
    - split; [eapply task_finished_ok; eassumption | eapply task_finished_CB; eassumption].
    - apply bind_ok in Hu. destruct Hu as (sx & Hf & Hu). inversion Hu; subst.
      split; [eapply task_failed_ok; eassumption | eapply task_failed_CB; eassumption].
    - split; [eapply task_running_ok; eassumption|].
      destruct (task_running_spec _ _ _ _ _ _ (cb_s _ HC) Hu) as [E A]. eapply CB_frame; eassumption.
    - split; [eapply task_running_ok; eassumption|].
      destruct (task_running_spec _ _ _ _ _ _ (cb_s _ HC) Hu) as [E A]. eapply CB_frame; eassumption.
    - pose proof (task_reject_same _ _ _ _ _ _ Hu) as Hq. split; [eapply hq_same_ok; eassumption|].
      eapply CB_same; [eapply task_reject_K; [exact (cb_s _ HC) | exact Hu] | exact Hq | exact HC].
    - apply bind_ok in Hu. destruct Hu as (sx & Hf & Hu). inversion Hu; subst.
      pose proof (request_enabled_same _ _ _ _ _ Hf) as Hq. split; [eapply hq_same_ok; eassumption|].
      eapply CB_same; [eapply request_enabled_K; exact Hf | exact Hq | exact HC]. }
  destruct Hok1 as [Hok1 HC1].
  assert (Hrest : TTs (core_of s1) (core_of s')) by (unfold TTs; eapply (apply_updates_TT (fun _ => True) (fun _ => False) r); [intros ? ? ?; exact I | exact H]).
  destruct Hx as [[E|Hx]|(k & [E|Hx])].
  - subst u. eapply TT_gone; [exact Hrest|]. exact (task_finished_gone _ _ _ _ _ HC Hu).
  - eapply IH; [exact Hok1 | exact HC1 | exact H | left; exact Hx].
  - subst u. apply bind_ok in Hu. destruct Hu as (sx & Hf & Hu). inversion Hu; subst.
    eapply TT_gone; [exact Hrest|]. exact (task_failed_gone _ _ _ _ _ Hok HC Hf).
  - eapply IH; [exact Hok1 | exact HC1 | exact H | right; exists k; exact Hx].
Qed.

Lemma on_task_update_gone s w us s' :
  HOK (hq_of s) -> CB s -> on_task_update s w us = Ok s' -> forall x, ends x us -> gone (core_of s') x.
Proof.
  intros Hok HC H x Hx. unfold on_task_update in H. apply bind_ok in H. destruct H as ([s1 need] & Hu & H).
  pose proof (apply_updates_gone _ _ _ _ _ _ Hok HC Hu x Hx) as G.
  destruct (need && _); inversion H; subst; exact G.
Qed.
