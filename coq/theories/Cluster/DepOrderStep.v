(** C03 across a restart, part 3: every operation of the system model.

    [step_dep_closed]: for a state with the proved invariants ([INV], InvBundle.v) and
    [step s o = Ok (s', outs)], the events of the step are dependency-closed w.r.t. the edges of
    [s_core s]: for every decomposition [outs = pre ++ o :: post] where [o] kills [t] (EvFailed t,
    or EvCanceled / EvAborted naming t), every task [x] of the core that lists [t] in [t_deps] is
    named by a terminal event of [pre ++ [o]]. *)
From HQ Require Import Base.Prelude Cluster.Types Cluster.Core Cluster.Reactor Cluster.Worker Cluster.Server Cluster.Sys Cluster.Monitors Cluster.ProofsJob Cluster.ProofsMore Cluster.ProofsTerminal Cluster.ProofsStep Cluster.ProofsFinal Cluster.BijBase Cluster.BijCore Cluster.BijHq Cluster.BijSt Cluster.BijReact Cluster.BijFinal Cluster.ProofsOnce Cluster.StartFinBase Cluster.RejHyp Cluster.InvWFinal Cluster.InvQStep Cluster.InvDBase Cluster.InvDMap Cluster.InvDSpec Cluster.InvDRem Cluster.InvDReact Cluster.InvDSched Cluster.InvDHq Cluster.InvDStep Cluster.InvAll Cluster.InvBundle Cluster.DepOrderBase Cluster.DepOrderReact.
From Coq Require Import ZArith Lia.
Local Open Scope N_scope.

Arguments N.add : simpl never.
Arguments N.sub : simpl never.

(** * Worker loss: everything before the crash-limit handling is quiet *)
Lemma on_remove_worker_split s w reason a p t s' :
  W s -> QA (core_of s) -> WSTMT (core_of s) -> on_remove_worker s w reason a p t = Ok s' ->
  exists s6 s7 running, LK s s6 /\ lost_fail_running s6 reason running = Ok s7 /\ s' = ask_scheduling s7.
Proof.
  intros HW Q HWS H. unfold on_remove_worker in H.
  destruct (find_worker _ w) as [wk|] eqn:Efw; [|discriminate].
  apply bind_ok in H. destruct H as ([[c2 running] retracted] & Hr & H).
  set (c0 := with_workers (core_of s) (del_worker (c_workers (core_of s)) w)) in *.
  pose proof (w_cb _ HW) as HC.
  assert (Hs0 : CS c0) by exact (cb_s _ HC).
  assert (E2 : keys c2 = K s /\ scr (core_of s) c2).
  { destruct (w_assign wk) as [a0 p0 f0|mt root] eqn:Ea.
    - destruct (negb _) eqn:Eperm; [discriminate|]. apply negb_false_iff in Eperm. apply andb_true_iff in Eperm. destruct Eperm as [Pa Pp].
      apply bind_ok in Hr. destruct Hr as (c1 & Hp & Hr).
      pose proof (lost_prefilled_frame _ _ _ Hs0 Hp) as E1.
      assert (Q0 : QA c0) by (eapply QA_tasks_queues; [| |exact Q]; reflexivity).
      destruct (lost_prefilled_QA _ _ _ Q0 Hp) as [S1 _].
      assert (S01 : scr (core_of s) c1) by (eapply scr_trans; [apply (scr_tasks _ c0); reflexivity | exact S1]).
      split.
      + rewrite (lost_assigned_frame _ _ _ _ _ _ _ (CS_keys _ _ E1 Hs0) Hr). exact E1.
      + eapply scr_trans; [exact S01|]. eapply lost_assigned_scr; [|exact Hr].
        eapply zlist_scr; [exact S01|]. intros id tk Hin Ef. eapply (WSTMT_assigned _ _ _ _ _ _ HWS Efw Ea); [|exact Ef].
        eapply perm_of_set_sub; eassumption.
    - apply bind_ok in Hr. destruct Hr as (tk & Ht & Hr). pose proof (get_task_find _ _ _ Ht) as Ht'.
      destruct (t_state tk) eqn:Est; try discriminate. destruct ws as [|w0 rest]; [discriminate|].
      destruct (N.eqb w w0).
      + apply bind_ok in Hr. destruct Hr as (c1 & Hc1 & Hr). apply bind_ok in Hr. destruct Hr as ([qs ret] & _ & Hr).
        inversion Hr; subst.
        pose proof (reset_mn_all_frame _ _ _ Hc1) as E1.
        pose proof (reset_mn_all_tasks _ _ _ Hc1) as T1.
        split.
        * change (keys (upd_task c1 (with_inst (with_state tk (Waiting 0)) (t_inst tk + 1))) = K s).
          transitivity (keys c1); [|exact E1].
          apply (upd_task_frame c1 mt tk); [eapply CS_keys; [exact E1 | exact Hs0] | rewrite T1; exact Ht' | reflexivity | reflexivity].
        * eapply (scr_upd _ c1 _ mt tk); [exact T1 | exact Ht' | reflexivity | edges | cbn; ststep].
      + inversion Hr; subst. split.
        * apply (upd_task_frame c0 mt tk); [exact Hs0 | exact Ht' | reflexivity | reflexivity].
        * eapply (scr_upd _ c0 _ mt tk); [reflexivity | exact Ht' | reflexivity | edges | ststep]. }
  destruct E2 as [E2 S2].
  destruct (negb (perm_of_set t _)); [discriminate|].
  apply bind_ok in H. destruct H as (s3 & H3 & H). apply bind_ok in H. destruct H as (s4 & H4 & H).
  apply bind_ok in H. destruct H as (s6 & H6 & H). apply bind_ok in H. destruct H as (s7 & H7 & H). inversion H; subst.
  exists s6, s7, running. split; [|split; [exact H7 | reflexivity]].
  match type of H3 with lost_retracting ?sx _ _ = _ => set (s2 := sx) in * end.
  assert (HC2 : CB s2) by (eapply CB_same; [exact E2 | reflexivity | exact HC]).
  pose proof (lost_retracting_K _ _ _ _ (cb_s _ HC2) H3) as K3. pose proof (lost_retracting_same _ _ _ _ H3) as Q3.
  assert (HC3 : CB s3) by (eapply CB_same; [exact K3 | exact Q3 | exact HC2]).
  pose proof (process_retracted_K _ _ _ (cb_s _ HC3) H4) as K4. pose proof (process_retracted_hq _ _ _ H4) as Q4.
  pose proof (lost_retracting_scr _ _ _ _ H3) as S3. cbn in S3.
  pose proof (process_retracted_scr _ _ _ H4) as S4.
  pose proof (lost_retracting_snd _ _ _ _ H3) as N3. pose proof (process_retracted_snd _ _ _ H4) as N4.
  set (s5 := broadcast s4 (DLostWorker w)) in *.
  assert (L5 : LK s s5).
  { apply (LK_quiet s s5 []); [| | reflexivity |].
    - apply W_same_keys.
      + change (scr (core_of s) (core_of s4)). eapply scr_trans; [exact S2|]. eapply scr_trans; [exact S3 | exact S4].
      + change (K s4 = K s). rewrite K4, K3. exact E2.
      + change (hq_of s4 = hq_of s). unfold hq_same in Q3. rewrite Q4, Q3. reflexivity.
    - rewrite app_nil_r. change (snd s4 = snd s). rewrite N4, N3. reflexivity.
    - intros _ x Hx. apply (active_same s s5); [apply jt_same; change (hq_of s4 = hq_of s); unfold hq_same in Q3; rewrite Q4, Q3; reflexivity | exact Hx]. }
  eapply LK_trans; [exact L5|].
  destruct (process_worker_lost_active _ _ _ _ _ H6) as [C6 A6]. unfold core_same in C6.
  destruct (process_worker_lost_ext _ _ _ _ _ H6) as (q & Eq & Hq).
  apply (LK_quiet s5 s6 q); [| exact Eq | exact Hq | intros _ x Hx; apply A6; exact Hx].
  intros HW5. apply (W_next s5 s6 HW5).
  - rewrite C6. apply RL_refl. exact (w_gd _ HW5).
  - eapply CB_frame; [unfold K; rewrite C6; reflexivity | exact A6 | exact (w_cb _ HW5)].
  - eapply process_worker_lost_ok; [exact (w_hok _ HW5) | exact H6].
  - eapply process_worker_lost_KL; exact H6.
Qed.

Lemma LK_on_remove_worker s w reason a p t s' :
  QA (core_of s) -> WSTMT (core_of s) -> on_remove_worker s w reason a p t = Ok s' -> LK s s'.
Proof.
  intros Q HWS H HW. destruct (on_remove_worker_split _ _ _ _ _ _ _ HW Q HWS H) as (s6 & s7 & running & L6 & H7 & ->).
  revert HW. change (LK s (ask_scheduling s7)).
  eapply LK_trans; [exact L6|]. eapply LK_trans; [eapply LK_lost_fail_running; exact H7|].
  apply LK_same_tasks; reflexivity.
Qed.

(** * Cancel: one event names every active task of the job *)
Lemma LK_handle_cancel s jid s' : handle_cancel s jid = Ok s' -> LK s s'.
Proof.
  intros H HW.
  assert (HW' : W s' /\ dsub (fm (core_of s)) (fm (core_of s'))).
  { apply (W_next s s' HW).
    - unfold handle_cancel in H.
      destruct (find_job (hq_jobs s) jid) as [j|]; [|inversion H; subst; apply RL_refl; exact (w_gd _ HW)].
      destruct (non_finished_task_ids j) as [|i0 ir]; [inversion H; subst; apply RL_refl; exact (w_gd _ HW)|].
      apply bind_ok in H. destruct H as (s1 & H1 & H). apply bind_ok in H. destruct H as (al & _ & H).
      apply bind_ok in H. destruct H as (s2 & H2 & H). inversion H; subst.
      destruct (set_cancel_state_active _ _ _ _ H2) as [C2 _]. unfold core_same in C2.
      change (RL (core_of s) (core_of s2)). rewrite C2.
      eapply on_cancel_tasks_RL; [exact (w_gd _ HW) | exact H1].
    - eapply handle_cancel_CB; [exact (w_hok _ HW) | exact (w_cb _ HW) | exact H].
    - eapply handle_cancel_ok; [exact (w_hok _ HW) | exact H].
    - eapply handle_cancel_KL; exact H. }
  split; [exact (proj1 HW')|]. split; [exact (proj2 HW')|].
  destruct HW as [[Hs D] HC Hok HJ].
  unfold handle_cancel in H.
  destruct (find_job (hq_jobs s) jid) as [j|] eqn:Ej.
  2:{ inversion H; subst. exists [OResp RCancelInvalid]. split; [reflexivity|]. split; [apply jc_quiet; reflexivity|]. intros x Hx; left; exact Hx. }
  assert (Hjt : jt s jid = Some (j_tasks j)) by (unfold jt, hq_of; unfold hq_jobs in Ej; rewrite Ej; reflexivity).
  pose proof (find_job_id _ _ _ Ej) as Hid.
  assert (Hin : forall x, In x (non_finished_task_ids j) <-> fst x = jid /\ active s x).
  { intros x. rewrite (non_finished_in _ _ (jok_sorted _ (Hok _ (find_job_in _ _ _ Ej)))), Hid. split.
    - intros [Hf Ha]. split; [exact Hf|]. exists (j_tasks j). rewrite Hf. auto.
    - intros [Hf (l & Hl & Ha)]. split; [exact Hf|]. rewrite Hf, Hjt in Hl. inversion Hl; subst. exact Ha. }
  destruct (non_finished_task_ids j) as [|i0 ir] eqn:En.
  { inversion H; subst. eexists [_]. split; [reflexivity|]. split; [apply jc_quiet; reflexivity|]. intros x Hx; left; exact Hx. }
  rewrite <- En in *. clear En.
  apply bind_ok in H. destruct H as (s1 & H1 & H). apply bind_ok in H. destruct H as (al & _ & H).
  apply bind_ok in H. destruct H as (s2 & H2 & H). inversion H; subst. clear H.
  pose proof (on_cancel_tasks_hq _ _ _ H1) as Q1. pose proof (on_cancel_tasks_snd _ _ _ H1) as S1.
  destruct (set_cancel_state_active _ _ _ _ H2) as [_ A2].
  destruct (set_cancel_state_ext _ _ _ _ H2) as (ext & E2 & [T2 B2]).
  eexists (ext ++ [_]). split; [cbn [snd emit]; rewrite E2, S1, <- app_assoc; reflexivity|]. split.
  - apply jc_app. split; [|apply jc_quiet; reflexivity].
    apply B2. intros t' x Ht' (tx & Ex & Hd). left. apply Hin.
    destruct (HJ x tx t' Ex Hd) as [Hj _]. apply Hin in Ht'. split; [rewrite <- Hj; apply Ht'|].
    eapply core_task_active; [exact HC | exact Ex].
  - intros x Hx. rewrite terminal_ids_app, T2.
    destruct (in_dec tid_dec x (non_finished_task_ids j)) as [Ii|Ni]; [right; apply in_app_iff; left; exact Ii|].
    left. apply (active_same s2 (emit s2 _)); [intros; reflexivity|]. apply A2. split; [|exact Ni].
    apply (active_same s s1); [apply jt_same; exact Q1 | exact Hx].
Qed.

(** * One operation *)
Lemma INV_W s : INV s -> W (s, []).
Proof. intros [Hok _ HC _ _ _ HD HJ]. constructor; [exact HD | exact HC | exact Hok | exact HJ]. Qed.

Theorem step_dep_closed_jc s o s' outs :
  INV s -> step s o = Ok (s', outs) -> jc (cdep (s_core s)) NoT outs.
Proof.
  intros HI H. pose proof (INV_W _ HI) as HW.
  assert (Hfin : forall s0 : st, LK (s, []) s0 -> jc (cdep (s_core s)) NoT (snd s0)).
  { intros s0 L. destruct (L HW) as (_ & _ & ext & E & J & _). rewrite E. exact J. }
  destruct o; cbn [step] in H.
  - apply jc_quiet. unfold on_new_worker in H. inversion H; subst. reflexivity.
  - destruct (find_proc _ w); [|discriminate].
    apply (Hfin (s', outs)). eapply LK_on_remove_worker; [| |exact H].
    + apply QSTMT_QA. destruct (inv_qs _ HI) as (_ & Q1 & Q2 & _). split; assumption.
    + apply WI_worker_sets_ok. exact (inv_w _ HI).
  - destruct (bad_submit_lengths _ _); [inversion H; subst; apply jc_quiet; reflexivity|]. apply jc_quiet. exact (handle_submit_array_tids _ _ _ _ _ _ _ _ _ _ H).
  - destruct (bad_graph_rq _ _); [inversion H; subst; apply jc_quiet; reflexivity|]. destruct (dead_dep _ _ _); [inversion H; subst; apply jc_quiet; reflexivity|].
    apply jc_quiet. exact (handle_submit_graph_tids _ _ _ _ _ _ H).
  - apply jc_quiet. unfold handle_open in H. inversion H; subst. reflexivity.
  - apply jc_quiet. unfold handle_close in H.
    destruct (find_job _ j) as [jb|]; [|inversion H; subst; reflexivity].
    destruct (j_open jb); [|inversion H; subst; reflexivity].
    apply bind_ok in H. destruct H as (s1 & H1 & H).
    assert (Hx : (s', outs) = emit s1 (OResp (RClose 0))) by congruence.
    change outs with (snd (s', outs)). rewrite Hx.
    rewrite tids_emit. cbn. rewrite app_nil_r. rewrite (check_termination_tids _ _ _ H1). reflexivity.
  - apply (Hfin (s', outs)). eapply LK_handle_cancel; exact H.
  - apply jc_quiet. unfold handle_forget in H. destruct (find_job _ j) as [jb|]; [|inversion H; subst; reflexivity].
    apply bind_ok in H. destruct H as (na & _ & H). destruct (negb (j_open jb) && na); inversion H; subst; reflexivity.
  - destruct (find_proc _ w) as [p|]; [|discriminate]. destruct (p_down p); [discriminate|].
    inv_binds H. inversion H; subst. apply jc_quiet. unfold terminal_ids. cbn. apply tids_launch.
  - destruct (find_proc _ w) as [p|]; [|discriminate]. destruct (p_up p) as [|m rest]; [discriminate|].
    destruct m.
    + match type of H with on_task_update ?s1 _ _ = _ => pose proof (LK_on_task_update s1 _ _ _ H) as L; set (sx := s1) in * end.
      assert (HWx : W sx).
      { apply (proj1 (W_same_keys (s, []) sx (scr_tasks _ _ eq_refl) eq_refl eq_refl HW)). }
      destruct (L HWx) as (_ & _ & ext & E & J & _). cbn [snd] in E. rewrite E.
      apply jc_app. split; [apply jc_quiet; reflexivity|]. eapply jc_ext; [|exact J]. intros x [].
    + apply jc_quiet. unfold on_retract_response in H. destruct (retract_response_states _ w ids []) as [c' groups].
      apply bind_ok in H. destruct H as (s2 & H & H2).
      assert (Es : snd (s', outs) = snd s2) by (destruct (retract_wakes _ _ _ _); inversion H2; subst; reflexivity).
      change outs with (snd (s', outs)). rewrite Es, (send_redirected_snd _ _ _ H). reflexivity.
  - destruct (c_flag (s_core s)); [|discriminate]. apply jc_quiet.
    change outs with (snd (s', outs)). rewrite (run_scheduling_snd _ _ _ H). reflexivity.
  - destruct (find_proc _ w) as [p|]; [|discriminate]. inv_binds H. inversion H; subst. apply jc_quiet. apply tids_launch.
  - destruct (find_proc _ w) as [p|]; [|discriminate]. inversion H; subst. apply jc_quiet. reflexivity.
  - inversion H; subst. apply jc_quiet. reflexivity.
  - inv_binds H. inversion H; subst. apply jc_quiet. reflexivity.
Qed.

(** The decomposition form of the statement. *)
Theorem step_dep_closed s o s' outs pre e post t x tx :
  INV s -> step s o = Ok (s', outs) ->
  outs = pre ++ OEv e :: post -> In t (kill_ids (OEv e)) ->
  find_task (c_tasks (s_core s)) x = Some tx -> In t (t_deps tx) ->
  In x (terminal_ids (pre ++ [OEv e])).
Proof.
  intros HI H E Ht Ex Hd.
  pose proof (step_dep_closed_jc _ _ _ _ HI H) as J.
  destruct (proj1 (jc_decomp _ _ _) J pre (OEv e) post t x E Ht) as [A|[]]; [|exact A].
  exists tx. split; assumption.
Qed.

Print Assumptions step_dep_closed.
