(** The queue invariant (C02 "no limbo", base of C03), part 1: sorted id lists, the vocabulary
    ([RdyAt] / [PfAt]: where an id sits in a [TaskQueue]; [WFQ]: structural well-formedness of a
    queue) and precise membership specifications of every function of taskqueue.rs. *)
From HQ Require Import Base.Prelude Cluster.Types Cluster.Core Cluster.Reactor Cluster.Worker Cluster.Server Cluster.Sys Cluster.Monitors Cluster.ProofsJob Cluster.ProofsMore Cluster.ProofsStep Cluster.BijBase Cluster.BijCore Cluster.BijHq Cluster.BijSt.
From Coq Require Import ZArith Lia Sorting.Sorted.
Local Open Scope N_scope.

Arguments N.add : simpl never.
Arguments N.sub : simpl never.

(** The one fact about the worker sets the queue invariant depends on (a consequence of
    [worker_sets_ok]): an id in a worker's ASSIGNED set is never a Prefilled task.  It is needed at
    exactly one place, [lost_assigned], which re-queues every id of the lost worker's assigned set
    without any guard. *)
Definition asg_ok (c : core) : Prop :=
  forall wk a p f id t, In wk (c_workers c) -> w_assign wk = Sn a p f -> tid_mem id a = true ->
    find_task (c_tasks c) id = Some t -> forall w, t_state t <> Prefilled w.

(** * Sorted id lists *)
Definition SL (l : list tid) : Prop := StronglySorted tlt l.

Lemma tmem_in x l : tid_mem x l = true <-> In x l.
Proof.
  induction l as [|h t IH]; cbn [tid_mem In]; [split; [discriminate | intros []]|].
  rewrite orb_true_iff, IH, tid_eqb_eq. split; intros [H|H]; auto.
Qed.
Lemma tmem_notin x l : tid_mem x l = false <-> ~ In x l.
Proof. rewrite <- tmem_in. destruct (tid_mem x l); split; congruence. Qed.
Lemma tmem_app x a b : tid_mem x (a ++ b) = tid_mem x a || tid_mem x b.
Proof. induction a as [|h t IH]; cbn [tid_mem app]; [reflexivity|]. rewrite IH, orb_assoc. reflexivity. Qed.

Lemma SL_nil : SL [].
Proof. constructor. Qed.
Lemma SL_one x : SL [x].
Proof. constructor; constructor. Qed.
Lemma SL_inv x l : SL (x :: l) -> SL l /\ (forall y, In y l -> tlt x y).
Proof. intros H. inversion H as [|? ? Hs Hall]; subst. rewrite Forall_forall in Hall. auto. Qed.
Lemma SL_cons x l : SL l -> (forall y, In y l -> tlt x y) -> SL (x :: l).
Proof. intros H1 H2. constructor; [exact H1 | rewrite Forall_forall; exact H2]. Qed.
Lemma SL_notin x l : SL (x :: l) -> ~ In x l.
Proof. intros H Hin. destruct (SL_inv _ _ H) as [_ Hlt]. exact (tlt_irrefl _ (Hlt _ Hin)). Qed.

Lemma tins_iff x l y : In y (tid_insert x l) <-> y = x \/ In y l.
Proof.
  split; [apply tid_insert_in|]. intros [->|H]; [apply tid_insert_has | apply tid_insert_keeps; exact H].
Qed.

Lemma tins_SL x l : SL l -> SL (tid_insert x l).
Proof.
  induction l as [|h t IH]; cbn [tid_insert]; intros Hs; [apply SL_one|].
  destruct (SL_inv _ _ Hs) as [Ht Hlt].
  destruct (tid_eqb x h) eqn:E; [exact Hs|].
  destruct (tid_ltb x h) eqn:L.
  - apply SL_cons; [exact Hs|]. intros y [<-|Hy]; [exact L | eapply tlt_trans; [exact L | apply Hlt; exact Hy]].
  - apply SL_cons; [apply IH; exact Ht|]. intros y Hy. apply tins_iff in Hy. destruct Hy as [->|Hy]; [|apply Hlt; exact Hy].
    apply tlt_total; assumption.
Qed.

Lemma trem_iff x l y : SL l -> (In y (tid_remove x l) <-> In y l /\ y <> x).
Proof.
  induction l as [|h t IH]; cbn [tid_remove]; intros Hs; [cbn; tauto|].
  destruct (SL_inv _ _ Hs) as [Ht Hlt].
  destruct (tid_eqb x h) eqn:E.
  - apply tid_eqb_eq in E. subst h. cbn [In]. split.
    + intros Hy. split; [right; exact Hy|]. intros ->. exact (SL_notin _ _ Hs Hy).
    + intros [[->|Hy] Hne]; [congruence | exact Hy].
  - apply tid_eqb_neq in E. cbn [In]. rewrite (IH Ht). split.
    + intros [<-|[Hy Hne]]; [split; [left; reflexivity | congruence] | split; [right; exact Hy | exact Hne]].
    + intros [[<-|Hy] Hne]; [left; reflexivity | right; split; assumption].
Qed.

Lemma trem_SL x l : SL l -> SL (tid_remove x l).
Proof.
  induction l as [|h t IH]; cbn [tid_remove]; intros Hs; [exact Hs|].
  destruct (SL_inv _ _ Hs) as [Ht Hlt].
  destruct (tid_eqb x h); [exact Ht|].
  apply SL_cons; [apply IH; exact Ht|]. intros y Hy. apply Hlt. eapply tid_remove_incl. exact Hy.
Qed.

Lemma tinsall_iff xs : forall l y, In y (tid_insert_all xs l) <-> In y xs \/ In y l.
Proof.
  intros l y. split; [apply tid_insert_all_in|].
  revert l. unfold tid_insert_all. induction xs as [|x r IH]; cbn [fold_left In]; intros l [H|H]; try contradiction; try exact H.
  - destruct H as [<-|H]; [|apply IH; left; exact H]. apply IH. right. apply tid_insert_has.
  - apply IH. right. apply tid_insert_keeps. exact H.
Qed.

Lemma tinsall_SL xs : forall l, SL l -> SL (tid_insert_all xs l).
Proof.
  unfold tid_insert_all. induction xs as [|x r IH]; cbn [fold_left]; intros l Hs; [exact Hs|].
  apply IH. apply tins_SL. exact Hs.
Qed.

Lemma take_n_app {A} n : forall (l a b : list A), take_n n l = (a, b) -> l = a ++ b.
Proof.
  induction n as [|k IH]; intros l a b H.
  - destruct l; cbn in H; inversion H; reflexivity.
  - destruct l as [|h t]; cbn [take_n] in H; [inversion H; reflexivity|].
    destruct (take_n k t) as [a0 b0] eqn:E. inversion H; subst. cbn. f_equal. apply IH. exact E.
Qed.

Lemma SL_app a : forall b, SL (a ++ b) -> SL a /\ SL b /\ (forall x, In x a -> ~ In x b).
Proof.
  induction a as [|h t IH]; cbn [app]; intros b Hs; [split; [apply SL_nil | split; [exact Hs | intros x []]]|].
  destruct (SL_inv _ _ Hs) as [Ht Hlt]. destruct (IH _ Ht) as (I1 & I2 & I3).
  split; [|split; [exact I2|]].
  - apply SL_cons; [exact I1|]. intros y Hy. apply Hlt. apply in_or_app. left. exact Hy.
  - intros x [<-|Hx] Hb; [|exact (I3 _ Hx Hb)].
    apply (tlt_irrefl h). apply Hlt. apply in_or_app. right. exact Hb.
Qed.

Lemma fold_rem_spec a : forall ts, SL ts ->
  SL (fold_left (fun acc x => tid_remove x acc) a ts) /\
  forall y, In y (fold_left (fun acc x => tid_remove x acc) a ts) <-> In y ts /\ ~ In y a.
Proof.
  induction a as [|x r IH]; cbn [fold_left]; intros ts Hs; [split; [exact Hs | intros y; cbn; tauto]|].
  destruct (IH _ (trem_SL x _ Hs)) as [I1 I2]. split; [exact I1|].
  intros y. rewrite I2, (trem_iff x ts y Hs). cbn [In]. split.
  - intros [[H1 H2] H3]. split; [exact H1 | intros [E|E]; [congruence | contradiction]].
  - intros [H1 H2]. split; [split; [exact H1 | intros E; apply H2; left; congruence] | intros E; apply H2; right; exact E].
Qed.

(** * Where an id sits *)
Definition EAt (es : list qentry) (p : Z) (x : tid) : Prop := exists e, In e es /\ qe_prio e = p /\ In x (qe_ids e).
Definition PAt (pf : option (Z * list tid)) (p : Z) (x : tid) : Prop := exists ts, pf = Some (p, ts) /\ In x ts.
Definition RdyAt (q : queue) (p : Z) (x : tid) : Prop := EAt (q_ready q) p x.
Definition PfAt (q : queue) (p : Z) (x : tid) : Prop := PAt (q_prefill q) p x.
Definition member (q : queue) (x : tid) : Prop := exists p, RdyAt q p x \/ PfAt q p x.

Lemma EAt_nil p x : EAt [] p x <-> False.
Proof. split; [intros (e & [] & _) | intros []]. Qed.
Lemma EAt_cons e es p x : EAt (e :: es) p x <-> (qe_prio e = p /\ In x (qe_ids e)) \/ EAt es p x.
Proof.
  unfold EAt. split.
  - intros (e0 & [<-|Hin] & Hp & Hx); [left; auto | right; eauto].
  - intros [[Hp Hx]|(e0 & Hin & Hp & Hx)]; [exists e; split; [left; reflexivity | auto] | exists e0; split; [right; exact Hin | auto]].
Qed.
Lemma PAt_none p x : PAt None p x <-> False.
Proof. split; [intros (ts & H & _); discriminate | intros []]. Qed.
Lemma PAt_some pp ts p x : PAt (Some (pp, ts)) p x <-> p = pp /\ In x ts.
Proof.
  unfold PAt. split.
  - intros (ts0 & H & Hx). inversion H; subst. auto.
  - intros [-> Hx]. eauto.
Qed.

Lemma in_ready_iff q x : in_ready q x = true <-> exists p, RdyAt q p x.
Proof.
  unfold in_ready, RdyAt, EAt. rewrite existsb_exists. split.
  - intros (e & Hin & Hm). apply tmem_in in Hm. exists (qe_prio e), e. auto.
  - intros (p & e & Hin & _ & Hx). exists e. split; [exact Hin | apply tmem_in; exact Hx].
Qed.
Lemma in_prefill_iff q x : in_prefill q x = true <-> exists p, PfAt q p x.
Proof.
  unfold in_prefill, PfAt. destruct (q_prefill q) as [[pp ts]|].
  - rewrite tmem_in. split; [intros H; exists pp; apply PAt_some; auto | intros (p & H); apply PAt_some in H; apply H].
  - split; [discriminate | intros (p & H); apply PAt_none in H; contradiction].
Qed.

(** * Well-formed queues *)
Definition eok (e : qentry) : Prop := SL (qe_ids e) /\ (qe_more e = false -> exists x, qe_ids e = [x]).
Definition below (P : Z) (es : list qentry) : Prop := Forall (fun b => (qe_prio b < P)%Z) es.
Fixpoint desc (es : list qentry) : Prop :=
  match es with [] => True | e :: t => below (qe_prio e) t /\ desc t end.
Definition WFE (es : list qentry) : Prop := desc es /\ Forall eok es.
Definition WFP (pf : option (Z * list tid)) : Prop := match pf with Some (_, ts) => SL ts | None => True end.
Definition WFQ (q : queue) : Prop := WFE (q_ready q) /\ WFP (q_prefill q).

Lemma WFE_nil : WFE [].
Proof. split; [exact I | constructor]. Qed.
Lemma WFE_inv e es : WFE (e :: es) -> eok e /\ below (qe_prio e) es /\ WFE es.
Proof. intros [[B D] F]. inversion F; subst. split; [assumption | split; [exact B | split; assumption]]. Qed.
Lemma WFE_cons e es : eok e -> below (qe_prio e) es -> WFE es -> WFE (e :: es).
Proof. intros He Hb [D F]. split; [split; assumption | constructor; assumption]. Qed.
Lemma below_EAt P es p x : below P es -> EAt es p x -> (p < P)%Z.
Proof. intros B (e & Hin & <- & _). unfold below in B. rewrite Forall_forall in B. apply B. exact Hin. Qed.
Lemma below_lt P P' es : below P es -> (P <= P')%Z -> below P' es.
Proof. unfold below. rewrite !Forall_forall. intros B L b Hb. specialize (B b Hb). lia. Qed.
Lemma WFE_head_notin e es p x : WFE (e :: es) -> EAt es p x -> p <> qe_prio e.
Proof. intros H Hx. destruct (WFE_inv _ _ H) as (_ & B & _). pose proof (below_EAt _ _ _ _ B Hx). lia. Qed.

Lemma WFQ_mk es pf : WFE es -> WFP pf -> WFQ (mkQ es pf).
Proof. intros; split; assumption. Qed.
Lemma WFQ_empty : WFQ empty_queue.
Proof. split; [apply WFE_nil | exact I]. Qed.

(** * [TaskQueue::add] *)
Lemma qe_add_below P es id p : below P es -> (p < P)%Z -> below P (qe_add es id p).
Proof.
  unfold below. induction es as [|e t IH]; cbn [qe_add]; intros B L; [constructor; [exact L | constructor]|].
  inversion B; subst.
  destruct (Z.eqb (qe_prio e) p); [constructor; [exact L | assumption]|].
  destruct (Z.ltb (qe_prio e) p); [constructor; [exact L | exact B]|].
  constructor; [assumption | apply IH; assumption].
Qed.

Lemma qe_add_spec es id p : WFE es ->
  WFE (qe_add es id p) /\ forall p' x, EAt (qe_add es id p) p' x <-> EAt es p' x \/ (x = id /\ p' = p).
Proof.
  induction es as [|e t IH]; cbn [qe_add]; intros W.
  - split.
    + apply WFE_cons; [split; [apply SL_one | intros _; exists id; reflexivity] | constructor | apply WFE_nil].
    + intros p' x. rewrite EAt_cons, !EAt_nil. cbn. intuition (subst; auto).
  - destruct (WFE_inv _ _ W) as (He & B & Wt).
    destruct (Z.eqb (qe_prio e) p) eqn:E1.
    + apply Z.eqb_eq in E1. split.
      * apply WFE_cons; [split; [apply tins_SL; apply He | discriminate] | cbn; rewrite <- E1; exact B | exact Wt].
      * intros p' x. rewrite !EAt_cons. cbn [qe_prio qe_ids]. rewrite tins_iff. subst p. intuition (subst; auto).
    + apply Z.eqb_neq in E1. destruct (Z.ltb (qe_prio e) p) eqn:E2.
      * apply Z.ltb_lt in E2. split.
        -- apply WFE_cons; [split; [apply SL_one | intros _; exists id; reflexivity] | | exact W].
           cbn. constructor; [exact E2 | eapply below_lt; [exact B | lia]].
        -- intros p' x. rewrite (EAt_cons (mkQE p false [id])). cbn. intuition (subst; auto).
      * apply Z.ltb_ge in E2. destruct (IH Wt) as [I1 I2]. split.
        -- apply WFE_cons; [exact He | apply qe_add_below; [exact B | lia] | exact I1].
        -- intros p' x. rewrite !EAt_cons, I2. tauto.
Qed.

Lemma q_add_spec q id p : WFQ q ->
  WFQ (q_add q id p) /\ (forall p' x, RdyAt (q_add q id p) p' x <-> RdyAt q p' x \/ (x = id /\ p' = p)) /\
  (forall p' x, PfAt (q_add q id p) p' x <-> PfAt q p' x).
Proof.
  intros [W1 W2]. destruct (qe_add_spec _ id p W1) as [A1 A2].
  split; [split; assumption | split; [exact A2 | intros; reflexivity]].
Qed.

(** * [TaskQueue::add_many] *)
Lemma qe_add_many_below P es ids p : below P es -> (p < P)%Z -> below P (qe_add_many es ids p).
Proof.
  unfold below. induction es as [|e t IH]; cbn [qe_add_many]; intros B L; [constructor; [exact L | constructor]|].
  inversion B; subst.
  destruct (Z.eqb (qe_prio e) p); [constructor; [exact L | assumption]|].
  destruct (Z.ltb (qe_prio e) p); [constructor; [exact L | exact B]|].
  constructor; [assumption | apply IH; assumption].
Qed.

Lemma qe_add_many_spec es ids p : WFE es -> SL ids ->
  WFE (qe_add_many es ids p) /\ forall p' x, EAt (qe_add_many es ids p) p' x <-> EAt es p' x \/ (In x ids /\ p' = p).
Proof.
  intros W Hs. induction es as [|e t IH]; cbn [qe_add_many].
  - split.
    + apply WFE_cons; [split; [exact Hs | discriminate] | constructor | apply WFE_nil].
    + intros p' x. rewrite EAt_cons, !EAt_nil. cbn. intuition (subst; auto).
  - destruct (WFE_inv _ _ W) as (He & B & Wt).
    destruct (Z.eqb (qe_prio e) p) eqn:E1.
    + apply Z.eqb_eq in E1. split.
      * apply WFE_cons; [split; [apply tinsall_SL; apply He | discriminate] | cbn; rewrite <- E1; exact B | exact Wt].
      * intros p' x. rewrite !EAt_cons. cbn [qe_prio qe_ids]. rewrite tinsall_iff. subst p. intuition (subst; auto).
    + apply Z.eqb_neq in E1. destruct (Z.ltb (qe_prio e) p) eqn:E2.
      * apply Z.ltb_lt in E2. split.
        -- apply WFE_cons; [split; [exact Hs | discriminate] | | exact W].
           cbn. constructor; [exact E2 | eapply below_lt; [exact B | lia]].
        -- intros p' x. rewrite (EAt_cons (mkQE p true ids)). cbn. intuition (subst; auto).
      * apply Z.ltb_ge in E2. destruct (IH Wt) as [I1 I2]. split.
        -- apply WFE_cons; [exact He | apply qe_add_many_below; [exact B | lia] | exact I1].
        -- intros p' x. rewrite !EAt_cons, I2. tauto.
Qed.

(** * [TaskQueue::check_dispose_prefill] *)
Lemma q_cdp_spec q p q' r : WFQ q -> q_check_dispose_prefill q p = (q', r) ->
  WFQ q' /\
  ((q' = q /\ r = []) \/
   (exists pp, q_prefill q = Some (pp, r) /\ q_prefill q' = None /\
      forall p' x, RdyAt q' p' x <-> RdyAt q p' x \/ (In x r /\ p' = pp))).
Proof.
  intros [W1 W2] H. unfold q_check_dispose_prefill in H.
  destruct (q_prefill q) as [[pp ts]|] eqn:Ep; [|inversion H; subst; split; [split; [exact W1 | rewrite Ep; exact I] | left; auto]].
  destruct (Z.ltb pp p); [|inversion H; subst; split; [split; [exact W1 | rewrite Ep; exact W2] | left; auto]].
  inversion H; subst. clear H. unfold q_add_many. destruct r as [|r0 rr] eqn:Er.
  - split; [split; [exact W1 | exact I]|]. right. exists pp. split; [reflexivity | split; [reflexivity|]].
    intros p' x. cbn. unfold RdyAt. cbn. tauto.
  - rewrite <- Er in *. destruct (qe_add_many_spec (q_ready q) r pp W1 W2) as [A1 A2].
    split; [split; [exact A1 | exact I]|]. right. exists pp. split; [reflexivity | split; [reflexivity|]].
    intros p' x. unfold RdyAt. cbn. apply A2.
Qed.

(** * [TaskQueue::remove] *)
Lemma qe_remove_below P es id p es' : below P es -> qe_remove es id p = Ok es' -> below P es'.
Proof.
  unfold below. revert es'. induction es as [|e t IH]; cbn [qe_remove]; intros es' B H; [inversion H; constructor|].
  inversion B; subst.
  destruct (Z.eqb (qe_prio e) p) eqn:E1.
  - apply Z.eqb_eq in E1. destruct (qe_more e).
    + destruct (tid_remove id (qe_ids e)); inversion H; subst; [assumption | constructor; [cbn; lia | assumption]].
    + destruct (tid_mem id (qe_ids e)); inversion H; subst. assumption.
  - apply bind_ok in H. destruct H as (t' & Ht & H). inversion H; subst. constructor; [assumption | apply IH; assumption].
Qed.

Lemma qe_remove_spec es id p : forall es', WFE es -> qe_remove es id p = Ok es' ->
  WFE es' /\ forall p' x, EAt es' p' x <-> EAt es p' x /\ ~ (x = id /\ p' = p).
Proof.
  induction es as [|e t IH]; cbn [qe_remove]; intros es' W H.
  - inversion H; subst. split; [apply WFE_nil|]. intros p' x. rewrite EAt_nil. tauto.
  - destruct (WFE_inv _ _ W) as (He & B & Wt).
    assert (Hnot : forall p' x, EAt t p' x -> p' <> qe_prio e) by (intros p' x Hx; eapply WFE_head_notin; eassumption).
    destruct (Z.eqb (qe_prio e) p) eqn:E1.
    + apply Z.eqb_eq in E1. destruct (qe_more e) eqn:Em.
      * pose proof (trem_iff id (qe_ids e)) as R. pose proof (trem_SL id _ (proj1 He)) as RS.
        destruct (tid_remove id (qe_ids e)) as [|r0 rr] eqn:Er; inversion H; subst; clear H.
        -- split; [exact Wt|]. intros p' x. rewrite EAt_cons. split.
           ++ intros Hx. split; [right; exact Hx|]. intros [_ ->]. exact (Hnot _ _ Hx eq_refl).
           ++ intros [[[Hp Hx]|Hx] Hn]; [|exact Hx]. exfalso. specialize (R x (proj1 He)). cbn in R.
              apply R. split; [exact Hx|]. intros ->. apply Hn. auto.
        -- split; [apply WFE_cons; [split; [exact RS | discriminate] | exact B | exact Wt]|].
           intros p' x. rewrite !EAt_cons. cbn [qe_prio qe_ids]. rewrite (R x (proj1 He)). split.
           ++ intros [[Hp [Hx Hne]]|Hx]; [split; [left; auto | intros [-> _]; congruence]|].
              split; [right; exact Hx | intros [_ ->]; exact (Hnot _ _ Hx eq_refl)].
           ++ intros [[[Hp Hx]|Hx] Hn]; [left; split; [exact Hp | split; [exact Hx | intros ->; apply Hn; auto]] | right; exact Hx].
      * destruct (tid_mem id (qe_ids e)) eqn:Ei; inversion H; subst; clear H.
        destruct (proj2 He Em) as (y & Ey). rewrite Ey in Ei. cbn in Ei. rewrite orb_false_r in Ei. apply tid_eqb_eq in Ei. subst y.
        split; [exact Wt|]. intros p' x. rewrite EAt_cons, Ey. cbn [In]. split.
        -- intros Hx. split; [right; exact Hx|]. intros [_ ->]. exact (Hnot _ _ Hx eq_refl).
        -- intros [[[Hp [Hx|[]]]|Hx] Hn]; [exfalso; apply Hn; auto | exact Hx].
    + apply Z.eqb_neq in E1. apply bind_ok in H. destruct H as (t' & Ht & H). inversion H; subst; clear H.
      destruct (IH _ Wt Ht) as [I1 I2]. split.
      * apply WFE_cons; [exact He | eapply qe_remove_below; eassumption | exact I1].
      * intros p' x. rewrite !EAt_cons, I2. split.
        -- intros [[Hp Hx]|[Hx Hn]]; [split; [left; auto | intros [_ ->]; congruence] | split; [right; exact Hx | exact Hn]].
        -- intros [[Hx|Hx] Hn]; [left; exact Hx | right; split; assumption].
Qed.

(** [q_remove]: the branch taken is decided by where the id is. *)
Lemma q_remove_spec q id p q' : WFQ q -> q_remove q id p = Ok q' ->
  WFQ q' /\
  ((PfAt q p id /\ (forall p' x, RdyAt q' p' x <-> RdyAt q p' x) /\ (forall p' x, PfAt q' p' x <-> PfAt q p' x /\ x <> id)) \/
   (~ PfAt q p id /\ (forall p' x, RdyAt q' p' x <-> RdyAt q p' x /\ ~ (x = id /\ p' = p)) /\ (forall p' x, PfAt q' p' x <-> PfAt q p' x))).
Proof.
  intros [W1 W2] H. unfold q_remove in H. unfold PfAt, RdyAt.
  destruct (q_prefill q) as [[pp ts]|] eqn:Ep.
  - destruct (Z.eqb p pp && tid_mem id ts) eqn:Eb.
    + apply andb_true_iff in Eb. destruct Eb as [Eb1 Eb2]. apply Z.eqb_eq in Eb1. apply tmem_in in Eb2. subst pp.
      inversion H; subst; clear H. cbn [q_ready q_prefill]. split; [split; [exact W1 | cbn; apply trem_SL; exact W2]|].
      left. split; [apply PAt_some; auto|]. split; [intros; reflexivity|].
      intros p' x. rewrite !PAt_some, (trem_iff id ts x W2). tauto.
    + apply bind_ok in H. destruct H as (r & Hr & H). inversion H; subst; clear H. cbn [q_ready q_prefill].
      destruct (qe_remove_spec _ _ _ _ W1 Hr) as [R1 R2]. split; [split; [exact R1 | exact W2]|].
      right. split; [|split; [exact R2 | intros; reflexivity]].
      rewrite PAt_some. intros [E Hin]. subst pp. apply tmem_in in Hin. rewrite Hin, Z.eqb_refl in Eb. discriminate.
  - apply bind_ok in H. destruct H as (r & Hr & H). inversion H; subst; clear H. cbn [q_ready q_prefill].
    destruct (qe_remove_spec _ _ _ _ W1 Hr) as [R1 R2]. split; [split; [exact R1 | exact I]|].
    right. split; [rewrite PAt_none; tauto | split; [exact R2 | intros; reflexivity]].
Qed.

(** * [TaskQueue::remove_prefilled] *)
Lemma q_remove_prefilled_spec q id q' : WFQ q -> q_remove_prefilled q id = Ok q' ->
  WFQ q' /\ (exists p, PfAt q p id) /\
  (forall p' x, RdyAt q' p' x <-> RdyAt q p' x) /\ (forall p' x, PfAt q' p' x <-> PfAt q p' x /\ x <> id).
Proof.
  intros [W1 W2] H. unfold q_remove_prefilled in H. unfold PfAt, RdyAt.
  destruct (q_prefill q) as [[pp ts]|] eqn:Ep; [|discriminate].
  destruct (tid_mem id ts) eqn:Ei; [|discriminate]. apply tmem_in in Ei.
  pose proof (trem_iff id ts) as R. pose proof (trem_SL id ts W2) as RS.
  assert (Hex : exists p, PAt (Some (pp, ts)) p id) by (exists pp; apply PAt_some; auto).
  destruct (tid_remove id ts) as [|r0 rr] eqn:Er; inversion H; subst; clear H; cbn [q_ready q_prefill].
  - split; [split; [exact W1 | exact I]|]. split; [exact Hex|]. split; [intros; reflexivity|].
    intros p' x. rewrite PAt_none, PAt_some. split; [tauto|]. intros [[_ Hx] Hne]. apply (R x W2). auto.
  - split; [split; [exact W1 | exact RS]|]. split; [exact Hex|]. split; [intros; reflexivity|].
    intros p' x. rewrite !PAt_some, (R x W2). tauto.
Qed.

(** * [TaskQueue::move_prefilled_task_to_ready] *)
Lemma q_move_spec q id q' : WFQ q -> q_move_prefilled_to_ready q id = Ok q' ->
  WFQ q' /\ exists pp, PfAt q pp id /\
  (forall p' x, RdyAt q' p' x <-> RdyAt q p' x \/ (x = id /\ p' = pp)) /\
  (forall p' x, PfAt q' p' x <-> PfAt q p' x /\ x <> id).
Proof.
  intros [W1 W2] H. unfold q_move_prefilled_to_ready in H.
  destruct (q_prefill q) as [[pp ts]|] eqn:Ep; [|discriminate].
  destruct (tid_mem id ts) eqn:Ei; [|discriminate]. apply tmem_in in Ei. inversion H; subst; clear H.
  pose proof (trem_iff id ts) as R. pose proof (trem_SL id ts W2) as RS.
  set (pf := match tid_remove id ts with [] => None | r0 :: rr => Some (pp, r0 :: rr) end).
  assert (Wpf : WFP pf) by (subst pf; destruct (tid_remove id ts); [exact I | exact RS]).
  assert (Hpf : forall p' x, PAt pf p' x <-> PAt (Some (pp, ts)) p' x /\ x <> id).
  { intros p' x. subst pf. destruct (tid_remove id ts) as [|r0 rr] eqn:Er.
    - rewrite PAt_none, PAt_some. split; [tauto|]. intros [[_ Hx] Hne]. apply (R x W2). auto.
    - rewrite !PAt_some, (R x W2). tauto. }
  destruct (q_add_spec (mkQ (q_ready q) pf) id pp (WFQ_mk _ _ W1 Wpf)) as (A1 & A2 & A3).
  split; [exact A1|]. exists pp. split; [unfold PfAt; rewrite Ep; apply PAt_some; auto|].
  split; [exact A2|]. intros p' x. rewrite A3. unfold PfAt. cbn [q_prefill]. rewrite Ep. apply Hpf.
Qed.
