(** Protocol invariant, part 7: what the job layer's functions do to the view [jv] of one task
    ([hq_chg]), and the core functions used by several reactor functions ([process_retracted],
    [wake_consumers], [remove_task] ...) as transitions of [SP]. *)
From HQ Require Import Base.Prelude Cluster.Types Cluster.Core Cluster.Reactor Cluster.Worker Cluster.Server Cluster.Sys Cluster.ProofsJob Cluster.ProofsMore Cluster.ProofsTerminal Cluster.ProofsStep Cluster.BijBase Cluster.BijHq Cluster.NoPanicU0 Cluster.NoPanicU1 Cluster.NoPanicU2 Cluster.NoPanicU6.
From Coq Require Import ZArith Lia Sorting.Sorted.
Local Open Scope N_scope.

Notation tid_eqb_eq := NoPanicU1.tid_eqb_eq.
Notation tid_eqb_neq := NoPanicU1.tid_eqb_neq.
Notation tid_eqb_refl := NoPanicU1.tid_eqb_refl.

(** * [jv] through [jt] *)
Lemma jv_jt s t : jv (hq_of s) t = option_map (fun l => jt_find l (snd t)) (jt s (fst t)).
Proof. unfold jv, jt. destruct (find_job (h_jobs (hq_of s)) (fst t)); reflexivity. Qed.

Lemma hq_chg_of_jt (P : tid -> Prop) s s' :
  h_counter (hq_of s') = h_counter (hq_of s) ->
  (forall id, (jt s id = None /\ jt s' id = None) \/
              exists l l', jt s id = Some l /\ jt s' id = Some l' /\
                           forall k, (~ P (id, k) -> jt_find l' k = jt_find l k) /\ (jt_find l k = None <-> jt_find l' k = None)) ->
  hq_chg P (hq_of s) (hq_of s').
Proof.
  intros Hc H. split; [exact Hc|]. intros t. rewrite !jv_jt.
  destruct (H (fst t)) as [[E1 E2]|(l & l' & E1 & E2 & Hk)]; rewrite E1, E2; cbn [option_map].
  - repeat split; auto.
  - destruct (Hk (snd t)) as [A B]. split; [|split].
    + intros HN. f_equal. apply A. destruct t; exact HN.
    + split; discriminate.
    + split; intros X; injection X as Y; [rewrite (proj1 B Y) | rewrite (proj2 B Y)]; reflexivity.
Qed.

Lemma jt_same_chg s s' : h_counter (hq_of s') = h_counter (hq_of s) -> (forall id, jt s' id = jt s id) ->
  hq_chg (fun _ => False) (hq_of s) (hq_of s').
Proof.
  intros Hc H. apply hq_chg_of_jt; [exact Hc|]. intros id. rewrite H. destruct (jt s id) as [l|]; [right | left; auto].
  exists l, l. repeat split; auto.
Qed.

Lemma hq_counter_set s j : h_counter (hq_of (hq_set_job s j)) = h_counter (hq_of s).
Proof. reflexivity. Qed.

(** one task of job [j] is set to [v] *)
Lemma set_one_chg s s' (t : tid) j l' v :
  h_counter (hq_of s') = h_counter (hq_of s) ->
  jt s (fst t) = Some (j_tasks j) -> jt_find (j_tasks j) (snd t) <> None ->
  l' = jt_set (j_tasks j) (snd t) v ->
  (forall id, jt s' id = if N.eqb id (fst t) then Some l' else jt s id) ->
  hq_chg (eq t) (hq_of s) (hq_of s') /\ jv (hq_of s') t = Some (Some v).
Proof.
  intros Hc Ej Hf -> E. split.
  - apply hq_chg_of_jt; [exact Hc|]. intros id. rewrite E. destruct (N.eqb id (fst t)) eqn:E1.
    + apply N.eqb_eq in E1. subst id. right. exists (j_tasks j), (jt_set (j_tasks j) (snd t) v). split; [exact Ej|]. split; [reflexivity|].
      intros k. rewrite jt_find_set. destruct (N.eqb k (snd t)) eqn:E2.
      * apply N.eqb_eq in E2. subst k. split; [intros HN; exfalso; apply HN; destruct t; reflexivity|]. split; [intros X; contradiction | discriminate].
      * split; [reflexivity | tauto].
    + destruct (jt s id) as [l|]; [right; exists l, l; repeat split; auto | left; auto].
  - rewrite jv_jt, E, N.eqb_refl. cbn [option_map]. rewrite jt_find_set, N.eqb_refl. reflexivity.
Qed.

(** * The functions of the job layer *)
Lemma check_termination_chg s jid s' : check_termination s jid = Ok s' -> hq_chg (fun _ => False) (hq_of s) (hq_of s').
Proof.
  intros H. destruct (check_termination_jt _ _ _ H) as [_ J]. apply jt_same_chg; [|exact J].
  unfold check_termination in H. apply bind_ok in H. destruct H as (j & _ & H). apply bind_ok in H. destruct H as (na & _ & H).
  destruct na; [destruct (j_open j)|]; inversion H; subst; reflexivity.
Qed.

Lemma process_task_started_chg s t i ws rv s' : process_task_started s t i ws rv = Ok s' ->
  hq_chg (eq t) (hq_of s) (hq_of s') /\
  (jv (hq_of s) t = Some (Some JW) \/ jv (hq_of s) t = Some (Some JR) -> jv (hq_of s') t = Some (Some JR)).
Proof.
  unfold process_task_started. intros H. apply bind_ok in H. destruct H as (j & Hj & H).
  destruct (jt_get _ _ _ _ Hj) as [Ej Eid].
  destruct (jt_find (j_tasks j) (snd t)) as [v|] eqn:Ef; [|discriminate]. inversion H; subst s'. clear H.
  assert (Hv : jv (hq_of s) t = Some (Some v)) by (rewrite jv_jt, Ej; cbn; rewrite Ef; reflexivity).
  destruct v.
  - destruct (set_one_chg s (emit (hq_set_job s (job_upd j (jt_set (j_tasks j) (snd t) JR) (j_nrun j + 1) (j_nfin j) (j_nfail j) (j_ncanc j) (j_nabort j) (j_completed j))) (OEv (EvStarted t i ws rv)))
                          t j (jt_set (j_tasks j) (snd t) JR) JR eq_refl Ej) as [A B]; [congruence | reflexivity | |].
    + intros id. rewrite jt_emit, jt_set_job. cbn [j_id job_upd j_tasks]. rewrite Eid. reflexivity.
    + split; [exact A | intros _; exact B].
  - split.
    + eapply hq_chg_weaken; [|apply jt_same_chg; [reflexivity|]]; [intros t0 []|].
      intros id. rewrite jt_emit, jt_set_job. destruct (N.eqb id (j_id j)) eqn:E; [apply N.eqb_eq in E; subst id; rewrite Eid; symmetry; exact Ej | reflexivity].
    + intros _. rewrite jv_jt, jt_emit, jt_set_job, Eid, N.eqb_refl. cbn. rewrite Ef. reflexivity.
  - split; [|rewrite Hv; intros [X|X]; discriminate]. eapply hq_chg_weaken; [|apply jt_same_chg; [reflexivity|]]; [intros t0 []|].
    intros id. rewrite jt_emit, jt_set_job. destruct (N.eqb id (j_id j)) eqn:E; [apply N.eqb_eq in E; subst id; rewrite Eid; symmetry; exact Ej | reflexivity].
  - split; [|rewrite Hv; intros [X|X]; discriminate]. eapply hq_chg_weaken; [|apply jt_same_chg; [reflexivity|]]; [intros t0 []|].
    intros id. rewrite jt_emit, jt_set_job. destruct (N.eqb id (j_id j)) eqn:E; [apply N.eqb_eq in E; subst id; rewrite Eid; symmetry; exact Ej | reflexivity].
  - split; [|rewrite Hv; intros [X|X]; discriminate]. eapply hq_chg_weaken; [|apply jt_same_chg; [reflexivity|]]; [intros t0 []|].
    intros id. rewrite jt_emit, jt_set_job. destruct (N.eqb id (j_id j)) eqn:E; [apply N.eqb_eq in E; subst id; rewrite Eid; symmetry; exact Ej | reflexivity].
  - split; [|rewrite Hv; intros [X|X]; discriminate]. eapply hq_chg_weaken; [|apply jt_same_chg; [reflexivity|]]; [intros t0 []|].
    intros id. rewrite jt_emit, jt_set_job. destruct (N.eqb id (j_id j)) eqn:E; [apply N.eqb_eq in E; subst id; rewrite Eid; symmetry; exact Ej | reflexivity].
Qed.

Lemma process_task_finished_chg s t s' : process_task_finished s t = Ok s' ->
  jv (hq_of s) t = Some (Some JR) /\ hq_chg (eq t) (hq_of s) (hq_of s').
Proof.
  unfold process_task_finished. intros H. apply bind_ok in H. destruct H as (j & Hj & H).
  destruct (jt_get _ _ _ _ Hj) as [Ej Eid].
  destruct (jt_find (j_tasks j) (snd t)) as [v|] eqn:Ef; [|discriminate]. destruct v; try discriminate.
  apply bind_ok in H. destruct H as (nr & _ & H).
  split; [rewrite jv_jt, Ej; cbn; rewrite Ef; reflexivity|].
  pose proof (check_termination_chg _ _ _ H) as C.
  eapply hq_chg_trans; [|eapply hq_chg_weaken; [|exact C]; intros t0 []].
  match type of H with check_termination ?s1 _ = _ =>
    destruct (set_one_chg s s1 t j (jt_set (j_tasks j) (snd t) JF) JF eq_refl Ej) as [A _]; [congruence | reflexivity | | exact A] end.
  intros id. rewrite jt_emit, jt_set_job. cbn [j_id job_upd j_tasks]. rewrite Eid. reflexivity.
Qed.

Lemma mark_tasks_found target site ids : forall j j', mark_tasks j ids target site = Ok j' ->
  forall t, In t ids -> jt_find (j_tasks j) (snd t) <> None.
Proof.
  induction ids as [|t0 r IH]; cbn [mark_tasks]; intros j j' H t Hin; [destruct Hin|].
  destruct (negb (N.eqb (fst t0) (j_id j))); [discriminate|].
  destruct (jt_find (j_tasks j) (snd t0)) as [v|] eqn:Ef; [|discriminate].
  destruct Hin as [<-|Hin]; [congruence|].
  assert (Hstep : forall j1, j_tasks j1 = jt_set (j_tasks j) (snd t0) target -> mark_tasks j1 r target site = Ok j' ->
            jt_find (j_tasks j) (snd t) <> None).
  { intros j1 Ht H1. pose proof (IH _ _ H1 t Hin) as Hn. rewrite Ht, jt_find_set in Hn.
    destruct (N.eqb (snd t) (snd t0)) eqn:E; [apply N.eqb_eq in E; rewrite E; congruence | exact Hn]. }
  destruct v; try discriminate.
  - eapply Hstep; [|exact H]. reflexivity.
  - apply bind_ok in H. destruct H as (nr & _ & H). eapply Hstep; [|exact H]. reflexivity.
Qed.

Lemma abort_tasks_chg s jid ids s' : abort_tasks s jid ids = Ok s' -> hq_chg (fun y => In y ids) (hq_of s) (hq_of s').
Proof.
  unfold abort_tasks. destruct ids as [|i0 ir] eqn:Eids; [intros H; inversion H; subst; apply hq_chg_refl|].
  rewrite <- Eids. intros H. apply bind_ok in H. destruct H as (j & Hj & H). apply bind_ok in H. destruct H as (j1 & Hm & H).
  destruct (jt_get _ _ _ _ Hj) as [Ej Eid].
  destruct (mark_tasks_find _ _ _ _ _ Hm) as (M1 & M2 & M3). pose proof (mark_tasks_found _ _ _ _ _ Hm) as M4.
  pose proof (check_termination_chg _ _ _ H) as C. destruct (check_termination_jt _ _ _ H) as [_ J1].
  eapply hq_chg_trans; [|eapply hq_chg_weaken; [|exact C]; intros t0 []].
  match type of H with check_termination ?s1 _ = _ => apply (hq_chg_of_jt _ s s1); [reflexivity|] end.
  intros id. rewrite jt_emit, jt_set_job. cbn [j_id job_upd j_tasks]. rewrite M1, Eid.
  destruct (N.eqb id jid) eqn:E1.
  - apply N.eqb_eq in E1. subst id. right. exists (j_tasks j), (j_tasks j1). split; [exact Ej|]. split; [reflexivity|].
    rewrite Eid in M2. intros k. rewrite M3. pose proof (snd_mem_in k ids jid M2) as Hmem.
    destruct (snd_mem k ids) eqn:Em.
    + split; [intros HN; exfalso; apply HN; apply Hmem; reflexivity|].
      assert (Hin : In (jid, k) ids) by (apply Hmem; reflexivity). pose proof (M4 _ Hin) as Hf. cbn in Hf.
      split; [intros X; contradiction | discriminate].
    + split; [reflexivity | tauto].
  - destruct (jt s id) as [l|]; [right; exists l, l; repeat split; auto | left; auto].
Qed.

Lemma process_task_failed_chg s t aborted k s' ids : process_task_failed s t aborted k = Ok (s', ids) ->
  hq_chg (fun y => y = t \/ In y aborted \/ In y ids) (hq_of s) (hq_of s').
Proof.
  unfold process_task_failed. intros H.
  apply bind_ok in H. destruct H as (s1 & H1 & H). apply bind_ok in H. destruct H as (j & Hj & H).
  apply bind_ok in H. destruct H as (j1 & Hj1 & H). apply bind_ok in H. destruct H as (s2 & H2 & H).
  apply bind_ok in H. destruct H as (j2 & Hj2 & H).
  destruct (jt_get _ _ _ _ Hj) as [Ej Eid].
  assert (A1 : hq_chg (fun y => y = t \/ In y aborted \/ In y ids) (hq_of s) (hq_of s1)).
  { eapply hq_chg_weaken; [|eapply abort_tasks_chg; exact H1]. cbv beta. auto. }
  assert (A2 : hq_chg (fun y => y = t \/ In y aborted \/ In y ids) (hq_of s1) (hq_of s2)).
  { pose proof (check_termination_chg _ _ _ H2) as C.
    eapply hq_chg_trans; [|eapply hq_chg_weaken; [|exact C]; intros t0 []].
    destruct (jt_find (j_tasks j) (snd t)) as [v|] eqn:Ef; [|discriminate].
    assert (Hj1' : j_id j1 = j_id j /\ j_tasks j1 = jt_set (j_tasks j) (snd t) JX).
    { destruct v; try discriminate; [inversion Hj1; subst; split; reflexivity|].
      apply bind_ok in Hj1. destruct Hj1 as (nr & _ & Hj1). inversion Hj1; subst; split; reflexivity. }
    destruct Hj1' as [I1 I2].
    match type of H2 with check_termination ?sx _ = _ =>
      destruct (set_one_chg s1 sx t j (jt_set (j_tasks j) (snd t) JX) JX eq_refl Ej) as [A _]; [congruence | reflexivity | |] end.
    - intros id. rewrite jt_emit, jt_set_job, I1, I2, Eid. reflexivity.
    - eapply hq_chg_weaken; [|exact A]. cbv beta. intros y <-. left. reflexivity. }
  assert (A12 := hq_chg_trans _ _ _ _ A1 A2).
  destruct (j_maxfails j2) as [mf|]; [|inversion H; subst; exact A12].
  destruct (N.ltb mf (j_nfail j2)); [|inversion H; subst; exact A12].
  apply bind_ok in H. destruct H as (s3 & H3 & H). inversion H; subst.
  eapply hq_chg_trans; [exact A12|]. eapply hq_chg_weaken; [|eapply abort_tasks_chg; exact H3]. cbv beta. auto.
Qed.

(** * Core frames: the visible tasks of the new core are tasks of the old core with the same view data *)
Record CF (X : tid -> bool) (c c' : core) : Prop := mkCF {
  cf_sorted : tsorted c -> tsorted c';
  cf_rqs : c_rqs c' = c_rqs c;
  cf_red : forall r, In r (c_redirects c') -> In r (c_redirects c);
  cf_tasks : forall y t', find_task (c_tasks c') y = Some t' -> X y = false ->
             exists t, find_task (c_tasks c) y = Some t /\ nstate (t_state t') = nstate (t_state t) /\ t_rq t' = t_rq t;
  cf_sub : forall y t', find_task (c_tasks c') y = Some t' -> find_task (c_tasks c) y <> None
}.

Lemma CF_refl X c : CF X c c.
Proof. constructor; auto. - intros y t' H _. exists t'. auto. - intros y t' H. congruence. Qed.
Lemma CF_trans X a b c : CF X a b -> CF X b c -> CF X a c.
Proof.
  intros [A1 A2 A3 A4 A5] [B1 B2 B3 B4 B5]. constructor; auto; try congruence.
  - intros y t' H HX. destruct (B4 _ _ H HX) as (t1 & H1 & E1 & E2). destruct (A4 _ _ H1 HX) as (t0 & H0 & F1 & F2).
    exists t0. repeat split; congruence.
  - intros y t' H. destruct (find_task (c_tasks b) y) as [t1|] eqn:E; [eapply A5; exact E | exfalso; exact (B5 _ _ H E)].
Qed.
Lemma CF_tasks_same X c c' : c_tasks c' = c_tasks c -> c_rqs c' = c_rqs c -> (forall r, In r (c_redirects c') -> In r (c_redirects c)) -> CF X c c'.
Proof.
  intros Et Er Hr. constructor; auto.
  - unfold tsorted. rewrite Et. auto.
  - intros y t' H _. rewrite Et in H. exists t'. auto.
  - intros y t' H. rewrite Et in H. congruence.
Qed.

Lemma SP_CF X X' s pum pd c' : SP X s pum pd -> CF X' (core_of s) c' -> (forall y, X' y = false -> X y = false) -> SP X' (st_core s c') pum pd.
Proof.
  intros H [C1 C2 C3 C4 C5] HX. apply (SP_core X X' s pum pd c' H); auto.
  - apply C1. exact (sp_cs _ _ _ _ H).
  - intros y t' Hy HX'. destruct (C4 _ _ Hy HX') as (t & A & B & C). exists t. repeat split; auto.
Qed.

Lemma del_redirect_in rs t r : In r (del_redirect rs t) -> In r rs.
Proof.
  induction rs as [|[k v] rest IH]; cbn [del_redirect]; [auto|]. destruct (tid_eqb t k); [intros H; right; exact H|].
  intros [H|H]; [left; exact H | right; apply IH; exact H].
Qed.

(** updating a task without changing its view data (or a hidden task) *)
Lemma CF_upd_task X c t t' : find_task (c_tasks c) (t_id t') = Some t ->
  (X (t_id t') = false -> nstate (t_state t') = nstate (t_state t) /\ t_rq t' = t_rq t) -> CF X c (upd_task c t').
Proof.
  intros Hf Hs. constructor; cbn [upd_task with_tasks c_tasks c_rqs c_redirects]; auto.
  - unfold tsorted. cbn [upd_task with_tasks c_tasks]. apply set_task_sorted.
  - intros y t1 H HX. rewrite find_set_task in H. destruct (tid_eqb y (t_id t')) eqn:E.
    + apply tid_eqb_eq in E. subst y. inversion H; subst t1. exists t. destruct (Hs HX). auto.
    + exists t1. auto.
  - intros y t1 H. rewrite find_set_task in H. destruct (tid_eqb y (t_id t')) eqn:E; [apply tid_eqb_eq in E; subst y; congruence | congruence].
Qed.

Lemma CF_del_task X c id : tsorted c -> CF X c (with_tasks c (del_task (c_tasks c) id)).
Proof.
  intros Hs. constructor; cbn [with_tasks c_tasks c_rqs c_redirects]; auto.
  - intros _. unfold tsorted. cbn [with_tasks c_tasks]. apply del_task_sorted. exact Hs.
  - intros y t' H _. rewrite (find_del_task _ _ _ Hs) in H. destruct (tid_eqb y id); [discriminate|]. exists t'. auto.
  - intros y t' H. rewrite (find_del_task _ _ _ Hs) in H. destruct (tid_eqb y id); [discriminate | congruence].
Qed.

(** [remove_consumer_from] only edits consumer lists *)
Lemma rcf_find deps : forall ts cid ts', remove_consumer_from ts deps cid = Ok ts' ->
  (StronglySorted tlt (map t_id ts) -> StronglySorted tlt (map t_id ts')) /\
  forall y, (find_task ts' y = None <-> find_task ts y = None) /\
            forall t', find_task ts' y = Some t' -> exists t, find_task ts y = Some t /\ t_state t' = t_state t /\ t_rq t' = t_rq t.
Proof.
  induction deps as [|d r IH]; cbn [remove_consumer_from]; intros ts cid ts' H.
  - inversion H; subst. split; [auto|]. intros y. split; [tauto|]. intros t' Ht. exists t'. auto.
  - destruct (find_task ts d) as [input|] eqn:Ef; [|eapply IH; exact H].
    destruct (tid_mem cid (t_consumers input)); [|discriminate].
    destruct (IH _ _ _ H) as [S1 F1]. destruct (find_task_some _ _ _ Ef) as [_ Eid]. split.
    + intros Hs. apply S1. apply set_task_sorted. exact Hs.
    + intros y. destruct (F1 y) as [N1 T1]. rewrite find_set_task in N1, T1. cbn [with_consumers t_id] in N1, T1. rewrite Eid in N1, T1.
      destruct (tid_eqb y d) eqn:E.
      * apply tid_eqb_eq in E. subst y. split; [rewrite N1, Ef; split; discriminate|].
        intros t' Ht. destruct (T1 _ Ht) as (t0 & E0 & A & B). inversion E0; subst t0. exists input. auto.
      * split; [exact N1 | exact T1].
Qed.

Lemma remove_task_CF X c id c' stt : tsorted c -> remove_task c id = Ok (c', stt) ->
  CF X c c' /\ find_task (c_tasks c') id = None /\ exists t, find_task (c_tasks c) id = Some t /\ stt = t_state t.
Proof.
  intros Hs H. unfold remove_task in H. destruct (find_task (c_tasks c) id) as [t|] eqn:Ef; [|discriminate].
  set (c1 := with_tasks c (del_task (c_tasks c) id)) in *.
  assert (F1 : CF X c c1) by (apply CF_del_task; exact Hs).
  assert (N1 : find_task (c_tasks c1) id = None) by (cbn [c1 with_tasks c_tasks]; rewrite (find_del_task _ _ _ Hs), tid_eqb_refl; reflexivity).
  assert (Hq : forall qs, CF X c1 (with_queues c1 qs) /\ find_task (c_tasks (with_queues c1 qs)) id = None).
  { intros qs. split; [apply CF_tasks_same; auto | exact N1]. }
  destruct (t_state t) as [n| | | | | |] eqn:Est;
    try (inversion H; subst; split; [exact F1 | split; [exact N1 | exists t; split; [reflexivity | symmetry; exact Est]]]).
  apply bind_ok in H. destruct H as (c2 & H2 & H).
  assert (F2 : CF X c c2 /\ find_task (c_tasks c2) id = None).
  { destruct (N.eqb n 0).
    - apply bind_ok in H2. destruct H2 as (q & _ & H2). apply bind_ok in H2. destruct H2 as (q' & _ & H2). inversion H2; subst.
      destruct (Hq (set_queue (c_queues c1) (N.to_nat (t_rq t)) q')) as [A B]. split; [eapply CF_trans; eassumption | exact B].
    - inversion H2; subst. split; assumption. }
  destruct F2 as [F2 N2].
  destruct (N.ltb 0 n).
  - apply bind_ok in H. destruct H as (ts & Hr & H). inversion H; subst. destruct (rcf_find _ _ _ _ Hr) as [S3 F3].
    split; [|split; [|exists t; split; [reflexivity | symmetry; exact Est]]].
    + eapply CF_trans; [exact F2|]. constructor; cbn [with_tasks c_tasks c_rqs c_redirects]; auto.
      * intros y t' Ht _. destruct (proj2 (F3 y) _ Ht) as (t0 & E0 & A & B). exists t0. rewrite A. auto.
      * intros y t' Ht E. apply (proj1 (F3 y)) in E. congruence.
    + cbn [with_tasks c_tasks]. apply (proj1 (F3 id)). exact N2.
  - inversion H; subst. split; [exact F2 | split; [exact N2 | exists t; split; [reflexivity | symmetry; exact Est]]].
Qed.

Lemma CF_sorted_after X c c' : CF X c c' -> tsorted c -> tsorted c'.
Proof. intros [A _ _ _ _]. exact A. Qed.

Lemma remove_waiting_consumers_CF X l : forall c c', tsorted c -> remove_waiting_consumers c l = Ok c' ->
  CF X c c' /\ forall x, In x l -> find_task (c_tasks c') x = None.
Proof.
  induction l as [|x r IH]; cbn [remove_waiting_consumers]; intros c c' Hs H; [inversion H; subst; split; [apply CF_refl | intros x []]|].
  apply bind_ok in H. destruct H as ([c1 stt] & H1 & H). destruct (remove_task_CF X _ _ _ _ Hs H1) as (F1 & N1 & _).
  destruct stt; try discriminate. destruct (IH _ _ (CF_sorted_after _ _ _ F1 Hs) H) as [F2 N2].
  split; [eapply CF_trans; eassumption|]. intros y [<-|Hy]; [|apply N2; exact Hy].
  destruct (find_task (c_tasks c') x) as [t'|] eqn:E; [|reflexivity]. exfalso. exact (cf_sub _ _ _ F2 _ _ E N1).
Qed.

Lemma remove_tasks_batched_CF X l : forall c c', tsorted c -> remove_tasks_batched c l = Ok c' ->
  CF X c c' /\ forall x, In x l -> find_task (c_tasks c') x = None.
Proof.
  induction l as [|x r IH]; cbn [remove_tasks_batched]; intros c c' Hs H; [inversion H; subst; split; [apply CF_refl | intros x []]|].
  apply bind_ok in H. destruct H as ([c1 stt] & H1 & H). destruct (remove_task_CF X _ _ _ _ Hs H1) as (F1 & N1 & _).
  destruct (IH _ _ (CF_sorted_after _ _ _ F1 Hs) H) as [F2 N2].
  split; [eapply CF_trans; eassumption|]. intros y [<-|Hy]; [|apply N2; exact Hy].
  destruct (find_task (c_tasks c') x) as [t'|] eqn:E; [|reflexivity]. exfalso. exact (cf_sub _ _ _ F2 _ _ E N1).
Qed.

Lemma try_remove_redirection_CF X c t c' : try_remove_redirection c t = Ok c' -> CF X c c'.
Proof.
  unfold try_remove_redirection. intros H. destruct (find_redirect (c_redirects c) (t_id t)) as [[w rv]|].
  - apply bind_ok in H. destruct H as (wk & _ & H). apply bind_ok in H. destruct H as (rq & _ & H). apply bind_ok in H. destruct H as (wk' & _ & H).
    inversion H; subst. apply CF_tasks_same; auto. cbn. intros r. apply del_redirect_in.
  - apply bind_ok in H. destruct H as (q & _ & H). apply bind_ok in H. destruct H as (q' & _ & H). inversion H; subst. apply CF_tasks_same; auto.
Qed.

Lemma reset_mn_workers_CF X ws : forall c id c', reset_mn_workers c ws id = Ok c' -> CF X c c'.
Proof.
  induction ws as [|w r IH]; cbn [reset_mn_workers]; intros c id c' H; [inversion H; subst; apply CF_refl|].
  apply bind_ok in H. destruct H as (wk & _ & H). destruct (w_assign wk); [discriminate|]. destruct (tid_eqb t id); [|discriminate].
  eapply CF_trans; [|eapply IH; exact H]. apply CF_tasks_same; auto.
Qed.
Lemma reset_mn_all_CF X ws : forall c c', reset_mn_all c ws = Ok c' -> CF X c c'.
Proof.
  induction ws as [|w r IH]; cbn [reset_mn_all]; intros c c' H; [inversion H; subst; apply CF_refl|].
  apply bind_ok in H. destruct H as (wk & _ & H). eapply CF_trans; [|eapply IH; exact H]. apply CF_tasks_same; auto.
Qed.

Lemma wake_consumers_CF X csm : forall c ret c' ret', wake_consumers c csm ret = Ok (c', ret') -> CF X c c'.
Proof.
  induction csm as [|x r IH]; cbn [wake_consumers]; intros c ret c' ret' H; [inversion H; subst; apply CF_refl|].
  apply bind_ok in H. destruct H as (t & Ht & H). unfold get_task in Ht. destruct (find_task (c_tasks c) x) as [t0|] eqn:Ef; [|discriminate]. inversion Ht; subst t0.
  destruct (find_task_some _ _ _ Ef) as [_ Eid].
  destruct (t_state t) as [n| | | | | |] eqn:Est; try discriminate. destruct (N.eqb n 0); [discriminate|].
  assert (F1 : CF X c (upd_task c (with_state t (Waiting (n - 1))))).
  { apply (CF_upd_task X c t); [cbn [with_state t_id]; rewrite Eid; exact Ef|]. intros _. cbn [with_state t_state t_rq]. rewrite Est. split; reflexivity. }
  destruct (N.eqb (n - 1) 0).
  - apply bind_ok in H. destruct H as ([qs ret1] & _ & H). eapply CF_trans; [exact F1|]. eapply CF_trans; [|eapply IH; exact H]. apply CF_tasks_same; auto.
  - eapply CF_trans; [exact F1 | eapply IH; exact H].
Qed.
