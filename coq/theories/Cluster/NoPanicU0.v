(** The joint server / worker protocol invariant, as an EXECUTABLE predicate [proto_ok : sys -> bool]
    (with [proto_why] listing the violated conjuncts).

    Idea.  Fix a connected worker process [p] (id [w]) and a task [t] that is PRESENT in the core.
    Everything the system holds about [t] "in flight to, at, or in flight from" [w] is collected in
    causal order in a WORD  U . L . D :
      U = the pending worker->server items naming [t] in [p_up p], oldest first
          (finished / failed / running / running-prefilled / reject / retract-response),
      L = the local status of [t] in the process (nothing / in the backlog / running),
      D = the pending server->worker items naming [t] in [p_down p], oldest first
          (compute with its variant / retract / cancel).
    The server's state of [t], seen from [w], is a VIEW (not here / assigned rv / prefilled /
    retracting / running / multi-node root).  The invariant says: the word belongs to the (finite,
    explicitly enumerated) LANGUAGE of the view.  The languages are closed under the four kinds of
    moves of the system: the server consumes the first U item, the server appends a D item (with a
    change of view), the worker consumes the first D item, the worker ends / starts a task.  Every
    consistency assertion of reactor.rs (sites 172-179) is "the first U item is not in the language
    of the view".

    Tasks that are not present in the core (finished, failed, cancelled) may have stale
    occurrences; the server ignores messages about unknown tasks and the worker ignores
    cancel / retract of tasks it does not have.  For them the invariant only says that the id has
    been SEEN by the job layer, so that it can never be submitted again ([occ_seen]).

    Further conjuncts: the request table of a worker plus the NewRq messages in flight is the
    table of the server (sites 300, 302), variants are 0 (site 301), the worker's three maps
    running / allocations / futures have the same sorted key set (site 303), multi-node request
    classes ask for no resource amounts and multi-node placements are made for multi-node request
    classes only (otherwise a multi-node root could reject, site 179). *)
From HQ Require Import Base.Prelude Cluster.Types Cluster.Core Cluster.Reactor Cluster.Worker Cluster.Server Cluster.Sys.
From Coq Require Import ZArith.
Local Open Scope N_scope.

(** * Items *)
Inductive uitem :=
| IFin
| IFail (k : failkind)
| IRun (prefilled : bool) (rv : N)
| IRej (rv : option N)
| IRR.                           (* the task is named in a retract response *)
Inductive ditem :=
| IDC (rv : option N) (mn : bool) (* compute entry; None = prefill form; mn = it carries a node list *)
| IDRet
| IDCan.
Inductive litem := LNone | LBack | LRun (rv : N) | LBad.

Definition sel {A} (x t : tid) (a : A) : list A := if tid_eqb x t then [a] else [].
Definition is_nil {A} (l : list A) : bool := match l with [] => true | _ => false end.

Definition uitem_of (t : tid) (u : wupdate) : list uitem :=
  match u with
  | UFinished x => sel x t IFin
  | UFailed x k => sel x t (IFail k)
  | URunning x rv => sel x t (IRun false rv)
  | URunningPrefilled x rv => sel x t (IRun true rv)
  | UReject x rv => sel x t (IRej rv)
  | UEnable _ _ => []
  end.
Definition uitems_msg (t : tid) (m : umsg) : list uitem :=
  match m with
  | UUpdates us => flat_map (uitem_of t) us
  | URetractResponse ids => flat_map (fun x => sel x t IRR) ids
  end.
Definition uitems (t : tid) (up : list umsg) : list uitem := flat_map (uitems_msg t) up.

Definition ditems_msg (t : tid) (m : dmsg) : list ditem :=
  match m with
  | DCompute ts => flat_map (fun ct => sel (ct_id ct) t (IDC (ct_rv ct) (negb (is_nil (ct_nodes ct))))) ts
  | DRetract ids => flat_map (fun x => sel x t IDRet) ids
  | DCancel ids => flat_map (fun x => sel x t IDCan) ids
  | _ => []
  end.
Definition ditems (t : tid) (down : list dmsg) : list ditem := flat_map (ditems_msg t) down.

(** Number of occurrences of [t] in the backlog. *)
Definition bl_count (t : tid) (b : list (N * list wtask)) : nat :=
  length (flat_map (fun kv => filter (fun x => tid_eqb (wt_id x) t) (snd kv)) b).

Definition local (p : wproc) (t : tid) : litem :=
  match run_find (p_running p) t, bl_count t (p_backlog p) with
  | None, O => LNone
  | None, S O => LBack
  | Some rv, O => LRun rv
  | _, _ => LBad
  end.

(** * Views *)
(** [VM jr]: root of a multi-node task; the server state does not change when the running message is
    consumed, but the job layer's does ([jr] = the job layer shows the task Running). *)
Inductive view := VN | VA (rv : N) | VP | VT | VR (rv : N) | VM (jr : bool).

Definition view_of (st : tstate) (w : wid) (jr : bool) : view :=
  match st with
  | Assigned w1 rv => if N.eqb w1 w then VA rv else VN
  | Prefilled w1 => if N.eqb w1 w then VP else VN
  | Retracting w1 => if N.eqb w1 w then VT else VN
  | Running w1 rv => if N.eqb w1 w then VR rv else VN
  | RunningMN (w0 :: _) => if N.eqb w0 w then VM jr else VN
  | _ => VN
  end.

(** * Languages *)

(** started by the worker, the running message not yet consumed by the server *)
Definition is_started (pre : bool) (chk : N -> bool) (U : list uitem) (L : litem) : bool :=
  match U, L with
  | [IRun b rv], (LRun _ | LNone) => Bool.eqb b pre && chk rv
  | [IRun b rv; (IFin | IFail _)], LNone => Bool.eqb b pre && chk rv
  | _, _ => false
  end.
(** the running message has been consumed *)
Definition is_consumed (U : list uitem) (L : litem) : bool :=
  match U, L with
  | [], (LRun _ | LNone) => true
  | [(IFin | IFail _)], LNone => true
  | _, _ => false
  end.
(** the launch failed *)
Definition is_failed (U : list uitem) (L : litem) : bool :=
  match U, L with
  | [IFail _], LNone => true
  | _, _ => false
  end.
Definition is_lnone (L : litem) : bool := match L with LNone => true | _ => false end.
Definition is_lback (L : litem) : bool := match L with LBack => true | _ => false end.
Definition any_rv (_ : N) : bool := true.
Definition nil_or_ret (D : list ditem) : bool := match D with [] | [IDRet] => true | _ => false end.

Definition lang (v : view) (U : list uitem) (L : litem) (D : list ditem) : bool :=
  match v with
  | VN => is_nil U && is_lnone L && is_nil D
  | VA rv =>
      (is_nil U && is_lnone L && match D with [IDC (Some rv') false] => N.eqb rv' rv | _ => false end)
      || (is_nil D && (is_started false (N.eqb rv) U L || is_failed U L
                       || (is_lnone L && match U with [IRej (Some rv')] => N.eqb rv' rv | _ => false end)))
  | VP =>
      (is_nil U && is_lnone L && match D with [IDC None false] => true | _ => false end)
      || (is_nil U && is_lback L && is_nil D)
      || (is_nil D && (is_started true any_rv U L || is_failed U L))
  | VT =>
      (is_nil U && is_lnone L && match D with [IDC None false; IDRet] => true | _ => false end)
      || (is_nil U && is_lback L && match D with [IDRet] => true | _ => false end)
      || (nil_or_ret D && (is_started true any_rv U L || is_failed U L))
      || (is_lnone L && is_nil D && match U with [IRR] => true | _ => false end)
  | VR _ => is_consumed U L && nil_or_ret D
  | VM false =>
      (is_nil U && is_lnone L && match D with [IDC (Some rv') true] => N.eqb rv' 0 | _ => false end)
      || (is_nil D && (is_started false (N.eqb 0) U L || is_failed U L))
  | VM true => is_nil D && is_consumed U L
  end.

(** * The conjuncts *)

(** The job layer shows the task Running. *)
Definition job_running (h : hq) (t : tid) : bool :=
  match find_job (h_jobs h) (fst t) with
  | Some j => match jt_find (j_tasks j) (snd t) with Some JR => true | _ => false end
  | None => false
  end.

(** (1) every present task, at every process *)
Definition task_at_ok (h : hq) (p : wproc) (t : task) : bool :=
  lang (view_of (t_state t) (p_id p) (job_running h (t_id t)))
       (uitems (t_id t) (p_up p)) (local p (t_id t)) (ditems (t_id t) (p_down p)).
Definition words_ok (s : sys) (p : wproc) : bool := forallb (task_at_ok (s_hq s) p) (c_tasks (s_core s)).

(** (7) the job layer shows a task Running exactly when the server has consumed its running message
    (site 202): always for [Running], never for the states before; for a multi-node task the
    language of its root decides. *)
Definition jr_ok (h : hq) (t : task) : bool :=
  match t_state t with
  | Running _ _ => job_running h (t_id t)
  | RunningMN _ => true
  | _ => negb (job_running h (t_id t))
  end.

(** (8) variants are 0 in the core, too (they are sent to the workers later) *)
Definition rv_ok (c : core) : bool :=
  forallb (fun t => match t_state t with Assigned _ rv => N.eqb rv 0 | _ => true end) (c_tasks c)
  && forallb (fun r => N.eqb (snd (snd r)) 0) (c_redirects c).

(** (2) the request table: walking the down channel with the table size, every NewRq announces
    the next index (302), every compute entry with a variant names variant 0 (301) and a known
    request (300), every compute entry with a node list names a class without resource amounts
    (so that the multi-node root never rejects it, 179); the worker's table followed by the
    announced definitions is the server's. *)
Definition zero_res (r : rqdef) : bool := forallb (N.eqb 0) (rq_res r).
Definition ct_ok (rqs : list rqdef) (n : N) (ct : ctask) : bool :=
  match ct_rv ct with Some rv => N.eqb rv 0 && N.ltb (ct_rq ct) n | None => true end
  && (is_nil (ct_nodes ct)
      || match nth_error rqs (N.to_nat (ct_rq ct)) with Some r => zero_res r | None => false end).
Fixpoint down_ok (rqs : list rqdef) (n : N) (d : list dmsg) : bool :=
  match d with
  | [] => true
  | DNewRq rq _ :: r => N.eqb rq n && down_ok rqs (n + 1) r
  | DCompute ts :: r => forallb (ct_ok rqs n) ts && down_ok rqs n r
  | _ :: r => down_ok rqs n r
  end.
Definition newrq_defs (d : list dmsg) : list rqdef :=
  flat_map (fun m => match m with DNewRq _ def => [def] | _ => [] end) d.
Fixpoint rqs_eqb (a b : list rqdef) : bool :=
  match a, b with
  | [], [] => true
  | x :: a', y :: b' => rq_eqb x y && rqs_eqb a' b'
  | _, _ => false
  end.
Definition rqs_ok (c : core) (p : wproc) : bool :=
  down_ok (c_rqs c) (N.of_nat (length (p_rqs p))) (p_down p) && rqs_eqb (p_rqs p ++ newrq_defs (p_down p)) (c_rqs c).

(** (3) worker-local maps *)
Fixpoint tids_sorted (l : list tid) : bool :=
  match l with
  | a :: (b :: _) as r => tid_ltb a b && tids_sorted r
  | _ => true
  end.
Fixpoint ns_sorted (l : list N) : bool :=
  match l with
  | a :: (b :: _) as r => N.ltb a b && ns_sorted r
  | _ => true
  end.
Fixpoint tids_eqb (a b : list tid) : bool :=
  match a, b with
  | [], [] => true
  | x :: a', y :: b' => tid_eqb x y && tids_eqb a' b'
  | _, _ => false
  end.
Definition local_ok (p : wproc) : bool :=
  tids_sorted (map fst (p_running p))
  && tids_eqb (map fst (p_futures p)) (map fst (p_running p))
  && tids_eqb (map fst (p_alloc p)) (map fst (p_running p))
  && forallb (fun kv => negb (is_nil (snd kv))) (p_alloc p)
  && ns_sorted (map fst (p_backlog p)).

(** (4) every task id occurring in a process or its channels has been seen by the job layer *)
Definition seen (h : hq) (t : tid) : bool :=
  N.ltb (fst t) (h_counter h)
  && match find_job (h_jobs h) (fst t) with
     | Some j => match jt_find (j_tasks j) (snd t) with Some _ => true | None => false end
     | None => true
     end.
Definition dmsg_tids (m : dmsg) : list tid :=
  match m with DCompute ts => map ct_id ts | DRetract ids | DCancel ids => ids | _ => [] end.
Definition wupdate_tids (u : wupdate) : list tid :=
  match u with
  | UFinished t | UFailed t _ | URunning t _ | URunningPrefilled t _ | UReject t _ => [t]
  | UEnable _ _ => []
  end.
Definition umsg_tids (m : umsg) : list tid :=
  match m with UUpdates us => flat_map wupdate_tids us | URetractResponse ids => ids end.
Definition proc_tids (p : wproc) : list tid :=
  flat_map dmsg_tids (p_down p) ++ flat_map umsg_tids (p_up p)
  ++ flat_map (fun kv => map wt_id (snd kv)) (p_backlog p) ++ map fst (p_running p).
Definition occ_seen (h : hq) (p : wproc) : bool := forallb (seen h) (proc_tids p).

(** (5) multi-node request classes ask for no resource amounts;
    (6) a task placed as a multi-node task has a multi-node request class, a task placed on a single
        worker has a single-node class (sites 165, 166). *)
Definition mn_rqs_ok (c : core) : bool := forallb (fun r => negb (rq_is_mn r) || zero_res r) (c_rqs c).
Definition mn_task_ok (c : core) (t : task) : bool :=
  match t_state t with
  | RunningMN _ => match nth_error (c_rqs c) (N.to_nat (t_rq t)) with Some r => rq_is_mn r | None => false end
  | Assigned _ _ | Prefilled _ | Retracting _ | Running _ _ =>
      match nth_error (c_rqs c) (N.to_nat (t_rq t)) with Some r => negb (rq_is_mn r) | None => false end
  | _ => true
  end.

Definition proto_ok (s : sys) : bool :=
  ns_sorted (map p_id (s_procs s))
  && forallb (words_ok s) (s_procs s)
  && forallb (rqs_ok (s_core s)) (s_procs s)
  && forallb local_ok (s_procs s)
  && forallb (occ_seen (s_hq s)) (s_procs s)
  && mn_rqs_ok (s_core s)
  && forallb (mn_task_ok (s_core s)) (c_tasks (s_core s))
  && forallb (jr_ok (s_hq s)) (c_tasks (s_core s))
  && rv_ok (s_core s).

(** Diagnosis: codes of the violated conjuncts.
    10 + k : a word is not in the language of view k (0 VN, 1 VA, 2 VP, 3 VT, 4 VR, 5 VM not
    reported running, 6 VM reported running);
    2 request tables, 3 local maps, 4 unseen id, 5 multi-node class with amounts,
    6 multi-node placement of a single-node class or single-node placement of a multi-node class,
    7 job layer's Running flag inconsistent with the task state, 8 a non-zero variant in the core,
    9 the process list is not sorted by id. *)
Definition view_code (v : view) : N :=
  match v with VN => 10 | VA _ => 11 | VP => 12 | VT => 13 | VR _ => 14 | VM false => 15 | VM true => 16 end.
Definition proto_why (s : sys) : list N :=
  (if ns_sorted (map p_id (s_procs s)) then [] else [9]) ++
  flat_map (fun p => flat_map (fun t => if task_at_ok (s_hq s) p t then []
                                        else [view_code (view_of (t_state t) (p_id p) (job_running (s_hq s) (t_id t)))])
                              (c_tasks (s_core s))) (s_procs s)
  ++ (if forallb (rqs_ok (s_core s)) (s_procs s) then [] else [2])
  ++ (if forallb local_ok (s_procs s) then [] else [3])
  ++ (if forallb (occ_seen (s_hq s)) (s_procs s) then [] else [4])
  ++ (if mn_rqs_ok (s_core s) then [] else [5])
  ++ (if forallb (mn_task_ok (s_core s)) (c_tasks (s_core s)) then [] else [6])
  ++ (if forallb (jr_ok (s_hq s)) (c_tasks (s_core s)) then [] else [7])
  ++ (if rv_ok (s_core s) then [] else [8]).

(** The first violation with the worker and the task (for the model runner's report). *)
Definition proto_culprits (s : sys) : list (wid * tid * N) :=
  flat_map (fun p => flat_map (fun t => if task_at_ok (s_hq s) p t then []
                                        else [(p_id p, t_id t, view_code (view_of (t_state t) (p_id p) (job_running (s_hq s) (t_id t))))])
                              (c_tasks (s_core s))) (s_procs s).

(** * The hypothesis on the operations: what the real solver / client guarantee and the model
    leaves unconstrained (both are witnesses of the harness). *)
Definition op_ok (s : sys) (o : op) : bool :=
  match o with
  | OpSched sol =>
      forallb (fun e => N.eqb (snd (fst e)) 0
                        && match nth_error (c_rqs (s_core s)) (N.to_nat (fst (fst e))) with
                           | Some r => negb (rq_is_mn r)
                           | None => false
                           end) (sol_sn sol)
      && forallb (fun e => match nth_error (c_rqs (s_core s)) (N.to_nat (fst (fst e))) with
                           | Some r => rq_is_mn r
                           | None => false
                           end) (sol_mn sol)
  | OpSubmit _ _ _ rq _ _ _ _ => negb (rq_is_mn rq) || zero_res rq
  | OpSubmitG _ rqs _ _ => forallb (fun rq => negb (rq_is_mn rq) || zero_res rq) rqs
  | _ => true
  end.

(** * Checking a whole history: [None] = [proto_ok] after every step; otherwise the index of the
    first step after which it fails, with the codes.  A step that is not [Ok] ends the check. *)
Fixpoint check_run (i : N) (s : sys) (ops : list op) : option (N * list N) :=
  match ops with
  | [] => None
  | o :: r =>
      match step s o with
      | Ok (s1, _) => if proto_ok s1 then check_run (i + 1) s1 r else Some (i, proto_why s1)
      | _ => Some (i, [99])
      end
  end.
Fixpoint ops_ok (s : sys) (ops : list op) : bool :=
  match ops with
  | [] => true
  | o :: r => op_ok s o && match step s o with Ok (s1, _) => ops_ok s1 r | _ => true end
  end.

(** * Histories *)
Definition rq1 : rqdef := mkRq 0 [1; 0; 0].
Definition sub (n : N) (prio : Z) : op := OpSubmit None [] (Some n) rq1 prio CUnl false None.

(** plain life cycle *)
Definition h_plain : list op :=
  [OpConnect [2; 0; 0] 0; sub 1 0%Z; OpSched (mkSol [(0, 0, [(1, 1)])] [] [1] []);
   OpDDown 1 []; OpDDown 1 []; OpDUp 1; OpEnd 1 (1, 0) EndOk; OpDUp 1].
Example h_plain_ok : check_run 0 (init_sys 0 2) h_plain = None /\ ops_ok (init_sys 0 2) h_plain = true.
Proof. split; vm_compute; reflexivity. Qed.

(** prefill: six tasks, two assigned, two prefilled; one running task ends and a backlog task is
    started by the worker itself; then a higher-priority task arrives and the remaining prefilled
    task is retracted; the worker gives it back. *)
Definition h_prefill : list op :=
  [OpConnect [2; 0; 0] 0; sub 6 0%Z;
   OpSched (mkSol [(0, 0, [(1, 2)])] [] [1] []);
   OpDDown 1 []; OpDDown 1 [];                  (* NewRq, Compute (2 prefill + 2 assigned) *)
   OpDUp 1;                                     (* running x 2 *)
   OpEnd 1 (1, 0) EndOk;                        (* finished + running-prefilled *)
   sub 1 5%Z;                                   (* higher priority: the prefill set is disposed *)
   OpDUp 1;
   OpDDown 1 [0];                               (* Retract *)
   OpDUp 1;                                     (* retract response *)
   OpEnd 1 (1, 1) EndOk; OpDUp 1].
Example h_prefill_ok : check_run 0 (init_sys 0 2) h_prefill = None /\ ops_ok (init_sys 0 2) h_prefill = true.
Proof. split; vm_compute; reflexivity. Qed.

(** the same, but the worker starts the retracted task before the retract arrives *)
Definition h_retract_race : list op :=
  [OpConnect [2; 0; 0] 0; sub 6 0%Z;
   OpSched (mkSol [(0, 0, [(1, 2)])] [] [1] []);
   OpDDown 1 []; OpDDown 1 []; OpDUp 1;
   sub 1 5%Z;                                   (* both prefilled tasks become Retracting *)
   OpEnd 1 (1, 0) EndOk;                        (* the worker starts one of them *)
   OpEnd 1 (1, 1) EndFail;                      (* ... and the other one *)
   OpDDown 1 [0];                               (* Retract: nothing to give back *)
   OpDUp 1; OpDUp 1; OpDUp 1;
   OpEnd 1 (1, 2) EndOk; OpEnd 1 (1, 3) EndOk; OpDUp 1; OpDUp 1].
Example h_retract_race_ok : check_run 0 (init_sys 0 2) h_retract_race = None.
Proof. vm_compute; reflexivity. Qed.

(** redirect: a prefilled task is taken by the scheduler for another worker; and a reject *)
Definition h_redirect : list op :=
  [OpConnect [2; 0; 0] 0; sub 4 0%Z;
   OpSched (mkSol [(0, 0, [(1, 2)])] [] [1] []);      (* 2 assigned, 2 prefilled on worker 1 *)
   OpConnect [1; 0; 0] 0;
   OpSched (mkSol [(0, 0, [(2, 2)])] [] [1; 2] [(0, [(1, 2); (1, 3)])]);   (* both prefilled tasks go to worker 2 (over-booked) *)
   OpDDown 1 []; OpDDown 1 []; OpDDown 1 []; OpDDown 1 [0];   (* NewRq, Compute, NewWorker, Retract *)
   OpDUp 1; OpDUp 1;                             (* running x2; retract response -> Compute to worker 2 *)
   OpDDown 2 [];                                 (* worker 2: one starts, one is rejected *)
   OpDUp 2;
   OpSched (mkSol [(0, 0, [(2, 1)])] [] [1; 2] []);
   OpDDown 2 []; OpDUp 2;
   OpEnd 2 (1, 2) EndOk; OpDUp 2].
Example h_redirect_ok : check_run 0 (init_sys 0 2) h_redirect = None.
Proof. vm_compute; reflexivity. Qed.

(** cancel while running, loss of a worker, launch failure, time limit *)
Definition h_misc : list op :=
  [OpConnect [2; 0; 0] 0; OpConnect [2; 0; 0] 0;
   OpSubmit None [] (Some 3) rq1 0%Z (CMax 2) true None;
   OpSched (mkSol [(0, 0, [(1, 2); (2, 1)])] [] [1; 2] []);
   OpFailNext 2 (1, 1);
   OpDDown 1 []; OpDDown 1 []; OpDDown 1 []; OpDDown 2 []; OpDDown 2 [];
   OpTimer;
   OpDUp 1; OpDUp 2;
   OpLost 1 1 [(1, 0); (1, 2)] [] [(1, 0); (1, 2)];
   OpSched (mkSol [(0, 0, [(2, 2)])] [] [2] []);
   OpDDown 2 []; OpDDown 2 []; OpDUp 2;
   OpCancel 1;
   OpDDown 2 []; OpEnd 2 (1, 0) EndFollowStop; OpEnd 2 (1, 2) EndOk; OpDUp 2].
Example h_misc_ok : check_run 0 (init_sys 0 2) h_misc = None.
Proof. vm_compute; reflexivity. Qed.

(** multi-node *)
Definition rqm : rqdef := mkRq 2 [0; 0; 0].
Definition h_mn : list op :=
  [OpConnect [2; 0; 0] 0; OpConnect [2; 0; 0] 0;
   OpSubmit None [] None rqm 0%Z CUnl false None;
   OpSched (mkSol [] [(0, 0, [[1; 2]])] [1; 2] []);
   OpDDown 1 []; OpDDown 1 []; OpDDown 1 []; OpDUp 1; OpEnd 1 (1, 0) EndOk; OpDUp 1].
Example h_mn_ok : check_run 0 (init_sys 0 2) h_mn = None /\ ops_ok (init_sys 0 2) h_mn = true.
Proof. split; vm_compute; reflexivity. Qed.

(** * Two panics that ARE reachable in the model when the solver's answer is unconstrained
    (both excluded by [op_ok], and by [proto_ok] one step earlier). *)

(** Site 301: the solution names variant 1 of a single-variant request; the worker indexes the
    variant list out of bounds. *)
Definition h_301 : list op :=
  [OpConnect [2; 0; 0] 0; sub 1 0%Z; OpSched (mkSol [(0, 1, [(1, 1)])] [] [1] []); OpDDown 1 []].
Example panic_301_reachable :
  exists s outs, run (init_sys 0 2) h_301 = Ok (s, outs) /\ step s (OpDDown 1 []) = Panic 301 /\ proto_ok s = false
  /\ ops_ok (init_sys 0 2) h_301 = false.
Proof.
  destruct (run (init_sys 0 2) h_301) as [[s outs]| |] eqn:E; [|vm_compute in E; discriminate | vm_compute in E; discriminate].
  exists s, outs. split; [reflexivity|]. vm_compute in E. inversion E; subst. repeat split; vm_compute; reflexivity.
Qed.

(** Site 179: a multi-node placement of a request class WITH resource amounts on a worker that the
    server considers free while a cancelled task still holds the resources on the worker: the root
    rejects the task, and [task_reject] has no case for [RunningMN]. *)
Definition rqbad : rqdef := mkRq 1 [2; 0; 0].
Definition h_179 : list op :=
  [OpConnect [2; 0; 0] 0;
   OpSubmit None [] None (mkRq 0 [2; 0; 0]) 0%Z CUnl false None;
   OpSched (mkSol [(0, 0, [(1, 1)])] [] [1] []);
   OpDDown 1 []; OpDDown 1 []; OpDUp 1;           (* task (1,0) runs on worker 1 and holds 2 cpus *)
   OpSubmit None [] None rqbad 0%Z CUnl false None;
   OpCancel 1;                                    (* the server frees worker 1 at once *)
   OpSched (mkSol [] [(1, 0, [[1]])] [1] []);     (* multi-node placement on the "free" worker *)
   OpDDown 1 []; OpDDown 1 []; OpDDown 1 []].     (* NewRq, Cancel (stop signal only), Compute -> reject *)
Example panic_179_reachable :
  exists s outs, run (init_sys 0 2) h_179 = Ok (s, outs) /\ step s (OpDUp 1) = Panic 179 /\ proto_ok s = false
  /\ ops_ok (init_sys 0 2) h_179 = false.
Proof.
  destruct (run (init_sys 0 2) h_179) as [[s outs]| |] eqn:E; [|vm_compute in E; discriminate | vm_compute in E; discriminate].
  exists s, outs. split; [reflexivity|]. vm_compute in E. inversion E; subst. repeat split; vm_compute; reflexivity.
Qed.

(** Site 166: a single-node placement of a multi-node request class; when the launch fails,
    [task_failed] looks at the request class and expects a multi-node placement. *)
Definition h_166 : list op :=
  [OpConnect [2; 0; 0] 0;
   OpSubmit None [] None rqm 0%Z CUnl false None;
   OpSched (mkSol [(0, 0, [(1, 1)])] [] [1] []);
   OpFailNext 1 (1, 0);
   OpDDown 1 []; OpDDown 1 []].
Example panic_166_reachable :
  exists s outs, run (init_sys 0 2) h_166 = Ok (s, outs) /\ step s (OpDUp 1) = Panic 166 /\ proto_ok s = false
  /\ ops_ok (init_sys 0 2) h_166 = false.
Proof.
  destruct (run (init_sys 0 2) h_166) as [[s outs]| |] eqn:E; [|vm_compute in E; discriminate | vm_compute in E; discriminate].
  exists s, outs. split; [reflexivity|]. vm_compute in E. inversion E; subst. repeat split; vm_compute; reflexivity.
Qed.
