(** C01, "start before finish" - the theorems for every history of the system model.

    [finished_after_started]: in the output of ANY history [run (init_sys r m) ops = Ok (s, outs)]
    every [EvFinished t] is preceded by an [EvStarted t ..] of the same task with no terminal event
    of [t] in between ([FAS], StartFinBase.v); no hypothesis on the history is needed.
    [finished_after_started_strong] adds (with [terminal_event_once]) that no terminal event names
    [t] anywhere else in the stream.  [running_has_start] is the state half of the invariant.

    What is NOT claimed, because the model (like the implementation) emits no per-task event for
    it: that the task did not go back to waiting between the start and the finish.  A worker loss
    resets the Running tasks of the lost worker silently ([set_waiting_state]); the only trace is
    the per-worker [EvWLost w].

    Failures: [EvFailed t k] does NOT presuppose a start, for no kind [k] the server checks - see
    the rule and the witnesses at the end of this file. *)
From HQ Require Import Base.Prelude Cluster.Types Cluster.Core Cluster.Reactor Cluster.Worker Cluster.Server Cluster.Sys Cluster.Monitors Cluster.ProofsJob Cluster.ProofsMore Cluster.ProofsTerminal Cluster.ProofsStep Cluster.ProofsFinal Cluster.BijBase Cluster.BijHq Cluster.ProofsOnce Cluster.StartFinBase Cluster.StartFinJob.
From Coq Require Import ZArith Lia.
Local Open Scope N_scope.

Lemma IPs_init reserve maxfill : IPs (init_sys reserve maxfill, []) [].
Proof. split; [apply FAS_nil | intros t Ht; discriminate]. Qed.

(** C01, start before finish. *)
Theorem finished_after_started ops reserve maxfill s outs :
  run (init_sys reserve maxfill) ops = Ok (s, outs) -> FAS outs.
Proof.
  intros H. destruct (run_IPs _ _ _ _ _ (IPs_init reserve maxfill) H) as [HF _].
  cbn [snd app] in HF. rewrite app_nil_r in HF. exact HF.
Qed.

(** The same, unfolded: the decomposition form. *)
Corollary finished_after_started_unfolded ops reserve maxfill s outs pre t post :
  run (init_sys reserve maxfill) ops = Ok (s, outs) ->
  outs = pre ++ [OEv (EvFinished t)] ++ post ->
  exists a i ws rv b, pre = a ++ [OEv (EvStarted t i ws rv)] ++ b /\ ~ In t (terminal_ids b).
Proof. intros H E. exact (finished_after_started _ _ _ _ _ H pre t post E). Qed.

(** The executable form. *)
Corollary finished_after_started_check ops reserve maxfill s outs :
  run (init_sys reserve maxfill) ops = Ok (s, outs) -> fas_check outs = true.
Proof. intros H. apply fas_check_spec. eapply finished_after_started; exact H. Qed.

(** The state half: a task the job layer shows Running at the end of the history has a start in
    the stream after which no terminal event names it. *)
Theorem running_has_start ops reserve maxfill s outs t :
  run (init_sys reserve maxfill) ops = Ok (s, outs) ->
  task_state (s, []) t = Some JR -> live outs t.
Proof.
  intros H Ht. destruct (run_IPs _ _ _ _ _ (IPs_init reserve maxfill) H) as [_ HL].
  specialize (HL t Ht). cbn [snd app] in HL. rewrite app_nil_r in HL. exact HL.
Qed.

(** With "reported once": the finish is the only terminal event of the task in the whole stream. *)
Lemma count_occ_zero_not_in (l : list tid) t : count_occ tid_dec l t = 0%nat -> ~ In t l.
Proof. intros E Hin. apply (count_occ_In tid_dec) in Hin. lia. Qed.

Theorem finished_after_started_strong ops reserve maxfill s outs pre t post :
  run (init_sys reserve maxfill) ops = Ok (s, outs) ->
  outs = pre ++ OEv (EvFinished t) :: post ->
  (exists a i ws rv b, pre = a ++ OEv (EvStarted t i ws rv) :: b) /\
  ~ In t (terminal_ids pre) /\ ~ In t (terminal_ids post).
Proof.
  intros H E. destruct (finished_after_started _ _ _ _ _ H pre t post E) as (a & i & ws & rv & b & Ea & _).
  split; [exists a, i, ws, rv, b; exact Ea|].
  destruct (terminal_event_once _ _ _ _ _ t H) as [Hle _].
  rewrite E in Hle. change (pre ++ OEv (EvFinished t) :: post) with (pre ++ [OEv (EvFinished t)] ++ post) in Hle.
  rewrite !terminal_ids_app, !count_occ_app in Hle.
  assert (E1 : count_occ tid_dec (terminal_ids [OEv (EvFinished t)]) t = 1%nat).
  { unfold terminal_ids. cbn [flat_map tids_of app count_occ]. destruct (tid_dec t t); [reflexivity | contradiction]. }
  split; apply count_occ_zero_not_in; lia.
Qed.

(** * Non-vacuity *)

(** [once_ops] (ProofsOnce.v): a task is submitted, placed, started and finishes. *)
Example fas_example : exists s outs, run (init_sys 0 2) once_ops = Ok (s, outs)
  /\ In (OEv (EvFinished (1, 0))) outs /\ fas_check outs = true.
Proof. do 2 eexists. split; [vm_compute; reflexivity|]. split; [vm_compute; tauto | vm_compute; reflexivity]. Qed.

(** The check is not trivially true: a finish without start, a finish after an intervening
    terminal event, and a second finish are all rejected. *)
Example fas_check_rejects :
  fas_check [OEv (EvFinished (1, 0))] = false
  /\ fas_check [OEv (EvStarted (1, 0) 0 [1] 0); OEv (EvAborted [(1, 0)]); OEv (EvFinished (1, 0))] = false
  /\ fas_check [OEv (EvStarted (1, 0) 0 [1] 0); OEv (EvFinished (1, 0)); OEv (EvFinished (1, 0))] = false
  /\ fas_check [OEv (EvStarted (1, 0) 0 [1] 0); OEv (EvWLost 1 1); OEv (EvStarted (1, 0) 1 [2] 0); OEv (EvFinished (1, 0))] = true.
Proof. vm_compute. repeat split; reflexivity. Qed.

(** * Failures

    The rule of the model (and of the code it reproduces): [EvFailed t k] is emitted only by
    [process_task_failed], which accepts a task the job layer shows Waiting OR Running
    ([ProofsMore.failed_only_from_active]) and does not look at the kind [k].  The kinds come from
    - a worker's [UFailed t k] message ([task_failed s (Some w) t k]; the core accepts it for a task
      Assigned / Prefilled / Retracting / Running / RunningMN on that worker): the worker model sends
      [FLaunch] for a task whose launch failed - it never reported the task running -, and
      [FTask] / [FTimeLimit] when a launched future ends;
    - the server itself after a worker loss ([lost_fail_running] -> [task_failed s None t k] with
      k = [FNeverRestart] / [FCrashLimit]): the task was running on the lost worker and has just been
      put back to Waiting, in the core ([is_waiting], else Panic 168) and in the job layer.
    So a failure does not presuppose a start; the three witnesses below are histories of the
    system model. *)

(** A reported failure is accepted from Waiting as well as from Running. *)
Theorem failed_from_waiting_or_running s t aborted k s' ids :
  process_task_failed s t aborted k = Ok (s', ids) ->
  exists s1, abort_tasks s (fst t) aborted = Ok s1 /\ (task_state s1 t = Some JW \/ task_state s1 t = Some JR).
Proof. apply failed_only_from_active. Qed.

(** The server-generated failures (crash limit / never-restart after a worker loss) are for tasks
    the core shows Waiting. *)
Theorem server_failure_from_waiting s id k s' t :
  task_failed s None id k = Ok s' -> find_task (c_tasks (core_of s)) id = Some t -> is_waiting t = true.
Proof.
  unfold task_failed. intros H Hf. rewrite Hf in H. apply bind_ok in H. destruct H as (rq & _ & H).
  apply bind_ok in H. destruct H as (c1 & H1 & _). destruct (is_waiting t); [reflexivity | discriminate].
Qed.

Definition evs_of (outs : list out) : list out := filter (fun x => match x with OEv _ => true | _ => false end) outs.

(** Launch failure: the task fails without ever having been started. *)
Definition fail_launch_ops : list op :=
  [OpConnect [20000; 0; 0] 0;
   OpSubmit None [] None once_rq 0%Z (CMax 3) false None;
   OpSched (mkSol [(0, 0, [(1, 1)])] [] [1] []);
   OpFailNext 1 (1, 0);
   OpDDown 1 []; OpDDown 1 []; OpDUp 1].
Example failed_needs_start_refuted_launch : exists s outs, run (init_sys 0 2) fail_launch_ops = Ok (s, outs)
  /\ evs_of outs = [OEv (EvWConn 1); OEv (EvSubmit 1 true 1); OEv (EvFailed (1, 0) FLaunch); OEv (EvCompleted 1)].
Proof. do 2 eexists. split; vm_compute; reflexivity. Qed.

(** Crash limit: the task was started, its worker is lost (the task goes back to waiting, silently)
    and the crash limit fails it - between its start and its failure the only trace is [EvWLost]. *)
Definition fail_crash_ops : list op :=
  [OpConnect [20000; 0; 0] 0;
   OpSubmit None [] None once_rq 0%Z (CMax 1) false None;
   OpSched (mkSol [(0, 0, [(1, 1)])] [] [1] []);
   OpDDown 1 []; OpDDown 1 []; OpDUp 1; OpLost 1 1 [(1, 0)] [] [(1, 0)]].
Example failed_after_back_to_waiting : exists s outs, run (init_sys 0 2) fail_crash_ops = Ok (s, outs)
  /\ evs_of outs = [OEv (EvWConn 1); OEv (EvSubmit 1 true 1); OEv (EvStarted (1, 0) 0 [1] 0); OEv (EvWLost 1 1);
                    OEv (EvFailed (1, 0) FCrashLimit); OEv (EvCompleted 1)].
Proof. do 2 eexists. split; vm_compute; reflexivity. Qed.

(** Crash limit of a multi-node task whose root worker is lost before it reported the task
    running: a crash-limit failure with no start at all. *)
Definition fail_crash_mn_ops : list op :=
  [OpConnect [20000; 0; 0] 0; OpConnect [20000; 0; 0] 0;
   OpSubmit None [] None (mkRq 2 [0; 0; 0]) 0%Z (CMax 1) false None;
   OpSched (mkSol [] [(0, 0, [[1; 2]])] [1; 2] []);
   OpLost 1 1 [] [] [(1, 0)]].
Example failed_needs_start_refuted_crash_mn : exists s outs, run (init_sys 0 2) fail_crash_mn_ops = Ok (s, outs)
  /\ evs_of outs = [OEv (EvWConn 1); OEv (EvWConn 2); OEv (EvSubmit 1 true 1); OEv (EvWLost 1 1);
                    OEv (EvFailed (1, 0) FCrashLimit); OEv (EvCompleted 1)].
Proof. do 2 eexists. split; vm_compute; reflexivity. Qed.

Print Assumptions finished_after_started.
Print Assumptions finished_after_started_strong.
Print Assumptions running_has_start.
Print Assumptions fas_check_spec.
