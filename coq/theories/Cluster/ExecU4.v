(** C06 "instance ids strictly increase", part 4: [TT] for worker loss and the client requests;
    [step_TT]: every operation of the system. *)
From HQ Require Import Base.Prelude Cluster.Types Cluster.Core Cluster.Reactor Cluster.Worker Cluster.Server Cluster.Sys Cluster.Monitors Cluster.RejHyp Cluster.ProofsJob Cluster.ProofsMore Cluster.ProofsTerminal Cluster.ProofsStep Cluster.ProofsFinal Cluster.BijBase Cluster.BijCore Cluster.BijHq Cluster.BijSt Cluster.BijReact Cluster.BijFinal Cluster.InvWBase Cluster.InvWX1 Cluster.InvWX2 Cluster.InvWX3 Cluster.ExecU1 Cluster.ExecU2 Cluster.ExecU3.
From Coq Require Import ZArith Lia Sorting.Sorted.
Local Open Scope N_scope.

Arguments N.add : simpl never.
Arguments N.sub : simpl never.

Section Pass.
Variables T N : tid -> Prop.
Notation TT_refl := (TT_refl T N).
Notation TT_trans := (TT_trans T N).
Notation TT_tasks := (TT_tasks T N).
Notation process_retracted_TT := (process_retracted_TT T N).
Notation on_cancel_tasks_TT := (on_cancel_tasks_TT T N).
Notation lost_prefilled_TT := (lost_prefilled_TT T N).
Notation lost_assigned_TT := (lost_assigned_TT T N).
Notation lost_fail_running_TT := (lost_fail_running_TT T N).
Notation reset_mn_all_TT := (reset_mn_all_TT T N).
Notation on_new_tasks_TT := (on_new_tasks_TT T N).

(** * Worker loss *)
Lemma lost_retracting_TT l : forall s w s', lost_retracting s w l = Ok s' -> TT T N (core_of s) (core_of s').
Proof.
  induction l as [|id r IH]; cbn [lost_retracting]; intros s w s' H; [inversion H; subst; apply TT_refl|].
  apply bind_ok in H. destruct H as (t & Ht & H). apply get_task_find in Ht.
  destruct (t_state t) as [n|w1 rv1|w1|w1|w1 rv1|wsx|] eqn:Est; try (eapply IH; exact H).
  destruct (N.eqb w w1); [|eapply IH; exact H]. cbv zeta in H.
  destruct (find_redirect (c_redirects (core_of s)) id) as [[target rv]|].
  - apply bind_ok in H. destruct H as (s1 & Hs1 & H). eapply TT_trans; [|eapply IH; exact H].
    rewrite (send_worker_core _ _ _ _ Hs1).
    eapply (TT_set T N _ _ (with_state (with_inst t (t_inst t + 1)) (Assigned target rv)) t); [reflexivity | exact (find_in _ _ _ Ht) | reflexivity | cbn; lia | cbn; intros E; lia].
  - eapply TT_trans; [|eapply IH; exact H].
    eapply (TT_set T N _ _ (with_state (with_inst t (t_inst t + 1)) (Waiting 0)) t); [reflexivity | exact (find_in _ _ _ Ht) | reflexivity | cbn; lia | cbn; intros E; lia].
Qed.

Lemma on_remove_worker_TT s w reason a p t s' : on_remove_worker s w reason a p t = Ok s' -> TT T N (core_of s) (core_of s').
Proof.
  intros H. unfold on_remove_worker in H.
  destruct (find_worker (c_workers (core_of s)) w) as [wk|] eqn:Hw; [|discriminate].
  apply bind_ok in H. destruct H as ([[c2 running] retracted] & Hr & H).
  set (c := core_of s) in *.
  set (c0 := with_workers c (del_worker (c_workers c) w)) in *.
  assert (A2 : TT T N c0 c2).
  { destruct (w_assign wk) as [sa sp sf|mt root] eqn:Ea.
    - destruct (negb _); [discriminate|]. apply bind_ok in Hr. destruct Hr as (c1 & Hp & Hr).
      eapply TT_trans; [eapply lost_prefilled_TT; exact Hp | eapply lost_assigned_TT; exact Hr].
    - apply bind_ok in Hr. destruct Hr as (tk & Ht & Hr). apply get_task_find in Ht.
      destruct (t_state tk) as [n|w1 rv1|w1|w1|w1 rv1|ws|] eqn:Est; try discriminate. destruct ws as [|w0 rest] eqn:Ews; [discriminate|].
      destruct (N.eqb w w0) eqn:Ew0.
      + apply bind_ok in Hr. destruct Hr as (c1 & Hc1 & Hr). apply bind_ok in Hr. destruct Hr as ([qs ret] & ?X & Hr).
        inversion Hr; subst c2 running retracted.
        pose proof (reset_mn_all_tasks _ _ _ Hc1) as T1.
        eapply (TT_set T N c0 _ (with_inst (with_state tk (Waiting 0)) (t_inst tk + 1)) tk);
          [cbn [c_tasks upd_task with_tasks with_queues]; rewrite T1; reflexivity | exact (find_in _ _ _ Ht) | reflexivity | cbn; lia | cbn; intros E; lia].
      + inversion Hr; subst c2 running retracted.
        eapply (TT_set T N c0 _ (with_state tk (RunningMN (filter (fun x => negb (N.eqb x w)) (w0 :: rest)))) tk);
          [reflexivity | exact (find_in _ _ _ Ht) | reflexivity | cbn; lia | cbn; discriminate]. }
  destruct (negb (perm_of_set t _)); [discriminate|].
  apply bind_ok in H. destruct H as (s3 & H3 & H). apply bind_ok in H. destruct H as (s4 & H4 & H).
  apply bind_ok in H. destruct H as (s6 & H6 & H). apply bind_ok in H. destruct H as (s7 & H7 & H). inversion H; subst s'.
  destruct (process_worker_lost_active _ _ _ _ _ H6) as [C6 _]. unfold core_same in C6.
  eapply TT_trans; [apply (TT_tasks c c0); reflexivity|]. eapply TT_trans; [exact A2|].
  eapply TT_trans; [exact (lost_retracting_TT _ _ _ _ H3)|].
  eapply TT_trans; [eapply process_retracted_TT; exact H4|].
  eapply TT_trans; [|eapply TT_trans; [eapply lost_fail_running_TT; exact H7 | apply TT_tasks; reflexivity]].
  rewrite C6. apply TT_refl.
Qed.

(** * Client requests *)
Lemma handle_cancel_TT s jid s' : handle_cancel s jid = Ok s' -> TT T N (core_of s) (core_of s').
Proof.
  intros H. unfold handle_cancel in H.
  destruct (find_job (hq_jobs s) jid) as [j|]; [|inversion H; subst; apply TT_refl].
  destruct (non_finished_task_ids j) as [|i0 ir] eqn:En; [inversion H; subst; apply TT_refl|]. rewrite <- En in *. clear En.
  apply bind_ok in H. destruct H as (s1 & H1 & H). apply bind_ok in H. destruct H as (al & ?X & H).
  apply bind_ok in H. destruct H as (s2 & H2 & H). inversion H; subst s'.
  destruct (set_cancel_state_active _ _ _ _ H2) as [C2 _]. unfold core_same in C2.
  change (TT T N (core_of s) (core_of s2)). rewrite C2. eapply on_cancel_tasks_TT; exact H1.
Qed.

Lemma get_or_create_rq_TT s r : TT T N (core_of s) (core_of (fst (get_or_create_rq s r))).
Proof. unfold get_or_create_rq. destruct (rq_index _ r 0); [apply TT_refl|]. apply TT_tasks; reflexivity. Qed.

Lemma get_or_create_rq_tasks s r : c_tasks (core_of (fst (get_or_create_rq s r))) = c_tasks (core_of s).
Proof. unfold get_or_create_rq. destruct (rq_index _ r 0); reflexivity. Qed.

Lemma submit_tail_TT s4 jid ids tasks s' : (forall x, find_task (c_tasks (core_of s4)) x = None -> N x) ->
  (do j <- hq_get_job s4 jid 222;
   do j' <- attach_ids j ids;
   do s6 <- on_new_tasks (hq_set_job s4 j') tasks;
   submit_ok_resp s6 jid) = Ok s' -> TT T N (core_of s4) (core_of s').
Proof.
  intros HN H. apply bind_ok in H. destruct H as (j & ?X & H). apply bind_ok in H. destruct H as (j' & ?X & H).
  apply bind_ok in H. destruct H as (s6 & H6 & H).
  pose proof (on_new_tasks_TT (hq_set_job s4 j') _ _ HN H6) as R6.
  unfold submit_ok_resp in H. apply bind_ok in H. destruct H as (jx & ?X & H). inversion H; subst. exact R6.
Qed.

Lemma handle_submit_array_TT s jobsel ids entries rq prio cl tlim mf s' : (forall x, find_task (c_tasks (core_of s)) x = None -> N x) ->
  handle_submit_array s jobsel ids entries rq prio cl tlim mf = Ok s' -> TT T N (core_of s) (core_of s').
Proof.
  intros HN H. unfold handle_submit_array in H.
  match type of H with (match ?x with Some _ => _ | None => _ end) = _ => destruct x end; [inversion H; subst; apply TT_refl|].
  apply bind_ok in H. destruct H as ([acc s1] & Hr & H).
  assert (E1 : core_of s1 = core_of s).
  { destruct jobsel as [j0|].
    - destruct (find_job (hq_jobs s) j0) as [j|]; [|inversion Hr; subst; reflexivity].
      destruct (negb (j_open j)); inversion Hr; subst; reflexivity.
    - inversion Hr; subst; reflexivity. }
  destruct acc as [[[jid is_new] ids']|].
  - cbv zeta in H.
    match type of H with context [get_or_create_rq ?sx rq] => set (s3 := sx) in *; destruct (get_or_create_rq s3 rq) as [s4 rqi] eqn:Erq end.
    assert (E3 : core_of s3 = core_of s) by (rewrite <- E1; subst s3; destruct is_new; reflexivity).
    pose proof (get_or_create_rq_TT s3 rq) as R4. rewrite Erq in R4. cbn [fst] in R4. rewrite E3 in R4.
    pose proof (get_or_create_rq_tasks s3 rq) as T4. rewrite Erq in T4. cbn [fst] in T4. rewrite E3 in T4.
    eapply TT_trans; [exact R4 | eapply (submit_tail_TT s4 jid ids'); [rewrite T4; exact HN | exact H]].
  - assert (E2 : core_of s' = core_of s1).
    { destruct jobsel; [match type of H with (match ?x with Some _ => _ | None => _ end) = _ => destruct x end|];
        inversion H; subst; reflexivity. }
    rewrite E2, E1. apply TT_refl.
Qed.

Lemma fold_rqs_TT rqs : forall s l s4 rqis,
  fold_left (fun acc r => let '(s, l) := acc in let '(s', i) := get_or_create_rq s r in (s', l ++ [i])) rqs (s, l) = (s4, rqis) ->
  TT T N (core_of s) (core_of s4) /\ c_tasks (core_of s4) = c_tasks (core_of s).
Proof.
  induction rqs as [|r rest IH]; cbn [fold_left]; intros s l s4 rqis H; [inversion H; subst; split; [apply TT_refl | reflexivity]|].
  destruct (get_or_create_rq s r) as [s1 i] eqn:E.
  pose proof (get_or_create_rq_TT s r) as R1. rewrite E in R1. cbn [fst] in R1.
  pose proof (get_or_create_rq_tasks s r) as T1. rewrite E in T1. cbn [fst] in T1.
  destruct (IH _ _ _ _ H) as [R2 T2]. split; [eapply TT_trans; [exact R1 | exact R2] | congruence].
Qed.

Lemma handle_submit_graph_TT s jobsel rqs ts mf s' : (forall x, find_task (c_tasks (core_of s)) x = None -> N x) ->
  handle_submit_graph s jobsel rqs ts mf = Ok s' -> TT T N (core_of s) (core_of s').
Proof.
  intros HN H. unfold handle_submit_graph in H.
  apply bind_ok in H. destruct H as (v1 & ?X & H).
  match type of H with (match ?x with Some _ => _ | None => _ end) = _ => destruct x end; [inversion H; subst; apply TT_refl|].
  apply bind_ok in H. destruct H as ([acc s1] & Hr & H).
  assert (E1 : core_of s1 = core_of s).
  { destruct jobsel as [j0|].
    - destruct (find_job (hq_jobs s) j0) as [j|]; [|inversion Hr; subst; reflexivity].
      destruct (negb (j_open j)); inversion Hr; subst; reflexivity.
    - inversion Hr; subst; reflexivity. }
  destruct acc as [[jid is_new]|].
  - cbv zeta in H.
    match type of H with context [fold_left ?f rqs (?sx, [])] => set (s3 := sx) in *; destruct (fold_left f rqs (s3, [])) as [s4 rqis] eqn:Erq end.
    assert (E3 : core_of s3 = core_of s) by (rewrite <- E1; subst s3; destruct is_new; reflexivity).
    destruct (fold_rqs_TT _ _ _ _ _ Erq) as [R4 T4]. rewrite E3 in R4, T4.
    apply bind_ok in H. destruct H as (j & Hj & H). apply bind_ok in H. destruct H as (j' & Ha & H).
    apply bind_ok in H. destruct H as (tasks & Hg & H).
    eapply TT_trans; [exact R4|]. eapply (submit_tail_TT s4 jid (map gt_id ts) tasks); [rewrite T4; exact HN|].
    rewrite Hj. cbn [bind]. rewrite Ha. cbn [bind]. exact H.
  - inversion H; subst. rewrite E1. apply TT_refl.
Qed.

End Pass.

(** * Every operation *)
Definition step_T (s : sys) (o : op) : tid -> Prop :=
  match o with
  | OpDUp w => match find_proc (s_procs s) w with
               | Some p => match p_up p with m :: _ => fun x => In x (gives [m]) | [] => fun _ => False end
               | None => fun _ => False
               end
  | _ => fun _ => False
  end.
Definition absent_in (s : sys) : tid -> Prop := fun x => find_task (c_tasks (s_core s)) x = None.

Theorem step_TT s o s' outs : step s o = Ok (s', outs) -> TT (step_T s o) (absent_in s) (s_core s) (s_core s').
Proof.
  intros H. change (TT (step_T s o) (absent_in s) (s_core s) (core_of (s', outs))).
  destruct o; cbn [step] in H; cbn [step_T].
  - exact (on_new_worker_TT _ _ (s, []) _ _ _ H).
  - destruct (find_proc _ w); [|discriminate]. exact (on_remove_worker_TT _ _ (s, []) _ _ _ _ _ _ H).
  - destruct (bad_submit_lengths _ _); [inversion H; subst; apply TT_refl|]. exact (handle_submit_array_TT _ _ (s, []) _ _ _ _ _ _ _ _ _ (fun x Hx => Hx) H).
  - destruct (bad_graph_rq _ _); [inversion H; subst; apply TT_refl|]. destruct (dead_dep _ _ _); [inversion H; subst; apply TT_refl|]. exact (handle_submit_graph_TT _ _ (s, []) _ _ _ _ _ (fun x Hx => Hx) H).
  - unfold handle_open in H. inversion H; subst. apply TT_refl.
  - unfold handle_close in H. cbn in H. destruct (find_job _ j) as [jb|]; [|inversion H; subst; apply TT_refl].
    destruct (j_open jb); [|inversion H; subst; apply TT_refl].
    apply bind_ok in H. destruct H as (s1 & H1 & H). inversion H; subst.
    destruct (check_termination_jt _ _ _ H1) as [C1 _]. unfold core_same in C1. change (TT (fun _ => False) (absent_in s) (s_core s) (core_of s1)). rewrite C1. apply TT_refl.
  - exact (handle_cancel_TT _ _ (s, []) _ _ H).
  - unfold handle_forget in H. cbn in H. destruct (find_job _ j) as [jb|]; [|inversion H; subst; apply TT_refl].
    apply bind_ok in H. destruct H as (na & _ & H). destruct (negb (j_open jb) && na); inversion H; subst; apply TT_refl.
  - destruct (find_proc _ w) as [p|]; [|discriminate]. destruct (p_down p); [discriminate|].
    inv_binds H. inversion H; subst. apply TT_refl.
  - destruct (find_proc _ w) as [p|]; [|discriminate]. destruct (p_up p) as [|m rest]; [discriminate|].
    destruct m as [us|ids].
    + match type of H with on_task_update ?s1 _ _ = _ => refine (on_task_update_TT _ _ s1 _ _ _ _ H) end.
      intros x rv Hx. cbn [gives flat_map]. rewrite app_nil_r. unfold ugives. apply in_flat_map. exists (UReject x rv). split; [exact Hx | left; reflexivity].
    + match type of H with on_retract_response ?s1 _ _ = _ => refine (on_retract_response_TT _ _ s1 _ _ _ _ H) end.
      intros x Hx. cbn [gives flat_map]. rewrite app_nil_r. exact Hx.
  - destruct (c_flag (s_core s)); [|discriminate]. exact (run_scheduling_TT _ _ (s, []) _ _ H).
  - destruct (find_proc _ w) as [p|]; [|discriminate]. inv_binds H. inversion H; subst. apply TT_refl.
  - destruct (find_proc _ w) as [p|]; [|discriminate]. inversion H; subst. apply TT_refl.
  - inversion H; subst. apply TT_refl.
  - inv_binds H. inversion H; subst. apply TT_refl.
Qed.
