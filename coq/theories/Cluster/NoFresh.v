(** The dynamic hypothesis [run_fresh] is DERIVED.

    The invariant theorems of InvW / InvQ / InvD / InvAll and everything built on them assume the
    executable hypothesis [run_fresh] (RejHyp.v): a reject the server processes comes from the
    worker the task is placed on and echoes its variant, and a failure reported for a task placed
    as multi-node concerns a multi-node request.  That is a statement about messages in flight.
    With the joint server / worker protocol invariant PROTO (NoPanicU*.v, [reachable_PROTO]) it
    follows from a STATIC well-formedness of the inputs, [ops_ok] (NoPanicU0.v [op_ok] along the
    run): a multi-node request class has no resource amounts; a scheduler answer uses variant 0,
    places single-node classes single-node and multi-node classes multi-node.  This file restates
    the headline theorems with [ops_ok] in place of [run_fresh]. *)
From HQ Require Import Base.Prelude Cluster.Types Cluster.Core Cluster.Reactor Cluster.Worker Cluster.Server Cluster.Sys Cluster.Monitors Cluster.RejHyp Cluster.BijFinal Cluster.InvWFinal Cluster.InvAll Cluster.InvBundle Cluster.InvWX1 Cluster.InvWX3 Cluster.NoPanicU0 Cluster.NoPanicU1 Cluster.NoPanicU20 Cluster.ReleaseCancel Cluster.ReleaseLost0 Cluster.ReleaseLost Cluster.StartFin2Base Cluster.StartFin2.
From Coq Require Import ZArith.
Local Open Scope N_scope.

Lemma fresh_of_ops ops reserve maxfill s outs :
  Forall op_wf ops -> ops_ok (init_sys reserve maxfill) ops = true -> run (init_sys reserve maxfill) ops = Ok (s, outs) ->
  run_fresh (init_sys reserve maxfill) ops = true.
Proof. intros Hwf Hok H. exact (proj2 (reachable_PROTO ops reserve maxfill s outs Hwf Hok H)). Qed.

Section Restated.
Variables (ops : list op) (reserve maxfill : N) (s : sys) (outs : list out).
Hypothesis Hwf : Forall op_wf ops.
Hypothesis Hok : ops_ok (init_sys reserve maxfill) ops = true.
Hypothesis Hrun : run (init_sys reserve maxfill) ops = Ok (s, outs).

Let Hf : run_fresh (init_sys reserve maxfill) ops = true := fresh_of_ops ops reserve maxfill s outs Hwf Hok Hrun.

(** Every invariant of a reachable state, and the protocol invariant. *)
Theorem reachable_all : INV s /\ PROTO s /\ MNE (s_core s) /\ RWA (s_core s).
Proof.
  split; [exact (reachable_INV _ _ _ _ _ Hwf Hf Hrun)|]. split; [exact (proj1 (reachable_PROTO ops reserve maxfill s outs Hwf Hok Hrun))|].
  exact (reachable_MNE_RWA _ _ _ _ _ Hwf Hf Hrun).
Qed.

Theorem worker_sets_invariant_ops :
  let c := s_core s in
  forallb (worker_sets_ok c) (c_workers c) = true /\
  (forall t, In t (c_tasks c) ->
     match t_state t with
     | Assigned w _ | Running w _ => (exists wk a p f, find_worker (c_workers c) w = Some wk /\ w_assign wk = Sn a p f /\ tid_mem (t_id t) a = true)
     | Prefilled w => (exists wk a p f, find_worker (c_workers c) w = Some wk /\ w_assign wk = Sn a p f /\ tid_mem (t_id t) p = true)
     | Retracting _ => forall target rv, find_redirect (c_redirects c) (t_id t) = Some (target, rv) ->
                         exists wk a p f, find_worker (c_workers c) target = Some wk /\ w_assign wk = Sn a p f /\ tid_mem (t_id t) a = true
     | RunningMN ws => forall w, In w ws -> exists wk root, find_worker (c_workers c) w = Some wk /\ w_assign wk = Mn (t_id t) root
     | _ => True
     end).
Proof. exact (worker_sets_invariant ops reserve maxfill s outs Hwf Hf Hrun). Qed.

Theorem deps_invariant_ops : forallb (deps_ok (s_core s)) (c_tasks (s_core s)) = true.
Proof. exact (deps_invariant_reachable ops reserve maxfill s outs Hwf Hf Hrun). Qed.

Theorem placed_task_has_no_pending_dependency_ops :
  forall t, In t (c_tasks (s_core s)) -> (match t_state t with Waiting _ => False | _ => True end) ->
  forall d, In d (t_deps t) -> find_task (c_tasks (s_core s)) d = None.
Proof. exact (placed_task_has_no_pending_dependency ops reserve maxfill s outs Hwf Hf Hrun). Qed.

Theorem cancel_releases_everything_ops j s' outs' :
  step s (OpCancel j) = Ok (s', outs') -> job_free_core (s_core s') j.
Proof. exact (cancel_releases_everything ops reserve maxfill s outs j s' outs' Hwf Hf Hrun). Qed.

Theorem finished_after_current_start_ops : FAS2 outs.
Proof. exact (finished_after_started_no_loss ops reserve maxfill s outs Hwf Hf Hrun). Qed.
End Restated.

Print Assumptions reachable_all.
Print Assumptions worker_sets_invariant_ops.
Print Assumptions cancel_releases_everything_ops.
