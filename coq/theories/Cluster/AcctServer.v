(** C05, accounting conjunct, part 4: worker registration and loss, one scheduling round.  The
    scheduling round needs the executable hypothesis [sched_fits] ("simulating the round, every
    [insert_sn_task] of [map_one] finds [res_fits free request]"): the cluster model takes the solver's
    answer as an unconstrained witness. *)
From HQ Require Import Base.Prelude Cluster.Types Cluster.Core Cluster.Reactor Cluster.Worker Cluster.Server Cluster.Sys Cluster.Monitors Cluster.ProofsJob Cluster.ProofsStep Cluster.BijBase Cluster.BijCore Cluster.BijHq Cluster.BijSt Cluster.CrashFrame Cluster.RejHyp Cluster.InvWBase Cluster.InvWCore Cluster.InvWX1 Cluster.InvQBase Cluster.InvQTake Cluster.InvQInv Cluster.InvQOps Cluster.InvQNoDup Cluster.InvQReact Cluster.InvQSched Cluster.AcctBase Cluster.AcctReact Cluster.AcctReact2.
From Coq Require Import ZArith Lia.
Local Open Scope N_scope.

Arguments N.add : simpl never.
Arguments N.sub : simpl never.

(** * A new worker *)
Lemma on_new_worker_AI rqf rqs s rs g s' : AIS rqf rqs s -> on_new_worker s rs g = Ok s' -> AIS rqf rqs s'.
Proof.
  unfold on_new_worker. intros HA H. inversion H; subst; clear H. unfold AIS. cbn.
  apply AI_upd_worker; [ai_frame; exact HA | apply accw_new].
Qed.

(** * A lost worker *)
Lemma lost_prefilled_AI rqf rqs l : forall c c', AI rqf rqs c -> lost_prefilled c l = Ok c' -> AI rqf rqs c'.
Proof.
  induction l as [|id r IH]; cbn [lost_prefilled]; intros c c' HA H; [inversion H; subst; exact HA|].
  bstep H t Ht. apply get_task_find in Ht. bstep H q Hq. bstep H q' Hq'. eapply IH; [|exact H].
  ai_frame. eapply AI_upd_same; [exact HA | exact Ht | reflexivity | reflexivity].
Qed.

Lemma lost_assigned_AI rqf rqs l : forall c running ret c' running' ret',
  AI rqf rqs c -> lost_assigned c l running ret = Ok (c', running', ret') -> AI rqf rqs c'.
Proof.
  induction l as [|id r IH]; cbn [lost_assigned]; intros c running ret c' running' ret' HA H; [inversion H; subst; exact HA|].
  bstep H t Ht. apply get_task_find in Ht. bstep H x Hx. destruct x as [[c1 t1] running1]. bstep H y Hy. destruct y as [qs rt].
  pose proof (proj1 (AI_find _ _ _ _ _ HA Ht)) as Elk.
  assert (E1 : AI rqf rqs c1 /\ t_id t1 = t_id t /\ t_rq t1 = t_rq t).
  { destruct (t_state t); try (inversion Hx; subst; split; [exact HA | split; reflexivity]).
    destruct (find_redirect (c_redirects c) id); [|discriminate]. inversion Hx; subst. split; [ai_frame; exact HA | split; reflexivity]. }
  destruct E1 as (A1 & Ei & Er). eapply IH; [|exact H]. ai_frame. apply AI_upd_task; [exact A1|].
  cbn [t_id t_rq with_inst]. rewrite Ei, Er. exact Elk.
Qed.

Lemma lost_retracting_AI rqf rqs l : forall s w s', AIS rqf rqs s -> lost_retracting s w l = Ok s' -> AIS rqf rqs s'.
Proof.
  induction l as [|id r IH]; cbn [lost_retracting]; intros s w s' HA H; [inversion H; subst; exact HA|].
  bstep H t Ht. apply get_task_find in Ht.
  destruct (t_state t); try (eapply IH; eassumption).
  destruct (N.eqb w w0); [|eapply IH; eassumption].
  destruct (find_redirect (c_redirects (core_of s)) id) as [[target rv]|].
  - bstep H s1 Hs1. eapply IH; [|exact H]. unfold AIS. rewrite (send_worker_core _ _ _ _ Hs1). cbn.
    eapply (AI_upd_same _ _ (with_redirects (core_of s) (del_redirect (c_redirects (core_of s)) id)) id t); [ai_frame; exact HA | exact Ht | reflexivity | reflexivity].
  - eapply IH; [|exact H]. unfold AIS. cbn. eapply AI_upd_same; [exact HA | exact Ht | reflexivity | reflexivity].
Qed.

Lemma lost_fail_running_AI rqf rqs l : forall s reason s', AIS rqf rqs s -> lost_fail_running s reason l = Ok s' -> AIS rqf rqs s'.
Proof.
  induction l as [|id r IH]; cbn [lost_fail_running]; intros s reason s' HA H; [inversion H; subst; exact HA|].
  destruct (find_task (c_tasks (core_of s)) id) as [t|] eqn:Ef; [|eapply IH; eassumption].
  assert (Hup : AIS rqf rqs (st_core s (upd_task (core_of s) (with_crash t (t_crash t + 1))))).
  { unfold AIS. cbn. eapply AI_upd_same; [exact HA | exact Ef | reflexivity | reflexivity]. }
  destruct (t_climit t) eqn:Ecl.
  - bstep H s1 Hs1. eapply IH; [|exact H]. eapply task_failed_AI; [exact HA | exact Hs1].
  - destruct (reason_is_failure reason); [|eapply IH; [exact HA | exact H]].
    unfold increment_crash_counter in H. rewrite Ecl in H.
    destruct (N.leb n (t_crash (with_crash t (t_crash t + 1)))).
    + bstep H s1 Hs1. eapply IH; [|exact H]. eapply task_failed_AI; [exact Hup | exact Hs1].
    + eapply IH; [exact Hup | exact H].
  - destruct (reason_is_failure reason); [|eapply IH; [exact HA | exact H]].
    unfold increment_crash_counter in H. rewrite Ecl in H. eapply IH; [exact Hup | exact H].
Qed.

Lemma on_remove_worker_AI rqf rqs s w reason ao po to s' :
  AIS rqf rqs s -> on_remove_worker s w reason ao po to = Ok s' -> AIS rqf rqs s'.
Proof.
  unfold on_remove_worker. intros HA H. cbv zeta in H.
  destruct (find_worker (c_workers (core_of s)) w) as [wk|] eqn:Ew; [|discriminate].
  bstep H x Hx. destruct x as [[c2 running] retracted].
  assert (A0 : AI rqf rqs (with_workers (core_of s) (del_worker (c_workers (core_of s)) w))).
  { destruct HA as (A & R & T). split; [cbn; apply ACCW_del; exact A | split; [exact R | exact T]]. }
  assert (A2 : AI rqf rqs c2).
  { destruct (w_assign wk) as [a p f|mt root].
    - destruct (negb (perm_of_set ao a && perm_of_set po p)); [discriminate|].
      bstep Hx c1 Hc1. eapply lost_assigned_AI; [eapply lost_prefilled_AI; [exact A0 | exact Hc1] | exact Hx].
    - bstep Hx t Ht. apply get_task_find in Ht. destruct (t_state t) as [n|w1 rv|w1|w1|w1 rv|ws|]; try discriminate.
      destruct ws as [|w0 rest]; [discriminate|].
      pose proof (proj1 (AI_find _ _ _ _ _ A0 Ht)) as Elk.
      destruct (N.eqb w w0).
      + bstep Hx c1 Hc1. bstep Hx y Hy. destruct y as [qs rt]. inversion Hx; subst; clear Hx.
        ai_frame. apply AI_upd_task; [eapply reset_mn_all_AI; [exact A0 | exact Hc1] | exact Elk].
      + inversion Hx; subst; clear Hx. apply AI_upd_task; [exact A0 | exact Elk]. }
  destruct (negb (perm_of_set to (map t_id (c_tasks c2)))); [discriminate|].
  bstep H s3 Hs3. bstep H s4 Hs4. bstep H s6 Hs6. bstep H s7 Hs7. inversion H; subst; clear H.
  apply ask_scheduling_AI. eapply lost_fail_running_AI; [|exact Hs7].
  destruct (process_worker_lost_active _ _ _ _ _ Hs6) as [C6 _]. unfold core_same in C6. unfold AIS. rewrite C6.
  change (AIS rqf rqs s4). eapply process_retracted_AI; [|exact Hs4]. eapply lost_retracting_AI; [|exact Hs3]. exact A2.
Qed.

(** * The single-node mapping: the subtraction of [map_one] must not saturate *)
Definition map_one_fits (c : core) (w : wid) (rqres : list N) : bool :=
  match find_worker (c_workers c) w with Some wk => wfits wk rqres | None => true end.

Fixpoint rr_pass_fits (c : core) (m : list wupd) (counts : list (wid * N)) (tasks : list tid) (v : N) (rqres : list N) : bool :=
  match counts, tasks with
  | _, [] => true
  | [], _ => true
  | (w, n) :: r, id :: tl =>
      if N.ltb 0 n then
        map_one_fits c w rqres
        && match map_one c m id w v rqres with
           | Ok (c1, m1) => rr_pass_fits c1 m1 r tl v rqres
           | _ => true
           end
      else rr_pass_fits c m r tasks v rqres
  end.

Fixpoint rr_loop_fits (fuel : nat) (c : core) (m : list wupd) (counts : list (wid * N)) (tasks : list tid) (v : N) (rqres : list N) : bool :=
  match tasks with
  | [] => true
  | _ =>
      match fuel with
      | O => true
      | S k =>
          rr_pass_fits c m counts tasks v rqres
          && match rr_pass c m counts tasks v rqres with
             | Ok (c1, m1, counts1, rest) => rr_loop_fits k c1 m1 counts1 rest v rqres
             | _ => true
             end
      end
  end.

Fixpoint map_sn_fits (c : core) (m : list wupd) (sol : solution) (l : list (N * N * list (wid * N))) : bool :=
  match l with
  | [] => true
  | (rq, v, counts) :: r =>
      match get_rq (c_rqs c) rq, nth_queue (c_queues c) (N.to_nat rq) with
      | Ok rqd, Ok q =>
          match q_take_tasks q (sum_counts counts) (pf_order_of sol rq) with
          | Ok (tasks, q') =>
              let c1 := with_queues c (set_queue (c_queues c) (N.to_nat rq) q') in
              rr_loop_fits (S (length tasks)) c1 m counts tasks v (rq_res rqd)
              && match rr_loop (S (length tasks)) c1 m counts tasks v (rq_res rqd) with
                 | Ok (c2, m2) => map_sn_fits c2 m2 sol r
                 | _ => true
                 end
          | _ => true
          end
      | _, _ => true
      end
  end.

(** The hypothesis on one scheduling round. *)
Definition sched_fits (c : core) (sol : solution) : bool := map_sn_fits c [] sol (sol_sn sol).

Lemma map_one_AI rqf rqs c m id w v rqres c' m' :
  AI rqf rqs c -> rqres = rqf id -> map_one_fits c w rqres = true -> map_one c m id w v rqres = Ok (c', m') -> AI rqf rqs c'.
Proof.
  unfold map_one, map_one_fits. intros HA Erq HF H.
  bstep H wk Hw. apply get_worker_find in Hw. rewrite Hw in HF. bstep H wk' Hw'.
  assert (A0 : AI rqf rqs (upd_worker c wk')).
  { apply AI_upd_worker; [exact HA|]. eapply accw_insert; [eapply ACCW_find; [exact (AI_workers _ _ _ HA) | exact Hw] | exact Hw' | exact Erq | exact HF]. }
  bstep H t Ht. apply get_task_find in Ht.
  destruct (t_state t) as [n|w1 rv|old|old|w1 rv|ws|]; try discriminate.
  - inversion H; subst; clear H. eapply AI_upd_same; [exact A0 | exact Ht | reflexivity | reflexivity].
  - destruct (find_worker (c_workers (upd_worker c wk')) old) as [wo|] eqn:Eo; [|discriminate].
    bstep H wo' Hwo'. destruct (find_redirect _ id); [discriminate|]. inversion H; subst; clear H.
    assert (A1 : AI rqf rqs (upd_worker (upd_worker c wk') wo')).
    { apply AI_upd_worker; [exact A0|]. eapply accw_remove_prefill; [eapply ACCW_find; [exact (AI_workers _ _ _ A0) | exact Eo] | exact Hwo']. }
    match goal with |- AI _ _ (upd_task ?cc _) => eapply (AI_upd_same _ _ cc id t) end; [ai_frame; exact A1 | exact Ht | reflexivity | reflexivity].
  - destruct (find_redirect (c_redirects (upd_worker c wk')) id) as [[ot vo]|].
    + bstep H wo Hwo. bstep H rq Hrq. bstep H wo' Hwo'. inversion H; subst; clear H.
      assert (A1 : AI rqf rqs (with_redirects (upd_worker c wk') (set_redirect (c_redirects (upd_worker c wk')) id (w, v)))) by (ai_frame; exact A0).
      apply AI_upd_worker; [exact A1|].
      eapply accw_remove; [eapply ACCW_get; [exact (AI_workers _ _ _ A1) | exact Hwo] | exact Hwo' |].
      eapply (AI_get_rq _ _ _ id t); [exact A1 | exact Ht | exact Hrq].
    + inversion H; subst; clear H. ai_frame. exact A0.
Qed.

Lemma rr_pass_AI rqf rqs counts : forall c m tasks v rqres c' m' counts' rest,
  AI rqf rqs c -> Forall (fun id => rqres = rqf id) tasks -> rr_pass_fits c m counts tasks v rqres = true ->
  rr_pass c m counts tasks v rqres = Ok (c', m', counts', rest) ->
  AI rqf rqs c' /\ Forall (fun id => rqres = rqf id) rest.
Proof.
  induction counts as [|[w n] r IH]; intros c m tasks v rqres c' m' counts' rest HA HT HF H.
  - destruct tasks; cbn [rr_pass] in H; inversion H; subst; split; assumption.
  - destruct tasks as [|id tl]; cbn [rr_pass rr_pass_fits] in H, HF; [inversion H; subst; split; assumption|].
    pose proof (Forall_inv HT) as Hid. pose proof (Forall_inv_tail HT) as Htl. cbv beta in Hid.
    destruct (N.ltb 0 n).
    + bstep H x Hx. destruct x as [c1 m1]. bstep H y Hy. destruct y as [[[c2 m2] r'] tl']. injection H as <- <- <- <-.
      apply andb_true_iff in HF. destruct HF as [HF1 HF2]. rewrite Hx in HF2.
      eapply IH; [|exact Htl | exact HF2 | exact Hy]. eapply map_one_AI; [exact HA | exact Hid | exact HF1 | exact Hx].
    + bstep H y Hy. destruct y as [[[c2 m2] r'] tl']. injection H as <- <- <- <-.
      eapply IH; [exact HA | exact HT | exact HF | exact Hy].
Qed.

Lemma rr_loop_AI rqf rqs fuel : forall c m counts tasks v rqres c' m',
  AI rqf rqs c -> Forall (fun id => rqres = rqf id) tasks -> rr_loop_fits fuel c m counts tasks v rqres = true ->
  rr_loop fuel c m counts tasks v rqres = Ok (c', m') -> AI rqf rqs c'.
Proof.
  induction fuel as [|k IH]; intros c m counts tasks v rqres c' m' HA HT HF H; destruct tasks as [|id tl]; cbn [rr_loop rr_loop_fits] in H, HF;
    try (inversion H; subst; exact HA); try discriminate.
  bstep H x Hx. destruct x as [[[c1 m1] counts1] rest].
  apply andb_true_iff in HF. destruct HF as [HF1 HF2]. rewrite Hx in HF2.
  destruct (rr_pass_AI _ _ _ _ _ _ _ _ _ _ _ _ HA HT HF1 Hx) as [A1 T1].
  eapply IH; [exact A1 | exact T1 | exact HF2 | exact H].
Qed.

Lemma map_sn_AI rqf rqs sol l : forall c m c' m',
  AI rqf rqs c -> QI none [] c -> map_sn_fits c m sol l = true -> map_sn c m sol l = Ok (c', m') -> AI rqf rqs c'.
Proof.
  induction l as [|[[rq v] counts] r IH]; cbn [map_sn map_sn_fits]; intros c m c' m' HA V HF H; [inversion H; subst; exact HA|].
  bstep H rqd Hrqd. bstep H q Hq. bstep H x Hx. destruct x as [tasks q']. bstep H y Hy. destruct y as [c2 m2].
  rewrite Hrqd, Hq, Hx in HF. cbv zeta in HF. apply andb_true_iff in HF. destruct HF as [HF1 HF2]. rewrite Hy in HF2.
  apply nth_queue_ok in Hq.
  pose proof (nth_error_Forall _ _ _ _ (qv_wf _ _ _ _ _ _ V) Hq) as W.
  destruct (q_take_tasks_D _ _ _ _ _ W Hx) as [T ND].
  assert (HT : Forall (fun id => rq_res rqd = rqf id) tasks).
  { rewrite Forall_forall. intros x Hin.
    destruct (qv_live _ _ _ _ _ _ V _ _ x Hq (TakeQ_taken_member _ _ _ _ T Hin)) as (t & Hf & Hi).
    apply N2Nat.inj in Hi. destruct (AI_find _ _ _ _ _ HA Hf) as [E1 E2]. rewrite <- E2, <- E1, Hi, <- (AI_rqs _ _ _ HA).
    symmetry. apply get_rq_lk. exact Hrqd. }
  eapply IH; [| |exact HF2 | exact H].
  - eapply rr_loop_AI; [|exact HT | exact HF1 | exact Hy]. ai_frame. exact HA.
  - eapply rr_loop_QI; [| |exact Hy].
    + apply ND. eapply QV_uniq; [exact V | exact Hq].
    + unfold QI. cbn [c_tasks c_queues c_redirects c_rqs with_queues]. eapply QV_take; eassumption.
Qed.

(** * The multi-node mapping and the proactive filling do not touch a counter *)
Lemma set_mn_workers_AI rqf rqs l : forall c id first c', AI rqf rqs c -> set_mn_workers c id l first = Ok c' -> AI rqf rqs c'.
Proof.
  induction l as [|w r IH]; cbn [set_mn_workers]; intros c id first c' HA H; [inversion H; subst; exact HA|].
  bstep H wk Hw. bstep H wk' Hw'. eapply IH; [|exact H]. apply AI_upd_worker; [exact HA | eapply accw_set_mn; exact Hw'].
Qed.

Lemma map_mn_sets_AI rqf rqs sets : forall c rq mn c' mn', AI rqf rqs c -> map_mn_sets c rq mn sets = Ok (c', mn') -> AI rqf rqs c'.
Proof.
  induction sets as [|ws r IH]; cbn [map_mn_sets]; intros c rq mn c' mn' HA H; [inversion H; subst; exact HA|].
  bstep H q Hq. destruct (q_take_one q) as [[id q']|]; [|discriminate].
  bstep H c2 Hc2. bstep H t Ht. apply get_task_find in Ht.
  destruct (t_state t) as [n| | | | | |]; try discriminate. destruct n; [|discriminate].
  eapply IH; [|exact H].
  assert (A2 : AI rqf rqs c2) by (eapply set_mn_workers_AI; [|exact Hc2]; ai_frame; exact HA).
  eapply AI_upd_same; [exact A2 | exact Ht | reflexivity | reflexivity].
Qed.

Lemma map_mn_AI rqf rqs l : forall c mn c' mn', AI rqf rqs c -> map_mn c mn l = Ok (c', mn') -> AI rqf rqs c'.
Proof.
  induction l as [|[[rq v] sets] r IH]; cbn [map_mn]; intros c mn c' mn' HA H; [inversion H; subst; exact HA|].
  bstep H x Hx. destruct x as [c1 mn1]. eapply IH; [|exact H]. eapply map_mn_sets_AI; eassumption.
Qed.

Lemma prefill_mark_AI rqf rqs l : forall c w c', AI rqf rqs c -> prefill_mark c w l = Ok c' -> AI rqf rqs c'.
Proof.
  induction l as [|id r IH]; cbn [prefill_mark]; intros c w c' HA H; [inversion H; subst; exact HA|].
  bstep H t Ht. apply get_task_find in Ht. destruct (negb (is_waiting t)); [discriminate|].
  bstep H wk Hw. bstep H wk' Hw'. eapply IH; [|exact H].
  apply AI_upd_worker; [eapply AI_upd_same; [exact HA | exact Ht | reflexivity | reflexivity]|].
  eapply accw_insert_prefill; [eapply ACCW_get; [exact (AI_workers _ _ _ HA) | exact Hw] | exact Hw'].
Qed.

Lemma prefill_workers_AI rqf rqs ws : forall c m qi psize c' m', AI rqf rqs c -> prefill_workers c m qi psize ws = Ok (c', m') -> AI rqf rqs c'.
Proof.
  induction ws as [|w r IH]; cbn [prefill_workers]; intros c m qi psize c' m' HA H; [inversion H; subst; exact HA|].
  bstep H q Hq. bstep H x Hx. destruct x as [ids q']. bstep H c2 Hc2. eapply IH; [|exact H].
  eapply prefill_mark_AI; [|exact Hc2]. ai_frame. exact HA.
Qed.

Lemma prefill_queues_AI rqf rqs n : forall c m worder qi top c' m',
  AI rqf rqs c -> prefill_queues c m worder qi n top = Ok (c', m') -> AI rqf rqs c'.
Proof.
  induction n as [|k IH]; cbn [prefill_queues]; intros c m worder qi top c' m' HA H; [inversion H; subst; exact HA|].
  bstep H q Hq.
  destruct (q_top_priority q) as [tp|]; [|eapply IH; eassumption].
  destruct (negb (Z.eqb tp top)); [eapply IH; eassumption|].
  destruct (N.eqb _ 0); [eapply IH; eassumption|].
  destruct (existsb _ (q_top_task_ids q)).
  - destruct (forallb _ (q_top_task_ids q)); [eapply IH; eassumption | discriminate].
  - match type of H with match ?ws with [] => _ | _ => _ end = _ => destruct ws eqn:Ews end; [eapply IH; eassumption|].
    destruct (N.eqb _ 0); [eapply IH; eassumption|].
    bstep H x Hx. destruct x as [c1 m1]. eapply IH; [|exact H]. eapply prefill_workers_AI; eassumption.
Qed.

Lemma run_scheduling_AI rqf rqs s sol s' :
  AIS rqf rqs s -> QI none [] (core_of s) -> sched_fits (core_of s) sol = true -> run_scheduling s sol = Ok s' -> AIS rqf rqs s'.
Proof.
  unfold run_scheduling, sched_fits. intros HA V HF H. cbv zeta in H. destruct (negb (perm_of_set _ _)); [discriminate|].
  bstep H x1 H1. destruct x1 as [c1 m1]. bstep H x2 H2. destruct x2 as [c2 mn]. bstep H x3 H3. destruct x3 as [c3 m3].
  bstep H s1 H4. bstep H s2 H5. inversion H; subst; clear H.
  pose proof (map_sn_AI _ _ _ _ _ _ _ _ HA V HF H1) as A1.
  pose proof (map_mn_AI _ _ _ _ _ _ _ A1 H2) as A2.
  assert (A3 : AI rqf rqs c3).
  { destruct (queues_top_priority (c_queues c2)); [|inversion H3; subst; exact A2]. eapply prefill_queues_AI; eassumption. }
  unfold AIS. cbn. ai_frame. rewrite (send_mn_core _ _ _ H5), (send_mapping_core _ _ _ H4). exact A3.
Qed.
