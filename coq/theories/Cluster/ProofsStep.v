(** The job-layer invariant (C13) lifted to the WHOLE cluster model: after every history of
    [Sys.step] operations - client requests, message deliveries in any order, scheduling rounds with
    any solver answer, worker losses, task ends - that the model processes without panicking, the
    counters of every job equal the number of its tasks per state. *)
From HQ Require Import Base.Prelude Cluster.Types Cluster.Core Cluster.Reactor Cluster.Worker Cluster.Server Cluster.Sys Cluster.Monitors Cluster.ProofsJob.
From Coq Require Import ZArith Lia.
Local Open Scope N_scope.

Arguments N.add : simpl never.
Arguments N.sub : simpl never.

(** Invert every [bind] of a monadic computation [H : ... = Ok _]: the intermediate results are
    named [a*], the equations [E*]; [H] remains the equation of the rest. *)
Ltac step_bind H :=
  match type of H with
  | bind _ _ = Ok _ =>
      let a := fresh "a" in let E := fresh "E" in
      apply bind_ok in H; destruct H as (a & E & H); cbv beta in H
  | (let '(_, _) := ?x in _) = Ok _ => destruct x
  | context [match ?x with (_, _) => _ end] => is_var x; destruct x
  end.
Ltac inv_binds H := repeat (step_bind H).

Ltac same_of X := first [ apply send_worker_hq in X | apply send_all_hq in X | apply process_retracted_hq in X
                         | apply on_cancel_tasks_hq in X | apply on_new_tasks_hq in X ].

Definition hq_same (s s' : st) : Prop := hq_of s' = hq_of s.

Lemma hq_same_ok s s' : hq_same s s' -> HOK (hq_of s) -> HOK (hq_of s').
Proof. unfold hq_same. intros ->. auto. Qed.

(** * Reactor *)
Lemma task_failed_ok s w id k s' : HOK (hq_of s) -> task_failed s w id k = Ok s' -> HOK (hq_of s').
Proof.
  intros H Hc. unfold task_failed in Hc.
  destruct (find_task _ id) as [t|]; [|inversion Hc; subst; exact H].
  inv_binds Hc.
  match goal with X : process_task_failed _ _ _ _ = Ok (?s1, ?ids) |- _ =>
    assert (H1 : HOK (hq_of s1)) by (eapply process_task_failed_ok; [|exact X]; exact H);
    destruct ids; [inversion Hc; subst; exact H1|] end.
  rewrite (on_cancel_tasks_hq _ _ _ Hc). exact H1.
Qed.

Lemma task_finished_ok s w id s' b : HOK (hq_of s) -> task_finished s w id = Ok (s', b) -> HOK (hq_of s').
Proof.
  intros H Hc. unfold task_finished in Hc.
  destruct (find_task _ id) as [t|]; [|inversion Hc; subst; exact H].
  inv_binds Hc.
  match goal with X : process_task_finished _ _ = Ok ?s1 |- _ =>
    assert (H1 : HOK (hq_of s1)) by (eapply process_task_finished_ok; [|exact X]; exact H) end.
  match goal with X : process_retracted _ _ = Ok _ |- _ => apply process_retracted_hq in X; cbn in X end.
  match type of Hc with match ?st with _ => _ end = _ => destruct st; try discriminate end.
  inversion Hc; subst. unfold hq_of, st_core in *. cbn in *.
  match goal with X : s_hq _ = s_hq _ |- _ => rewrite X end. exact H1.
Qed.

Lemma task_running_ok s w id rv s' b : HOK (hq_of s) -> task_running s w id rv = Ok (s', b) -> HOK (hq_of s').
Proof.
  intros H Hc. unfold task_running in Hc.
  destruct (find_task _ id) as [t|]; [|inversion Hc; subst; exact H].
  inv_binds Hc. inversion Hc; subst.
  match goal with X : process_task_started ?s1 _ _ _ _ = Ok _ |- _ =>
    eapply process_task_started_ok; [|exact X] end.
  match goal with X : match t_state t with _ => _ end = Ok _ |- _ => rename X into Hm end.
  destruct (t_state t); try discriminate.
  - destruct (negb (N.eqb w0 w)); [discriminate|]. destruct (negb (N.eqb rv0 rv)); [discriminate|]. inversion Hm; subst. exact H.
  - destruct (negb (N.eqb w0 w)); [discriminate|]. inv_binds Hm. inversion Hm; subst. exact H.
  - destruct (negb (N.eqb w0 w)); [discriminate|]. inv_binds Hm. inversion Hm; subst. exact H.
  - destruct ws; [discriminate|]. destruct (N.eqb w0 w); [|discriminate]. inversion Hm; subst. exact H.
Qed.

Lemma requeue_same s t c1 s' b :
  (do (qs, ret) <- add_ready_task (c_queues c1) (with_state t (Waiting 0));
   do s'' <- process_retracted (st_core s (with_queues (upd_task c1 (with_state t (Waiting 0))) qs)) ret;
   Ok (s'', true)) = Ok (s', b) -> hq_same s s'.
Proof.
  intros Hx. inv_binds Hx. inversion Hx; subst.
  match goal with X : process_retracted _ _ = Ok _ |- _ => apply process_retracted_hq in X; unfold hq_same; rewrite X end.
  reflexivity.
Qed.

Lemma task_reject_same s w id rv s' b : task_reject s w id rv = Ok (s', b) -> hq_same s s'.
Proof.
  intros Hc. unfold task_reject in Hc.
  destruct (find_task _ id) as [t|]; [|inversion Hc; subst; reflexivity].
  inv_binds Hc.
  destruct (t_state t) eqn:Est; try (eapply requeue_same; exact Hc).
  match type of Hc with (match ?cont with true => _ | false => _ end) = _ => destruct cont end.
  - match type of Hc with (match ?x with Some _ => _ | None => _ end) = _ => destruct x as [[target rvt]|] end.
    + inv_binds Hc. inversion Hc; subst.
      match goal with X : send_worker _ _ _ = Ok _ |- _ => apply send_worker_hq in X; unfold hq_same; rewrite X end. reflexivity.
    + eapply requeue_same; exact Hc.
  - inversion Hc; subst. reflexivity.
Qed.

Lemma request_enabled_same s w rq rv s' : request_enabled s w rq rv = Ok s' -> hq_same s s'.
Proof. unfold request_enabled. intros H. inv_binds H. inversion H; subst. reflexivity. Qed.

Lemma apply_updates_ok us : forall s w need s' need',
  HOK (hq_of s) -> apply_updates s w us need = Ok (s', need') -> HOK (hq_of s').
Proof.
  induction us as [|u r IH]; cbn [apply_updates]; intros s w need s' need' H Hc; [inversion Hc; subst; exact H|].
  apply bind_ok in Hc. destruct Hc as ([s1 n1] & Hu & Hc). eapply IH; [|exact Hc].
  destruct u.
  - eapply task_finished_ok; eassumption.
  - inv_binds Hu. inversion Hu; subst. eapply task_failed_ok; eassumption.
  - eapply task_running_ok; eassumption.
  - eapply task_running_ok; eassumption.
  - eapply hq_same_ok; [eapply task_reject_same; exact Hu | exact H].
  - inv_binds Hu. inversion Hu; subst. eapply hq_same_ok; [eapply request_enabled_same; eassumption | exact H].
Qed.

Lemma on_task_update_ok s w us s' : HOK (hq_of s) -> on_task_update s w us = Ok s' -> HOK (hq_of s').
Proof.
  intros H Hc. unfold on_task_update in Hc. apply bind_ok in Hc. destruct Hc as ([s1 need] & Hu & Hc).
  pose proof (apply_updates_ok _ _ _ _ _ _ H Hu) as H1.
  destruct (need && _); inversion Hc; subst; exact H1.
Qed.

Lemma send_redirected_same gs : forall s s', send_redirected s gs = Ok s' -> hq_same s s'.
Proof.
  induction gs as [|[target ts] r IH]; cbn [send_redirected]; intros s s' H; [inversion H; reflexivity|].
  inv_binds H. unfold hq_same. rewrite (IH _ _ H).
  match goal with X : send_worker _ _ _ = Ok _ |- _ => apply send_worker_hq in X; exact X end.
Qed.

Lemma on_retract_response_same s w ids s' : on_retract_response s w ids = Ok s' -> hq_same s s'.
Proof.
  unfold on_retract_response. destruct (retract_response_states _ w ids []) as [c' groups].
  intros H. apply bind_ok in H. destruct H as (s2 & H & H2).
  destruct (retract_wakes _ _ _ _); inversion H2; subst s'; clear H2; apply send_redirected_same in H; exact H.
Qed.

(** * Server *)
Lemma lost_retracting_same l : forall s w s', lost_retracting s w l = Ok s' -> hq_same s s'.
Proof.
  induction l as [|id r IH]; cbn [lost_retracting]; intros s w s' H; [inversion H; reflexivity|].
  apply bind_ok in H. destruct H as (t & _ & H).
  destruct (t_state t); try (eapply IH; exact H).
  destruct (N.eqb w w0); [|eapply IH; exact H].
  destruct (find_redirect _ id) as [[target rv]|].
  - inv_binds H. unfold hq_same. rewrite (IH _ _ _ H).
    match goal with X : send_worker _ _ _ = Ok _ |- _ => apply send_worker_hq in X; exact X end.
  - apply IH in H. exact H.
Qed.

Lemma lost_fail_running_ok l : forall s reason s', HOK (hq_of s) -> lost_fail_running s reason l = Ok s' -> HOK (hq_of s').
Proof.
  induction l as [|id r IH]; cbn [lost_fail_running]; intros s reason s' H Hc; [inversion Hc; subst; exact H|].
  destruct (find_task _ id) as [t|]; [|eapply IH; eassumption].
  destruct (t_climit t).
  - inv_binds Hc. eapply IH; [|exact Hc]. eapply task_failed_ok; eassumption.
  - destruct (reason_is_failure reason); [|eapply IH; eassumption].
    destruct (increment_crash_counter t) as [t' limit]. destruct limit.
    + inv_binds Hc. eapply IH; [|exact Hc]. eapply task_failed_ok; [|eassumption]. exact H.
    + eapply IH; [|exact Hc]. exact H.
  - destruct (reason_is_failure reason); [|eapply IH; eassumption].
    destruct (increment_crash_counter t) as [t' limit]. destruct limit.
    + inv_binds Hc. eapply IH; [|exact Hc]. eapply task_failed_ok; [|eassumption]. exact H.
    + eapply IH; [|exact Hc]. exact H.
Qed.

Lemma on_remove_worker_ok s w reason a p t s' :
  HOK (hq_of s) -> on_remove_worker s w reason a p t = Ok s' -> HOK (hq_of s').
Proof.
  intros H Hc. unfold on_remove_worker in Hc.
  destruct (find_worker _ w) as [wk|]; [|discriminate].
  apply bind_ok in Hc. destruct Hc as ([[c2 running] retracted] & _ & Hc).
  destruct (negb (perm_of_set t _)); [discriminate|].
  inv_binds Hc. inversion Hc; subst.
  change (HOK (hq_of (ask_scheduling a3))) with (HOK (hq_of a3)).
  eapply lost_fail_running_ok; [|eassumption].
  eapply process_worker_lost_ok; [|eassumption].
  match goal with X : process_retracted _ _ = Ok _ |- _ => apply process_retracted_hq in X; rename X into R1 end.
  match goal with X : lost_retracting _ _ _ = Ok _ |- _ => apply lost_retracting_same in X; rename X into R2 end.
  change (HOK (hq_of a1)). unfold hq_same in R2. rewrite R1, R2. exact H.
Qed.

Lemma send_mapping_same m : forall s s', send_mapping s m = Ok s' -> hq_same s s'.
Proof.
  induction m as [|u r IH]; cbn [send_mapping]; intros s s' H; [inversion H; reflexivity|].
  apply bind_ok in H. destruct H as (s1 & H1 & H).
  apply bind_ok in H. destruct H as (cts1 & _ & H).
  apply bind_ok in H. destruct H as (cts2 & _ & H).
  apply bind_ok in H. destruct H as (s2 & H2 & H).
  unfold hq_same. rewrite (IH _ _ H).
  assert (E2 : hq_of s2 = hq_of s1) by (destruct (cts1 ++ cts2); [inversion H2; reflexivity | eapply send_worker_hq; exact H2]).
  assert (E1 : hq_of s1 = hq_of s) by (destruct (wu_retracts u); [inversion H1; reflexivity | eapply send_worker_hq; exact H1]).
  congruence.
Qed.

Lemma send_mn_same l : forall s s', send_mn s l = Ok s' -> hq_same s s'.
Proof.
  induction l as [|id r IH]; cbn [send_mn]; intros s s' H; [inversion H; reflexivity|].
  apply bind_ok in H. destruct H as (t & _ & H).
  destruct (t_state t); try discriminate. destruct ws; [discriminate|].
  apply bind_ok in H. destruct H as (s1 & H1 & H).
  unfold hq_same. rewrite (IH _ _ H). eapply send_worker_hq; exact H1.
Qed.

Lemma run_scheduling_same s sol s' : run_scheduling s sol = Ok s' -> hq_same s s'.
Proof.
  unfold run_scheduling. destruct (negb (perm_of_set _ _)); [discriminate|].
  intros H. inv_binds H. inversion H; subst.
  match goal with X : send_mapping _ _ = Ok _ |- _ => apply send_mapping_same in X; rename X into R1 end.
  match goal with X : send_mn _ _ = Ok _ |- _ => apply send_mn_same in X; rename X into R2 end.
  unfold hq_same, hq_of in *. cbn in *. congruence.
Qed.

Lemma on_new_worker_same s rs g s' : on_new_worker s rs g = Ok s' -> hq_same s s'.
Proof. unfold on_new_worker. intros H. inversion H; subst. reflexivity. Qed.

Lemma get_or_create_rq_same s r : hq_same s (fst (get_or_create_rq s r)).
Proof. unfold get_or_create_rq. destruct (rq_index _ r 0); reflexivity. Qed.

(** * Submits *)

(** Attaching new (Waiting) tasks keeps the counters exact. *)
Lemma attach_ids_ok ids : forall j j', JOK j -> j_completed j = false -> attach_ids j ids = Ok j' ->
  JOK j' /\ j_completed j' = false /\ j_id j' = j_id j.
Proof.
  induction ids as [|i r IH]; cbn [attach_ids]; intros j j' Hj Hc H; [inversion H; subst; auto|].
  destruct (jt_find (j_tasks j) i) eqn:Ef; [discriminate|].
  assert (Hj1 : JOK (job_set_task j i JW)).
  { destruct Hj as [Ss R F X C A Cm].
    pose proof (fun v => cnt_set_none _ _ JW v Ef) as HC.
    constructor; cbn; auto using jt_set_sorted;
      try (match goal with |- _ = cnt _ ?v => specialize (HC v); cbn [jst_eqb] in HC; lia end).
    rewrite Hc. discriminate. }
  destruct (IH _ _ Hj1 Hc H) as (A1 & A2 & A3). auto.
Qed.

Lemma submit_ok_resp_same s jid s' : submit_ok_resp s jid = Ok s' -> hq_same s s'.
Proof. unfold submit_ok_resp. intros H. inv_binds H. inversion H; subst. reflexivity. Qed.

Lemma JOK_new_job jid open mf : JOK (mkJob jid open [] 0 0 0 0 0 false mf).
Proof. constructor; cbn; auto. discriminate. Qed.

Lemma open_not_completed j : JOK j -> j_open j = true -> j_completed j = false.
Proof.
  intros H Ho. destruct (j_completed j) eqn:E; [|reflexivity].
  destruct (jok_completed _ H E) as (Hf & _). congruence.
Qed.

Lemma find_job_set' js x id : find_job (set_job js x) id = if N.eqb id (j_id x) then Some x else find_job js id.
Proof.
  induction js as [|h r IH]; cbn [set_job find_job]; [reflexivity|].
  destruct (N.eqb (j_id x) (j_id h)) eqn:E1.
  - apply N.eqb_eq in E1. cbn [find_job]. rewrite <- E1. destruct (N.eqb id (j_id x)); reflexivity.
  - destruct (N.ltb (j_id x) (j_id h)); cbn [find_job]; [reflexivity|].
    destruct (N.eqb id (j_id h)) eqn:E2; [apply N.eqb_eq in E2; subst id; rewrite N.eqb_sym, E1; reflexivity | apply IH].
Qed.

(** The common tail of both submit handlers: the (new or open) job receives the ids, the core the
    tasks, the client the response. *)
Lemma submit_tail_ok s4 jid ids tasks s' :
  HOK (hq_of s4) ->
  (forall j, find_job (hq_jobs s4) jid = Some j -> j_completed j = false) ->
  (do j <- hq_get_job s4 jid 222;
   do j' <- attach_ids j ids;
   do s6 <- on_new_tasks (hq_set_job s4 j') tasks;
   submit_ok_resp s6 jid) = Ok s' ->
  HOK (hq_of s').
Proof.
  intros H Hnc Hc. inv_binds Hc.
  match goal with X : hq_get_job s4 jid 222 = Ok ?j |- _ =>
    pose proof (hq_get_job_ok _ _ _ _ H X) as Hj;
    assert (Hcj : j_completed j = false) by (apply Hnc; unfold hq_get_job in X; unfold hq_jobs; destruct (find_job _ jid); inversion X; reflexivity) end.
  match goal with X : attach_ids _ _ = Ok ?j' |- _ => destruct (attach_ids_ok _ _ _ Hj Hcj X) as (Hj' & _ & _) end.
  match goal with X : on_new_tasks _ _ = Ok _ |- _ => apply on_new_tasks_hq in X; rename X into R1 end.
  apply submit_ok_resp_same in Hc. unfold hq_same in Hc. rewrite Hc, R1.
  apply hq_set_job_ok; assumption.
Qed.

Lemma hq_with_counter_ok s cnt' : HOK (hq_of s) -> HOK (hq_of (hq_with s (hq_jobs s) cnt')).
Proof. intros H x Hx. apply H. exact Hx. Qed.

(** State right before the common tail: [s3] holds the job [jid], either freshly created (empty,
    not completed) or an existing open one. *)
Lemma submit_prepare_ok s1 jid is_new mf ev :
  HOK (hq_of s1) ->
  (is_new = false -> exists j, find_job (hq_jobs s1) jid = Some j /\ j_open j = true) ->
  let s2 := emit s1 ev in
  let s3 := if is_new : bool then hq_with s2 (set_job (hq_jobs s2) (mkJob jid false [] 0 0 0 0 0 false mf)) (hq_counter s2) else s2 in
  HOK (hq_of s3) /\ (forall j, find_job (hq_jobs s3) jid = Some j -> j_completed j = false).
Proof.
  intros H Hopen s2 s3. subst s3 s2. destruct is_new.
  - split.
    + intros x Hx. unfold hq_of, hq_with in Hx. cbn in Hx. apply set_job_in in Hx.
      destruct Hx as [->|Hx]; [apply JOK_new_job | apply H; exact Hx].
    + intros j Hj. unfold hq_jobs, hq_with in Hj. cbn in Hj. rewrite find_job_set' in Hj. cbn in Hj.
      rewrite N.eqb_refl in Hj. inversion Hj; subst. reflexivity.
  - split; [exact H|]. intros j Hj. destruct (Hopen eq_refl) as (j0 & Hf & Ho).
    unfold hq_jobs in *. cbn in Hj. rewrite Hf in Hj. inversion Hj; subst.
    apply open_not_completed; [apply H; eapply find_job_in; exact Hf | exact Ho].
Qed.

Lemma get_or_create_rq_keeps s r s4 rqi :
  get_or_create_rq s r = (s4, rqi) -> hq_of s4 = hq_of s.
Proof. intros E. pose proof (get_or_create_rq_same s r) as H. rewrite E in H. exact H. Qed.

Lemma handle_submit_array_ok s jobsel ids entries rq prio cl tlim mf s' :
  HOK (hq_of s) -> handle_submit_array s jobsel ids entries rq prio cl tlim mf = Ok s' -> HOK (hq_of s').
Proof.
  intros H Hc. unfold handle_submit_array in Hc.
  match type of Hc with (match ?x with Some _ => _ | None => _ end) = _ => destruct x end; [inversion Hc; subst; exact H|].
  apply bind_ok in Hc. destruct Hc as ([acc s1] & Hr & Hc).
  destruct acc as [[[jid is_new] ids']|].
  - (* accepted *)
    assert (Hs1 : HOK (hq_of s1) /\ (is_new = false -> exists j, find_job (hq_jobs s1) jid = Some j /\ j_open j = true)).
    { destruct jobsel as [j0|].
      - destruct (find_job (hq_jobs s) j0) as [j|] eqn:Ef; [|inversion Hr].
        destruct (negb (j_open j)) eqn:Eo; [inversion Hr|]. inversion Hr; subst. split; [exact H|].
        intros _. exists j. split; [exact Ef|]. apply negb_false_iff in Eo. exact Eo.
      - inversion Hr; subst. split; [apply hq_with_counter_ok; exact H | discriminate]. }
    destruct Hs1 as [Hs1 Hopen].
    cbv zeta in Hc.
    match type of Hc with context [get_or_create_rq ?s3 rq] => destruct (get_or_create_rq s3 rq) as [s4 rqi] eqn:Erq;
      destruct (submit_prepare_ok s1 jid is_new mf (OEv (EvSubmit jid is_new (N.of_nat (length ids')))) Hs1 Hopen) as [H3 Hnc3] end.
    pose proof (get_or_create_rq_keeps _ _ _ _ Erq) as E4.
    eapply (submit_tail_ok s4 jid ids'); [rewrite E4; exact H3 | | exact Hc].
    intros j Hj. apply Hnc3. unfold hq_jobs, hq_of in *. rewrite <- E4. exact Hj.
  - (* rejected: nothing changed *)
    assert (hq_same s s1).
    { destruct jobsel as [jid|]; [|inversion Hr].
      destruct (find_job (hq_jobs s) jid) as [j|]; [|inversion Hr; subst; reflexivity].
      destruct (negb (j_open j)); inversion Hr; subst; reflexivity. }
    assert (hq_same s1 s').
    { destruct jobsel; [match type of Hc with (match ?x with Some _ => _ | None => _ end) = _ => destruct x end|];
        inversion Hc; subst; reflexivity. }
    unfold hq_same in *.
    repeat match goal with X : hq_of _ = hq_of _ |- _ => rewrite X; clear X end. exact H.
Qed.

Lemma fold_rqs_same rqs : forall s l s4 rqis,
  fold_left (fun acc r => let '(s, l) := acc in let '(s', i) := get_or_create_rq s r in (s', l ++ [i])) rqs (s, l) = (s4, rqis) ->
  hq_of s4 = hq_of s.
Proof.
  induction rqs as [|r rest IH]; cbn [fold_left]; intros s l s4 rqis H; [inversion H; reflexivity|].
  destruct (get_or_create_rq s r) as [s1 i] eqn:E. rewrite (IH _ _ _ _ H). eapply get_or_create_rq_keeps; exact E.
Qed.

Lemma handle_submit_graph_ok s jobsel rqs ts mf s' :
  HOK (hq_of s) -> handle_submit_graph s jobsel rqs ts mf = Ok s' -> HOK (hq_of s').
Proof.
  intros H Hc. unfold handle_submit_graph in Hc.
  apply bind_ok in Hc. destruct Hc as (v1 & _ & Hc).
  match type of Hc with (match ?x with Some _ => _ | None => _ end) = _ => destruct x end; [inversion Hc; subst; exact H|].
  apply bind_ok in Hc. destruct Hc as ([acc s1] & Hr & Hc).
  destruct acc as [[jid is_new]|].
  - assert (Hs1 : HOK (hq_of s1) /\ (is_new = false -> exists j, find_job (hq_jobs s1) jid = Some j /\ j_open j = true)).
    { destruct jobsel as [j0|].
      - destruct (find_job (hq_jobs s) j0) as [j|] eqn:Ef; [|inversion Hr].
        destruct (negb (j_open j)) eqn:Eo; [inversion Hr|]. inversion Hr; subst. split; [exact H|].
        intros _. exists j. split; [exact Ef|]. apply negb_false_iff in Eo. exact Eo.
      - inversion Hr; subst. split; [apply hq_with_counter_ok; exact H | discriminate]. }
    destruct Hs1 as [Hs1 Hopen].
    cbv zeta in Hc.
    match type of Hc with context [fold_left ?f rqs (?s3, [])] => destruct (fold_left f rqs (s3, [])) as [s4 rqis] eqn:Erq;
      destruct (submit_prepare_ok s1 jid is_new mf (OEv (EvSubmit jid is_new (N.of_nat (length ts)))) Hs1 Hopen) as [H3 Hnc3] end.
    pose proof (fold_rqs_same _ _ _ _ _ Erq) as E4.
    (* the tail has the graph's task construction between attach and on_new_tasks *)
    inv_binds Hc.
    match goal with X : hq_get_job s4 jid 222 = Ok ?j |- _ =>
      assert (Hj : JOK j) by (eapply hq_get_job_ok; [rewrite E4; exact H3 | exact X]);
      assert (Hcj : j_completed j = false) by
        (apply Hnc3; unfold hq_get_job in X; unfold hq_jobs, hq_of in *; rewrite <- E4; destruct (find_job _ jid); inversion X; reflexivity) end.
    match goal with X : attach_ids _ _ = Ok ?j' |- _ => destruct (attach_ids_ok _ _ _ Hj Hcj X) as (Hj' & _ & _) end.
    match goal with X : on_new_tasks _ _ = Ok _ |- _ => apply on_new_tasks_hq in X; rename X into R1 end.
    apply submit_ok_resp_same in Hc. unfold hq_same in Hc. rewrite Hc, R1.
    apply hq_set_job_ok; [rewrite E4; exact H3 | exact Hj'].
  - assert (hq_same s s1).
    { destruct jobsel as [jid|]; [|inversion Hr].
      destruct (find_job (hq_jobs s) jid) as [j|]; [|inversion Hr; subst; reflexivity].
      destruct (negb (j_open j)); inversion Hr; subst; reflexivity. }
    inversion Hc; subst. unfold hq_same in *.
    repeat match goal with X : hq_of _ = hq_of _ |- _ => rewrite X; clear X end. exact H.
Qed.

(** * One step of the whole system *)
Theorem step_hq_ok s o s' outs : HOK (s_hq s) -> step s o = Ok (s', outs) -> HOK (s_hq s').
Proof.
  intros H Hc. change (HOK (hq_of (s', outs))). change (HOK (hq_of (s, @nil out))) in H.
  destruct o; cbn [step] in Hc.
  - eapply hq_same_ok; [eapply on_new_worker_same; exact Hc | exact H].
  - destruct (find_proc _ w); [|discriminate]. eapply on_remove_worker_ok; eassumption.
  - destruct (bad_submit_lengths _ _); [inversion Hc; subst; exact H|]. eapply handle_submit_array_ok; eassumption.
  - destruct (bad_graph_rq _ _); [inversion Hc; subst; exact H|]. destruct (dead_dep _ _ _); [inversion Hc; subst; exact H|]. eapply handle_submit_graph_ok; eassumption.
  - eapply handle_open_ok; eassumption.
  - eapply handle_close_ok; eassumption.
  - eapply handle_cancel_ok; eassumption.
  - eapply handle_forget_ok; eassumption.
  - destruct (find_proc _ w) as [p|]; [|discriminate]. destruct (p_down p); [discriminate|].
    inv_binds Hc. inversion Hc; subst. exact H.
  - destruct (find_proc _ w) as [p|]; [|discriminate]. destruct (p_up p) as [|m rest]; [discriminate|].
    destruct m.
    + eapply on_task_update_ok; [|exact Hc]. exact H.
    + eapply hq_same_ok; [eapply on_retract_response_same; exact Hc | exact H].
  - destruct (c_flag (s_core s)); [|discriminate]. eapply hq_same_ok; [eapply run_scheduling_same; exact Hc | exact H].
  - destruct (find_proc _ w) as [p|]; [|discriminate]. inv_binds Hc. inversion Hc; subst. exact H.
  - destruct (find_proc _ w) as [p|]; [|discriminate]. inversion Hc; subst. exact H.
  - inversion Hc; subst. exact H.
  - inv_binds Hc. inversion Hc; subst. exact H.
Qed.

(** Main theorem (C13 for the whole system model): after ANY history of operations - client
    requests, deliveries in any order, scheduling rounds with any solver answer, worker losses,
    task ends, timers - the job layer's counters are exact. *)
Theorem run_hq_ok ops : forall s s' outs, HOK (s_hq s) -> run s ops = Ok (s', outs) -> HOK (s_hq s').
Proof.
  induction ops as [|o r IH]; cbn [run]; intros s s' outs H Hc; [inversion Hc; subst; exact H|].
  apply bind_ok in Hc. destruct Hc as ([s1 o1] & H1 & Hc).
  apply bind_ok in Hc. destruct Hc as ([s2 o2] & H2 & Hc). inversion Hc; subst.
  eapply IH; [|exact H2]. eapply step_hq_ok; eassumption.
Qed.

Theorem system_counters_exact ops reserve maxfill s outs :
  run (init_sys reserve maxfill) ops = Ok (s, outs) -> hq_ok s = true.
Proof.
  intros H. apply HOK_hq_ok. eapply run_hq_ok; [|exact H]. intros j [].
Qed.
