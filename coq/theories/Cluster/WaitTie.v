(** * Tie of the wait model to the cluster harness: from the outputs of one step of the cluster
    model ([Sys.step]) to the environment labels of the wait model.

    The coordinator's driver (ocaml/cluster/driver.ml) accumulates one label list per trace:
    - op [SUBMITW ..] on connection k, model answer [RSubmitOk j n ids]:  [submitw_labels k n]
    - op [FLUSHDONE k] of a waiting connection:                           [[LFlushAck k]]
    - op [WAITCHECK k] with the implementation's line [= WAIT job=J completed=C delivered=D]:
                                                                          [waitcheck_labels k], observation (J, C, D)
    - every other op with model outputs [outs]:                           [wlabels_of_outs outs]
    and evaluates [wait_trace_ok labels observations] at the end of the trace (false = the real
    [client_rpc_loop] told the client something else than the model of its code). *)
From HQ Require Import Base.Prelude Cluster.Types Cluster.WaitModel.
Local Open Scope N_scope.

Definition wlabel_of_event (e : event) : list wlabel :=
  match e with
  | Types.EvSubmit j closed n => [LEnv (ESubmit (if closed then None else Some j) n)]
  | Types.EvOpen _ => [LEnv EOpen]
  | Types.EvClose j => [LEnv (ECloseJob j)]
  | EvFinished t => [LEnv (ETaskEnd (fst t) 1)]
  | EvFailed t _ => [LEnv (ETaskEnd (fst t) 1)]
  | EvAborted ts => match ts with t :: _ => [LEnv (ETaskEnd (fst t) (N.of_nat (length ts)))] | [] => [] end
  | EvCanceled ts => match ts with t :: _ => [LEnv (ECancel (fst t) (N.of_nat (length ts)))] | [] => [] end
  | Types.EvCompleted _ => []      (* derived by the wait model itself ([check_termination]) *)
  | EvJobCancel _ => []            (* part of [ECancel] *)
  | EvWConn _ | EvWLost _ _ | EvStarted _ _ _ _ => []   (* not job events: no listener of a waiting client accepts them *)
  end.

Fixpoint wlabels_of_outs (outs : list out) : list wlabel :=
  match outs with
  | [] => []
  | OEv e :: r => wlabel_of_event e ++ wlabels_of_outs r
  | _ :: r => wlabels_of_outs r
  end.

Definition submitw_labels (k : N) (n : N) : list wlabel := [LRequest k (RqSubmitWait None n (wait_filter false))].
Definition waitcheck_labels (k : N) : list wlabel := [LObserve k; LClose k].

Example wlabels_example :
  wlabels_of_outs [OEv (EvFailed (3, 0) FTask); OEv (Types.EvCompleted 3); OResp (RClose 0); OEv (EvCanceled [(4, 0); (4, 1)])]
  = [LEnv (ETaskEnd 3 1); LEnv (ECancel 4 2)].
Proof. reflexivity. Qed.
