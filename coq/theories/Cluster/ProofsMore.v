(** Further lemmas: legality of terminal transitions (C01, C08), totality of client requests
    (C09), auto-assigned ids (C02, C13), the worker's cancel / retract handling (C06, C08). *)
From HQ Require Import Base.Prelude Cluster.Types Cluster.Core Cluster.Reactor Cluster.Worker Cluster.Server Cluster.Sys Cluster.Monitors Cluster.ProofsJob.
From Coq Require Import ZArith Lia.
Require Import ZifyBool ZifyN ZifyNat.
Local Open Scope N_scope.

Arguments N.add : simpl never.
Arguments N.sub : simpl never.

Definition task_state (s : st) (t : tid) : option jstate :=
  match find_job (h_jobs (hq_of s)) (fst t) with
  | Some j => jt_find (j_tasks j) (snd t)
  | None => None
  end.
Definition terminal (v : jstate) : Prop := v = JF \/ v = JX \/ v = JC \/ v = JA.

(** * C01: an outcome is only ever recorded for a task that has none yet *)

(** A finish is accepted only for a task the job layer shows as Running (a second outcome or a
    finish without start panics the server instead of being reported). *)
Theorem finished_only_from_running s t s' :
  process_task_finished s t = Ok s' -> task_state s t = Some JR.
Proof.
  unfold process_task_finished, task_state, hq_get_job, hq_of. intros H.
  destruct (find_job _ (fst t)) as [j|]; [|discriminate]. cbn [bind] in H.
  destruct (jt_find (j_tasks j) (snd t)) as [[]|]; try discriminate. reflexivity.
Qed.

Theorem failed_only_from_active s t aborted k r :
  process_task_failed s t aborted k = Ok r ->
  exists s1, abort_tasks s (fst t) aborted = Ok s1 /\ (task_state s1 t = Some JW \/ task_state s1 t = Some JR).
Proof.
  unfold process_task_failed. intros H. apply bind_ok in H. destruct H as (s1 & H1 & H).
  exists s1. split; [exact H1|].
  unfold task_state, hq_get_job, hq_of in *.
  destruct (find_job _ (fst t)) as [j|]; [|discriminate]. cbn [bind] in H.
  destruct (jt_find (j_tasks j) (snd t)) as [[]|]; try discriminate; auto.
Qed.

(** Cancel / abort: every task in the list was Waiting or Running in the job as it was before the
    call (never already terminal); in particular the list has no duplicates. *)
Lemma jt_find_set_same l t v : jt_find (jt_set l t v) t = Some v.
Proof.
  induction l as [|[k x] r IH]; cbn [jt_set jt_find]; [rewrite N.eqb_refl; reflexivity|].
  destruct (N.eqb t k) eqn:E; [cbn [jt_find]; rewrite N.eqb_refl; reflexivity|].
  destruct (N.ltb t k); cbn [jt_find]; [rewrite N.eqb_refl; reflexivity|]. rewrite E. exact IH.
Qed.
Lemma jt_find_set_other l t v t' : t' <> t -> jt_find (jt_set l t v) t' = jt_find l t'.
Proof.
  intros Hne. induction l as [|[k x] r IH]; cbn [jt_set jt_find].
  - destruct (N.eqb t' t) eqn:E; [apply N.eqb_eq in E; contradiction | reflexivity].
  - destruct (N.eqb t k) eqn:E1.
    + apply N.eqb_eq in E1; subst. cbn [jt_find].
      destruct (N.eqb t' k) eqn:E; [apply N.eqb_eq in E; contradiction | reflexivity].
    + destruct (N.ltb t k); cbn [jt_find].
      * destruct (N.eqb t' t) eqn:E; [apply N.eqb_eq in E; contradiction | reflexivity].
      * destruct (N.eqb t' k); [reflexivity | exact IH].
Qed.

Theorem mark_only_from_active target site ids : (target = JC \/ target = JA) -> forall j j',
  mark_tasks j ids target site = Ok j' ->
  forall t, In t ids -> jt_find (j_tasks j) (snd t) = Some JW \/ jt_find (j_tasks j) (snd t) = Some JR.
Proof.
  intros Ht. induction ids as [|x r IH]; cbn [mark_tasks]; intros j j' H t Hin; [destruct Hin|].
  destruct (negb (N.eqb (fst x) (j_id j))); [discriminate|].
  destruct (jt_find (j_tasks j) (snd x)) as [v|] eqn:Ef; [|discriminate].
  assert (Hnext : forall jn, j_tasks jn = jt_set (j_tasks j) (snd x) target ->
            mark_tasks jn r target site = Ok j' -> In t r ->
            jt_find (j_tasks j) (snd t) = Some JW \/ jt_find (j_tasks j) (snd t) = Some JR).
  { intros jn Hjn Hm Hr. specialize (IH _ _ Hm _ Hr). rewrite Hjn in IH.
    destruct (N.eq_dec (snd t) (snd x)) as [E|E].
    - rewrite E, jt_find_set_same in IH. destruct Ht; subst target; destruct IH; discriminate.
    - rewrite jt_find_set_other in IH by exact E. exact IH. }
  destruct Hin as [->|Hin].
  - destruct v; try discriminate; auto.
  - destruct v; try discriminate.
    + eapply (Hnext (job_set_task j (snd x) target)); [reflexivity | exact H | exact Hin].
    + apply bind_ok in H. destruct H as (nr & _ & H).
      eapply Hnext; [|exact H | exact Hin]. reflexivity.
Qed.

(** * C09: client requests cannot panic a consistent job layer *)
Theorem close_total s jid : HOK (hq_of s) -> is_panic (handle_close s jid) = false.
Proof.
  intros H. unfold handle_close.
  destruct (find_job (hq_jobs s) jid) as [j|] eqn:Ef; [|reflexivity].
  destruct (j_open j) eqn:Eo; [|reflexivity].
  set (j' := mkJob (j_id j) false (j_tasks j) (j_nrun j) (j_nfin j) (j_nfail j) (j_ncanc j) (j_nabort j) (j_completed j) (j_maxfails j)).
  assert (Hj' : JOK j').
  { pose proof (H _ (find_job_in _ _ _ Ef)) as [Ss R F X C A Cm]. constructor; cbn; auto.
    intros Hcm. destruct (Cm Hcm) as (Ho & _). congruence. }
  unfold check_termination.
  assert (Hid : j_id j = jid).
  { clear -Ef. revert Ef. unfold hq_jobs. induction (h_jobs (s_hq (fst s))) as [|h l IH]; cbn [find_job]; [discriminate|].
    destruct (N.eqb jid (j_id h)) eqn:E; intros H; [inversion H; subst; apply N.eqb_eq in E; auto | auto]. }
  assert (Hget : hq_get_job (emit (hq_set_job s j') (OEv (EvClose jid))) jid 212 = Ok j').
  { unfold hq_get_job, emit, hq_set_job. cbn.
    assert (j_id j' = jid) as Hj by (subst j'; cbn; exact Hid).
    clear -Hj. induction (h_jobs (s_hq (fst s))) as [|h l IH]; cbn [set_job find_job].
    - rewrite Hj, N.eqb_refl. reflexivity.
    - destruct (N.eqb (j_id j') (j_id h)) eqn:E1.
      + cbn [find_job]. rewrite Hj, N.eqb_refl. reflexivity.
      + destruct (N.ltb (j_id j') (j_id h)); cbn [find_job].
        * rewrite Hj, N.eqb_refl. reflexivity.
        * rewrite <- Hj. rewrite E1. rewrite Hj. exact IH. }
  rewrite Hget. cbn [bind]. rewrite (has_no_active_ok _ Hj'). cbn [bind].
  destruct (_ && _); [destruct (j_open j')|]; reflexivity.
Qed.

Theorem forget_total s jid : HOK (hq_of s) -> is_panic (handle_forget s jid) = false.
Proof.
  intros H. unfold handle_forget.
  destruct (find_job (hq_jobs s) jid) as [j|] eqn:Ef; [|reflexivity].
  rewrite (has_no_active_ok _ (H _ (find_job_in _ _ _ Ef))). cbn [bind].
  destruct (negb (j_open j) && _); reflexivity.
Qed.

Theorem open_total s mf : is_panic (handle_open s mf) = false.
Proof. reflexivity. Qed.

(** * C02 / C13: auto-assigned ids *)
Lemma range_from_length s n : length (range_from s n) = n.
Proof. revert s; induction n as [|n IH]; intros s; cbn [range_from length]; [reflexivity|]. rewrite IH. reflexivity. Qed.

Lemma range_from_in s n x : In x (range_from s n) <-> s <= x < s + N.of_nat n.
Proof.
  revert s; induction n as [|n IH]; intros s; cbn [range_from In].
  - lia.
  - rewrite IH. lia.
Qed.

Lemma take_n_all {A} (l : list A) : fst (take_n (length l) l) = l.
Proof. induction l as [|h t IH]; cbn [take_n length fst]; [reflexivity|]. destruct (take_n (length t) t) eqn:E. cbn in *. congruence. Qed.

(** The ids given to a submit with [n] entries into an open job are exactly the [n] ids following
    the largest existing id, and every one of them is handed to the scheduler (no phantom task). *)
Theorem auto_ids_exact (mx : N) (n : N) :
  let ids := range_from (mx + 1) (N.to_nat n) in
  N.of_nat (length ids) = n
  /\ (forall x, In x ids <-> mx < x <= mx + n)
  /\ fst (take_n (N.to_nat n) ids) = ids.
Proof.
  cbn zeta. split; [rewrite range_from_length; lia|]. split.
  - intros x. rewrite range_from_in. lia.
  - rewrite <- (range_from_length (mx + 1) (N.to_nat n)) at 1. apply take_n_all.
Qed.

(** * C08 / C06: the worker drops a cancelled or retracted task from its backlog *)
Definition in_backlog (p : wproc) (t : tid) : Prop :=
  exists rq ts x, In (rq, ts) (p_backlog p) /\ In x ts /\ wt_id x = t.

Lemma tid_eqb_refl t : tid_eqb t t = true.
Proof. unfold tid_eqb. rewrite !N.eqb_refl. reflexivity. Qed.

(** After [cancel_task] a task that was not running is no longer in the backlog, hence
    [prefill_loop] can never start it (the defect F1, fixed). *)
Theorem cancel_drops_backlog p t :
  run_find (p_running p) t = None -> ~ in_backlog (cancel_task p t) t.
Proof.
  intros Hr (rq & ts & x & Hin & Hx & Hid). unfold cancel_task in Hin. rewrite Hr in Hin. cbn in Hin.
  apply in_map_iff in Hin. destruct Hin as ([rq0 ts0] & Heq & _). inversion Heq; subst. cbn in Hx.
  apply filter_In in Hx. destruct Hx as [_ Hf]. rewrite tid_eqb_refl in Hf. discriminate.
Qed.

Lemma tid_mem_in x l : tid_mem x l = true <-> exists y, In y l /\ tid_eqb x y = true.
Proof.
  induction l as [|h t IH]; cbn [tid_mem].
  - split; [discriminate | intros (y & [] & _)].
  - rewrite orb_true_iff, IH. split.
    + intros [H|(y & Hy & He)]; [exists h; split; [left; reflexivity | exact H] | exists y; split; [right; exact Hy | exact He]].
    + intros (y & [->|Hy] & He); [left; exact He | right; exists y; split; assumption].
Qed.

Lemma bl_get_set b rq v rq' : bl_get (bl_set b rq v) rq' = if N.eqb rq' rq then v else bl_get b rq'.
Proof.
  induction b as [|[k v0] r IH]; cbn [bl_set bl_get].
  - destruct (N.eqb rq' rq); reflexivity.
  - destruct (N.eqb rq k) eqn:E1.
    + apply N.eqb_eq in E1; subst. cbn [bl_get]. destruct (N.eqb rq' k); reflexivity.
    + destruct (N.ltb rq k) eqn:E2; cbn [bl_get].
      * destruct (N.eqb rq' rq) eqn:E3; [reflexivity|]. reflexivity.
      * destruct (N.eqb rq' k) eqn:E3.
        -- apply N.eqb_eq in E3; subst. rewrite N.eqb_sym, E1. reflexivity.
        -- exact IH.
Qed.

(** [retract_tasks]: for every request class visited, no task with a retracted id stays in that
    class' backlog vector. *)
Theorem retract_removes order : forall b ids out b' out' rq x,
  retract_from b order ids out = (b', out') -> In rq order -> In x (bl_get b' rq) -> tid_mem (wt_id x) ids = false.
Proof.
  induction order as [|r0 rest IH]; cbn [retract_from]; intros b ids out b' out' rq x H Hin Hx; [destruct Hin|].
  destruct (N.eq_dec rq r0) as [->|Hne].
  - (* the class just processed: later iterations only filter further *)
    destruct (in_dec N.eq_dec r0 rest) as [Hl|Hnl]; [eapply IH; eassumption|].
    assert (Hkeep : forall order b out b' out', retract_from b order ids out = (b', out') -> ~ In r0 order -> bl_get b' r0 = bl_get b r0).
    { clear. induction order as [|r1 rest IH]; cbn [retract_from]; intros b out b' out' H Hn; [inversion H; reflexivity|].
      rewrite (IH _ _ _ _ H) by (intros Hc; apply Hn; right; exact Hc).
      destruct (bl_has b r1); [|reflexivity]. rewrite bl_get_set.
      destruct (N.eqb r0 r1) eqn:E; [apply N.eqb_eq in E; subst; exfalso; apply Hn; left; reflexivity | reflexivity]. }
    rewrite (Hkeep _ _ _ _ _ H Hnl) in Hx.
    destruct (bl_has b r0) eqn:Eh.
    + rewrite bl_get_set, N.eqb_refl in Hx. apply filter_In in Hx. destruct Hx as [_ Hf].
      apply negb_true_iff in Hf. exact Hf.
    + (* no such key: bl_get is empty *)
      assert (bl_get b r0 = []) as Hempty.
      { clear -Eh. induction b as [|[k v] r IH]; cbn [bl_has bl_get] in *; [reflexivity|].
        destruct (N.eqb r0 k); [discriminate | auto]. }
      rewrite Hempty in Hx. destruct Hx.
  - destruct Hin as [->|Hin]; [contradiction|]. eapply IH; eassumption.
Qed.
