(** C14 / C03, "tasks are aborted only with a cause", part 0: why the item list matters.

    The monitor [Monitors.abort_justified] looks up the dependencies of an aborted task with
    [find] - the FIRST entry for the task id in its [deps] accumulator, i.e. the entry of the
    most recent [ISubmitted] item that names the id.  The item list [DepOrderJournal.run_items]
    reports an accepted ARRAY submit with ALL the task ids the response lists (every id of the
    job, old and new) and no dependencies; that is harmless for [journal_dep_closed] (which looks
    at all entries), but for [abort_justified] the entries [(id, [])] of the old tasks SHADOW the
    raw dependency lists of an earlier task-graph submit to the same (open) job.  The literal
    statement "[abort_justified] accepts [run_items]" is therefore FALSE ([_refuted] below).

    The driver (ocaml/cluster/driver.ml) does not do that: it reports an array submit with the
    ids that are NEW in the response (it remembers, per job, the ids of the last response).  The
    files AbortCause*.v prove the monitor for the item list built exactly that way
    ([AbortCauseItems.run_items']). *)
From HQ Require Import Base.Prelude Cluster.Types Cluster.Core Cluster.Reactor Cluster.Worker Cluster.Server Cluster.Sys Cluster.Monitors Cluster.BijFinal Cluster.DepOrderJournal.
From Coq Require Import ZArith.
Local Open Scope N_scope.

Definition ac_rq : rqdef := mkRq 0 [10000; 0; 0].

(** An open job 1; a graph (1,0) <- (1,1); then an array submit of one more task to the same job;
    (1,0) runs on worker 1 and fails: (1,1) is aborted as its dependent. *)
Definition ac_shadow_ops : list op :=
  [OpConnect [20000; 0; 0] 0;
   OpOpen None;
   OpSubmitG (Some 1) [ac_rq] [(0, 0, 0%Z, CMax 3, []); (1, 0, 0%Z, CMax 3, [0])] None;
   OpSubmit (Some 1) [] None ac_rq 0%Z (CMax 3) false None;
   OpSched (mkSol [(0, 0, [(1, 2)])] [] [1] []);
   OpDDown 1 []; OpDDown 1 []; OpDUp 1; OpEnd 1 (1, 0) EndFail; OpDUp 1].

Example abort_justified_run_items_refuted :
  exists s items,
    Forall op_wf ac_shadow_ops /\
    run_items (init_sys 0 2) ac_shadow_ops = Ok (s, items) /\
    In (ISubmitted 1 [(0, []); (1, [0])]) items /\
    In (ISubmitted 1 [(0, []); (1, []); (2, [])]) items /\
    (exists a c, items = a ++ IEv (EvAborted [(1, 1)]) :: IEv (EvFailed (1, 0) FTask) :: c) /\
    abort_justified [] [] [] [] items = false.
Proof.
  do 2 eexists. split; [repeat constructor|]. split; [vm_compute; reflexivity|].
  split; [vm_compute; tauto|]. split; [vm_compute; tauto|]. split; [|vm_compute; reflexivity].
  eexists (_ :: _ :: _ :: _ :: _ :: _ :: _ :: _ :: _ :: _ :: []), []. reflexivity.
Qed.
