(** C05, accounting conjunct, part 3: reject, enable, the update loop [on_task_update] with the
    executable hypothesis [updates_fit] ("no start of a prefilled / retracting task saturates the
    free counter" = not F23), and the retract response. *)
From HQ Require Import Base.Prelude Cluster.Types Cluster.Core Cluster.Reactor Cluster.Worker Cluster.Server Cluster.Sys Cluster.Monitors Cluster.ProofsJob Cluster.ProofsStep Cluster.BijBase Cluster.BijCore Cluster.BijHq Cluster.BijSt Cluster.CrashFrame Cluster.RejHyp Cluster.InvWBase Cluster.InvWCore Cluster.InvWX1 Cluster.AcctBase Cluster.AcctReact.
From Coq Require Import ZArith Lia.
Local Open Scope N_scope.

Arguments N.add : simpl never.
Arguments N.sub : simpl never.

(** * Reject *)
Lemma requeue_AI rqf rqs s t c1 s' b :
  AI rqf rqs c1 -> lk rqs (t_rq t) = rqf (t_id t) ->
  (do (qs, ret) <- add_ready_task (c_queues c1) (with_state t (Waiting 0));
   do s'' <- process_retracted (st_core s (with_queues (upd_task c1 (with_state t (Waiting 0))) qs)) ret;
   Ok (s'', true)) = Ok (s', b) -> AIS rqf rqs s'.
Proof.
  intros A1 Elk H. bstep H x Hx. destruct x as [qs ret]. bstep H s2 Hs2. inversion H; subst; clear H.
  eapply process_retracted_AI; [|exact Hs2]. unfold AIS. cbn. ai_frame. apply AI_upd_task; [exact A1 | exact Elk].
Qed.

Lemma task_reject_AI rqf rqs s w id rv s' b : AIS rqf rqs s -> task_reject s w id rv = Ok (s', b) -> AIS rqf rqs s'.
Proof.
  unfold task_reject. intros HA H. cbv zeta in H.
  destruct (find_task (c_tasks (core_of s)) id) as [t|] eqn:Ef; [|inversion H; subst; exact HA].
  bstep H wk Hw.
  match type of H with context [upd_worker (core_of s) ?k] => set (wk1 := k) in * end.
  assert (Awk1 : accw rqf wk1).
  { pose proof (ACCW_get _ _ _ _ (AI_workers _ _ _ HA) Hw) as Awk. subst wk1.
    destruct rv as [v|]; [|exact Awk]. destruct (nn_mem (t_rq t, v) (w_blocked wk)); [exact Awk | apply accw_blocked; exact Awk]. }
  assert (A0 : AI rqf rqs (upd_worker (core_of s) wk1)) by (apply AI_upd_worker; assumption).
  bstep H rq Hrq. pose proof (AI_get_rq _ _ _ _ _ _ HA Ef Hrq) as Erq.
  pose proof (proj1 (AI_find _ _ _ _ _ HA Ef)) as Elk.
  bstep H x Hx. destruct x as [c1 cont].
  assert (A1 : AI rqf rqs c1).
  { destruct (t_state t) as [n|w1 rv1|w1|w1|w1 rv1|ws|]; try discriminate.
    - destruct (negb (N.eqb w w1)); [inversion Hx; subst; exact A0|].
      destruct rv as [v|]; [|inversion Hx; subst; exact A0].
      destruct (N.eqb v rv1); [|inversion Hx; subst; exact A0].
      bstep Hx wk' Hw'. inversion Hx; subst; clear Hx.
      apply AI_upd_worker; [exact A0|]. eapply accw_remove; [exact Awk1 | exact Hw' | exact Erq].
    - bstep Hx wk' Hw'. bstep Hx q Hq. bstep Hx q' Hq'. inversion Hx; subst; clear Hx.
      apply AI_upd_worker; [ai_frame; exact A0|]. eapply accw_remove_prefill; [exact Awk1 | exact Hw'].
    - destruct (negb (N.eqb w w1)); inversion Hx; subst; exact A0. }
  destruct (t_state t) as [n|w1 rv1|w1|w1|w1 rv1|ws|]; try (eapply requeue_AI; eassumption).
  destruct cont.
  - destruct (find_redirect (c_redirects c1) id) as [[target rvt]|].
    + bstep H s2 Hs2. inversion H; subst; clear H. unfold AIS. rewrite (send_worker_core _ _ _ _ Hs2). cbn.
      apply AI_upd_task; [ai_frame; exact A1 | exact Elk].
    + eapply requeue_AI; eassumption.
  - inversion H; subst. exact A1.
Qed.

Lemma request_enabled_AI rqf rqs s w rq rv s' : AIS rqf rqs s -> request_enabled s w rq rv = Ok s' -> AIS rqf rqs s'.
Proof.
  unfold request_enabled. intros HA H. bstep H wk Hw. inversion H; subst; clear H. unfold AIS. cbn.
  apply AI_upd_worker; [exact HA|]. apply accw_blocked. eapply ACCW_get; [exact (AI_workers _ _ _ HA) | exact Hw].
Qed.

(** * The update loop *)
Definition update_fits (s : st) (w : wid) (u : wupdate) : bool :=
  match u with
  | URunning t _ | URunningPrefilled t _ => running_fits s w t
  | _ => true
  end.

Fixpoint updates_fit (s : st) (w : wid) (us : list wupdate) : bool :=
  match us with
  | [] => true
  | u :: r =>
      update_fits s w u
      && match apply_one s w u with
         | Ok (s', _) => updates_fit s' w r
         | _ => true
         end
  end.

Lemma apply_one_AI rqf rqs s w u s' n : AIS rqf rqs s -> update_fits s w u = true -> apply_one s w u = Ok (s', n) -> AIS rqf rqs s'.
Proof.
  intros HA HF H. destruct u as [t|t k|t rv|t rv|t rv|rq rv]; cbn [apply_one update_fits] in *.
  - eapply task_finished_AI; eassumption.
  - bstep H s1 Hs1. inversion H; subst. eapply task_failed_AI; eassumption.
  - eapply task_running_AI; eassumption.
  - eapply task_running_AI; eassumption.
  - eapply task_reject_AI; eassumption.
  - bstep H s1 Hs1. inversion H; subst. eapply request_enabled_AI; eassumption.
Qed.

Lemma apply_updates_AI rqf rqs us : forall s w need s' need',
  AIS rqf rqs s -> updates_fit s w us = true -> apply_updates s w us need = Ok (s', need') -> AIS rqf rqs s'.
Proof.
  induction us as [|u r IH]; intros s w need s' need' HA HF H; [cbn in H; inversion H; subst; exact HA|].
  rewrite apply_updates_cons in H. bstep H x Hx. destruct x as [s1 n1].
  cbn [updates_fit] in HF. apply andb_true_iff in HF. destruct HF as [HF1 HF2]. rewrite Hx in HF2.
  eapply IH; [|exact HF2 | exact H]. eapply apply_one_AI; eassumption.
Qed.

Lemma on_task_update_AI rqf rqs s w us s' :
  AIS rqf rqs s -> updates_fit s w us = true -> on_task_update s w us = Ok s' -> AIS rqf rqs s'.
Proof.
  unfold on_task_update. intros HA HF H. bstep H x Hx. destruct x as [s1 need].
  pose proof (apply_updates_AI _ _ _ _ _ _ _ _ HA HF Hx) as A1.
  destruct (need && _); inversion H; subst; [apply ask_scheduling_AI|]; exact A1.
Qed.

(** * Retract response *)
Lemma retract_response_states_AI rqf rqs ids : forall c w acc c' acc',
  AI rqf rqs c -> retract_response_states c w ids acc = (c', acc') -> AI rqf rqs c'.
Proof.
  induction ids as [|id r IH]; cbn [retract_response_states]; intros c w acc c' acc' HA H; [inversion H; subst; exact HA|].
  destruct (find_task (c_tasks c) id) as [t|] eqn:Ef; [|eapply IH; eassumption].
  destruct (t_state t); try (eapply IH; eassumption).
  destruct (N.eqb w w0); [|eapply IH; eassumption].
  destruct (find_redirect (c_redirects c) id) as [[target rv]|].
  - eapply IH; [|exact H]. eapply (AI_upd_same _ _ (with_redirects c (del_redirect (c_redirects c) id)) id t); [ai_frame; exact HA | exact Ef | reflexivity | reflexivity].
  - eapply IH; [|exact H]. eapply AI_upd_same; [exact HA | exact Ef | reflexivity | reflexivity].
Qed.

Lemma on_retract_response_AI rqf rqs s w ids s' : AIS rqf rqs s -> on_retract_response s w ids = Ok s' -> AIS rqf rqs s'.
Proof.
  unfold on_retract_response. intros HA H. destruct (retract_response_states (core_of s) w ids []) as [c' groups] eqn:E.
  apply bind_ok in H. destruct H as (s2 & H & H2).
  assert (X2 : AIS rqf rqs s2).
  { unfold AIS. rewrite (send_redirected_core _ _ _ H). cbn. eapply retract_response_states_AI; [exact HA | exact E]. }
  destruct (retract_wakes _ _ _ _); inversion H2; subst s'; clear H2; [|exact X2].
  apply ask_scheduling_AI. exact X2.
Qed.
