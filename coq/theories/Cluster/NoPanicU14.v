(** Protocol invariant, part 14: the client requests that touch the job layer only (open, close,
    forget, prune), the cancellation of a job, and the connection of a worker preserve [PROTO]. *)
From HQ Require Import Base.Prelude Cluster.Types Cluster.Core Cluster.Reactor Cluster.Worker Cluster.Server Cluster.Sys Cluster.ProofsJob Cluster.ProofsMore Cluster.ProofsTerminal Cluster.ProofsStep Cluster.ProofsFinal Cluster.BijBase Cluster.BijCore Cluster.BijHq Cluster.BijSt Cluster.BijReact Cluster.NoPanicC1 Cluster.NoPanicU0 Cluster.NoPanicU1 Cluster.NoPanicU2 Cluster.NoPanicU5 Cluster.NoPanicU6 Cluster.NoPanicU7 Cluster.NoPanicU8 Cluster.NoPanicU9 Cluster.NoPanicU10 Cluster.NoPanicU11.
From Coq Require Import ZArith Lia Sorting.Sorted.
Local Open Scope N_scope.

Notation tid_eqb_eq := NoPanicU1.tid_eqb_eq.
Notation tid_eqb_refl := NoPanicU1.tid_eqb_refl.
Notation find_proc_some := NoPanicU1.find_proc_some.
Notation find_set_proc := NoPanicU1.find_set_proc.
Notation jactive := NoPanicU6.jactive.

(** * A change of the job layer *)
Lemma PROTO_hq s h' :
  PROTO s -> UH s ->
  (forall y t, find_task (c_tasks (s_core s)) y = Some t -> jv h' y = jv (s_hq s) y) ->
  (forall y, seen (s_hq s) y = true -> seen h' y = true) ->
  PROTO (mkSys (s_core s) h' (s_procs s)).
Proof.
  intros HP [Hcs Hpa] Hj Hs. apply (SP_final (mkSys (s_core s) h' (s_procs s), [])).
  apply (SP_hq x0 (s, []) no_pum [] h' []); [apply SP_init; assumption | | exact Hs].
  intros y t Hy _. eapply Hj. exact Hy.
Qed.

Lemma present_lt s y t : UH s -> find_task (c_tasks (s_core s)) y = Some t -> fst y < h_counter (s_hq s).
Proof.
  intros [_ Hpa] Hy. destruct (Hpa _ _ Hy) as [Hs _]. unfold seen in Hs. apply andb_true_iff in Hs. apply N.ltb_lt. apply Hs.
Qed.

(** open *)
Lemma open_PROTO s mf s' outs : PROTO s -> UH s -> step s (OpOpen mf) = Ok (s', outs) -> PROTO s'.
Proof.
  intros HP HU H. cbn [step handle_open] in H. inversion H; subst s'. clear H.
  cbn [emit fst hq_with with_hq]. unfold hq_jobs, hq_counter. cbn [fst].
  apply (PROTO_hq s _ HP HU).
  - intros y t Hy. pose proof (present_lt _ _ _ HU Hy) as Hlt. unfold jv. cbn [h_jobs]. rewrite find_job_set_any. cbn [j_id].
    destruct (N.eqb (fst y) (h_counter (s_hq s))) eqn:E; [apply N.eqb_eq in E; lia | reflexivity].
  - intros y Hy. unfold seen in *. cbn [h_jobs h_counter]. apply andb_true_iff in Hy. destruct Hy as [Ha Hb]. apply N.ltb_lt in Ha.
    rewrite find_job_set_any. cbn [j_id]. destruct (N.eqb (fst y) (h_counter (s_hq s))) eqn:E; [apply N.eqb_eq in E; lia|].
    rewrite Hb, andb_true_r. apply N.ltb_lt. lia.
Qed.

(** prune *)
Lemma prune_PROTO s s' outs : PROTO s -> step s OpPrune = Ok (s', outs) -> PROTO s'.
Proof. intros HP H. cbn [step] in H. apply bind_ok in H. destruct H as (lj & _ & H). inversion H; subst. exact HP. Qed.

(** a state whose job layer changed by [hq_chg] away from the present tasks *)
Lemma PROTO_hq_chg (P : tid -> Prop) s s1 :
  PROTO s -> UH s -> core_of s1 = s_core s -> s_procs (fst s1) = s_procs s -> hq_chg P (s_hq s) (hq_of s1) ->
  (forall y t, find_task (c_tasks (s_core s)) y = Some t -> ~ P y) -> PROTO (fst s1).
Proof.
  intros HP [Hcs Hpa] Ec Ep Hc HNP. apply SP_final.
  apply (SP_hq_chg x0 P (s, []) no_pum [] s1); [apply SP_init; assumption | exact Ec | exact Ep | exact Hc|].
  intros y t Hy _. eapply HNP. exact Hy.
Qed.

(** close *)
Lemma close_PROTO s j s' outs : PROTO s -> UH s -> step s (OpClose j) = Ok (s', outs) -> PROTO s'.
Proof.
  intros HP HU H. cbn [step] in H. unfold handle_close, hq_jobs in H. cbn [fst] in H.
  destruct (find_job (h_jobs (s_hq s)) j) as [jb|] eqn:Ej; [|inversion H; subst; exact HP].
  destruct (j_open jb); [|inversion H; subst; exact HP].
  apply bind_ok in H. destruct H as (s1 & H1 & H). inversion H; subst s'. clear H.
  destruct (check_termination_frame _ _ _ H1) as [Ec Ep]. pose proof (check_termination_chg _ _ _ H1) as Hc.
  change (fst (emit s1 (OResp (RClose 0)))) with (fst s1).
  apply (PROTO_hq_chg (fun _ => False) s s1 HP HU); [rewrite Ec; reflexivity | rewrite Ep; reflexivity | | auto].
  eapply hq_chg_trans; [|exact Hc].
  match type of H1 with check_termination ?sx _ = _ => change (s_hq s) with (hq_of (s, @nil out)); apply (jt_same_chg (s, []) sx); [reflexivity|] end.
  intros id. rewrite jt_emit, jt_set_job. cbn [j_id j_tasks].
  destruct (N.eqb id (j_id jb)) eqn:E; [|reflexivity]. apply N.eqb_eq in E. subst id. unfold jt, hq_of. cbn [fst].
  rewrite (find_job_id _ _ _ Ej), Ej. reflexivity.
Qed.

(** forget *)
Lemma forget_PROTO s j s' outs : PROTO s -> UH s -> HOK (s_hq s) -> step s (OpForget j) = Ok (s', outs) -> PROTO s'.
Proof.
  intros HP HU Hok H. cbn [step] in H. unfold handle_forget, hq_jobs, hq_counter in H. cbn [fst] in H.
  destruct (find_job (h_jobs (s_hq s)) j) as [jb|] eqn:Ej; [|inversion H; subst; exact HP].
  apply bind_ok in H. destruct H as (na & Hna & H).
  destruct (negb (j_open jb) && na) eqn:Eb; [|inversion H; subst; exact HP].
  inversion H; subst s'. clear H. cbn [emit fst hq_with with_hq].
  apply andb_true_iff in Eb. destruct Eb as [_ ->].
  rewrite (has_no_active_ok _ (Hok _ (find_job_in _ _ _ Ej))) in Hna. inversion Hna as [Hz]. apply andb_true_iff in Hz. destruct Hz as [Z1 Z2].
  apply N.eqb_eq in Z1, Z2. pose proof (find_job_id _ _ _ Ej) as Eid.
  apply (PROTO_hq s _ HP HU).
  - intros y t Hy. destruct HU as [_ Hpa]. destruct (Hpa _ _ Hy) as [_ Ha]. unfold jv in *. cbn [h_jobs].
    destruct (N.eq_dec (fst y) j) as [E|E]; [|rewrite (find_job_del _ _ _ E); reflexivity].
    exfalso. rewrite E, Ej in Ha. destruct Ha as [A|A]; inversion A as [B]; apply NoPanicC1.cnt_pos in B; lia.
  - intros y Hy. unfold seen in *. cbn [h_jobs h_counter]. apply andb_true_iff in Hy. destruct Hy as [Ha Hb]. rewrite Ha. cbn [andb].
    destruct (N.eq_dec (fst y) j) as [E|E]; [rewrite E, find_job_del_same; reflexivity | rewrite (find_job_del _ _ _ E); exact Hb].
Qed.

(** * Cancelling a job *)
Lemma set_cancel_state_chg s jid ids s' : set_cancel_state s jid ids = Ok s' ->
  hq_chg (fun y => In y ids) (hq_of s) (hq_of s') /\ core_of s' = core_of s /\ s_procs (fst s') = s_procs (fst s).
Proof.
  unfold set_cancel_state. destruct ids as [|i0 ir] eqn:Eids; [intros H; inversion H; subst; split; [apply hq_chg_refl | split; reflexivity]|].
  rewrite <- Eids. intros H. apply bind_ok in H. destruct H as (j & Hj & H). apply bind_ok in H. destruct H as (j1 & Hm & H).
  destruct (jt_get _ _ _ _ Hj) as [Ej Eid].
  destruct (mark_tasks_find _ _ _ _ _ Hm) as (M1 & M2 & M3). pose proof (mark_tasks_found _ _ _ _ _ Hm) as M4.
  pose proof (check_termination_chg _ _ _ H) as C. destruct (check_termination_frame _ _ _ H) as [Fc Fp].
  split; [|split; [rewrite Fc; reflexivity | rewrite Fp; reflexivity]].
  eapply hq_chg_trans; [|eapply hq_chg_weaken; [|exact C]; intros t0 []].
  match type of H with check_termination ?s1 _ = _ => apply (hq_chg_of_jt _ s s1); [reflexivity|] end.
  intros id. rewrite !jt_emit, jt_set_job. cbn [j_id job_upd j_tasks]. rewrite M1, Eid.
  destruct (N.eqb id jid) eqn:E1.
  - apply N.eqb_eq in E1. subst id. right. exists (j_tasks j), (j_tasks j1). split; [exact Ej|]. split; [reflexivity|].
    rewrite Eid in M2. intros k. rewrite M3. pose proof (snd_mem_in k ids jid M2) as Hmem.
    destruct (snd_mem k ids) eqn:Em.
    + split; [intros HN; exfalso; apply HN; apply Hmem; reflexivity|].
      assert (Hin : In (jid, k) ids) by (apply Hmem; reflexivity). pose proof (M4 _ Hin) as Hf. cbn in Hf.
      split; [intros X; contradiction | discriminate].
    + split; [reflexivity | tauto].
  - destruct (jt s id) as [l|]; [right; exists l, l; repeat split; auto | left; auto].
Qed.

Lemma cancel_PROTO s j s' outs : PROTO s -> UH s -> step s (OpCancel j) = Ok (s', outs) -> PROTO s'.
Proof.
  intros HP HU H. cbn [step] in H. unfold handle_cancel, hq_jobs in H. cbn [fst] in H.
  destruct (find_job (h_jobs (s_hq s)) j) as [jb|] eqn:Ej; [|inversion H; subst; exact HP].
  destruct (non_finished_task_ids jb) as [|i0 ir] eqn:Eids; [inversion H; subst; exact HP|]. rewrite <- Eids in H.
  apply bind_ok in H. destruct H as (s1 & H1 & H). apply bind_ok in H. destruct H as (already & _ & H).
  apply bind_ok in H. destruct H as (s2 & H2 & H). inversion H; subst s'. clear H.
  destruct HU as [Hcs Hpa].
  destruct (on_cancel_tasks_SP x0 (s, []) no_pum _ s1 (SP_init s [] HP Hcs Hpa) H1) as (S1 & N1 & _).
  destruct (set_cancel_state_chg _ _ _ _ H2) as (Hc & Ec & Ep).
  change (fst (emit s2 (OResp (RCancelOk (map snd (non_finished_task_ids jb)) already)))) with (fst s2).
  apply SP_final. apply (SP_hq_chg x0 _ s1 no_pum [] s2 S1 Ec Ep Hc).
  intros y t Hy _ Hin. rewrite (N1 y Hin) in Hy. discriminate.
Qed.

(** * A worker connects *)
Definition quiet (m : dmsg) : Prop :=
  match m with DCompute _ | DNewRq _ _ => False | _ => True end.
Lemma down_ok_quiet rqs m : quiet m -> forall d n, down_ok rqs n (d ++ [m]) = down_ok rqs n d.
Proof.
  intros Hq. induction d as [|m0 r IH]; intros n; cbn [app].
  - destruct m; try destruct Hq; reflexivity.
  - destruct m0; cbn [down_ok]; rewrite ?IH; reflexivity.
Qed.
Lemma newrq_quiet m d : quiet m -> newrq_defs (d ++ [m]) = newrq_defs d.
Proof. intros Hq. rewrite newrq_app. destruct m; try destruct Hq; cbn; rewrite app_nil_r; reflexivity. Qed.

Lemma connect_PROTO s rs g s' outs :
  PROTO s ->
  find_proc (s_procs s) (c_wcounter (s_core s) + 1) = None ->
  (forall x t jr, find_task (c_tasks (s_core s)) x = Some t -> view_of (t_state t) (c_wcounter (s_core s) + 1) jr = VN) ->
  step s (OpConnect rs g) = Ok (s', outs) -> PROTO s'.
Proof.
  intros [H9 H1 H2 H3 H4 H5 H6 H7 R1 R2] Hnew Hvn H. cbn [step] in H. unfold on_new_worker in H. cbv zeta in H.
  inversion H; subst s'. clear H.
  set (w := c_wcounter (s_core s) + 1) in *.
  cbn [emit fst snd core_of st_core with_core with_procs broadcast ask_scheduling s_core s_hq s_procs upd_worker with_workers with_flag with_wcounter c_rqs c_tasks c_redirects c_workers].
  set (f := fun p => push_down p (DNewWorker w)).
  assert (Hf : forall p, p_id (f p) = p_id p) by reflexivity.
  assert (Hfp : forall w' q, find_proc (set_proc (map f (s_procs s)) (new_proc w rs (c_rqs (s_core s)))) w' = Some q ->
            (w' = w /\ q = new_proc w rs (c_rqs (s_core s))) \/ (w' <> w /\ exists p, find_proc (s_procs s) w' = Some p /\ q = f p)).
  { intros w' q Hq. rewrite find_set_proc in Hq. cbn [new_proc p_id] in Hq. destruct (N.eqb w' w) eqn:E.
    - apply N.eqb_eq in E. left. inversion Hq. auto.
    - apply N.eqb_neq in E. right. split; [exact E|]. rewrite (find_map_proc f _ _ Hf) in Hq.
      destruct (find_proc (s_procs s) w') as [p|]; [|discriminate]. inversion Hq. eauto. }
  constructor; cbn [s_core s_hq s_procs c_rqs c_tasks c_redirects]; try assumption.
  - apply set_proc_sorted. apply map_proc_sorted; assumption.
  - intros w' q x t Hq Hx. destruct (Hfp _ _ Hq) as [[-> ->]|(Hne & p & Hp & ->)].
    + rewrite (Hvn x t _ Hx). reflexivity.
    + unfold f. cbn [push_down p_up p_down]. rewrite ditems_app. cbn [ditems flat_map ditems_msg]. rewrite app_nil_r.
      change (local (push_down p (DNewWorker w)) x) with (local p x). eapply H1; eassumption.
  - intros w' q Hq. destruct (Hfp _ _ Hq) as [[-> ->]|(Hne & p & Hp & ->)].
    + unfold rqs_ok. cbn [new_proc p_rqs p_down down_ok newrq_defs flat_map]. rewrite app_nil_r. apply rqs_eqb_eq. reflexivity.
    + specialize (H2 _ _ Hp). unfold rqs_ok, f in *. cbn [push_down p_rqs p_down c_rqs].
      rewrite (down_ok_quiet _ (DNewWorker w) I), (newrq_quiet (DNewWorker w) _ I). exact H2.
  - intros w' q Hq. destruct (Hfp _ _ Hq) as [[-> ->]|(Hne & p & Hp & ->)]; [reflexivity|].
    specialize (H3 _ _ Hp). exact H3.
  - intros w' q x Hq Hx. destruct (Hfp _ _ Hq) as [[-> ->]|(Hne & p & Hp & ->)]; [destruct Hx|].
    eapply H4; [exact Hp|]. unfold proc_tids, f in *. cbn [push_down p_up p_down p_backlog p_running] in Hx.
    rewrite flat_map_app in Hx. cbn [flat_map dmsg_tids] in Hx. rewrite !app_nil_r in Hx. exact Hx.
Qed.
