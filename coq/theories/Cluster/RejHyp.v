(** The one channel fact the core-level invariants (worker sets, queues, dependencies) need and
    that is not provable from the core alone: a reject ([UReject]) that the server processes was
    sent by the worker the task is currently placed on.

    [task_reject] (reactor.rs) handles the other case "defensively" (it re-queues the task without
    taking it out of the other worker's sets), which would corrupt the bookkeeping if it could
    happen.  It cannot: a worker rejects only tasks it received as assigned, an assigned task leaves
    its worker only through an update of that worker or the loss of the worker (whose channel is
    dropped) - but this argument is about messages in flight (the pipeline invariant I3, not
    proved).  The fact is therefore an explicit, EXECUTABLE hypothesis of the theorems that need
    it ([run_fresh ... = true]) and is evaluated as a monitor on every explored history. *)
From HQ Require Import Base.Prelude Cluster.Types Cluster.Core Cluster.Reactor Cluster.Worker Cluster.Server Cluster.Sys.
From Coq Require Import ZArith.
Local Open Scope N_scope.

(** One update of [apply_updates]. *)
Definition apply_one (s : st) (w : wid) (u : wupdate) : res (st * bool) :=
  match u with
  | UFinished t => task_finished s w t
  | UFailed t k => do s' <- task_failed s (Some w) t k; Ok (s', true)
  | URunning t rv | URunningPrefilled t rv => task_running s w t rv
  | UReject t rv => task_reject s w t rv
  | UEnable rq rv => do s' <- request_enabled s w rq rv; Ok (s', true)
  end.

Lemma apply_updates_cons s w u r need :
  apply_updates s w (u :: r) need = (do (s', n') <- apply_one s w u; apply_updates s' w r (need || n')).
Proof. destruct u; reflexivity. Qed.

(** The reject [u] (if it is one) comes from the worker its task is placed on. *)
Definition reject_fresh (s : st) (w : wid) (u : wupdate) : bool :=
  match u with
  | UReject t rv =>
      match find_task (c_tasks (core_of s)) t with
      | Some tk => match t_state tk with
                   | Assigned w1 rv1 =>
                       (* ... and it names the variant the task was assigned with (the worker echoes
                          what it was sent; [task_reject] re-queues "invalid variant" rejects too) *)
                       N.eqb w w1 && match rv with Some v => N.eqb v rv1 | None => false end
                   | Prefilled w1 | Retracting w1 => N.eqb w w1
                   | _ => true
                   end
      | None => true
      end
  | UFailed t _ =>
      (* a task the scheduler placed as a multi-node task has a multi-node request: the model takes
         the solver's answer as an unconstrained witness and [map_mn_sets] does not look at the
         request, while [task_failed] branches on the REQUEST; the real solver creates multi-node
         placements only for multi-node request classes *)
      match find_task (c_tasks (core_of s)) t with
      | Some tk => match t_state tk with
                   | RunningMN _ => match nth_error (c_rqs (core_of s)) (N.to_nat (t_rq tk)) with
                                    | Some r => rq_is_mn r
                                    | None => true
                                    end
                   | _ => true
                   end
      | None => true
      end
  | _ => true
  end.

Fixpoint rejects_fresh (s : st) (w : wid) (us : list wupdate) : bool :=
  match us with
  | [] => true
  | u :: r =>
      reject_fresh s w u
      && match apply_one s w u with
         | Ok (s', _) => rejects_fresh s' w r
         | _ => true
         end
  end.

Definition step_fresh (s : sys) (o : op) : bool :=
  match o with
  | OpDUp w =>
      match find_proc (s_procs s) w with
      | Some p =>
          match p_up p with
          | UUpdates us :: rest =>
              rejects_fresh (with_procs s (set_proc (s_procs s) (wp_up p rest)), [OUp w (UUpdates us)]) w us
          | _ => true
          end
      | None => true
      end
  | _ => true
  end.

(** The hypothesis, for a whole history. *)
Fixpoint run_fresh (s : sys) (ops : list op) : bool :=
  match ops with
  | [] => true
  | o :: r =>
      step_fresh s o
      && match step s o with
         | Ok (s1, _) => run_fresh s1 r
         | _ => true
         end
  end.

Lemma run_fresh_cons s o r s1 outs :
  run_fresh s (o :: r) = true -> step s o = Ok (s1, outs) -> step_fresh s o = true /\ run_fresh s1 r = true.
Proof. cbn [run_fresh]. intros H E. rewrite E in H. apply andb_true_iff in H. exact H. Qed.
