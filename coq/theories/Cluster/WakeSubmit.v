(** C02 wake-up discipline, per-operation analysis (part 2): THE SUBMITS.

    A submit that creates at least one task leaves the flag set ([on_new_tasks] ends with
    [ask_for_scheduling]).  A submit that creates none (refused, or an array with zero entries, or
    an empty graph) changes the core at most by appending new request classes with empty queues,
    which changes neither [placeable] nor [busy] (here the structural invariant "as many queues as
    request classes" of the queue invariant is needed, hence [INV]).
    So [wake_inv] is preserved by [OpSubmit] / [OpSubmitG]: the checked set of WakeStep.v shrinks to
    [OpCancel] and [OpDUp] - the two operations in which the lost wake-ups were found. *)
From HQ Require Import Base.Prelude Cluster.Types Cluster.Core Cluster.Reactor Cluster.Worker Cluster.Server Cluster.Sys Cluster.RejHyp Cluster.BijFinal Cluster.InvQStep Cluster.InvQSubmit Cluster.InvBundle Cluster.NoPanicU0 Cluster.NoPanicU20 Cluster.NoFresh Cluster.StartFin2 Cluster.RetractFree Cluster.RestU1 Cluster.Wake Cluster.WakeStep Cluster.WakeRest.
From Coq Require Import ZArith Lia.
Local Open Scope N_scope.

(** * Appending empty classes *)
Definition ext (c c' : core) : Prop :=
  c_tasks c' = c_tasks c /\ c_workers c' = c_workers c /\ c_redirects c' = c_redirects c /\ c_flag c' = c_flag c /\
  exists l, c_rqs c' = c_rqs c ++ l /\ c_queues c' = c_queues c ++ map (fun _ => empty_queue) l.

Lemma ext_refl c : ext c c.
Proof. repeat split. exists []. cbn. rewrite !app_nil_r. auto. Qed.

Lemma ext_trans a b c : ext a b -> ext b c -> ext a c.
Proof.
  intros (A1 & A2 & A3 & A4 & l1 & A5 & A6) (B1 & B2 & B3 & B4 & l2 & B5 & B6).
  repeat split; try congruence. exists (l1 ++ l2). rewrite B5, B6, A5, A6, map_app, <- !app_assoc. auto.
Qed.

Lemma existsb_ext_in {A} (f g : A -> bool) l : (forall x, In x l -> f x = g x) -> existsb f l = existsb g l.
Proof.
  induction l as [|h t IH]; cbn [existsb]; intros H; [reflexivity|].
  rewrite (H h (or_introl eq_refl)), IH; [reflexivity|]. intros x Hx. apply H. right. exact Hx.
Qed.

Lemma top_prio_app_empty qs (l : list rqdef) acc :
  fold_left (fun acc q => match acc, q_top_priority q with
                          | Some a, Some b => Some (Z.max a b)
                          | None, x => x
                          | x, None => x
                          end) (qs ++ map (fun _ => empty_queue) l) acc =
  fold_left (fun acc q => match acc, q_top_priority q with
                          | Some a, Some b => Some (Z.max a b)
                          | None, x => x
                          | x, None => x
                          end) qs acc.
Proof.
  rewrite fold_left_app. generalize (fold_left (fun acc q => match acc, q_top_priority q with
                          | Some a, Some b => Some (Z.max a b)
                          | None, x => x
                          | x, None => x
                          end) qs acc). clear acc.
  induction l as [|h t IH]; cbn [map fold_left]; intros a; [reflexivity|].
  rewrite <- (IH a) at 2. f_equal. destruct a; reflexivity.
Qed.

Lemma combine_app {A B} (sa : list A) (a : list B) sb b : length sa = length a ->
  combine (sa ++ sb) (a ++ b) = combine sa a ++ combine sb b.
Proof.
  revert a. induction sa as [|x sa IH]; intros [|h t] Hl; try discriminate; cbn [app combine]; [reflexivity|].
  f_equal. apply IH. cbn [length] in Hl. lia.
Qed.

Lemma indexed_app {A} (a b : list A) : indexed (a ++ b) = indexed a ++ combine (seq (length a) (length b)) b.
Proof.
  unfold indexed. rewrite app_length, seq_app. cbn [Nat.add]. apply combine_app. apply seq_length.
Qed.

Lemma indexed_lt {A} (l : list A) i x : In (i, x) (indexed l) -> (i < length l)%nat.
Proof. unfold indexed. intros H. apply in_combine_l in H. apply in_seq in H. lia. Qed.

Lemma mn_fits_ext c c' r : c_tasks c' = c_tasks c -> c_workers c' = c_workers c -> mn_fits c' r = mn_fits c r.
Proof.
  intros Ht Hw. unfold mn_fits, free_in_group, mn_free, retracting_from. rewrite Ht, Hw. reflexivity.
Qed.

Lemma class_fits_ext c c' i : ext c c' -> (i < length (c_rqs c))%nat -> class_fits c' i = class_fits c i.
Proof.
  intros (Ht & Hw & _ & _ & l & Hr & _) Hi. unfold class_fits. rewrite Hr, nth_error_app1 by exact Hi.
  destruct (nth_error (c_rqs c) i) as [r|]; [|reflexivity].
  rewrite (mn_fits_ext c c' r Ht Hw), Hw. reflexivity.
Qed.

Lemma placeable_ext c c' : length (c_queues c) = length (c_rqs c) -> ext c c' -> placeable c' = placeable c.
Proof.
  intros Hlen E. pose proof E as (Ht & Hw & _ & _ & l & Hr & Hq). unfold placeable, queues_top_priority.
  rewrite Hq, top_prio_app_empty.
  match goal with |- match ?x with _ => _ end = _ => destruct x as [top|] end; [|reflexivity].
  rewrite indexed_app, existsb_app.
  assert (X : existsb (fun iq => at_top top (snd iq) && class_fits c' (fst iq))
                (combine (seq (length (c_queues c)) (length (map (fun _ : rqdef => empty_queue) l))) (map (fun _ : rqdef => empty_queue) l)) = false).
  { destruct (existsb _ (combine _ _)) eqn:Ex; [|reflexivity]. exfalso. apply existsb_exists in Ex. destruct Ex as ([i q] & Hin & Hb).
    apply in_combine_r in Hin. apply in_map_iff in Hin. destruct Hin as (r0 & <- & _). cbn in Hb. discriminate. }
  rewrite X, orb_false_r. apply existsb_ext_in. intros [i q] Hin. cbn [fst snd]. f_equal.
  apply class_fits_ext; [exact E|]. rewrite <- Hlen. exact (indexed_lt _ _ _ Hin).
Qed.

Lemma busy_ext c c' : ext c c' -> busy c' = busy c.
Proof. intros (Ht & _ & Hr & _). unfold busy, task_busy. rewrite Ht, Hr. reflexivity. Qed.

(** a step whose resulting core has the flag set or merely extends the old one preserves [wake_inv] *)
Lemma wake_inv_ext s s' : length (c_queues (s_core s)) = length (c_rqs (s_core s)) ->
  c_flag (s_core s') = true \/ ext (s_core s) (s_core s') -> wake_inv s = true -> wake_inv s' = true.
Proof.
  intros Hlen [Hf|E] HW; [apply wake_inv_flag; exact Hf|].
  unfold wake_inv in *. rewrite (placeable_ext _ _ Hlen E), (busy_ext _ _ E). destruct E as (_ & _ & _ & -> & _). exact HW.
Qed.

(** * [on_new_tasks], [get_or_create_rq] *)
Lemma on_new_tasks_flag_or_same s ts s' : on_new_tasks s ts = Ok s' -> c_flag (core_of s') = true \/ s' = s.
Proof.
  unfold on_new_tasks. destruct ts as [|t0 tr]; intros H; [right; inversion H; reflexivity|].
  apply bind_ok in H. destruct H as ([c' retracted] & _ & H). apply bind_ok in H. destruct H as (s1 & _ & H). inversion H. left. reflexivity.
Qed.

Lemma get_or_create_rq_ext s r s' i : get_or_create_rq s r = (s', i) -> ext (core_of s) (core_of s').
Proof.
  unfold get_or_create_rq. destruct (rq_index (c_rqs (core_of s)) r 0); intros H; inversion H; [apply ext_refl|].
  repeat split. exists [r]. cbn. auto.
Qed.

Lemma fold_rqs_ext rqs : forall s l s4 rqis,
  fold_left (fun acc r => let '(s, l) := acc in let '(s', i) := get_or_create_rq s r in (s', l ++ [i])) rqs (s, l) = (s4, rqis) ->
  ext (core_of s) (core_of s4).
Proof.
  induction rqs as [|r rest IH]; cbn [fold_left]; intros s l s4 rqis H; [inversion H; apply ext_refl|].
  destruct (get_or_create_rq s r) as [s1 i] eqn:E. eapply ext_trans; [exact (get_or_create_rq_ext _ _ _ _ E) | eapply IH; exact H].
Qed.

(** * The submits *)
Lemma handle_submit_array_wake s jobsel ids entries rq prio cl tlim mf s' :
  handle_submit_array s jobsel ids entries rq prio cl tlim mf = Ok s' ->
  c_flag (core_of s') = true \/ ext (core_of s) (core_of s').
Proof.
  intros H. unfold handle_submit_array in H.
  match type of H with (match ?x with Some _ => _ | None => _ end) = _ => destruct x end; [inversion H; subst; right; apply ext_refl|].
  apply bind_ok in H. destruct H as ([acc s1] & Hr & H).
  assert (C1 : core_of s1 = core_of s).
  { destruct jobsel as [j0|]; [destruct (find_job (hq_jobs s) j0) as [j|]; [destruct (negb (j_open j))|]|]; inversion Hr; reflexivity. }
  destruct acc as [[[jid is_new] ids']|].
  - cbv zeta in H.
    match type of H with context [get_or_create_rq ?sx rq] => set (s3 := sx) in *; destruct (get_or_create_rq s3 rq) as [s4 rqi] eqn:Erq end.
    assert (C3 : core_of s3 = core_of s) by (subst s3; destruct is_new; exact C1).
    pose proof (get_or_create_rq_ext _ _ _ _ Erq) as E4. rewrite C3 in E4.
    apply bind_ok in H. destruct H as (j & _ & H). apply bind_ok in H. destruct H as (j' & _ & H).
    apply bind_ok in H. destruct H as (s6 & H6 & H). rewrite (submit_ok_resp_core _ _ _ H).
    destruct (on_new_tasks_flag_or_same _ _ _ H6) as [F | ->]; [left; exact F | right; exact E4].
  - assert (C2 : core_of s' = core_of s1).
    { destruct jobsel; [match type of H with (match ?x with Some _ => _ | None => _ end) = _ => destruct x end|]; inversion H; reflexivity. }
    right. rewrite C2, C1. apply ext_refl.
Qed.

Lemma handle_submit_graph_wake s jobsel rqs ts mf s' :
  handle_submit_graph s jobsel rqs ts mf = Ok s' -> c_flag (core_of s') = true \/ ext (core_of s) (core_of s').
Proof.
  intros H. unfold handle_submit_graph in H.
  apply bind_ok in H. destruct H as (v1 & _ & H).
  match type of H with (match ?x with Some _ => _ | None => _ end) = _ => destruct x end; [inversion H; subst; right; apply ext_refl|].
  apply bind_ok in H. destruct H as ([acc s1] & Hr & H).
  assert (C1 : core_of s1 = core_of s).
  { destruct jobsel as [j0|]; [destruct (find_job (hq_jobs s) j0) as [j|]; [destruct (negb (j_open j))|]|]; inversion Hr; reflexivity. }
  destruct acc as [[jid is_new]|].
  - cbv zeta in H.
    match type of H with context [fold_left ?f rqs (?sx, [])] => set (s3 := sx) in *; destruct (fold_left f rqs (s3, [])) as [s4 rqis] eqn:Erq end.
    assert (C3 : core_of s3 = core_of s) by (subst s3; destruct is_new; exact C1).
    pose proof (fold_rqs_ext _ _ _ _ _ Erq) as E4. rewrite C3 in E4.
    apply bind_ok in H. destruct H as (j & _ & H). apply bind_ok in H. destruct H as (j' & _ & H).
    apply bind_ok in H. destruct H as (tasks & Hg & H).
    apply bind_ok in H. destruct H as (s6 & H6 & H). rewrite (submit_ok_resp_core _ _ _ H).
    destruct (on_new_tasks_flag_or_same _ _ _ H6) as [F | ->]; [left; exact F | right; exact E4].
  - inversion H; subst. right. rewrite C1. apply ext_refl.
Qed.

Lemma step_submit_wake s o s' outs : step s o = Ok (s', outs) ->
  match o with
  | OpSubmit _ _ _ _ _ _ _ _ | OpSubmitG _ _ _ _ => c_flag (s_core s') = true \/ ext (s_core s) (s_core s')
  | _ => True
  end.
Proof.
  destruct o; cbn [step]; intros H; try exact I.
  - destruct (bad_submit_lengths ids entries); [inversion H; subst; right; apply ext_refl|].
    exact (handle_submit_array_wake _ _ _ _ _ _ _ _ _ _ H).
  - destruct (bad_graph_rq (length rqs) ts); [inversion H; subst; right; apply ext_refl|].
    destruct (dead_dep s job ts); [inversion H; subst; right; apply ext_refl|].
    exact (handle_submit_graph_wake _ _ _ _ _ _ H).
Qed.

(** * The step and run theorems with the smaller checked set *)
Definition wake_proved2 (o : op) : bool := match o with OpCancel _ | OpDUp _ => false | _ => true end.
Definition op_wake_checked_cd (s : sys) (o : op) : bool :=
  wake_proved2 o || match step s o with Ok (s', _) => wake_inv s' | _ => true end.
Fixpoint ops_wake_checked_cd (s : sys) (ops : list op) : bool :=
  match ops with
  | [] => true
  | o :: r => op_wake_checked_cd s o && match step s o with Ok (s1, _) => ops_wake_checked_cd s1 r | _ => true end
  end.

Theorem wake_step_cd s o s' outs : INV s ->
  wake_inv s = true -> step s o = Ok (s', outs) -> op_complete s o = true -> op_wake_checked_cd s o = true -> wake_inv s' = true.
Proof.
  intros HI HW H Hc Hk.
  assert (Hlen : length (c_queues (s_core s)) = length (c_rqs (s_core s))).
  { pose proof (inv_qs _ HI) as Q. unfold queue_statement in Q. tauto. }
  pose proof (step_submit_wake _ _ _ _ H) as Hsub.
  destruct o; try (eapply wake_step; [exact HW | exact H | exact Hc |]; unfold op_wake_checked_cd in Hk; unfold op_wake_checked; cbn [wake_proved wake_proved2 orb] in *; exact Hk).
  - exact (wake_inv_ext _ _ Hlen Hsub HW).
  - exact (wake_inv_ext _ _ Hlen Hsub HW).
Qed.

Theorem wake_run_cd : forall ops s s' outs, along INV s ops ->
  wake_inv s = true -> run s ops = Ok (s', outs) -> ops_complete s ops = true -> ops_wake_checked_cd s ops = true -> wake_inv s' = true.
Proof.
  induction ops as [|o r IH]; cbn [run ops_complete ops_wake_checked_cd along]; intros s s' outs [HI Hal] HW H Hc Hk.
  - inversion H; subst. exact HW.
  - apply bind_ok in H. destruct H as ([s1 o1] & H1 & H). apply bind_ok in H. destruct H as ([s2 o2] & H2 & H). inversion H; subst.
    rewrite H1 in Hc, Hk, Hal. apply andb_true_iff in Hc. destruct Hc as [Hc1 Hc2]. apply andb_true_iff in Hk. destruct Hk as [Hk1 Hk2].
    eapply IH; [exact Hal | | exact H2 | exact Hc2 | exact Hk2]. eapply wake_step_cd; eassumption.
Qed.

Theorem wake_reachable_cd r m ops s outs :
  Forall op_wf ops -> ops_ok (init_sys r m) ops = true -> ops_complete (init_sys r m) ops = true -> ops_wake_checked_cd (init_sys r m) ops = true ->
  run (init_sys r m) ops = Ok (s, outs) -> wake_inv s = true.
Proof.
  intros Hwf Hok Hc Hk H.
  eapply wake_run_cd; [| apply wake_inv_init | exact H | exact Hc | exact Hk].
  apply along_INV; [exact Hwf | eapply fresh_of_ops; eassumption].
Qed.

(** * The statement at rest with the smaller checked set *)
Theorem rest_no_runnable_work_cd ops r m s outs :
  Forall op_wf ops -> ops_ok (init_sys r m) ops = true -> ops_complete (init_sys r m) ops = true -> ops_wake_checked_cd (init_sys r m) ops = true ->
  run (init_sys r m) ops = Ok (s, outs) -> at_rest s ->
  forall j jb i, find_job (h_jobs (s_hq s)) j = Some jb -> (jt_find (j_tasks jb) i = Some JW \/ jt_find (j_tasks jb) i = Some JR) ->
  exists t, find_task (c_tasks (s_core s)) (j, i) = Some t /\ task_at_rest_ok s (j, i) t.
Proof.
  intros Hwf Hok Hc Hk H Hrest. eapply rest_no_runnable_work_inv; try eassumption. eapply wake_reachable_cd; eassumption.
Qed.

Theorem rest_nothing_placeable_cd ops r m s outs :
  Forall op_wf ops -> ops_ok (init_sys r m) ops = true -> ops_complete (init_sys r m) ops = true -> ops_wake_checked_cd (init_sys r m) ops = true ->
  run (init_sys r m) ops = Ok (s, outs) -> at_rest s -> placeable (s_core s) = false.
Proof.
  intros Hwf Hok Hc Hk H Hrest. eapply rest_nothing_placeable_inv; try eassumption. eapply wake_reachable_cd; eassumption.
Qed.

(** the example history of WakeRest.v meets the smaller check too *)
Lemma ex_ops_checked_cd : ops_wake_checked_cd (init_sys 0 2) ex_ops = true.
Proof. vm_compute. reflexivity. Qed.

Print Assumptions wake_reachable_cd.
Print Assumptions rest_no_runnable_work_cd.
