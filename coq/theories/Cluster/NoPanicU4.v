(** Protocol invariant, part 4: the remaining handlers of a worker process - RetractTasks,
    CancelTasks, the end of a task future, timers. *)
From HQ Require Import Base.Prelude Cluster.Types Cluster.Core Cluster.Reactor Cluster.Worker Cluster.Server Cluster.Sys Cluster.ProofsMore Cluster.ProofsWorker Cluster.NoPanicU0 Cluster.NoPanicU1 Cluster.NoPanicU2 Cluster.NoPanicU3.
From Coq Require Import ZArith Lia Sorting.Sorted.
Local Open Scope N_scope.

(** * Items of a retract response / a retract message *)
Definition rr (x : tid) (out : list tid) : list uitem := flat_map (fun z => sel z x IRR) out.
Definition dret (x : tid) (ids : list tid) : list ditem := flat_map (fun z => sel z x IDRet) ids.

Lemma rr_app x a b : rr x (a ++ b) = rr x a ++ rr x b.
Proof. apply flat_map_app. Qed.
Lemma rr_repeat x out : rr x out = repeat IRR (length (rr x out)).
Proof.
  induction out as [|h r IH]; [reflexivity|]. unfold rr in *. cbn [flat_map]. unfold sel at 1 3.
  destruct (tid_eqb h x); cbn [app length repeat]; [f_equal|]; exact IH.
Qed.
Lemma rr_pos x out : (0 < length (rr x out))%nat -> In x out.
Proof.
  induction out as [|h r IH]; cbn; [lia|]. unfold sel. destruct (tid_eqb h x) eqn:E; [apply tid_eqb_eq in E; auto|].
  cbn [app]. intros H. right. apply IH. exact H.
Qed.
Lemma dret_mem x ids : tid_mem x ids = false -> dret x ids = [].
Proof.
  induction ids as [|h r IH]; cbn [tid_mem]; [reflexivity|]. intros H. apply orb_false_iff in H. destruct H as [H1 H2].
  unfold dret in *. cbn [flat_map]. unfold sel at 1. rewrite tid_eqb_sym, H1. cbn [app]. apply IH. exact H2.
Qed.
Lemma dret_mem_true x ids : tid_mem x ids = true -> exists more, dret x ids = IDRet :: more.
Proof.
  induction ids as [|h r IH]; cbn [tid_mem]; [discriminate|]. unfold dret in *. cbn [flat_map]. unfold sel at 1.
  rewrite (tid_eqb_sym h x). destruct (tid_eqb x h); cbn [orb app]; [intros _; eexists; reflexivity | exact IH].
Qed.

Lemma LW_ret_last v U L D : lang v U L (IDRet :: D) = true -> D = [].
Proof. intros H. lang_auto H. Qed.

Lemma tid_mem_eq x y ids : x = y -> tid_mem x ids = tid_mem y ids.
Proof. intros ->. reflexivity. Qed.

Lemma rr_gone x ids ts :
  length (rr x (map wt_id (filter (fun t => tid_mem (wt_id t) ids) ts))) = if tid_mem x ids then cnt x ts else O.
Proof.
  induction ts as [|h r IH]; [destruct (tid_mem x ids); reflexivity|]. cbn [filter].
  unfold cnt in *. cbn [filter].
  destruct (tid_eqb (wt_id h) x) eqn:E.
  - apply tid_eqb_eq in E. rewrite (tid_mem_eq _ _ ids E). destruct (tid_mem x ids) eqn:M.
    + cbn [map]. unfold rr in *. cbn [flat_map]. unfold sel at 1. rewrite E, tid_eqb_refl. cbn [app length]. rewrite IH. reflexivity.
    + exact IH.
  - destruct (tid_mem (wt_id h) ids); [|exact IH].
    cbn [map]. unfold rr in *. cbn [flat_map]. unfold sel at 1. rewrite E. cbn [app]. exact IH.
Qed.
Lemma cnt_keep x ids ts :
  cnt x (filter (fun t => negb (tid_mem (wt_id t) ids)) ts) = if tid_mem x ids then O else cnt x ts.
Proof.
  unfold cnt. induction ts as [|h r IH]; [destruct (tid_mem x ids); reflexivity|]. cbn [filter].
  destruct (tid_eqb (wt_id h) x) eqn:E.
  - apply tid_eqb_eq in E. rewrite (tid_mem_eq _ _ ids E). destruct (tid_mem x ids) eqn:M; cbn [negb].
    + exact IH.
    + cbn [filter]. rewrite (proj2 (tid_eqb_eq _ _) E). cbn [length]. rewrite IH. reflexivity.
  - destruct (negb (tid_mem (wt_id h) ids)); [cbn [filter]; rewrite E|]; exact IH.
Qed.

Lemma bl_has_false b rq : bl_has b rq = false -> bl_get b rq = [].
Proof.
  induction b as [|[k v] r IH]; cbn [bl_has bl_get]; [reflexivity|]. destruct (N.eqb rq k); [discriminate | exact IH].
Qed.

(** * [retract_from]: conservation *)
Lemma retract_from_cons order : forall b ids out b' out',
  retract_from b order ids out = (b', out') -> StronglySorted N.lt (map fst b) ->
  forall x, (bl_count x b' + length (rr x out') = bl_count x b + length (rr x out))%nat
            /\ (tid_mem x ids = false -> bl_count x b' = bl_count x b).
Proof.
  induction order as [|rq r IH]; cbn [retract_from]; intros b ids out b' out' H Hs x; [inversion H; subst; auto|].
  set (ts := bl_get b rq) in *.
  set (keep := filter (fun t => negb (tid_mem (wt_id t) ids)) ts) in *.
  set (gone := map wt_id (filter (fun t => tid_mem (wt_id t) ids) ts)) in *.
  destruct (bl_has b rq) eqn:Eh.
  - destruct (IH _ _ _ _ _ H (bl_set_sorted _ _ _ Hs) x) as [I1 I2].
    pose proof (bl_count_set x b rq keep Hs) as Hc. fold ts in Hc.
    rewrite rr_app, app_length in I1. unfold gone in I1. rewrite rr_gone in I1. unfold keep in Hc. rewrite cnt_keep in Hc.
    fold keep in Hc, I1, I2. destruct (tid_mem x ids); split; intros; try discriminate; try (rewrite I2 by reflexivity); lia.
  - destruct (IH _ _ _ _ _ H Hs x) as [I1 I2]. unfold gone, ts in I1. rewrite (bl_has_false _ _ Eh) in I1. cbn in I1.
    rewrite app_nil_r in I1. auto.
Qed.

Lemma bl_tids_in x b : In x (bl_tids b) -> exists k v y, In (k, v) b /\ In y v /\ wt_id y = x.
Proof.
  unfold bl_tids. rewrite in_flat_map. intros ([k v] & Hin & Hx). cbn in Hx. apply in_map_iff in Hx.
  destruct Hx as (y & Hy & Hiny). eauto 6.
Qed.

Lemma retract_from_zero order b ids out b' out' x :
  retract_from b order ids out = (b', out') -> StronglySorted N.lt (map fst b) ->
  (forall k, In k (map fst b) -> In k order) -> tid_mem x ids = true -> bl_count x b' = O.
Proof.
  intros H Hs Hall Hm. destruct (bl_count x b') eqn:E; [reflexivity|]. exfalso.
  assert (Hpos : (0 < bl_count x b')%nat) by lia. apply bl_count_pos in Hpos.
  destruct (bl_tids_in _ _ Hpos) as (k & v & y & Hin & Hy & Hid).
  destruct (retract_from_sorted _ _ _ _ _ _ H Hs) as [Hs' Hk].
  assert (Hget : bl_get b' k = v) by (apply bl_get_unique; [apply sorted_nodup; exact Hs' | exact Hin]).
  assert (Hord : In k order) by (apply Hall, Hk; apply (in_map fst) in Hin; exact Hin).
  rewrite <- Hget in Hy. pose proof (retract_removes _ _ _ _ _ _ _ _ H Hord Hy) as Hf. rewrite Hid in Hf. congruence.
Qed.

Lemma retract_from_nil order : forall b out b' out', retract_from b order [] out = (b', out') -> out' = out.
Proof.
  induction order as [|rq r IH]; cbn [retract_from]; intros b out b' out' H; [inversion H; reflexivity|].
  assert (E : forall l : list wtask, map wt_id (filter (fun t : wtask => tid_mem (wt_id t) []) l) = []).
  { clear. induction l as [|h l IHl]; [reflexivity | exact IHl]. }
  rewrite E, app_nil_r in H. eapply IH; exact H.
Qed.

Section Handlers.
Variable s : sys.
Variable w : wid.
Variable S : tid -> Prop.

Notation WOK := (WOK s w).
Notation SRC := (SRC S).

(** The invariant of a process between two events. *)
Definition POK (q : wproc) (dx : tid -> list ditem) : Prop := WOK q [] dx /\ LOK q /\ SRC q [].

Lemma POK_send q ups dx : WOK q ups dx -> LOK q -> SRC q ups ->
  let q' := match ups with [] => q | _ => send_up q (UUpdates ups) end in
  POK q' dx /\ (forall x, In x (flat_map umsg_tids (p_up q')) -> In x (flat_map umsg_tids (p_up q)) \/ S x)
  /\ p_down q' = p_down q /\ p_rqs q' = p_rqs q /\ p_id q' = p_id q.
Proof.
  intros HW HL HS. destruct ups as [|u0 ur] eqn:Eu.
  - cbn zeta. split; [split; [exact HW | split; [exact HL | exact HS]]|]. split; [auto | repeat split].
  - cbn zeta. rewrite <- Eu in *. clear Eu. split; [split; [|split]|].
    + intros x t Ht. cbn [send_up wp_up wp_upd p_up]. rewrite uitems_app. cbn [uitems flat_map uitems_msg]. rewrite !app_nil_r.
      exact (HW x t Ht).
    + destruct HL; constructor; assumption.
    + intros x [Hx|[Hx|[]]]; apply HS; auto.
    + split; [|repeat split]. intros x Hx. cbn [send_up wp_up wp_upd p_up] in Hx. rewrite flat_map_app, in_app_iff in Hx.
      destruct Hx as [Hx|Hx]; [left; exact Hx|]. cbn in Hx. rewrite app_nil_r in Hx. right. apply HS. right. right. exact Hx.
Qed.

(** * RetractTasks *)
Lemma retract_inv q ids order b out dr :
  POK q (fun x => dret x ids ++ dr x) ->
  n_perm order (map fst (p_backlog q)) = true ->
  retract_from (p_backlog q) order ids [] = (b, out) ->
  let q1 := wp_backlog q b in
  let q' := match ids with [] => q1 | _ => send_up q1 (URetractResponse out) end in
  POK q' dr /\ (forall x, In x (flat_map umsg_tids (p_up q')) -> In x (flat_map umsg_tids (p_up q)) \/ S x).
Proof.
  intros (HW & HL & HS) Hperm Hr q1 q'.
  pose proof (retract_from_cons _ _ _ _ _ _ Hr (lok_bl _ HL)) as Hc.
  assert (Hall : forall k, In k (map fst (p_backlog q)) -> In k order).
  { unfold n_perm in Hperm. apply andb_true_iff in Hperm. destruct Hperm as [_ Hp]. rewrite forallb_forall in Hp.
    intros k Hk. apply n_mem_In. apply Hp. exact Hk. }
  assert (Hup : forall x, uitems x (p_up q') = uitems x (p_up q) ++ rr x out).
  { intros x. unfold q'. destruct ids as [|i0 ir].
    - pose proof (retract_from_nil _ _ _ _ _ Hr) as Hout.
      subst out. cbn. rewrite app_nil_r. reflexivity.
    - cbn [send_up wp_up wp_upd p_up q1 wp_backlog]. rewrite uitems_app. cbn [uitems flat_map uitems_msg]. rewrite app_nil_r. reflexivity. }
  assert (Hloc : forall x, local q' x = match run_find (p_running q) x, bl_count x b with
                                        | None, O => LNone | None, Datatypes.S O => LBack | Some rv, O => LRun rv | _, _ => LBad end).
  { intros x. unfold q'. destruct ids; reflexivity. }
  split; [split; [|split]|].
  - intros x t Ht. cbn [flat_map]. rewrite app_nil_r. rewrite Hup.
    pose proof (HW x t Ht) as Hl. cbn [flat_map] in Hl. rewrite app_nil_r in Hl.
    destruct (Hc x) as [C1 C2]. cbn [rr flat_map length] in C1.
    destruct (tid_mem x ids) eqn:M.
    + destruct (dret_mem_true _ _ M) as (more & Em). rewrite Em in Hl. cbn [app] in Hl.
      pose proof (LW_ret_last _ _ _ _ Hl) as Enil. apply app_eq_nil in Enil. destruct Enil as [-> Edr]. rewrite Edr in *.
      pose proof (retract_from_zero _ _ _ _ _ _ x Hr (lok_bl _ HL) Hall M) as Z. rewrite Hloc, Z.
      rewrite (rr_repeat x out). replace (length (rr x out)) with (bl_count x (p_backlog q)) by lia.
      destruct (local_cases q x) as [(E1 & E2 & E3)|[(E1 & E2 & E3)|[(rv0 & E1 & E2 & E3)|E1]]]; rewrite E1 in Hl.
      * rewrite E2, E3. cbn [repeat]. rewrite app_nil_r. apply LW_ret_other; [exact Hl | discriminate].
      * rewrite E2, E3. cbn [repeat]. apply LW_ret_back. exact Hl.
      * rewrite E2, E3. cbn [repeat]. rewrite app_nil_r. apply LW_ret_other; [exact Hl | discriminate].
      * rewrite LW_bad in Hl. discriminate.
    + rewrite (dret_mem _ _ M) in Hl. cbn [app] in Hl. specialize (C2 eq_refl).
      rewrite (rr_repeat x out). replace (length (rr x out)) with O by lia. cbn [repeat]. rewrite app_nil_r.
      rewrite Hloc, C2. exact Hl.
  - destruct (retract_from_sorted _ _ _ _ _ _ Hr (lok_bl _ HL)) as [Hs' _].
    unfold q'. destruct HL. destruct ids; constructor; assumption.
  - assert (Hb : forall x, In x (bl_tids b) -> S x).
    { intros x Hx. apply HS. left. apply bl_count_pos. apply bl_count_pos in Hx. destruct (Hc x) as [C1 _]. cbn in C1. lia. }
    intros x Hx. unfold q' in Hx. destruct ids; cbn [send_up q1 wp_up wp_backlog wp_upd p_backlog p_running flat_map] in Hx;
      (destruct Hx as [Hx|[Hx|[]]]; [apply Hb; exact Hx | apply HS; right; left; exact Hx]).
  - assert (Ho : forall x, In x out -> S x).
    { intros x Hx. apply HS. left. apply bl_count_pos. destruct (Hc x) as [C1 _]. cbn [rr flat_map length] in C1.
      assert ((0 < length (rr x out))%nat); [|lia]. clear -Hx. induction out as [|h r IH]; [destruct Hx|].
      unfold rr. cbn [flat_map]. rewrite app_length. destruct Hx as [->|Hx]; [rewrite sel_same; cbn; lia | specialize (IH Hx); unfold rr in IH; lia]. }
    intros x Hx. unfold q' in Hx. destruct ids; cbn [send_up q1 wp_up wp_backlog wp_upd p_up] in Hx; [left; exact Hx|].
    rewrite flat_map_app, in_app_iff in Hx. destruct Hx as [Hx|Hx]; [left; exact Hx|]. cbn in Hx. rewrite app_nil_r in Hx. right. apply Ho. exact Hx.
Qed.

(** * CancelTasks *)
Lemma kset_mem l t : StronglySorted tlt l -> In t l -> kset l t = l.
Proof.
  induction l as [|k r IH]; cbn [kset]; intros Hs Hin; [destruct Hin|].
  inversion Hs as [|? ? Hs' Hall]; subst. destruct (tid_eqb t k) eqn:E; [apply tid_eqb_eq in E; subst; reflexivity|].
  destruct Hin as [->|Hin]; [rewrite tid_eqb_refl in E; discriminate|].
  rewrite Forall_forall in Hall. pose proof (Hall _ Hin) as Hlt.
  destruct (tid_ltb t k) eqn:L; [exfalso; exact (tlt_irrefl _ (tlt_trans _ _ _ L Hlt))|]. rewrite IH by assumption. reflexivity.
Qed.

Lemma bl_count_filter x y b :
  bl_count x (map (fun kv => (fst kv, filter (fun z => negb (tid_eqb (wt_id z) y)) (snd kv))) b)
  = if tid_eqb x y then O else bl_count x b.
Proof.
  induction b as [|[k v] r IH]; [destruct (tid_eqb x y); reflexivity|]. cbn [map fst snd]. rewrite !bl_count_cons, IH.
  assert (E : cnt x (filter (fun z => negb (tid_eqb (wt_id z) y)) v) = if tid_eqb x y then O else cnt x v).
  { unfold cnt. clear. induction v as [|h t IH]; [destruct (tid_eqb x y); reflexivity|]. cbn [filter].
    destruct (tid_eqb (wt_id h) y) eqn:E1; cbn [negb].
    - destruct (tid_eqb (wt_id h) x) eqn:E2; [|exact IH]. apply tid_eqb_eq in E1, E2. subst. rewrite tid_eqb_refl in *. exact IH.
    - cbn [filter]. destruct (tid_eqb (wt_id h) x) eqn:E2; [|exact IH]. apply tid_eqb_eq in E2. subst x. rewrite E1 in *.
      cbn [length]. rewrite IH. reflexivity. }
  rewrite E. destruct (tid_eqb x y); reflexivity.
Qed.

Lemma fu_find_some_in l t v : fu_find l t = Some v -> In t (map fst l).
Proof.
  induction l as [|[k v0] r IH]; cbn [fu_find map fst In]; [discriminate|].
  destruct (tid_eqb t k) eqn:E; [apply tid_eqb_eq in E; auto | intros H; right; apply IH; exact H].
Qed.

Lemma cancel_task_eff q y :
  let q' := cancel_task q y in
  p_up q' = p_up q /\ p_down q' = p_down q /\ p_rqs q' = p_rqs q /\ p_id q' = p_id q /\ p_running q' = p_running q /\
  p_alloc q' = p_alloc q /\
  (forall x, bl_count x (p_backlog q') = bl_count x (p_backlog q) \/ (x = y /\ bl_count x (p_backlog q') = O)) /\
  (LOK q -> LOK q').
Proof.
  unfold cancel_task. destruct (run_find (p_running q) y) as [rv|] eqn:Er.
  - destruct (fu_find (p_futures q) y) as [[sk|]|] eqn:Ef; cbn; do 6 (split; [reflexivity|]); (split; [intros x; left; reflexivity|]); try (intros HL; exact HL).
    intros [L1 L2 L3 L4 L5]. constructor; cbn; try assumption.
    rewrite fu_set_keys, L2. apply kset_mem; [exact L1|]. rewrite <- L2. eapply fu_find_some_in; exact Ef.
  - cbn [p_up p_down p_rqs p_id p_running p_alloc p_backlog p_futures wp_backlog wp_futures wp_upd]. do 6 (split; [reflexivity|]). split.
    + intros x. rewrite bl_count_filter. destruct (tid_eqb x y) eqn:E; [apply tid_eqb_eq in E; right; auto | left; reflexivity].
    + intros [L1 L2 L3 L4 L5]. constructor; cbn; try assumption. rewrite map_map. cbn. exact L5.
Qed.

Definition dcan (x : tid) (ids : list tid) : list ditem := flat_map (fun z => sel z x IDCan) ids.
Lemma dcan_notin x ids : ~ In x ids -> dcan x ids = [].
Proof.
  induction ids as [|h r IH]; [reflexivity|]. intros Hn. unfold dcan in *. cbn [flat_map]. rewrite sel_other; [|intros ->; apply Hn; left; reflexivity].
  apply IH. intros H. apply Hn. right. exact H.
Qed.
Lemma dcan_in x ids : In x ids -> exists more, dcan x ids = IDCan :: more.
Proof.
  induction ids as [|h r IH]; [intros []|]. unfold dcan in *. cbn [flat_map]. unfold sel at 1.
  destruct (tid_eqb h x) eqn:E; [intros _; eexists; reflexivity|]. intros [->|H]; [rewrite tid_eqb_refl in E; discriminate | exact (IH H)].
Qed.

Lemma cancel_inv ids : forall q dr,
  POK q (fun x => dcan x ids ++ dr x) ->
  let q' := fold_left cancel_task ids q in
  POK q' dr /\ p_up q' = p_up q /\ p_down q' = p_down q /\ p_rqs q' = p_rqs q /\ p_id q' = p_id q.
Proof.
  induction ids as [|y r IH]; intros q dr (HW & HL & HS); cbn [fold_left].
  - split; [split; [exact HW | split; assumption]|]. repeat split.
  - destruct (cancel_task_eff q y) as (E1 & E2 & E3 & E4 & E5 & E6 & Hb & Hlok).
    destruct (IH (cancel_task q y) dr) as (A & F1 & F2 & F3 & F4).
    + split; [|split; [apply Hlok; exact HL|]].
      * intros x t Ht. pose proof (HW x t Ht) as Hl. cbn [flat_map] in Hl |- *. rewrite app_nil_r in *. rewrite E1.
        unfold dcan in Hl. cbn [flat_map] in Hl. fold (dcan x r) in Hl. unfold sel at 1 in Hl.
        destruct (tid_eqb y x) eqn:E; [cbn [app] in Hl; exfalso; eapply LW_can; exact Hl|]. cbn [app] in Hl.
        replace (local (cancel_task q y) x) with (local q x); [exact Hl|]. unfold local. rewrite E5.
        destruct (Hb x) as [->|[-> _]]; [reflexivity | rewrite tid_eqb_refl in E; discriminate].
      * intros x [Hx|[Hx|[]]]; apply HS; [left | right; left; rewrite <- E5; exact Hx].
        apply bl_count_pos. apply bl_count_pos in Hx. destruct (Hb x) as [<-|[_ Z]]; [exact Hx | lia].
    + split; [exact A|]. repeat split; congruence.
Qed.

(** * The end of a task future *)
Lemma run_del_incl {V} (l : list (tid * V)) t kv : In kv (run_del l t) -> In kv l.
Proof.
  induction l as [|[k v] r IH]; cbn [run_del In]; [auto|]. destruct (tid_eqb t k); [auto|]. cbn [In]. intros [H|H]; auto.
Qed.

Lemma keys_find_run l x : In x (map fst l) -> exists v, run_find l x = Some v.
Proof. intros H. destruct (run_find l x) eqn:E; [eauto|]. apply run_find_none in E. contradiction. Qed.
Lemma keys_find_al l x : In x (map fst l) -> exists v, al_find l x = Some v.
Proof. intros H. destruct (al_find l x) eqn:E; [eauto|]. apply al_find_none in E. contradiction. Qed.

Lemma task_end_inv q t how dx :
  POK q dx -> fu_find (p_futures q) t <> None ->
  exists q' ls, task_end q t how = Ok (q', ls) /\ POK q' dx
    /\ (forall x, In x (flat_map umsg_tids (p_up q')) -> In x (flat_map umsg_tids (p_up q)) \/ S x)
    /\ p_down q' = p_down q /\ p_rqs q' = p_rqs q /\ p_id q' = p_id q.
Proof.
  intros (HW & HL & HS) Hf. unfold task_end.
  destruct (fu_find (p_futures q) t) as [stop|] eqn:Ef; [clear Hf|congruence].
  pose proof (fu_find_some_in _ _ _ Ef) as Hk. rewrite (lok_fut _ HL) in Hk.
  destruct (keys_find_run _ _ Hk) as (rv & Er). rewrite Er.
  pose proof Hk as Hk2. rewrite <- (lok_al _ HL) in Hk2. destruct (keys_find_al _ _ Hk2) as (al & Ea). rewrite Ea.
  destruct al as [|rq alloc]; [exfalso; exact (lok_ne _ HL _ (al_find_in _ _ _ Ea) eq_refl)|].
  set (p0 := wp_upd q (p_backlog q) (run_del (p_running q) t) (run_del (p_alloc q) t) (p_blocked q) (p_free q)
                    (run_del (p_futures q) t) (tid_remove t (p_timers q)) (p_failnext q) (p_rqs q) (p_down q) (p_up q)).
  set (ups0 := match how with
               | EndOk => [UFinished t]
               | EndFail => [UFailed t FTask]
               | EndFollowStop => match stop with Some SCancel => [] | Some STimeout => [UFailed t FTimeLimit] | None => [UFinished t] end
               end).
  assert (A : WOK p0 ups0 dx /\ LOK p0 /\ SRC p0 ups0).
  { split; [|split].
    - eapply (WOK_upd s w q [] dx p0 ups0 dx t); [exact HW | reflexivity | |].
      + intros x Hx. assert (Ex : tid_eqb x t = false) by (apply tid_eqb_neq; congruence). split; [|split; [|reflexivity]].
        * unfold local. cbn [p0 p_running p_backlog wp_upd]. rewrite (run_find_del _ _ _ (lok_sorted _ HL)), Ex. reflexivity.
        * assert (Hs : forall k, sel t x k = (@nil uitem)) by (intros; apply sel_other; congruence).
          unfold ups0. destruct how; [| |destruct stop as [[|]|]]; cbn [flat_map uitem_of]; rewrite ?Hs; reflexivity.
      + intros ty Hty Hl. cbn [flat_map] in Hl. rewrite app_nil_r in Hl.
        assert (El' : local p0 t = LNone /\ exists rv0, local q t = LRun rv0).
        { destruct (local_cases q t) as [(_ & E2 & _)|[(_ & E2 & _)|[(rv0 & E1 & E2 & E3)|E1]]]; try congruence.
          - split; [|eauto]. unfold local. cbn [p0 p_running p_backlog wp_upd].
            rewrite (run_find_del _ _ _ (lok_sorted _ HL)), tid_eqb_refl, E3. reflexivity.
          - rewrite E1, LW_bad in Hl. discriminate. }
        destruct El' as (-> & rv0 & El). rewrite El in Hl. destruct (LW_end _ _ _ _ Hl) as (P1 & P2 & P3).
        unfold ups0. destruct how; [| |destruct stop as [[|]|]]; cbn [flat_map uitem_of]; rewrite ?sel_same; cbn [app]; rewrite ?app_nil_r; auto.
    - destruct HL as [L1 L2 L3 L4 L5]. constructor; cbn [p0 p_running p_futures p_alloc p_backlog wp_upd].
      + rewrite run_del_keys. apply kdel_sorted. exact L1.
      + rewrite !run_del_keys, L2. reflexivity.
      + rewrite !run_del_keys, L3. reflexivity.
      + intros kv Hkv. apply L4. eapply run_del_incl; exact Hkv.
      + exact L5.
    - intros x [Hx|[Hx|Hx]].
      + apply HS. left. exact Hx.
      + apply HS. right. left. cbn [p0 p_running wp_upd] in Hx. rewrite run_del_keys in Hx. eapply kdel_incl; exact Hx.
      + apply HS. right. left. assert (x = t); [|subst; exact Hk].
        unfold ups0 in Hx. destruct how; [| |destruct stop as [[|]|]]; cbn in Hx; intuition. }
  destruct A as (A1 & A2 & A3).
  destruct (prefill_loop (Datatypes.S (backlog_size p0)) p0 rq rv alloc ups0 []) as [[[p1 ups1] ls] used] eqn:Epl.
  destruct (prefill_loop_inv s w S _ _ _ _ _ _ _ _ _ _ _ dx Epl A1 A2 A3) as (B1 & B2 & B3 & (F1 & F2 & F3 & F4)).
  set (en := filter (fun b => match nth_error (p_rqs p1) (N.to_nat (fst b)) with
                              | Some r => res_fits (p_free p1) (rq_res r)
                              | None => false
                              end) (p_blocked p1)).
  set (p2u := if negb used
              then (wp_blocked p1 (filter (fun b => negb (nn_mem b en)) (p_blocked p1)), ups1 ++ map (fun b => UEnable (fst b) (snd b)) en)
              else (p1, ups1)).
  assert (Hen_i : forall x (l : list (N * N)), flat_map (uitem_of x) (map (fun b => UEnable (fst b) (snd b)) l) = []).
  { intros x l. induction l as [|h r IH]; [reflexivity | exact IH]. }
  assert (Hen_t : forall (l : list (N * N)), flat_map wupdate_tids (map (fun b => UEnable (fst b) (snd b)) l) = []).
  { intros l. induction l as [|h r IH]; [reflexivity | exact IH]. }
  assert (C : WOK (fst p2u) (snd p2u) dx /\ LOK (fst p2u) /\ SRC (fst p2u) (snd p2u) /\ FR p1 (fst p2u)).
  { unfold p2u. destruct (negb used); cbn [fst snd]; [|split; [exact B1|split; [exact B2|split; [exact B3|apply FR_refl]]]].
    split; [|split; [|split]].
    - intros x tx Hx. rewrite flat_map_app, Hen_i, app_nil_r. exact (B1 x tx Hx).
    - destruct B2; constructor; assumption.
    - intros x [Hx|[Hx|Hx]]; apply B3; auto. rewrite flat_map_app, Hen_t, app_nil_r in Hx. auto.
    - repeat split. }
  destruct C as (C1 & C2 & C3 & (G1 & G2 & G3 & G4)).
  change (let '(p2, ups2) := p2u in match ups2 with [] => Ok (p2, ls) | _ :: _ => Ok (send_up p2 (UUpdates ups2), ls) end)
    with (let '(p2, ups2) := p2u in match ups2 with [] => Ok (p2, ls) | _ :: _ => Ok (send_up p2 (UUpdates ups2), ls) end).
  destruct p2u as [p2 ups2] eqn:E2. cbn [fst snd] in *.
  destruct (POK_send p2 ups2 dx C1 C2 C3) as (D1 & D2 & D3 & D4 & D5).
  exists (match ups2 with [] => p2 | _ => send_up p2 (UUpdates ups2) end), ls.
  split; [destruct ups2; reflexivity|]. split; [exact D1|]. split.
  - intros x Hx. destruct (D2 x Hx) as [H|H]; [left; rewrite G1, F1 in H; exact H | right; exact H].
  - repeat split; [rewrite D3, G2, F2 | rewrite D4, G3, F3 | rewrite D5, G4, F4]; reflexivity.
Qed.

(** * Timers *)
Lemma timer_fire_eff q t :
  let q' := timer_fire q t in
  p_up q' = p_up q /\ p_down q' = p_down q /\ p_rqs q' = p_rqs q /\ p_id q' = p_id q /\ p_running q' = p_running q /\
  p_backlog q' = p_backlog q /\ (LOK q -> LOK q').
Proof.
  unfold timer_fire. cbn [p_futures wp_timers wp_upd].
  destruct (fu_find (p_futures q) t) as [[sk|]|] eqn:Ef; cbn; do 6 (split; [reflexivity|]);
    try (intros [L1 L2 L3 L4 L5]; constructor; cbn; assumption).
  intros [L1 L2 L3 L4 L5]. constructor; cbn; try assumption.
  rewrite fu_set_keys, L2. apply kset_mem; [exact L1|]. rewrite <- L2. eapply fu_find_some_in; exact Ef.
Qed.

Lemma timers_eff l : forall q,
  let q' := fold_left timer_fire l q in
  p_up q' = p_up q /\ p_down q' = p_down q /\ p_rqs q' = p_rqs q /\ p_id q' = p_id q /\ p_running q' = p_running q /\
  p_backlog q' = p_backlog q /\ (LOK q -> LOK q').
Proof.
  induction l as [|t r IH]; intros q; cbn [fold_left]; [do 6 (split; [reflexivity|]); auto|].
  destruct (timer_fire_eff q t) as (E1 & E2 & E3 & E4 & E5 & E6 & E7).
  destruct (IH (timer_fire q t)) as (F1 & F2 & F3 & F4 & F5 & F6 & F7).
  do 6 (split; [congruence|]). auto.
Qed.

End Handlers.
