(** Protocol invariant, part 10: [task_finished] and [task_failed] as transitions of [SP]. *)
From HQ Require Import Base.Prelude Cluster.Types Cluster.Core Cluster.Reactor Cluster.Worker Cluster.Server Cluster.Sys Cluster.ProofsJob Cluster.ProofsMore Cluster.ProofsTerminal Cluster.ProofsStep Cluster.BijBase Cluster.BijCore Cluster.BijHq Cluster.BijSt Cluster.BijReact Cluster.NoPanicU0 Cluster.NoPanicU1 Cluster.NoPanicU2 Cluster.NoPanicU6 Cluster.NoPanicU7 Cluster.NoPanicU8 Cluster.NoPanicU9.
From Coq Require Import ZArith Lia Sorting.Sorted.
Local Open Scope N_scope.

Notation tid_eqb_eq := NoPanicU1.tid_eqb_eq.
Notation tid_eqb_neq := NoPanicU1.tid_eqb_neq.
Notation tid_eqb_refl := NoPanicU1.tid_eqb_refl.
Notation find_set_task := NoPanicU6.find_set_task.

(** * Frames of the job layer *)
Lemma check_termination_frame s jid s' : check_termination s jid = Ok s' -> core_of s' = core_of s /\ s_procs (fst s') = s_procs (fst s).
Proof.
  unfold check_termination. intros H. apply bind_ok in H. destruct H as (j & _ & H). apply bind_ok in H. destruct H as (na & _ & H).
  destruct na; [destruct (j_open j)|]; inversion H; subst; split; reflexivity.
Qed.
Lemma process_task_finished_frame s t s' : process_task_finished s t = Ok s' -> core_of s' = core_of s /\ s_procs (fst s') = s_procs (fst s).
Proof.
  unfold process_task_finished. intros H. apply bind_ok in H. destruct H as (j & _ & H).
  destruct (jt_find (j_tasks j) (snd t)) as [[| | | | |]|]; try discriminate. apply bind_ok in H. destruct H as (nr & _ & H).
  destruct (check_termination_frame _ _ _ H) as [A B]. split; [rewrite A | rewrite B]; reflexivity.
Qed.
Lemma abort_tasks_frame s jid ids s' : abort_tasks s jid ids = Ok s' -> core_of s' = core_of s /\ s_procs (fst s') = s_procs (fst s).
Proof.
  unfold abort_tasks. destruct ids; [intros H; inversion H; split; reflexivity|]. intros H.
  apply bind_ok in H. destruct H as (j & _ & H). apply bind_ok in H. destruct H as (j1 & _ & H).
  destruct (check_termination_frame _ _ _ H) as [A B]. split; [rewrite A | rewrite B]; reflexivity.
Qed.
Lemma process_task_failed_frame s t ab k s' ids : process_task_failed s t ab k = Ok (s', ids) -> core_of s' = core_of s /\ s_procs (fst s') = s_procs (fst s).
Proof.
  unfold process_task_failed. intros H.
  apply bind_ok in H. destruct H as (s1 & H1 & H). apply bind_ok in H. destruct H as (j & _ & H).
  apply bind_ok in H. destruct H as (j1 & _ & H). apply bind_ok in H. destruct H as (s2 & H2 & H).
  apply bind_ok in H. destruct H as (j2 & _ & H).
  destruct (abort_tasks_frame _ _ _ _ H1) as [A1 B1]. destruct (check_termination_frame _ _ _ H2) as [A2 B2].
  assert (E2 : core_of s2 = core_of s /\ s_procs (fst s2) = s_procs (fst s)) by (split; [rewrite A2 | rewrite B2]; assumption).
  destruct (j_maxfails j2) as [mf|]; [|inversion H; subst; exact E2]. destruct (N.ltb mf (j_nfail j2)); [|inversion H; subst; exact E2].
  apply bind_ok in H. destruct H as (s3 & H3 & H). inversion H; subst. destruct (abort_tasks_frame _ _ _ _ H3) as [A3 B3].
  destruct E2 as [C D]. split; [rewrite A3 | rewrite B3]; assumption.
Qed.

(** a change of the job layer that leaves the visible tasks alone *)
Lemma SP_hq_chg X (P : tid -> Prop) s pum pd s' :
  SP X s pum pd -> core_of s' = core_of s -> s_procs (fst s') = s_procs (fst s) -> hq_chg P (hq_of s) (hq_of s') ->
  (forall y t, find_task (c_tasks (core_of s)) y = Some t -> X y = false -> ~ P y) ->
  SP X s' pum pd.
Proof.
  intros HS Ec Ep Hc HP.
  apply (SP_ext _ (mkSys (core_of s) (hq_of s') (s_procs (fst s)), snd s') s'); [|rewrite Ec; reflexivity | reflexivity | rewrite Ep; reflexivity].
  apply SP_hq; [exact HS | | intros y; apply (hq_chg_seen _ _ _ _ Hc)].
  intros y t Hy HX. destruct Hc as [_ Hc]. apply (proj1 (Hc y)). eapply HP; eassumption.
Qed.

(** * [task_finished] *)
Lemma task_finished_SP s w id r s' b0 :
  SP x0 s (pum_us w (UFinished id :: r)) [] -> task_finished s w id = Ok (s', b0) -> SP x0 s' (pum_us w r) [].
Proof.
  intros HS H. unfold task_finished in H. cbv zeta in H.
  destruct (find_task (c_tasks (core_of s)) id) as [t|] eqn:Ef.
  2:{ inversion H; subst. eapply (SP_drop_absent w _ r s' id); [exact HS | | exact Ef]. intros y Hy. cbn [uitem_of]. apply sel_other. congruence. }
  destruct (find_task_some _ _ _ Ef) as [_ Eid].
  apply bind_ok in H. destruct H as (rq & _ & H). apply bind_ok in H. destruct H as (c1 & H1 & H).
  apply bind_ok in H. destruct H as (s1 & Hpf & H). apply bind_ok in H. destruct H as ([c3 retracted] & Hwk & H).
  apply bind_ok in H. destruct H as (s2 & Hpr & H). apply bind_ok in H. destruct H as ([c4 stt] & Hrm & H).
  destruct stt; try discriminate. inversion H; subst s' b0. clear H.
  set (X1 := xadd x0 id).
  assert (S0 : SP X1 s (pum_us w r) []).
  { apply (SP_hide_pum x0 s (pum_us w (UFinished id :: r)) [] _ id HS).
    - intros w' y Hy. rewrite pum_us_items. cbn [uitem_of]. rewrite sel_other by congruence. destruct (N.eqb w' w); reflexivity.
    - intros w' y. apply pum_us_tids.
    - intros w'. unfold pum_us. destruct (N.eqb w' w); [discriminate | auto]. }
  assert (F1 : CF X1 (core_of s) c1).
  { destruct (t_state t) as [n|w1 rv1|w1|w1|w1 rv1|ws|]; try discriminate.
    - destruct (negb (N.eqb w1 w)); [discriminate|]. apply bind_ok in H1. destruct H1 as (wk & _ & H1). apply bind_ok in H1. destruct H1 as (wk' & _ & H1).
      inversion H1; subst. apply CF_tasks_same; auto.
    - destruct (negb (N.eqb w1 w)); [discriminate|]. eapply try_remove_redirection_CF; exact H1.
    - destruct (negb (N.eqb w1 w)); [discriminate|]. apply bind_ok in H1. destruct H1 as (wk & _ & H1). apply bind_ok in H1. destruct H1 as (wk' & _ & H1).
      inversion H1; subst. apply CF_tasks_same; auto.
    - destruct ws as [|w0 ws]; [discriminate|]. destruct (N.eqb w0 w); [|discriminate]. eapply reset_mn_workers_CF; exact H1. }
  set (c2 := upd_task c1 (with_state t Finished)) in *.
  assert (F2 : CF X1 (core_of s) c2).
  { eapply CF_trans; [exact F1|].
    assert (Hf1 : exists t1, find_task (c_tasks c1) id = Some t1).
    { (* the functions above do not touch the task map *)
      destruct (t_state t) as [n|w1 rv1|w1|w1|w1 rv1|ws|]; try discriminate.
      - destruct (negb (N.eqb w1 w)); [discriminate|]. apply bind_ok in H1. destruct H1 as (wk & _ & H1). apply bind_ok in H1. destruct H1 as (wk' & _ & H1).
        inversion H1; subst. exists t. exact Ef.
      - destruct (negb (N.eqb w1 w)); [discriminate|]. rewrite (BijSt.try_remove_redirection_tasks _ _ _ H1). exists t. exact Ef.
      - destruct (negb (N.eqb w1 w)); [discriminate|]. apply bind_ok in H1. destruct H1 as (wk & _ & H1). apply bind_ok in H1. destruct H1 as (wk' & _ & H1).
        inversion H1; subst. exists t. exact Ef.
      - destruct ws as [|w0 ws]; [discriminate|]. destruct (N.eqb w0 w); [|discriminate]. rewrite (BijReact.reset_mn_workers_tasks _ _ _ _ H1). exists t. exact Ef. }
    destruct Hf1 as (t1 & Hf1). apply (CF_upd_task X1 c1 t1); [cbn [with_state t_id]; rewrite Eid; exact Hf1|].
    cbn [with_state t_id]. rewrite Eid. unfold X1, xadd. rewrite tid_eqb_refl. discriminate. }
  assert (S2 : SP X1 (st_core s c2) (pum_us w r) []) by (apply (SP_CF X1 X1); [exact S0 | exact F2 | auto]).
  destruct (process_task_finished_frame _ _ _ Hpf) as [Ec1 Ep1]. destruct (process_task_finished_chg _ _ _ Hpf) as [_ Hchg].
  assert (S3 : SP X1 s1 (pum_us w r) []).
  { apply (SP_hq_chg X1 (eq id) (st_core s c2) _ _ s1 S2 Ec1 Ep1 Hchg). intros y ty _ HX <-. unfold X1, xadd in HX. rewrite tid_eqb_refl in HX. discriminate. }
  assert (S4 : SP X1 (st_core s1 c3) (pum_us w r) []) by (apply (SP_CF X1 X1); [exact S3 | eapply wake_consumers_CF; exact Hwk | auto]).
  pose proof (process_retracted_SP _ _ _ _ _ S4 Hpr) as S5.
  destruct (remove_task_CF X1 _ _ _ _ (sp_cs _ _ _ _ S5) Hrm) as (F6 & N6 & _).
  apply (SP_show_absent x0 _ _ _ id); [|reflexivity | exact N6].
  apply (SP_CF X1 X1); [exact S5 | exact F6 | auto].
Qed.

(** * Hiding more, and forgetting hidden tasks that have left the core *)
Lemma SP_more_hidden X X' s pum pd : SP X s pum pd -> (forall y, X' y = false -> X y = false) -> SP X' s pum pd.
Proof.
  intros HS HX. apply (SP_ext _ (st_core s (core_of s)) s); [|reflexivity|reflexivity|reflexivity].
  apply (SP_CF X X'); [exact HS | apply CF_refl | exact HX].
Qed.

Lemma SP_unhide_absent X s pum pd : SP X s pum pd -> (forall y, X y = true -> find_task (c_tasks (core_of s)) y = None) -> SP x0 s pum pd.
Proof.
  intros HS Hab.
  apply (SP_ext _ (mkSys (core_of s) (hq_of s) (s_procs (fst s)), snd s) s); [|reflexivity|reflexivity|reflexivity].
  apply (SP_gen X X x0 s pum pd (core_of s) (hq_of s) (snd s) pum pd HS (sp_cs _ _ _ _ HS) eq_refl (sp_rvr _ _ _ _ HS)).
  - intros y t' E Hy _. exists t'. repeat split; assumption.
  - intros w y _. split; reflexivity.
  - auto.
  - intros y t' Hy. congruence.
  - intros w p y Hp Hy. eapply (sp_seen _ _ _ _ HS); [exact Hp | right; exact Hy].
  - intros w p Hp. split; [exact (sp_down _ _ _ _ HS _ _ Hp) | reflexivity].
  - auto.
  - intros y t' E Hy _. rewrite (Hab y E) in Hy. discriminate.
Qed.

(** pending messages that name absent tasks only *)
Lemma ditems_notin y ms : ~ In y (flat_map dmsg_tids ms) -> ditems y ms = [].
Proof.
  induction ms as [|m r IH]; [reflexivity|]. cbn [flat_map]. rewrite in_app_iff. intros Hn. rewrite ditems_cons, IH by tauto. rewrite app_nil_r.
  assert (Hm : ~ In y (dmsg_tids m)) by tauto. clear -Hm.
  assert (Hs : forall (A : Type) (f : tid -> A) l, ~ In y l -> flat_map (fun x => sel x y (f x)) l = []).
  { intros A f l. induction l as [|h t IH]; [reflexivity|]. cbn [flat_map In]. intros Hn. rewrite sel_other by (intros ->; apply Hn; auto). apply IH. tauto. }
  destruct m as [ts|ids|ids| | | |]; cbn [ditems_msg dmsg_tids] in *; try reflexivity.
  - induction ts as [|ct t IH]; [reflexivity|]. cbn [flat_map map In] in *. rewrite sel_other by (intros E; apply Hm; auto). apply IH. tauto.
  - apply (Hs _ (fun _ => IDRet)). exact Hm.
  - apply (Hs _ (fun _ => IDCan)). exact Hm.
Qed.

Lemma SP_add_pending X s pum ext :
  SP X s pum [] ->
  (forall w m, In m (msgs_for w ext) -> plain m) ->
  (forall w y, In y (flat_map dmsg_tids (msgs_for w ext)) -> find_task (c_tasks (core_of s)) y = None /\ seen (hq_of s) y = true) ->
  SP X s pum ext.
Proof.
  intros [H9 Hcs Hact H1 Hd Ht H3 H4 Hpres Hpum H5 H6 H7 R1 R2] Hpl Hab.
  constructor; try assumption.
  - intros w p x t Hp Hx HX. specialize (H1 w p x t Hp Hx HX). rewrite msgs_for_nil, app_nil_r in H1.
    rewrite ditems_app, (ditems_notin x (msgs_for w ext)), app_nil_r; [exact H1|]. intros Hin. destruct (Hab _ _ Hin) as [E _]. congruence.
  - intros w p Hp. specialize (Hd _ _ Hp). rewrite msgs_for_nil, app_nil_r in Hd. rewrite (down_ok_plain _ _ (Hpl w)). exact Hd.
  - intros w p Hp. specialize (Ht _ _ Hp). rewrite msgs_for_nil, app_nil_r in Ht. rewrite newrq_app, (newrq_plain _ (Hpl w)), app_nil_r. exact Ht.
  - intros w p x Hp [Hx|[Hx|Hx]]; [eapply H4; [exact Hp | left; exact Hx] | eapply H4; [exact Hp | right; left; exact Hx] | exact (proj2 (Hab _ _ Hx))].
Qed.

(** * [on_cancel_tasks] *)
Definition gids (ru : list (wid * list tid)) : list tid := flat_map snd ru.
Lemma group_add_gids w (x : tid) ru y : In y (gids (group_add w x ru)) -> y = x \/ In y (gids ru).
Proof.
  unfold gids. induction ru as [|[k v] r IH]; cbn [group_add flat_map snd].
  - rewrite app_nil_r. intros [H|[]]; auto.
  - destruct (N.eqb k w); cbn [flat_map snd]; rewrite !in_app_iff.
    + cbn [In]. intros [[H|[H|[]]]|H]; auto.
    + intros [H|H]; [auto|]. destruct (IH H); auto.
Qed.

Lemma cancel_release_eff X ids : forall s tu ru s' tu' ru',
  cancel_release s ids tu ru = Ok (s', tu', ru') ->
  CF X (core_of s) (core_of s') /\ hq_of s' = hq_of s /\ s_procs (fst s') = s_procs (fst s) /\
  c_tasks (core_of s') = c_tasks (core_of s) /\
  (forall y, In y tu -> In y tu') /\
  (forall y, In y ids -> find_task (c_tasks (core_of s)) y <> None -> In y tu') /\
  (forall y, In y (gids ru') -> In y (gids ru) \/ (In y ids /\ find_task (c_tasks (core_of s)) y <> None)).
Proof.
  induction ids as [|id r IH]; cbn [cancel_release]; intros s tu ru s' tu' ru' H.
  - inversion H; subst. split; [apply CF_refl|]. repeat split; auto. intros y [].
  - destruct (find_task (c_tasks (core_of s)) id) as [t|] eqn:Ef.
    2:{ destruct (IH _ _ _ _ _ _ H) as (A & B & C & T & D & E & F). split; [exact A|]. repeat split; auto.
        - intros y [<-|Hy] Hp; [congruence | apply E; assumption].
        - intros y Hy. destruct (F y Hy) as [G|[G1 G2]]; [left; exact G | right; split; [right; exact G1 | exact G2]]. }
    apply bind_ok in H. destruct H as (csm & _ & H). apply bind_ok in H. destruct H as (rq & _ & H).
    set (tu1 := tid_insert_all csm (tid_insert id tu)) in *.
    assert (Htu : (forall y, In y tu -> In y tu1) /\ In id tu1).
    { split; [intros y Hy; apply tid_insert_all_keeps, tid_insert_keeps; exact Hy | apply tid_insert_all_keeps, tid_insert_has]. }
    destruct Htu as [Htu1 Htu2].
    assert (Hgo : forall s1 ru1, CF X (core_of s) (core_of s1) -> hq_of s1 = hq_of s -> s_procs (fst s1) = s_procs (fst s) ->
                    (c_tasks (core_of s1) = c_tasks (core_of s)) ->
                    (forall y, In y (gids ru1) -> y = id \/ In y (gids ru)) ->
                    cancel_release s1 r tu1 ru1 = Ok (s', tu', ru') ->
                    CF X (core_of s) (core_of s') /\ hq_of s' = hq_of s /\ s_procs (fst s') = s_procs (fst s) /\
                    c_tasks (core_of s') = c_tasks (core_of s) /\
                    (forall y, In y tu -> In y tu') /\
                    (forall y, id = y \/ In y r -> find_task (c_tasks (core_of s)) y <> None -> In y tu') /\
                    (forall y, In y (gids ru') -> In y (gids ru) \/ ((id = y \/ In y r) /\ find_task (c_tasks (core_of s)) y <> None))).
    { intros s1 ru1 F1 E1 E2 Et Hru H'. destruct (IH _ _ _ _ _ _ H') as (A & B & C & T & D & E & F).
      split; [eapply CF_trans; eassumption|]. split; [congruence|]. split; [congruence|]. split; [congruence|]. split; [auto|]. split.
      - intros y [<-|Hy] Hp; [apply D; exact Htu2 | apply E; [exact Hy | rewrite Et; exact Hp]].
      - intros y Hy. destruct (F y Hy) as [G|[G1 G2]].
        + destruct (Hru y G) as [->|G']; [right; split; [left; reflexivity | congruence] | left; exact G'].
        + right. split; [right; exact G1 | rewrite <- Et; exact G2]. }
    assert (Hadd : forall w0, forall y, In y (gids (group_add w0 id ru)) -> y = id \/ In y (gids ru)) by (intros w0 y; apply group_add_gids).
    destruct (t_state t) as [n|w1 rv1|w1|w1|w1 rv1|ws|].
    + eapply (Hgo (ask_scheduling s) ru); [apply CF_tasks_same; auto | reflexivity | reflexivity | reflexivity | auto | exact H].
    + apply bind_ok in H. destruct H as (wk & _ & H). apply bind_ok in H. destruct H as (wk' & _ & H).
      eapply (Hgo _ (group_add w1 id ru)); [| | | |apply Hadd | exact H]; try reflexivity. apply CF_tasks_same; auto.
    + apply bind_ok in H. destruct H as (q & _ & H). apply bind_ok in H. destruct H as (q' & _ & H). apply bind_ok in H. destruct H as (wk & _ & H). apply bind_ok in H. destruct H as (wk' & _ & H).
      eapply (Hgo _ (group_add w1 id ru)); [| | | |apply Hadd | exact H]; try reflexivity. apply CF_tasks_same; auto.
    + apply bind_ok in H. destruct H as (c' & Hr & H).
      eapply (Hgo _ (group_add w1 id ru)); [| | | |apply Hadd | exact H]; try reflexivity.
      * cbn [ask_scheduling st_core core_of with_core s_core fst]. eapply CF_trans; [eapply try_remove_redirection_CF; exact Hr | apply CF_tasks_same; auto].
      * cbn [ask_scheduling st_core core_of with_core s_core fst with_flag c_tasks]. apply (BijSt.try_remove_redirection_tasks _ _ _ Hr).
    + apply bind_ok in H. destruct H as (wk & _ & H). apply bind_ok in H. destruct H as (wk' & _ & H).
      eapply (Hgo _ (group_add w1 id ru)); [| | | |apply Hadd | exact H]; try reflexivity. apply CF_tasks_same; auto.
    + apply bind_ok in H. destruct H as (c' & Hr & H). destruct ws as [|w0 ws0]; [discriminate|].
      eapply (Hgo _ (group_add w0 id ru)); [| | | |apply Hadd | exact H]; try reflexivity.
      * cbn [ask_scheduling st_core core_of with_core s_core fst]. eapply CF_trans; [eapply reset_mn_all_CF; exact Hr | apply CF_tasks_same; auto].
      * cbn [ask_scheduling st_core core_of with_core s_core fst with_flag c_tasks]. apply (BijReact.reset_mn_all_tasks _ _ _ Hr).
    + discriminate.
Qed.

Lemma pg_cancel_tids ru w y : In y (flat_map dmsg_tids (msgs_for w (pg DCancel ru))) -> In y (gids ru).
Proof.
  unfold msgs_for, pg, gids. rewrite in_flat_map. intros (m & Hm & Hy). apply in_map_iff in Hm. destruct Hm as ([k m0] & <- & Hin).
  apply filter_In in Hin. destruct Hin as [Hin _]. apply in_map_iff in Hin. destruct Hin as ([k1 l] & E & Hl). inversion E; subst.
  cbn in Hy. apply in_flat_map. exists (k, l). auto.
Qed.

Lemma on_cancel_tasks_SP X s pum ids s' :
  SP X s pum [] -> on_cancel_tasks s ids = Ok s' ->
  SP X s' pum [] /\ (forall y, In y ids -> find_task (c_tasks (core_of s')) y = None) /\
  (forall y t', find_task (c_tasks (core_of s')) y = Some t' -> find_task (c_tasks (core_of s)) y <> None).
Proof.
  intros HS H. unfold on_cancel_tasks in H. apply bind_ok in H. destruct H as ([[s1 tu] ru] & H1 & H).
  apply bind_ok in H. destruct H as (c' & H2 & H).
  destruct (cancel_release_eff X _ _ _ _ _ _ _ H1) as (F1 & Eh & Ep & Et & _ & Hids & Hg).
  assert (S1 : SP X s1 pum []).
  { apply (SP_ext _ (st_core s (core_of s1)) s1); [|reflexivity | exact Eh | exact Ep]. apply (SP_CF X X); [exact HS | exact F1 | auto]. }
  destruct (remove_tasks_batched_CF X _ _ _ (sp_cs _ _ _ _ S1) H2) as [F2 N2].
  assert (S2 : SP X (st_core s1 c') pum []) by (apply (SP_CF X X); [exact S1 | exact F2 | auto]).
  assert (S3 : SP X (st_core s1 c') pum (pg DCancel ru)).
  { apply SP_add_pending; [exact S2 | intros w m; apply (pg_plain DCancel w ru); intros; exact I|].
    intros w y Hy. apply pg_cancel_tids in Hy. destruct (Hg y Hy) as [[]|[G1 G2]]. split; [apply N2; apply Hids; assumption|].
    change (hq_of (st_core s1 c')) with (hq_of s1). rewrite Eh.
    destruct (find_task (c_tasks (core_of s)) y) as [ty|] eqn:Ey; [|congruence]. eapply (sp_pres _ _ _ _ HS). exact Ey. }
  pose proof (send_all_SP _ _ _ _ _ S3 H) as S4.
  assert (Ec : core_of s' = c') by (rewrite (BijSt.send_all_core _ _ _ H); reflexivity).
  split; [exact S4|]. rewrite Ec. split.
  - intros y Hy. destruct (find_task (c_tasks c') y) as [t'|] eqn:E; [|reflexivity]. exfalso.
    pose proof (cf_sub _ _ _ F2 _ _ E) as Hp. rewrite Et in Hp. rewrite (N2 y (Hids y Hy Hp)) in E. discriminate.
  - intros y t' Hy. pose proof (cf_sub _ _ _ F2 _ _ Hy) as Hp. rewrite Et in Hp. exact Hp.
Qed.

(** * [task_failed] (the failing task is hidden by the caller) *)
Lemma tid_mem_In x l : tid_mem x l = true <-> In x l.
Proof.
  induction l as [|h t IH]; cbn [tid_mem In]; [split; [discriminate | intros []]|].
  rewrite orb_true_iff, IH, tid_eqb_eq. split; intros [H|H]; auto.
Qed.

Lemma task_failed_SPX s wo id k pum s' :
  SP (xadd x0 id) s pum [] -> task_failed s wo id k = Ok s' -> SP x0 s' pum [].
Proof.
  intros HS H. unfold task_failed in H. cbv zeta in H.
  destruct (find_task (c_tasks (core_of s)) id) as [t|] eqn:Ef.
  2:{ inversion H; subst. apply (SP_show_absent x0 _ _ _ id); [exact HS | reflexivity | exact Ef]. }
  set (X1 := xadd x0 id) in *.
  apply bind_ok in H. destruct H as (rq & _ & H). apply bind_ok in H. destruct H as (c1 & H1 & H).
  apply bind_ok in H. destruct H as (csm & _ & H). apply bind_ok in H. destruct H as (c2 & H2 & H).
  apply bind_ok in H. destruct H as ([c3 stt] & H3 & H). apply bind_ok in H. destruct H as (u & _ & H).
  apply bind_ok in H. destruct H as ([s1 cids] & H4 & H).
  assert (F1 : CF X1 (core_of s) c1).
  { destruct wo as [wkr|].
    - destruct (rq_is_mn rq).
      + destruct (t_state t) as [n|w1 rv1|w1|w1|w1 rv1|ws|]; try discriminate. destruct ws as [|w0 ws0]; [discriminate|].
        destruct (N.eqb w0 wkr); [|discriminate]. eapply reset_mn_workers_CF; exact H1.
      + destruct (t_state t) as [n|w1 rv1|w1|w1|w1 rv1|ws|]; try (inversion H1; subst; apply CF_refl).
        * destruct (negb (N.eqb wkr w1)); [discriminate|]. apply bind_ok in H1. destruct H1 as (wk & _ & H1). apply bind_ok in H1. destruct H1 as (wk' & _ & H1).
          inversion H1; subst. apply CF_tasks_same; auto.
        * destruct (negb (N.eqb wkr w1)); [discriminate|]. apply bind_ok in H1. destruct H1 as (q & _ & H1). apply bind_ok in H1. destruct H1 as (q' & _ & H1).
          apply bind_ok in H1. destruct H1 as (wk & _ & H1). apply bind_ok in H1. destruct H1 as (wk' & _ & H1). inversion H1; subst. apply CF_tasks_same; auto.
        * destruct (negb (N.eqb wkr w1)); [discriminate|]. eapply try_remove_redirection_CF; exact H1.
        * destruct (negb (N.eqb wkr w1)); [discriminate|]. apply bind_ok in H1. destruct H1 as (wk & _ & H1). apply bind_ok in H1. destruct H1 as (wk' & _ & H1).
          inversion H1; subst. apply CF_tasks_same; auto.
    - destruct (is_waiting t); [inversion H1; subst; apply CF_refl | discriminate]. }
  pose proof (sp_cs _ _ _ _ HS) as Hcs.
  destruct (remove_waiting_consumers_CF X1 _ _ _ (CF_sorted_after _ _ _ F1 Hcs) H2) as [F2 N2].
  pose proof (CF_trans _ _ _ _ F1 F2) as F12.
  destruct (remove_task_CF X1 _ _ _ _ (CF_sorted_after _ _ _ F12 Hcs) H3) as (F3 & N3 & _).
  pose proof (CF_trans _ _ _ _ F12 F3) as F123.
  assert (S3 : SP x0 (st_core s c3) pum []).
  { apply (SP_show_absent x0 _ _ _ id); [|reflexivity | exact N3]. apply (SP_CF X1 X1); [exact HS | exact F123 | auto]. }
  destruct (process_task_failed_frame _ _ _ _ _ _ H4) as [Ec4 Ep4]. pose proof (process_task_failed_chg _ _ _ _ _ _ H4) as Hchg.
  set (X2 := fun y => tid_mem y cids).
  assert (S4 : SP X2 s1 pum []).
  { apply (SP_hq_chg X2 _ (st_core s c3) _ _ s1 (SP_more_hidden x0 X2 _ _ _ S3 (fun _ _ => eq_refl)) Ec4 Ep4 Hchg).
    intros y ty Hy HX [->|[Hc|Hc]].
    - change (core_of (st_core s c3)) with c3 in Hy. congruence.
    - change (core_of (st_core s c3)) with c3 in Hy. pose proof (cf_sub _ _ _ F3 _ _ Hy) as Hp. apply Hp. apply N2. exact Hc.
    - unfold X2 in HX. apply tid_mem_In in Hc. congruence. }
  destruct cids as [|c0 cr].
  - inversion H; subst s'. apply (SP_more_hidden X2 x0); [exact S4 | intros y _; reflexivity].
  - destruct (on_cancel_tasks_SP X2 _ _ _ _ S4 H) as (S5 & N5 & _).
    apply (SP_unhide_absent X2); [exact S5|]. intros y Hy. apply N5. apply tid_mem_In. exact Hy.
Qed.

Lemma task_failed_SP s w id k r s' :
  SP x0 s (pum_us w (UFailed id k :: r)) [] -> task_failed s (Some w) id k = Ok s' -> SP x0 s' (pum_us w r) [].
Proof.
  intros HS H. eapply task_failed_SPX; [|exact H].
  apply (SP_hide_pum x0 s (pum_us w (UFailed id k :: r)) [] _ id HS).
  - intros w' y Hy. rewrite pum_us_items. cbn [uitem_of]. rewrite sel_other by congruence. destruct (N.eqb w' w); reflexivity.
  - intros w' y. apply pum_us_tids.
  - intros w'. unfold pum_us. destruct (N.eqb w' w); [discriminate | auto].
Qed.
