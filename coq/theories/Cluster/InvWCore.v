(** Worker-set invariant, part 3: the invariant on cores ([WIX X c]: [X] = set of task ids that are
    temporarily hidden, i.e. already taken out of the worker sets but not yet out of the task map)
    and the primitive transitions of the reactor expressed on cores. *)
From HQ Require Import Base.Prelude Cluster.Types Cluster.Core Cluster.Reactor Cluster.Worker Cluster.Server Cluster.Sys Cluster.ProofsJob Cluster.ProofsMore Cluster.ProofsStep Cluster.BijBase Cluster.BijCore Cluster.InvWBase Cluster.InvWView.
From Coq Require Import ZArith Lia Sorting.Sorted.
Local Open Scope N_scope.

Arguments N.add : simpl never.
Arguments N.sub : simpl never.

Definition TV (ts : list task) : tview := fun id => option_map t_state (find_task ts id).

Definition xset := tid -> bool.
Definition x0 : xset := fun _ => false.
Definition xadd (X : xset) (id : tid) : xset := fun i => tid_eqb i id || X i.
Definition xdel (X : xset) (id : tid) : xset := fun i => negb (tid_eqb i id) && X i.
Definition hv (X : xset) (tv : tview) : tview := fun id => if X id then None else tv id.

Definition wbound (wv : wview) (n : N) : Prop := forall w, wv w <> None -> w <= n.
Definition WIX (X : xset) (c : core) : Prop :=
  wsorted (c_workers c) /\ rsorted (c_redirects c) /\
  WIv (hv X (TV (c_tasks c))) (find_worker (c_workers c)) (find_redirect (c_redirects c)) /\
  wbound (find_worker (c_workers c)) (c_wcounter c).
Definition WI : core -> Prop := WIX x0.

Lemma WIX_intro X c tv wv rv :
  wsorted (c_workers c) -> rsorted (c_redirects c) -> WIv tv wv rv ->
  (forall id, plo (hv X (TV (c_tasks c)) id) = plo (tv id)) ->
  (forall w, find_worker (c_workers c) w = wv w) ->
  (forall id, find_redirect (c_redirects c) id = rv id) -> wbound wv (c_wcounter c) -> WIX X c.
Proof.
  intros Sw Sr H Et Ew Er Hb. split; [exact Sw|]. split; [exact Sr|]. split; [eapply WIv_ext; eassumption|].
  intros w. rewrite Ew. apply Hb.
Qed.

Lemma wbound_wset wv n w k : wbound wv n -> wv w <> None -> wbound (wset wv w k) n.
Proof.
  intros Hb Hw y. unfold wset. destruct (N.eqb y w) eqn:E; [apply N.eqb_eq in E; subst; intros _; apply Hb; exact Hw | apply Hb].
Qed.
Lemma wbound_wset_none wv n w : wbound wv n -> wbound (wset wv w None) n.
Proof. intros Hb y. unfold wset. destruct (N.eqb y w); [congruence | apply Hb]. Qed.

Lemma WIX_extX X X' c : (forall i, X' i = X i) -> WIX X c -> WIX X' c.
Proof.
  intros E (Sw & Sr & H & Hb). eapply WIX_intro; [exact Sw | exact Sr | exact H | | reflexivity | reflexivity | exact Hb].
  intros id. unfold hv. rewrite E. reflexivity.
Qed.

(** Only tasks / workers / redirects matter. *)
Lemma WIX_frame X c c' : c_tasks c' = c_tasks c -> c_workers c' = c_workers c -> c_redirects c' = c_redirects c ->
  c_wcounter c' = c_wcounter c -> WIX X c -> WIX X c'.
Proof. unfold WIX. intros -> -> -> ->. auto. Qed.

(** * Views of updated maps *)
Lemma TV_set ts x i : TV (set_task ts x) i = tset (TV ts) (t_id x) (Some (t_state x)) i.
Proof. unfold TV, tset. rewrite find_set_task. destruct (tid_eqb i (t_id x)); reflexivity. Qed.

Lemma FW_set ws k x : find_worker (set_worker ws k) x = wset (find_worker ws) (w_id k) (Some k) x.
Proof. unfold wset. apply find_set_worker. Qed.

Lemma FW_del ws w x : wsorted ws -> find_worker (del_worker ws w) x = wset (find_worker ws) w None x.
Proof. intros Hs. unfold wset. apply find_del_worker. exact Hs. Qed.

Lemma FR_set rs id v x : find_redirect (set_redirect rs id v) x = rset (find_redirect rs) id (Some v) x.
Proof. unfold rset. apply find_set_redirect. Qed.

Lemma FR_del rs id x : rsorted rs -> find_redirect (del_redirect rs id) x = rset (find_redirect rs) id None x.
Proof. intros Hs. unfold rset. apply find_del_redirect. exact Hs. Qed.

Lemma hv_tset X tv id s i : X id = false -> hv X (tset tv id s) i = tset (hv X tv) id s i.
Proof.
  intros E. unfold hv, tset. destruct (tid_eqb i id) eqn:Ei; [|reflexivity].
  apply tid_eqb_eq in Ei. subst i. rewrite E. reflexivity.
Qed.

Lemma hv_tset_hidden X tv id s i : X id = true -> hv X (tset tv id s) i = hv X tv i.
Proof.
  intros E. unfold hv, tset. destruct (tid_eqb i id) eqn:Ei; [|reflexivity].
  apply tid_eqb_eq in Ei. subst i. rewrite E. reflexivity.
Qed.

Lemma hv_xadd X tv id i : hv (xadd X id) tv i = tset (hv X tv) id None i.
Proof. unfold hv, xadd, tset. destruct (tid_eqb i id); reflexivity. Qed.

Lemma hv_show X X' tv id s i : (forall j, X j = negb (tid_eqb j id) && X' j) ->
  hv X (tset tv id s) i = tset (hv X' tv) id s i.
Proof.
  intros E. unfold hv, tset. rewrite E. destruct (tid_eqb i id); reflexivity.
Qed.

Lemma TV_find ts id t : find_task ts id = Some t -> TV ts id = Some (t_state t).
Proof. unfold TV. intros ->. reflexivity. Qed.

Lemma hv_find X ts id t : X id = false -> find_task ts id = Some t -> plo (hv X (TV ts) id) = pl (t_state t).
Proof. intros E Hf. unfold hv. rewrite E, (TV_find _ _ _ Hf). reflexivity. Qed.

Lemma hv_hidden X tv id : X id = true -> plo (hv X tv id) = PN.
Proof. intros E. unfold hv. rewrite E. reflexivity. Qed.

(** A redirect exists only for a visible task. *)
Lemma redirect_visible X c id v : WIX X c -> find_redirect (c_redirects c) id = Some v -> X id = false.
Proof.
  intros (_ & _ & H & _) Hr. destruct (X id) eqn:E; [|reflexivity].
  assert (Hp : plo (hv X (TV (c_tasks c)) id) = PR) by (apply (wi_R _ _ _ H); congruence).
  rewrite (hv_hidden _ _ _ E) in Hp. discriminate.
Qed.

(** * Worker operations *)
Lemma remove_sn_task_spec wk id rq wk' : remove_sn_task wk id rq = Ok wk' ->
  w_id wk' = w_id wk /\ exists a p f, w_assign wk = Sn a p f /\ w_assign wk' = Sn (tid_remove id a) p (res_add_cap f rq (w_res wk)).
Proof.
  unfold remove_sn_task. destruct (w_assign wk) as [a p f|] eqn:E; [|discriminate].
  destruct (tid_mem id a); [|discriminate]. intros H; inversion H; subst. cbn. split; [reflexivity|]. exists a, p, f. auto.
Qed.
Lemma remove_prefill_task_spec wk id wk' : remove_prefill_task wk id = Ok wk' ->
  w_id wk' = w_id wk /\ exists a p f, w_assign wk = Sn a p f /\ w_assign wk' = Sn a (tid_remove id p) f.
Proof.
  unfold remove_prefill_task. destruct (w_assign wk) as [a p f|] eqn:E; [|discriminate].
  destruct (tid_mem id p); [|discriminate]. intros H; inversion H; subst. cbn. split; [reflexivity|]. exists a, p, f. auto.
Qed.
Lemma insert_sn_task_spec wk id rq wk' : insert_sn_task wk id rq = Ok wk' ->
  w_id wk' = w_id wk /\ exists a p f, w_assign wk = Sn a p f /\ w_assign wk' = Sn (tid_insert id a) p (res_sub f rq).
Proof.
  unfold insert_sn_task. destruct (w_assign wk) as [a p f|] eqn:E; [|discriminate].
  destruct (tid_mem id a); [discriminate|]. intros H; inversion H; subst. cbn. split; [reflexivity|]. exists a, p, f. auto.
Qed.
Lemma insert_prefill_task_spec wk id wk' : insert_prefill_task wk id = Ok wk' ->
  w_id wk' = w_id wk /\ exists a p f, w_assign wk = Sn a p f /\ w_assign wk' = Sn a (tid_insert id p) f.
Proof.
  unfold insert_prefill_task. destruct (w_assign wk) as [a p f|] eqn:E; [|discriminate].
  destruct (tid_mem id p); [discriminate|]. intros H; inversion H; subst. cbn. split; [reflexivity|]. exists a, p, f. auto.
Qed.

Lemma get_worker_find ws w wk : get_worker ws w = Ok wk -> find_worker ws w = Some wk.
Proof. unfold get_worker. destruct (find_worker ws w); intros H; inversion H; reflexivity. Qed.

(** * Primitive transitions on cores *)
Section Prim.
Variable X : xset.
Variable c : core.
Hypothesis HW : WIX X c.

Let Sw : wsorted (c_workers c) := proj1 HW.
Let Sr : rsorted (c_redirects c) := proj1 (proj2 HW).
Let Hv := proj1 (proj2 (proj2 HW)).
Let Hb : wbound (find_worker (c_workers c)) (c_wcounter c) := proj2 (proj2 (proj2 HW)).

(** Same placement. *)
Lemma C_same id t x : find_task (c_tasks c) id = Some t -> t_id x = id -> pl (t_state x) = pl (t_state t) -> WIX X (upd_task c x).
Proof.
  intros Hf Hi Hp. destruct (X id) eqn:Ex.
  - eapply WIX_intro; [exact Sw | exact Sr | exact Hv | | reflexivity | reflexivity | exact Hb].
    intros i. cbn [c_tasks upd_task with_tasks]. f_equal.
    transitivity (hv X (tset (TV (c_tasks c)) id (Some (t_state x))) i); [unfold hv; rewrite TV_set, Hi; reflexivity|].
    apply hv_tset_hidden. exact Ex.
  - eapply (WIX_intro _ _ (tset (hv X (TV (c_tasks c))) id (Some (t_state x)))); [exact Sw | exact Sr | | | reflexivity | reflexivity | exact Hb].
    + apply V_same; [exact Hv|]. cbn [plo]. rewrite Hp. symmetry. apply hv_find; assumption.
    + intros i. cbn [c_tasks upd_task with_tasks]. f_equal. rewrite <- hv_tset by exact Ex. unfold hv. rewrite TV_set, Hi. reflexivity.
Qed.

Definition wlc (id : tid) (t : task) : Prop :=
  pl (t_state t) = PN \/ (pl (t_state t) = PR /\ find_redirect (c_redirects c) id = None).

Lemma wlc_wl id t : X id = false -> find_task (c_tasks c) id = Some t -> wlc id t ->
  wl (hv X (TV (c_tasks c))) (find_redirect (c_redirects c)) id.
Proof.
  intros Ex Hf [Hp|[Hp Hr]]; [left | right; split; [|exact Hr]]; rewrite (hv_find _ _ _ _ Ex Hf); exact Hp.
Qed.

Lemma hidden_wl id : X id = true -> wl (hv X (TV (c_tasks c))) (find_redirect (c_redirects c)) id.
Proof. intros Ex. left. apply hv_hidden. exact Ex. Qed.

(** Between wantless states. *)
Lemma C_neutral id t x : find_task (c_tasks c) id = Some t -> t_id x = id -> wlc id t ->
  (pl (t_state x) = PN \/ pl (t_state x) = PR) -> WIX X (upd_task c x).
Proof.
  intros Hf Hi Hl Hp. destruct (X id) eqn:Ex.
  - eapply WIX_intro; [exact Sw | exact Sr | exact Hv | | reflexivity | reflexivity | exact Hb].
    intros i. cbn [c_tasks upd_task with_tasks]. f_equal.
    transitivity (hv X (tset (TV (c_tasks c)) id (Some (t_state x))) i); [unfold hv; rewrite TV_set, Hi; reflexivity|].
    apply hv_tset_hidden. exact Ex.
  - eapply (WIX_intro _ _ (tset (hv X (TV (c_tasks c))) id (Some (t_state x)))); [exact Sw | exact Sr | | | reflexivity | reflexivity | exact Hb].
    + apply V_neutral; [exact Hv | eapply wlc_wl; eassumption | exact Hp].
    + intros i. cbn [c_tasks upd_task with_tasks]. f_equal. rewrite <- hv_tset by exact Ex. unfold hv. rewrite TV_set, Hi. reflexivity.
Qed.

(** Hide a wantless task. *)
Lemma C_hide id t : find_task (c_tasks c) id = Some t -> wlc id t -> WIX (xadd X id) c.
Proof.
  intros Hf Hl. destruct (X id) eqn:Ex.
  - eapply WIX_extX; [|exact HW]. intros i. unfold xadd. destruct (tid_eqb i id) eqn:E; [apply tid_eqb_eq in E; subst; rewrite Ex|]; reflexivity.
  - eapply (WIX_intro _ _ (tset (hv X (TV (c_tasks c))) id None)); [exact Sw | exact Sr | | | reflexivity | reflexivity | exact Hb].
    + apply V_neutral; [exact Hv | eapply wlc_wl; eassumption | left; reflexivity].
    + intros i. rewrite hv_xadd. reflexivity.
Qed.

Lemma C_hide_none id : find_task (c_tasks c) id = None -> WIX (xadd X id) c.
Proof.
  intros Hf. eapply WIX_intro; [exact Sw | exact Sr | exact Hv | | reflexivity | reflexivity | exact Hb].
  intros i. f_equal. unfold hv, xadd. destruct (tid_eqb i id) eqn:E; [|reflexivity].
  apply tid_eqb_eq in E. subst i. cbn [orb]. unfold TV. rewrite Hf. destruct (X id); reflexivity.
Qed.

(** Release from an assigned / prefilled set; the task becomes hidden. *)
Lemma C_relA id t w wk wk' rq :
  X id = false -> find_task (c_tasks c) id = Some t -> pl (t_state t) = PA w ->
  find_worker (c_workers c) w = Some wk -> remove_sn_task wk id rq = Ok wk' ->
  WIX (xadd X id) (upd_worker c wk').
Proof.
  intros Ex Hf Hp Hw Hr. destruct (remove_sn_task_spec _ _ _ _ Hr) as (Hi & a & p & f & Ea & Ea').
  destruct (find_worker_some _ _ _ Hw) as [_ Hwi].
  eapply (WIX_intro _ _ (tset (hv X (TV (c_tasks c))) id None) (wset (find_worker (c_workers c)) w (Some wk'))).
  - apply set_worker_sorted. exact Sw.
  - exact Sr.
  - eapply V_relA; [exact Hv | rewrite (hv_find _ _ _ _ Ex Hf); exact Hp | exact Hw | exact Ea | exact Ea' | reflexivity].
  - intros i. rewrite hv_xadd. reflexivity.
  - intros x. cbn [c_workers upd_worker with_workers]. rewrite FW_set, Hi, Hwi. reflexivity.
  - reflexivity.
  - apply wbound_wset; [exact Hb | rewrite Hw; discriminate].
Qed.

Lemma C_relP id t w wk wk' :
  X id = false -> find_task (c_tasks c) id = Some t -> pl (t_state t) = PP w ->
  find_worker (c_workers c) w = Some wk -> remove_prefill_task wk id = Ok wk' ->
  WIX (xadd X id) (upd_worker c wk').
Proof.
  intros Ex Hf Hp Hw Hr. destruct (remove_prefill_task_spec _ _ _ Hr) as (Hi & a & p & f & Ea & Ea').
  destruct (find_worker_some _ _ _ Hw) as [_ Hwi].
  eapply (WIX_intro _ _ (tset (hv X (TV (c_tasks c))) id None) (wset (find_worker (c_workers c)) w (Some wk'))).
  - apply set_worker_sorted. exact Sw.
  - exact Sr.
  - eapply V_relP; [exact Hv | rewrite (hv_find _ _ _ _ Ex Hf); exact Hp | exact Hw | exact Ea | exact Ea' | left; reflexivity].
  - intros i. rewrite hv_xadd. reflexivity.
  - intros x. cbn [c_workers upd_worker with_workers]. rewrite FW_set, Hi, Hwi. reflexivity.
  - reflexivity.
  - apply wbound_wset; [exact Hb | rewrite Hw; discriminate].
Qed.

(** Show a hidden task in a wantless state. *)
Lemma C_show X' id x : X id = true -> (forall j, X' j = negb (tid_eqb j id) && X j) -> t_id x = id ->
  (pl (t_state x) = PN \/ pl (t_state x) = PR) -> WIX X' (upd_task c x).
Proof.
  intros Ex EX Hi Hp.
  eapply (WIX_intro _ _ (tset (hv X (TV (c_tasks c))) id (Some (t_state x)))); [exact Sw | exact Sr | | | reflexivity | reflexivity | exact Hb].
  - apply V_neutral; [exact Hv | apply hidden_wl; exact Ex | exact Hp].
  - intros i. cbn [c_tasks upd_task with_tasks]. f_equal. rewrite <- (hv_show X' X) by exact EX. unfold hv. rewrite TV_set, Hi. reflexivity.
Qed.

(** Un-hide a task that is absent or wantless. *)
Lemma C_show0 X' id : X id = true -> (forall j, X' j = negb (tid_eqb j id) && X j) ->
  (plo (TV (c_tasks c) id) = PN \/ plo (TV (c_tasks c) id) = PR) -> WIX X' c.
Proof.
  intros Ex EX Hp.
  eapply (WIX_intro _ _ (tset (hv X (TV (c_tasks c))) id (TV (c_tasks c) id))); [exact Sw | exact Sr | | | reflexivity | reflexivity | exact Hb].
  - apply V_neutral; [exact Hv | apply hidden_wl; exact Ex | exact Hp].
  - intros i. f_equal. rewrite <- (hv_show X' X) by exact EX. unfold hv. rewrite tset_same. reflexivity.
Qed.

(** Insert a hidden task into an assigned / prefilled set. *)
Lemma C_putA X' id x w wk wk' rq :
  X id = true -> (forall j, X' j = negb (tid_eqb j id) && X j) -> t_id x = id -> pl (t_state x) = PA w ->
  find_worker (c_workers c) w = Some wk -> insert_sn_task wk id rq = Ok wk' ->
  WIX X' (upd_worker (upd_task c x) wk').
Proof.
  intros Ex EX Hi Hp Hw Hr. destruct (insert_sn_task_spec _ _ _ _ Hr) as (Hwi' & a & p & f & Ea & Ea').
  destruct (find_worker_some _ _ _ Hw) as [_ Hwi].
  eapply (WIX_intro _ _ (tset (hv X (TV (c_tasks c))) id (Some (t_state x))) (wset (find_worker (c_workers c)) w (Some wk'))).
  - apply set_worker_sorted. exact Sw.
  - exact Sr.
  - eapply V_putA; [exact Hv | apply hidden_wl; exact Ex | exact Hw | exact Ea | exact Ea' | exact Hp].
  - intros i. cbn [c_tasks upd_task upd_worker with_tasks with_workers]. f_equal. rewrite <- (hv_show X' X) by exact EX. unfold hv. rewrite TV_set, Hi. reflexivity.
  - intros y. cbn [c_workers upd_task upd_worker with_tasks with_workers]. rewrite FW_set, Hwi', Hwi. reflexivity.
  - reflexivity.
  - apply wbound_wset; [exact Hb | rewrite Hw; discriminate].
Qed.

Lemma C_putP X' id x w wk wk' :
  X id = true -> (forall j, X' j = negb (tid_eqb j id) && X j) -> t_id x = id -> pl (t_state x) = PP w ->
  find_worker (c_workers c) w = Some wk -> insert_prefill_task wk id = Ok wk' ->
  WIX X' (upd_worker (upd_task c x) wk').
Proof.
  intros Ex EX Hi Hp Hw Hr. destruct (insert_prefill_task_spec _ _ _ Hr) as (Hwi' & a & p & f & Ea & Ea').
  destruct (find_worker_some _ _ _ Hw) as [_ Hwi].
  eapply (WIX_intro _ _ (tset (hv X (TV (c_tasks c))) id (Some (t_state x))) (wset (find_worker (c_workers c)) w (Some wk'))).
  - apply set_worker_sorted. exact Sw.
  - exact Sr.
  - eapply V_putP; [exact Hv | apply hidden_wl; exact Ex | exact Hw | exact Ea | exact Ea' | exact Hp].
  - intros i. cbn [c_tasks upd_task upd_worker with_tasks with_workers]. f_equal. rewrite <- (hv_show X' X) by exact EX. unfold hv. rewrite TV_set, Hi. reflexivity.
  - intros y. cbn [c_workers upd_task upd_worker with_tasks with_workers]. rewrite FW_set, Hwi', Hwi. reflexivity.
  - reflexivity.
  - apply wbound_wset; [exact Hb | rewrite Hw; discriminate].
Qed.

(** Redirects. *)
Lemma C_relR id w v wk wk' rq :
  find_redirect (c_redirects c) id = Some (w, v) -> find_worker (c_workers c) w = Some wk -> remove_sn_task wk id rq = Ok wk' ->
  WIX X (upd_worker (with_redirects c (del_redirect (c_redirects c) id)) wk').
Proof.
  intros Hr Hw Hrm. destruct (remove_sn_task_spec _ _ _ _ Hrm) as (Hi & a & p & f & Ea & Ea').
  destruct (find_worker_some _ _ _ Hw) as [_ Hwi].
  eapply (WIX_intro _ _ (hv X (TV (c_tasks c))) (wset (find_worker (c_workers c)) w (Some wk')) (rset (find_redirect (c_redirects c)) id None)).
  - apply set_worker_sorted. exact Sw.
  - apply del_redirect_sorted. exact Sr.
  - eapply V_relR; [exact Hv | exact Hr | exact Hw | exact Ea | exact Ea'].
  - reflexivity.
  - intros y. cbn [c_workers upd_worker with_workers with_redirects]. rewrite FW_set, Hi, Hwi. reflexivity.
  - intros y. cbn [c_redirects upd_worker with_workers with_redirects]. apply FR_del. exact Sr.
  - apply wbound_wset; [exact Hb | rewrite Hw; discriminate].
Qed.

Lemma C_putR id t w v wk wk' rq :
  X id = false -> find_task (c_tasks c) id = Some t -> pl (t_state t) = PR -> find_redirect (c_redirects c) id = None ->
  find_worker (c_workers c) w = Some wk -> insert_sn_task wk id rq = Ok wk' ->
  WIX X (with_redirects (upd_worker c wk') (set_redirect (c_redirects c) id (w, v))).
Proof.
  intros Ex Hf Hp Hr Hw Hin. destruct (insert_sn_task_spec _ _ _ _ Hin) as (Hi & a & p & f & Ea & Ea').
  destruct (find_worker_some _ _ _ Hw) as [_ Hwi].
  eapply (WIX_intro _ _ (hv X (TV (c_tasks c))) (wset (find_worker (c_workers c)) w (Some wk')) (rset (find_redirect (c_redirects c)) id (Some (w, v)))).
  - apply set_worker_sorted. exact Sw.
  - apply set_redirect_sorted. exact Sr.
  - eapply V_putR; [exact Hv | rewrite (hv_find _ _ _ _ Ex Hf); exact Hp | exact Hr | exact Hw | exact Ea | exact Ea'].
  - reflexivity.
  - intros y. cbn [c_workers upd_worker with_workers with_redirects]. rewrite FW_set, Hi, Hwi. reflexivity.
  - intros y. cbn [c_redirects upd_worker with_workers with_redirects]. apply FR_set.
  - apply wbound_wset; [exact Hb | rewrite Hw; discriminate].
Qed.

Lemma C_redirect_done id w v x :
  find_redirect (c_redirects c) id = Some (w, v) -> t_id x = id -> pl (t_state x) = PA w ->
  WIX X (upd_task (with_redirects c (del_redirect (c_redirects c) id)) x).
Proof.
  intros Hr Hi Hp. pose proof (redirect_visible _ _ _ _ HW Hr) as Ex.
  eapply (WIX_intro _ _ (tset (hv X (TV (c_tasks c))) id (Some (t_state x))) (find_worker (c_workers c)) (rset (find_redirect (c_redirects c)) id None)).
  - exact Sw.
  - apply del_redirect_sorted. exact Sr.
  - eapply V_redirect_done; [exact Hv | exact Hr | exact Hp].
  - intros i. cbn [c_tasks upd_task with_tasks with_redirects]. f_equal. rewrite <- hv_tset by exact Ex. unfold hv. rewrite TV_set, Hi. reflexivity.
  - reflexivity.
  - intros y. cbn [c_redirects upd_task with_tasks with_redirects]. apply FR_del. exact Sr.
  - exact Hb.
Qed.

(** Workers. *)
Lemma C_wsame w wk wk' : find_worker (c_workers c) w = Some wk -> w_id wk' = w -> w_assign wk' = w_assign wk -> WIX X (upd_worker c wk').
Proof.
  intros Hw Hi Ha.
  eapply (WIX_intro _ _ (hv X (TV (c_tasks c))) (wset (find_worker (c_workers c)) w (Some wk'))).
  - apply set_worker_sorted. exact Sw.
  - exact Sr.
  - eapply V_wsame; [exact Hv | exact Hw | exact Ha].
  - reflexivity.
  - intros y. cbn [c_workers upd_worker with_workers]. rewrite FW_set, Hi. reflexivity.
  - reflexivity.
  - apply wbound_wset; [exact Hb | rewrite Hw; discriminate].
Qed.

Lemma C_wempty w wk' f : wfree (find_worker (c_workers c)) w -> w <= c_wcounter c -> w_id wk' = w -> w_assign wk' = Sn [] [] f -> WIX X (upd_worker c wk').
Proof.
  intros Hfree Hle Hi Ha.
  eapply (WIX_intro _ _ (hv X (TV (c_tasks c))) (wset (find_worker (c_workers c)) w (Some wk'))).
  - apply set_worker_sorted. exact Sw.
  - exact Sr.
  - apply V_wempty; [exact Hv | exact Hfree | eapply sets_ok_empty; exact Ha |].
    eapply wfree_empty; [unfold wset; rewrite N.eqb_refl; reflexivity | exact Ha].
  - reflexivity.
  - intros y. cbn [c_workers upd_worker with_workers]. rewrite FW_set, Hi. reflexivity.
  - reflexivity.
  - intros y. unfold wset. destruct (N.eqb y w) eqn:E; [apply N.eqb_eq in E; subst y; intros _; exact Hle | apply Hb].
Qed.

Lemma C_wdel w : wfree (find_worker (c_workers c)) w -> WIX X (with_workers c (del_worker (c_workers c) w)).
Proof.
  intros Hfree.
  eapply (WIX_intro _ _ (hv X (TV (c_tasks c))) (wset (find_worker (c_workers c)) w None)).
  - apply del_worker_sorted. exact Sw.
  - exact Sr.
  - apply V_wempty; [exact Hv | exact Hfree | apply sets_ok_none |].
    apply wfree_none. unfold wset. rewrite N.eqb_refl. reflexivity.
  - reflexivity.
  - intros y. cbn [c_workers with_workers]. apply FW_del. exact Sw.
  - reflexivity.
  - apply wbound_wset_none. exact Hb.
Qed.

End Prim.

Lemma WIX_wcounter X c n : c_wcounter c <= n -> WIX X c -> WIX X (with_wcounter c n).
Proof.
  intros Hle (Sw & Sr & H & Hb). split; [exact Sw|]. split; [exact Sr|]. split; [exact H|].
  intros w Hw. specialize (Hb w Hw). cbn. lia.
Qed.

Lemma WIX_unhide X c : WIX X c -> (forall i, X i = true -> find_task (c_tasks c) i = None) -> WIX x0 c.
Proof.
  intros (Sw & Sr & H & Hb) Habs. eapply WIX_intro; [exact Sw | exact Sr | exact H | | reflexivity | reflexivity | exact Hb].
  intros i. f_equal. unfold hv, x0. destruct (X i) eqn:E; [|reflexivity]. unfold TV. rewrite (Habs i E). reflexivity.
Qed.

(** * Multi-node primitives, new tasks *)
Section Prim2.
Variable X : xset.
Variable c : core.
Hypothesis HW : WIX X c.

Let Sw : wsorted (c_workers c) := proj1 HW.
Let Sr : rsorted (c_redirects c) := proj1 (proj2 HW).
Let Hv := proj1 (proj2 (proj2 HW)).
Let Hb : wbound (find_worker (c_workers c)) (c_wcounter c) := proj2 (proj2 (proj2 HW)).

Lemma C_new id x : find_task (c_tasks c) id = None -> t_id x = id -> pl (t_state x) = PN -> WIX X (upd_task c x).
Proof.
  intros Hf Hi Hp. destruct (X id) eqn:Ex.
  - eapply WIX_intro; [exact Sw | exact Sr | exact Hv | | reflexivity | reflexivity | exact Hb].
    intros i. cbn [c_tasks upd_task with_tasks]. f_equal.
    transitivity (hv X (tset (TV (c_tasks c)) id (Some (t_state x))) i); [unfold hv; rewrite TV_set, Hi; reflexivity|].
    apply hv_tset_hidden. exact Ex.
  - eapply (WIX_intro _ _ (tset (hv X (TV (c_tasks c))) id (Some (t_state x)))); [exact Sw | exact Sr | | | reflexivity | reflexivity | exact Hb].
    + apply V_neutral; [exact Hv | | left; exact Hp]. left. unfold hv, TV. rewrite Ex, Hf. reflexivity.
    + intros i. cbn [c_tasks upd_task with_tasks]. f_equal. rewrite <- hv_tset by exact Ex. unfold hv. rewrite TV_set, Hi. reflexivity.
Qed.

Lemma C_relM id t ws c' :
  X id = false -> find_task (c_tasks c) id = Some t -> pl (t_state t) = PM ws ->
  c_tasks c' = c_tasks c -> c_redirects c' = c_redirects c -> c_wcounter c' = c_wcounter c -> wsorted (c_workers c') ->
  (forall x, n_mem x ws = false -> find_worker (c_workers c') x = find_worker (c_workers c) x) ->
  (forall x, n_mem x ws = true -> sets_ok (find_worker (c_workers c') x) /\ wfree (find_worker (c_workers c')) x) ->
  (forall x, find_worker (c_workers c') x <> None -> find_worker (c_workers c) x <> None) ->
  WIX (xadd X id) c'.
Proof.
  intros Ex Hf Hp Et Er Ec Sw' Hout Hin Hdom.
  eapply (WIX_intro _ _ (tset (hv X (TV (c_tasks c))) id None) (find_worker (c_workers c')) (find_redirect (c_redirects c))).
  - exact Sw'.
  - rewrite Er. exact Sr.
  - eapply V_relM; [exact Hv | rewrite (hv_find _ _ _ _ Ex Hf); exact Hp | exact Hout | exact Hin | reflexivity].
  - intros i. rewrite Et, hv_xadd. reflexivity.
  - reflexivity.
  - rewrite Er. reflexivity.
  - intros x Hx. rewrite Ec. apply Hb. apply Hdom. exact Hx.
Qed.

Lemma C_putM X' id x ws c' :
  X id = true -> (forall j, X' j = negb (tid_eqb j id) && X j) -> t_id x = id -> pl (t_state x) = PM ws ->
  c_tasks c' = c_tasks c -> c_redirects c' = c_redirects c -> c_wcounter c' = c_wcounter c -> wsorted (c_workers c') ->
  (forall y, n_mem y ws = false -> find_worker (c_workers c') y = find_worker (c_workers c) y) ->
  (forall y, n_mem y ws = true -> wfree (find_worker (c_workers c)) y /\ exists wk root, find_worker (c_workers c') y = Some wk /\ w_assign wk = Mn id root) ->
  (forall y, find_worker (c_workers c') y <> None -> find_worker (c_workers c) y <> None) ->
  WIX X' (upd_task c' x).
Proof.
  intros Ex EX Hi Hp Et Er Ec Sw' Hout Hin Hdom.
  eapply (WIX_intro _ _ (tset (hv X (TV (c_tasks c))) id (Some (t_state x))) (find_worker (c_workers c')) (find_redirect (c_redirects c))).
  - exact Sw'.
  - cbn [c_redirects upd_task with_tasks]. rewrite Er. exact Sr.
  - eapply V_putM; [exact Hv | apply hidden_wl; exact Ex | exact Hout | exact Hin | exact Hp].
  - intros i. cbn [c_tasks upd_task with_tasks]. rewrite Et. f_equal. rewrite <- (hv_show X' X) by exact EX. unfold hv. rewrite TV_set, Hi. reflexivity.
  - reflexivity.
  - cbn [c_redirects upd_task with_tasks]. rewrite Er. reflexivity.
  - intros y Hy. cbn [c_wcounter upd_task with_tasks]. rewrite Ec. apply Hb. apply Hdom. exact Hy.
Qed.

Lemma C_shrinkM id t ws w x :
  X id = false -> find_task (c_tasks c) id = Some t -> pl (t_state t) = PM ws -> inM (find_worker (c_workers c)) w id = true ->
  t_id x = id -> pl (t_state x) = PM (filter (fun y => negb (N.eqb y w)) ws) ->
  WIX X (upd_task (with_workers c (del_worker (c_workers c) w)) x).
Proof.
  intros Ex Hf Hp Hm Hi Hpx.
  eapply (WIX_intro _ _ (tset (hv X (TV (c_tasks c))) id (Some (t_state x))) (wset (find_worker (c_workers c)) w None) (find_redirect (c_redirects c))).
  - apply del_worker_sorted. exact Sw.
  - exact Sr.
  - eapply V_shrinkM; [exact Hv | rewrite (hv_find _ _ _ _ Ex Hf); exact Hp | exact Hm | exact Hpx].
  - intros i. cbn [c_tasks upd_task with_tasks with_workers]. f_equal. rewrite <- hv_tset by exact Ex. unfold hv. rewrite TV_set, Hi. reflexivity.
  - intros y. cbn [c_workers upd_task with_tasks with_workers]. apply FW_del. exact Sw.
  - reflexivity.
  - apply wbound_wset_none. exact Hb.
Qed.

End Prim2.

(** * Resetting multi-node workers *)
Lemma reset_idem wk : reset_mn_task (reset_mn_task wk) = reset_mn_task wk.
Proof. destruct wk; reflexivity. Qed.

Lemma reset_mn_all_spec l : forall c c', reset_mn_all c l = Ok c' ->
  c_tasks c' = c_tasks c /\ c_redirects c' = c_redirects c /\ c_wcounter c' = c_wcounter c /\
  (wsorted (c_workers c) -> wsorted (c_workers c')) /\
  forall x, find_worker (c_workers c') x = if n_mem x l then option_map reset_mn_task (find_worker (c_workers c) x) else find_worker (c_workers c) x.
Proof.
  induction l as [|w r IH]; cbn [reset_mn_all n_mem]; intros c c' H.
  - inversion H; subst. repeat split; auto.
  - apply bind_ok in H. destruct H as (wk & Hw & H). apply get_worker_find in Hw.
    destruct (find_worker_some _ _ _ Hw) as [_ Hwi].
    destruct (IH _ _ H) as (I1 & I2 & I3 & I4 & I5). cbn [c_tasks c_redirects c_wcounter c_workers upd_worker with_workers] in *.
    split; [exact I1|]. split; [exact I2|]. split; [exact I3|]. split; [intros S; apply I4; apply set_worker_sorted; exact S|].
    intros x. rewrite I5, FW_set. unfold wset. cbn [w_id reset_mn_task with_assign]. rewrite Hwi.
    destruct (N.eqb x w) eqn:E; cbn [orb].
    + apply N.eqb_eq in E. subst x. rewrite Hw. cbn [option_map]. destruct (n_mem w r); [rewrite reset_idem|]; reflexivity.
    + reflexivity.
Qed.

Lemma reset_mn_workers_all l : forall c id c', reset_mn_workers c l id = Ok c' -> reset_mn_all c l = Ok c'.
Proof.
  induction l as [|w r IH]; cbn [reset_mn_workers reset_mn_all]; intros c id c' H; [exact H|].
  apply bind_ok in H. destruct H as (wk & Hw & H). rewrite Hw. cbn [bind].
  destruct (w_assign wk); [discriminate|]. destruct (tid_eqb t id); [|discriminate]. eapply IH; exact H.
Qed.

Lemma C_relM_reset X c id t ws c0 l c' :
  WIX X c -> X id = false -> find_task (c_tasks c) id = Some t -> pl (t_state t) = PM ws ->
  c_tasks c0 = c_tasks c -> c_redirects c0 = c_redirects c -> c_wcounter c0 = c_wcounter c -> wsorted (c_workers c0) ->
  (forall x, n_mem x ws = false -> find_worker (c_workers c0) x = find_worker (c_workers c) x) ->
  (forall x, n_mem x ws = true -> find_worker (c_workers c0) x = find_worker (c_workers c) x \/ find_worker (c_workers c0) x = None) ->
  (forall x, n_mem x ws = true -> n_mem x l = true \/ find_worker (c_workers c0) x = None) ->
  (forall x, n_mem x l = true -> n_mem x ws = true) ->
  reset_mn_all c0 l = Ok c' -> WIX (xadd X id) c'.
Proof.
  intros HW Ex Hf Hp Et Er Ec Sw0 Hout Hin Hcov Hsub Hreset.
  destruct (reset_mn_all_spec _ _ _ Hreset) as (T1 & R1 & C1 & S1 & F1).
  eapply (C_relM X c HW id t ws c'); [exact Ex | exact Hf | exact Hp | congruence | congruence | congruence | apply S1; exact Sw0 | | |].
  - intros x Hx. rewrite F1. destruct (n_mem x l) eqn:El; [rewrite (Hsub x El) in Hx; discriminate | apply Hout; exact Hx].
  - intros x Hx. rewrite F1. unfold wfree, inA, inP, inM. rewrite F1.
    destruct (n_mem x l) eqn:El.
    + destruct (find_worker (c_workers c0) x) as [wk|]; cbn [option_map]; [|split; [apply sets_ok_none | auto]].
      split; [eapply sets_ok_empty; reflexivity | auto].
    + destruct (Hcov x Hx) as [X1|X1]; [congruence|]. rewrite X1. split; [apply sets_ok_none | auto].
  - intros x Hx. rewrite F1 in Hx.
    assert (H0 : find_worker (c_workers c0) x <> None) by (destruct (n_mem x l); [destruct (find_worker (c_workers c0) x); [discriminate | exact Hx] | exact Hx]).
    destruct (n_mem x ws) eqn:Ews; [destruct (Hin x Ews) as [X1|X1]; congruence | rewrite <- (Hout x Ews); exact H0].
Qed.

(** * Placing a multi-node task *)
Lemma set_mn_workers_spec l : forall c id first c', set_mn_workers c id l first = Ok c' ->
  c_tasks c' = c_tasks c /\ c_redirects c' = c_redirects c /\ c_wcounter c' = c_wcounter c /\
  (wsorted (c_workers c) -> wsorted (c_workers c')) /\
  (forall y, n_mem y l = false -> find_worker (c_workers c') y = find_worker (c_workers c) y) /\
  (forall y, n_mem y l = true -> wfree (find_worker (c_workers c)) y /\ exists wk root, find_worker (c_workers c') y = Some wk /\ w_assign wk = Mn id root) /\
  (forall y, find_worker (c_workers c') y <> None -> find_worker (c_workers c) y <> None).
Proof.
  induction l as [|w r IH]; cbn [set_mn_workers n_mem]; intros c id first c' H.
  - inversion H; subst. split; [reflexivity|]. split; [reflexivity|]. split; [reflexivity|]. split; [auto|]. split; [auto|].
    split; [intros y Hy; discriminate | auto].
  - apply bind_ok in H. destruct H as (wk & Hw & H). apply get_worker_find in Hw.
    apply bind_ok in H. destruct H as (wk' & Hset & H).
    destruct (find_worker_some _ _ _ Hw) as [_ Hwi].
    unfold set_mn_task in Hset. destruct (worker_is_free wk) eqn:Efree; [|discriminate]. inversion Hset; subst wk'. clear Hset.
    assert (Hfree : wfree (find_worker (c_workers c)) w).
    { unfold worker_is_free in Efree. destruct (w_assign wk) as [a p f|] eqn:Ea; [|discriminate].
      destruct a; [|discriminate]. destruct p; [|discriminate]. eapply wfree_empty; [exact Hw | exact Ea]. }
    destruct (IH _ _ _ _ H) as (I1 & I2 & I3 & I4 & I5 & I6 & I7).
    cbn [c_tasks c_redirects c_wcounter c_workers upd_worker with_workers] in *.
    assert (Fc1 : forall y, find_worker (set_worker (c_workers c) (with_assign wk (Mn id first))) y
                  = if N.eqb y w then Some (with_assign wk (Mn id first)) else find_worker (c_workers c) y).
    { intros y. rewrite find_set_worker. cbn [w_id with_assign]. rewrite Hwi. reflexivity. }
    split; [exact I1|]. split; [exact I2|]. split; [exact I3|]. split; [intros S; apply I4; apply set_worker_sorted; exact S|].
    split; [|split].
    + intros y Hy. apply orb_false_iff in Hy. destruct Hy as [E1 E2]. rewrite (I5 y E2), Fc1, E1. reflexivity.
    + intros y Hy. destruct (n_mem y r) eqn:Er.
      * destruct (I6 y Er) as [F (wk2 & root & E1 & E2)]. split; [|exists wk2, root; auto].
        destruct (N.eqb y w) eqn:E; [|intros i; specialize (F i); unfold inA, inP, inM in *; rewrite Fc1, E in F; exact F].
        apply N.eqb_eq in E. subst y. exfalso. destruct (F id) as (_ & _ & F3). unfold inM in F3. rewrite Fc1, N.eqb_refl in F3.
        cbn [w_assign with_assign] in F3. rewrite tid_eqb_refl' in F3. discriminate.
      * rewrite orb_false_r in Hy. apply N.eqb_eq in Hy. subst y. split; [exact Hfree|].
        exists (with_assign wk (Mn id first)), first. rewrite (I5 w Er), Fc1, N.eqb_refl. auto.
    + intros y Hy. apply I7 in Hy. rewrite Fc1 in Hy. destruct (N.eqb y w) eqn:E; [apply N.eqb_eq in E; subst y; congruence | exact Hy].
Qed.

(** * Removing a task from the map *)
Lemma rcf_TV deps : forall ts cid ts', remove_consumer_from ts deps cid = Ok ts' -> forall i, TV ts' i = TV ts i.
Proof.
  induction deps as [|d r IH]; cbn [remove_consumer_from]; intros ts cid ts' H i; [inversion H; reflexivity|].
  destruct (find_task ts d) as [input|] eqn:Ef; [|eapply IH; exact H].
  destruct (tid_mem cid (t_consumers input)); [|discriminate].
  rewrite (IH _ _ _ H i), TV_set. cbn [t_id t_state with_consumers].
  destruct (find_task_some _ _ _ Ef) as [_ Hid]. unfold tset. destruct (tid_eqb i (t_id input)) eqn:E; [|reflexivity].
  apply tid_eqb_eq in E. subst i. unfold TV. rewrite Hid, Ef. reflexivity.
Qed.

Lemma remove_task_view c id c' stt : CS c -> remove_task c id = Ok (c', stt) ->
  c_workers c' = c_workers c /\ c_redirects c' = c_redirects c /\ c_wcounter c' = c_wcounter c /\
  TV (c_tasks c) id = Some stt /\ forall i, TV (c_tasks c') i = tset (TV (c_tasks c)) id None i.
Proof.
  intros Hs H. unfold remove_task in H. destruct (find_task (c_tasks c) id) as [t|] eqn:Ef; [|discriminate].
  assert (Hdel : forall i, TV (del_task (c_tasks c) id) i = tset (TV (c_tasks c)) id None i).
  { intros i. unfold TV, tset. rewrite find_del_task' by (apply CS_sorted; exact Hs). destruct (tid_eqb i id); reflexivity. }
  assert (Hst : stt = t_state t).
  { destruct (t_state t); try (inversion H; reflexivity). apply bind_ok in H. destruct H as (c2 & _ & H).
    destruct (N.ltb 0 unfinished_deps); [apply bind_ok in H; destruct H as (ts & _ & H)|]; inversion H; reflexivity. }
  assert (Hv : TV (c_tasks c) id = Some stt) by (unfold TV; rewrite Ef, Hst; reflexivity).
  destruct (t_state t) eqn:Est; try (inversion H; subst; cbn; repeat split; auto; fail).
  apply bind_ok in H. destruct H as (c2 & H2 & H).
  assert (E2 : c_tasks c2 = del_task (c_tasks c) id /\ c_workers c2 = c_workers c /\ c_redirects c2 = c_redirects c /\ c_wcounter c2 = c_wcounter c).
  { destruct (N.eqb unfinished_deps 0); [inv_binds H2|]; inversion H2; subst; cbn; auto. }
  destruct E2 as (T2 & W2 & R2 & C2).
  destruct (N.ltb 0 unfinished_deps).
  - apply bind_ok in H. destruct H as (ts & Hr & H). inversion H; subst. cbn [c_tasks c_workers c_redirects c_wcounter with_tasks].
    split; [exact W2|]. split; [exact R2|]. split; [exact C2|]. split; [exact Hv|].
    intros i. rewrite (rcf_TV _ _ _ _ Hr i), T2. apply Hdel.
  - inversion H; subst. split; [exact W2|]. split; [exact R2|]. split; [exact C2|]. split; [exact Hv|].
    intros i. rewrite T2. apply Hdel.
Qed.

Lemma remove_task_WIX X c id c' stt : WIX X c -> CS c -> remove_task c id = Ok (c', stt) ->
  (X id = true \/ pl stt = PN) -> WIX X c'.
Proof.
  intros (Sw & Sr & H & Hb) Hs Hrm Hc. destruct (remove_task_view _ _ _ _ Hs Hrm) as (W & R & C & Hv & Ht).
  destruct (X id) eqn:Ex.
  - eapply WIX_intro; [rewrite W; exact Sw | rewrite R; exact Sr | exact H | | rewrite W; reflexivity | rewrite R; reflexivity | rewrite C; exact Hb].
    intros i. f_equal. transitivity (hv X (tset (TV (c_tasks c)) id None) i); [unfold hv; rewrite Ht; reflexivity|].
    apply hv_tset_hidden. exact Ex.
  - destruct Hc as [Hc|Hc]; [discriminate|].
    eapply (WIX_intro _ _ (tset (hv X (TV (c_tasks c))) id None)); [rewrite W; exact Sw | rewrite R; exact Sr | | | rewrite W; reflexivity | rewrite R; reflexivity | rewrite C; exact Hb].
    + apply V_neutral; [exact H | | left; reflexivity]. left. unfold hv. rewrite Ex, Hv. exact Hc.
    + intros i. f_equal. rewrite <- hv_tset by exact Ex. unfold hv. rewrite Ht. reflexivity.
Qed.
