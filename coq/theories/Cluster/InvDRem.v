(** C03, the dependency invariant, part 4: tasks leave the core - [remove_task] and its callers
    ([task_finished], [task_failed], [on_cancel_tasks]), [wake_consumers], and the closure
    property of [recursive_consumers] (its fuel always suffices). *)
From HQ Require Import Base.Prelude Cluster.Types Cluster.Core Cluster.Reactor Cluster.Worker Cluster.Server Cluster.Sys Cluster.ProofsJob Cluster.ProofsMore Cluster.ProofsTerminal Cluster.ProofsStep Cluster.BijBase Cluster.BijCore Cluster.BijHq Cluster.BijSt Cluster.BijReact Cluster.FrameGen Cluster.CrashFrame Cluster.InvDBase Cluster.InvDMap Cluster.InvDSpec.
From Coq Require Import ZArith Lia Sorting.Sorted.
Local Open Scope N_scope.

Arguments N.add : simpl never.
Arguments N.sub : simpl never.

(** The invariant of a core, and what an operation without new tasks establishes. *)
Definition GD (c : core) : Prop := TS c /\ DI (fm c).
Definition RL (c c' : core) : Prop := GD c' /\ dsub (fm c) (fm c').

Lemma RL_scr c c' : GD c -> scr c c' -> RL c c'.
Proof. intros [T D] S. split; [split; [apply S; exact T | eapply DI_SC; [exact D | apply S]] | apply scr_dsub; exact S]. Qed.
Lemma RL_trans c1 c2 c3 : RL c1 c2 -> RL c2 c3 -> RL c1 c3.
Proof. intros [_ A] [G B]. split; [exact G | eapply dsub_trans; eassumption]. Qed.
Lemma RL_refl c : GD c -> RL c c.
Proof. intros G. split; [exact G | apply dsub_refl]. Qed.
Lemma GD_tasks c c' : c_tasks c' = c_tasks c -> GD c -> GD c'.
Proof. intros E [T D]. unfold GD, TS, fm in *. rewrite E. auto. Qed.

(** * [remove_consumer_from], [remove_task] *)
Lemma remove_consumer_from_fm deps : forall ts cid ts',
  NoDup deps -> remove_consumer_from ts deps cid = Ok ts' ->
  forall x, find_task ts' x = rmc (find_task ts) deps cid x.
Proof.
  induction deps as [|d r IH]; cbn [remove_consumer_from]; intros ts cid ts' Hnd H x.
  - inversion H; subst. unfold rmc. cbn [tid_mem]. destruct (find_task ts' x); reflexivity.
  - inversion Hnd as [|? ? Hn Hr]; subst.
    destruct (find_task ts d) as [input|] eqn:Ef.
    + destruct (tid_mem cid (t_consumers input)); [|discriminate].
      destruct (find_task_some _ _ _ Ef) as [_ Hid].
      rewrite (IH _ _ _ Hr H x). unfold rmc. rewrite find_set_task. cbn [t_id with_consumers tid_mem]. rewrite Hid.
      destruct (tid_eqb x d) eqn:E.
      * apply tid_eqb_eq in E. subst x. rewrite Ef. cbn [orb].
        apply tid_mem_nIn in Hn. rewrite Hn. reflexivity.
      * cbn [orb]. reflexivity.
    + rewrite (IH _ _ _ Hr H x). unfold rmc. cbn [tid_mem]. destruct (tid_eqb x d) eqn:E; [|reflexivity].
      apply tid_eqb_eq in E. subst x. rewrite Ef. reflexivity.
Qed.

Lemma fm_del c id x : TS c -> find_task (del_task (c_tasks c) id) x = mdel (fm c) id x.
Proof. intros Hs. unfold mdel, fm. apply find_del_task. exact Hs. Qed.

Lemma remove_task_fm c id c' stt :
  TS c -> remove_task c id = Ok (c', stt) ->
  exists t, fm c id = Some t /\ stt = t_state t /\ TS c' /\
    (NoDup (t_deps t) ->
     forall x, fm c' x = if match t_state t with Waiting n => N.ltb 0 n | _ => false end
                         then rmc (mdel (fm c) id) (t_deps t) id x else mdel (fm c) id x).
Proof.
  intros Hs H. pose proof (remove_task_csub _ _ _ _ Hs H) as [Hs' _].
  unfold remove_task in H. destruct (find_task (c_tasks c) id) as [t|] eqn:Ef; [|discriminate].
  exists t. split; [exact Ef|].
  destruct (t_state t) eqn:Est; try (inversion H; subst; split; [reflexivity | split; [exact Hs'|]]; intros _ x; unfold fm at 1; cbn [c_tasks with_tasks]; apply fm_del; exact Hs).
  apply bind_ok in H. destruct H as (c2 & H2 & H).
  assert (E2 : c_tasks c2 = del_task (c_tasks c) id).
  { destruct (N.eqb unfinished_deps 0); [|inversion H2; reflexivity]. inv_binds H2. inversion H2; reflexivity. }
  destruct (N.ltb 0 unfinished_deps).
  - apply bind_ok in H. destruct H as (ts & Hr & H). inversion H; subst. split; [reflexivity | split; [exact Hs'|]].
    intros Hnd x. unfold fm at 1. cbn [c_tasks with_tasks]. rewrite E2 in Hr.
    rewrite (remove_consumer_from_fm _ _ _ _ Hnd Hr x). unfold rmc. rewrite (fm_del _ _ _ Hs). reflexivity.
  - inversion H; subst. split; [reflexivity | split; [exact Hs'|]]. intros _ x. unfold fm at 1. rewrite E2. apply fm_del. exact Hs.
Qed.

Lemma remove_task_DX X c id c' stt :
  TS c -> DX X (fm c) -> In id X -> remove_task c id = Ok (c', stt) ->
  TS c' /\ DX X (fm c') /\ fm c' id = None /\ (forall x, fm c x = None -> fm c' x = None) /\ dsub (fm c) (fm c').
Proof.
  intros Hs D HX H. destruct (remove_task_fm _ _ _ _ Hs H) as (t & Ef & _ & Hs' & Hfm).
  specialize (Hfm (dx_nd _ _ D _ _ Ef)).
  assert (Hr : forall x, fm c' x = rmc (mdel (fm c) id) (t_deps t) id x).
  { intros x. rewrite Hfm.
    destruct (match t_state t with Waiting n => N.ltb 0 n | _ => false end) eqn:Eb; [reflexivity|].
    symmetry. apply rmc_nodeps.
    pose proof (dx_cnt _ _ D _ _ Ef) as C. unfold cnt_ok in C. destruct (t_state t); try exact C.
    destruct C as [C _]. specialize (C HX). apply N.ltb_ge in Eb. lia. }
  split; [exact Hs'|]. split; [eapply DX_remove; eassumption|].
  assert (Hsome : forall x tx', fm c' x = Some tx' -> x <> id /\ exists tx, fm c x = Some tx /\ t_deps tx' = t_deps tx).
  { intros x tx' Ex. rewrite Hr in Ex. unfold rmc, mdel in Ex. destruct (tid_eqb x id) eqn:Exi; [discriminate|].
    apply tid_eqb_neq in Exi. split; [exact Exi|]. destruct (fm c x) as [tx|]; [|discriminate]. exists tx. split; [reflexivity|].
    destruct (tid_mem x (t_deps t)); inversion Ex; reflexivity. }
  split; [|split].
  - destruct (fm c' id) eqn:E; [|reflexivity]. destruct (Hsome _ _ E) as [Hne _]. congruence.
  - intros x Hn. destruct (fm c' x) eqn:E; [|reflexivity]. destruct (Hsome _ _ E) as (_ & tx & Etx & _). congruence.
  - intros x tx' Ex. destruct (Hsome _ _ Ex) as (_ & tx & Etx & Ed). eauto.
Qed.

Lemma remove_tasks_batched_DX X l : forall c c',
  TS c -> DX X (fm c) -> incl l X -> remove_tasks_batched c l = Ok c' ->
  TS c' /\ DX X (fm c') /\ (forall x, In x l -> fm c' x = None) /\ (forall x, fm c x = None -> fm c' x = None) /\ dsub (fm c) (fm c').
Proof.
  induction l as [|id r IH]; cbn [remove_tasks_batched]; intros c c' Hs D Hi H.
  - inversion H; subst. split; [exact Hs|]. split; [exact D|]. split; [intros x []|]. split; [auto | apply dsub_refl].
  - apply bind_ok in H. destruct H as ([c1 stt] & H1 & H).
    destruct (remove_task_DX X _ _ _ _ Hs D (Hi _ (or_introl eq_refl)) H1) as (T1 & D1 & N1 & K1 & S1).
    destruct (IH _ _ T1 D1 (fun x Hx => Hi x (or_intror Hx)) H) as (T2 & D2 & N2 & K2 & S2).
    split; [exact T2|]. split; [exact D2|]. split; [|split].
    + intros x [<-|Hx]; [apply K2; exact N1 | apply N2; exact Hx].
    + intros x Hx. apply K2, K1, Hx.
    + eapply dsub_trans; eassumption.
Qed.

Lemma remove_waiting_consumers_DX X l : forall c c',
  TS c -> DX X (fm c) -> incl l X -> remove_waiting_consumers c l = Ok c' ->
  TS c' /\ DX X (fm c') /\ (forall x, In x l -> fm c' x = None) /\ (forall x, fm c x = None -> fm c' x = None) /\ dsub (fm c) (fm c').
Proof.
  induction l as [|id r IH]; cbn [remove_waiting_consumers]; intros c c' Hs D Hi H.
  - inversion H; subst. split; [exact Hs|]. split; [exact D|]. split; [intros x []|]. split; [auto | apply dsub_refl].
  - apply bind_ok in H. destruct H as ([c1 stt] & H1 & H). destruct stt; try discriminate.
    destruct (remove_task_DX X _ _ _ _ Hs D (Hi _ (or_introl eq_refl)) H1) as (T1 & D1 & N1 & K1 & S1).
    destruct (IH _ _ T1 D1 (fun x Hx => Hi x (or_intror Hx)) H) as (T2 & D2 & N2 & K2 & S2).
    split; [exact T2|]. split; [exact D2|]. split; [|split].
    + intros x [<-|Hx]; [apply K2; exact N1 | apply N2; exact Hx].
    + intros x Hx. apply K2, K1, Hx.
    + eapply dsub_trans; eassumption.
Qed.

(** * [wake_consumers] *)
Lemma wake_consumers_fm csm : forall c ret c' ret',
  NoDup csm -> wake_consumers c csm ret = Ok (c', ret') ->
  (TS c -> TS c') /\ forall x, fm c' x = woken (fm c) csm x.
Proof.
  induction csm as [|y r IH]; cbn [wake_consumers]; intros c ret c' ret' Hnd H.
  - inversion H; subst. split; [auto|]. intros x. reflexivity.
  - inversion Hnd as [|? ? Hn Hr]; subst.
    apply bind_ok in H. destruct H as (t & Ht & H). apply get_task_find in Ht.
    destruct (find_task_some _ _ _ Ht) as [_ Hid].
    destruct (t_state t) as [n| | | | | |] eqn:Est; try discriminate.
    destruct (N.eqb n 0); [discriminate|].
    set (t' := with_state t (Waiting (n - 1))) in *.
    assert (Hstep : forall c1 rt, c_tasks c1 = set_task (c_tasks c) t' -> wake_consumers c1 r rt = Ok (c', ret') ->
              (TS c -> TS c') /\ forall x, fm c' x = woken (fm c) (y :: r) x).
    { intros c1 rt E1 H1. destruct (IH _ _ _ _ Hr H1) as [T1 F1]. split.
      - intros Hs. apply T1. unfold TS. rewrite E1.
        assert (Efx : find_task (c_tasks c) (t_id t') = Some t) by (cbn; rewrite Hid; exact Ht).
        rewrite (set_task_ids _ _ _ Hs Efx). exact Hs.
      - intros x. rewrite F1. unfold woken, fm. rewrite E1, find_set_task. cbn [tid_mem]. change (t_id t') with (t_id t). rewrite Hid.
        destruct (tid_eqb x y) eqn:E.
        + apply tid_eqb_eq in E. subst x. cbn [orb]. apply tid_mem_nIn in Hn. rewrite Hn, Ht. cbn [option_map].
          unfold dec_state. rewrite Est. reflexivity.
        + cbn [orb]. reflexivity. }
    destruct (N.eqb (n - 1) 0).
    + apply bind_ok in H. destruct H as ([qs rt] & _ & H). eapply Hstep; [|exact H]. reflexivity.
    + eapply Hstep; [|exact H]. reflexivity.
Qed.

(** * Transitive consumers: the fuel suffices and the result is consumer-closed *)
Definition cclosed (m : tmap) (A : list tid) : Prop :=
  forall x tx y, In x A -> m x = Some tx -> In y (t_consumers tx) -> In y A.
(** what the loop needs to know about the task list *)
Definition WFc (ts : list task) : Prop :=
  forall x tx, find_task ts x = Some tx -> NoDup (t_consumers tx) /\ forall y, In y (t_consumers tx) -> find_task ts y <> None.

Lemma tia_in xs : forall l y, In y (tid_insert_all xs l) <-> In y xs \/ In y l.
Proof.
  unfold tid_insert_all. induction xs as [|x r IH]; cbn [fold_left]; intros l y; [cbn; tauto|].
  rewrite IH. cbn [In]. split.
  - intros [H|H]; [auto|]. destruct (tid_insert_sub _ _ _ H) as [->|H']; auto.
  - intros [[->|H]|H]; [right; apply tid_insert_new | auto | right; apply tid_insert_old; exact H].
Qed.

Lemma tia_nodup_len xs : forall l,
  NoDup xs -> NoDup l -> (forall x, In x xs -> ~ In x l) ->
  NoDup (tid_insert_all xs l) /\ length (tid_insert_all xs l) = (length l + length xs)%nat.
Proof.
  unfold tid_insert_all. induction xs as [|x r IH]; cbn [fold_left]; intros l Hx Hl Hd; [split; [exact Hl | cbn; lia]|].
  inversion Hx as [|? ? Hn Hr]; subst.
  assert (Hxl : ~ In x l) by (apply Hd; left; reflexivity).
  destruct (IH (tid_insert x l) Hr (tid_insert_NoDup _ _ Hxl Hl)) as [A B].
  { intros z Hz Hin. destruct (tid_insert_sub _ _ _ Hin) as [->|Hin']; [contradiction | exact (Hd z (or_intror Hz) Hin')]. }
  split; [exact A|]. rewrite B, (tid_insert_length _ _ Hxl). cbn [length]. lia.
Qed.

Lemma find_some_in_ids ts x : find_task ts x <> None -> In x (map t_id ts).
Proof. intros H. destruct (in_dec tid_dec x (map t_id ts)) as [Hin|Hout]; [exact Hin|]. apply find_task_none in Hout. contradiction. Qed.

Lemma collect_closed fuel : forall ts frontier acc r,
  WFc ts -> NoDup acc -> incl frontier acc -> (forall x, In x acc -> find_task ts x <> None) ->
  (forall x, In x acc -> In x frontier \/ (forall tx y, find_task ts x = Some tx -> In y (t_consumers tx) -> In y acc)) ->
  (length frontier + length ts <= fuel + length acc)%nat ->
  collect_consumers fuel ts frontier acc = Ok r -> incl acc r /\ cclosed (find_task ts) r.
Proof.
  induction fuel as [|k IH]; intros ts frontier acc r W Hnd Hfa Hdom Hcl Hm H.
  - destruct frontier as [|id rest]; cbn [collect_consumers] in H.
    + inversion H; subst. split; [apply incl_refl|]. intros x tx y Hx Ex Hy. destruct (Hcl x Hx) as [[]|Hc]. eapply Hc; eassumption.
    + exfalso. assert (Hle : (length acc <= length (map t_id ts))%nat).
      { apply NoDup_incl_length; [exact Hnd|]. intros x Hx. apply find_some_in_ids. apply Hdom. exact Hx. }
      rewrite map_length in Hle. cbn [length] in Hm. lia.
  - destruct frontier as [|id rest]; cbn [collect_consumers] in H.
    + inversion H; subst. split; [apply incl_refl|]. intros x tx y Hx Ex Hy. destruct (Hcl x Hx) as [[]|Hc]. eapply Hc; eassumption.
    + apply bind_ok in H. destruct H as (t & Ht & H). apply get_task_find in Ht.
      destruct (W _ _ Ht) as [Hnc Hcd].
      set (new := filter (fun c => negb (tid_mem c acc)) (t_consumers t)) in *.
      assert (Hnew : forall y, In y new <-> In y (t_consumers t) /\ ~ In y acc).
      { intros y. unfold new. rewrite filter_In, negb_true_iff, tid_mem_nIn. reflexivity. }
      destruct (tia_nodup_len new acc (NoDup_filter' _ _ Hnc) Hnd (fun x Hx => proj2 (proj1 (Hnew x) Hx))) as [Nd' Len'].
      destruct (IH ts (rest ++ new) (tid_insert_all new acc) r W Nd') as [I1 I2]; [ | | | | exact H | ].
      * intros x Hx. apply tia_in. apply in_app_iff in Hx. destruct Hx as [Hx|Hx]; [right; apply Hfa; right; exact Hx | left; exact Hx].
      * intros x Hx. apply tia_in in Hx. destruct Hx as [Hx|Hx]; [apply Hcd; apply Hnew; exact Hx | apply Hdom; exact Hx].
      * intros x Hx. apply tia_in in Hx. destruct Hx as [Hx|Hx]; [left; apply in_app_iff; right; exact Hx|].
        destruct (Hcl x Hx) as [[<-|Hr]|Hc].
        -- right. intros tx y Ex Hy. rewrite Ht in Ex. inversion Ex; subst tx. apply tia_in.
           destruct (in_dec tid_dec y acc) as [Ha|Hna]; [right; exact Ha | left; apply Hnew; split; assumption].
        -- left. apply in_app_iff. left; exact Hr.
        -- right. intros tx y Ex Hy. apply tia_in. right. eapply Hc; eassumption.
      * rewrite app_length, Len'. cbn [length] in Hm. lia.
      * split; [|exact I2]. intros x Hx. apply I1. apply tia_in. right; exact Hx.
Qed.

Lemma recursive_consumers_closed ts t csm :
  WFc ts -> NoDup (t_consumers t) -> (forall y, In y (t_consumers t) -> find_task ts y <> None) ->
  recursive_consumers ts t = Ok csm -> incl (t_consumers t) csm /\ cclosed (find_task ts) csm.
Proof.
  intros W Hnc Hcd H. unfold recursive_consumers in H.
  destruct (tia_nodup_len (t_consumers t) [] Hnc (NoDup_nil _) (fun x _ Hx => Hx)) as [Nd Len].
  assert (A1 : incl (t_consumers t) (tid_insert_all (t_consumers t) [])) by (intros x Hx; apply tia_in; left; exact Hx).
  assert (A2 : forall x, In x (tid_insert_all (t_consumers t) []) -> find_task ts x <> None).
  { intros x Hx. apply tia_in in Hx. destruct Hx as [Hx|[]]. apply Hcd; exact Hx. }
  assert (A3 : forall x, In x (tid_insert_all (t_consumers t) []) ->
            In x (t_consumers t) \/ (forall tx y, find_task ts x = Some tx -> In y (t_consumers tx) -> In y (tid_insert_all (t_consumers t) []))).
  { intros x Hx. apply tia_in in Hx. destruct Hx as [Hx|[]]. left; exact Hx. }
  assert (A4 : (length (t_consumers t) + length ts <= S (length ts) * S (length ts) + length (tid_insert_all (t_consumers t) []))%nat).
  { rewrite Len. cbn [length]. lia. }
  destruct (collect_closed _ _ _ _ _ W Nd A1 A2 A3 A4 H) as [I1 I2].
  split; [|exact I2]. intros x Hx. apply I1. apply A1. exact Hx.
Qed.

Lemma DX_WFc X c : DX X (fm c) -> WFc (c_tasks c).
Proof.
  intros D x tx Ex. split; [exact (dx_nc _ _ D _ _ Ex)|]. intros y Hy.
  destruct (dx_cons _ _ D _ _ _ Ex Hy) as (ct & Ec & _). unfold fm in Ec. congruence.
Qed.

(** The failed / canceled task together with its transitive consumers is consumer-closed. *)
Lemma closed_with_root m csm id t :
  m id = Some t -> incl (t_consumers t) csm -> cclosed m csm -> cclosed m (csm ++ [id]).
Proof.
  intros Ef Hi Hc x tx y Hx Ex Hy. apply in_app_iff in Hx. apply in_app_iff. destruct Hx as [Hx|[<-|[]]].
  - left. eapply Hc; eassumption.
  - rewrite Ef in Ex. inversion Ex; subst tx. left. apply Hi. exact Hy.
Qed.
