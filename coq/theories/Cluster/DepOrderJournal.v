(** C03 across a restart, part 6: the executable trace monitor [Monitors.journal_dep_closed] holds
    on every history of the system model.

    The monitor reads a list of items: the events ([IEv]) in journal order and one
    [ISubmitted j tasks] per accepted submit, carrying the RAW dependency lists the client sent.
    [items_of_step] builds the items of one operation from its outputs exactly as the driver
    (ocaml/cluster/driver.ml) does from the lines of the real run: an event gives [IEv], the
    response [RSubmitOk] gives [ISubmitted] with the (id, deps) of the task graph of the operation
    (no dependencies for an array submit).  [run_items] is [Sys.run] collecting items.

    [journal_dep_closed_run]: [journal_dep_closed [] [] items = true] for every history.
    No hypothesis about finding F12 is needed: the monitor looks at the dependents submitted BEFORE
    the kill event; a task submitted later with a dependency on an already dead task (F12: the
    core drops that dependency) is not a dependent at that moment. *)
From HQ Require Import Base.Prelude Cluster.Types Cluster.Core Cluster.Reactor Cluster.Worker Cluster.Server Cluster.Sys Cluster.Monitors Cluster.ProofsJob Cluster.ProofsMore Cluster.ProofsTerminal Cluster.ProofsStep Cluster.ProofsFinal Cluster.BijBase Cluster.BijCore Cluster.BijHq Cluster.BijSt Cluster.BijReact Cluster.BijFinal Cluster.ProofsOnce Cluster.StartFinBase Cluster.RejHyp Cluster.InvQStep Cluster.InvDBase Cluster.InvDSpec Cluster.InvDRem Cluster.InvDStep Cluster.InvAll Cluster.InvBundle Cluster.StartFin2 Cluster.DepOrderBase Cluster.DepOrderReact Cluster.DepOrderStep Cluster.DepOrderSubmit Cluster.DepOrderRun.
From Coq Require Import ZArith Lia.
Local Open Scope N_scope.

Arguments N.add : simpl never.
Arguments N.sub : simpl never.

(** * Items of a history *)
Definition sub_tasks (o : op) (ids : list N) : list (N * list N) :=
  match o with
  | OpSubmitG _ _ ts _ => map (fun g => (gt_id g, gt_deps g)) ts
  | _ => map (fun i => (i, [])) ids
  end.

Definition item_of_out (o : op) (x : out) : list item :=
  match x with
  | OEv e => [IEv e]
  | OLaunch l => [ILaunch l]
  | OResp (RSubmitOk j _ ids) => [ISubmitted j (sub_tasks o ids)]
  | _ => []
  end.
Definition items_of_step (o : op) (outs : list out) : list item := flat_map (item_of_out o) outs.

Fixpoint run_items (s : sys) (ops : list op) : res (sys * list item) :=
  match ops with
  | [] => Ok (s, [])
  | o :: r =>
      do (s1, o1) <- step s o;
      do (s2, i2) <- run_items s1 r;
      Ok (s2, items_of_step o o1 ++ i2)
  end.

Lemma run_items_run ops : forall s s' outs, run s ops = Ok (s', outs) -> exists items, run_items s ops = Ok (s', items).
Proof.
  induction ops as [|o r IH]; cbn [run run_items]; intros s s' outs H; [inversion H; subst; eexists; reflexivity|].
  apply bind_ok in H. destruct H as ([s1 o1] & H1 & H). apply bind_ok in H. destruct H as ([s2 o2] & H2 & H). inversion H; subst.
  destruct (IH _ _ _ H2) as (i2 & Hi). rewrite H1. cbn [bind]. rewrite Hi. cbn [bind]. eexists; reflexivity.
Qed.

(** * What a stretch of items does to the monitor's accumulators *)
Definition sub_edges (j : N) (ts : list (N * list N)) : list (tid * list tid) :=
  map (fun kv => ((j, fst kv), map (fun d => (j, d)) (snd kv))) ts.

Fixpoint jdeps (D : list (tid * list tid)) (tr : list item) : list (tid * list tid) :=
  match tr with
  | [] => D
  | ISubmitted j ts :: r => jdeps (sub_edges j ts ++ D) r
  | _ :: r => jdeps D r
  end.

Definition ev_term (e : event) (T : list tid) : list tid :=
  match e with
  | EvFinished t => t :: T
  | EvFailed t _ => t :: T
  | EvCanceled ts => ts ++ T
  | EvAborted ts => ts ++ T
  | _ => T
  end.
Fixpoint jterm (T : list tid) (tr : list item) : list tid :=
  match tr with
  | [] => T
  | IEv e :: r => jterm (ev_term e T) r
  | _ :: r => jterm T r
  end.

Lemma ev_term_in e T x : In x (ev_term e T) <-> In x (tids_of (OEv e)) \/ In x T.
Proof. destruct e; cbn [ev_term tids_of]; try rewrite in_app_iff; cbn [In]; tauto. Qed.

Lemma jterm_in o outs : forall T x, In x (jterm T (items_of_step o outs)) <-> In x T \/ In x (terminal_ids outs).
Proof.
  induction outs as [|y r IH]; intros T x; [cbn; tauto|].
  unfold items_of_step. cbn [flat_map]. fold (items_of_step o r). rewrite tids_cons, in_app_iff.
  destruct y as [e|l|rs| | | |]; cbn [item_of_out app jterm tids_of].
  - rewrite IH, ev_term_in. cbn [tids_of]. tauto.
  - rewrite IH. cbn [In]. tauto.
  - destruct rs; cbn [app jterm]; rewrite IH; cbn [In]; tauto.
  - rewrite IH. cbn [In]. tauto.
  - rewrite IH. cbn [In]. tauto.
  - rewrite IH. cbn [In]. tauto.
  - rewrite IH. cbn [In]. tauto.
Qed.

Lemma dependents_of_in D t x : In x (dependents_of D t) <-> exists ds, In (x, ds) D /\ In t ds.
Proof.
  unfold dependents_of. rewrite in_map_iff. split.
  - intros ([x0 ds] & <- & Hin). apply filter_In in Hin. destruct Hin as [Hin Hm]. exists ds. split; [exact Hin|]. apply tid_mem_In. exact Hm.
  - intros (ds & Hin & Ht). exists (x, ds). split; [reflexivity|]. apply filter_In. split; [exact Hin | apply tid_mem_In; exact Ht].
Qed.

(** New entries come from the [RSubmitOk] responses of the step. *)
Lemma jdeps_in o outs : forall D x ds,
  In (x, ds) (jdeps D (items_of_step o outs)) ->
  In (x, ds) D \/ exists j n ids, In (OResp (RSubmitOk j n ids)) outs /\ In (x, ds) (sub_edges j (sub_tasks o ids)).
Proof.
  induction outs as [|y r IH]; intros D x ds H; [left; exact H|].
  unfold items_of_step in H. cbn [flat_map] in H. fold (items_of_step o r) in H.
  assert (Hskip : In (x, ds) (jdeps D (items_of_step o r)) ->
            In (x, ds) D \/ exists j n ids, In (OResp (RSubmitOk j n ids)) (y :: r) /\ In (x, ds) (sub_edges j (sub_tasks o ids))).
  { intros H0. destruct (IH _ _ _ H0) as [A|(j & n & ids & A & B)]; [left; exact A | right; exists j, n, ids; split; [right; exact A | exact B]]. }
  destruct y as [e|l|rs| | | |]; cbn [item_of_out app jdeps] in H; try (apply Hskip; exact H).
  destruct rs; cbn [app jdeps] in H; try (apply Hskip; exact H).
  destruct (IH _ _ _ H) as [A|(j & n0 & ids0 & A & B)].
  - apply in_app_iff in A. destruct A as [A|A]; [|left; exact A].
    right. exists job, n, ids. split; [left; reflexivity | exact A].
  - right. exists j, n0, ids0. split; [right; exact A | exact B].
Qed.

Lemma jdeps_old tr : forall D e, In e D -> In e (jdeps D tr).
Proof.
  induction tr as [|i r IH]; intros D e H; [exact H|].
  destruct i; cbn [jdeps]; try (apply IH; exact H). apply IH. apply in_app_iff. right; exact H.
Qed.

(** * The monitor on the items of one step *)
Lemma forallb_true_intro {A} (f : A -> bool) l : (forall x, In x l -> f x = true) -> forallb f l = true.
Proof. intros H. apply forallb_forall. exact H. Qed.

Lemma jdc_step o outs : forall D T (P : tid -> Prop) rest (Dep : deprel),
  (forall x, P x -> In x T) ->
  (forall x t, In x (dependents_of (jdeps D (items_of_step o outs)) t) -> Dep x t) ->
  (forall x, ~ Dep x x) ->
  jc Dep P outs ->
  journal_dep_closed D T (items_of_step o outs ++ rest)
  = journal_dep_closed (jdeps D (items_of_step o outs)) (jterm T (items_of_step o outs)) rest.
Proof.
  induction outs as [|y r IH]; intros D T P rest Dep HP HD Hirr J; [reflexivity|].
  unfold items_of_step in *. cbn [flat_map] in *. fold (items_of_step o r) in *.
  cbn [jc] in J. destruct J as [J1 J2].
  assert (Hmono : forall x t, In x (dependents_of D t) -> Dep x t).
  { intros x t Hx. apply HD. apply dependents_of_in in Hx. destruct Hx as (ds & Hin & Ht). apply dependents_of_in.
    exists ds. split; [|exact Ht]. apply jdeps_old. exact Hin. }
  assert (Hskip : tids_of y = [] -> (forall D0, jdeps D0 (item_of_out o y ++ items_of_step o r) = jdeps D0 (items_of_step o r)) ->
            journal_dep_closed D T (items_of_step o r ++ rest)
            = journal_dep_closed (jdeps D (items_of_step o r)) (jterm T (items_of_step o r)) rest).
  { intros Hy Hl. apply (IH D T (fun x => In x (tids_of y) \/ P x) rest Dep); [| |exact Hirr | exact J2].
    - intros x [A|A]; [rewrite Hy in A; destruct A | apply HP; exact A].
    - intros x t Hx. apply HD. rewrite Hl. exact Hx. }
  destruct y as [e|l|rs| | | |]; cbn [item_of_out app].
  - (* an event *)
    assert (Hnext : forall T', (forall x, In x (tids_of (OEv e)) \/ P x -> In x T') ->
              journal_dep_closed D T' (items_of_step o r ++ rest)
              = journal_dep_closed (jdeps D (items_of_step o r)) (jterm T' (items_of_step o r)) rest).
    { intros T' HT'. apply (IH D T' (fun x => In x (tids_of (OEv e)) \/ P x) rest Dep); [exact HT' | | exact Hirr | exact J2].
      intros x t Hx. apply HD. cbn [app jdeps]. exact Hx. }
    destruct e; cbn [journal_dep_closed jdeps jterm ev_term];
      try (apply Hnext; intros x [[]|A]; apply HP; exact A).
    + (* finished *) apply Hnext. intros x [[<-|[]]|A]; [left; reflexivity | right; apply HP; exact A].
    + (* failed *)
      replace (forallb (fun x => tid_mem x T) (dependents_of D t)) with true.
      * cbn [andb]. apply Hnext. intros x [[<-|[]]|A]; [left; reflexivity | right; apply HP; exact A].
      * symmetry. apply forallb_true_intro. intros x Hx. apply tid_mem_In.
        pose proof (Hmono _ _ Hx) as Hd. destruct (J1 t x (or_introl eq_refl) Hd) as [[<-|[]]|A]; [exfalso; exact (Hirr _ Hd) | apply HP; exact A].
    + (* cancelled *)
      replace (forallb (fun t => forallb (fun x => tid_mem x (ts ++ T)) (dependents_of D t)) ts) with true.
      * cbn [andb]. apply Hnext. intros x [A|A]; apply in_app_iff; [left; exact A | right; apply HP; exact A].
      * symmetry. apply forallb_true_intro. intros t Ht. apply forallb_true_intro. intros x Hx. apply tid_mem_In.
        destruct (J1 t x Ht (Hmono _ _ Hx)) as [A|A]; apply in_app_iff; [left; exact A | right; apply HP; exact A].
    + (* aborted *)
      replace (forallb (fun t => forallb (fun x => tid_mem x (ts ++ T)) (dependents_of D t)) ts) with true.
      * cbn [andb]. apply Hnext. intros x [A|A]; apply in_app_iff; [left; exact A | right; apply HP; exact A].
      * symmetry. apply forallb_true_intro. intros t Ht. apply forallb_true_intro. intros x Hx. apply tid_mem_In.
        destruct (J1 t x Ht (Hmono _ _ Hx)) as [A|A]; apply in_app_iff; [left; exact A | right; apply HP; exact A].
  - cbn [journal_dep_closed jdeps jterm]. apply (Hskip eq_refl). reflexivity.
  - destruct rs; cbn [app journal_dep_closed jdeps jterm]; try (apply (Hskip eq_refl); reflexivity).
    (* an accepted submit *)
    apply (IH _ T (fun x => In x (tids_of (OResp (RSubmitOk job n ids))) \/ P x) rest Dep); [| |exact Hirr | exact J2].
    + intros x [[]|A]. apply HP; exact A.
    + intros x t Hx. apply HD. cbn [app jdeps]. exact Hx.
  - apply (Hskip eq_refl). reflexivity.
  - apply (Hskip eq_refl). reflexivity.
  - apply (Hskip eq_refl). reflexivity.
  - apply (Hskip eq_refl). reflexivity.
Qed.

(** * The invariant along the history *)
Definition EI (s : sys) (D : list (tid * list tid)) (T : list tid) : Prop :=
  forall x ds d, In (x, ds) D -> In d ds -> x <> d /\ (In x T \/ dead (s, []) d \/ cdep (s_core s) x d).

(** Entries contributed by the step: only an accepted task-graph submit has dependencies. *)
Lemma new_entry_graph s o s' outs j n ids x ds d :
  INV s -> step s o = Ok (s', outs) -> In (OResp (RSubmitOk j n ids)) outs ->
  In (x, ds) (sub_edges j (sub_tasks o ids)) -> In d ds ->
  terminal_ids outs = [] /\ x <> d /\ (dead (s, []) d \/ cdep (s_core s') x d).
Proof.
  intros HI H Hin Hx Hd.
  unfold sub_edges in Hx. apply in_map_iff in Hx. destruct Hx as ([i0 ds0] & Ex & Hx). cbn [fst snd] in Ex. inversion Ex; subst x ds. clear Ex.
  apply in_map_iff in Hd. destruct Hd as (d0 & <- & Hd0).
  destruct o; cbn [sub_tasks] in Hx; try (apply in_map_iff in Hx; destruct Hx as (i & Ei & _); inversion Ei; subst; destruct Hd0).
  apply in_map_iff in Hx. destruct Hx as (g & Eg & Hg). inversion Eg; subst i0 ds0. clear Eg.
  cbn [step] in H. destruct (bad_graph_rq _ _); [inversion H; subst; destruct Hin as [Hin|[]]; discriminate|]. destruct (dead_dep _ _ _); [inversion H; subst; destruct Hin as [Hin|[]]; discriminate|].
  split; [exact (handle_submit_graph_tids _ _ _ _ _ _ H)|].
  assert (P : PRE (s, [])) by (split; [exact (inv_d _ HI) | exact (inv_dj _ HI)]).
  destruct (submit_graph_X (s, []) _ _ _ _ (s', outs) (inv_fresh _ HI) P (inv_cb _ HI) H) as (_ & q & Eq & Hq).
  cbn [snd app] in Eq. subst q.
  destruct (in_split _ _ Hg) as (pre & post & Ets).
  destruct (Hq _ _ _ Hin pre g post d0 Ets Hd0) as [Hne Hor]. split.
  - intros E. inversion E. apply Hne. symmetry. assumption.
  - destruct Hor as [(v & Hv & Ht)|Hc]; [left; left; exists v; split; assumption | right; exact Hc].
Qed.

Lemma run_jdc ops : forall s D T s' items,
  along INV s ops -> Forall op_wf ops -> EI s D T ->
  run_items s ops = Ok (s', items) -> journal_dep_closed D T items = true.
Proof.
  induction ops as [|o r IH]; cbn [run_items]; intros s D T s' items Hal Hwf HE H; [inversion H; subst; reflexivity|].
  apply bind_ok in H. destruct H as ([s1 o1] & H1 & H). apply bind_ok in H. destruct H as ([s2 i2] & H2 & H). inversion H; subst.
  inversion Hwf as [|? ? Hw1 Hw2]; subst. cbn [along] in Hal. destruct Hal as [HI Hal]. rewrite H1 in Hal.
  pose proof (step_EDG _ _ _ _ HI Hw1 H1) as HG.
  set (D1 := jdeps D (items_of_step o o1)). set (T1 := jterm T (items_of_step o o1)).
  (* the invariant after the step *)
  assert (HE1 : EI s1 D1 T1).
  { intros x ds d Hx Hd. destruct (jdeps_in _ _ _ _ _ Hx) as [Hold|(j & n & ids & Hin & Hnew)].
    - destruct (HE _ _ _ Hold Hd) as [Hne Hor]. split; [exact Hne|].
      destruct Hor as [A|[A|A]].
      + left. apply jterm_in. left; exact A.
      + right. left. exact (step_dead _ _ _ _ d HI H1 A).
      + destruct (edg_fwd _ _ _ HG x d A) as [B|B]; [right; right; exact B | left; apply jterm_in; right; exact B].
    - destruct (new_entry_graph _ _ _ _ _ _ _ _ _ _ HI H1 Hin Hnew Hd) as (_ & Hne & Hor). split; [exact Hne|].
      destruct Hor as [A|A]; [right; left; exact (step_dead _ _ _ _ d HI H1 A) | right; right; exact A]. }
  rewrite (jdc_step o o1 D T (fun x => In x T) i2 (fun x t => In x (dependents_of D1 t))).
  - eapply IH; [exact Hal | exact Hw2 | exact HE1 | exact H2].
  - intros x Hx; exact Hx.
  - intros x t Hx; exact Hx.
  - intros x Hx. apply dependents_of_in in Hx. destruct Hx as (ds & Hin & Hd). destruct (HE1 _ _ _ Hin Hd) as [Hne _]. apply Hne. reflexivity.
  - (* the events of the step are closed w.r.t. the dependents known to the monitor *)
    apply jc_decomp. intros pre e post t x E Ht Hx.
    assert (Hkill : In t (terminal_ids o1)).
    { rewrite E, terminal_ids_app, tids_cons. apply in_app_iff. right. apply in_app_iff. left. apply kill_ids_sub. exact Ht. }
    destruct (step_killed _ _ _ _ t HI H1 Hkill) as [_ ND].
    apply dependents_of_in in Hx. destruct Hx as (ds & Hin & Hd).
    destruct (jdeps_in _ _ _ _ _ Hin) as [Hold|(j & n & ids & Hin' & Hnew)].
    + destruct (HE _ _ _ Hold Hd) as [_ [A|[A|A]]]; [right; exact A | contradiction|].
      left. destruct (proj1 (jc_decomp _ _ _) (step_dep_closed_jc _ _ _ _ HI H1) pre e post t x E Ht A) as [B|[]]. exact B.
    + destruct (new_entry_graph _ _ _ _ _ _ _ _ _ _ HI H1 Hin' Hnew Hd) as (Hq & _). rewrite Hq in Hkill. destruct Hkill.
Qed.

(** C03 across a restart: the monitor [journal_dep_closed] accepts the items of EVERY history of
    the system model. *)
Theorem journal_dep_closed_run ops reserve maxfill s items :
  Forall op_wf ops -> run_fresh (init_sys reserve maxfill) ops = true ->
  run_items (init_sys reserve maxfill) ops = Ok (s, items) ->
  journal_dep_closed [] [] items = true.
Proof.
  intros Hwf Hf H.
  apply (run_jdc ops (init_sys reserve maxfill) [] [] s items); [apply along_INV; assumption | exact Hwf | intros x ds d [] | exact H].
Qed.

Print Assumptions journal_dep_closed_run.
