(** C06 "instance ids strictly increase", part 9: counting copies over the process list; the loss
    of a worker (the one operation that sends compute messages with NEW instance ids, and may
    remove a task it has just sent out). *)
From HQ Require Import Base.Prelude Cluster.Types Cluster.Core Cluster.Reactor Cluster.Worker Cluster.Server Cluster.Sys Cluster.Monitors Cluster.RejHyp Cluster.ProofsJob Cluster.ProofsMore Cluster.ProofsTerminal Cluster.ProofsStep Cluster.ProofsFinal Cluster.BijBase Cluster.BijCore Cluster.BijHq Cluster.BijSt Cluster.BijReact Cluster.BijFinal Cluster.ProofsOnce Cluster.InvWBase Cluster.InvWX1 Cluster.InvWX3 Cluster.NoPanicC1 Cluster.NoPanicL0 Cluster.NoPanicU0 Cluster.NoPanicU1 Cluster.NoPanicU6 Cluster.NoPanicU7 Cluster.NoPanicU17 Cluster.ExecU1 Cluster.ExecU2 Cluster.ExecU3 Cluster.ExecU4 Cluster.ExecU5 Cluster.ExecU6.
From Coq Require Import ZArith Lia Sorting.Sorted.
Local Open Scope N_scope.

Arguments N.add : simpl never.
Arguments N.sub : simpl never.

(** * Counting over the process list *)
Lemma cc_set_proc x ps : forall w p p', NoPanicU1.psorted ps -> find_proc ps w = Some p -> p_id p' = w ->
  (cc x (set_proc ps p') + pc x p = cc x ps + pc x p')%nat.
Proof.
  unfold NoPanicU1.psorted. induction ps as [|h r IH]; intros w p p' Hs Hf Hi; [discriminate|]. subst w.
  cbn [find_proc] in Hf. cbn [set_proc]. inversion Hs as [|? ? Hs' Hall]; subst. rewrite Forall_forall in Hall.
  destruct (N.eqb (p_id p') (p_id h)) eqn:E.
  - inversion Hf; subst p. cbn [cc]. lia.
  - destruct (N.ltb (p_id p') (p_id h)) eqn:L.
    + exfalso. destruct (NoPanicL0.find_proc_some _ _ _ Hf) as [Hin Hid]. specialize (Hall _ (in_map p_id _ _ Hin)). apply N.ltb_lt in L. lia.
    + cbn [cc]. specialize (IH _ _ _ Hs' Hf eq_refl). lia.
Qed.

Lemma cc_del_proc x ps w : (cc x (del_proc ps w) <= cc x ps)%nat.
Proof. induction ps as [|h r IH]; cbn [del_proc cc]; [lia|]. destruct (N.eqb w (p_id h)); cbn [cc]; lia. Qed.

Lemma tags_set_proc ps p' c : In c (tags (set_proc ps p')) -> In c (ptags p') \/ In c (tags ps).
Proof.
  unfold tags. induction ps as [|h r IH]; cbn [set_proc flat_map]; [rewrite app_nil_r; auto|].
  destruct (N.eqb (p_id p') (p_id h)); cbn [flat_map]; rewrite ?in_app_iff; [tauto|].
  destruct (N.ltb (p_id p') (p_id h)); cbn [flat_map]; rewrite ?in_app_iff; [tauto|]. intros [H|H]; [tauto|]. destruct (IH H); tauto.
Qed.

Lemma pc_push x p m : pc x (push_down p m) = (pc x p + dc x [m])%nat.
Proof. unfold pc, push_down. cbn [p_down p_backlog]. rewrite dc_app. lia. Qed.

Lemma send_worker_cc x s w m s' : NoPanicU1.psorted (s_procs (fst s)) -> send_worker s w m = Ok s' ->
  cc x (s_procs (fst s')) = (cc x (s_procs (fst s)) + dc x [m])%nat /\ NoPanicU1.psorted (s_procs (fst s')).
Proof.
  unfold send_worker. intros Hs H. destruct (find_proc (s_procs (fst s)) w) as [p|] eqn:Ep; [|discriminate]. inversion H; subst s'.
  cbn [fst with_procs s_procs]. split; [|apply set_proc_sorted; exact Hs].
  destruct (NoPanicL0.find_proc_some _ _ _ Ep) as [_ Hid].
  pose proof (cc_set_proc x _ w p (push_down p m) Hs Ep Hid) as Hc. rewrite pc_push in Hc. lia.
Qed.

(** * [lost_retracting] *)
Definition AL (c0 c' : core) : wid -> dmsg -> Prop := fun _ m =>
  match m with
  | DCompute cts => forall ct, In ct cts ->
      (exists t0, In t0 (c_tasks c0) /\ t_id t0 = ct_id ct /\ t_inst t0 < ct_inst ct) /\
      (forall t', In t' (c_tasks c') -> t_id t' = ct_id ct -> ct_inst ct <= t_inst t')
  | _ => True
  end.
Lemma AL_quiet c0 c' w m : quietm m -> AL c0 c' w m.
Proof. destruct m; cbn; auto. intros []. Qed.

Lemma PR_weaken (A B : wid -> dmsg -> Prop) s s' : (forall w m, A w m -> B w m) -> PR A s s' -> PR B s s'.
Proof.
  intros HAB (L & P & S). split; [exact L|]. split; [|exact S]. intros w p' Hp. destruct (P w p' Hp) as (p & add & X1 & X2 & X3 & X4 & X5 & X6).
  exists p, add. repeat split; auto. eapply Forall_impl; [|exact X6]. intros m. apply HAB.
Qed.

Definition nof (x : tid -> Prop) := x.
Definition NF : tid -> Prop := fun _ => False.

Lemma AL_weaken c0 c1 c1' c' w m : TT NF NF c0 c1 -> TT NF NF c1' c' -> AL c1 c1' w m -> AL c0 c' w m.
Proof.
  intros T0 T1. destruct m; cbn [AL]; auto. intros H ct Hin. destruct (H ct Hin) as [(t1 & H1 & E1 & L1) H2]. split.
  - destruct (T0 t1 H1) as [(t0 & H0 & E0 & Le & _)|[]]. exists t0. split; [exact H0|]. split; [congruence | lia].
  - intros t' Ht' Et'. destruct (T1 t' Ht') as [(t2 & Ht2 & E2 & Le & _)|[]]. specialize (H2 t2 Ht2 ltac:(congruence)). lia.
Qed.

Lemma lost_retracting_PR l : forall s w s', CS (core_of s) ->
  lost_retracting s w l = Ok s' -> PR (AL (core_of s) (core_of s')) s s'.
Proof.
  induction l as [|id r IH]; cbn [lost_retracting]; intros s w s' Hs H; [inversion H; subst; apply PR_refl|].
  apply bind_ok in H. destruct H as (t & Ht & H). apply get_task_find in Ht.
  destruct (find_task_some _ _ _ Ht) as [Hin Hid].
  destruct (t_state t) as [n|w1 rv1|w1|w1|w1 rv1|wsx|] eqn:Est; try (eapply IH; eassumption).
  destruct (N.eqb w w1); [|eapply IH; eassumption]. cbv zeta in H.
  destruct (find_redirect (c_redirects (core_of s)) id) as [[target rv]|].
  - apply bind_ok in H. destruct H as (s1 & Hs1 & H).
    set (t' := with_state (with_inst t (t_inst t + 1)) (Assigned target rv)) in *.
    set (c0 := with_redirects (core_of s) (del_redirect (c_redirects (core_of s)) id)) in *.
    assert (Ec1 : core_of s1 = upd_task c0 t') by (rewrite (send_worker_core _ _ _ _ Hs1); reflexivity).
    assert (Hs' : CS (core_of s1)).
    { rewrite Ec1. eapply CS_keys; [|exact Hs]. apply (upd_task_frame c0 id t t'); [exact Hs | exact Ht | reflexivity | reflexivity]. }
    pose proof (IH _ _ _ Hs' H) as R2.
    pose proof (lost_retracting_TT NF NF _ _ _ _ H) as T2.
    assert (T1 : TT NF NF (core_of s) (core_of s1)).
    { rewrite Ec1. eapply (TT_set NF NF _ _ t' t); [reflexivity | exact Hin | reflexivity | cbn; lia | cbn; intros E; lia]. }
    eapply PR_trans; [apply (PR_core _ s (upd_task c0 t'))|]. eapply PR_trans.
    + eapply PR_send; [exact Hs1|]. cbn [AL]. intros ct [<-|[]]. cbn [ctask_of ct_id ct_inst t' t_id t_inst with_state with_inst]. split.
      * exists t. split; [exact Hin|]. split; [reflexivity | lia].
      * intros t2 Ht2 Et2. destruct (T2 t2 Ht2) as [(t1 & Ht1 & E1 & Le & _)|[]].
        rewrite Ec1 in Ht1. cbn [c_tasks upd_task with_tasks with_redirects c0] in Ht1.
        assert (t1 = t') by (eapply set_task_in_same; [exact (CS_sorted _ Hs) | exact Ht1 | cbn; congruence]). subst t1. cbn in Le. exact Le.
    + eapply PR_weaken; [|exact R2]. intros w0 m. apply AL_weaken; [exact T1 | apply TT_refl].
  - set (t' := with_state (with_inst t (t_inst t + 1)) (Waiting 0)) in *.
    assert (Hs' : CS (core_of (st_core s (upd_task (core_of s) t')))).
    { eapply CS_keys; [|exact Hs]. apply (upd_task_frame (core_of s) id t t'); [exact Hs | exact Ht | reflexivity | reflexivity]. }
    pose proof (IH _ _ _ Hs' H) as R2.
    assert (T1 : TT NF NF (core_of s) (core_of (st_core s (upd_task (core_of s) t')))).
    { eapply (TT_set NF NF _ _ t' t); [reflexivity | exact Hin | reflexivity | cbn; lia | cbn; intros E; lia]. }
    eapply PR_trans; [apply (PR_core _ s (upd_task (core_of s) t'))|].
    eapply PR_weaken; [|exact R2]. intros w0 m. apply AL_weaken; [exact T1 | apply TT_refl].
Qed.

(** a task is sent out at most once by [lost_retracting]: only while it is Retracting from [w] *)
Definition rt (w : wid) (c : core) (x : tid) : nat :=
  match find_task (c_tasks c) x with
  | Some t => match t_state t with Retracting w1 => if N.eqb w w1 then 1%nat else O | _ => O end
  | None => O
  end.

Lemma dc_one x ct : dc x [DCompute [ct]] = if tid_eqb (ct_id ct) x then 1%nat else O.
Proof. unfold dc. cbn [dcts flat_map app]. unfold ccnt. cbn [filter]. destruct (tid_eqb (ct_id ct) x); reflexivity. Qed.

Lemma lost_retracting_cc l : forall s w s', CS (core_of s) -> NoPanicU1.psorted (s_procs (fst s)) ->
  lost_retracting s w l = Ok s' -> forall x, (cc x (s_procs (fst s')) <= cc x (s_procs (fst s)) + rt w (core_of s) x)%nat.
Proof.
  induction l as [|id r IH]; cbn [lost_retracting]; intros s w s' Hs Hp H x; [inversion H; subst; lia|].
  apply bind_ok in H. destruct H as (t & Ht & H). apply get_task_find in Ht.
  destruct (find_task_some _ _ _ Ht) as [Hin Hid].
  destruct (t_state t) as [n|w1 rv1|w1|w1|w1 rv1|wsx|] eqn:Est; try (eapply IH; eassumption).
  destruct (N.eqb w w1) eqn:Ew; [|eapply IH; eassumption]. cbv zeta in H.
  assert (Hrt : forall c1 t', c_tasks c1 = set_task (c_tasks (core_of s)) t' -> t_id t' = id -> (forall w2, t_state t' <> Retracting w2) ->
            (rt w c1 x + (if tid_eqb id x then 1 else 0) <= rt w (core_of s) x + (if tid_eqb id x then 1 else 0))%nat /\
            (tid_eqb id x = true -> rt w c1 x = O /\ rt w (core_of s) x = 1%nat)).
  { intros c1 t' Et Ei Hn. unfold rt. rewrite Et, find_set_task, Ei. destruct (tid_eqb x id) eqn:E.
    - apply tid_eqb_eq in E. subst x. rewrite Ht, Est, Ew, NoPanicU1.tid_eqb_refl.
      destruct (t_state t') eqn:E'; try (split; [lia | auto]). exfalso. exact (Hn _ eq_refl).
    - assert (E2 : tid_eqb id x = false) by (rewrite NoPanicU1.tid_eqb_sym; exact E). rewrite E2. split; [lia | discriminate]. }
  destruct (find_redirect (c_redirects (core_of s)) id) as [[target rv]|].
  - apply bind_ok in H. destruct H as (s1 & Hs1 & H).
    set (t' := with_state (with_inst t (t_inst t + 1)) (Assigned target rv)) in *.
    set (c0 := with_redirects (core_of s) (del_redirect (c_redirects (core_of s)) id)) in *.
    assert (Ec1 : core_of s1 = upd_task c0 t') by (rewrite (send_worker_core _ _ _ _ Hs1); reflexivity).
    assert (Hs' : CS (core_of s1)).
    { rewrite Ec1. eapply CS_keys; [|exact Hs]. apply (upd_task_frame c0 id t t'); [exact Hs | exact Ht | reflexivity | reflexivity]. }
    destruct (send_worker_cc x (st_core s (upd_task c0 t')) _ _ _ Hp Hs1) as [Hc1 Hp1].
    specialize (IH _ _ _ Hs' Hp1 H x). rewrite Hc1, dc_one in IH. cbn [ctask_of ct_id t' t_id with_state with_inst] in IH. rewrite Hid in IH.
    destruct (Hrt (core_of s1) t') as [R1 R2]; [rewrite Ec1; reflexivity | cbn; exact Hid | intros w2; cbn; discriminate|].
    cbn [st_core fst with_core s_procs] in IH. destruct (tid_eqb id x) eqn:E; [destruct (R2 eq_refl) as [A B]; rewrite A in IH; rewrite B; lia | lia].
  - set (t' := with_state (with_inst t (t_inst t + 1)) (Waiting 0)) in *.
    assert (Hs' : CS (core_of (st_core s (upd_task (core_of s) t')))).
    { eapply CS_keys; [|exact Hs]. apply (upd_task_frame (core_of s) id t t'); [exact Hs | exact Ht | reflexivity | reflexivity]. }
    specialize (IH _ _ _ Hs' Hp H x).
    destruct (Hrt (core_of (st_core s (upd_task (core_of s) t'))) t') as [R1 _]; [reflexivity | cbn; exact Hid | intros w2; cbn; discriminate|].
    cbn [st_core fst with_core s_procs] in IH. lia.
Qed.

(** * Counting copies across a frame *)
Lemma cc_del x ps : forall w p, NoPanicU1.psorted ps -> find_proc ps w = Some p -> cc x ps = (pc x p + cc x (del_proc ps w))%nat.
Proof.
  unfold NoPanicU1.psorted. induction ps as [|h r IH]; intros w p Hs Hf; [discriminate|]. cbn [find_proc] in Hf. cbn [del_proc].
  inversion Hs as [|? ? Hs' Hall]; subst. destruct (N.eqb w (p_id h)); [inversion Hf; subst; reflexivity|].
  cbn [cc]. rewrite (IH _ _ Hs' Hf). lia.
Qed.

Lemma cc_le x : forall ps' ps, NoPanicU1.psorted ps' -> NoPanicU1.psorted ps ->
  (forall p', In p' ps' -> exists p, find_proc ps (p_id p') = Some p /\ (pc x p' <= pc x p)%nat) -> (cc x ps' <= cc x ps)%nat.
Proof.
  induction ps' as [|h r IH]; intros ps Hs' Hs H; [cbn; lia|]. cbn [cc].
  destruct (H h (or_introl eq_refl)) as (p & Hp & Le). rewrite (cc_del x ps _ _ Hs Hp).
  inversion Hs' as [|? ? Hs'' Hall]; subst. rewrite Forall_forall in Hall.
  assert (IH' : (cc x r <= cc x (del_proc ps (p_id h)))%nat).
  { apply IH; [exact Hs'' | apply del_proc_sorted; exact Hs|]. intros p' Hin. destruct (H p' (or_intror Hin)) as (q & Hq & Lq).
    exists q. split; [|exact Lq]. rewrite find_del_proc by exact Hs. specialize (Hall _ (in_map p_id _ _ Hin)).
    destruct (N.eqb (p_id p') (p_id h)) eqn:E; [apply N.eqb_eq in E; lia | exact Hq]. }
  lia.
Qed.

Definition quietA : wid -> dmsg -> Prop := fun _ m => quietm m.
Lemma dc_quiet x add : Forall quietm add -> dc x add = O.
Proof.
  induction add as [|m r IH]; intros H; [reflexivity|]. inversion H as [|? ? Hm Hr]; subst. change (m :: r) with ([m] ++ r). rewrite dc_app, (IH Hr).
  destruct m; try reflexivity. destruct Hm.
Qed.

Lemma cc_PR_quiet x s s' : NoPanicU1.psorted (s_procs (fst s)) -> NoPanicU1.psorted (s_procs (fst s')) -> PR quietA s s' ->
  (cc x (s_procs (fst s')) <= cc x (s_procs (fst s)))%nat.
Proof.
  intros Hs Hs' (_ & P & _). apply cc_le; [exact Hs' | exact Hs|]. intros p' Hin.
  assert (Hf : find_proc (s_procs (fst s')) (p_id p') = Some p').
  { clear -Hs' Hin. unfold NoPanicU1.psorted in Hs'. induction (s_procs (fst s')) as [|h r IH]; [destruct Hin|]. cbn [find_proc].
    inversion Hs' as [|? ? Hs'' Hall]; subst. rewrite Forall_forall in Hall. destruct Hin as [->|Hin]; [rewrite N.eqb_refl; reflexivity|].
    specialize (Hall _ (in_map p_id _ _ Hin)). destruct (N.eqb (p_id p') (p_id h)) eqn:E; [apply N.eqb_eq in E; lia | apply IH; assumption]. }
  destruct (P _ _ Hf) as (p & add & X1 & X2 & X3 & X4 & X5 & X6). exists p. split; [exact X1|].
  unfold pc. rewrite X5, X2, dc_app, (dc_quiet x add X6). lia.
Qed.

(** * A task under retraction was under retraction before *)
Definition RB (c c' : core) : Prop :=
  forall t', In t' (c_tasks c') -> forall w1, t_state t' = Retracting w1 -> exists t, In t (c_tasks c) /\ t_id t = t_id t' /\ t_state t = Retracting w1.
Lemma RB_refl c : RB c c.
Proof. intros t H w1 E. exists t. auto. Qed.
Lemma RB_trans a b c : RB a b -> RB b c -> RB a c.
Proof.
  intros A B t3 H3 w1 E3. destruct (B t3 H3 w1 E3) as (t2 & H2 & Ei & E2). destruct (A t2 H2 w1 E2) as (t1 & H1 & Ei1 & E1).
  exists t1. split; [exact H1|]. split; [congruence | exact E1].
Qed.
Lemma RB_set c c' x t : c_tasks c' = set_task (c_tasks c) x -> In t (c_tasks c) -> t_id x = t_id t ->
  (forall w1, t_state x = Retracting w1 -> t_state t = Retracting w1) -> RB c c'.
Proof.
  intros E Hin Ei Hr t' H w1 Est. rewrite E in H. destruct (set_task_in _ _ _ H) as [->|Hin']; [exists t; split; [exact Hin|]; split; [auto | apply Hr; exact Est]|].
  exists t'. auto.
Qed.

Lemma lost_prefilled_RB l : forall c c', lost_prefilled c l = Ok c' -> RB c c'.
Proof.
  induction l as [|id r IH]; cbn [lost_prefilled]; intros c c' H; [inversion H; subst; apply RB_refl|].
  apply bind_ok in H. destruct H as (t & Ht & H). apply bind_ok in H. destruct H as (q & _ & H). apply bind_ok in H. destruct H as (q' & _ & H).
  apply get_task_find in Ht. eapply RB_trans; [|eapply IH; exact H].
  eapply (RB_set _ _ _ t); [reflexivity | exact (find_in _ _ _ Ht) | reflexivity | cbn; intros w1 E; discriminate].
Qed.

Lemma lost_assigned_RB l : forall c running ret c' running' ret', lost_assigned c l running ret = Ok (c', running', ret') -> RB c c'.
Proof.
  induction l as [|id r IH]; cbn [lost_assigned]; intros c running ret c' running' ret' H; [inversion H; subst; apply RB_refl|].
  apply bind_ok in H. destruct H as (t & Ht & H). apply get_task_find in Ht.
  apply bind_ok in H. destruct H as ([[c1 t1] running1] & Hr1 & H).
  apply bind_ok in H. destruct H as ([qs rt0] & _ & H).
  eapply RB_trans; [|eapply IH; exact H].
  assert (E1 : c_tasks c1 = c_tasks c /\ (t1 = t \/ t1 = with_state t (Waiting 0))).
  { destruct (t_state t); try (inversion Hr1; subst; auto; fail).
    destruct (find_redirect _ id); inversion Hr1; subst; auto. }
  destruct E1 as (Et & [-> | ->]).
  - eapply (RB_set _ _ _ t); [cbn [c_tasks upd_task with_tasks with_queues]; rewrite Et; reflexivity | exact (find_in _ _ _ Ht) | reflexivity | cbn; auto].
  - eapply (RB_set _ _ _ t); [cbn [c_tasks upd_task with_tasks with_queues]; rewrite Et; reflexivity | exact (find_in _ _ _ Ht) | reflexivity | cbn; intros w1 E; discriminate].
Qed.

Lemma lost_retracting_psorted l : forall s w s', NoPanicU1.psorted (s_procs (fst s)) -> lost_retracting s w l = Ok s' -> NoPanicU1.psorted (s_procs (fst s')).
Proof.
  induction l as [|id r IH]; cbn [lost_retracting]; intros s w s' Hp H; [inversion H; subst; exact Hp|].
  apply bind_ok in H. destruct H as (t & Ht & H).
  destruct (t_state t); try (eapply IH; eassumption). destruct (N.eqb w w0); [|eapply IH; eassumption]. cbv zeta in H.
  destruct (find_redirect _ id) as [[target rv]|]; [|eapply IH; [|exact H]; exact Hp].
  apply bind_ok in H. destruct H as (s1 & Hs1 & H). eapply IH; [|exact H].
  unfold send_worker in Hs1. destruct (find_proc _ target); [|discriminate]. inversion Hs1; subst. cbn. apply set_proc_sorted. exact Hp.
Qed.

Lemma process_worker_lost_PR A s w running reason s' : process_worker_lost s w running reason = Ok s' -> PR A s s'.
Proof.
  intros H. apply PR_job; [eapply process_worker_lost_CP; exact H | eapply process_worker_lost_LS; exact H|].
  unfold process_worker_lost in H. apply bind_ok in H. destruct H as (s1 & H1 & H). inversion H; subst.
  destruct (set_waiting_all_spec _ _ _ H1) as (_ & _ & Hc & _). intros x Hx. change (hq_of (emit s1 (OEv (EvWLost w reason)))) with (hq_of s1).
  eapply hq_chg_seen; eassumption.
Qed.

Theorem on_remove_worker_EXF s w reason a p t s' :
  CB s -> NoPanicU1.psorted (s_procs (fst s)) -> NoPanicU1.psorted (s_procs (fst s')) ->
  on_remove_worker s w reason a p t = Ok s' ->
  LS s' = LS s /\ SM s s' /\
  (forall w' p', find_proc (s_procs (fst s')) w' = Some p' -> w' <> w /\ exists p0 add, find_proc (s_procs (fst s)) w' = Some p0 /\
      p_backlog p' = p_backlog p0 /\ p_running p' = p_running p0 /\ p_up p' = p_up p0 /\ p_down p' = p_down p0 ++ add /\
      Forall (AL (core_of s) (core_of s') w') add) /\
  (forall x, (cc x (s_procs (fst s')) <= cc x (del_proc (s_procs (fst s)) w))%nat \/
             ((cc x (s_procs (fst s')) <= cc x (del_proc (s_procs (fst s)) w) + 1)%nat /\
              exists t0, find_task (c_tasks (core_of s)) x = Some t0 /\ t_state t0 = Retracting w)).
Proof.
  intros HC Hps Hps' H. unfold on_remove_worker in H.
  destruct (find_worker (c_workers (core_of s)) w) as [wk|] eqn:Hw; [|discriminate].
  apply bind_ok in H. destruct H as ([[c2 running] retracted] & Hr & H).
  set (c := core_of s) in *.
  set (c0 := with_workers c (del_worker (c_workers c) w)) in *.
  set (s0 := (with_procs (fst s) (del_proc (s_procs (fst s)) w), snd s) : st) in *.
  assert (Hs0 : CS c0) by exact (cb_s _ HC).
  assert (A2 : TT NF NF c0 c2 /\ keys c2 = keys c0 /\ RB c0 c2).
  { destruct (w_assign wk) as [sa sp sf|mt root] eqn:Ea.
    - destruct (negb _); [discriminate|]. apply bind_ok in Hr. destruct Hr as (c1 & Hp & Hr).
      pose proof (lost_prefilled_frame _ _ _ Hs0 Hp) as E1. split; [|split].
      + eapply TT_trans; [eapply lost_prefilled_TT; exact Hp | eapply lost_assigned_TT; exact Hr].
      + rewrite (lost_assigned_frame _ _ _ _ _ _ _ (CS_keys _ _ E1 Hs0) Hr). exact E1.
      + eapply RB_trans; [eapply lost_prefilled_RB; exact Hp | eapply lost_assigned_RB; exact Hr].
    - apply bind_ok in Hr. destruct Hr as (tk & Ht & Hr). apply get_task_find in Ht.
      destruct (find_task_some _ _ _ Ht) as [Htin Hid].
      destruct (t_state tk) as [n|w1 rv1|w1|w1|w1 rv1|ws|] eqn:Est; try discriminate. destruct ws as [|w0 rest] eqn:Ews; [discriminate|].
      destruct (N.eqb w w0) eqn:Ew0.
      + apply bind_ok in Hr. destruct Hr as (c1 & Hc1 & Hr). apply bind_ok in Hr. destruct Hr as ([qs ret] & ?X & Hr).
        inversion Hr; subst c2 running retracted.
        pose proof (reset_mn_all_tasks _ _ _ Hc1) as T1. pose proof (reset_mn_all_frame _ _ _ Hc1) as E1. split; [|split].
        * eapply (TT_set NF NF c0 _ (with_inst (with_state tk (Waiting 0)) (t_inst tk + 1)) tk);
            [cbn [c_tasks upd_task with_tasks with_queues]; rewrite T1; reflexivity | exact Htin | reflexivity | cbn; lia | cbn; intros E; lia].
        * change (keys (upd_task c1 (with_inst (with_state tk (Waiting 0)) (t_inst tk + 1))) = keys c0).
          transitivity (keys c1); [|exact E1].
          apply (upd_task_frame c1 mt tk); [eapply CS_keys; [exact E1 | exact Hs0] | rewrite T1; exact Ht | reflexivity | reflexivity].
        * eapply (RB_set c0 _ _ tk); [cbn [c_tasks upd_task with_tasks with_queues]; rewrite T1; reflexivity | exact Htin | reflexivity | cbn; intros w1 E; discriminate].
      + inversion Hr; subst c2 running retracted. split; [|split].
        * eapply (TT_set NF NF c0 _ (with_state tk (RunningMN (filter (fun x => negb (N.eqb x w)) (w0 :: rest)))) tk);
            [reflexivity | exact Htin | reflexivity | cbn; lia | cbn; discriminate].
        * apply (upd_task_frame c0 mt tk); [exact Hs0 | exact Ht | reflexivity | reflexivity].
        * eapply (RB_set c0 _ _ tk); [reflexivity | exact Htin | reflexivity | cbn; intros w1 E; discriminate]. }
  destruct A2 as (T2 & K2 & B2).
  destruct (negb (perm_of_set t _)); [discriminate|].
  apply bind_ok in H. destruct H as (s3 & H3 & H). apply bind_ok in H. destruct H as (s4 & H4 & H).
  apply bind_ok in H. destruct H as (s6 & H6 & H). apply bind_ok in H. destruct H as (s7 & H7 & H). inversion H; subst s'. clear H.
  assert (Hs2 : CS c2) by (eapply CS_keys; [exact K2 | exact Hs0]).
  assert (Hp0 : NoPanicU1.psorted (s_procs (fst (st_core s0 c2)))) by (cbn; apply del_proc_sorted; exact Hps).
  pose proof (lost_retracting_PR _ (st_core s0 c2) _ _ Hs2 H3) as R3. cbn [core_of st_core with_core s_core fst] in R3.
  pose proof (lost_retracting_cc _ (st_core s0 c2) _ _ Hs2 Hp0 H3) as C3. cbn [core_of st_core with_core s_core fst s_procs s0 with_procs] in C3.
  pose proof (lost_retracting_psorted _ _ _ _ Hp0 H3) as Hp3.
  pose proof (lost_retracting_TT NF NF _ _ _ _ H3) as T3. cbn [core_of st_core with_core s_core fst] in T3.
  assert (Rq : PR quietA s3 (ask_scheduling s7)).
  { eapply PR_trans; [eapply process_retracted_PR; [|exact H4]; intros w0 m Hm; exact Hm|].
    eapply PR_trans; [apply (PR_broadcast quietA s4 (DLostWorker w)); intros w0; exact I|].
    eapply PR_trans; [eapply process_worker_lost_PR; exact H6|].
    eapply PR_trans; [eapply lost_fail_running_PR; [|exact H7]; intros w0 m Hm; exact Hm | apply PR_ask]. }
  assert (Tq : TT NF NF (core_of s3) (core_of (ask_scheduling s7))).
  { destruct (process_worker_lost_active _ _ _ _ _ H6) as [C6 _]. unfold core_same in C6.
    eapply TT_trans; [eapply process_retracted_TT; exact H4|].
    eapply TT_trans; [|eapply TT_trans; [eapply lost_fail_running_TT; exact H7 | apply TT_tasks; reflexivity]].
    rewrite C6. apply TT_refl. }
  assert (Th : TT NF NF c c2) by (eapply TT_trans; [apply (TT_tasks NF NF c c0); reflexivity | exact T2]).
  set (s' := ask_scheduling s7) in *.
  assert (Rall : PR (AL c (core_of s')) (st_core s0 c2) s').
  { eapply PR_trans.
    - eapply PR_weaken; [|exact R3]. intros w0 m. apply AL_weaken; [exact Th | exact Tq].
    - eapply PR_weaken; [|exact Rq]. intros w0 m Hm. apply AL_quiet. exact Hm. }
  destruct Rall as (L & P & S). split; [exact L|]. split; [exact S|]. split.
  - intros w' p' Hp'. destruct (P w' p' Hp') as (p0 & add & X1 & X2 & X3 & X4 & X5 & X6).
    cbn [st_core fst with_core s_procs s0 with_procs] in X1. rewrite find_del_proc in X1 by exact Hps.
    destruct (N.eqb w' w) eqn:E; [discriminate|]. split; [intros ->; rewrite N.eqb_refl in E; discriminate|].
    exists p0, add. repeat split; auto.
  - intros x. pose proof (cc_PR_quiet x _ _ Hp3 Hps' Rq) as Cq. specialize (C3 x).
    destruct (rt w c2 x) eqn:Ert; [left; lia|]. right. split.
    + unfold rt in Ert. destruct (find_task (c_tasks c2) x) as [t2|]; [|discriminate]. destruct (t_state t2); try discriminate.
      destruct (N.eqb w w0); [inversion Ert; subst; lia | discriminate].
    + unfold rt in Ert. destruct (find_task (c_tasks c2) x) as [t2|] eqn:E2; [|discriminate].
      destruct (t_state t2) eqn:Est2; try discriminate. destruct (N.eqb w w0) eqn:Ew; [|discriminate]. apply N.eqb_eq in Ew. subst w0.
      destruct (find_task_some _ _ _ E2) as [Hin2 Hid2].
      destruct (B2 t2 Hin2 w Est2) as (t0 & Hin0 & Ei0 & Es0). exists t0. split; [|exact Es0].
      rewrite <- Hid2, <- Ei0. apply in_find_task; [exact (CS_sorted _ (cb_s _ HC)) | exact Hin0].
Qed.
