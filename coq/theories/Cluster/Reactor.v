(** The HyperQueue job layer (job.rs, state.rs), the tako reactor (reactor.rs) with its
    re-entrant client callbacks (tako_events.rs), and the client request handlers
    (client/mod.rs, client/submit.rs).  All functions act on the whole system state because the
    reactor sends messages into the worker channels and calls back into the job layer. *)
From HQ Require Import Base.Prelude Cluster.Types Cluster.Core.
From Coq Require Import ZArith.
Local Open Scope N_scope.

(** * Effects *)
Definition st := (sys * list out)%type.

Definition emit (s : st) (o : out) : st := (fst s, snd s ++ [o]).
Definition with_core (s : sys) (c : core) : sys := mkSys c (s_hq s) (s_procs s).
Definition with_hq (s : sys) (h : hq) : sys := mkSys (s_core s) h (s_procs s).
Definition with_procs (s : sys) (p : list wproc) : sys := mkSys (s_core s) (s_hq s) p.
Definition st_core (s : st) (c : core) : st := (with_core (fst s) c, snd s).

Definition push_down (p : wproc) (m : dmsg) : wproc :=
  mkWP (p_id p) (p_backlog p) (p_running p) (p_alloc p) (p_blocked p) (p_total p) (p_free p)
       (p_futures p) (p_timers p) (p_failnext p) (p_rqs p) (p_down p ++ [m]) (p_up p).

Fixpoint find_proc (ps : list wproc) (w : wid) : option wproc :=
  match ps with [] => None | h :: t => if N.eqb w (p_id h) then Some h else find_proc t w end.
Fixpoint set_proc (ps : list wproc) (x : wproc) : list wproc :=
  match ps with
  | [] => [x]
  | h :: t => if N.eqb (p_id x) (p_id h) then x :: t
              else if N.ltb (p_id x) (p_id h) then x :: ps else h :: set_proc t x
  end.
Fixpoint del_proc (ps : list wproc) (w : wid) : list wproc :=
  match ps with [] => [] | h :: t => if N.eqb w (p_id h) then t else h :: del_proc t w end.

(** [CommSender::send_worker_message]: `self.workers.get(&worker_id).unwrap()` (site 160). *)
Definition send_worker (s : st) (w : wid) (m : dmsg) : res st :=
  match find_proc (s_procs (fst s)) w with
  | Some p => Ok (with_procs (fst s) (set_proc (s_procs (fst s)) (push_down p m)), snd s)
  | None => Panic 160
  end.
(** [CommSender::broadcast_worker_message] *)
Definition broadcast (s : st) (m : dmsg) : st :=
  (with_procs (fst s) (map (fun p => push_down p m) (s_procs (fst s))), snd s).
Definition ask_scheduling (s : st) : st := st_core s (with_flag (s_core (fst s)) true).

(** * Job layer *)
Fixpoint find_job (js : list job) (id : N) : option job :=
  match js with [] => None | h :: t => if N.eqb id (j_id h) then Some h else find_job t id end.
Fixpoint set_job (js : list job) (x : job) : list job :=
  match js with
  | [] => [x]
  | h :: t => if N.eqb (j_id x) (j_id h) then x :: t
              else if N.ltb (j_id x) (j_id h) then x :: js else h :: set_job t x
  end.
(** [jobs.remove(&job_id)] on a map: no job with this id remains. *)
Definition del_job (js : list job) (id : N) : list job :=
  filter (fun j => negb (N.eqb id (j_id j))) js.

Fixpoint jt_find (l : list (N * jstate)) (t : N) : option jstate :=
  match l with [] => None | (k, v) :: r => if N.eqb t k then Some v else jt_find r t end.
Fixpoint jt_set (l : list (N * jstate)) (t : N) (v : jstate) : list (N * jstate) :=
  match l with
  | [] => [(t, v)]
  | (k, v0) :: r => if N.eqb t k then (t, v) :: r else if N.ltb t k then (t, v) :: l else (k, v0) :: jt_set r t v
  end.

Definition job_upd (j : job) (tasks : list (N * jstate)) (nrun nfin nfail ncanc nabort : N) (completed : bool) : job :=
  mkJob (j_id j) (j_open j) tasks nrun nfin nfail ncanc nabort completed (j_maxfails j).
Definition job_set_task (j : job) (t : N) (v : jstate) : job :=
  job_upd j (jt_set (j_tasks j) t v) (j_nrun j) (j_nfin j) (j_nfail j) (j_ncanc j) (j_nabort j) (j_completed j).
Definition job_n_tasks (j : job) : N := N.of_nat (length (j_tasks j)).

(** Checked u32 subtraction (a panic in debug builds, a silent wrap in release builds). *)
Definition csub (a b site : N) : res N := if N.ltb a b then Panic site else Ok (a - b).

(** [JobTaskCounters::n_waiting_tasks] *)
Definition n_waiting (j : job) : res N :=
  do a <- csub (job_n_tasks j) (j_nrun j) 200;
  do b <- csub a (j_nfin j) 200;
  do c <- csub b (j_nfail j) 200;
  do d <- csub c (j_ncanc j) 200;
  csub d (j_nabort j) 200.
Definition has_no_active_tasks (j : job) : res bool :=
  do w <- n_waiting j; Ok (N.eqb (j_nrun j) 0 && N.eqb w 0).

Definition hq_set_job (s : st) (j : job) : st :=
  (with_hq (fst s) (mkHq (set_job (h_jobs (s_hq (fst s))) j) (h_counter (s_hq (fst s)))), snd s).
Definition hq_get_job (s : st) (id : N) (site : N) : res job :=
  match find_job (h_jobs (s_hq (fst s))) id with Some j => Ok j | None => Panic site end.

(** [Job::check_termination] (JobIdle is streamed only, never journalled: no output) *)
Definition check_termination (s : st) (jid : N) : res st :=
  do j <- hq_get_job s jid 212;
  do na <- has_no_active_tasks j;
  if na then
    if j_open j then Ok s
    else
      let j' := job_upd j (j_tasks j) (j_nrun j) (j_nfin j) (j_nfail j) (j_ncanc j) (j_nabort j) true in
      Ok (emit (hq_set_job s j') (OEv (EvCompleted jid)))
  else Ok s.

(** [Job::set_running_state] (inside [State::process_task_started]) *)
Definition process_task_started (s : st) (t : tid) (inst : N) (ws : list wid) (rv : N) : res st :=
  do j <- hq_get_job s (fst t) 208;
  match jt_find (j_tasks j) (snd t) with
  | None => Panic 201
  | Some v =>
      let j' := match v with
                | JW => job_upd j (jt_set (j_tasks j) (snd t) JR) (j_nrun j + 1) (j_nfin j) (j_nfail j) (j_ncanc j) (j_nabort j) (j_completed j)
                | _ => j
                end in
      Ok (emit (hq_set_job s j') (OEv (EvStarted t inst ws rv)))
  end.

(** [State::process_task_finished] / [Job::set_finished_state] *)
Definition process_task_finished (s : st) (t : tid) : res st :=
  do j <- hq_get_job s (fst t) 209;
  match jt_find (j_tasks j) (snd t) with
  | Some JR =>
      do nr <- csub (j_nrun j) 1 203;
      let j' := job_upd j (jt_set (j_tasks j) (snd t) JF) nr (j_nfin j + 1) (j_nfail j) (j_ncanc j) (j_nabort j) (j_completed j) in
      check_termination (emit (hq_set_job s j') (OEv (EvFinished t))) (fst t)
  | Some _ => Panic 202
  | None => Panic 201
  end.

(** [Job::set_waiting_state] (after the fix: tolerant of a task not yet reported running) *)
Definition set_waiting_state (s : st) (t : tid) : res st :=
  do j <- hq_get_job s (fst t) 210;
  match jt_find (j_tasks j) (snd t) with
  | Some JR =>
      do nr <- csub (j_nrun j) 1 203;
      Ok (hq_set_job s (job_upd j (jt_set (j_tasks j) (snd t) JW) nr (j_nfin j) (j_nfail j) (j_ncanc j) (j_nabort j) (j_completed j)))
  | Some _ => Ok s
  | None => Panic 211
  end.

(** Mark a list of tasks of one job Canceled / Aborted ([set_cancel_state] / [abort_tasks]). *)
Fixpoint mark_tasks (j : job) (ids : list tid) (target : jstate) (site : N) : res job :=
  match ids with
  | [] => Ok j
  | t :: r =>
      if negb (N.eqb (fst t) (j_id j)) then Panic 213   (* assert_eq!(task_id.job_id(), self.job_id) *)
      else match jt_find (j_tasks j) (snd t) with
           | Some JR =>
               do nr <- csub (j_nrun j) 1 203;
               mark_tasks (job_upd j (jt_set (j_tasks j) (snd t) target) nr (j_nfin j) (j_nfail j) (j_ncanc j) (j_nabort j) (j_completed j)) r target site
           | Some JW => mark_tasks (job_set_task j (snd t) target) r target site
           | Some _ => Panic site
           | None => Panic 214
           end
  end.

(** [Job::abort_tasks] *)
Definition abort_tasks (s : st) (jid : N) (ids : list tid) : res st :=
  match ids with
  | [] => Ok s
  | _ =>
      do j <- hq_get_job s jid 207;
      do j1 <- mark_tasks j ids JA 206;
      let j2 := job_upd j1 (j_tasks j1) (j_nrun j1) (j_nfin j1) (j_nfail j1) (j_ncanc j1) (j_nabort j1 + N.of_nat (length ids)) (j_completed j1) in
      check_termination (emit (hq_set_job s j2) (OEv (EvAborted ids))) jid
  end.

(** [Job::set_cancel_state] *)
Definition set_cancel_state (s : st) (jid : N) (ids : list tid) : res st :=
  match ids with
  | [] => Ok s
  | _ =>
      do j <- hq_get_job s jid 207;
      do j1 <- mark_tasks j ids JC 205;
      let j2 := job_upd j1 (j_tasks j1) (j_nrun j1) (j_nfin j1) (j_nfail j1) (j_ncanc j1 + N.of_nat (length ids)) (j_nabort j1) (j_completed j1) in
      check_termination (emit (emit (hq_set_job s j2) (OEv (EvJobCancel jid))) (OEv (EvCanceled ids))) jid
  end.

(** [Job::non_finished_task_ids] (sorted; the real order is the hash order of the task map) *)
Definition non_finished_task_ids (j : job) : list tid :=
  map (fun kv => (j_id j, fst kv))
      (filter (fun kv => match snd kv with JW | JR => true | _ => false end) (j_tasks j)).

(** [Job::set_failed_state] + the max-fails rule of [State::process_task_failed].
    Returns the ids the core has to cancel. *)
Definition process_task_failed (s : st) (t : tid) (aborted : list tid) (k : failkind) : res (st * list tid) :=
  do s1 <- abort_tasks s (fst t) aborted;
  do j <- hq_get_job s1 (fst t) 207;
  do j1 <- match jt_find (j_tasks j) (snd t) with
           | Some JR =>
               do nr <- csub (j_nrun j) 1 203;
               Ok (job_upd j (jt_set (j_tasks j) (snd t) JX) nr (j_nfin j) (j_nfail j + 1) (j_ncanc j) (j_nabort j) (j_completed j))
           | Some JW =>
               Ok (job_upd j (jt_set (j_tasks j) (snd t) JX) (j_nrun j) (j_nfin j) (j_nfail j + 1) (j_ncanc j) (j_nabort j) (j_completed j))
           | Some _ => Panic 204
           | None => Panic 201
           end;
  do s2 <- check_termination (emit (hq_set_job s1 j1) (OEv (EvFailed t k))) (fst t);
  do j2 <- hq_get_job s2 (fst t) 207;
  match j_maxfails j2 with
  | Some mf =>
      if N.ltb mf (j_nfail j2) then
        let ids := non_finished_task_ids j2 in
        do s3 <- abort_tasks s2 (fst t) ids;
        Ok (s3, ids)
      else Ok (s2, [])
  | None => Ok (s2, [])
  end.

(** [State::process_worker_lost] *)
Fixpoint set_waiting_all (s : st) (ts : list tid) : res st :=
  match ts with
  | [] => Ok s
  | t :: r => do s' <- set_waiting_state s t; set_waiting_all s' r
  end.
Definition process_worker_lost (s : st) (w : wid) (running : list tid) (reason : N) : res st :=
  do s1 <- set_waiting_all s running;
  Ok (emit s1 (OEv (EvWLost w reason))).

(** * tako reactor *)

(** Build the compute entry of a task ([ComputeTasksBuilder]). *)
Definition ctask_of (t : task) (rv : option N) (nodes : list wid) : ctask :=
  mkCT (t_id t) (t_inst t) rv (t_rq t) (t_tlim t) nodes.

Definition core_of (s : st) : core := s_core (fst s).

(** Append [x] to the list kept for key [w] (insertion order of keys), as the
    `entry(w).or_default().push(x)` idiom does (the key order is not observable: one message per key). *)
Fixpoint group_add {A} (w : wid) (x : A) (l : list (wid * list A)) : list (wid * list A) :=
  match l with
  | [] => [(w, [x])]
  | (k, v) :: rest => if N.eqb k w then (k, v ++ [x]) :: rest else (k, v) :: group_add w x rest
  end.

(** [process_retracted]: the retracted ids are grouped per worker (one RetractTasks each). *)
Fixpoint retract_states (c : core) (ids : list tid) (acc : list (wid * list tid)) : res (core * list (wid * list tid)) :=
  match ids with
  | [] => Ok (c, acc)
  | id :: r =>
      do t <- get_task (c_tasks c) id;
      match t_state t with
      | Prefilled w =>
          do wk <- get_worker (c_workers c) w;
          do wk' <- remove_prefill_task wk id;
          let c' := upd_worker (upd_task c (with_state t (Retracting w))) wk' in
          retract_states c' r (group_add w id acc)
      | _ => Panic 161     (* unreachable!() *)
      end
  end.
Fixpoint send_all (s : st) (msgs : list (wid * dmsg)) : res st :=
  match msgs with
  | [] => Ok s
  | (w, m) :: r => do s' <- send_worker s w m; send_all s' r
  end.
Definition process_retracted (s : st) (retracted : list tid) : res st :=
  match retracted with
  | [] => Ok s
  | _ =>
      do (c', groups) <- retract_states (core_of s) retracted [];
      send_all (st_core s c') (map (fun g => (fst g, DRetract (snd g))) groups)
  end.

(** Transitive consumers ([Task::collect_recursive_consumers]); fuel = number of tasks. *)
Fixpoint collect_consumers (fuel : nat) (ts : list task) (frontier : list tid) (acc : list tid) : res (list tid) :=
  match frontier with
  | [] => Ok acc
  | id :: rest =>
      match fuel with
      | O => Ok acc
      | S k =>
          do t <- get_task ts id;
          let new := filter (fun c => negb (tid_mem c acc)) (t_consumers t) in
          collect_consumers k ts (rest ++ new) (tid_insert_all new acc)
      end
  end.
Definition recursive_consumers (ts : list task) (t : task) : res (list tid) :=
  collect_consumers (S (length ts) * S (length ts)) ts (t_consumers t) (tid_insert_all (t_consumers t) []).

(** [try_remove_redirection] (after the fix: a retracting task without a redirect is dequeued). *)
Definition try_remove_redirection (c : core) (t : task) : res core :=
  match find_redirect (c_redirects c) (t_id t) with
  | Some (w, rv) =>
      do wk <- get_worker (c_workers c) w;
      do rq <- get_rq (c_rqs c) (t_rq t);
      do wk' <- remove_sn_task wk (t_id t) (rq_res rq);
      Ok (upd_worker (with_redirects c (del_redirect (c_redirects c) (t_id t))) wk')
  | None =>
      do q <- nth_queue (c_queues c) (N.to_nat (t_rq t));
      do q' <- q_remove q (t_id t) (t_prio t);
      Ok (with_queues c (set_queue (c_queues c) (N.to_nat (t_rq t)) q'))
  end.

Fixpoint reset_mn_workers (c : core) (ws : list wid) (id : tid) : res core :=
  match ws with
  | [] => Ok c
  | w :: r =>
      do wk <- get_worker (c_workers c) w;
      match w_assign wk with
      | Mn t _ => if tid_eqb t id then reset_mn_workers (upd_worker c (reset_mn_task wk)) r id else Panic 162
      | Sn _ _ _ => Panic 162    (* worker.mn_assignment().unwrap() *)
      end
  end.

(** `for w_id in ws { worker_map.get_worker_mut(w_id).reset_mn_task() }` *)
Fixpoint reset_mn_all (c : core) (l : list wid) : res core :=
  match l with
  | [] => Ok c
  | w :: l' => do wk <- get_worker (c_workers c) w; reset_mn_all (upd_worker c (reset_mn_task wk)) l'
  end.

(** [on_cancel_tasks] *)
Fixpoint cancel_release (s : st) (ids : list tid) (to_unreg : list tid) (running : list (wid * list tid))
  : res (st * list tid * list (wid * list tid)) :=
  match ids with
  | [] => Ok (s, to_unreg, running)
  | id :: r =>
      let c := core_of s in
      match find_task (c_tasks c) id with
      | None => cancel_release s r to_unreg running
      | Some t =>
          do csm <- recursive_consumers (c_tasks c) t;
          let to_unreg' := tid_insert_all csm (tid_insert id to_unreg) in
          let add w (l : list (wid * list tid)) := group_add w id l in
          do rq <- get_rq (c_rqs c) (t_rq t);
          match t_state t with
          | Waiting _ => cancel_release (ask_scheduling s) r to_unreg' running
          | Assigned w _ | Running w _ =>
              do wk <- get_worker (c_workers c) w;
              do wk' <- remove_sn_task wk id (rq_res rq);
              cancel_release (ask_scheduling (st_core s (upd_worker c wk'))) r to_unreg' (add w running)
          | RunningMN ws =>
              do c' <- reset_mn_all c ws;
              match ws with
              | [] => Panic 163     (* ws[0] *)
              | w0 :: _ => cancel_release (ask_scheduling (st_core s c')) r to_unreg' (add w0 running)
              end
          | Retracting w =>
              do c' <- try_remove_redirection c t;
              cancel_release (ask_scheduling (st_core s c')) r to_unreg' (add w running)
          | Prefilled w =>
              do q <- nth_queue (c_queues c) (N.to_nat (t_rq t));
              do q' <- q_remove_prefilled q id;
              do wk <- get_worker (c_workers c) w;
              do wk' <- remove_prefill_task wk id;
              let c' := upd_worker (with_queues c (set_queue (c_queues c) (N.to_nat (t_rq t)) q')) wk' in
              cancel_release (st_core s c') r to_unreg' (add w running)
          | Finished => Panic 164
          end
      end
  end.

Fixpoint remove_tasks_batched (c : core) (ids : list tid) : res core :=
  match ids with
  | [] => Ok c
  | id :: r => do (c', _) <- remove_task c id; remove_tasks_batched c' r
  end.

Definition on_cancel_tasks (s : st) (ids : list tid) : res st :=
  do (s1, to_unreg, running) <- cancel_release s ids [] [];
  do c' <- remove_tasks_batched (core_of s1) to_unreg;
  send_all (st_core s1 c') (map (fun g => (fst g, DCancel (snd g))) running).

(** The dependents of a failed task are removed; each must still be Waiting. *)
Fixpoint remove_waiting_consumers (c : core) (l : list tid) : res core :=
  match l with
  | [] => Ok c
  | x :: l' =>
      do (c', stt) <- remove_task c x;
      match stt with Waiting _ => remove_waiting_consumers c' l' | _ => Panic 169 end
  end.

(** [task_failed]. [w] = reporting worker (None = crash limit after a worker loss). *)
Definition task_failed (s : st) (w : option wid) (id : tid) (k : failkind) : res st :=
  let c := core_of s in
  match find_task (c_tasks c) id with
  | None => Ok s
  | Some t =>
      do rq <- get_rq (c_rqs c) (t_rq t);
      do c1 <-
        match w with
        | Some wkr =>
            if rq_is_mn rq then
              match t_state t with
              | RunningMN ws =>
                  match ws with
                  | w0 :: _ => if N.eqb w0 wkr then reset_mn_workers c ws id else Panic 165
                  | [] => Panic 165
                  end
              | _ => Panic 166      (* task.mn_placement().unwrap() *)
              end
            else
              match t_state t with
              | Assigned w1 _ | Running w1 _ =>
                  if negb (N.eqb wkr w1) then Panic 167
                  else do wk <- get_worker (c_workers c) wkr;
                       do wk' <- remove_sn_task wk id (rq_res rq);
                       Ok (upd_worker c wk')
              | Prefilled w1 =>
                  if negb (N.eqb wkr w1) then Panic 167
                  else do q <- nth_queue (c_queues c) (N.to_nat (t_rq t));
                       do q' <- q_remove_prefilled q id;
                       do wk <- get_worker (c_workers c) wkr;
                       do wk' <- remove_prefill_task wk id;
                       Ok (upd_worker (with_queues c (set_queue (c_queues c) (N.to_nat (t_rq t)) q')) wk')
              | Retracting w1 =>
                  if negb (N.eqb wkr w1) then Panic 167 else try_remove_redirection c t
              | _ => Ok c
              end
        | None => if is_waiting t then Ok c else Panic 168
        end;
      do csm <- recursive_consumers (c_tasks c1) t;
      do c2 <- remove_waiting_consumers c1 csm;
      do (c3, stt) <- remove_task c2 id;
      do _ <- match w, stt with
              | Some _, (Assigned _ _ | Prefilled _ | Retracting _ | Running _ _ | RunningMN _) => Ok tt
              | None, Waiting _ => Ok tt
              | _, _ => Panic 170
              end;
      do (s1, cancel_ids) <- process_task_failed (st_core s c3) id csm k;
      match cancel_ids with
      | [] => Ok s1
      | _ => on_cancel_tasks s1 cancel_ids
      end
  end.

(** [task_finished] *)
Fixpoint wake_consumers (c : core) (csm : list tid) (retracted : list tid) : res (core * list tid) :=
  match csm with
  | [] => Ok (c, retracted)
  | x :: r =>
      do t <- get_task (c_tasks c) x;
      match t_state t with
      | Waiting n =>
          if N.eqb n 0 then Panic 171      (* decrease_unfinished_deps: panic!("Invalid state") *)
          else
            let t' := with_state t (Waiting (n - 1)) in
            let c1 := upd_task c t' in
            if N.eqb (n - 1) 0 then
              do (qs, ret) <- add_ready_task (c_queues c1) t';
              wake_consumers (with_queues c1 qs) r (retracted ++ ret)
            else wake_consumers c1 r retracted
      | _ => Panic 171
      end
  end.

Definition task_finished (s : st) (w : wid) (id : tid) : res (st * bool) :=
  let c := core_of s in
  match find_task (c_tasks c) id with
  | None => Ok (s, false)
  | Some t =>
      do rq <- get_rq (c_rqs c) (t_rq t);
      do c1 <-
        match t_state t with
        | Assigned w1 _ | Running w1 _ =>
            if negb (N.eqb w1 w) then Panic 172
            else do wk <- get_worker (c_workers c) w;
                 do wk' <- remove_sn_task wk id (rq_res rq);
                 Ok (upd_worker c wk')
        | RunningMN ws =>
            match ws with
            | w0 :: _ => if N.eqb w0 w then reset_mn_workers c ws id else Panic 172
            | [] => Panic 172
            end
        | Retracting w1 => if negb (N.eqb w1 w) then Panic 172 else try_remove_redirection c t
        | _ => Panic 173       (* unreachable!() *)
        end;
      let t1 := with_state t Finished in
      let c2 := upd_task c1 t1 in
      do s1 <- process_task_finished (st_core s c2) id;
      do (c3, retracted) <- wake_consumers (core_of s1) (t_consumers t1) [];
      do s2 <- process_retracted (st_core s1 c3) retracted;
      do (c4, stt) <- remove_task (core_of s2) id;
      match stt with
      | Finished => Ok (st_core s2 c4, true)
      | _ => Panic 174
      end
  end.

(** [task_running] *)
Definition task_running (s : st) (w : wid) (id : tid) (rv : N) : res (st * bool) :=
  let c := core_of s in
  match find_task (c_tasks c) id with
  | None => Ok (s, false)
  | Some t =>
      do rq <- get_rq (c_rqs c) (t_rq t);
      do (s1, ws) <-
        match t_state t with
        | Assigned w1 rv1 =>
            if negb (N.eqb w1 w) then Panic 175
            else if negb (N.eqb rv1 rv) then Panic 176
            else Ok (st_core s (upd_task c (with_state t (Running w rv))), [w])
        | Prefilled w1 =>
            if negb (N.eqb w1 w) then Panic 175
            else
              let c1 := upd_task c (with_state t (Running w rv)) in
              do wk <- get_worker (c_workers c1) w;
              do wk' <- task_from_prefilled_to_started wk id (rq_res rq);
              do q <- nth_queue (c_queues c1) (N.to_nat (t_rq t));
              do q' <- q_remove q id (t_prio t);
              Ok (st_core s (upd_worker (with_queues c1 (set_queue (c_queues c1) (N.to_nat (t_rq t)) q')) wk'), [w])
        | Retracting w1 =>
            if negb (N.eqb w1 w) then Panic 175
            else
              let s0 := ask_scheduling s in
              let c0 := core_of s0 in
              do c1 <- try_remove_redirection c0 t;
              let c2 := upd_task c1 (with_state t (Running w rv)) in
              do wk <- get_worker (c_workers c2) w;
              do wk' <- insert_sn_task wk id (rq_res rq);
              Ok (st_core s0 (upd_worker c2 wk'), [w])
        | RunningMN ws =>
            match ws with
            | w0 :: _ => if N.eqb w0 w then Ok (s, ws) else Panic 177
            | [] => Panic 177
            end
        | _ => Panic 178        (* unreachable!() *)
        end;
      do s2 <- process_task_started s1 id (t_inst t) ws rv;
      Ok (s2, false)
  end.

(** [task_reject] *)
Definition task_reject (s : st) (w : wid) (id : tid) (rv : option N) : res (st * bool) :=
  let c := core_of s in
  match find_task (c_tasks c) id with
  | None => Ok (s, false)
  | Some t =>
      do wk <- get_worker (c_workers c) w;
      let wk1 := match rv with
                 | Some v => if nn_mem (t_rq t, v) (w_blocked wk) then wk else with_blocked wk (nn_insert (t_rq t, v) (w_blocked wk))
                 | None => wk
                 end in
      let c0 := upd_worker c wk1 in
      do rq <- get_rq (c_rqs c) (t_rq t);
      do r <-
        match t_state t with
        | Assigned w1 rv1 =>
            if negb (N.eqb w w1) then Ok (c0, true)
            else match rv with
                 | Some v =>
                     if N.eqb v rv1 then do wk' <- remove_sn_task wk1 id (rq_res rq); Ok (upd_worker c0 wk', true)
                     else Ok (c0, true)
                 | None => Ok (c0, true)
                 end
        | Prefilled w1 =>
            do wk' <- remove_prefill_task wk1 id;
            do q <- nth_queue (c_queues c0) (N.to_nat (t_rq t));
            do q' <- q_remove_prefilled q id;
            Ok (upd_worker (with_queues c0 (set_queue (c_queues c0) (N.to_nat (t_rq t)) q')) wk', true)
        | Retracting w1 =>
            if negb (N.eqb w w1) then Ok (c0, false)
            else Ok (c0, true)
        | _ => Panic 179     (* unreachable!() *)
        end;
      let '(c1, continue) := r in
      match t_state t, continue with
      | Retracting w1, false => Ok (st_core s c1, false)
      | Retracting w1, true =>
          match find_redirect (c_redirects c1) id with
          | Some (target, rvt) =>
              let t' := with_state t (Assigned target rvt) in
              let c2 := upd_task (with_redirects c1 (del_redirect (c_redirects c1) id)) t' in
              do s' <- send_worker (st_core s c2) target (DCompute [ctask_of t' (Some rvt) []]);
              Ok (s', false)
          | None =>
              let t' := with_state t (Waiting 0) in
              do (qs, ret) <- add_ready_task (c_queues c1) t';
              do s' <- process_retracted (st_core s (with_queues (upd_task c1 t') qs)) ret;
              Ok (s', true)
          end
      | _, _ =>
          let t' := with_state t (Waiting 0) in
          do (qs, ret) <- add_ready_task (c_queues c1) t';
          do s' <- process_retracted (st_core s (with_queues (upd_task c1 t') qs)) ret;
          Ok (s', true)
      end
  end.

(** [request_enabled] *)
Definition request_enabled (s : st) (w : wid) (rq rv : N) : res st :=
  do wk <- get_worker (c_workers (core_of s)) w;
  Ok (st_core s (upd_worker (core_of s) (with_blocked wk (nn_remove (rq, rv) (w_blocked wk))))).

(** [on_task_update] *)
Fixpoint apply_updates (s : st) (w : wid) (us : list wupdate) (need : bool) : res (st * bool) :=
  match us with
  | [] => Ok (s, need)
  | u :: r =>
      do (s', n') <-
        match u with
        | UFinished t => task_finished s w t
        | UFailed t k => do s' <- task_failed s (Some w) t k; Ok (s', true)
        | URunning t rv | URunningPrefilled t rv => task_running s w t rv
        | UReject t rv => task_reject s w t rv
        | UEnable rq rv => do s' <- request_enabled s w rq rv; Ok (s', true)
        end;
      apply_updates s' w r (need || n')
  end.
Definition on_task_update (s : st) (w : wid) (us : list wupdate) : res st :=
  (* after the repair of the lost wake-up F30: the pair only counts as a prefill update if the
     started task is still known to the server (evaluated BEFORE the updates are applied) *)
  let is_prefill_update :=
      match us with
      | [UFinished _; URunningPrefilled t' _] =>
          match find_task (c_tasks (core_of s)) t' with Some _ => true | None => false end
      | _ => false
      end in
  do (s', need) <- apply_updates s w us false;
  if need && negb is_prefill_update then Ok (ask_scheduling s') else Ok s'.

(** [on_retract_response] (after the fix: unknown tasks are skipped) *)
Fixpoint retract_response_states (c : core) (w : wid) (ids : list tid) (acc : list (wid * list (tid * N)))
  : core * list (wid * list (tid * N)) :=
  match ids with
  | [] => (c, acc)
  | id :: r =>
      match find_task (c_tasks c) id with
      | None => retract_response_states c w r acc
      | Some t =>
          match t_state t with
          | Retracting w1 =>
              if N.eqb w w1 then
                match find_redirect (c_redirects c) id with
                | Some (target, rv) =>
                    let c' := upd_task (with_redirects c (del_redirect (c_redirects c) id)) (with_state t (Assigned target rv)) in
                    retract_response_states c' w r (group_add target (id, rv) acc)
                | None => retract_response_states (upd_task c (with_state t (Waiting 0))) w r acc
                end
              else retract_response_states c w r acc
          | _ => retract_response_states c w r acc
          end
      end
  end.
Fixpoint ctasks_of (c : core) (l : list (tid * N)) : res (list ctask) :=
  match l with
  | [] => Ok []
  | (id, rv) :: l' => do t <- get_task (c_tasks c) id; do rest <- ctasks_of c l'; Ok (ctask_of t (Some rv) [] :: rest)
  end.
Fixpoint send_redirected (s : st) (gs : list (wid * list (tid * N))) : res st :=
  match gs with
  | [] => Ok s
  | (target, ts) :: r =>
      do cts <- ctasks_of (core_of s) ts;
      do s' <- send_worker s target (DCompute cts);
      send_redirected s' r
  end.
(** [on_retract_response] wakes the scheduler (repair of the lost wake-up F31) when a task went back to
    Waiting, or when the worker is free again after the last resolved retraction. *)
Definition retract_valid (c : core) (w : wid) (id : tid) : bool :=
  match find_task (c_tasks c) id with
  | Some t => match t_state t with Retracting w1 => N.eqb w w1 | _ => false end
  | None => false
  end.
Definition retract_wakes (c c' : core) (w : wid) (ids : list tid) : bool :=
  existsb (fun id => retract_valid c w id && match find_redirect (c_redirects c) id with None => true | Some _ => false end) ids
  || (existsb (retract_valid c w) ids
      && match find_worker (c_workers c') w with
         | Some sw => worker_is_free sw
                      && negb (existsb (fun t => match t_state t with Retracting w1 => N.eqb w1 w | _ => false end) (c_tasks c'))
         | None => false
         end).
Definition on_retract_response (s : st) (w : wid) (ids : list tid) : res st :=
  let '(c', groups) := retract_response_states (core_of s) w ids [] in
  do s' <- send_redirected (st_core s c') groups;
  if retract_wakes (core_of s) c' w ids then Ok (ask_scheduling s') else Ok s'.
