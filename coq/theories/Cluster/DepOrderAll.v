(** C03 across a restart, part 7: the theorems under the STATIC hypothesis [ops_ok] (NoFresh.v)
    instead of the executable [run_fresh], non-vacuity witnesses, and the monitor on a wrong order.

    Summary of the DepOrder*.v files (property C03, item "restart"):
    - [DepOrderStep.step_dep_closed]   one operation from a state with the proved invariants [INV];
    - [DepOrderRun.history_dep_closed] every history, w.r.t. the edges the core keeps in any state;
    - [DepOrderJournal.journal_dep_closed_run] the executable monitor [Monitors.journal_dep_closed]
      (raw dependency lists of the accepted submits) accepts every history. *)
From HQ Require Import Base.Prelude Cluster.Types Cluster.Core Cluster.Reactor Cluster.Worker Cluster.Server Cluster.Sys Cluster.Monitors Cluster.RejHyp Cluster.BijFinal Cluster.InvBundle Cluster.NoPanicU0 Cluster.NoFresh Cluster.ProofsOnce Cluster.DepOrderBase Cluster.DepOrderReact Cluster.DepOrderStep Cluster.DepOrderRun Cluster.DepOrderJournal.
From Coq Require Import ZArith.
Local Open Scope N_scope.

Lemma run_items_to_run ops : forall s s' items, run_items s ops = Ok (s', items) -> exists outs, run s ops = Ok (s', outs).
Proof.
  induction ops as [|o r IH]; cbn [run run_items]; intros s s' items H; [inversion H; subst; eexists; reflexivity|].
  apply bind_ok in H. destruct H as ([s1 o1] & H1 & H). apply bind_ok in H. destruct H as ([s2 i2] & H2 & H). inversion H; subst.
  destruct (IH _ _ _ H2) as (o2 & Ho). rewrite H1. cbn [bind]. rewrite Ho. cbn [bind]. eexists; reflexivity.
Qed.

(** * Robustness of the item list
    The monitor ignores every item that is neither an event nor a submit, and a submitted task
    without dependencies contributes nothing.  So the verdict does not depend on how the other
    items are interleaved, nor on which ids an array submit (no dependencies) is reported with -
    the two points where [items_of_step] is simpler than the driver. *)
Definition jrelevant (i : item) : bool := match i with IEv _ | ISubmitted _ _ => true | _ => false end.

Lemma jdc_filter tr : forall D T, journal_dep_closed D T tr = journal_dep_closed D T (filter jrelevant tr).
Proof.
  induction tr as [|i r IH]; intros D T; [reflexivity|].
  destruct i as [e| | | | | | | |j ts]; cbn [filter jrelevant journal_dep_closed]; try apply IH.
  destruct e; cbn [journal_dep_closed]; try apply IH; f_equal; apply IH.
Qed.

Lemma forallb_ext' {A} (f g : A -> bool) l : (forall x, f x = g x) -> forallb f l = forallb g l.
Proof. intros E. induction l as [|h t IH]; [reflexivity|]. cbn [forallb]. rewrite E, IH. reflexivity. Qed.

Lemma dependents_drop D1 D2 x t : dependents_of (D1 ++ (x, []) :: D2) t = dependents_of (D1 ++ D2) t.
Proof. unfold dependents_of. rewrite !filter_app, !map_app. reflexivity. Qed.

Lemma jdc_drop_nodeps tr : forall D1 D2 T x,
  journal_dep_closed (D1 ++ (x, []) :: D2) T tr = journal_dep_closed (D1 ++ D2) T tr.
Proof.
  induction tr as [|i r IH]; intros D1 D2 T x; [reflexivity|].
  destruct i as [e| | | | | | | |j ts]; cbn [journal_dep_closed]; try apply IH.
  - destruct e; cbn [journal_dep_closed]; try apply IH.
    + rewrite dependents_drop. f_equal. apply IH.
    + f_equal; [|apply IH]. apply forallb_ext'. intros t. rewrite dependents_drop. reflexivity.
    + f_equal; [|apply IH]. apply forallb_ext'. intros t. rewrite dependents_drop. reflexivity.
  - rewrite !app_assoc. apply IH.
Qed.

Lemma jdc_array_item ids : forall j D T tr,
  journal_dep_closed D T (ISubmitted j (map (fun i => (i, [])) ids) :: tr) = journal_dep_closed D T tr.
Proof.
  intros j D T tr. cbn [journal_dep_closed]. induction ids as [|i r IH]; [reflexivity|].
  cbn [map app fst snd]. etransitivity; [exact (jdc_drop_nodeps tr [] _ T (j, i)) | exact IH].
Qed.

Section Static.
Variables (ops : list op) (reserve maxfill : N).
Hypothesis Hwf : Forall op_wf ops.
Hypothesis Hok : ops_ok (init_sys reserve maxfill) ops = true.

(** Every history: the journal is dependency-closed w.r.t. the edges the core keeps in any state. *)
Theorem history_dep_closed_ops s outs :
  run (init_sys reserve maxfill) ops = Ok (s, outs) ->
  forall pre e post t, outs = pre ++ OEv e :: post -> In t (kill_ids (OEv e)) ->
  forall ops1 ops2 s1 outs1 x tx, ops = ops1 ++ ops2 -> run (init_sys reserve maxfill) ops1 = Ok (s1, outs1) ->
    find_task (c_tasks (s_core s1)) x = Some tx -> In t (t_deps tx) ->
    In x (terminal_ids (pre ++ [OEv e])).
Proof.
  intros H. exact (history_dep_closed ops reserve maxfill s outs Hwf (fresh_of_ops _ _ _ _ _ Hwf Hok H) H).
Qed.

(** Every history: the executable monitor accepts its items. *)
Theorem journal_dep_closed_run_ops s items :
  run_items (init_sys reserve maxfill) ops = Ok (s, items) -> journal_dep_closed [] [] items = true.
Proof.
  intros H. destruct (run_items_to_run _ _ _ _ H) as (outs & Hr).
  exact (journal_dep_closed_run ops reserve maxfill s items Hwf (fresh_of_ops _ _ _ _ _ Hwf Hok Hr) H).
Qed.

(** ... and so does any item list with the same events and submits. *)
Corollary journal_dep_closed_robust s items tr :
  run_items (init_sys reserve maxfill) ops = Ok (s, items) ->
  filter jrelevant tr = filter jrelevant items -> journal_dep_closed [] [] tr = true.
Proof. intros H E. rewrite jdc_filter, E, <- jdc_filter. eapply journal_dep_closed_run_ops; exact H. Qed.
End Static.

(** * Non-vacuity *)

(** A chain (1,0) <- (1,1) <- (1,2) and an independent task (1,3); (1,0) fails on its worker. *)
Definition dep_rq : rqdef := mkRq 0 [10000; 0; 0].
Definition dep_ops : list op :=
  [OpConnect [20000; 0; 0] 0;
   OpSubmitG None [dep_rq] [(0, 0, 0%Z, CMax 3, []); (1, 0, 0%Z, CMax 3, [0]); (2, 0, 0%Z, CMax 3, [1]); (3, 0, 0%Z, CMax 3, [])] None;
   OpSched (mkSol [(0, 0, [(1, 2)])] [] [1] []);
   OpDDown 1 []; OpDDown 1 []; OpDUp 1; OpEnd 1 (1, 0) EndFail].

(** The hypotheses of [step_dep_closed] hold in the state before the failure is processed, the
    step emits the dependents' abort BEFORE the failure, and the core had the edges. *)
Example step_dep_closed_example :
  Forall op_wf dep_ops /\ run_fresh (init_sys 0 2) dep_ops = true /\ ops_ok (init_sys 0 2) dep_ops = true /\
  exists s outs s' t1 t2,
    run (init_sys 0 2) dep_ops = Ok (s, outs) /\ INV s /\
    step s (OpDUp 1) = Ok (s', [OUp 1 (UUpdates [UFailed (1, 0) FTask]); OEv (EvAborted [(1, 1); (1, 2)]); OEv (EvFailed (1, 0) FTask)]) /\
    find_task (c_tasks (s_core s)) (1, 1) = Some t1 /\ t_deps t1 = [(1, 0)] /\
    find_task (c_tasks (s_core s)) (1, 2) = Some t2 /\ t_deps t2 = [(1, 1)].
Proof.
  assert (Hwf : Forall op_wf dep_ops) by (repeat constructor).
  assert (Hf : run_fresh (init_sys 0 2) dep_ops = true) by (vm_compute; reflexivity).
  split; [exact Hwf|]. split; [exact Hf|]. split; [vm_compute; reflexivity|].
  destruct (run (init_sys 0 2) dep_ops) as [[s outs]| |] eqn:Er; [|vm_compute in Er; discriminate | vm_compute in Er; discriminate].
  pose proof (reachable_INV _ _ _ _ _ Hwf Hf Er) as HI.
  vm_compute in Er. inversion Er; subst s outs. clear Er.
  do 5 eexists. split; [reflexivity|]. split; [exact HI|].
  split; [vm_compute; reflexivity|]. split; [vm_compute; reflexivity|]. split; [reflexivity|]. split; [vm_compute; reflexivity | reflexivity].
Qed.

(** The whole history and its items; the monitor accepts them. *)
Example journal_dep_closed_example :
  exists s items, run_items (init_sys 0 2) (dep_ops ++ [OpDUp 1]) = Ok (s, items) /\
    In (ISubmitted 1 [(0, []); (1, [0]); (2, [1]); (3, [])]) items /\
    (exists a b c, items = a ++ IEv (EvAborted [(1, 1); (1, 2)]) :: b ++ IEv (EvFailed (1, 0) FTask) :: c) /\
    journal_dep_closed [] [] items = true.
Proof.
  do 2 eexists. split; [vm_compute; reflexivity|]. split; [vm_compute; tauto|].
  split; [|vm_compute; reflexivity].
  eexists (_ :: _ :: _ :: _ :: _ :: _ :: _ :: []), [], []. reflexivity.
Qed.

(** The monitor is not trivially true: the seeded bug "TaskFailed journalled before TasksAborted"
    and an abort that misses the transitive dependent are both rejected. *)
Example journal_dep_closed_rejects :
  journal_dep_closed [] [] [ISubmitted 1 [(0, []); (1, [0]); (2, [1])]; IEv (EvFailed (1, 0) FTask); IEv (EvAborted [(1, 1); (1, 2)])] = false
  /\ journal_dep_closed [] [] [ISubmitted 1 [(0, []); (1, [0]); (2, [1])]; IEv (EvAborted [(1, 1)]); IEv (EvFailed (1, 0) FTask)] = false
  /\ journal_dep_closed [] [] [ISubmitted 1 [(0, []); (1, [0]); (2, [1])]; IEv (EvAborted [(1, 1); (1, 2)]); IEv (EvFailed (1, 0) FTask)] = true.
Proof. vm_compute. repeat split; reflexivity. Qed.

(** The same for the proposition [jc] the theorems are stated with. *)
Example jc_rejects :
  let Dep : deprel := fun x t => (x = (1, 1) /\ t = (1, 0)) in
  ~ jc Dep NoT [OEv (EvFailed (1, 0) FTask); OEv (EvAborted [(1, 1)])] /\
  jc Dep NoT [OEv (EvAborted [(1, 1)]); OEv (EvFailed (1, 0) FTask)].
Proof.
  intros Dep. split.
  - intros [H _]. destruct (H (1, 0) (1, 1) (or_introl eq_refl) (conj eq_refl eq_refl)) as [[E|[]]|[]]. discriminate.
  - cbn [jc]. split; [|split; [|exact I]].
    + intros t x [<-|[]] [_ E]. discriminate.
    + intros t x [<-|[]] [-> _]. right. left. left. reflexivity.
Qed.

Print Assumptions history_dep_closed_ops.
Print Assumptions journal_dep_closed_run_ops.
