(** C05, accounting conjunct, part 2: the reactor.  Every reactor function keeps [AI rqf]
    (all workers accounted against the ghost, every task's request is what the ghost says) -
    unconditionally, EXCEPT [task_running], which needs "the subtraction does not saturate"
    ([running_fits], the negation of finding F23). *)
From HQ Require Import Base.Prelude Cluster.Types Cluster.Core Cluster.Reactor Cluster.Worker Cluster.Server Cluster.Sys Cluster.Monitors Cluster.ProofsJob Cluster.ProofsStep Cluster.BijBase Cluster.BijCore Cluster.BijHq Cluster.BijSt Cluster.CrashFrame Cluster.RejHyp Cluster.InvWBase Cluster.InvWCore Cluster.InvWX1 Cluster.AcctBase.
From Coq Require Import ZArith Lia.
Local Open Scope N_scope.

Arguments N.add : simpl never.
Arguments N.sub : simpl never.

Definition AIS (rqf : tid -> list N) (rqs : list rqdef) (s : st) : Prop := AI rqf rqs (core_of s).

Ltac bstep H x Hx := apply bind_ok in H; destruct H as (x & Hx & H).

(** Frame: only workers, tasks and the request table matter. *)
Ltac ai_frame := eapply AI_frame; [reflexivity | reflexivity | reflexivity | ].

(** * The "no saturation" condition of [task_running] (not F23) *)
Definition running_fits (s : st) (w : wid) (id : tid) : bool :=
  let c := core_of s in
  match find_task (c_tasks c) id with
  | Some t =>
      match t_state t with
      | Prefilled _ =>
          match find_worker (c_workers c) w with Some wk => wfits wk (request_of c id) | None => true end
      | Retracting _ =>
          (* the redirect of the task, if any, is undone first (that may give resources back to [w]) *)
          match try_remove_redirection (with_flag c true) t with
          | Ok c1 => match find_worker (c_workers c1) w with Some wk => wfits wk (request_of c id) | None => true end
          | _ => true
          end
      | _ => true
      end
  | None => true
  end.

(** * Retraction *)
Lemma retract_states_AI rqf rqs ids : forall c acc c' acc', AI rqf rqs c -> retract_states c ids acc = Ok (c', acc') -> AI rqf rqs c'.
Proof.
  induction ids as [|id r IH]; cbn [retract_states]; intros c acc c' acc' HA H; [inversion H; subst; exact HA|].
  bstep H t Ht. apply get_task_find in Ht. destruct (t_state t) eqn:Est; try discriminate.
  bstep H wk Hw. bstep H wk' Hw'. eapply IH; [|exact H].
  apply AI_upd_worker; [eapply AI_upd_same; [exact HA | exact Ht | reflexivity | reflexivity]|].
  eapply accw_remove_prefill; [eapply ACCW_get; [exact (AI_workers _ _ _ HA) | exact Hw] | exact Hw'].
Qed.

Lemma process_retracted_AI rqf rqs s r s' : AIS rqf rqs s -> process_retracted s r = Ok s' -> AIS rqf rqs s'.
Proof.
  unfold process_retracted, AIS. intros HA H. destruct r; [inversion H; subst; exact HA|].
  bstep H x Hx. destruct x as [c' groups]. rewrite (send_all_core _ _ _ H). cbn.
  eapply retract_states_AI; [exact HA | exact Hx].
Qed.

(** * Redirects, multi-node reset *)
Lemma try_remove_redirection_AI rqf rqs c t c' :
  AI rqf rqs c -> lk rqs (t_rq t) = rqf (t_id t) -> try_remove_redirection c t = Ok c' -> AI rqf rqs c'.
Proof.
  unfold try_remove_redirection. intros HA Hl H. destruct (find_redirect (c_redirects c) (t_id t)) as [[w rv]|].
  - bstep H wk Hw. bstep H rq Hrq. bstep H wk' Hw'. inversion H; subst; clear H.
    apply AI_upd_worker; [ai_frame; exact HA|].
    eapply accw_remove; [eapply ACCW_get; [exact (AI_workers _ _ _ HA) | exact Hw] | exact Hw' |].
    rewrite <- (get_rq_lk _ _ _ Hrq), (AI_rqs _ _ _ HA). exact Hl.
  - bstep H q Hq. bstep H q' Hq'. inversion H; subst; clear H. ai_frame. exact HA.
Qed.

Lemma reset_mn_all_AI rqf rqs l : forall c c', AI rqf rqs c -> reset_mn_all c l = Ok c' -> AI rqf rqs c'.
Proof.
  induction l as [|w r IH]; cbn [reset_mn_all]; intros c c' HA H; [inversion H; subst; exact HA|].
  bstep H wk Hw. eapply IH; [|exact H]. apply AI_upd_worker; [exact HA | apply accw_reset].
Qed.

Lemma reset_mn_workers_AI rqf rqs l c id c' : AI rqf rqs c -> reset_mn_workers c l id = Ok c' -> AI rqf rqs c'.
Proof. intros HA H. eapply reset_mn_all_AI; [exact HA | eapply reset_mn_workers_all; exact H]. Qed.

(** * Removing tasks *)
Lemma rcf_TL rqf rqs deps : forall ts cid ts', TL rqf rqs ts -> remove_consumer_from ts deps cid = Ok ts' -> TL rqf rqs ts'.
Proof.
  induction deps as [|d r IH]; cbn [remove_consumer_from]; intros ts cid ts' HT H; [inversion H; subst; exact HT|].
  destruct (find_task ts d) as [input|] eqn:Ef; [|eapply IH; eassumption].
  destruct (tid_mem cid (t_consumers input)); [|discriminate].
  eapply IH; [|exact H]. apply TL_set; [exact HT|].
  cbn [t_rq t_id with_consumers]. apply HT. apply (find_task_some _ _ _ Ef).
Qed.

Lemma remove_task_AI rqf rqs c id c' stt : AI rqf rqs c -> remove_task c id = Ok (c', stt) -> AI rqf rqs c'.
Proof.
  unfold remove_task. intros (A & R & C) H. destruct (find_task (c_tasks c) id) as [t|] eqn:Ef; [|discriminate].
  pose proof (TL_del _ _ _ id C) as C1.
  destruct (t_state t) as [n| | | | | |]; try (injection H as <- <-; split; [exact A | split; [exact R | exact C1]]).
  bstep H c2 H2.
  assert (E2 : c_workers c2 = c_workers c /\ c_rqs c2 = c_rqs c /\ c_tasks c2 = del_task (c_tasks c) id).
  { destruct (N.eqb n 0); [bstep H2 q Hq; bstep H2 q' Hq'|]; inversion H2; subst; auto. }
  destruct E2 as (Ew & Er & Et).
  destruct (N.ltb 0 n).
  - bstep H ts Hts. inversion H; subst; clear H. split; [cbn; rewrite Ew; exact A|]. split; [cbn; exact Er|].
    cbn [c_tasks with_tasks]. eapply rcf_TL; [|exact Hts]. rewrite Et. exact C1.
  - inversion H; subst; clear H. split; [rewrite Ew; exact A|]. split; [exact Er | rewrite Et; exact C1].
Qed.

Lemma remove_tasks_batched_AI rqf rqs ids : forall c c', AI rqf rqs c -> remove_tasks_batched c ids = Ok c' -> AI rqf rqs c'.
Proof.
  induction ids as [|id r IH]; cbn [remove_tasks_batched]; intros c c' HA H; [inversion H; subst; exact HA|].
  bstep H x Hx. destruct x as [c1 st1]. eapply IH; [|exact H]. eapply remove_task_AI; eassumption.
Qed.

Lemma remove_waiting_consumers_AI rqf rqs l : forall c c', AI rqf rqs c -> remove_waiting_consumers c l = Ok c' -> AI rqf rqs c'.
Proof.
  induction l as [|x r IH]; cbn [remove_waiting_consumers]; intros c c' HA H; [inversion H; subst; exact HA|].
  bstep H y Hy. destruct y as [c1 st1]. destruct st1; try discriminate. eapply IH; [|exact H]. eapply remove_task_AI; eassumption.
Qed.

(** * Cancel *)
Lemma ask_scheduling_AI rqf rqs s : AIS rqf rqs s -> AIS rqf rqs (ask_scheduling s).
Proof. unfold AIS. intros HA. cbn. ai_frame. exact HA. Qed.

Lemma cancel_release_AI rqf rqs ids : forall s tu ru s' tu' ru',
  AIS rqf rqs s -> cancel_release s ids tu ru = Ok (s', tu', ru') -> AIS rqf rqs s'.
Proof.
  induction ids as [|id r IH]; intros s tu ru s' tu' ru' HA H; [cbn in H; inversion H; subst; exact HA|].
  cbn [cancel_release] in H. cbv zeta in H.
  destruct (find_task (c_tasks (core_of s)) id) as [t|] eqn:Ef; [|eapply IH; eassumption].
  bstep H csm Hcsm. bstep H rq Hrq.
  pose proof (AI_get_rq _ _ _ _ _ _ HA Ef Hrq) as Erq.
  destruct (t_state t) as [n|w rv|w|w|w rv|ws|] eqn:Est.
  - eapply IH; [|exact H]. apply ask_scheduling_AI. exact HA.
  - bstep H wk Hw. bstep H wk' Hw'. eapply IH; [|exact H]. apply ask_scheduling_AI. unfold AIS. cbn.
    apply AI_upd_worker; [exact HA|]. eapply accw_remove; [eapply ACCW_get; [exact (AI_workers _ _ _ HA) | exact Hw] | exact Hw' | exact Erq].
  - bstep H q Hq. bstep H q' Hq'. bstep H wk Hw. bstep H wk' Hw'. eapply IH; [|exact H]. unfold AIS. cbn.
    apply AI_upd_worker; [ai_frame; exact HA|]. eapply accw_remove_prefill; [eapply ACCW_get; [exact (AI_workers _ _ _ HA) | exact Hw] | exact Hw'].
  - bstep H c1 Hc1. eapply IH; [|exact H]. apply ask_scheduling_AI. unfold AIS. cbn.
    eapply try_remove_redirection_AI; [exact HA | | exact Hc1]. apply (AI_find _ _ _ _ _ HA Ef).
  - bstep H wk Hw. bstep H wk' Hw'. eapply IH; [|exact H]. apply ask_scheduling_AI. unfold AIS. cbn.
    apply AI_upd_worker; [exact HA|]. eapply accw_remove; [eapply ACCW_get; [exact (AI_workers _ _ _ HA) | exact Hw] | exact Hw' | exact Erq].
  - bstep H c1 Hc1. destruct ws as [|w0 wr]; [discriminate|]. eapply IH; [|exact H]. apply ask_scheduling_AI. unfold AIS. cbn.
    eapply reset_mn_all_AI; [exact HA | exact Hc1].
  - discriminate.
Qed.

Lemma on_cancel_tasks_AI rqf rqs s ids s' : AIS rqf rqs s -> on_cancel_tasks s ids = Ok s' -> AIS rqf rqs s'.
Proof.
  unfold on_cancel_tasks. intros HA H. bstep H x Hx. destruct x as [[s1 tu] ru]. bstep H c1 Hc1.
  unfold AIS. rewrite (send_all_core _ _ _ H). cbn.
  eapply remove_tasks_batched_AI; [|exact Hc1]. eapply cancel_release_AI; [exact HA | exact Hx].
Qed.

(** * Failure *)
Lemma task_failed_AI rqf rqs s w id k s' : AIS rqf rqs s -> task_failed s w id k = Ok s' -> AIS rqf rqs s'.
Proof.
  unfold task_failed. intros HA H. destruct (find_task (c_tasks (core_of s)) id) as [t|] eqn:Ef; [|inversion H; subst; exact HA].
  bstep H rq Hrq. pose proof (AI_get_rq _ _ _ _ _ _ HA Ef Hrq) as Erq.
  pose proof (proj1 (AI_find _ _ _ _ _ HA Ef)) as Elk.
  bstep H c1 Hc1.
  assert (A1 : AI rqf rqs c1).
  { destruct w as [wkr|].
    - destruct (rq_is_mn rq).
      + destruct (t_state t) as [n|w1 rv|w1|w1|w1 rv|ws|]; try discriminate.
        destruct ws as [|w0 wr]; [discriminate|]. destruct (N.eqb w0 wkr); [|discriminate].
        eapply reset_mn_workers_AI; [exact HA | exact Hc1].
      + destruct (t_state t) as [n|w1 rv|w1|w1|w1 rv|ws|]; try (inversion Hc1; subst; exact HA).
        * destruct (negb (N.eqb wkr w1)); [discriminate|]. bstep Hc1 wk Hw. bstep Hc1 wk' Hw'. inversion Hc1; subst.
          apply AI_upd_worker; [exact HA|]. eapply accw_remove; [eapply ACCW_get; [exact (AI_workers _ _ _ HA) | exact Hw] | exact Hw' | exact Erq].
        * destruct (negb (N.eqb wkr w1)); [discriminate|]. bstep Hc1 q Hq. bstep Hc1 q' Hq'. bstep Hc1 wk Hw. bstep Hc1 wk' Hw'. inversion Hc1; subst.
          apply AI_upd_worker; [ai_frame; exact HA|]. eapply accw_remove_prefill; [eapply ACCW_get; [exact (AI_workers _ _ _ HA) | exact Hw] | exact Hw'].
        * destruct (negb (N.eqb wkr w1)); [discriminate|]. eapply try_remove_redirection_AI; [exact HA | exact Elk | exact Hc1].
        * destruct (negb (N.eqb wkr w1)); [discriminate|]. bstep Hc1 wk Hw. bstep Hc1 wk' Hw'. inversion Hc1; subst.
          apply AI_upd_worker; [exact HA|]. eapply accw_remove; [eapply ACCW_get; [exact (AI_workers _ _ _ HA) | exact Hw] | exact Hw' | exact Erq].
    - destruct (is_waiting t); [|discriminate]. inversion Hc1; subst. exact HA. }
  bstep H csm Hcsm. bstep H c2 Hc2. bstep H x Hx. destruct x as [c3 stt]. bstep H u Hu. bstep H y Hy. destruct y as [s1 cancel_ids].
  assert (A3 : AI rqf rqs c3) by (eapply remove_task_AI; [eapply remove_waiting_consumers_AI; [exact A1 | exact Hc2] | exact Hx]).
  assert (A4 : AIS rqf rqs s1) by (unfold AIS; rewrite (process_task_failed_core _ _ _ _ _ _ Hy); exact A3).
  destruct cancel_ids; [inversion H; subst; exact A4|]. eapply on_cancel_tasks_AI; [exact A4 | exact H].
Qed.

(** * Finish *)
Lemma wake_consumers_AI rqf rqs csm : forall c ret c' ret', AI rqf rqs c -> wake_consumers c csm ret = Ok (c', ret') -> AI rqf rqs c'.
Proof.
  induction csm as [|x r IH]; cbn [wake_consumers]; intros c ret c' ret' HA H; [inversion H; subst; exact HA|].
  bstep H t Ht. apply get_task_find in Ht. destruct (t_state t) as [n| | | | | |]; try discriminate.
  destruct (N.eqb n 0); [discriminate|].
  assert (A1 : AI rqf rqs (upd_task c (with_state t (Waiting (n - 1))))) by (eapply AI_upd_same; [exact HA | exact Ht | reflexivity | reflexivity]).
  destruct (N.eqb (n - 1) 0).
  - bstep H qr Hqr. destruct qr as [qs rt]. eapply IH; [|exact H]. ai_frame. exact A1.
  - eapply IH; [exact A1 | exact H].
Qed.

Lemma task_finished_AI rqf rqs s w id s' b : AIS rqf rqs s -> task_finished s w id = Ok (s', b) -> AIS rqf rqs s'.
Proof.
  unfold task_finished. intros HA H. destruct (find_task (c_tasks (core_of s)) id) as [t|] eqn:Ef; [|inversion H; subst; exact HA].
  bstep H rq Hrq. pose proof (AI_get_rq _ _ _ _ _ _ HA Ef Hrq) as Erq.
  pose proof (proj1 (AI_find _ _ _ _ _ HA Ef)) as Elk.
  bstep H c1 Hc1.
  assert (A1 : AI rqf rqs c1).
  { destruct (t_state t) as [n|w1 rv|w1|w1|w1 rv|ws|]; try discriminate.
    - destruct (negb (N.eqb w1 w)); [discriminate|]. bstep Hc1 wk Hw. bstep Hc1 wk' Hw'. inversion Hc1; subst.
      apply AI_upd_worker; [exact HA|]. eapply accw_remove; [eapply ACCW_get; [exact (AI_workers _ _ _ HA) | exact Hw] | exact Hw' | exact Erq].
    - destruct (negb (N.eqb w1 w)); [discriminate|]. eapply try_remove_redirection_AI; [exact HA | exact Elk | exact Hc1].
    - destruct (negb (N.eqb w1 w)); [discriminate|]. bstep Hc1 wk Hw. bstep Hc1 wk' Hw'. inversion Hc1; subst.
      apply AI_upd_worker; [exact HA|]. eapply accw_remove; [eapply ACCW_get; [exact (AI_workers _ _ _ HA) | exact Hw] | exact Hw' | exact Erq].
    - destruct ws as [|w0 wr]; [discriminate|]. destruct (N.eqb w0 w); [|discriminate]. eapply reset_mn_workers_AI; [exact HA | exact Hc1]. }
  cbv zeta in H. bstep H s1 Hs1. bstep H x Hx. destruct x as [c3 retracted]. bstep H s2 Hs2. bstep H y Hy. destruct y as [c4 stt].
  destruct stt; try discriminate. inversion H; subst; clear H. unfold AIS. cbn.
  eapply remove_task_AI; [|exact Hy].
  eapply (process_retracted_AI rqf rqs (st_core s1 c3)); [|exact Hs2]. unfold AIS. cbn.
  eapply wake_consumers_AI; [|exact Hx].
  destruct (process_task_finished_active _ _ _ Hs1) as [C1 _]. unfold core_same in C1. rewrite C1. cbn.
  apply AI_upd_task; [exact A1 | exact Elk].
Qed.

(** * Start: the one place where the subtraction may saturate *)
Lemma task_running_AI rqf rqs s w id rv s' b :
  AIS rqf rqs s -> running_fits s w id = true -> task_running s w id rv = Ok (s', b) -> AIS rqf rqs s'.
Proof.
  unfold task_running, running_fits. intros HA HF H. cbv zeta in HF.
  destruct (find_task (c_tasks (core_of s)) id) as [t|] eqn:Ef; [|inversion H; subst; exact HA].
  bstep H rq Hrq. pose proof (AI_get_rq _ _ _ _ _ _ HA Ef Hrq) as Erq.
  pose proof (proj1 (AI_find _ _ _ _ _ HA Ef)) as Elk.
  pose proof (request_of_get_rq _ _ _ _ Ef Hrq) as Ereq.
  bstep H x Hx. destruct x as [s1 ws]. bstep H s2 Hs2. inversion H; subst; clear H.
  destruct (process_task_started_active _ _ _ _ _ _ Hs2) as [C2 _]. unfold core_same in C2. unfold AIS. rewrite C2.
  destruct (t_state t) as [n|w1 rv1|w1|w1|w1 rv1|ws0|]; try discriminate.
  - destruct (negb (N.eqb w1 w)); [discriminate|]. destruct (negb (N.eqb rv1 rv)); [discriminate|]. inversion Hx; subst. cbn.
    eapply AI_upd_same; [exact HA | exact Ef | reflexivity | reflexivity].
  - destruct (negb (N.eqb w1 w)); [discriminate|]. cbv zeta in Hx.
    bstep Hx wk Hw. bstep Hx wk' Hw'. bstep Hx q Hq. bstep Hx q' Hq'. inversion Hx; subst; clear Hx. cbn.
    cbn [c_workers upd_task with_tasks] in Hw. apply get_worker_find in Hw. rewrite Hw in HF.
    apply AI_upd_worker; [ai_frame; eapply AI_upd_same; [exact HA | exact Ef | reflexivity | reflexivity]|].
    eapply accw_p2s; [eapply ACCW_find; [exact (AI_workers _ _ _ HA) | exact Hw] | exact Hw' | exact Erq | rewrite <- Ereq; exact HF].
  - destruct (negb (N.eqb w1 w)); [discriminate|]. cbv zeta in Hx.
    bstep Hx c1 Hc1. bstep Hx wk Hw. bstep Hx wk' Hw'. inversion Hx; subst; clear Hx. cbn.
    change (core_of (ask_scheduling s)) with (with_flag (core_of s) true) in Hc1. rewrite Hc1 in HF.
    cbn [c_workers upd_task with_tasks] in Hw. apply get_worker_find in Hw. rewrite Hw in HF.
    assert (A1 : AI rqf rqs c1).
    { eapply try_remove_redirection_AI; [|exact Elk | exact Hc1]. ai_frame. exact HA. }
    apply AI_upd_worker; [apply AI_upd_task; [exact A1 | exact Elk]|].
    eapply accw_insert; [eapply ACCW_find; [exact (AI_workers _ _ _ A1) | exact Hw] | exact Hw' | exact Erq | rewrite <- Ereq; exact HF].
  - destruct ws0 as [|w0 wr]; [discriminate|]. destruct (N.eqb w0 w); [|discriminate]. inversion Hx; subst. exact HA.
Qed.
