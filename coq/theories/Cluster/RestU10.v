(** C02 "at rest", part 10: what one operation of the server does to a worker process, exactly:
    body unchanged, down channel extended, up channel unchanged or (OpDUp) its head popped. *)
From HQ Require Import Base.Prelude Cluster.Types Cluster.Core Cluster.Reactor Cluster.Worker Cluster.Server Cluster.Sys Cluster.Monitors Cluster.RejHyp Cluster.ProofsJob Cluster.ProofsMore Cluster.ProofsTerminal Cluster.ProofsStep Cluster.ProofsFinal Cluster.ProofsOnce Cluster.BijBase Cluster.BijCore Cluster.BijHq Cluster.BijSt Cluster.BijReact Cluster.BijFinal Cluster.InvWBase Cluster.InvDStep Cluster.InvBundle Cluster.InvProcsDef Cluster.NoPanicL0 Cluster.NoPanicU0 Cluster.NoPanicU1 Cluster.NoPanicU2 Cluster.NoPanicU6 Cluster.NoPanicU8 Cluster.NoPanicU11 Cluster.NoPanicU12 Cluster.NoPanicU20 Cluster.ExecU1 Cluster.ExecU4 Cluster.ExecU5 Cluster.ExecU6 Cluster.ExecU7 Cluster.ExecU9 Cluster.ExecU13 Cluster.ExecU19 Cluster.RestU2.
From Coq Require Import ZArith Lia Sorting.Sorted.
Local Open Scope N_scope.

Definition upr (o : op) (w : wid) (p p' : wproc) : Prop :=
  p_up p' = p_up p \/ (o = OpDUp w /\ exists m, p_up p = m :: p_up p').

Definition sfr (o : op) (s s' : sys) : Prop :=
  forall w p', find_proc (s_procs s') w = Some p' ->
    exists p add, find_proc (s_procs s) w = Some p /\ p_backlog p' = p_backlog p /\ p_running p' = p_running p /\
      p_futures p' = p_futures p /\ p_down p' = p_down p ++ add /\ upr o w p p'.

Lemma sfr_of_PR A o s s1 o1 s' outs : PR A (s1, o1) (s', outs) ->
  (forall w p1, find_proc (s_procs s1) w = Some p1 -> exists p, find_proc (s_procs s) w = Some p /\ p_backlog p1 = p_backlog p /\ p_running p1 = p_running p /\ p_down p1 = p_down p /\ upr o w p p1) ->
  forall w p', find_proc (s_procs s') w = Some p' ->
    exists p add, find_proc (s_procs s) w = Some p /\ p_backlog p' = p_backlog p /\ p_running p' = p_running p /\ p_down p' = p_down p ++ add /\ upr o w p p'.
Proof.
  intros (_ & P & _) Hpop w p' Hp'. destruct (P _ _ Hp') as (p1 & add & X1 & X2 & X3 & X4 & X5 & X6). cbn [fst] in X1.
  destruct (Hpop _ p1 X1) as (p & Hp & Eb & Er & Ed & Hu). exists p, add. split; [exact Hp|]. split; [congruence|]. split; [congruence|].
  split; [rewrite X5, Ed; reflexivity|]. unfold upr in *. rewrite X4. exact Hu.
Qed.

Lemma step_sfr s o s' outs :
  match o with OpConnect _ _ | OpDDown _ _ | OpEnd _ _ _ | OpFailNext _ _ | OpTimer => False | _ => True end ->
  INV s -> PROTO s -> PROTO s' -> step s o = Ok (s', outs) -> sfr o s s'.
Proof.
  intros Ho HI HP HP' H w p' Hp'. pose proof H as H0.
  destruct (step_body s o s' outs Ho HI HP H w p' Hp') as (pb & Hpb & Efu & _).
  assert (Hmain : exists p add, find_proc (s_procs s) w = Some p /\ p_backlog p' = p_backlog p /\ p_running p' = p_running p /\ p_down p' = p_down p ++ add /\ upr o w p p').
  { assert (Hsame : forall w1 p1, find_proc (s_procs s) w1 = Some p1 -> exists p, find_proc (s_procs s) w1 = Some p /\ p_backlog p1 = p_backlog p /\ p_running p1 = p_running p /\ p_down p1 = p_down p /\ upr o w1 p p1).
    { intros w1 p1 H1. exists p1. repeat split; auto. left. reflexivity. }
    destruct o; try destruct Ho; cbn [step] in H0.
    - (* lost *) destruct (find_proc (s_procs s) w0) as [pw|]; [|discriminate].
      destruct (on_remove_worker_EXF (s, []) _ _ _ _ _ (s', outs) (inv_cb _ HI) (pr_sorted _ HP) (pr_sorted _ HP') H0) as (_ & _ & P & _).
      destruct (P w p' Hp') as (_ & p0 & add & X1 & X2 & X3 & X4 & X5 & _). exists p0, add. repeat split; auto. left. exact X4.
    - eapply (sfr_of_PR quietA _ s s [] s' outs); [|exact Hsame | exact Hp'].
      destruct (bad_submit_lengths _ _); [inversion H0; subst; apply PR_same; reflexivity|]. eapply handle_submit_array_PR; [|exact H0]; intros w0 m Hm; exact Hm.
    - eapply (sfr_of_PR quietA _ s s [] s' outs); [|exact Hsame | exact Hp'].
      destruct (bad_graph_rq _ _); [inversion H0; subst; apply PR_same; reflexivity|]. destruct (dead_dep _ _ _); [inversion H0; subst; apply PR_same; reflexivity|]. eapply handle_submit_graph_PR; [|exact H0]. intros w0 m Hm; exact Hm.
    - eapply (sfr_of_PR quietA _ s s [] s' outs); [eapply handle_open_PR; exact H0 | exact Hsame | exact Hp'].
    - eapply (sfr_of_PR quietA _ s s [] s' outs); [eapply handle_close_PR; exact H0 | exact Hsame | exact Hp'].
    - eapply (sfr_of_PR quietA _ s s [] s' outs); [eapply handle_cancel_PR; [|exact H0]; intros w0 m Hm; exact Hm | exact Hsame | exact Hp'].
    - eapply (sfr_of_PR quietA _ s s [] s' outs); [eapply handle_forget_PR; exact H0 | exact Hsame | exact Hp'].
    - (* dup *) destruct (find_proc (s_procs s) w0) as [p|] eqn:Hp; [|discriminate]. destruct (p_up p) as [|m rest] eqn:Eu; [discriminate|].
      set (s1 := with_procs s (set_proc (s_procs s) (wp_up p rest))) in *.
      assert (Hpop : forall w1 p1, find_proc (s_procs s1) w1 = Some p1 -> exists p0, find_proc (s_procs s) w1 = Some p0 /\ p_backlog p1 = p_backlog p0 /\ p_running p1 = p_running p0 /\ p_down p1 = p_down p0 /\ upr (OpDUp w0) w1 p0 p1).
      { intros w1 p1 H1. cbn [s1 s_procs with_procs] in H1. rewrite find_set_proc in H1. cbn [wp_up wp_upd p_id] in H1.
        destruct (NoPanicL0.find_proc_some _ _ _ Hp) as [_ Hid]. rewrite Hid in H1.
        destruct (N.eqb w1 w0) eqn:E; [|exists p1; repeat split; auto; left; reflexivity]. apply N.eqb_eq in E. subst w1. inversion H1; subst p1. exists p.
        split; [exact Hp|]. cbn. repeat split; auto. right. split; [reflexivity|]. exists m. exact Eu. }
      pose proof (SP_pop s w0 p m rest [OUp w0 m] HP (INV_UH _ HI) Hp Eu) as S1. fold s1 in S1.
      destruct m as [us|ids].
      + eapply (sfr_of_PR quietA _ s s1 [OUp w0 (UUpdates us)] s' outs); [eapply on_task_update_PR; [intros w1 m Hm; exact Hm | exact S1 | exact H0] | exact Hpop | exact Hp'].
      + eapply (sfr_of_PR _ _ s s1 [OUp w0 (URetractResponse ids)] s' outs); [exact (on_retract_response_PR _ _ _ _ H0) | exact Hpop | exact Hp'].
    - destruct (c_flag (s_core s)); [|discriminate]. eapply (sfr_of_PR _ _ s s [] s' outs); [exact (run_scheduling_PR _ _ _ H0) | exact Hsame | exact Hp'].
    - (* prune *) apply bind_ok in H0. destruct H0 as (lj & _ & H0). inversion H0; subst. exists p', []. rewrite app_nil_r. repeat split; auto. left. reflexivity. }
  destruct Hmain as (p & add & Hp & X). assert (p = pb) by congruence. subst pb. exists p, add. split; [exact Hp|]. destruct X as (A & B & C & D). repeat split; assumption.
Qed.
