(** C03, the dependency invariant, part 3: what the reactor's functions do to the task map, seen
    as a function [fm c = find_task (c_tasks c)].
    [scr c c']: only states / instance ids / crash counters of tasks moved, and no task with a
    positive dependency counter changed its state.  *)
From HQ Require Import Base.Prelude Cluster.Types Cluster.Core Cluster.Reactor Cluster.Worker Cluster.Server Cluster.Sys Cluster.ProofsJob Cluster.ProofsMore Cluster.ProofsTerminal Cluster.ProofsStep Cluster.BijBase Cluster.BijCore Cluster.BijHq Cluster.BijSt Cluster.BijReact Cluster.FrameGen Cluster.CrashFrame Cluster.InvDBase Cluster.InvDMap.
From Coq Require Import ZArith Lia Sorting.Sorted.
Local Open Scope N_scope.

Arguments N.add : simpl never.
Arguments N.sub : simpl never.

Definition fm (c : core) : tmap := find_task (c_tasks c).

Lemma fm_id c id t : fm c id = Some t -> t_id t = id.
Proof. intros H. apply find_task_some in H. apply H. Qed.

(** Tasks that survive keep their dependency list (used for the job-layer side invariant). *)
Definition dsub (m m' : tmap) : Prop := forall id t', m' id = Some t' -> exists t, m id = Some t /\ t_deps t' = t_deps t.
Lemma dsub_refl m : dsub m m.
Proof. intros id t H. eauto. Qed.
Lemma dsub_trans m1 m2 m3 : dsub m1 m2 -> dsub m2 m3 -> dsub m1 m3.
Proof. intros A B id t3 H. destruct (B _ _ H) as (t2 & H2 & E2). destruct (A _ _ H2) as (t1 & H1 & E1). exists t1. split; [exact H1 | congruence]. Qed.
Lemma SC_dsub m m' : SC m m' -> dsub m m'.
Proof. intros S id t' H. destruct (SC_some' _ _ _ _ S H) as (t & Et & (_ & Hd & _) & _). eauto. Qed.
Lemma dsub_ext m m' : (forall x, m' x = m x) -> dsub m m'.
Proof. intros E id t H. rewrite E in H. eauto. Qed.

(** * State changes *)
Definition scr (c c' : core) : Prop := (TS c -> TS c') /\ SC (fm c) (fm c').

Lemma scr_refl c : scr c c.
Proof. split; [auto | apply SC_refl]. Qed.
Lemma scr_trans c1 c2 c3 : scr c1 c2 -> scr c2 c3 -> scr c1 c3.
Proof. intros [A1 B1] [A2 B2]. split; [auto | eapply SC_trans; eassumption]. Qed.
Lemma scr_tasks c c' : c_tasks c' = c_tasks c -> scr c c'.
Proof. intros E. split; [unfold TS; rewrite E; auto | apply SC_ext; intros x; unfold fm; rewrite E; reflexivity]. Qed.

Lemma scr_upd c c1 cres id t x :
  c_tasks c1 = c_tasks c -> find_task (c_tasks c) id = Some t -> c_tasks cres = set_task (c_tasks c1) x ->
  same_edges t x -> st_step (t_state t) (t_state x) -> scr c cres.
Proof.
  intros E1 Ef Er He Hs. destruct (find_task_some _ _ _ Ef) as [_ Hid]. destruct He as (Hi & Hd & Hc).
  assert (Efx : find_task (c_tasks c) (t_id x) = Some t) by (rewrite Hi, Hid; exact Ef).
  split.
  - unfold TS. intros Hs0. rewrite Er, E1, (set_task_ids _ _ _ Hs0 Efx). exact Hs0.
  - eapply (SC_upd _ _ id t x); [exact Ef | repeat split; assumption | exact Hs|].
    intros y. unfold fm. rewrite Er, E1, find_set_task. unfold mupd. rewrite Hi, Hid. reflexivity.
Qed.

(** Solve [st_step (t_state t) s'] from an equation for [t_state t]. *)
Ltac ststep :=
  try match goal with E : t_state ?t = _ |- st_step (t_state ?t) _ => rewrite E end;
  first [ left; reflexivity | right; split; cbn; auto; fail ].
Ltac edges := repeat split.

Lemma scr_dsub c c' : scr c c' -> dsub (fm c) (fm c').
Proof. intros [_ S]. apply SC_dsub. exact S. Qed.

Lemma scr_z_old c c' id t t' : scr c c' -> fm c id = Some t -> fm c' id = Some t' -> z_old (t_state t) -> z_old (t_state t').
Proof.
  intros [_ S] E E' Z. destruct (SC_some _ _ _ _ S E) as (t2 & E2 & _ & St). rewrite E' in E2. inversion E2; subst.
  eapply st_step_z_old; eassumption.
Qed.

(** * Reactor *)
Lemma retract_states_scr ids : forall c acc c' acc', retract_states c ids acc = Ok (c', acc') -> scr c c'.
Proof.
  induction ids as [|id r IH]; cbn [retract_states]; intros c acc c' acc' H; [inversion H; subst; apply scr_refl|].
  apply bind_ok in H. destruct H as (t & Ht & H). apply get_task_find in Ht.
  destruct (t_state t) eqn:Est; try discriminate.
  apply bind_ok in H. destruct H as (wk & _ & H). apply bind_ok in H. destruct H as (wk' & _ & H).
  eapply scr_trans; [|eapply IH; exact H].
  eapply (scr_upd c c _ id t); [reflexivity | exact Ht | reflexivity | edges | ststep].
Qed.

Lemma process_retracted_scr s r s' : process_retracted s r = Ok s' -> scr (core_of s) (core_of s').
Proof.
  unfold process_retracted. intros H. destruct r; [inversion H; subst; apply scr_refl|].
  apply bind_ok in H. destruct H as ([c' groups] & H1 & H). rewrite (send_all_core _ _ _ H). cbn.
  eapply retract_states_scr; exact H1.
Qed.

Lemma task_running_scr s w id rv s' b : task_running s w id rv = Ok (s', b) -> scr (core_of s) (core_of s').
Proof.
  intros H. unfold task_running in H.
  destruct (find_task (c_tasks (core_of s)) id) as [t|] eqn:Ef; [|inversion H; subst; apply scr_refl].
  apply bind_ok in H. destruct H as (rq & _ & H). apply bind_ok in H. destruct H as ([s1 ws] & H1 & H).
  apply bind_ok in H. destruct H as (s2 & H2 & H). inversion H; subst.
  destruct (process_task_started_active _ _ _ _ _ _ H2) as [C2 _]. unfold core_same in C2. rewrite C2.
  destruct (t_state t) eqn:Est; try discriminate.
  - destruct (negb (N.eqb w0 w)); [discriminate|]. destruct (negb (N.eqb rv0 rv)); [discriminate|]. inversion H1; subst.
    eapply (scr_upd _ (core_of s) _ id t); [reflexivity | exact Ef | reflexivity | edges | ststep].
  - destruct (negb (N.eqb w0 w)); [discriminate|]. inv_binds H1. inversion H1; subst.
    eapply (scr_upd _ (core_of s) _ id t); [reflexivity | exact Ef | reflexivity | edges | ststep].
  - destruct (negb (N.eqb w0 w)); [discriminate|].
    apply bind_ok in H1. destruct H1 as (c1 & Hc1 & H1). inv_binds H1. inversion H1; subst.
    pose proof (try_remove_redirection_tasks _ _ _ Hc1) as T1.
    eapply (scr_upd _ c1 _ id t); [exact T1 | exact Ef | reflexivity | edges | ststep].
  - destruct ws0; [discriminate|]. destruct (N.eqb w0 w); [|discriminate]. inversion H1; subst. apply scr_refl.
Qed.

Lemma requeue_scr s t c1 s' b :
  c_tasks c1 = c_tasks (core_of s) -> find_task (c_tasks (core_of s)) (t_id t) = Some t -> z_old (t_state t) ->
  (do (qs, ret) <- add_ready_task (c_queues c1) (with_state t (Waiting 0));
   do s'' <- process_retracted (st_core s (with_queues (upd_task c1 (with_state t (Waiting 0))) qs)) ret;
   Ok (s'', true)) = Ok (s', b) -> scr (core_of s) (core_of s').
Proof.
  intros Et Ef Z Hx. inv_binds Hx. inversion Hx; subst.
  match goal with X : process_retracted ?s0 _ = Ok _ |- _ => pose proof (process_retracted_scr _ _ _ X) as S2 end.
  eapply scr_trans; [|exact S2].
  eapply (scr_upd _ c1 _ (t_id t) t); [exact Et | exact Ef | reflexivity | edges | right; split; [exact Z | reflexivity]].
Qed.

Lemma task_reject_scr s w id rv s' b : task_reject s w id rv = Ok (s', b) -> scr (core_of s) (core_of s').
Proof.
  intros H. unfold task_reject in H.
  destruct (find_task (c_tasks (core_of s)) id) as [t|] eqn:Ef; [|inversion H; subst; apply scr_refl].
  destruct (find_task_some _ _ _ Ef) as [_ Hid].
  assert (Ef' : find_task (c_tasks (core_of s)) (t_id t) = Some t) by (rewrite Hid; exact Ef).
  apply bind_ok in H. destruct H as (wk & _ & H). apply bind_ok in H. destruct H as (rq & _ & H).
  apply bind_ok in H. destruct H as ([c1 cont] & Hr & H).
  assert (Et : c_tasks c1 = c_tasks (core_of s) /\ z_old (t_state t)).
  { destruct (t_state t); try discriminate.
    - split; [|exact I]. destruct (negb (N.eqb w w0)); [inversion Hr; reflexivity|].
      destruct rv as [v|]; [|inversion Hr; reflexivity].
      destruct (N.eqb v rv0); [inv_binds Hr|]; inversion Hr; reflexivity.
    - split; [|exact I]. inv_binds Hr. inversion Hr; reflexivity.
    - split; [|exact I]. destruct (negb (N.eqb w w0)); inversion Hr; reflexivity. }
  destruct Et as [Et Z].
  destruct (t_state t) eqn:Est; try (eapply requeue_scr; [exact Et | exact Ef' | rewrite Est; exact Z | exact H]).
  destruct cont.
  - destruct (find_redirect (c_redirects c1) id) as [[target rvt]|].
    + apply bind_ok in H. destruct H as (s1 & H1 & H). inversion H; subst.
      rewrite (send_worker_core _ _ _ _ H1).
      eapply (scr_upd _ c1 _ (t_id t) t); [exact Et | exact Ef' | reflexivity | edges | ststep].
    + eapply requeue_scr; [exact Et | exact Ef' | rewrite Est; exact Z | exact H].
  - inversion H; subst. apply scr_tasks. exact Et.
Qed.

Lemma request_enabled_tasks s w rq rv s' : request_enabled s w rq rv = Ok s' -> c_tasks (core_of s') = c_tasks (core_of s).
Proof. unfold request_enabled. intros H. inv_binds H. inversion H; subst. reflexivity. Qed.

Lemma retract_response_states_scr ids : forall c w acc c' acc',
  retract_response_states c w ids acc = (c', acc') -> scr c c'.
Proof.
  induction ids as [|id r IH]; cbn [retract_response_states]; intros c w acc c' acc' H; [inversion H; subst; apply scr_refl|].
  destruct (find_task (c_tasks c) id) as [t|] eqn:Ef; [|eapply IH; eassumption].
  destruct (t_state t) eqn:Est; try (eapply IH; eassumption).
  destruct (N.eqb w w0); [|eapply IH; eassumption].
  destruct (find_redirect _ id) as [[target rv]|].
  - eapply scr_trans; [|eapply IH; exact H].
    eapply (scr_upd c c _ id t); [reflexivity | exact Ef | reflexivity | edges | ststep].
  - eapply scr_trans; [|eapply IH; exact H].
    eapply (scr_upd c c _ id t); [reflexivity | exact Ef | reflexivity | edges | ststep].
Qed.

Lemma on_retract_response_scr s w ids s' : on_retract_response s w ids = Ok s' -> scr (core_of s) (core_of s').
Proof.
  unfold on_retract_response. intros H. destruct (retract_response_states _ w ids []) as [c' groups] eqn:E.
  apply bind_ok in H. destruct H as (s2 & H & H2).
  assert (X2 : scr (core_of s) (core_of s2)).
  { rewrite (send_redirected_core _ _ _ H). cbn. eapply retract_response_states_scr; exact E. }
  destruct (retract_wakes _ _ _ _); inversion H2; subst s'; clear H2; [|exact X2].
  eapply scr_trans; [exact X2 | apply scr_tasks; reflexivity].
Qed.

(** * Server: worker loss *)
Lemma lost_retracting_scr l : forall s w s', lost_retracting s w l = Ok s' -> scr (core_of s) (core_of s').
Proof.
  induction l as [|id r IH]; cbn [lost_retracting]; intros s w s' H; [inversion H; subst; apply scr_refl|].
  apply bind_ok in H. destruct H as (t & Ht & H). apply get_task_find in Ht.
  destruct (t_state t) eqn:Est; try (eapply IH; eassumption).
  destruct (N.eqb w w0); [|eapply IH; eassumption].
  destruct (find_redirect _ id) as [[target rv]|].
  - apply bind_ok in H. destruct H as (s1 & H1 & H).
    eapply scr_trans; [|eapply IH; exact H]. rewrite (send_worker_core _ _ _ _ H1).
    eapply (scr_upd _ (core_of s) _ id t); [reflexivity | exact Ht | reflexivity | edges | cbn; ststep].
  - eapply scr_trans; [|eapply IH; exact H].
    eapply (scr_upd _ (core_of s) _ id t); [reflexivity | exact Ht | reflexivity | edges | cbn; ststep].
Qed.

(** The lost worker's assigned tasks: the model does not look at the state of a task that is
    neither Running nor Retracting, so the caller must know it carries no positive counter. *)
Lemma lost_assigned_scr l : forall c running ret c' running' ret',
  (forall id t, In id l -> fm c id = Some t -> z_old (t_state t)) ->
  lost_assigned c l running ret = Ok (c', running', ret') -> scr c c'.
Proof.
  induction l as [|id r IH]; cbn [lost_assigned]; intros c running ret c' running' ret' HZ H; [inversion H; subst; apply scr_refl|].
  apply bind_ok in H. destruct H as (t & Ht & H). apply get_task_find in Ht.
  apply bind_ok in H. destruct H as ([[c1 t1] running1] & H1 & H).
  apply bind_ok in H. destruct H as ([qs rt] & _ & H).
  pose proof (HZ id t (or_introl eq_refl) Ht) as Z.
  assert (E1 : c_tasks c1 = c_tasks c /\ same_edges t t1 /\ st_step (t_state t) (t_state t1)).
  { destruct (t_state t) eqn:Est; try (inversion H1; subst; split; [reflexivity | split; [edges | right; split; [exact Z | reflexivity]]]).
    destruct (find_redirect _ id); inversion H1; subst. split; [reflexivity | split; [edges | left; exact Est]]. }
  destruct E1 as (Et & He & Hs).
  assert (S1 : scr c (with_queues (upd_task c1 (with_inst t1 (t_inst t1 + 1))) qs)).
  { eapply (scr_upd c c1 _ id t); [exact Et | exact Ht | reflexivity | destruct He as (A & B & C); edges; assumption | exact Hs]. }
  eapply scr_trans; [exact S1|]. eapply IH; [|exact H].
  intros id' t' Hin' E'. destruct S1 as [_ S1]. destruct (SC_some' _ _ _ _ S1 E') as (t0 & E0 & _ & St0).
  eapply st_step_z_old; [exact St0|]. eapply HZ; [right; exact Hin' | exact E0].
Qed.
