(** C01 / C08, ordering facts about the event stream - part 1: a generic "shape" pass.

    For an arbitrary predicate [Q] on outputs that holds of all the "plain" outputs (every event
    except [EvStarted] / [EvFinished] / [EvFailed], every client response, [ONewWorker]) the pass
    shows, function by function, that a piece of the server's execution only APPENDS outputs to
    the stream and that all of them satisfy [Q], provided the three per-task events it may emit
    satisfy [Q]:
      - [EvStarted t i ws rv] comes from [task_running s w t rv] only (update [URunning t rv] /
        [URunningPrefilled t rv] of a worker message),
      - [EvFinished t] comes from [task_finished s w t] only (update [UFinished t]),
      - [EvFailed t k] comes from [task_failed s w t k] only: update [UFailed t k] of a worker
        message, or [lost_fail_running] after a worker loss with k = FNeverRestart / FCrashLimit.
    [step_Q] is the statement for one operation of the system.  Instances: "no start is emitted"
    (SilentStart.v), "EvFinished x is emitted only while a message with UFinished x is processed"
    (SilentRan.v). *)
From HQ Require Import Base.Prelude Cluster.Types Cluster.Core Cluster.Reactor Cluster.Worker Cluster.Server Cluster.Sys Cluster.Monitors Cluster.ProofsJob Cluster.ProofsMore Cluster.ProofsTerminal Cluster.ProofsStep Cluster.ProofsFinal Cluster.BijBase Cluster.BijHq Cluster.ProofsOnce Cluster.RejHyp.
From Coq Require Import ZArith Lia.
Local Open Scope N_scope.

Arguments N.add : simpl never.
Arguments N.sub : simpl never.

(** Outputs every server function may emit. *)
Definition plain (o : out) : Prop :=
  match o with
  | OEv (EvStarted _ _ _ _) | OEv (EvFinished _) | OEv (EvFailed _ _) => False
  | OEv _ | OResp _ | ONewWorker _ => True
  | _ => False
  end.

(** Outputs [Sys.step] itself adds (message deliveries, launches, the prune request). *)
Definition direct (o : out) : Prop :=
  match o with ODown _ _ | OLaunch _ | OUp _ _ | OPrune _ _ => True | _ => False end.

Section Shape.
Variable Q : out -> Prop.
Hypothesis Q_plain : forall o, plain o -> Q o.

(** [EX s s']: the stream was extended by outputs that all satisfy [Q]. *)
Definition EX (s s' : st) : Prop := exists ext, snd s' = snd s ++ ext /\ Forall Q ext.

Lemma EX_refl s : EX s s.
Proof. exists []. split; [rewrite app_nil_r; reflexivity | constructor]. Qed.

Lemma EX_snd s s' : snd s' = snd s -> EX s s'.
Proof. intros E. exists []. split; [rewrite app_nil_r; exact E | constructor]. Qed.

Lemma EX_trans s1 s2 s3 : EX s1 s2 -> EX s2 s3 -> EX s1 s3.
Proof.
  intros (e1 & E1 & F1) (e2 & E2 & F2). exists (e1 ++ e2). split; [rewrite E2, E1, app_assoc; reflexivity|].
  apply Forall_app. split; assumption.
Qed.

Lemma EX_one s s' o : snd s' = snd s ++ [o] -> Q o -> EX s s'.
Proof. intros E Ho. exists [o]. split; [exact E | constructor; [exact Ho | constructor]]. Qed.

Lemma EX_emit s o : Q o -> EX s (emit s o).
Proof. intros Ho. apply (EX_one s (emit s o) o); [reflexivity | exact Ho]. Qed.

Lemma EX_emit_plain s o : plain o -> EX s (emit s o).
Proof. intros Ho. apply EX_emit. apply Q_plain. exact Ho. Qed.

(** * Job layer *)
Lemma check_termination_EX s jid s' : check_termination s jid = Ok s' -> EX s s'.
Proof.
  unfold check_termination. intros H. apply bind_ok in H. destruct H as (j & _ & H). apply bind_ok in H. destruct H as (na & _ & H).
  destruct na; [|inversion H; apply EX_refl]. destruct (j_open j); inversion H; subst; [apply EX_refl|].
  apply (EX_one s _ (OEv (EvCompleted jid))); [reflexivity | apply Q_plain; exact I].
Qed.

Lemma process_task_started_EX s t i ws rv s' :
  Q (OEv (EvStarted t i ws rv)) -> process_task_started s t i ws rv = Ok s' -> EX s s'.
Proof.
  intros Hq H. unfold process_task_started in H. apply bind_ok in H. destruct H as (j & _ & H).
  destruct (jt_find _ _); [|discriminate]. inversion H; subst.
  apply (EX_one s _ (OEv (EvStarted t i ws rv))); [reflexivity | exact Hq].
Qed.

Lemma process_task_finished_EX s t s' :
  Q (OEv (EvFinished t)) -> process_task_finished s t = Ok s' -> EX s s'.
Proof.
  intros Hq H. unfold process_task_finished in H. apply bind_ok in H. destruct H as (j & _ & H).
  destruct (jt_find _ _) as [[]|]; try discriminate.
  apply bind_ok in H. destruct H as (nr & _ & H).
  eapply EX_trans; [|eapply check_termination_EX; exact H].
  apply (EX_one s _ (OEv (EvFinished t))); [reflexivity | exact Hq].
Qed.

Lemma abort_tasks_EX s jid ids s' : abort_tasks s jid ids = Ok s' -> EX s s'.
Proof.
  unfold abort_tasks. destruct ids as [|i0 ir] eqn:Eids; [intros H; inversion H; apply EX_refl|]. rewrite <- Eids.
  intros H. apply bind_ok in H. destruct H as (j & _ & H). apply bind_ok in H. destruct H as (j1 & _ & H).
  eapply EX_trans; [|eapply check_termination_EX; exact H].
  apply (EX_one s _ (OEv (EvAborted ids))); [reflexivity | apply Q_plain; exact I].
Qed.

Lemma set_cancel_state_EX s jid ids s' : set_cancel_state s jid ids = Ok s' -> EX s s'.
Proof.
  unfold set_cancel_state. destruct ids as [|i0 ir] eqn:Eids; [intros H; inversion H; apply EX_refl|]. rewrite <- Eids.
  intros H. apply bind_ok in H. destruct H as (j & _ & H). apply bind_ok in H. destruct H as (j1 & _ & H).
  eapply EX_trans; [|eapply check_termination_EX; exact H].
  exists [OEv (EvJobCancel jid); OEv (EvCanceled ids)]. split; [unfold emit; cbn [fst snd]; rewrite <- app_assoc; reflexivity|].
  constructor; [apply Q_plain; exact I|]. constructor; [apply Q_plain; exact I | constructor].
Qed.

Lemma set_waiting_all_snd ts : forall s s', set_waiting_all s ts = Ok s' -> snd s' = snd s.
Proof.
  induction ts as [|t r IH]; cbn [set_waiting_all]; intros s s' H; [inversion H; reflexivity|].
  apply bind_ok in H. destruct H as (s0 & H0 & H). rewrite (IH _ _ H).
  unfold set_waiting_state in H0. apply bind_ok in H0. destruct H0 as (j & _ & H0).
  destruct (jt_find _ _) as [[]|]; try discriminate; try (inversion H0; reflexivity).
  apply bind_ok in H0. destruct H0 as (nr & _ & H0). inversion H0; reflexivity.
Qed.

Lemma process_worker_lost_EX s w running reason s' : process_worker_lost s w running reason = Ok s' -> EX s s'.
Proof.
  unfold process_worker_lost. intros H. apply bind_ok in H. destruct H as (s1 & H1 & H). inversion H; subst.
  apply (EX_one s _ (OEv (EvWLost w reason))); [cbn; rewrite (set_waiting_all_snd _ _ _ H1); reflexivity | apply Q_plain; exact I].
Qed.

Lemma process_task_failed_EX s t aborted k s' ids :
  Q (OEv (EvFailed t k)) -> process_task_failed s t aborted k = Ok (s', ids) -> EX s s'.
Proof.
  intros Hq Hc. unfold process_task_failed in Hc.
  apply bind_ok in Hc. destruct Hc as (s1 & H1 & Hc).
  apply bind_ok in Hc. destruct Hc as (j & _ & Hc).
  apply bind_ok in Hc. destruct Hc as (j1 & _ & Hc).
  apply bind_ok in Hc. destruct Hc as (s2 & H2 & Hc).
  apply bind_ok in Hc. destruct Hc as (j2 & _ & Hc).
  assert (E2 : EX s s2).
  { eapply EX_trans; [eapply abort_tasks_EX; exact H1|].
    eapply EX_trans; [|eapply check_termination_EX; exact H2].
    apply (EX_one s1 _ (OEv (EvFailed t k))); [reflexivity | exact Hq]. }
  destruct (j_maxfails j2) as [mf|]; [|inversion Hc; subst; exact E2].
  destruct (N.ltb mf (j_nfail j2)); [|inversion Hc; subst; exact E2].
  apply bind_ok in Hc. destruct Hc as (s3 & H3 & Hc). inversion Hc; subst.
  eapply EX_trans; [exact E2 | eapply abort_tasks_EX; exact H3].
Qed.

(** * Reactor *)
Lemma task_failed_EX s w id k s' : Q (OEv (EvFailed id k)) -> task_failed s w id k = Ok s' -> EX s s'.
Proof.
  intros Hq Hc. unfold task_failed in Hc.
  destruct (find_task _ id) as [t|]; [|inversion Hc; subst; apply EX_refl].
  inv_binds Hc.
  match goal with X : process_task_failed ?s0 _ _ _ = Ok (?s1, ?ids) |- _ =>
    assert (T1 : EX s0 s1) by (eapply process_task_failed_EX; [exact Hq | exact X]);
    destruct ids; [inversion Hc; subst; exact T1|] end.
  eapply EX_trans; [exact T1|]. apply EX_snd. eapply on_cancel_tasks_snd; exact Hc.
Qed.

Lemma task_finished_EX s w id s' b : Q (OEv (EvFinished id)) -> task_finished s w id = Ok (s', b) -> EX s s'.
Proof.
  intros Hq Hc. unfold task_finished in Hc.
  destruct (find_task _ id) as [t|]; [|inversion Hc; subst; apply EX_refl].
  inv_binds Hc.
  match goal with X : process_task_finished ?s0 _ = Ok ?s1 |- _ =>
    assert (T1 : EX s0 s1) by (eapply process_task_finished_EX; [exact Hq | exact X]) end.
  match goal with X : process_retracted _ _ = Ok _ |- _ => pose proof (process_retracted_snd _ _ _ X) as S2 end.
  match type of Hc with match ?st with _ => _ end = _ => destruct st; try discriminate end.
  inversion Hc; subst. eapply EX_trans; [exact T1|]. apply EX_snd. exact S2.
Qed.

Lemma task_running_EX s w id rv s' b :
  (forall i ws, Q (OEv (EvStarted id i ws rv))) -> task_running s w id rv = Ok (s', b) -> EX s s'.
Proof.
  intros Hq Hc. unfold task_running in Hc.
  destruct (find_task _ id) as [t|]; [|inversion Hc; subst; apply EX_refl].
  inv_binds Hc. inversion Hc; subst.
  match goal with X : process_task_started ?s1 _ _ _ _ = Ok _ |- _ =>
    eapply (EX_trans _ s1); [|eapply process_task_started_EX; [apply Hq | exact X]] end.
  apply EX_snd.
  match goal with X : match t_state t with _ => _ end = Ok _ |- _ => rename X into Hm end.
  destruct (t_state t); try discriminate.
  - destruct (negb (N.eqb w0 w)); [discriminate|]. destruct (negb (N.eqb rv0 rv)); [discriminate|]. inversion Hm; subst. reflexivity.
  - destruct (negb (N.eqb w0 w)); [discriminate|]. inv_binds Hm. inversion Hm; subst. reflexivity.
  - destruct (negb (N.eqb w0 w)); [discriminate|]. inv_binds Hm. inversion Hm; subst. reflexivity.
  - destruct ws; [discriminate|]. destruct (N.eqb w0 w); [|discriminate]. inversion Hm; subst. reflexivity.
Qed.

(** What an update of a worker message may make the server emit. *)
Definition Qu (u : wupdate) : Prop :=
  match u with
  | UFinished t => Q (OEv (EvFinished t))
  | UFailed t k => Q (OEv (EvFailed t k))
  | URunning t rv | URunningPrefilled t rv => forall i ws, Q (OEv (EvStarted t i ws rv))
  | UReject _ _ | UEnable _ _ => True
  end.

Lemma request_enabled_snd s w rq rv s' : request_enabled s w rq rv = Ok s' -> snd s' = snd s.
Proof. unfold request_enabled. intros H. inv_binds H. inversion H; reflexivity. Qed.

Lemma apply_one_EX s w u s' n : Qu u -> RejHyp.apply_one s w u = Ok (s', n) -> EX s s'.
Proof.
  intros Hq H. destruct u; cbn [RejHyp.apply_one Qu] in *.
  - eapply task_finished_EX; eassumption.
  - apply bind_ok in H. destruct H as (sx & Hf & H). inversion H; subst. eapply task_failed_EX; eassumption.
  - eapply task_running_EX; eassumption.
  - eapply task_running_EX; eassumption.
  - apply EX_snd. eapply task_reject_snd; exact H.
  - apply bind_ok in H. destruct H as (sx & Hf & H). inversion H; subst. apply EX_snd. eapply request_enabled_snd; exact Hf.
Qed.

Lemma apply_updates_EX us : forall s w need s' need',
  Forall Qu us -> apply_updates s w us need = Ok (s', need') -> EX s s'.
Proof.
  induction us as [|u r IH]; intros s w need s' need' Hq H; [cbn in H; inversion H; subst; apply EX_refl|].
  rewrite RejHyp.apply_updates_cons in H. apply bind_ok in H. destruct H as ([s1 n1] & Hu & H).
  inversion Hq as [|? ? Hq1 Hq2]; subst.
  eapply EX_trans; [eapply apply_one_EX; eassumption | eapply IH; eassumption].
Qed.

Lemma on_task_update_EX s w us s' : Forall Qu us -> on_task_update s w us = Ok s' -> EX s s'.
Proof.
  intros Hq H. unfold on_task_update in H. apply bind_ok in H. destruct H as ([s1 need] & Hu & H).
  pose proof (apply_updates_EX _ _ _ _ _ _ Hq Hu) as T1.
  destruct (need && _); inversion H; subst; [|exact T1].
  eapply EX_trans; [exact T1 | apply EX_snd; reflexivity].
Qed.

(** * Server *)
Definition Qlost : Prop := forall id, Q (OEv (EvFailed id FNeverRestart)) /\ Q (OEv (EvFailed id FCrashLimit)).

Lemma lost_fail_running_EX l : forall s reason s', Qlost -> lost_fail_running s reason l = Ok s' -> EX s s'.
Proof.
  induction l as [|id r IH]; cbn [lost_fail_running]; intros s reason s' Hq H; [inversion H; subst; apply EX_refl|].
  destruct (find_task _ id) as [t|]; [|eapply IH; eassumption].
  assert (Hfail : forall s0 k, Q (OEv (EvFailed id k)) -> snd s0 = snd s ->
            (do s1 <- task_failed s0 None id k; lost_fail_running s1 reason r) = Ok s' -> EX s s').
  { intros s0 k Hk S0 Hx. apply bind_ok in Hx. destruct Hx as (s1 & Hf & Hx).
    eapply EX_trans; [apply EX_snd; exact S0|].
    eapply EX_trans; [eapply task_failed_EX; [exact Hk | exact Hf]|].
    eapply IH; [exact Hq | exact Hx]. }
  destruct (t_climit t).
  - eapply (Hfail s); [exact (proj1 (Hq id)) | reflexivity | exact H].
  - destruct (reason_is_failure reason); [|eapply IH; eassumption].
    destruct (increment_crash_counter t) as [t' limit]. destruct limit.
    + eapply (Hfail (st_core s (upd_task (core_of s) t'))); [exact (proj2 (Hq id)) | reflexivity | exact H].
    + eapply EX_trans; [|eapply IH; [exact Hq | exact H]]. apply EX_snd. reflexivity.
  - destruct (reason_is_failure reason); [|eapply IH; eassumption].
    destruct (increment_crash_counter t) as [t' limit]. destruct limit.
    + eapply (Hfail (st_core s (upd_task (core_of s) t'))); [exact (proj2 (Hq id)) | reflexivity | exact H].
    + eapply EX_trans; [|eapply IH; [exact Hq | exact H]]. apply EX_snd. reflexivity.
Qed.

Lemma on_remove_worker_EX s w reason a p t s' : Qlost -> on_remove_worker s w reason a p t = Ok s' -> EX s s'.
Proof.
  intros Hq Hc. unfold on_remove_worker in Hc.
  destruct (find_worker _ w) as [wk|]; [|discriminate].
  apply bind_ok in Hc. destruct Hc as ([[c2 running] retracted] & _ & Hc).
  destruct (negb (perm_of_set t _)); [discriminate|].
  apply bind_ok in Hc. destruct Hc as (s3 & H3 & Hc). apply bind_ok in Hc. destruct Hc as (s4 & H4 & Hc).
  apply bind_ok in Hc. destruct Hc as (s6 & H6 & Hc). apply bind_ok in Hc. destruct Hc as (s7 & H7 & Hc). inversion Hc; subst.
  pose proof (lost_retracting_snd _ _ _ _ H3) as S3. pose proof (process_retracted_snd _ _ _ H4) as S4.
  set (s5 := broadcast s4 (DLostWorker w)) in *.
  assert (T5 : EX s s5) by (apply EX_snd; change (snd s4 = snd s); rewrite S4, S3; reflexivity).
  eapply EX_trans; [exact T5|]. eapply EX_trans; [eapply process_worker_lost_EX; exact H6|].
  eapply EX_trans; [eapply lost_fail_running_EX; [exact Hq | exact H7]|]. apply EX_snd. reflexivity.
Qed.

(** * Client requests *)
Lemma submit_ok_resp_EX s jid s' : submit_ok_resp s jid = Ok s' -> EX s s'.
Proof. unfold submit_ok_resp. intros H. inv_binds H. inversion H; subst. apply EX_emit_plain. exact I. Qed.

Lemma snd_if_hq_with (b : bool) X Y Z : snd (if b then hq_with X Y Z else X) = snd X.
Proof. destruct b; reflexivity. Qed.

Lemma handle_submit_array_EX s jobsel ids entries rq prio cl tlim mf s' :
  handle_submit_array s jobsel ids entries rq prio cl tlim mf = Ok s' -> EX s s'.
Proof.
  intros H. unfold handle_submit_array in H.
  match type of H with (match ?x with Some _ => _ | None => _ end) = _ => destruct x end;
    [inversion H; subst; apply EX_emit_plain; exact I|].
  apply bind_ok in H. destruct H as ([acc s1] & Hr & H).
  assert (E1 : EX s s1).
  { destruct jobsel as [jid|]; [|inversion Hr; apply EX_snd; reflexivity].
    destruct (find_job (hq_jobs s) jid) as [j|]; [|inversion Hr; subst; apply EX_refl].
    destruct (negb (j_open j)); inversion Hr; subst; [apply EX_emit_plain; exact I | apply EX_refl]. }
  destruct acc as [[[jid is_new] ids']|].
  - cbv zeta in H.
    match type of H with context [get_or_create_rq ?sx rq] => set (s3 := sx) in *; destruct (get_or_create_rq s3 rq) as [s4 rqi] eqn:Erq end.
    pose proof (get_or_create_rq_snd s3 rq) as S4. rewrite Erq in S4. cbn [fst] in S4.
    assert (E3 : EX s1 s3).
    { subst s3. match goal with |- EX _ (if _ then hq_with ?X _ _ else _) => apply (EX_one s1 _ (OEv (EvSubmit jid is_new (N.of_nat (length ids'))))) end;
        [rewrite snd_if_hq_with; reflexivity | apply Q_plain; exact I]. }
    apply bind_ok in H. destruct H as (j & _ & H). apply bind_ok in H. destruct H as (j' & _ & H).
    apply bind_ok in H. destruct H as (s6 & H6 & H).
    eapply EX_trans; [exact E1|]. eapply EX_trans; [exact E3|]. eapply EX_trans; [|eapply submit_ok_resp_EX; exact H].
    apply EX_snd. rewrite (on_new_tasks_snd _ _ _ H6). cbn [snd hq_set_job]. exact S4.
  - destruct jobsel; [match type of H with (match ?x with Some _ => _ | None => _ end) = _ => destruct x end|];
      injection H as Hx; rewrite <- Hx; try exact E1.
    eapply EX_trans; [exact E1 | apply EX_emit_plain; exact I].
Qed.

Lemma handle_submit_graph_EX s jobsel rqs ts mf s' :
  handle_submit_graph s jobsel rqs ts mf = Ok s' -> EX s s'.
Proof.
  intros H. unfold handle_submit_graph in H.
  apply bind_ok in H. destruct H as (v1 & _ & H).
  match type of H with (match ?x with Some _ => _ | None => _ end) = _ => destruct x end;
    [inversion H; subst; apply EX_emit_plain; exact I|].
  apply bind_ok in H. destruct H as ([acc s1] & Hr & H).
  assert (E1 : EX s s1).
  { destruct jobsel as [jid|]; [|inversion Hr; apply EX_snd; reflexivity].
    destruct (find_job (hq_jobs s) jid) as [j|]; [|inversion Hr; subst; apply EX_emit_plain; exact I].
    destruct (negb (j_open j)); inversion Hr; subst; [apply EX_emit_plain; exact I | apply EX_refl]. }
  destruct acc as [[jid is_new]|].
  - cbv zeta in H.
    match type of H with context [fold_left ?f rqs (?sx, [])] => set (s3 := sx) in *; destruct (fold_left f rqs (s3, [])) as [s4 rqis] eqn:Erq end.
    pose proof (fold_rqs_snd _ _ _ _ _ Erq) as S4.
    assert (E3 : EX s1 s3).
    { subst s3. match goal with |- EX _ (if _ then hq_with ?X _ _ else _) => apply (EX_one s1 _ (OEv (EvSubmit jid is_new (N.of_nat (length ts))))) end;
        [rewrite snd_if_hq_with; reflexivity | apply Q_plain; exact I]. }
    apply bind_ok in H. destruct H as (j & _ & H). apply bind_ok in H. destruct H as (j' & _ & H).
    apply bind_ok in H. destruct H as (tasks & _ & H). apply bind_ok in H. destruct H as (s6 & H6 & H).
    eapply EX_trans; [exact E1|]. eapply EX_trans; [exact E3|]. eapply EX_trans; [|eapply submit_ok_resp_EX; exact H].
    apply EX_snd. rewrite (on_new_tasks_snd _ _ _ H6). cbn [snd hq_set_job]. exact S4.
  - inversion H; subst. exact E1.
Qed.

Lemma handle_cancel_EX s j s' : handle_cancel s j = Ok s' -> EX s s'.
Proof.
  intros H. unfold handle_cancel in H. destruct (find_job _ j) as [jb|]; [|inversion H; subst; apply EX_emit_plain; exact I].
  destruct (non_finished_task_ids jb) eqn:En; [inversion H; subst; apply EX_emit_plain; exact I|]. rewrite <- En in H.
  apply bind_ok in H. destruct H as (s1 & H1 & H). apply bind_ok in H. destruct H as (al & _ & H).
  apply bind_ok in H. destruct H as (s2 & H2 & H). inversion H; subst.
  eapply EX_trans; [apply EX_snd; eapply on_cancel_tasks_snd; exact H1|].
  eapply EX_trans; [eapply set_cancel_state_EX; exact H2|]. apply EX_emit_plain. exact I.
Qed.

Lemma Forall_map_launch ls : (forall x, direct x -> Q x) -> Forall Q (map OLaunch ls).
Proof. intros Hd. induction ls as [|l r IH]; [constructor | constructor; [apply Hd; exact I | exact IH]]. Qed.

(** When may an operation make the server emit a per-task event. *)
Definition op_cond (s : sys) (o : op) : Prop :=
  match o with
  | OpDUp w => forall p us rest, find_proc (s_procs s) w = Some p -> p_up p = UUpdates us :: rest -> Forall Qu us
  | OpLost _ _ _ _ _ => Qlost
  | _ => True
  end.

Lemma EX_eq s (x y : st) : Ok x = Ok y -> EX s x -> EX s y.
Proof. intros E. inversion E; subst. auto. Qed.

Lemma EX_nil s' outs (s : sys) : EX (s, []) (s', outs) -> Forall Q outs.
Proof. intros (ext & E & F). cbn in E. subst outs. exact F. Qed.

(** One operation of the whole system. *)
Theorem step_Q s o s' outs :
  (forall x, direct x -> Q x) -> op_cond s o -> step s o = Ok (s', outs) -> Forall Q outs.
Proof.
  intros Hd Hc H. destruct o; cbn [step op_cond] in *.
  - apply (EX_nil s' outs s). unfold on_new_worker in H. cbv zeta in H. inversion H; subst.
    exists [OEv (EvWConn (c_wcounter (s_core s) + 1)); ONewWorker (c_wcounter (s_core s) + 1)]. split; [reflexivity|].
    constructor; [apply Q_plain; exact I|]. constructor; [apply Q_plain; exact I | constructor].
  - destruct (find_proc _ w); [|discriminate]. apply (EX_nil s' outs s). eapply on_remove_worker_EX; eassumption.
  - destruct (bad_submit_lengths _ _); [inversion H; subst; constructor; [apply Q_plain; exact I | constructor]|]. apply (EX_nil s' outs s). eapply handle_submit_array_EX; exact H.
  - destruct (bad_graph_rq _ _); [inversion H; subst; constructor; [apply Q_plain; exact I | constructor]|]. destruct (dead_dep _ _ _); [inversion H; subst; constructor; [apply Q_plain; exact I | constructor]|].
    apply (EX_nil s' outs s). eapply handle_submit_graph_EX; exact H.
  - unfold handle_open in H. inversion H; subst. constructor; [apply Q_plain; exact I|]. constructor; [apply Q_plain; exact I | constructor].
  - apply (EX_nil s' outs s). unfold handle_close in H.
    destruct (find_job _ j) as [jb|]; [|eapply EX_eq; [exact H|]; apply EX_emit_plain; exact I].
    destruct (j_open jb); [|eapply EX_eq; [exact H|]; apply EX_emit_plain; exact I].
    apply bind_ok in H. destruct H as (s1 & H1 & H). eapply EX_eq; [exact H|].
    eapply EX_trans; [|apply EX_emit_plain; exact I]. eapply EX_trans; [|eapply check_termination_EX; exact H1].
    match goal with |- EX ?a (emit ?b ?o) => apply (EX_one a (emit b o) o); [reflexivity | apply Q_plain; exact I] end.
  - apply (EX_nil s' outs s). eapply handle_cancel_EX; exact H.
  - apply (EX_nil s' outs s). unfold handle_forget in H. destruct (find_job _ j) as [jb|]; [|eapply EX_eq; [exact H|]; apply EX_emit_plain; exact I].
    apply bind_ok in H. destruct H as (na & _ & H).
    destruct (negb (j_open jb) && na); (eapply EX_eq; [exact H|]);
      match goal with |- EX ?a (emit ?b ?o) => apply (EX_one a (emit b o) o); [reflexivity | apply Q_plain; exact I] end.
  - destruct (find_proc _ w) as [p|]; [|discriminate]. destruct (p_down p); [discriminate|].
    inv_binds H. inversion H; subst. constructor; [apply Hd; exact I | apply Forall_map_launch; exact Hd].
  - destruct (find_proc _ w) as [p|] eqn:Hp; [|discriminate]. destruct (p_up p) as [|m rest] eqn:Eu; [discriminate|].
    destruct m.
    + match type of H with on_task_update ?s1 _ _ = _ => assert (T : EX s1 (s', outs)) by (eapply on_task_update_EX; [exact (Hc p us rest eq_refl Eu) | exact H]) end.
      destruct T as (ext & E & F). cbn [snd] in E. rewrite E. constructor; [apply Hd; exact I | exact F].
    + unfold on_retract_response in H. destruct (retract_response_states _ w ids []) as [c' groups].
      apply bind_ok in H. destruct H as (s2 & H & H2).
      assert (Es : snd (s', outs) = snd s2) by (destruct (retract_wakes _ _ _ _); inversion H2; subst; reflexivity).
      cbn [snd] in Es. rewrite Es.
      pose proof (send_redirected_snd _ _ _ H) as E. cbn [snd st_core] in E. rewrite E. constructor; [apply Hd; exact I | constructor].
  - destruct (c_flag (s_core s)); [|discriminate]. pose proof (run_scheduling_snd _ _ _ H) as E. cbn [snd] in E. rewrite E. constructor.
  - destruct (find_proc _ w) as [p|]; [|discriminate]. inv_binds H. inversion H; subst. apply Forall_map_launch. exact Hd.
  - destruct (find_proc _ w) as [p|]; [|discriminate]. inversion H; subst. constructor.
  - inversion H; subst. constructor.
  - inv_binds H. inversion H; subst. constructor; [apply Hd; exact I | constructor].
Qed.

End Shape.
