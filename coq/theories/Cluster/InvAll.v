(** The three core-level invariants put together: worker sets (InvW*.v), queues (InvQ*.v) and
    dependencies (InvD*.v) hold in EVERY reachable state of the system model, under the two
    hypotheses on the history: [op_wf] (a submit sends as many entries as explicit ids) and the
    executable hypothesis [run_fresh] of RejHyp.v (a processed reject comes from the worker the
    task is placed on and echoes its variant; a task placed as multi-node has a multi-node
    request).  Together they are the invariant I1 ([Monitors.core_ok] without the accounting
    conjunct, which the known finding F23 refutes). *)
From HQ Require Import Base.Prelude Cluster.Types Cluster.Core Cluster.Reactor Cluster.Worker Cluster.Server Cluster.Sys Cluster.Monitors Cluster.ProofsJob Cluster.ProofsFinal Cluster.BijFinal Cluster.RejHyp Cluster.InvWFinal Cluster.InvQBase Cluster.InvQStep Cluster.InvDSched Cluster.InvDStep.
From Coq Require Import ZArith Lia.
Local Open Scope N_scope.

(** Histories compose. *)
Lemma run_snoc pre : forall s o s1 o1 s2 o2,
  run s pre = Ok (s1, o1) -> step s1 o = Ok (s2, o2) -> run s (pre ++ [o]) = Ok (s2, o1 ++ o2).
Proof.
  induction pre as [|p r IH]; cbn [run app]; intros s o s1 o1 s2 o2 H1 H2.
  - inversion H1; subst. rewrite H2. cbn. rewrite app_nil_r. reflexivity.
  - apply bind_ok in H1. destruct H1 as ([sa oa] & Ha & H1). apply bind_ok in H1. destruct H1 as ([sb ob] & Hb & H1).
    inversion H1; subst. rewrite Ha. cbn [bind]. rewrite (IH _ _ _ _ _ _ Hb H2). cbn. rewrite app_assoc. reflexivity.
Qed.

Lemma run_fresh_snoc pre : forall s o s1 o1,
  run s pre = Ok (s1, o1) -> run_fresh s pre = true ->
  run_fresh s (pre ++ [o]) = (step_fresh s1 o && match step s1 o with Ok _ => true | _ => true end).
Proof.
  induction pre as [|p r IH]; cbn [run run_fresh app]; intros s o s1 o1 H1 Hf.
  - inversion H1; subst. destruct (step s1 o) as [[s2 o2]| |]; cbn; rewrite ?andb_true_r; reflexivity.
  - apply bind_ok in H1. destruct H1 as ([sa oa] & Ha & H1). apply bind_ok in H1. destruct H1 as ([sb ob] & Hb & H1).
    inversion H1; subst. rewrite Ha in *. apply andb_true_iff in Hf. destruct Hf as [Hf1 Hf2]. rewrite Hf1. cbn [andb].
    exact (IH _ _ _ _ Hb Hf2).
Qed.

Lemma Forall_snoc {A} (P : A -> Prop) l x : Forall P l -> P x -> Forall P (l ++ [x]).
Proof. intros Hl Hx. apply (proj2 (Forall_app P l [x])). split; [exact Hl|]. constructor; [exact Hx | constructor]. Qed.

(** A property of every reachable state holds along every history. *)
Lemma along_reach (P : sys -> Prop) r m :
  (forall ops s outs, Forall op_wf ops -> run_fresh (init_sys r m) ops = true -> run (init_sys r m) ops = Ok (s, outs) -> P s) ->
  forall ops pre s outs, Forall op_wf pre -> run_fresh (init_sys r m) pre = true -> run (init_sys r m) pre = Ok (s, outs) ->
    Forall op_wf ops -> run_fresh s ops = true -> along P s ops.
Proof.
  intros HP. induction ops as [|o rest IH]; intros pre s outs Hwp Hfp Hrp Hw Hf.
  - split; [exact (HP pre s outs Hwp Hfp Hrp) | exact I].
  - split; [exact (HP pre s outs Hwp Hfp Hrp)|].
    destruct (step s o) as [[s1 o1]| |] eqn:Est; [|exact I|exact I].
    inversion Hw as [|? ? Hw1 Hw2]; subst.
    cbn [run_fresh] in Hf. rewrite Est in Hf. apply andb_true_iff in Hf. destruct Hf as [Hf1 Hf2].
    eapply (IH (pre ++ [o]) s1 (outs ++ o1)); [apply Forall_snoc; assumption | | eapply run_snoc; eassumption | exact Hw2 | exact Hf2].
    rewrite (run_fresh_snoc _ _ _ _ _ Hrp Hfp), Hf1, Est. reflexivity.
Qed.

(** * The queue invariant, with the worker-set premise discharged *)
Theorem queue_invariant_reachable ops reserve maxfill s outs :
  Forall op_wf ops -> run_fresh (init_sys reserve maxfill) ops = true -> run (init_sys reserve maxfill) ops = Ok (s, outs) ->
  let c := s_core s in
  queues_live_ok c = true /\
  (forall t, In t (c_tasks c) ->
     let q := queue_of c (t_rq t) in
     match t_state t with
     | Waiting n => in_ready q (t_id t) = N.eqb n 0 /\ in_prefill q (t_id t) = false
     | Prefilled _ => in_prefill q (t_id t) = true /\ in_ready q (t_id t) = false
     | Retracting _ => in_prefill q (t_id t) = false /\
                       (in_ready q (t_id t) = match find_redirect (c_redirects c) (t_id t) with Some _ => false | None => true end)
     | Assigned _ _ | Running _ _ | RunningMN _ => in_ready q (t_id t) = false /\ in_prefill q (t_id t) = false
     | Finished => False
     end) /\
  (forall rq q id, nth_error (c_queues c) rq = Some q -> (in_ready q id = true \/ in_prefill q id = true) ->
     exists t, find_task (c_tasks c) id = Some t /\ N.to_nat (t_rq t) = rq).
Proof.
  intros Hwf Hf H. apply (queue_invariant ops reserve maxfill s outs Hwf H).
  eapply (along_impl (fun s0 => InvWFinal.asg_ok (s_core s0))).
  - intros s0 Hs0 wk a p f id t. apply Hs0.
  - eapply (along_reach _ reserve maxfill) with (pre := []); [| constructor | reflexivity | reflexivity | exact Hwf | exact Hf].
    intros ops0 s0 outs0 Hw0 Hf0 Hr0. eapply asg_ok_reachable; eassumption.
Qed.

(** * The dependency invariant, with both premises discharged (C03) *)
Theorem deps_invariant_reachable ops reserve maxfill s outs :
  Forall op_wf ops -> run_fresh (init_sys reserve maxfill) ops = true -> run (init_sys reserve maxfill) ops = Ok (s, outs) ->
  forallb (deps_ok (s_core s)) (c_tasks (s_core s)) = true.
Proof.
  apply deps_invariant.
  - intros ops0 r m s0 outs0 Hw Hf Hr. destruct (queue_invariant_reachable _ _ _ _ _ Hw Hf Hr) as (_ & Q1 & Q2). split; [exact Q1 | exact Q2].
  - intros ops0 r m s0 outs0 Hw Hf Hr. exact (proj1 (worker_sets_invariant _ _ _ _ _ Hw Hf Hr)).
Qed.

(** Readable consequence: a task that has left the Waiting state (assigned, prefilled, being
    retracted, running) has NO dependency left in the core - every task it depends on has finished
    and been removed (a dependency that fails or is cancelled takes its dependents with it). *)
Corollary placed_task_has_no_pending_dependency ops reserve maxfill s outs :
  Forall op_wf ops -> run_fresh (init_sys reserve maxfill) ops = true -> run (init_sys reserve maxfill) ops = Ok (s, outs) ->
  forall t, In t (c_tasks (s_core s)) -> (match t_state t with Waiting _ => False | _ => True end) ->
  forall d, In d (t_deps t) -> find_task (c_tasks (s_core s)) d = None.
Proof.
  intros Hwf Hf H t Hin Hst d Hd.
  pose proof (deps_invariant_reachable _ _ _ _ _ Hwf Hf H) as HD. rewrite forallb_forall in HD.
  specialize (HD t Hin). unfold deps_ok in HD. apply andb_true_iff in HD. destruct HD as [HD _].
  destruct (t_state t); try contradiction;
    (rewrite forallb_forall in HD; specialize (HD d Hd); destruct (find_task (c_tasks (s_core s)) d); [discriminate | reflexivity]).
Qed.

(** ... and a task the scheduler may take (Waiting with counter 0) has none either. *)
Corollary ready_task_has_no_pending_dependency ops reserve maxfill s outs :
  Forall op_wf ops -> run_fresh (init_sys reserve maxfill) ops = true -> run (init_sys reserve maxfill) ops = Ok (s, outs) ->
  forall t, In t (c_tasks (s_core s)) -> t_state t = Waiting 0 ->
  forall d, In d (t_deps t) -> find_task (c_tasks (s_core s)) d = None.
Proof.
  intros Hwf Hf H t Hin Hst d Hd.
  pose proof (deps_invariant_reachable _ _ _ _ _ Hwf Hf H) as HD. rewrite forallb_forall in HD.
  specialize (HD t Hin). unfold deps_ok in HD. apply andb_true_iff in HD. destruct HD as [HD _].
  rewrite Hst in HD. apply N.eqb_eq in HD.
  destruct (find_task (c_tasks (s_core s)) d) as [dt|] eqn:Ef; [|reflexivity]. exfalso.
  (* dt is in the core, hence not Finished (queue invariant), so it is counted *)
  destruct (queue_invariant_reachable _ _ _ _ _ Hwf Hf H) as (_ & Q1 & _).
  destruct (BijBase.find_task_some _ _ _ Ef) as [Hdin _]. specialize (Q1 dt Hdin). cbv zeta in Q1.
  assert (Hnf : is_finished dt = false) by (unfold is_finished; destruct (t_state dt); try reflexivity; contradiction).
  assert (Hmem : In d (filter (fun d0 => match find_task (c_tasks (s_core s)) d0 with Some dt0 => negb (is_finished dt0) | None => false end) (t_deps t))).
  { apply filter_In. split; [exact Hd|]. rewrite Ef, Hnf. reflexivity. }
  destruct (filter _ (t_deps t)); [destruct Hmem | cbn in HD; lia].
Qed.
